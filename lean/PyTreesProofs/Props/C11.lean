/-
  C11 — child management on composites keeps parent links and children lists in agreement (heap model).
-/
import PyTreesModel.Heap
set_option linter.unusedVariables false
set_option linter.unusedSimpArgs false
open Heap

namespace Heap

/-- parent links and children lists agree -/
def Cons (h : Heap) : Prop :=
  (∀ i n, h.get? i = some n → ∀ c ∈ n.children, ∃ cn, h.get? c = some cn ∧ cn.parent = some i) ∧
  (∀ i n, h.get? i = some n → ∀ p, n.parent = some p → ∃ pn, h.get? p = some pn ∧ i ∈ pn.children) ∧
  (∀ i n, h.get? i = some n → n.children.Nodup) ∧
  (∀ i n, h.get? i = some n → ∀ c, n.cur = some c → c ∈ n.children)

inductive HOp
| add (p : Nat) (c : Option Nat)
| addMany (p : Nat) (cs : List (Option Nat))
| insert (p : Nat) (c : Option Nat) (idx : Int)
| remove (p c : Nat)
| removeById (p c : Nat)
| removeAll (p : Nat)
| replace (p c : Nat) (r : Option Nat)
| decorate (c : Option Nat)
| mark (i : Nat) (s : Status)

/-- one call; a rejected call leaves the heap as it was -/
def hstep (h : Heap) : HOp → Heap
| .add p c => match addChild h p c with | .ok h' => h' | .error _ => h
| .addMany p cs => match addChildren h p cs with | .ok h' => h' | .error _ => h
| .insert p c idx => match insertChild h p c idx with | .ok h' => h' | .error _ => h
| .remove p c => match removeChild h p c with | .ok r => r.1 | .error _ => h
| .removeById p c => match removeChildById h p c with | .ok h' => h' | .error _ => h
| .removeAll p => removeAll h p
| .replace p c r => match replaceChild h p c r with | .ok h' => h' | .error _ => h
| .decorate c => match decorate h c with | .ok h' => h' | .error _ => h
| .mark i s => h.upd i (fun x => { x with status := s })

def hrun (ops : List HOp) (h : Heap) : Heap := ops.foldl hstep h

end Heap

namespace C11

/-! ### `upd` -/

theorem get?_upd (h : Heap) (i j : Nat) (f : HNode → HNode) :
    (h.upd i f).get? j = if j = i then (h.get? j).map f else h.get? j := by
  unfold upd Heap.get?
  cases hi : h[i]? with
  | none =>
    by_cases hji : j = i
    · subst hji; simp [hi]
    · simp [hji]
  | some n =>
    simp only
    rw [List.getElem?_set]
    by_cases hji : j = i
    · subst hji
      have hlt : j < h.length := by
        rcases Nat.lt_or_ge j h.length with h1 | h1
        · exact h1
        · rw [List.getElem?_eq_none h1] at hi; cases hi
      have hget : h[j] = n := by
        rw [List.getElem?_eq_getElem hlt] at hi; exact Option.some.inj hi
      simp [hi, hlt, hget]
    · have : ¬ i = j := fun e => hji e.symm
      simp [hji, this]

theorem get?_upd_same {h : Heap} {i : Nat} {n : HNode} (f : HNode → HNode) (hn : h.get? i = some n) :
    (h.upd i f).get? i = some (f n) := by
  rw [get?_upd]; simp [hn]

theorem get?_upd_other {h : Heap} {i j : Nat} (f : HNode → HNode) (hne : j ≠ i) :
    (h.upd i f).get? j = h.get? j := by
  rw [get?_upd]; simp [hne]

theorem length_upd (h : Heap) (i : Nat) (f : HNode → HNode) : (h.upd i f).length = h.length := by
  unfold upd
  cases h[i]? <;> simp

theorem get?_none_iff {h : Heap} {j : Nat} : h.get? j = none ↔ h.length ≤ j := by
  unfold Heap.get?; simp

/-! ### structure-preserving changes: children kept, `cur` kept or forgotten, parents of `D` cleared -/

def Det (D : List Nat) (h h' : Heap) : Prop :=
  ∀ j, (h.get? j = none → h'.get? j = none) ∧
    ∀ n, h.get? j = some n → ∃ n', h'.get? j = some n' ∧ n'.children = n.children ∧
      (n'.cur = n.cur ∨ n'.cur = none) ∧ n'.parent = (if j ∈ D then none else n.parent)

theorem Det.refl (h : Heap) : Det [] h h := by
  intro j; refine ⟨id, fun n hn => ⟨n, hn, rfl, Or.inl rfl, by simp⟩⟩

theorem Det.trans {D1 D2 : List Nat} {h h' h'' : Heap} (h1 : Det D1 h h') (h2 : Det D2 h' h'') :
    Det (D1 ++ D2) h h'' := by
  intro j
  refine ⟨fun hn => (h2 j).1 ((h1 j).1 hn), fun n hn => ?_⟩
  obtain ⟨n', hn', hc', hcur', hp'⟩ := (h1 j).2 n hn
  obtain ⟨n'', hn'', hc'', hcur'', hp''⟩ := (h2 j).2 n' hn'
  refine ⟨n'', hn'', by rw [hc'', hc'], ?_, ?_⟩
  · rcases hcur'' with e | e
    · rw [e]; exact hcur'
    · exact Or.inr e
  · rw [hp'', hp']
    by_cases a : j ∈ D1 <;> by_cases b : j ∈ D2 <;> simp [a, b]

theorem Det.trans_nil {h h' h'' : Heap} (h1 : Det [] h h') (h2 : Det [] h' h'') : Det [] h h'' := by
  simpa using Det.trans h1 h2

theorem Det_upd (h : Heap) (i : Nat) (f : HNode → HNode)
    (hf : ∀ x, (f x).children = x.children ∧ ((f x).cur = x.cur ∨ (f x).cur = none) ∧ (f x).parent = x.parent) :
    Det [] h (h.upd i f) := by
  intro j
  rw [get?_upd]
  by_cases hji : j = i
  · subst hji
    refine ⟨fun hn => by simp [hn], fun n hn => ?_⟩
    refine ⟨f n, by simp [hn], (hf n).1, (hf n).2.1, by simp [(hf n).2.2]⟩
  · simp only [hji, if_false]
    refine ⟨id, fun n hn => ⟨n, hn, rfl, Or.inl rfl, by simp⟩⟩

theorem Det_upd_parent (h : Heap) (c : Nat) :
    Det [c] h (h.upd c (fun x => { x with parent := none })) := by
  intro j
  rw [get?_upd]
  by_cases hji : j = c
  · subst hji
    refine ⟨fun hn => by simp [hn], fun n hn => ?_⟩
    exact ⟨{ n with parent := none }, by simp [hn], rfl, Or.inl rfl, by simp⟩
  · simp only [hji, if_false]
    refine ⟨id, fun n hn => ⟨n, hn, rfl, Or.inl rfl, by simp [hji]⟩⟩

theorem Det_foldl {α : Type} (g : Heap → α → Heap) (hg : ∀ acc c, Det [] acc (g acc c)) :
    ∀ (l : List α) (h : Heap), Det [] h (l.foldl g h)
| [], h => Det.refl h
| c :: l, h => by
    simp only [List.foldl_cons]
    exact Det.trans_nil (hg h c) (Det_foldl g hg l (g h c))

theorem stopInv_Det : ∀ (f : Nat) (h : Heap) (i : Nat), Det [] h (stopInv f h i)
| 0, h, i => by unfold stopInv; exact Det.refl h
| f+1, h, i => by
    unfold stopInv
    cases hn : h.get? i with
    | none => exact Det.refl h
    | some n =>
      simp only
      refine Det.trans_nil ?_ (Det_upd _ _ _ ?_)
      · cases n.kind
        case leaf => exact Det.refl h
        case dec => exact Det_foldl _ (fun acc c => stopInv_Det f acc c) _ _
        all_goals
          refine Det_foldl _ (fun acc c => ?_) _ _
          cases acc.get? c with
          | none => exact Det.refl _
          | some cn =>
            simp only
            split
            · exact stopInv_Det f acc c
            · exact Det.refl _
      · intro x
        refine ⟨rfl, ?_, rfl⟩
        simp only
        split
        · exact Or.inl rfl
        · exact Or.inr rfl

theorem stopInvalid_Det (h : Heap) (i : Nat) : Det [] h (stopInvalid h i) := stopInv_Det _ h i

/-! ### consequences of `Cons` -/

theorem Cons_of_Det {h h' : Heap} (hd : Det [] h h') (hC : Cons h) : Cons h' := by
  obtain ⟨ha, hb, hc, hcur⟩ := hC
  have back : ∀ j n', h'.get? j = some n' → ∃ n, h.get? j = some n ∧ n'.children = n.children ∧
      (n'.cur = n.cur ∨ n'.cur = none) ∧ n'.parent = n.parent := by
    intro j n' hn'
    cases hn : h.get? j with
    | none => rw [(hd j).1 hn] at hn'; cases hn'
    | some n =>
      obtain ⟨n'', hn'', h1, h2, h3⟩ := (hd j).2 n hn
      rw [hn'] at hn''; cases hn''
      exact ⟨n, rfl, h1, h2, by simpa using h3⟩
  refine ⟨?_, ?_, ?_, ?_⟩
  · intro i n' hi c hcm
    obtain ⟨n, hn, h1, h2, h3⟩ := back i n' hi
    rw [h1] at hcm
    obtain ⟨cn, hcn, hcp⟩ := ha i n hn c hcm
    obtain ⟨cn', hcn', _, _, h6⟩ := (hd c).2 cn hcn
    exact ⟨cn', hcn', by simpa [hcp] using h6⟩
  · intro i n' hi p hp
    obtain ⟨n, hn, h1, h2, h3⟩ := back i n' hi
    rw [h3] at hp
    obtain ⟨pn, hpn, hm⟩ := hb i n hn p hp
    obtain ⟨pn', hpn', h4, _, _⟩ := (hd p).2 pn hpn
    exact ⟨pn', hpn', by rw [h4]; exact hm⟩
  · intro i n' hi
    obtain ⟨n, hn, h1, h2, h3⟩ := back i n' hi
    rw [h1]; exact hc i n hn
  · intro i n' hi c hcc
    obtain ⟨n, hn, h1, h2, h3⟩ := back i n' hi
    rw [h1]
    rcases h2 with e | e
    · exact hcur i n hn c (by rw [← e]; exact hcc)
    · rw [e] at hcc; cases hcc

theorem not_listed_of_no_parent {h : Heap} (hC : Cons h) {c : Nat} {cn : HNode}
    (hc : h.get? c = some cn) (hp : cn.parent = none) :
    ∀ i n, h.get? i = some n → c ∉ n.children := by
  intro i n hi hm
  obtain ⟨cn', hcn', hcp'⟩ := hC.1 i n hi c hm
  rw [hc] at hcn'; cases hcn'
  rw [hp] at hcp'; cases hcp'

/-! ### `listInsert` -/

theorem mem_listInsert (l : List Nat) (idx : Int) (c x : Nat) :
    x ∈ listInsert l idx c ↔ x = c ∨ x ∈ l := by
  unfold listInsert
  simp only
  generalize (if idx < 0 then if (l.length : Int) + idx < 0 then (0 : Int) else (l.length : Int) + idx
    else if idx > (l.length : Int) then (l.length : Int) else idx).toNat = k
  have e : x ∈ l ↔ x ∈ l.take k ∨ x ∈ l.drop k := by
    rw [← List.mem_append, List.take_append_drop]
  simp only [List.mem_append, List.mem_cons, e]
  constructor
  · rintro (a | a | a)
    · exact Or.inr (Or.inl a)
    · exact Or.inl a
    · exact Or.inr (Or.inr a)
  · rintro (a | a | a)
    · exact Or.inr (Or.inl a)
    · exact Or.inl a
    · exact Or.inr (Or.inr a)

theorem nodup_listInsert (l : List Nat) (idx : Int) (c : Nat) (hl : l.Nodup) (hc : c ∉ l) :
    (listInsert l idx c).Nodup := by
  unfold listInsert
  simp only
  generalize (if idx < 0 then if (l.length : Int) + idx < 0 then (0 : Int) else (l.length : Int) + idx
    else if idx > (l.length : Int) then (l.length : Int) else idx).toNat = k
  rw [List.perm_middle.nodup_iff, List.take_append_drop]
  exact List.nodup_cons.mpr ⟨hc, hl⟩

theorem nodup_snoc (l : List Nat) (c : Nat) (hl : l.Nodup) (hc : c ∉ l) : (l ++ [c]).Nodup := by
  rw [List.perm_append_comm.nodup_iff]
  exact List.nodup_cons.mpr ⟨hc, hl⟩

/-! ### `adopt` -/

theorem get?_adopt (h : Heap) (p c j : Nat) (place : List Nat → List Nat) (hne : p ≠ c) :
    (adopt h p c place).get? j =
      if j = c then (h.get? j).map (fun x => { x with parent := some p })
      else if j = p then (h.get? j).map (fun x => { x with children := place x.children })
      else h.get? j := by
  unfold adopt
  rw [get?_upd, get?_upd]
  by_cases a : j = c
  · subst a
    have : ¬ j = p := fun e => hne e.symm
    simp [this]
  · simp [a]

theorem adopt_cons {h : Heap} {p c : Nat} {pn cn : HNode} {place : List Nat → List Nat}
    (hC : Cons h) (hp : h.get? p = some pn) (hc : h.get? c = some cn) (hcp : cn.parent = none)
    (hne : p ≠ c)
    (hmem : ∀ x, x ∈ place pn.children ↔ x = c ∨ x ∈ pn.children)
    (hnd : (place pn.children).Nodup) : Cons (adopt h p c place) := by
  have hnl := not_listed_of_no_parent hC hc hcp
  obtain ⟨ha, hb, hcc, hcur⟩ := hC
  have G := fun j => get?_adopt h p c j place hne
  refine ⟨?_, ?_, ?_, ?_⟩
  · intro i n hi x hx
    grind
  · intro i n hi q hq
    grind
  · intro i n hi
    grind
  · intro i n hi x hx
    grind

/-! ### `checkNew` -/

theorem checkNew_ok {h : Heap} {c : Option Nat} {c' : Nat} (hk : checkNew h c = .ok c') :
    c = some c' ∧ ∃ cn, h.get? c' = some cn ∧ cn.parent = none := by
  unfold checkNew at hk
  cases c with
  | none => simp at hk
  | some x =>
    simp only at hk
    cases hx : h.get? x with
    | none => simp [hx] at hk
    | some n =>
      simp only [hx] at hk
      cases hp : n.parent with
      | some q => simp [hp] at hk
      | none =>
        simp [hp] at hk
        subst hk
        exact ⟨rfl, n, hx, hp⟩

theorem checkNew_none (h : Heap) : checkNew h none = .error .typeError := rfl

theorem checkNew_unknown {h : Heap} {c : Nat} (hc : h.get? c = none) :
    checkNew h (some c) = .error .typeError := by
  simp [checkNew, hc]

theorem checkNew_has_parent {h : Heap} {c q : Nat} {cn : HNode} (hc : h.get? c = some cn)
    (hp : cn.parent = some q) : checkNew h (some c) = .error .runtimeError := by
  simp [checkNew, hc, hp]

theorem checkNew_fresh {h : Heap} {c : Nat} {cn : HNode} (hc : h.get? c = some cn)
    (hp : cn.parent = none) : checkNew h (some c) = .ok c := by
  simp [checkNew, hc, hp]

/-! ### detaching one child -/

theorem detach_cons {h2 : Heap} {p c : Nat} {pn2 : HNode}
    (hC : Cons h2) (hp : h2.get? p = some pn2) (hm : c ∈ pn2.children) (hcur : pn2.cur ≠ some c) :
    Cons ((h2.upd p (fun x => { x with children := x.children.erase c })).upd c
        (fun x => { x with parent := none })) ∧
    (∃ cn', ((h2.upd p (fun x => { x with children := x.children.erase c })).upd c
        (fun x => { x with parent := none })).get? c = some cn' ∧ cn'.parent = none) ∧
    (∀ i n, ((h2.upd p (fun x => { x with children := x.children.erase c })).upd c
        (fun x => { x with parent := none })).get? i = some n → c ∉ n.children) := by
  generalize hh3 : ((h2.upd p (fun x => { x with children := x.children.erase c })).upd c
        (fun x => { x with parent := none })) = h3
  have G : ∀ j, h3.get? j =
      if j = c then (if j = p then (h2.get? j).map (fun x => { x with children := x.children.erase c })
        else h2.get? j).map (fun x => { x with parent := none })
      else if j = p then (h2.get? j).map (fun x => { x with children := x.children.erase c })
      else h2.get? j := by
    intro j; subst hh3; rw [get?_upd, get?_upd]
  obtain ⟨ha, hb, hcc, hcu⟩ := hC
  have E1 : ∀ (l : List Nat) (x : Nat), l.Nodup → (x ∈ l.erase c ↔ x ≠ c ∧ x ∈ l) :=
    fun l x hl => hl.mem_erase_iff
  have E2 : ∀ (l : List Nat), l.Nodup → (l.erase c).Nodup := fun l hl => hl.erase c
  have two : ∀ i n, h2.get? i = some n → c ∈ n.children → i = p := by
    intro i n hi hci
    obtain ⟨x, hx, hxp⟩ := ha i n hi c hci
    obtain ⟨y, hy, hyp⟩ := ha p pn2 hp c hm
    rw [hx] at hy; cases hy
    rw [hxp] at hyp; exact Option.some.inj hyp
  have listed : ∀ i n, h3.get? i = some n → c ∉ n.children := by
    intro i n hi
    grind
  refine ⟨⟨?_, ?_, ?_, ?_⟩, ?_, listed⟩
  · intro i n hi x hx
    grind
  · intro i n hi q hq
    grind
  · intro i n hi
    grind
  · intro i n hi x hx
    grind
  · obtain ⟨x, hx, hxp⟩ := ha p pn2 hp c hm
    grind

/-! ### `stopInv` on the object itself -/

theorem stopInv_succ (f : Nat) (h : Heap) (i : Nat) (n : HNode) (hn : h.get? i = some n) :
    ∃ h1, Det [] h h1 ∧ stopInv (f+1) h i = h1.upd i (fun x => { x with status := .invalid, cur := if n.kind = HKind.leaf || n.kind = HKind.dec then x.cur else none }) := by
  simp only [stopInv, hn]
  refine ⟨_, ?_, rfl⟩
  cases n.kind
  case leaf => exact Det.refl h
  case dec => exact Det_foldl _ (fun acc c => stopInv_Det f acc c) _ _
  all_goals
    refine Det_foldl _ (fun acc c => ?_) _ _
    cases acc.get? c with
    | none => exact Det.refl _
    | some cn =>
      simp only
      split
      · exact stopInv_Det f acc c
      · exact Det.refl _

theorem stopInv_self_invalid (f : Nat) (h : Heap) (i : Nat) (n : HNode) (hn : h.get? i = some n) :
    ∃ n', (stopInv (f+1) h i).get? i = some n' ∧ n'.status = .invalid := by
  obtain ⟨h1, hd, e⟩ := stopInv_succ f h i n hn
  obtain ⟨n1, hn1, _⟩ := (hd i).2 n hn
  rw [e, get?_upd_same _ hn1]
  exact ⟨_, rfl, rfl⟩

/-! ### `removeChild` -/

theorem removeChild_spec {h h' : Heap} {p c j : Nat} (hr : removeChild h p c = .ok (h', j)) :
    ∃ pn h2 pn2, h.get? p = some pn ∧ c ∈ pn.children ∧ pn.children.idxOf? c = some j ∧ Det [] h h2 ∧
      h2.get? p = some pn2 ∧ pn2.cur ≠ some c ∧
      (∀ cn, h.get? c = some cn → cn.status = .running →
        ∃ cn2, h2.get? c = some cn2 ∧ cn2.status = .invalid) ∧
      h' = (h2.upd p (fun x => { x with children := x.children.erase c })).upd c
        (fun x => { x with parent := none }) := by
  unfold removeChild at hr
  cases hp : h.get? p with
  | none => simp [hp] at hr
  | some pn =>
    simp only [hp] at hr
    cases hi : pn.children.idxOf? c with
    | none => simp [hi] at hr
    | some i =>
      simp only [hi, Except.ok.injEq, Prod.mk.injEq] at hr
      obtain ⟨hr, rfl⟩ := hr
      have hmem : c ∈ pn.children := by
        apply Classical.byContradiction
        intro hnm
        rw [List.idxOf?_eq_none_iff.mpr hnm] at hi; cases hi
      -- h1
      generalize hh1 : h.upd p (fun x => { x with cur := if x.cur = some c then none else x.cur }) = h1 at hr
      have d1 : Det [] h h1 := by
        subst hh1
        refine Det_upd _ _ _ (fun x => ⟨rfl, ?_, rfl⟩)
        simp only
        split
        · exact Or.inr rfl
        · exact Or.inl rfl
      have hp1 : ∃ pn1, h1.get? p = some pn1 ∧ pn1.cur ≠ some c := by
        subst hh1
        rw [get?_upd_same _ hp]
        refine ⟨_, rfl, ?_⟩
        simp only
        split
        · simp
        · assumption
      have hs1 : ∀ cn, h.get? c = some cn → ∃ cn1, h1.get? c = some cn1 ∧ cn1.status = cn.status := by
        intro cn hcn
        subst hh1
        rw [get?_upd]
        by_cases e : c = p
        · subst e; simp [hcn]
        · simp [e, hcn]
      obtain ⟨pn1, hpn1, hcur1⟩ := hp1
      have key : ∃ h2, Det [] h1 h2 ∧ (∀ cn1, h1.get? c = some cn1 → cn1.status = .running →
          ∃ cn2, h2.get? c = some cn2 ∧ cn2.status = .invalid) ∧
          h' = (h2.upd p (fun x => { x with children := x.children.erase c })).upd c
            (fun x => { x with parent := none }) := by
        cases hc1 : h1.get? c with
        | none =>
          simp only [hc1] at hr
          exact ⟨h1, Det.refl _, fun cn1 e => (by cases e), hr.symm⟩
        | some cn1 =>
          simp only [hc1] at hr
          by_cases hrun : cn1.status = .running
          · simp only [hrun, if_true] at hr
            exact ⟨stopInvalid h1 c, stopInvalid_Det _ _,
              fun cn1' e _ => stopInv_self_invalid _ _ _ _ hc1, hr.symm⟩
          · simp only [hrun, if_false] at hr
            exact ⟨h1, Det.refl _, fun cn1' e r => (by cases e; exact absurd r hrun), hr.symm⟩
      obtain ⟨h2, d2, hst2, he⟩ := key
      obtain ⟨pn2, hpn2, _, hcur2, _⟩ := (d2 p).2 pn1 hpn1
      refine ⟨pn, h2, pn2, rfl, hmem, hi, Det.trans_nil d1 d2, hpn2, ?_, ?_, he⟩
      · rcases hcur2 with e | e
        · rw [e]; exact hcur1
        · rw [e]; simp
      · intro cn hcn hrun
        obtain ⟨cn1, hcn1, hst1⟩ := hs1 cn hcn
        exact hst2 cn1 hcn1 (by rw [hst1]; exact hrun)

/-! ### shapes of successful calls -/

theorem addChild_ok {h h' : Heap} {p : Nat} {c : Option Nat} (ha : addChild h p c = .ok h') :
    ∃ c', c = some c' ∧ (∃ cn, h.get? c' = some cn ∧ cn.parent = none) ∧
      h' = adopt h p c' (· ++ [c']) := by
  simp only [addChild, bind, Except.bind] at ha
  cases hk : checkNew h c with
  | error e => simp [hk] at ha
  | ok c' =>
    simp only [hk, pure, Except.pure, Except.ok.injEq] at ha
    obtain ⟨e1, e2⟩ := checkNew_ok hk
    exact ⟨c', e1, e2, ha.symm⟩

theorem insertChild_ok {h h' : Heap} {p : Nat} {c : Option Nat} {idx : Int}
    (ha : insertChild h p c idx = .ok h') :
    ∃ c', c = some c' ∧ (∃ cn, h.get? c' = some cn ∧ cn.parent = none) ∧
      h' = adopt h p c' (fun l => listInsert l idx c') := by
  simp only [insertChild, bind, Except.bind] at ha
  cases hk : checkNew h c with
  | error e => simp [hk] at ha
  | ok c' =>
    simp only [hk, pure, Except.pure, Except.ok.injEq] at ha
    obtain ⟨e1, e2⟩ := checkNew_ok hk
    exact ⟨c', e1, e2, ha.symm⟩

/-! ### more shapes -/

theorem Det_back {D : List Nat} {h h' : Heap} (hd : Det D h h') :
    ∀ j n', h'.get? j = some n' → ∃ n, h.get? j = some n ∧ n'.children = n.children ∧
      (n'.cur = n.cur ∨ n'.cur = none) ∧ n'.parent = (if j ∈ D then none else n.parent) := by
  intro j n' hn'
  cases hn : h.get? j with
  | none => rw [(hd j).1 hn] at hn'; cases hn'
  | some n =>
    obtain ⟨n'', hn'', h1, h2, h3⟩ := (hd j).2 n hn
    rw [hn'] at hn''; cases hn''
    exact ⟨n, rfl, h1, h2, h3⟩

theorem removeChild_frame {h h' : Heap} {p c j : Nat} (hr : removeChild h p c = .ok (h', j)) :
    ∀ x n, h.get? x = some n → ∃ n', h'.get? x = some n' ∧ (n'.parent = n.parent ∨ n'.parent = none) := by
  obtain ⟨pn, h2, pn2, hp, hm, _, d, hp2, hcur, _, rfl⟩ := removeChild_spec hr
  intro x n hn
  obtain ⟨n2, hn2, _, _, hpar⟩ := (d x).2 n hn
  simp only [List.not_mem_nil, if_false] at hpar
  rw [get?_upd, get?_upd]
  by_cases e1 : x = c <;> by_cases e2 : x = p <;> simp [e1, e2, hn2, hpar] <;> grind

theorem removeChildById_ok {h h' : Heap} {p c : Nat} (hr : removeChildById h p c = .ok h') :
    ∃ j, removeChild h p c = .ok (h', j) := by
  unfold removeChildById at hr
  cases hp : h.get? p with
  | none => simp [hp] at hr
  | some pn =>
    simp only [hp] at hr
    split at hr
    · cases hrc : removeChild h p c with
      | error e => simp [hrc, Except.map] at hr
      | ok v =>
        obtain ⟨a, b⟩ := v
        simp only [hrc, Except.map, Except.ok.injEq] at hr
        subst hr
        exact ⟨b, rfl⟩
    · cases hr

theorem replaceChild_ok {h h' : Heap} {p c : Nat} {r : Option Nat} (hr : replaceChild h p c r = .ok h') :
    ∃ r' rn pn i h1 j, r = some r' ∧ h.get? r' = some rn ∧ rn.parent = none ∧ h.get? p = some pn ∧
      pn.children.idxOf? c = some i ∧ removeChild h p c = .ok (h1, j) ∧
      h' = adopt h1 p r' (fun l => listInsert l i r') := by
  unfold replaceChild at hr
  cases r with
  | none => simp at hr
  | some r' =>
    simp only [Option.isNone_some, Bool.false_eq_true, if_false] at hr
    cases hp : h.get? p with
    | none => simp [hp] at hr
    | some pn =>
      simp only [hp] at hr
      cases hi : pn.children.idxOf? c with
      | none => simp [hi] at hr
      | some i =>
        simp only [hi, bind, Except.bind] at hr
        cases hk : checkNew h (some r') with
        | error e => simp [hk] at hr
        | ok r'' =>
          simp only [hk] at hr
          obtain ⟨e1, rn, hrn, hrp⟩ := checkNew_ok hk
          cases e1
          cases hrc : removeChild h p c with
          | error e => simp [hrc] at hr
          | ok v =>
            obtain ⟨h1, j⟩ := v
            simp only [hrc, pure, Except.pure, Except.ok.injEq] at hr
            exact ⟨r', rn, pn, i, h1, j, rfl, hrn, hrp, rfl, hi, rfl, hr.symm⟩

theorem decorate_ok {h h' : Heap} {c : Option Nat} (hd : decorate h c = .ok h') :
    ∃ c' cn, c = some c' ∧ h.get? c' = some cn ∧ cn.parent = none ∧
      h' = (h ++ [({ kind := .dec, children := [c'] } : HNode)]).upd c'
        (fun x => { x with parent := some h.length }) := by
  simp only [decorate, bind, Except.bind] at hd
  cases hk : checkNew h c with
  | error e => simp [hk] at hd
  | ok c' =>
    simp only [hk, pure, Except.pure, Except.ok.injEq] at hd
    obtain ⟨e1, cn, e2, e3⟩ := checkNew_ok hk
    exact ⟨c', cn, e1, e2, e3, hd.symm⟩

theorem get?_snoc (h : Heap) (x : HNode) (j : Nat) :
    Heap.get? (h ++ [x]) j = if j < h.length then h.get? j else if j = h.length then some x else none := by
  unfold Heap.get?
  rw [List.getElem?_append]
  by_cases a : j < h.length
  · simp [a]
  · simp only [a, if_false]
    by_cases b : j = h.length
    · simp [b]
    · have : j - h.length ≠ 0 := by omega
      simp [b]
      omega

theorem decorate_cons {h : Heap} {c : Nat} {cn : HNode} (hC : Cons h) (hc : h.get? c = some cn)
    (hcp : cn.parent = none) :
    Cons ((h ++ [({ kind := .dec, children := [c] } : HNode)]).upd c
        (fun x => { x with parent := some h.length })) := by
  have hnl := not_listed_of_no_parent hC hc hcp
  generalize hh : ((h ++ [({ kind := .dec, children := [c] } : HNode)]).upd c
        (fun x => { x with parent := some h.length })) = h'
  have hlt : ∀ j n, h.get? j = some n → j < h.length := by
    intro j n hj
    rcases Nat.lt_or_ge j h.length with a | a
    · exact a
    · rw [get?_none_iff.mpr a] at hj; cases hj
  have hclt := hlt c cn hc
  have G : ∀ j, h'.get? j =
      if j = c then (h.get? j).map (fun x => { x with parent := some h.length })
      else if j < h.length then h.get? j
      else if j = h.length then some ({ kind := .dec, children := [c] } : HNode) else none := by
    intro j; subst hh; rw [get?_upd, get?_snoc]
    by_cases a : j = c
    · subst a; simp [hclt]
    · simp [a]
  obtain ⟨ha, hb, hcc, hcu⟩ := hC
  have hge : ∀ j, h.length ≤ j → h.get? j = none := fun j hj => get?_none_iff.mpr hj
  refine ⟨?_, ?_, ?_, ?_⟩
  · intro i n hi x hx
    grind
  · intro i n hi q hq
    grind
  · intro i n hi
    grind
  · intro i n hi x hx
    grind

/-! ### `removeAll` -/

theorem removeAll_fold_Det (g : Heap → Nat → Heap)
    (hg : ∀ acc c, ∃ a, Det [] acc a ∧ g acc c = a.upd c (fun x => { x with parent := none })) :
    ∀ (l : List Nat) (acc : Heap), Det l acc (l.foldl g acc)
| [], acc => Det.refl acc
| c :: l, acc => by
    simp only [List.foldl_cons]
    obtain ⟨a, da, e⟩ := hg acc c
    have d1 : Det [c] acc (g acc c) := by
      rw [e]; simpa using Det.trans da (Det_upd_parent a c)
    simpa using Det.trans d1 (removeAll_fold_Det g hg l (g acc c))

theorem removeAll_shape {h : Heap} {p : Nat} {pn : HNode} (hp : h.get? p = some pn) :
    ∃ h2, Det pn.children h h2 ∧ (∀ pn2, h2.get? p = some pn2 → pn2.cur = none) ∧
      removeAll h p = h2.upd p (fun x => { x with children := [] }) := by
  have key : ∀ g : Heap → Nat → Heap,
      (∀ acc c, ∃ a, Det [] acc a ∧ g acc c = a.upd c (fun x => { x with parent := none })) →
      Det pn.children h (pn.children.foldl g (h.upd p (fun x => { x with cur := none }))) ∧
      ∀ pn2, (pn.children.foldl g (h.upd p (fun x => { x with cur := none }))).get? p = some pn2 →
        pn2.cur = none := by
    intro g hg
    have d1 : Det [] h (h.upd p (fun x => { x with cur := none })) :=
      Det_upd _ _ _ (fun x => ⟨rfl, Or.inr rfl, rfl⟩)
    have d2 := removeAll_fold_Det g hg pn.children (h.upd p (fun x => { x with cur := none }))
    refine ⟨by simpa using Det.trans d1 d2, ?_⟩
    intro pn2 hpn2
    obtain ⟨n1, hn1, _, hcur, _⟩ := Det_back d2 p pn2 hpn2
    rw [get?_upd_same _ hp] at hn1
    cases hn1
    rcases hcur with e | e <;> simpa using e
  simp only [removeAll, hp]
  refine (fun (k : _ ∧ _) => ⟨_, k.1, k.2, rfl⟩) (key _ ?_)
  intro acc c
  refine ⟨_, ?_, rfl⟩
  cases acc.get? c with
  | none => exact Det.refl _
  | some cn =>
    simp only
    split
    · exact stopInvalid_Det _ _
    · exact Det.refl _

theorem removeAll_cons_aux {h h2 : Heap} {p : Nat} {pn : HNode} (hC : Cons h) (hp : h.get? p = some pn)
    (hd : Det pn.children h h2) (hcur : ∀ pn2, h2.get? p = some pn2 → pn2.cur = none) :
    Cons (h2.upd p (fun x => { x with children := [] })) := by
  generalize hh : h2.upd p (fun x => { x with children := [] }) = h3
  have G : ∀ j, h3.get? j = if j = p then (h2.get? j).map (fun x => { x with children := [] })
      else h2.get? j := by
    intro j; subst hh; rw [get?_upd]
  have fwd := fun j => (hd j).2
  have back := Det_back hd
  have two : ∀ i n, h.get? i = some n → ∀ x, x ∈ n.children → x ∈ pn.children → i = p := by
    intro i n hi x hx hxp
    obtain ⟨a, ha1, ha2⟩ := hC.1 i n hi x hx
    obtain ⟨b, hb1, hb2⟩ := hC.1 p pn hp x hxp
    rw [ha1] at hb1; cases hb1
    rw [ha2] at hb2; exact Option.some.inj hb2
  obtain ⟨ha, hb, hcc, hcu⟩ := hC
  refine ⟨?_, ?_, ?_, ?_⟩
  · intro i n hi x hx
    grind
  · intro i n hi q hq
    grind
  · intro i n hi
    grind
  · intro i n hi x hx
    grind

/-! ### `addChildren` -/

theorem validate_spec (h : Heap) : ∀ (cs : List (Option Nat)) (acc ids : List Nat),
    addChildren.validate h cs acc = .ok ids → acc.Nodup →
    ∃ ids', ids = acc.reverse ++ ids' ∧ cs = ids'.map some ∧ ids.Nodup ∧
      ∀ c ∈ ids', ∃ cn, h.get? c = some cn ∧ cn.parent = none
| [], acc, ids, hv, hacc => by
    simp only [addChildren.validate, pure, Except.pure, Except.ok.injEq] at hv
    subst hv
    exact ⟨[], by simp, rfl, (List.reverse_perm acc).nodup_iff.mpr hacc, by simp⟩
| c :: rest, acc, ids, hv, hacc => by
    simp only [addChildren.validate, bind, Except.bind] at hv
    cases hk : checkNew h c with
    | error e => simp [hk] at hv
    | ok c' =>
      simp only [hk] at hv
      by_cases hm : c' ∈ acc
      · simp [hm, throw, throwThe, MonadExceptOf.throw] at hv
      · simp only [hm, if_false] at hv
        obtain ⟨ids'', e1, e2, e3, e4⟩ :=
          validate_spec h rest (c' :: acc) ids hv (List.nodup_cons.mpr ⟨hm, hacc⟩)
        obtain ⟨ec, hcn⟩ := checkNew_ok hk
        refine ⟨c' :: ids'', by simp [e1], by simp [e2, ec], e3, ?_⟩
        intro x hx
        rcases List.mem_cons.mp hx with rfl | hx
        · exact hcn
        · exact e4 x hx

theorem addChildren_ok {h h' : Heap} {p : Nat} {cs : List (Option Nat)} (ha : addChildren h p cs = .ok h') :
    ∃ ids : List Nat, cs = ids.map some ∧ ids.Nodup ∧ (∀ c ∈ ids, ∃ cn, h.get? c = some cn ∧ cn.parent = none) ∧
      h' = ids.foldl (fun acc c => adopt acc p c (· ++ [c])) h := by
  simp only [addChildren, bind, Except.bind] at ha
  cases hv : addChildren.validate h cs [] with
  | error e => simp [hv] at ha
  | ok ids =>
    simp only [hv, pure, Except.pure, Except.ok.injEq] at ha
    obtain ⟨ids', e1, e2, e3, e4⟩ := validate_spec h cs [] ids hv List.nodup_nil
    simp only [List.reverse_nil, List.nil_append] at e1
    subst e1
    exact ⟨ids, e2, e3, e4, ha.symm⟩

theorem foldl_adopt_cons (p : Nat) : ∀ (ids : List Nat) (h : Heap) (pn : HNode), Cons h →
    h.get? p = some pn → p ∉ ids → ids.Nodup →
    (∀ c ∈ ids, ∃ cn, h.get? c = some cn ∧ cn.parent = none) →
    Cons (ids.foldl (fun acc c => adopt acc p c (· ++ [c])) h)
| [], h, pn, hC, _, _, _, _ => hC
| c :: ids, h, pn, hC, hp, hpi, hnd, hall => by
    simp only [List.foldl_cons]
    have hne : p ≠ c := fun e => hpi (e ▸ List.mem_cons_self)
    obtain ⟨cn, hc, hcp⟩ := hall c List.mem_cons_self
    have hnl := not_listed_of_no_parent hC hc hcp p pn hp
    have hC1 : Cons (adopt h p c (· ++ [c])) :=
      adopt_cons hC hp hc hcp hne (by intro x; simp [or_comm]) (nodup_snoc _ _ (hC.2.2.1 p pn hp) hnl)
    obtain ⟨hcni, hnd'⟩ := List.nodup_cons.mp hnd
    refine foldl_adopt_cons p ids _ { pn with children := pn.children ++ [c] } hC1 ?_
      (fun hm => hpi (List.mem_cons_of_mem _ hm)) hnd' ?_
    · rw [get?_adopt _ _ _ _ _ hne]; simp [hne, hp]
    · intro x hx
      have hxc : x ≠ c := fun e => hcni (e ▸ hx)
      have hxp : x ≠ p := fun e => hpi (List.mem_cons_of_mem _ (e ▸ hx))
      rw [get?_adopt _ _ _ _ _ hne]
      simp only [hxc, hxp, if_false]
      exact hall x (List.mem_cons_of_mem _ hx)

/-! ### statuses only ever move to INVALID while children are being removed -/

def StM (h h' : Heap) : Prop :=
  ∀ j n, h.get? j = some n → ∃ n', h'.get? j = some n' ∧ (n'.status = n.status ∨ n'.status = .invalid)

theorem StM.refl (h : Heap) : StM h h := fun j n hn => ⟨n, hn, Or.inl rfl⟩

theorem StM.trans {h h' h'' : Heap} (h1 : StM h h') (h2 : StM h' h'') : StM h h'' := by
  intro j n hn
  obtain ⟨n', hn', e'⟩ := h1 j n hn
  obtain ⟨n'', hn'', e''⟩ := h2 j n' hn'
  refine ⟨n'', hn'', ?_⟩
  rcases e'' with e | e
  · rw [e]; exact e'
  · exact Or.inr e

theorem StM_upd (h : Heap) (i : Nat) (f : HNode → HNode)
    (hf : ∀ x, (f x).status = x.status ∨ (f x).status = .invalid) : StM h (h.upd i f) := by
  intro j n hn
  rw [get?_upd]
  by_cases a : j = i
  · simp only [a, if_true]
    rw [a] at hn
    simp only [hn, Option.map_some]
    exact ⟨_, rfl, hf n⟩
  · simp only [a, if_false]
    exact ⟨n, hn, Or.inl rfl⟩

theorem StM_foldl {α : Type} (g : Heap → α → Heap) (hg : ∀ acc c, StM acc (g acc c)) :
    ∀ (l : List α) (h : Heap), StM h (l.foldl g h)
| [], h => StM.refl h
| c :: l, h => by
    simp only [List.foldl_cons]
    exact StM.trans (hg h c) (StM_foldl g hg l (g h c))

theorem stopInv_StM : ∀ (f : Nat) (h : Heap) (i : Nat), StM h (stopInv f h i)
| 0, h, i => by unfold stopInv; exact StM.refl h
| f+1, h, i => by
    unfold stopInv
    cases hn : h.get? i with
    | none => exact StM.refl h
    | some n =>
      simp only
      refine StM.trans ?_ (StM_upd _ _ _ (fun x => Or.inr rfl))
      cases n.kind
      case leaf => exact StM.refl h
      case dec => exact StM_foldl _ (fun acc c => stopInv_StM f acc c) _ _
      all_goals
        refine StM_foldl _ (fun acc c => ?_) _ _
        cases acc.get? c with
        | none => exact StM.refl _
        | some cn =>
          simp only
          split
          · exact stopInv_StM f acc c
          · exact StM.refl _

theorem removeAll_fold_status (g : Heap → Nat → Heap)
    (hg : ∀ acc c, ∃ a, StM acc a ∧
      (∀ cn, acc.get? c = some cn → (cn.status = .running ∨ cn.status = .invalid) →
        ∃ cn', a.get? c = some cn' ∧ cn'.status = .invalid) ∧
      g acc c = a.upd c (fun x => { x with parent := none })) :
    ∀ (l : List Nat) (acc : Heap) (c : Nat), c ∈ l → ∀ cn, acc.get? c = some cn →
      (cn.status = .running ∨ cn.status = .invalid) →
      ∃ cn', (l.foldl g acc).get? c = some cn' ∧ cn'.status = .invalid
| [], _, _, hc, _, _, _ => by cases hc
| d :: l, acc, c, hc, cn, hcn, hst => by
    simp only [List.foldl_cons]
    have hgS : ∀ acc c, StM acc (g acc c) := by
      intro acc c
      obtain ⟨a, sa, _, e⟩ := hg acc c
      rw [e]; exact StM.trans sa (StM_upd _ _ _ (fun x => Or.inl rfl))
    by_cases hcl : c ∈ l
    · obtain ⟨cn1, hcn1, e1⟩ := hgS acc d c cn hcn
      refine removeAll_fold_status g hg l (g acc d) c hcl cn1 hcn1 ?_
      rcases e1 with e | e
      · rw [e]; exact hst
      · exact Or.inr e
    · have hcd : c = d := by
        rcases List.mem_cons.mp hc with e | e
        · exact e
        · exact absurd e hcl
      subst hcd
      obtain ⟨a, sa, hinv, e⟩ := hg acc c
      obtain ⟨cn', hcn', hs'⟩ := hinv cn hcn hst
      have h1 : (g acc c).get? c = some { cn' with parent := none } := by
        rw [e, get?_upd_same _ hcn']
      obtain ⟨cn'', hcn'', e''⟩ := StM_foldl g hgS l (g acc c) c _ h1
      refine ⟨cn'', hcn'', ?_⟩
      rcases e'' with e | e
      · rw [e]; exact hs'
      · exact e

end C11

open C11

/-! ## 1. which calls are rejected, and rejected calls change nothing -/

theorem C11_add_rejects_nonbehaviour (h : Heap) (p : Nat) : addChild h p none = .error .typeError := rfl

theorem C11_add_rejects_unknown {h : Heap} {c : Nat} (p : Nat) (hc : h.get? c = none) :
    addChild h p (some c) = .error .typeError := by
  simp [addChild, checkNew_unknown hc, bind, Except.bind]

theorem C11_add_rejects_parented {h : Heap} {c q : Nat} {cn : HNode} (p : Nat)
    (hc : h.get? c = some cn) (hq : cn.parent = some q) :
    addChild h p (some c) = .error .runtimeError := by
  simp [addChild, checkNew_has_parent hc hq, bind, Except.bind]

/-- exactly the parent-less behaviours are accepted -/
theorem C11_add_accepts_iff (h : Heap) (p : Nat) (c : Option Nat) :
    (∃ h', addChild h p c = .ok h') ↔ ∃ c' cn, c = some c' ∧ h.get? c' = some cn ∧ cn.parent = none := by
  constructor
  · rintro ⟨h', ha⟩
    obtain ⟨c', e, ⟨cn, h1, h2⟩, _⟩ := addChild_ok ha
    exact ⟨c', cn, e, h1, h2⟩
  · rintro ⟨c', cn, rfl, h1, h2⟩
    exact ⟨adopt h p c' (· ++ [c']), by simp [addChild, checkNew_fresh h1 h2, bind, Except.bind, pure, Except.pure]⟩

theorem C11_insert_rejects_nonbehaviour (h : Heap) (p : Nat) (idx : Int) :
    insertChild h p none idx = .error .typeError := rfl

theorem C11_insert_rejects_unknown {h : Heap} {c : Nat} (p : Nat) (idx : Int) (hc : h.get? c = none) :
    insertChild h p (some c) idx = .error .typeError := by
  simp [insertChild, checkNew_unknown hc, bind, Except.bind]

theorem C11_insert_rejects_parented {h : Heap} {c q : Nat} {cn : HNode} (p : Nat) (idx : Int)
    (hc : h.get? c = some cn) (hq : cn.parent = some q) :
    insertChild h p (some c) idx = .error .runtimeError := by
  simp [insertChild, checkNew_has_parent hc hq, bind, Except.bind]

theorem C11_insert_accepts_iff (h : Heap) (p : Nat) (c : Option Nat) (idx : Int) :
    (∃ h', insertChild h p c idx = .ok h') ↔
      ∃ c' cn, c = some c' ∧ h.get? c' = some cn ∧ cn.parent = none := by
  constructor
  · rintro ⟨h', ha⟩
    obtain ⟨c', e, ⟨cn, h1, h2⟩, _⟩ := insertChild_ok ha
    exact ⟨c', cn, e, h1, h2⟩
  · rintro ⟨c', cn, rfl, h1, h2⟩
    exact ⟨adopt h p c' (fun l => listInsert l idx c'), by simp [insertChild, checkNew_fresh h1 h2, bind, Except.bind, pure, Except.pure]⟩

theorem C11_decorate_rejects_nonbehaviour (h : Heap) : decorate h none = .error .typeError := rfl

theorem C11_decorate_rejects_unknown {h : Heap} {c : Nat} (hc : h.get? c = none) :
    decorate h (some c) = .error .typeError := by
  simp [decorate, checkNew_unknown hc, bind, Except.bind]

theorem C11_decorate_rejects_parented {h : Heap} {c q : Nat} {cn : HNode}
    (hc : h.get? c = some cn) (hq : cn.parent = some q) :
    decorate h (some c) = .error .runtimeError := by
  simp [decorate, checkNew_has_parent hc hq, bind, Except.bind]

theorem C11_replace_rejects_nonbehaviour (h : Heap) (p c : Nat) :
    replaceChild h p c none = .error .attributeError := rfl

theorem C11_replace_rejects_nonchild {h : Heap} {p c : Nat} {pn : HNode} (r : Nat)
    (hp : h.get? p = some pn) (hm : c ∉ pn.children) :
    replaceChild h p c (some r) = .error .valueError := by
  simp [replaceChild, hp, List.idxOf?_eq_none_iff.mpr hm]

theorem C11_replace_rejects_unknown {h : Heap} {p c r : Nat} {pn : HNode}
    (hp : h.get? p = some pn) (hm : c ∈ pn.children) (hr : h.get? r = none) :
    replaceChild h p c (some r) = .error .typeError := by
  unfold replaceChild
  cases hi : pn.children.idxOf? c with
  | none => exact absurd hm (List.idxOf?_eq_none_iff.mp hi)
  | some i => simp [hp, hi, checkNew_unknown hr, bind, Except.bind]

theorem C11_replace_rejects_parented {h : Heap} {p c r q : Nat} {pn rn : HNode}
    (hp : h.get? p = some pn) (hm : c ∈ pn.children) (hr : h.get? r = some rn)
    (hq : rn.parent = some q) :
    replaceChild h p c (some r) = .error .runtimeError := by
  unfold replaceChild
  cases hi : pn.children.idxOf? c with
  | none => exact absurd hm (List.idxOf?_eq_none_iff.mp hi)
  | some i => simp [hp, hi, checkNew_has_parent hr hq, bind, Except.bind]

theorem C11_remove_rejects_nonchild {h : Heap} {p c : Nat} {pn : HNode}
    (hp : h.get? p = some pn) (hm : c ∉ pn.children) :
    removeChild h p c = .error .valueError := by
  simp [removeChild, hp, List.idxOf?_eq_none_iff.mpr hm]

theorem C11_remove_accepts_iff (h : Heap) (p c : Nat) :
    (∃ r, removeChild h p c = .ok r) ↔ ∃ pn, h.get? p = some pn ∧ c ∈ pn.children := by
  constructor
  · rintro ⟨⟨h', j⟩, hr⟩
    obtain ⟨pn, _, _, h1, h2, _⟩ := removeChild_spec hr
    exact ⟨pn, h1, h2⟩
  · rintro ⟨pn, hp, hm⟩
    unfold removeChild
    cases hi : pn.children.idxOf? c with
    | none => exact absurd hm (List.idxOf?_eq_none_iff.mp hi)
    | some i => simp [hp, hi]

theorem C11_removeById_rejects_unknown_id {h : Heap} {p c : Nat} {pn : HNode}
    (hp : h.get? p = some pn) (hm : c ∉ pn.children) :
    removeChildById h p c = .error .indexError := by
  simp [removeChildById, hp, hm]

theorem C11_rejected_unchanged_add {h : Heap} {p : Nat} {c : Option Nat} {e : HErr}
    (hr : addChild h p c = .error e) : hstep h (.add p c) = h := by
  simp [hstep, hr]

theorem C11_rejected_unchanged_addMany {h : Heap} {p : Nat} {cs : List (Option Nat)} {e : HErr}
    (hr : addChildren h p cs = .error e) : hstep h (.addMany p cs) = h := by
  simp [hstep, hr]

theorem C11_rejected_unchanged_insert {h : Heap} {p : Nat} {c : Option Nat} {idx : Int} {e : HErr}
    (hr : insertChild h p c idx = .error e) : hstep h (.insert p c idx) = h := by
  simp [hstep, hr]

theorem C11_rejected_unchanged_remove {h : Heap} {p c : Nat} {e : HErr}
    (hr : removeChild h p c = .error e) : hstep h (.remove p c) = h := by
  simp [hstep, hr]

theorem C11_rejected_unchanged_removeById {h : Heap} {p c : Nat} {e : HErr}
    (hr : removeChildById h p c = .error e) : hstep h (.removeById p c) = h := by
  simp [hstep, hr]

theorem C11_rejected_unchanged_replace {h : Heap} {p c : Nat} {r : Option Nat} {e : HErr}
    (hr : replaceChild h p c r = .error e) : hstep h (.replace p c r) = h := by
  simp [hstep, hr]

theorem C11_rejected_unchanged_decorate {h : Heap} {c : Option Nat} {e : HErr}
    (hr : decorate h c = .error e) : hstep h (.decorate c) = h := by
  simp [hstep, hr]

/-- `add_children` succeeds only on distinct parent-less behaviours (and otherwise returns no heap at all) -/
theorem C11_addMany_ok_args {h h' : Heap} {p : Nat} {cs : List (Option Nat)}
    (ha : addChildren h p cs = .ok h') :
    ∃ ids : List Nat, cs = ids.map some ∧ ids.Nodup ∧ ∀ c ∈ ids, ∃ cn, h.get? c = some cn ∧ cn.parent = none := by
  obtain ⟨ids, e1, e2, e3, _⟩ := addChildren_ok ha
  exact ⟨ids, e1, e2, e3⟩


/-! ## 2. add / insert / prepend -/

theorem C11_no_two_parents {h : Heap} {i j c : Nat} {n m : HNode} (hC : Cons h)
    (hi : h.get? i = some n) (hj : h.get? j = some m) (hcn : c ∈ n.children) (hcm : c ∈ m.children) :
    i = j := by
  obtain ⟨x, hx, hxp⟩ := hC.1 i n hi c hcn
  obtain ⟨y, hy, hyp⟩ := hC.1 j m hj c hcm
  rw [hx] at hy; cases hy
  rw [hxp] at hyp; exact Option.some.inj hyp

theorem C11_parentless_not_listed {h : Heap} (hC : Cons h) {c : Nat} {cn : HNode}
    (hc : h.get? c = some cn) (hp : cn.parent = none) :
    ∀ i n, h.get? i = some n → c ∉ n.children := not_listed_of_no_parent hC hc hp

theorem C11_add_keeps_cons {h h' : Heap} {p c : Nat} {pn : HNode} (hC : Cons h)
    (hp : h.get? p = some pn) (hne : p ≠ c) (ha : addChild h p (some c) = .ok h') : Cons h' := by
  obtain ⟨c', e, ⟨cn, hc, hcp⟩, rfl⟩ := addChild_ok ha
  cases e
  have hnl := not_listed_of_no_parent hC hc hcp p pn hp
  exact adopt_cons hC hp hc hcp hne (by intro x; simp [or_comm])
    (nodup_snoc _ _ (hC.2.2.1 p pn hp) hnl)

theorem C11_insert_keeps_cons {h h' : Heap} {p c : Nat} {pn : HNode} {idx : Int} (hC : Cons h)
    (hp : h.get? p = some pn) (hne : p ≠ c) (ha : insertChild h p (some c) idx = .ok h') : Cons h' := by
  obtain ⟨c', e, ⟨cn, hc, hcp⟩, rfl⟩ := insertChild_ok ha
  cases e
  have hnl := not_listed_of_no_parent hC hc hcp p pn hp
  exact adopt_cons hC hp hc hcp hne (fun x => mem_listInsert _ _ _ _)
    (nodup_listInsert _ _ _ (hC.2.2.1 p pn hp) hnl)

/-- the added behaviour ends up listed under `p`, with `p` as its parent -/
theorem C11_add_links {h h' : Heap} {p c : Nat} {pn : HNode}
    (hp : h.get? p = some pn) (hne : p ≠ c) (ha : addChild h p (some c) = .ok h') :
    (∃ pn', h'.get? p = some pn' ∧ pn'.children = pn.children ++ [c]) ∧
    (∃ cn', h'.get? c = some cn' ∧ cn'.parent = some p) := by
  obtain ⟨c', e, ⟨cn, hc, hcp⟩, rfl⟩ := addChild_ok ha
  cases e
  rw [get?_adopt _ _ _ _ _ hne, get?_adopt _ _ _ _ _ hne]
  simp [hne, hp, hc]

/-! ## 3./4. remove -/

theorem C11_remove_keeps_cons {h h' : Heap} {p c j : Nat} (hC : Cons h)
    (hr : removeChild h p c = .ok (h', j)) :
    Cons h' ∧ (∃ cn', h'.get? c = some cn' ∧ cn'.parent = none) ∧
      (∀ i n, h'.get? i = some n → c ∉ n.children) := by
  obtain ⟨pn, h2, pn2, hp, hm, _, d, hp2, hcur, _, rfl⟩ := removeChild_spec hr
  have hC2 := Cons_of_Det d hC
  obtain ⟨pn2', hpn2', hch, _, _⟩ := (d p).2 pn hp
  rw [hp2] at hpn2'; cases hpn2'
  exact detach_cons hC2 hp2 (by rw [hch]; exact hm) hcur

theorem C11_removed_running_interrupted {h h' : Heap} {p c j : Nat} {cn : HNode}
    (hr : removeChild h p c = .ok (h', j)) (hc : h.get? c = some cn) (hrun : cn.status = .running) :
    ∃ cn', h'.get? c = some cn' ∧ cn'.status = .invalid := by
  obtain ⟨pn, h2, pn2, hp, hm, _, d, hp2, hcur, hst, rfl⟩ := removeChild_spec hr
  obtain ⟨cn2, hcn2, hs2⟩ := hst cn hc hrun
  rw [get?_upd, get?_upd]
  by_cases e : c = p
  · subst e; simp [hcn2, hs2]
  · simp [e, hcn2, hs2]

/-- `remove_child` reports the position the child had -/
theorem C11_remove_index {h h' : Heap} {p c j : Nat} (hr : removeChild h p c = .ok (h', j)) :
    ∃ pn, h.get? p = some pn ∧ pn.children.idxOf? c = some j := by
  obtain ⟨pn, _, _, hp, _, hi, _⟩ := removeChild_spec hr
  exact ⟨pn, hp, hi⟩

/-! ## 5. the remaining operations -/

theorem C11_addMany_keeps_cons {h h' : Heap} {p : Nat} {pn : HNode} {cs : List (Option Nat)} (hC : Cons h)
    (hp : h.get? p = some pn) (hne : some p ∉ cs) (ha : addChildren h p cs = .ok h') : Cons h' := by
  obtain ⟨ids, e1, e2, e3, rfl⟩ := addChildren_ok ha
  subst e1
  exact foldl_adopt_cons p ids h pn hC hp (fun hm => hne (List.mem_map.mpr ⟨p, hm, rfl⟩)) e2 e3

theorem C11_removeById_keeps_cons {h h' : Heap} {p c : Nat} (hC : Cons h)
    (hr : removeChildById h p c = .ok h') :
    Cons h' ∧ (∃ cn', h'.get? c = some cn' ∧ cn'.parent = none) ∧
      (∀ i n, h'.get? i = some n → c ∉ n.children) := by
  obtain ⟨j, hr'⟩ := removeChildById_ok hr
  exact C11_remove_keeps_cons hC hr'

theorem C11_removeById_running_interrupted {h h' : Heap} {p c : Nat} {cn : HNode}
    (hr : removeChildById h p c = .ok h') (hc : h.get? c = some cn) (hrun : cn.status = .running) :
    ∃ cn', h'.get? c = some cn' ∧ cn'.status = .invalid := by
  obtain ⟨j, hr'⟩ := removeChildById_ok hr
  exact C11_removed_running_interrupted hr' hc hrun

theorem C11_removeAll_keeps_cons {h : Heap} (p : Nat) (hC : Cons h) : Cons (removeAll h p) := by
  cases hp : h.get? p with
  | none => simp only [removeAll, hp]; exact hC
  | some pn =>
    obtain ⟨h2, d, hcur, e⟩ := removeAll_shape hp
    rw [e]
    exact removeAll_cons_aux hC hp d hcur

/-- after `remove_all_children` the composite lists nothing and every former child has no parent -/
theorem C11_removeAll_detaches {h : Heap} {p : Nat} {pn : HNode} (hp : h.get? p = some pn) :
    (∃ pn', (removeAll h p).get? p = some pn' ∧ pn'.children = [] ∧ pn'.cur = none) ∧
    (∀ c ∈ pn.children, ∀ cn, h.get? c = some cn →
      ∃ cn', (removeAll h p).get? c = some cn' ∧ cn'.parent = none) := by
  obtain ⟨h2, d, hcur, e⟩ := removeAll_shape hp
  rw [e]
  constructor
  · obtain ⟨pn2, hpn2, _⟩ := (d p).2 pn hp
    rw [get?_upd_same _ hpn2]
    exact ⟨_, rfl, rfl, hcur pn2 hpn2⟩
  · intro c hc cn hcn
    obtain ⟨cn2, hcn2, _, _, hpar⟩ := (d c).2 cn hcn
    simp only [hc, if_true] at hpar
    rw [get?_upd]
    by_cases a : c = p
    · simp [a] at hcn2 ⊢
      simp [hcn2, hpar]
    · simp [a, hcn2, hpar]

theorem C11_replace_keeps_cons {h h' : Heap} {p c r : Nat} (hC : Cons h) (hne : p ≠ r)
    (hr : replaceChild h p c (some r) = .ok h') :
    Cons h' ∧ (∃ cn', h'.get? c = some cn' ∧ cn'.parent = none) ∧
      (∀ i n, h'.get? i = some n → c ∉ n.children) := by
  obtain ⟨r', rn, pn, i, h1, j, e, hrn, hrp, hp, hi, hrc, rfl⟩ := replaceChild_ok hr
  cases e
  obtain ⟨hC1, ⟨cn1, hcn1, hcp1⟩, hnl1⟩ := C11_remove_keeps_cons hC hrc
  obtain ⟨pn1, hpn1, _⟩ := removeChild_frame hrc p pn hp
  obtain ⟨rn1, hrn1, hrp1⟩ := removeChild_frame hrc r rn hrn
  have hrp1' : rn1.parent = none := by
    rcases hrp1 with e | e
    · rw [e]; exact hrp
    · exact e
  -- the replaced child had a parent, the replacement had none: they differ
  have hcr : c ≠ r := by
    intro e; subst e
    obtain ⟨pn0, _, _, hp0, hm0, _⟩ := removeChild_spec hrc
    obtain ⟨x, hx, hxp⟩ := hC.1 p pn0 hp0 c hm0
    rw [hrn] at hx; cases hx
    rw [hrp] at hxp; cases hxp
  have hnlr := not_listed_of_no_parent hC1 hrn1 hrp1' p pn1 hpn1
  have hC' : Cons (adopt h1 p r (fun l => listInsert l i r)) :=
    adopt_cons hC1 hpn1 hrn1 hrp1' hne (fun x => mem_listInsert _ _ _ _)
      (nodup_listInsert _ _ _ (hC1.2.2.1 p pn1 hpn1) hnlr)
  have G := fun j => get?_adopt h1 p r j (fun l => listInsert l i r) hne
  refine ⟨hC', ?_, ?_⟩
  · by_cases a : c = p
    · rw [G]; simp [hcr, a] at hcn1 ⊢; simp [hcn1, hcp1, hne]
    · rw [G]; simp [hcr, a, hcn1, hcp1]
  · intro x n hx hcm
    rw [G] at hx
    by_cases a : x = r
    · simp only [a, if_true] at hx
      rw [hrn1] at hx
      simp at hx; subst hx
      exact hnl1 r rn1 hrn1 hcm
    · simp only [a, if_false] at hx
      by_cases b : x = p
      · simp only [b, if_true, hpn1] at hx
        simp at hx; subst hx
        simp only [mem_listInsert] at hcm
        rcases hcm with e | e
        · exact hcr e
        · exact hnl1 p pn1 hpn1 e
      · simp only [b, if_false] at hx
        exact hnl1 x n hx hcm

theorem C11_decorate_keeps_cons {h h' : Heap} {c : Option Nat} (hC : Cons h)
    (hd : decorate h c = .ok h') : Cons h' := by
  obtain ⟨c', cn, _, hc, hcp, rfl⟩ := decorate_ok hd
  exact decorate_cons hC hc hcp

theorem C11_mark_keeps_cons {h : Heap} (i : Nat) (s : Status) (hC : Cons h) :
    Cons (h.upd i (fun x => { x with status := s })) :=
  Cons_of_Det (Det_upd _ _ _ (fun x => ⟨rfl, Or.inl rfl, rfl⟩)) hC

/-- `remove_all_children` interrupts its RUNNING children as well -/
theorem C11_removeAll_running_interrupted {h : Heap} {p c : Nat} {pn cn : HNode}
    (hp : h.get? p = some pn) (hm : c ∈ pn.children) (hc : h.get? c = some cn)
    (hrun : cn.status = .running) :
    ∃ cn', (removeAll h p).get? c = some cn' ∧ cn'.status = .invalid := by
  have key : ∀ g : Heap → Nat → Heap,
      (∀ acc c, ∃ a, StM acc a ∧
        (∀ cn, acc.get? c = some cn → (cn.status = .running ∨ cn.status = .invalid) →
          ∃ cn', a.get? c = some cn' ∧ cn'.status = .invalid) ∧
        g acc c = a.upd c (fun x => { x with parent := none })) →
      ∃ cn', ((pn.children.foldl g (h.upd p (fun x => { x with cur := none }))).upd p
        (fun x => { x with children := [] })).get? c = some cn' ∧ cn'.status = .invalid := by
    intro g hg
    obtain ⟨cn1, hcn1, e1⟩ := StM_upd h p (fun x => { x with cur := none }) (fun x => Or.inl rfl) c cn hc
    have hst1 : cn1.status = .running ∨ cn1.status = .invalid := by
      rcases e1 with e | e
      · rw [e]; exact Or.inl hrun
      · exact Or.inr e
    obtain ⟨cn2, hcn2, e2⟩ := removeAll_fold_status g hg pn.children _ c hm cn1 hcn1 hst1
    obtain ⟨cn3, hcn3, e3⟩ := StM_upd _ p (fun x => { x with children := [] }) (fun x => Or.inl rfl) c cn2 hcn2
    refine ⟨cn3, hcn3, ?_⟩
    rcases e3 with e | e
    · rw [e]; exact e2
    · exact e
  simp only [removeAll, hp]
  refine key _ ?_
  intro acc c
  refine ⟨_, ?_, ?_, rfl⟩
  · cases acc.get? c with
    | none => exact StM.refl _
    | some cn =>
      simp only
      split
      · exact stopInv_StM _ _ _
      · exact StM.refl _
  · intro cn0 hcn0 hst0
    simp only [hcn0]
    rcases hst0 with e | e
    · simp only [e, if_true]
      exact stopInv_self_invalid _ _ _ _ hcn0
    · have : ¬ cn0.status = Status.running := by rw [e]; decide
      simp only [this, if_false]
      exact ⟨cn0, hcn0, e⟩

/-- the child taken out by `replace_child` is interrupted if it was RUNNING -/
theorem C11_replaced_running_interrupted {h h' : Heap} {p c r : Nat} {cn : HNode} (hne : p ≠ r)
    (hr : replaceChild h p c (some r) = .ok h') (hc : h.get? c = some cn) (hrun : cn.status = .running) :
    ∃ cn', h'.get? c = some cn' ∧ cn'.status = .invalid := by
  obtain ⟨r', rn, pn, i, h1, j, e, hrn, hrp, hp, hi, hrc, rfl⟩ := replaceChild_ok hr
  cases e
  obtain ⟨cn1, hcn1, hs1⟩ := C11_removed_running_interrupted hrc hc hrun
  rw [get?_adopt _ _ _ _ _ hne]
  by_cases a : c = r <;> by_cases b : c = p <;> simp [a, b] at hcn1 ⊢ <;> simp [hcn1, hs1, hne]

/-! ## 6. any sequence of calls -/

/-- side conditions of a call: the composite exists and is not handed to itself as a child -/
def Heap.OpOK (h : Heap) : HOp → Prop
| .add p c => (h.get? p).isSome = true ∧ c ≠ some p
| .addMany p cs => (h.get? p).isSome = true ∧ some p ∉ cs
| .insert p c _ => (h.get? p).isSome = true ∧ c ≠ some p
| .replace p _ r => r ≠ some p
| _ => True

def Heap.AllOK : List HOp → Heap → Prop
| [], _ => True
| op :: ops, h => h.OpOK op ∧ Heap.AllOK ops (hstep h op)

theorem C11_step_keeps_cons {h : Heap} {op : HOp} (hC : Cons h) (hok : h.OpOK op) : Cons (hstep h op) := by
  cases op with
  | add p c =>
    simp only [hstep]
    split
    · rename_i h' ha
      obtain ⟨hp, hne⟩ := hok
      obtain ⟨c', e, _, _⟩ := addChild_ok ha
      subst e
      cases hpn : h.get? p with
      | none => simp [hpn] at hp
      | some pn => exact C11_add_keeps_cons hC hpn (fun e => hne (by rw [e])) ha
    · exact hC
  | addMany p cs =>
    simp only [hstep]
    split
    · rename_i h' ha
      obtain ⟨hp, hne⟩ := hok
      cases hpn : h.get? p with
      | none => simp [hpn] at hp
      | some pn => exact C11_addMany_keeps_cons hC hpn hne ha
    · exact hC
  | insert p c idx =>
    simp only [hstep]
    split
    · rename_i h' ha
      obtain ⟨hp, hne⟩ := hok
      obtain ⟨c', e, _, _⟩ := insertChild_ok ha
      subst e
      cases hpn : h.get? p with
      | none => simp [hpn] at hp
      | some pn => exact C11_insert_keeps_cons hC hpn (fun e => hne (by rw [e])) ha
    · exact hC
  | remove p c =>
    simp only [hstep]
    split
    · rename_i r hr
      obtain ⟨h', j⟩ := r
      exact (C11_remove_keeps_cons hC hr).1
    · exact hC
  | removeById p c =>
    simp only [hstep]
    split
    · rename_i h' hr
      exact (C11_removeById_keeps_cons hC hr).1
    · exact hC
  | removeAll p => exact C11_removeAll_keeps_cons p hC
  | replace p c r =>
    simp only [hstep]
    split
    · rename_i h' hr
      obtain ⟨r', _, _, _, _, _, e, _⟩ := replaceChild_ok hr
      subst e
      exact (C11_replace_keeps_cons hC (fun e => hok (by rw [e])) hr).1
    · exact hC
  | decorate c =>
    simp only [hstep]
    split
    · rename_i h' hd
      exact C11_decorate_keeps_cons hC hd
    · exact hC
  | mark i s => exact C11_mark_keeps_cons i s hC

theorem C11_inv : ∀ (ops : List HOp) (h : Heap), Cons h → Heap.AllOK ops h → Cons (hrun ops h)
| [], h, hC, _ => hC
| op :: ops, h, hC, hok => by
    simp only [hrun, List.foldl_cons]
    exact C11_inv ops (hstep h op) (C11_step_keeps_cons hC hok.1) hok.2

/-! ## 7. fresh objects -/

theorem C11_empty_cons (h : Heap)
    (hf : ∀ n ∈ h, n.parent = none ∧ n.children = [] ∧ n.cur = none) : Cons h := by
  have hm : ∀ i n, h.get? i = some n → n ∈ h := fun i n hi => List.mem_of_getElem? hi
  refine ⟨?_, ?_, ?_, ?_⟩
  · intro i n hi c hc
    rw [(hf n (hm i n hi)).2.1] at hc; cases hc
  · intro i n hi p hpp
    rw [(hf n (hm i n hi)).1] at hpp; cases hpp
  · intro i n hi
    rw [(hf n (hm i n hi)).2.1]; exact List.nodup_nil
  · intro i n hi c hc
    rw [(hf n (hm i n hi)).2.2] at hc; cases hc

/-! ## the executable check used by the harness decides the invariant -/

theorem C11_consistent_iff (h : Heap) : consistent h = true ↔ Cons h := by
  have hlt : ∀ i n, h.get? i = some n → i < h.length := by
    intro j n hj
    rcases Nat.lt_or_ge j h.length with a | a
    · exact a
    · rw [get?_none_iff.mpr a] at hj; cases hj
  unfold consistent
  simp only [List.all_eq_true, List.mem_range]
  constructor
  · intro H
    have H' : ∀ i n, h.get? i = some n →
        (n.children.all (fun c => match h.get? c with | some cn => cn.parent == some i | none => false) = true ∧
        n.children.Nodup ∧
        (match n.parent with
          | some p => (match h.get? p with | some pn => pn.children.contains i | none => false)
          | none => true) = true ∧
        (match n.cur with | some c => n.children.contains c | none => true) = true) := by
      intro i n hi
      have := H i (hlt i n hi)
      simp only [hi, Bool.and_eq_true, decide_eq_true_eq] at this
      exact ⟨this.1.1.1, this.1.1.2, this.1.2, this.2⟩
    refine ⟨?_, ?_, ?_, ?_⟩
    · intro i n hi c hc
      have h1 := (H' i n hi).1
      rw [List.all_eq_true] at h1
      have h2 := h1 c hc
      cases hcn : h.get? c with
      | none => simp [hcn] at h2
      | some cn => simp [hcn] at h2; exact ⟨cn, rfl, h2⟩
    · intro i n hi q hq
      have h1 := (H' i n hi).2.2.1
      simp only [hq] at h1
      cases hqn : h.get? q with
      | none => simp [hqn] at h1
      | some qn => simp [hqn] at h1; exact ⟨qn, rfl, h1⟩
    · intro i n hi
      exact (H' i n hi).2.1
    · intro i n hi c hc
      have h1 := (H' i n hi).2.2.2
      simpa [hc] using h1
  · rintro ⟨ha, hb, hc, hd⟩ i hi
    cases hn : h.get? i with
    | none => rfl
    | some n =>
      simp only [Bool.and_eq_true, decide_eq_true_eq]
      refine ⟨⟨⟨?_, hc i n hn⟩, ?_⟩, ?_⟩
      · rw [List.all_eq_true]
        intro c hcm
        obtain ⟨cn, hcn, hcp⟩ := ha i n hn c hcm
        simp [hcn, hcp]
      · cases hq : n.parent with
        | none => rfl
        | some q =>
          obtain ⟨qn, hqn, hm⟩ := hb i n hn q hq
          simp [hqn, hm]
      · cases hq : n.cur with
        | none => rfl
        | some c => simpa using hd i n hn c hq

/-! ## non-vacuity: a concrete history -/

namespace C11

deriving instance DecidableEq for HNode
deriving instance DecidableEq for Except

instance (h : Heap) : (op : HOp) → Decidable (h.OpOK op)
| .add p c => inferInstanceAs (Decidable ((h.get? p).isSome = true ∧ c ≠ some p))
| .addMany p cs => inferInstanceAs (Decidable ((h.get? p).isSome = true ∧ some p ∉ cs))
| .insert p c _ => inferInstanceAs (Decidable ((h.get? p).isSome = true ∧ c ≠ some p))
| .replace p _ r => inferInstanceAs (Decidable (r ≠ some p))
| .remove _ _ => inferInstanceAs (Decidable True)
| .removeById _ _ => inferInstanceAs (Decidable True)
| .removeAll _ => inferInstanceAs (Decidable True)
| .decorate _ => inferInstanceAs (Decidable True)
| .mark _ _ => inferInstanceAs (Decidable True)

instance : (ops : List HOp) → (h : Heap) → Decidable (Heap.AllOK ops h)
| [], _ => inferInstanceAs (Decidable True)
| op :: ops, h =>
  have := instDecidableAllOK ops (hstep h op)
  inferInstanceAs (Decidable (h.OpOK op ∧ Heap.AllOK ops (hstep h op)))

/-- two composites (0: sequence, 1: selector) and four leaves, all fresh -/
def pool : Heap :=
  [{ kind := .seq }, { kind := .sel }, { kind := .leaf }, { kind := .leaf }, { kind := .leaf }, { kind := .leaf }]

/-- 0 gets 2 and 3; 4 is prepended; 2 is offered to composite 1 (rejected: it has a parent) -/
def hist1 : List HOp := [.add 0 (some 2), .add 0 (some 3), .insert 0 (some 4) 0]
/-- … 3 starts RUNNING and is removed; 2 is replaced by 5; 2 and 3 go to composite 1; 1 is decorated;
    an unknown id is removed (rejected); 0 is emptied -/
def hist2 : List HOp :=
  [.add 1 (some 2), .mark 3 .running, .remove 0 3, .replace 0 2 (some 5), .addMany 1 [some 2, some 3],
   .decorate (some 1), .removeById 0 2, .addMany 0 [some 2, none], .removeAll 0, .insert 1 (some 4) (-1)]

example : ∀ n ∈ pool, n.parent = none ∧ n.children = [] ∧ n.cur = none := by decide
example : consistent pool = true := by decide
example : consistent (hrun hist1 pool) = true := by decide
example : consistent (hrun (hist1 ++ hist2) pool) = true := by decide
example : Heap.AllOK (hist1 ++ hist2) pool := by decide
example : Cons (hrun (hist1 ++ hist2) pool) :=
  C11_inv _ _ (C11_empty_cons pool (by decide)) (by decide)
-- the state reached is not trivial: 0 = [4, 2, 3] with matching parent links
example : ((hrun hist1 pool).get? 0).map (·.children) = some [4, 2, 3] := by decide
example : ((hrun hist1 pool).get? 2).map (·.parent) = some (some 0) := by decide
-- moving 2 under a second parent is rejected and changes nothing
example : addChild (hrun hist1 pool) 1 (some 2) = .error .runtimeError := by decide
example : hstep (hrun hist1 pool) (.add 1 (some 2)) = hrun hist1 pool := by decide
example : addChild (hrun hist1 pool) 1 none = .error .typeError := by decide
example : removeChild (hrun hist1 pool) 0 5 = .error .valueError := by decide
example : removeChildById (hrun hist1 pool) 0 5 = .error .indexError := by decide
example : replaceChild (hrun hist1 pool) 0 2 (some 3) = .error .runtimeError := by decide
example : addChildren (hrun hist1 pool) 1 [some 5, some 5] = .error .runtimeError := by decide
example : hstep (hrun hist1 pool) (.addMany 1 [some 5, some 2]) = hrun hist1 pool := by decide
-- removing the RUNNING child 3: index reported, INVALID afterwards, no parent, listed nowhere
example : (match removeChild (hrun (hist1 ++ [.mark 3 .running]) pool) 0 3 with
    | .ok (h', j) => j == 2 && consistent h' &&
        (match h'.get? 3 with | some n => n.status == .invalid && n.parent == none | none => false) &&
        (match h'.get? 0 with | some n => n.children == [4, 2] | none => false)
    | .error _ => false) = true := by decide
-- replacing 2 by 5 keeps the position
example : (match replaceChild (hrun hist1 pool) 0 2 (some 5) with
    | .ok h' => consistent h' &&
        (match h'.get? 0 with | some n => n.children == [4, 5, 3] | none => false) &&
        (match h'.get? 2 with | some n => n.parent == none | none => false)
    | .error _ => false) = true := by decide
-- the invariant is not trivially true: a dangling parent link violates it
example : consistent [{ kind := .seq }, { kind := .leaf, parent := some 0 }] = false := by decide

end C11
