/-
  C09g — bridge between the decorator callbacks GENERATED from /repo's current source (PyTreesGen/C09.lean,
  written by harness/py2lean.py on every run) and the hand-written model (`Node.decUpdate`, `Node.decTerminate`).
  If py_trees/decorators.py changes what one of these methods computes, the corresponding theorem stops checking.
-/
import PyTreesModel.Tree
import PyTreesGen.C09

open Node

theorem C09_gen_inverter (e : Env) (cs : Status) :
    decUpdate e .inverter cs = (.inverter, Gen.Inverter_update cs, false) := by
  cases cs <;> rfl

theorem C09_gen_runningIsFailure (e : Env) (cs : Status) :
    decUpdate e .runningIsFailure cs = (.runningIsFailure, Gen.RunningIsFailure_update cs, false) := by
  cases cs <;> rfl

theorem C09_gen_runningIsSuccess (e : Env) (cs : Status) :
    decUpdate e .runningIsSuccess cs = (.runningIsSuccess, Gen.RunningIsSuccess_update cs, false) := by
  cases cs <;> rfl

theorem C09_gen_failureIsSuccess (e : Env) (cs : Status) :
    decUpdate e .failureIsSuccess cs = (.failureIsSuccess, Gen.FailureIsSuccess_update cs, false) := by
  cases cs <;> rfl

theorem C09_gen_failureIsRunning (e : Env) (cs : Status) :
    decUpdate e .failureIsRunning cs = (.failureIsRunning, Gen.FailureIsRunning_update cs, false) := by
  cases cs <;> rfl

theorem C09_gen_successIsFailure (e : Env) (cs : Status) :
    decUpdate e .successIsFailure cs = (.successIsFailure, Gen.SuccessIsFailure_update cs, false) := by
  cases cs <;> rfl

theorem C09_gen_successIsRunning (e : Env) (cs : Status) :
    decUpdate e .successIsRunning cs = (.successIsRunning, Gen.SuccessIsRunning_update cs, false) := by
  cases cs <;> rfl

theorem C09_gen_passThrough (e : Env) (cs : Status) :
    decUpdate e .passThrough cs = (.passThrough, Gen.PassThrough_update cs, false) := by
  cases cs <;> rfl

theorem C09_gen_condition (e : Env) (s cs : Status) :
    decUpdate e (.condition s) cs = (.condition s, Gen.Condition_update s cs, false) := by
  cases cs <;> cases s <;> rfl

/-- `Count.update`: the model's natural-number counters are the code's integer counters -/
theorem C09_gen_count_update (e : Env) (t r su f i : Nat) (cs : Status) :
    decUpdate e (.count t r su f i) cs =
      (.count (Gen.Count_update r t cs).2.1.toNat (Gen.Count_update r t cs).1.toNat su f i,
       (Gen.Count_update r t cs).2.2, false) := by
  cases cs <;> simp [decUpdate, Gen.Count_update] <;> omega

/-- `Count.terminate` -/
theorem C09_gen_count_terminate (t r su f i : Nat) (s : Status) :
    decTerminate s (.count t r su f i) =
      .count t r (Gen.Count_terminate f i su s).2.2.toNat (Gen.Count_terminate f i su s).1.toNat
        (Gen.Count_terminate f i su s).2.1.toNat := by
  cases s <;> simp [decTerminate, Gen.Count_terminate] <;> omega

/-- `Count.setup` zeroes every counter -/
theorem C09_gen_count_setup : Gen.Count_setup = (0, 0, 0, 0, 0) := rfl

/-- `StatusToBlackboard.update()`: answers the child's status and publishes exactly that status under the decorator's
    variable (the model splits the two: `decUpdate` for the answer, `decPublish` for the write) -/
theorem C09_gen_statusToBlackboard (e : Env) (key : String) (path : List String) (cs : Status) :
    decUpdate e (.statusToBB key path) cs = (.statusToBB key path, (Gen.StatusToBlackboard_update cs).1, false) ∧
    ∃ v, (Gen.StatusToBlackboard_update cs).2 = some v ∧
      ∀ w, decPublish (.statusToBB key []) cs w = .ok (w.set key (.status v)) := by
  refine ⟨rfl, cs, by simp [Gen.StatusToBlackboard_update], fun w => rfl⟩
