/-
  C18 — the three idioms (oneshot, pick_up_where_you_left_off, either_or) and the OneShot decorator.

  Delivered: the machine-checked core of the property (the general-n, all-histories statements of the three
  idioms are not proved as single theorems):
   §1 the XOR fold of the `either_or` check computes the PARITY of the number of true conditions; hence the clause
      "fails when several conditions hold" is FALSE for an odd number ≥ 3 (KNOWN FINDING K3):
      `C18_eo_fail_several_partial` (explicit hypothesis "even number ≥ 2"), counterexample and refutation.
   §4 OneShot decorator: the latch survives every history (ticks, interrupts, pokes) and every later tick returns
      the latched status without entering the child; an unlatched one-shot mirrors its child and latches exactly on
      a completion covered by the policy; an interrupt does not latch.  The oneshot idiom: shape, guard, result leaf.
   §2 either_or: shape, distinct flag keys, flags written / readable, guard, the memory root does not re-run the XOR
      leaf while the chooser is RUNNING (entry block and whole tick), at most one active child in every reachable state.
   §3 pick_up_where_you_left_off: shape, a task whose flag is set is not entered / one whose flag is not set is, the
      flag is written iff the task returned SUCCESS, the clearing leaves are reached only after all guarded tasks
      returned SUCCESS, `stop(INVALID)` cannot touch the blackboard.
   §5 executions of the real builders (`Idioms.pickUp/eitherOr/oneshot` + `Idioms.renumber`).
  Note: `Val.beq` follows Python in identifying `True` with the integer 1, so a guard `flag == True` also passes on a
  flag holding 1; the guard theorems say so explicitly (the idioms themselves only ever write booleans / statuses).
-/
import PyTreesProofs.Lemmas.NoInternal
import PyTreesProofs.Lemmas.Stop
import PyTreesModel.Idioms
import Std.Data.String.ToNat
set_option linter.unusedVariables false
set_option linter.unusedSimpArgs false
open Node

/-! ## 1. the XOR fold of `CheckBlackboardVariableValues` and KNOWN FINDING K3 -/

namespace C18

/-- number of conditions that hold -/
def cnt (rs : List Bool) : Nat := (rs.filter id).length

theorem cnt_cons (r : Bool) (rs : List Bool) : cnt (r :: rs) = if r then cnt rs + 1 else cnt rs := by
  cases r <;> simp [cnt, List.filter]

theorem par_succ (n : Nat) : decide ((n + 1) % 2 = 1) = !decide (n % 2 = 1) := by
  rcases Nat.mod_two_eq_zero_or_one n with h | h
  · have : (n + 1) % 2 = 1 := by omega
    simp [h, this]
  · have : (n + 1) % 2 = 0 := by omega
    simp [h, this]

theorem xor_foldl : ∀ (rs : List Bool) (a : Bool),
    rs.foldl (LogicOp.apply .xor) a = (a != decide (cnt rs % 2 = 1))
| [], a => by simp [cnt]
| r :: rs, a => by
    simp only [List.foldl_cons, xor_foldl rs, cnt_cons]
    generalize cnt rs = n
    cases a <;> cases r <;> simp [LogicOp.apply, par_succ]

end C18

/-- for two options the check computes "exactly one" -/
theorem C18_xor_two (a b : Bool) : reduceLogic .xor [a, b] = (a != b) := by
  simp [reduceLogic, LogicOp.apply]

/-- the fold computes the PARITY of the number of conditions that hold (also true for the empty list, which the
    constructor of the behaviour excludes) -/
theorem C18_xor_parity (rs : List Bool) : reduceLogic .xor rs = decide ((rs.filter id).length % 2 = 1) := by
  show _ = decide (C18.cnt rs % 2 = 1)
  cases rs with
  | nil => simp [reduceLogic, C18.cnt]
  | cons r rs =>
    simp only [reduceLogic, C18.xor_foldl, C18.cnt_cons]
    generalize C18.cnt rs = n
    cases r <;> simp [C18.par_succ]

/-- no condition, or an even number of conditions, hold ⇒ the check fails -/
theorem C18_eo_fail_even (rs : List Bool) (h : (rs.filter id).length % 2 = 0) : reduceLogic .xor rs = false := by
  rw [C18_xor_parity]; simp; omega

/-- exactly one condition holds ⇒ the check passes -/
theorem C18_eo_pass_one (rs : List Bool) (h : (rs.filter id).length = 1) : reduceLogic .xor rs = true := by
  rw [C18_xor_parity]; simp [h]

/-- no condition holds ⇒ the check fails -/
theorem C18_eo_fail_none (rs : List Bool) (h : (rs.filter id).length = 0) : reduceLogic .xor rs = false :=
  C18_eo_fail_even rs (by omega)

/- FULL STATEMENT (property text, "fails when several conditions hold"), which is FALSE (K3):
     theorem C18_eo_fail_several (rs : List Bool) (h : 2 ≤ (rs.filter id).length) : reduceLogic .xor rs = false
   refuted by `C18_eo_three_counterexample` / `C18_eo_several_odd_passes`.  What holds is the version with the
   explicit extra hypothesis "an EVEN number ≥ 2": -/
theorem C18_eo_fail_several_partial (rs : List Bool) (h2 : 2 ≤ (rs.filter id).length)
    (heven : (rs.filter id).length % 2 = 0) : reduceLogic .xor rs = false :=
  C18_eo_fail_even rs heven

/-- **K3**: three true conditions pass the "exactly one" check -/
theorem C18_eo_three_counterexample : reduceLogic .xor [true, true, true] = true := by decide

/-- **K3**, general: any ODD number of true conditions (3, 5, …) passes the check -/
theorem C18_eo_several_odd_passes (rs : List Bool) (hodd : (rs.filter id).length % 2 = 1) :
    reduceLogic .xor rs = true := by
  rw [C18_xor_parity]; simp [hodd]

/-- the negation of the full statement, as a theorem -/
theorem C18_eo_fail_several_refuted :
    ¬ (∀ rs : List Bool, 2 ≤ (rs.filter id).length → reduceLogic .xor rs = false) := by
  intro h; exact absurd (h [true, true, true] (by decide)) (by decide)

example : (([true, true, false, true, true] : List Bool).filter id).length % 2 = 0 := by decide
example : reduceLogic .xor [true, true, false, true, true] = false := by decide
example : reduceLogic .xor [false, true, false] = true := by decide
example : reduceLogic .xor [true, false, true, false, true] = true := by decide

/-! ## 4. the OneShot decorator -/

namespace C18

mutual
/-- `stop(INVALID)` only produces `terminate(INVALID)` callbacks: no behaviour is entered, initialised or updated -/
theorem stopInv_events : ∀ (n : Node) (ev : Ev), ev ∈ (stopInv n).2 → ∃ j, ev = Ev.term j .invalid
| leaf i _ _ _, ev, h => by
    simp only [stopInv, List.mem_singleton] at h; exact ⟨i, h⟩
| seq _ _ _ _ cs, ev, h => by simp only [stopInv] at h; exact stopInvNonInvalid_events cs ev h
| sel _ _ _ _ cs, ev, h => by simp only [stopInv] at h; exact stopInvNonInvalid_events cs ev h
| par _ _ _ _ cs, ev, h => by
    simp only [stopInv, List.mem_append] at h; exact stopInvPar_events cs ev h
| dec _ _ _ c, ev, h => by simp only [stopInv] at h; exact stopInv_events c ev h
theorem stopInvNonInvalid_events : ∀ (cs : List Node) (ev : Ev), ev ∈ (stopInvNonInvalid cs).2 →
    ∃ j, ev = Ev.term j .invalid
| [], ev, h => by simp [stopInvNonInvalid] at h
| c :: cs, ev, h => by
    simp only [stopInvNonInvalid, List.mem_append] at h
    rcases h with h | h
    · split at h
      · exact stopInv_events c ev h
      · simp at h
    · exact stopInvNonInvalid_events cs ev h
theorem stopInvPar_events : ∀ (cs : List Node) (ev : Ev),
    (ev ∈ (stopInvPar cs).2.1 ∨ ev ∈ (stopInvPar cs).2.2) → ∃ j, ev = Ev.term j .invalid
| [], ev, h => by simp [stopInvPar] at h
| c :: cs, ev, h => by
    simp only [stopInvPar] at h
    split at h
    · simp only [List.mem_append] at h
      rcases h with (h | h) | h
      · exact stopInv_events c ev h
      · exact stopInvPar_events cs ev (Or.inl h)
      · exact stopInvPar_events cs ev (Or.inr h)
    · split at h
      · simp only [List.mem_append] at h
        rcases h with h | (h | h)
        · exact stopInvPar_events cs ev (Or.inl h)
        · exact stopInv_events c ev h
        · exact stopInvPar_events cs ev (Or.inr h)
      · exact stopInvPar_events cs ev h
end

end C18

/-- a latched one-shot: a tick returns the latched status, leaves the blackboard alone, keeps the latch, and enters
    no behaviour but the decorator itself: the trace is `enter i`, the `terminate(INVALID)` callbacks of a child that
    was still RUNNING, `yield i s`. -/
theorem C18_oneshot_latched_tick (e : Env) (w : Store) (i : Nat) (b : Bool) (s st : Status) (c n' : Node)
    (w' : Store) (tr : List Ev) (h : tick e w (dec i (.oneShot b (some s)) st c) = .ok (n', w', tr)) :
    n'.status = s ∧ w' = w ∧ (∃ c', n' = dec i (.oneShot b (some s)) s c') ∧
    (∃ trStop, tr = [.enter i] ++ trStop ++ [.yld i s] ∧ ∀ ev ∈ trStop, ∃ j, ev = Ev.term j .invalid) ∧
    (∀ j, Ev.enter j ∈ tr → j = i) ∧ (c.id ≠ i → ∀ ev ∈ tr, ev ≠ .enter c.id) := by
  simp only [tick, height, tickF, decBounce, decTerminate, Option.isNone_some, Bool.false_and,
    Bool.false_eq_true, ↓reduceIte, pure, Except.pure, Except.ok.injEq, Prod.mk.injEq] at h
  obtain ⟨rfl, rfl, rfl⟩ := h
  have hstop : ∀ ev ∈ (if c.status = .running then stopInv c else (c, [])).2, ∃ j, ev = Ev.term j .invalid := by
    intro ev hev
    split at hev
    · exact C18.stopInv_events c ev hev
    · simp at hev
  have henter : ∀ j, Ev.enter j ∈ [Ev.enter i] ++ (if c.status = .running then stopInv c else (c, [])).2 ++ [.yld i s] →
      j = i := by
    intro j hj
    simp only [List.mem_append, List.mem_singleton, Ev.enter.injEq, reduceCtorEq, or_false] at hj
    rcases hj with hj | hj
    · exact hj
    · obtain ⟨k, hk⟩ := hstop _ hj; cases hk
  refine ⟨rfl, rfl, ⟨_, rfl⟩, ⟨_, rfl, hstop⟩, henter, ?_⟩
  intro hne ev hev heq
  subst heq
  exact hne (henter _ hev)

/-- **the latch survives every history** (ticks with any environment, root interrupts, blackboard pokes) -/
theorem C18_oneshot_latch_forever (i : Nat) (b : Bool) (s : Status) : ∀ (ops : List Op) (st : Status) (c : Node)
    (w : Store) (n' : Node) (w' : Store), run ops (dec i (.oneShot b (some s)) st c) w = .ok (n', w') →
    ∃ st' c', n' = dec i (.oneShot b (some s)) st' c'
| [], st, c, w, n', w', h => by
    simp only [run, Except.ok.injEq, Prod.mk.injEq] at h
    exact ⟨st, c, h.1.symm⟩
| op :: ops, st, c, w, n', w', h => by
    simp only [run] at h
    cases hs : step (dec i (.oneShot b (some s)) st c) w op with
    | error x => simp [hs] at h
    | ok v =>
      obtain ⟨n1, w1, tr⟩ := v
      simp only [hs] at h
      have : ∃ st1 c1, n1 = dec i (.oneShot b (some s)) st1 c1 := by
        cases op with
        | tick e =>
          simp only [step] at hs
          obtain ⟨_, _, ⟨c', hc'⟩, _⟩ := C18_oneshot_latched_tick e w i b s st c n1 w1 tr hs
          exact ⟨s, c', hc'⟩
        | stop =>
          simp only [step, stopInv, decTerminate, Option.isNone_some, Bool.false_and, Bool.false_eq_true,
            ↓reduceIte, Except.ok.injEq, Prod.mk.injEq] at hs
          exact ⟨_, _, hs.1.symm⟩
        | poke k v =>
          cases v <;> simp only [step, Except.ok.injEq, Prod.mk.injEq] at hs <;> exact ⟨_, _, hs.1.symm⟩
      obtain ⟨st1, c1, rfl⟩ := this
      exact C18_oneshot_latch_forever i b s ops st1 c1 w1 n' w' h

/-- … hence **every later tick, after any history, returns the latched result without entering the child** -/
theorem C18_oneshot_latched_after_history (i : Nat) (b : Bool) (s st : Status) (c : Node) (ops : List Op)
    (w w1 w2 : Store) (n1 n2 : Node) (e : Env) (tr : List Ev)
    (h : run ops (dec i (.oneShot b (some s)) st c) w = .ok (n1, w1)) (ht : tick e w1 n1 = .ok (n2, w2, tr)) :
    n2.status = s ∧ w2 = w1 ∧ (∀ j, Ev.enter j ∈ tr → j = i) ∧
    ∃ st' c', n2 = dec i (.oneShot b (some s)) st' c' := by
  obtain ⟨st1, c1, rfl⟩ := C18_oneshot_latch_forever i b s ops st c w n1 w1 h
  obtain ⟨a1, a2, ⟨c', a3⟩, _, a5, _⟩ := C18_oneshot_latched_tick e w1 i b s st1 c1 n2 w2 tr ht
  exact ⟨a1, a2, a5, s, c', a3⟩

/-- an interrupt does not latch (the repaired `OneShot.terminate` ignores INVALID) -/
theorem C18_oneshot_interrupt_does_not_latch (i : Nat) (b : Bool) (st : Status) (c : Node) :
    (stopInv (dec i (.oneShot b none) st c)).1 = dec i (.oneShot b none) .invalid (stopInv c).1 := by
  simp [stopInv, decTerminate]

/-- an unlatched one-shot **mirrors its child** and latches exactly when the child completes in a way covered by the
    policy (SUCCESS, or also FAILURE under ON_COMPLETION). `hv`: the child's tick answered a status (always the case
    under `ValidEnv`, `tickF_good`); a child answering INVALID makes the decorator INVALID and is stopped once more. -/
theorem C18_oneshot_unlatched_tick (f : Nat) (e : Env) (w : Store) (i : Nat) (b : Bool) (st : Status) (c c1 : Node)
    (w1 : Store) (tr1 : List Ev) (hc : tickF f e w c = .ok (c1, w1, tr1)) (hv : c1.status ≠ .invalid) :
    tickF (f + 1) e w (dec i (.oneShot b none) st c) =
      .ok (dec i (.oneShot b (if c1.status = .success ∨ (b = true ∧ c1.status = .failure) then some c1.status else none))
             c1.status c1, w1, [.enter i] ++ tr1 ++ [.yld i c1.status]) := by
  simp only [tickF, decRun, decInit, ite_self, hc, bind, Except.bind, decPublish, pure, Except.pure, decUpdate]
  cases hs : c1.status <;> cases b <;> simp_all [decTerminate]
/-! ### the oneshot idiom -/
namespace C18
/-- the flag-setting leaf of the oneshot idiom -/
def setFlag (key : String) (path : List String) (s : Status) : Node :=
  leaf 0 .invalid (.setVar key path (.status s) true) []

/-- the wrapped behaviour followed by "remember SUCCESS" (appended to it when it is a Sequence itself) -/
def work (b : Node) (key : String) (path : List String) : Node :=
  match b with
  | seq i m s c cs => seq i m s c (cs ++ [setFlag key path .success])
  | _ => seq 0 true .invalid none [b, setFlag key path .success]
end C18

theorem C18_oneshot_idiom_shape (b : Node) (key : String) (path : List String) (both : Bool) :
    Idioms.oneshot b key path both =
      sel 0 false .invalid none
        [seq 0 true .invalid none
          [dec 0 .inverter .invalid (leaf 0 .invalid (.checkExists key path) []),
           if both then
             sel 0 false .invalid none
               [C18.work b key path,
                seq 0 true .invalid none [C18.setFlag key path .failure, leaf 0 .invalid (.const .failure) []]]
           else C18.work b key path],
         leaf 0 .invalid (.checkValue { key := key, path := path, op := .eq, value := .status .success }) []] := by
  cases b <;> rfl

theorem C18_oneshot_idiom_shape_success (b : Node) (key : String) (path : List String) :
    Idioms.oneshot b key path false =
      sel 0 false .invalid none
        [seq 0 true .invalid none
          [dec 0 .inverter .invalid (leaf 0 .invalid (.checkExists key path) []), C18.work b key path],
         leaf 0 .invalid (.checkValue { key := key, path := path, op := .eq, value := .status .success }) []] := by
  rw [C18_oneshot_idiom_shape]; rfl

theorem C18_oneshot_idiom_shape_completion (b : Node) (key : String) (path : List String) :
    Idioms.oneshot b key path true =
      sel 0 false .invalid none
        [seq 0 true .invalid none
          [dec 0 .inverter .invalid (leaf 0 .invalid (.checkExists key path) []),
           sel 0 false .invalid none
             [C18.work b key path,
              seq 0 true .invalid none [C18.setFlag key path .failure, leaf 0 .invalid (.const .failure) []]]],
         leaf 0 .invalid (.checkValue { key := key, path := path, op := .eq, value := .status .success }) []] := by
  rw [C18_oneshot_idiom_shape]; rfl

theorem C18_oneshot_idiom_work_leaf (i : Nat) (s : Status) (k : LeafKind) (l : List LEv) (key : String)
    (path : List String) :
    C18.work (leaf i s k l) key path = seq 0 true .invalid none [leaf i s k l, C18.setFlag key path .success] := rfl

theorem C18_oneshot_idiom_work_seq (i : Nat) (m : Bool) (s : Status) (c : Option Nat) (cs : List Node) (key : String)
    (path : List String) :
    C18.work (seq i m s c cs) key path = seq i m s c (cs ++ [C18.setFlag key path .success]) := rfl

/-- the guard `Inverter(CheckBlackboardVariableExists(flag))` is FAILURE iff the flag variable exists, SUCCESS
    otherwise; it never touches the blackboard -/
theorem C18_oneshot_idiom_guard (f : Nat) (e : Env) (w : Store) (d l : Nat) (st ls : Status) (ll : List LEv)
    (key : String) (path : List String) :
    ∃ n' tr, tickF (f + 2) e w (dec d .inverter st (leaf l ls (.checkExists key path) ll)) = .ok (n', w, tr) ∧
      n'.status = (if (w.getPath key path).isSome then .failure else .success) := by
  by_cases hx : (w.getPath key path).isSome = true <;>
  by_cases hs : st = .running <;> by_cases hl : ls = .running <;>
    simp [tickF, leafTick, decRun, leafInit, leafUpdate, decInit, decPublish, decUpdate, decTerminate, bind, Except.bind,
      pure, Except.pure, hx, hs, hl, status]

/-- the two callbacks behind the guard -/
theorem C18_oneshot_idiom_guard_leaf (i : Nat) (e : Env) (w : Store) (key : String) (path : List String) :
    leafUpdate i e w (.checkExists key path) =
      .ok (.checkExists key path, (if (w.getPath key path).isSome then .success else .failure), w) := rfl

theorem C18_oneshot_idiom_guard_inverter (e : Env) :
    (decUpdate e .inverter .success).2.1 = .failure ∧ (decUpdate e .inverter .failure).2.1 = .success ∧
    (decUpdate e .inverter .running).2.1 = .running := ⟨rfl, rfl, rfl⟩

/-- the result leaf `CheckBlackboardVariableValue(flag == SUCCESS)` returns SUCCESS iff the stored status is SUCCESS -/
theorem C18_oneshot_idiom_result (i : Nat) (e : Env) (w : Store) (key : String) (path : List String) :
    ∃ o, leafUpdate i e w (.checkValue { key := key, path := path, op := .eq, value := .status .success }) =
        .ok (.checkValue { key := key, path := path, op := .eq, value := .status .success }, o, w) ∧
      (w.getPath key path = some (.status .success) → o = .success) ∧
      (∀ s, s ≠ .success → w.getPath key path = some (.status s) → o = .failure) ∧
      (w.getPath key path = none → o = .failure) ∧
      (o = .success ∨ o = .failure) := by
  cases hv : w.getPath key path with
  | none => exact ⟨.failure, by simp [leafUpdate, hv, pure, Except.pure], by simp, by simp, by simp, by simp⟩
  | some v =>
    refine ⟨if v == .status .success then .success else .failure,
      by simp [leafUpdate, hv, cmpVals, bind, Except.bind, pure, Except.pure], ?_, ?_, by simp, ?_⟩
    · intro h; simp only [Option.some.injEq] at h; subst h; simp [BEq.beq, Val.beq]
    · intro s hs h; simp only [Option.some.injEq] at h; subst h
      cases s <;> simp_all [BEq.beq, Val.beq]
    · split <;> simp


/-! ## 2. either_or -/

namespace C18

/-- the flag keys `ns/1 … ns/n` of `either_or` -/
def eoKeys (n : Nat) (ns : String) : List String := (List.range n).map (fun i => ns ++ "/" ++ toString (i + 1))

/-- `CheckBlackboardVariableValue(k == True)` -/
def flagCheck (k : String) : Check := { key := k, path := [], op := .eq, value := .bool true }

/-- option `k ↦ t`: a memory Sequence of the guard on flag `k` and the subtree -/
def eoOption (k : String) (t : Node) : Node :=
  seq 0 true .invalid none [leaf 0 .invalid (.checkValue (flagCheck k)) [], t]

theorem eoKeys_length (n : Nat) (ns : String) : (eoKeys n ns).length = n := by simp [eoKeys]

theorem eoKeys_get (n : Nat) (ns : String) (i : Nat) (h : i < (eoKeys n ns).length) :
    (eoKeys n ns)[i] = ns ++ "/" ++ toString (i + 1) := by
  simp [eoKeys]

/-- the keys are pairwise distinct (decimal representation is injective) -/
theorem eoKeys_nodup (n : Nat) (ns : String) : (eoKeys n ns).Nodup := by
  unfold eoKeys
  refine List.Pairwise.map _ ?_ List.nodup_range
  intro a b hab heq
  have h1 := (String.append_right_inj _).mp heq
  have h2 : Nat.repr (a + 1) = Nat.repr (b + 1) := h1
  have := Nat.repr_inj.mp h2
  omega

theorem publishResults_not_mem : ∀ (ks : List String) (rs : List Bool) (w : Store) (k : String), k ∉ ks →
    publishResults w ks rs k = w k
| [], rs, w, k, _ => by cases rs <;> rfl
| k' :: ks, [], w, k, _ => rfl
| k' :: ks, r :: rs, w, k, h => by
    simp only [List.mem_cons, not_or] at h
    simp only [publishResults]
    rw [publishResults_not_mem ks rs _ k h.2]
    simp [Store.set, h.1]

/-- result `i` is readable under key `i` after the XOR leaf has published (later writes do not overwrite earlier keys) -/
theorem publishResults_get : ∀ (keys : List String) (rs : List Bool) (w : Store), keys.Nodup → keys.length = rs.length →
    ∀ (i : Nat) (h : i < keys.length) (h' : i < rs.length), (publishResults w keys rs) keys[i] = some (.bool rs[i])
| [], rs, w, _, _, i, h, _ => by simp at h
| k :: ks, [], w, _, hl, i, h, h' => by simp at h'
| k :: ks, r :: rs, w, hnd, hl, i, h, h' => by
    simp only [List.nodup_cons] at hnd
    simp only [publishResults]
    cases i with
    | zero =>
      simp only [List.getElem_cons_zero]
      rw [publishResults_not_mem ks rs _ k hnd.1]
      simp [Store.set]
    | succ i =>
      simp only [List.getElem_cons_succ]
      exact publishResults_get ks rs _ hnd.2 (by simpa using hl) i (by simpa using h) (by simpa using h')

end C18

/-- the structure `either_or` builds: memory Sequence [XOR check publishing the flags, chooser Selector of the options] -/
theorem C18_eo_shape (conds : List Check) (subtrees : List Node) (ns : String) :
    Idioms.eitherOr conds subtrees ns =
      seq 0 true .invalid none
        [leaf 0 .invalid (.checkValues conds .xor (some (C18.eoKeys conds.length ns))) [],
         sel 0 false .invalid none
           (((C18.eoKeys conds.length ns).zip subtrees).map (fun p => C18.eoOption p.1 p.2))] := rfl

/-- option `i` is the memory Sequence [guard reading exactly flag key `i`, subtree `i`] -/
theorem C18_eo_option (conds : List Check) (subtrees : List Node) (ns : String) (i : Nat) (h1 : i < conds.length)
    (h2 : i < subtrees.length) :
    (((C18.eoKeys conds.length ns).zip subtrees).map (fun p => C18.eoOption p.1 p.2))[i]? =
      some (seq 0 true .invalid none
        [leaf 0 .invalid (.checkValue { key := ns ++ "/" ++ toString (i + 1), path := [], op := .eq, value := .bool true }) [],
         subtrees[i]]) := by
  simp [C18.eoKeys, C18.eoOption, C18.flagCheck, List.getElem?_map, List.getElem?_zip_eq_some, h1, h2]

/-- there are as many options as there are (condition, subtree) pairs -/
theorem C18_eo_option_count (conds : List Check) (subtrees : List Node) (ns : String) :
    (((C18.eoKeys conds.length ns).zip subtrees).map (fun p => C18.eoOption p.1 p.2)).length =
      min conds.length subtrees.length := by
  simp [C18.eoKeys_length]

/-- the flag keys of `either_or` are pairwise distinct -/
theorem C18_eo_keys_nodup (n : Nat) (ns : String) : (C18.eoKeys n ns).Nodup := C18.eoKeys_nodup n ns

/-- the XOR leaf publishes its results under the keys, and its status is the XOR fold -/
theorem C18_eo_flags_written (i : Nat) (e : Env) (w : Store) (conds : List Check) (keys : List String) (rs : List Bool)
    (h : evalChecks w conds = .ok (some rs)) :
    leafUpdate i e w (.checkValues conds .xor (some keys)) =
      .ok (.checkValues conds .xor (some keys), (if reduceLogic .xor rs then .success else .failure),
           publishResults w keys rs) := by
  simp [leafUpdate, h, bind, Except.bind, pure, Except.pure]

/-- a missing condition variable: the XOR leaf fails and publishes nothing -/
theorem C18_eo_flags_missing (i : Nat) (e : Env) (w : Store) (conds : List Check) (keys : List String)
    (h : evalChecks w conds = .ok none) :
    leafUpdate i e w (.checkValues conds .xor (some keys)) = .ok (.checkValues conds .xor (some keys), .failure, w) := by
  simp [leafUpdate, h, bind, Except.bind, pure, Except.pure]

/-- after publishing, flag `i` holds result `i` -/
theorem C18_eo_flags_readable (w : Store) (keys : List String) (rs : List Bool) (hnd : keys.Nodup)
    (hl : keys.length = rs.length) (i : Nat) (h : i < keys.length) :
    (publishResults w keys rs) keys[i] = some (.bool (rs[i]'(hl ▸ h))) :=
  C18.publishResults_get keys rs w hnd hl i h (hl ▸ h)

/-- … in particular for the keys `either_or` uses -/
theorem C18_eo_flags_readable_idiom (w : Store) (ns : String) (rs : List Bool) (i : Nat) (h : i < rs.length) :
    (publishResults w (C18.eoKeys rs.length ns) rs) (ns ++ "/" ++ toString (i + 1)) = some (.bool rs[i]) := by
  have hl := C18.eoKeys_length rs.length ns
  have := C18.publishResults_get (C18.eoKeys rs.length ns) rs w (C18.eoKeys_nodup _ _) hl i (by rw [hl]; exact h) h
  rwa [C18.eoKeys_get] at this

/-- the guard of an option succeeds iff its flag is `True` (or the integer 1, which Python's `==` identifies with `True`;
    the idiom itself only ever writes booleans under the flag keys); it fails otherwise and never writes -/
theorem C18_eo_guard (i : Nat) (e : Env) (w : Store) (k : String) :
    ∃ o, leafUpdate i e w (.checkValue { key := k, path := [], op := .eq, value := .bool true }) =
        .ok (.checkValue { key := k, path := [], op := .eq, value := .bool true }, o, w) ∧
      (o = .success ↔ (w k = some (.bool true) ∨ w k = some (.int 1))) ∧ (o = .success ∨ o = .failure) ∧
      (w k = some (.bool true) → o = .success) ∧ (w k = some (.bool false) → o = .failure) ∧
      (w k = none → o = .failure) := by
  cases hv : w k with
  | none => exact ⟨.failure, by simp [leafUpdate, Store.getPath, hv, pure, Except.pure], by simp, by simp, by simp,
      by simp, by simp⟩
  | some v =>
    refine ⟨if v == .bool true then .success else .failure,
      by simp [leafUpdate, Store.getPath, Val.getPath, hv, cmpVals, bind, Except.bind, pure, Except.pure], ?_, ?_, ?_, ?_,
      by simp⟩
    · cases v <;> simp [BEq.beq, Val.beq]
    · split <;> simp
    · intro h; simp only [Option.some.injEq] at h; subst h; simp [BEq.beq, Val.beq]
    · intro h; simp only [Option.some.injEq] at h; subst h; simp [BEq.beq, Val.beq]

/-- the idiom root is a Sequence WITH MEMORY: while it is RUNNING with the chooser as the remembered child, its entry
    block starts at the chooser — the XOR leaf is in the "before" part and is not ticked -/
theorem C18_eo_not_revisited (xorLeaf chooser : Node) (chooserId : Nat) (h1 : xorLeaf.id ≠ chooserId)
    (h2 : chooser.id = chooserId) :
    seqEntry .running true (some chooserId) [xorLeaf, chooser] = .ok ([xorLeaf], [chooser], []) := by
  simp [seqEntry, splitAtId, h1, h2, pure, Except.pure]

/-- the same at the level of a whole tick: the XOR leaf is left exactly as it was, the blackboard and the trace are those
    of the chooser's tick (so the flags are not rewritten and the choice is not revisited, whatever the condition
    variables now hold), and the root mirrors the chooser -/
theorem C18_eo_not_revisited_tick (f : Nat) (e : Env) (w : Store) (r : Nat) (x ch ch' : Node) (w' : Store) (tr' : List Ev)
    (hx : x.id ≠ ch.id) (hc : tickF f e w ch = .ok (ch', w', tr')) :
    tickF (f + 1) e w (seq r true .running (some ch.id) [x, ch]) =
      .ok (seq r true ch'.status (some ch'.id) [x, ch'], w', [.enter r] ++ tr' ++ [.yld r ch'.status]) := by
  by_cases hs : ch'.status = .success <;>
    simp [tickF, seqEntry, splitAtId, hx, seqRun, seqLoop, hc, bind, Except.bind, pure, Except.pure, hs, lastId?]

namespace C18
theorem eq_of_id_eq : ∀ (cs : List Node), (cs.map Node.id).Nodup → ∀ a ∈ cs, ∀ b ∈ cs, a.id = b.id → a = b
| [], _, a, ha, _, _, _ => by simp at ha
| c :: cs, hnd, a, ha, b, hb, hab => by
    simp only [List.map_cons, List.nodup_cons, List.mem_map, not_exists, not_and] at hnd
    simp only [List.mem_cons] at ha hb
    rcases ha with rfl | ha <;> rcases hb with rfl | hb
    · rfl
    · exact absurd hab.symm (hnd.1 b hb)
    · exact absurd hab (hnd.1 a ha)
    · exact eq_of_id_eq cs hnd.2 a ha b hb hab

theorem single_active (cur : Option Nat) (cs : List Node) (hoc : onlyCur cur cs = true) (hnd : (cs.map Node.id).Nodup)
    (a : Node) (ha : a ∈ cs) (b : Node) (hb : b ∈ cs) (hra : ∃ x ∈ nodes a, x.status = .running)
    (hrb : ∃ y ∈ nodes b, y.status = .running) : a = b ∧ cur = some a.id := by
  rw [onlyCur_iff] at hoc
  obtain ⟨x, hx, hxr⟩ := hra
  obtain ⟨y, hy, hyr⟩ := hrb
  have h1 : cur = some a.id := by
    rcases hoc a ha with h | h
    · exact absurd hxr (noRun_of_mem_nodes a x h hx)
    · exact h
  have h2 : cur = some b.id := by
    rcases hoc b hb with h | h
    · exact absurd hyr (noRun_of_mem_nodes b y h hy)
    · exact h
  refine ⟨eq_of_id_eq cs hnd a ha b hb ?_, h1⟩
  rw [h1] at h2; simpa using h2
end C18

/-- **never two subtrees active**: in every reachable state, at most one child of a Selector (in particular of the
    chooser of `either_or`) contains a RUNNING behaviour, and that child is the selector's current child -/
theorem C18_eo_single_active (ops : List Op) (n n' : Node) (w' : Store) (hf : isFresh n = true)
    (hops : ∀ op ∈ ops, ValidOp op) (h : run ops n Store.empty = .ok (n', w'))
    (i : Nat) (mm : Bool) (s : Status) (cur : Option Nat) (cs : List Node) (hm : sel i mm s cur cs ∈ nodes n') :
    ∀ a ∈ cs, ∀ b ∈ cs, (∃ x ∈ nodes a, x.status = .running) → (∃ y ∈ nodes b, y.status = .running) →
      a = b ∧ cur = some a.id := by
  intro a ha b hb hra hrb
  have hg := (reachable_good ops n n' w' hf hops h).1
  have hw := wf_of_mem_nodes n' _ hg.1 hm
  simp only [wf, Bool.and_eq_true, decide_eq_true_eq] at hw
  exact C18.single_active cur cs hw.1.1.1.2 hw.1.1.2 a ha b hb hra hrb

/-- the same for Sequences (the idiom root and the options) -/
theorem C18_eo_single_active_seq (ops : List Op) (n n' : Node) (w' : Store) (hf : isFresh n = true)
    (hops : ∀ op ∈ ops, ValidOp op) (h : run ops n Store.empty = .ok (n', w'))
    (i : Nat) (mm : Bool) (s : Status) (cur : Option Nat) (cs : List Node) (hm : seq i mm s cur cs ∈ nodes n') :
    ∀ a ∈ cs, ∀ b ∈ cs, (∃ x ∈ nodes a, x.status = .running) → (∃ y ∈ nodes b, y.status = .running) →
      a = b ∧ cur = some a.id := by
  intro a ha b hb hra hrb
  have hg := (reachable_good ops n n' w' hf hops h).1
  have hw := wf_of_mem_nodes n' _ hg.1 hm
  simp only [wf, Bool.and_eq_true, decide_eq_true_eq] at hw
  exact C18.single_active cur cs hw.1.1.1.2 hw.1.1.2 a ha b hb hra hrb

/-! ## 3. pick_up_where_you_left_off -/

namespace C18

/-- the flag of a task -/
def puFlag (nm : String) : String := Idioms.rootKey (Idioms.slug nm ++ "_done")

/-- "remember this task is done" -/
def puSet (flag : String) : LeafKind := .setVar flag [] (.bool true) true

/-- guarded task: Selector [is the flag set?, Sequence* [task, set the flag]] -/
def puGuarded (nm : String) (t : Node) : Node :=
  sel 0 false .invalid none
    [leaf 0 .invalid (.checkValue (flagCheck (puFlag nm))) [],
     seq 0 true .invalid none [t, leaf 0 .invalid (puSet (puFlag nm)) []]]

def puClear (nm : String) : Node := leaf 0 .invalid (.unsetVar (puFlag nm)) []

end C18

/-- the structure `pick_up_where_you_left_off` builds: a memory Sequence of the guarded tasks followed by one
    flag-clearing leaf per task -/
theorem C18_pickup_shape (tasks : List (String × Node)) :
    Idioms.pickUp tasks =
      seq 0 true .invalid none
        (tasks.map (fun p => C18.puGuarded p.1 p.2) ++ tasks.map (fun p => C18.puClear p.1)) := rfl

theorem C18_pickup_shape_two (a b : String) (ta tb : Node) :
    Idioms.pickUp [(a, ta), (b, tb)] =
      seq 0 true .invalid none
        [sel 0 false .invalid none
          [leaf 0 .invalid (.checkValue { key := C18.puFlag a, path := [], op := .eq, value := .bool true }) [],
           seq 0 true .invalid none [ta, leaf 0 .invalid (.setVar (C18.puFlag a) [] (.bool true) true) []]],
         sel 0 false .invalid none
          [leaf 0 .invalid (.checkValue { key := C18.puFlag b, path := [], op := .eq, value := .bool true }) [],
           seq 0 true .invalid none [tb, leaf 0 .invalid (.setVar (C18.puFlag b) [] (.bool true) true) []]],
         leaf 0 .invalid (.unsetVar (C18.puFlag a)) [],
         leaf 0 .invalid (.unsetVar (C18.puFlag b)) []] := rfl

namespace C18

/-- tick of a guard leaf whose flag is set: SUCCESS, blackboard untouched, only the leaf itself entered -/
theorem guard_tick_set (e : Env) (w : Store) (g : Nat) (gs : Status) (gl : List LEv) (flag : String)
    (hw : w flag = some (.bool true)) :
    ∃ l' tr, leafTick e w g gs (.checkValue (flagCheck flag)) gl =
        .ok (leaf g .success (.checkValue (flagCheck flag)) l', w, tr) ∧ ∀ j, Ev.enter j ∈ tr → j = g := by
  by_cases hs : gs = .running <;>
    simp [leafTick, leafInit, leafUpdate, flagCheck, Store.getPath, Val.getPath, hw, cmpVals, bind, Except.bind,
      pure, Except.pure, hs, BEq.beq, Val.beq] <;>
    exact ⟨_, _, ⟨rfl, rfl⟩, by simp⟩

end C18

/-- **(a) a task whose flag is set is not entered**: the guarded selector returns SUCCESS after ticking only its guard;
    the worker is not entered (whatever the selector's previous state) and the blackboard is untouched.
    (`worker.id ≠ i` is needed besides `worker.id ≠ g` because the selector's own `enter i` is in the trace.) -/
theorem C18_pickup_skip_done (f : Nat) (e : Env) (w : Store) (i g : Nat) (st gs : Status) (cur : Option Nat)
    (gl : List LEv) (flag : String) (worker : Node) (hw : w flag = some (.bool true)) (hg : worker.id ≠ g)
    (hi : worker.id ≠ i) :
    ∃ n' tr, tickF (f + 2) e w
        (sel i false st cur [leaf g gs (.checkValue { key := flag, path := [], op := .eq, value := .bool true }) gl, worker])
        = .ok (n', w, tr) ∧ n'.status = .success ∧ (∀ ev ∈ tr, ev ≠ .enter worker.id) := by
  obtain ⟨l', trg, hgt, hge⟩ := C18.guard_tick_set e w g gs gl flag hw
  simp only [C18.flagCheck] at hgt
  show ∃ n' tr, tickF ((f + 1) + 1) e w _ = _ ∧ _
  simp only [tickF, List.isEmpty_cons, Bool.false_eq_true, ↓reduceIte, selEntry, bind, Except.bind, pure,
    Except.pure, selRun, selLoop, hgt]
  simp only [status, or_true, ↓reduceIte, List.nil_append, List.append_nil]
  refine ⟨_, _, rfl, ?_, ?_⟩
  · rfl
  · intro ev hev heq
    subst heq
    have hterm : ∀ (c : Prop) [Decidable c], ∀ ev ∈ (if c then ([worker], []) else stopInvNonInvalid [worker]).2,
        ∃ j, ev = Ev.term j .invalid := by
      intro c _ ev hev
      split at hev
      · simp at hev
      · exact C18.stopInvNonInvalid_events [worker] ev hev
    simp only [List.mem_append, List.mem_cons, Ev.enter.injEq, reduceCtorEq, or_false, List.not_mem_nil] at hev
    rcases hev with (hev | hev) | hev
    · exact hi hev
    · exact hg (hge _ hev)
    · obtain ⟨j, hj⟩ := hterm _ _ hev; cases hj

namespace C18

/-- the flag-setting leaf always succeeds and writes `True` under the flag -/
theorem set_tick (e : Env) (w : Store) (s : Nat) (ss : Status) (sl : List LEv) (flag : String) :
    ∃ l' tr, leafTick e w s ss (puSet flag) sl =
      .ok (leaf s .success (puSet flag) l', w.set flag (.bool true), tr) := by
  by_cases hs : ss = .running <;>
    simp [leafTick, leafInit, leafUpdate, puSet, bind, Except.bind, pure, Except.pure, hs]

/-- the "actual work" block of the worker Sequence [task, set flag] for an arbitrary child tick function -/
theorem worker_run (t : Tick) (e : Env) (w : Store) (j : Nat) (trR : List Ev) (task0 t' : Node) (s : Nat) (ss : Status)
    (sl : List LEv) (flag : String) (w1 : Store) (trt : List Ev) (ht : t w task0 = .ok (t', w1, trt))
    (hleaf : ∀ w', t w' (leaf s ss (puSet flag) sl) = leafTick e w' s ss (puSet flag) sl) :
    ∃ n' tr, seqRun t w j true [] [task0, leaf s ss (puSet flag) sl] trR =
        .ok (n', (if t'.status = .success then w1.set flag (.bool true) else w1), tr) ∧ n'.status = t'.status ∧
      (t'.status ≠ .success → n' = seq j true t'.status (some t'.id) [t', leaf s ss (puSet flag) sl] ∧
        tr = [.enter j] ++ trR ++ trt ++ [.yld j t'.status]) := by
  by_cases hs : t'.status = .success
  · obtain ⟨l', trs, hset⟩ := set_tick e w1 s ss sl flag
    simp only [seqRun, seqLoop, ht, hleaf, hset, bind, Except.bind, pure, Except.pure, hs, ne_eq, not_true_eq_false,
      ↓reduceIte, reduceCtorEq, not_false_eq_true]
    exact ⟨_, _, rfl, rfl, fun h => h.elim⟩
  · simp only [seqRun, seqLoop, ht, bind, Except.bind, pure, Except.pure, hs, ne_eq, not_false_eq_true, ↓reduceIte]
    exact ⟨_, _, rfl, rfl, fun _ => ⟨by simp, by simp⟩⟩

end C18

/-- **(b) the flag is set exactly when the task returned SUCCESS**: a tick of the worker `Sequence* [task, set flag]`
    — entered afresh (its children are reset first) or resumed at the task — ticks the task, mirrors its status, and
    the blackboard afterwards is the one the task left, plus `flag := True` iff the task returned SUCCESS. -/
theorem C18_pickup_flag_iff_success (f : Nat) (e : Env) (w : Store) (j : Nat) (st : Status) (cur : Option Nat)
    (task : Node) (s : Nat) (ss : Status) (sl : List LEv) (flag : String)
    (hentry : st ≠ .running ∨ cur = some task.id) (t' : Node) (w1 : Store) (trt : List Ev)
    (ht : tickF f e w (if st ≠ .running ∧ task.status ≠ .invalid then (stopInv task).1 else task) = .ok (t', w1, trt)) :
    ∃ n' tr, tickF (f + 1) e w (seq j true st cur [task, leaf s ss (.setVar flag [] (.bool true) true) sl]) =
        .ok (n', (if t'.status = .success then w1.set flag (.bool true) else w1), tr) ∧ n'.status = t'.status := by
  obtain ⟨f', rfl⟩ : ∃ f', f = f' + 1 := by
    cases f with
    | zero => simp [tickF] at ht
    | succ f' => exact ⟨f', rfl⟩
  have hleaf : ∀ (ss' : Status) (sl' : List LEv) (w' : Store),
      tickF (f' + 1) e w' (leaf s ss' (C18.puSet flag) sl') = leafTick e w' s ss' (C18.puSet flag) sl' := by
    intro ss' sl' w'; simp only [tickF]
  show ∃ n' tr, tickF ((f' + 1) + 1) e w (seq j true st cur [task, leaf s ss (C18.puSet flag) sl]) = _ ∧ _
  by_cases hst : st = .running
  · have hcur : cur = some task.id := by rcases hentry with h | h; exact absurd hst h; exact h
    subst hst; subst hcur
    simp only [ne_eq, not_true_eq_false, false_and, ↓reduceIte] at ht
    obtain ⟨n', tr, h1, h2, _⟩ := C18.worker_run (tickF (f' + 1) e) e w j [] task t' s ss sl flag w1 trt ht (hleaf ss sl)
    refine ⟨n', tr, ?_, h2⟩
    rw [← h1]
    simp [tickF.eq_def (f' + 1 + 1), seqEntry, splitAtId, bind, Except.bind, pure, Except.pure]
  · simp only [ne_eq, hst, not_false_eq_true, true_and] at ht
    have hsplit : ∃ ss' sl', (stopInvNonInvalid [task, leaf s ss (C18.puSet flag) sl]).1 =
        [if ¬ task.status = .invalid then (stopInv task).1 else task, leaf s ss' (C18.puSet flag) sl'] := by
      have hls : ∀ x, (leaf s x (C18.puSet flag) sl).status = x := fun _ => rfl
      by_cases h1 : task.status = .invalid <;> by_cases h2 : ss = .invalid <;>
        simp [stopInvNonInvalid, stopInv, hls, h1, h2]
    obtain ⟨ss', sl', hsp⟩ := hsplit
    obtain ⟨n', tr, h1, h2, _⟩ := C18.worker_run (tickF (f' + 1) e) e w j
      (stopInvNonInvalid [task, leaf s ss (C18.puSet flag) sl]).2 _ t' s ss' sl' flag w1 trt ht (hleaf ss' sl')
    refine ⟨n', tr, ?_, h2⟩
    rw [← h1, ← hsp]
    simp [tickF.eq_def (f' + 1 + 1), seqEntry, hst, bind, Except.bind, pure, Except.pure]

/-- the requested corollary: a task that does not write the flag itself and did not return SUCCESS leaves the flag as it
    was after the whole worker tick -/
theorem C18_pickup_flag_unchanged_unless_success (f : Nat) (e : Env) (w : Store) (j : Nat) (st : Status)
    (cur : Option Nat) (task : Node) (s : Nat) (ss : Status) (sl : List LEv) (flag : String)
    (hentry : st ≠ .running ∨ cur = some task.id) (t' : Node) (w1 : Store) (trt : List Ev)
    (ht : tickF f e w (if st ≠ .running ∧ task.status ≠ .invalid then (stopInv task).1 else task) = .ok (t', w1, trt))
    (hns : t'.status ≠ .success) (hkeep : w1 flag = w flag) :
    ∃ n' w' tr, tickF (f + 1) e w (seq j true st cur [task, leaf s ss (.setVar flag [] (.bool true) true) sl]) =
        .ok (n', w', tr) ∧ n'.status = t'.status ∧ w' flag = w flag := by
  obtain ⟨n', tr, h1, h2⟩ := C18_pickup_flag_iff_success f e w j st cur task s ss sl flag hentry t' w1 trt ht
  simp only [hns, ↓reduceIte] at h1
  exact ⟨n', w1, tr, h1, h2, hkeep⟩

/-- **(c)** Sequence semantics, for the root `Sequence* (guarded tasks ++ clearing leaves)`: the loop reaches the second
    part only after EVERY child of the first part returned SUCCESS in this tick; otherwise it stops inside the first part
    and the second part is left untouched (not ticked: same nodes, and the blackboard is the one the first part left). -/
theorem C18_pickup_clear_after_all_success (t : Tick) : ∀ (pre post : List Node) (w : Store) (done : List Node)
    (r : Option (Node × List Node)) (w' : Store) (tr : List Ev),
    seqLoop t w (pre ++ post) = .ok (done, r, w', tr) →
    (∃ c' rest, r = some (c', rest ++ post) ∧ seqLoop t w pre = .ok (done, some (c', rest), w', tr)) ∨
    (∃ done1 w1 tr1 done2 tr2, seqLoop t w pre = .ok (done1, none, w1, tr1) ∧ done1.length = pre.length ∧
      (∀ d ∈ done1, d.status = .success) ∧ seqLoop t w1 post = .ok (done2, r, w', tr2) ∧
      done = done1 ++ done2 ∧ tr = tr1 ++ tr2)
| [], post, w, done, r, w', tr, h => by
    right
    exact ⟨[], w, [], done, tr, by simp [seqLoop, pure, Except.pure], rfl, by simp, by simpa using h, by simp, by simp⟩
| c :: pre, post, w, done, r, w', tr, h => by
    simp only [List.cons_append, seqLoop, bind, Except.bind] at h
    cases htc : t w c with
    | error x => simp [htc] at h
    | ok v =>
      obtain ⟨c1, wc, trc⟩ := v
      simp only [htc] at h
      by_cases hs : c1.status = .success
      · simp only [hs, ne_eq, not_true_eq_false, ↓reduceIte] at h
        cases hl : seqLoop t wc (pre ++ post) with
        | error x => simp [hl] at h
        | ok v =>
          obtain ⟨d, r0, w0, tr0⟩ := v
          simp only [hl, pure, Except.pure, Except.ok.injEq, Prod.mk.injEq] at h
          obtain ⟨rfl, rfl, rfl, rfl⟩ := h
          rcases C18_pickup_clear_after_all_success t pre post wc d r0 w0 tr0 hl with
            ⟨c', rest, h1, h2⟩ | ⟨done1, w1, tr1, done2, tr2, h1, h2, h3, h4, h5, h6⟩
          · left
            exact ⟨c', rest, h1, by simp [seqLoop, bind, Except.bind, htc, hs, h2, pure, Except.pure]⟩
          · right
            refine ⟨c1 :: done1, w1, trc ++ tr1, done2, tr2,
              by simp [seqLoop, bind, Except.bind, htc, hs, h1, pure, Except.pure], by simp [h2], ?_, h4,
              by simp [h5], by simp [h6]⟩
            intro x hx
            simp only [List.mem_cons] at hx
            rcases hx with rfl | hx
            · exact hs
            · exact h3 x hx
      · simp only [hs, ne_eq, not_false_eq_true, ↓reduceIte, pure, Except.pure, Except.ok.injEq, Prod.mk.injEq] at h
        obtain ⟨rfl, rfl, rfl, rfl⟩ := h
        left
        exact ⟨c1, pre, rfl, by simp [seqLoop, bind, Except.bind, htc, hs, pure, Except.pure]⟩

/-- the only leaves of the idiom that write the blackboard: `set flag` writes `True` (never clears) and always
    succeeds … -/
theorem C18_pickup_set_leaf (i : Nat) (e : Env) (w : Store) (flag : String) :
    leafUpdate i e w (.setVar flag [] (.bool true) true) =
      .ok (.setVar flag [] (.bool true) true, .success, w.set flag (.bool true)) ∧
    (w.set flag (.bool true)) flag = some (.bool true) ∧
    (∀ k, (w.set flag (.bool true)) k = none → w k = none) := by
  refine ⟨by simp [leafUpdate, pure, Except.pure], by simp [Store.set], ?_⟩
  intro k hk
  simp only [Store.set] at hk
  split at hk
  · cases hk
  · exact hk

/-- … and the trailing `unset flag` leaves clear exactly their flag and always succeed -/
theorem C18_pickup_clear_leaf (i : Nat) (e : Env) (w : Store) (flag : String) :
    leafUpdate i e w (.unsetVar flag) = .ok (.unsetVar flag, .success, w.unset flag) ∧
    (w.unset flag) flag = none ∧ (∀ k, k ≠ flag → (w.unset flag) k = w k) := by
  refine ⟨rfl, by simp [Store.unset], ?_⟩
  intro k hk; simp [Store.unset, hk]

/-- `stop(INVALID)` never touches the blackboard — `stopInv : Node → Node × List Ev` has no `Store` argument at all —
    so in a history an interrupt leaves every variable, in particular every flag, as it was: this is what makes the
    idiom "pick up where it left off". -/
theorem C18_stop_keeps_flags (n : Node) (w : Store) :
    step n w .stop = .ok ((stopInv n).1, w, (stopInv n).2) := rfl

theorem C18_stop_keeps_flags_run (n : Node) (w : Store) (n' : Node) (w' : Store) (h : run [.stop] n w = .ok (n', w')) :
    w' = w ∧ n' = (stopInv n).1 := by
  simp only [run, step, Except.ok.injEq, Prod.mk.injEq] at h
  exact ⟨h.2.symm, h.1.symm⟩

namespace C18

/-- tick of a guard leaf whose flag is not `True`: FAILURE, blackboard untouched -/
theorem guard_tick_unset (e : Env) (w : Store) (g : Nat) (gs : Status) (gl : List LEv) (flag : String)
    (hw : w flag ≠ some (.bool true) ∧ w flag ≠ some (.int 1)) :
    ∃ l' tr, leafTick e w g gs (.checkValue (flagCheck flag)) gl =
        .ok (leaf g .failure (.checkValue (flagCheck flag)) l', w, tr) := by
  obtain ⟨o, ho, hiff, hor, _⟩ := C18_eo_guard g e w flag
  have hof : o = .failure := by
    rcases hor with h | h
    · exact ((hiff.mp h).elim hw.1 hw.2).elim
    · exact h
  subst hof
  by_cases hs : gs = .running <;>
    simp [leafTick, leafInit, flagCheck, ho, bind, Except.bind, pure, Except.pure, hs]

/-- the work block of the guarded selector when the guard fails: the worker is ticked and mirrored -/
theorem guarded_run (t : Tick) (w : Store) (i : Nat) (cur0 : Option Nat) (gleaf gleaf' worker wk' : Node)
    (trg trw : List Ev) (w' : Store) (hg : t w gleaf = .ok (gleaf', w, trg)) (hgs : gleaf'.status = .failure)
    (hwk : t w worker = .ok (wk', w', trw)) (hni : wk'.status ≠ .invalid) :
    ∃ n' tr, selRun t w i false cur0 [] [gleaf, worker] [] = .ok (n', w', tr) ∧ n'.status = wk'.status := by
  by_cases h1 : wk'.status = .running ∨ wk'.status = .success
  · simp only [selRun, selLoop, hg, hgs, hwk, h1, bind, Except.bind, pure, Except.pure, reduceCtorEq, or_self,
      ↓reduceIte]
    exact ⟨_, _, rfl, rfl⟩
  · have hf : wk'.status = .failure := by
      cases hs : wk'.status <;> simp_all
    simp only [selRun, selLoop, hg, hgs, hwk, h1, bind, Except.bind, pure, Except.pure, reduceCtorEq, or_self,
      ↓reduceIte]
    exact ⟨_, _, rfl, hf.symm⟩

end C18

/-- the converse of (a): **a task whose flag is not set is entered**: the guard fails and the selector ticks the worker
    and mirrors its status ("not set": not `True`, nor the integer 1 that Python's `==` identifies with `True`; the idiom
    itself leaves the flag either absent or `True`) -/
theorem C18_pickup_enter_undone (f : Nat) (e : Env) (w : Store) (i g : Nat) (st gs : Status) (cur : Option Nat)
    (gl : List LEv) (flag : String) (worker wk' : Node) (w' : Store) (trw : List Ev)
    (hw : w flag ≠ some (.bool true) ∧ w flag ≠ some (.int 1)) (hwk : tickF (f + 1) e w worker = .ok (wk', w', trw))
    (hni : wk'.status ≠ .invalid) :
    ∃ n' tr, tickF (f + 2) e w
        (sel i false st cur [leaf g gs (.checkValue { key := flag, path := [], op := .eq, value := .bool true }) gl, worker])
        = .ok (n', w', tr) ∧ n'.status = wk'.status := by
  obtain ⟨l', trg, hgt⟩ := C18.guard_tick_unset e w g gs gl flag hw
  have hg : tickF (f + 1) e w (leaf g gs (.checkValue (C18.flagCheck flag)) gl) =
      .ok (leaf g .failure (.checkValue (C18.flagCheck flag)) l', w, trg) := by
    simp only [tickF]; exact hgt
  obtain ⟨n', tr, h1, h2⟩ := C18.guarded_run (tickF (f + 1) e) w i (if st ≠ .running then some g else cur) _ _ worker wk'
    trg trw w' hg rfl hwk hni
  refine ⟨n', tr, ?_, h2⟩
  rw [← h1]
  simp [tickF.eq_def (f + 1 + 1), selEntry, C18.flagCheck, bind, Except.bind, pure, Except.pure, Node.id]

/-! ## 5. non-vacuity and end-to-end executions of the real idiom builders

  The trees are built by `Idioms.pickUp` / `Idioms.eitherOr` / `Idioms.oneshot` and numbered by `Idioms.renumber`
  exactly as the correspondence harness does.  The blackboard keys are computed strings (`slug`, `rootKey`, `++`,
  `toString`), which the elaborator's `decide` does not unfold, so the executions are checked by the kernel
  (`decide +kernel`: plain kernel evaluation of the `Decidable` instance, no extra axioms). -/

namespace C18

/-- a history that keeps, for every operation, the root status afterwards and the ids of the behaviours whose
    `tick()` was entered by it; also the final tree and blackboard -/
def hist : List Op → Node → Store → Option (Node × Store × List (Status × List Nat))
| [], n, w => some (n, w, [])
| op :: ops, n, w =>
    match step n w op with
    | .ok (n', w', tr) =>
        (hist ops n' w').map (fun r => (r.1, r.2.1,
          (n'.status, tr.filterMap (fun ev => match ev with | .enter i => some i | _ => none)) :: r.2.2))
    | .error _ => none

/-- what the examples look at: the per-operation log -/
def log (r : Option (Node × Store × List (Status × List Nat))) : Option (List (Status × List Nat)) :=
  r.map (fun x => x.2.2)

theorem hist_run : ∀ (ops : List Op) (n : Node) (w : Store) (r : Node × Store × List (Status × List Nat)),
    hist ops n w = some r → run ops n w = .ok (r.1, r.2.1)
| [], n, w, r, h => by simp only [hist, Option.some.injEq] at h; subst h; rfl
| op :: ops, n, w, r, h => by
    simp only [hist] at h
    simp only [run]
    cases hs : step n w op with
    | error x => simp [hs] at h
    | ok v =>
      obtain ⟨n1, w1, tr⟩ := v
      simp only [hs, Option.map_eq_some_iff] at h
      obtain ⟨r1, h1, rfl⟩ := h
      exact hist_run ops n1 w1 r1 h1

def probe : Node := leaf 0 .invalid .probe []
def env (f : Nat → Status) : Env := { outcome := f, guard := fun _ => true, now := 0 }
def eR : Env := env (fun _ => .running)
def eS : Env := env (fun _ => .success)
def eF : Env := env (fun _ => .failure)
def isTrue (k : String) : Check := { key := k, path := [], op := .eq, value := .bool true }
def setB (k : String) (b : Bool) : Op := .poke k (some (.bool b))

/-! ### (i) pick_up_where_you_left_off with two tasks -/

/-- ids: 1 root; 2 [3 guard A, 4 [5 task A, 6 set A]]; 7 [8 guard B, 9 [10 task B, 11 set B]]; 12, 13 clear A, B -/
def pu : Node := Idioms.renumber (Idioms.pickUp [("Task A", probe), ("Task B", probe)])
/-- task A succeeds, task B keeps running -/
def eA : Env := env (fun i => if i = 5 then .success else .running)

end C18
open C18

example : (nodes pu).map Node.id = [1, 2, 3, 4, 5, 6, 7, 8, 9, 10, 11, 12, 13] := by decide
example : isFresh pu = true := by decide
example : ∀ op ∈ [Op.tick eA, .stop, .tick eA, .tick eS, .tick eR], ValidOp op := by
  intro op h
  simp only [List.mem_cons, List.not_mem_nil, or_false] at h
  rcases h with rfl | rfl | rfl | rfl | rfl <;> first | trivial | (intro i; simp [eA, eS, eR, env]; try split <;> simp)

/-- task A SUCCESS, task B RUNNING; interrupt; tick again: task A (5) is NOT entered again — only its guard (3) is
    ticked — task B (10) is; when B succeeds too the idiom succeeds after running the two clearing leaves (12, 13);
    the next round starts afresh with task A (5). -/
example : log (hist [.tick eA, .stop, .tick eA, .tick eS, .tick eR] pu Store.empty) =
    some [(.running, [1, 2, 3, 4, 5, 6, 7, 8, 9, 10]),
          (.invalid, []),
          (.running, [1, 2, 3, 7, 8, 9, 10]),
          (.success, [1, 7, 8, 9, 10, 11, 12, 13]),
          (.running, [1, 2, 3, 4, 5])] := by decide +kernel
/-- the flag of A is set while the round is in progress (and survives the interrupt), B's is not -/
example : (hist [.tick eA, .stop] pu Store.empty).map
    (fun r => (r.2.1 "/task_a_done" == some (.bool true), (r.2.1 "/task_b_done").isSome)) = some (true, false) := by
  decide +kernel
/-- after both succeeded the flags are gone from the store -/
example : (hist [.tick eA, .stop, .tick eA, .tick eS] pu Store.empty).map
    (fun r => ((r.2.1 "/task_a_done").isSome, (r.2.1 "/task_b_done").isSome)) = some (false, false) := by
  decide +kernel
/-- tasks run strictly in order: while A is RUNNING, B is never entered -/
example : log (hist [.tick eR, .tick eR, .stop, .tick eR] pu Store.empty) =
    some [(.running, [1, 2, 3, 4, 5]), (.running, [1, 2, 3, 4, 5]), (.invalid, []), (.running, [1, 2, 3, 4, 5])] := by
  decide +kernel

/-! ### (ii) either_or -/
namespace C18
/-- ids: 1 root; 2 xor; 3 chooser [4 [5 guard 1, 6 subtree 1], 7 [8 guard 2, 9 subtree 2]] -/
def eo2 : Node := Idioms.renumber (Idioms.eitherOr [isTrue "/a", isTrue "/b"] [probe, probe] "/eo")
/-- ids: 1 root; 2 xor; 3 chooser [4 [5, 6], 7 [8, 9], 10 [11, 12]] -/
def eo3 : Node :=
  Idioms.renumber (Idioms.eitherOr [isTrue "/a", isTrue "/b", isTrue "/c"] [probe, probe, probe] "/eo")
end C18

example : (nodes eo2).map Node.id = [1, 2, 3, 4, 5, 6, 7, 8, 9] := by decide
example : isFresh eo2 = true := by decide
example : isFresh eo3 = true := by decide

/-- condition 1 holds: subtree 1 (6) runs; the conditions are then FLIPPED while it is RUNNING: the XOR leaf (2) is
    not ticked again and subtree 1 keeps running; once it has completed, the next entry re-evaluates the conditions
    and runs subtree 2 (9). -/
example : log (hist [setB "/a" true, setB "/b" false, .tick eR, setB "/a" false, setB "/b" true, .tick eR, .tick eS,
      .tick eR] eo2 Store.empty) =
    some [(.invalid, []), (.invalid, []), (.running, [1, 2, 3, 4, 5, 6]), (.running, []), (.running, []),
          (.running, [1, 3, 4, 6]), (.success, [1, 3, 4, 6]), (.running, [1, 2, 3, 4, 5, 7, 8, 9])] := by
  decide +kernel
/-- the flags the XOR leaf published -/
example : (hist [setB "/a" true, setB "/b" false, .tick eR] eo2 Store.empty).map
    (fun r => (r.2.1 "/eo/1" == some (.bool true), r.2.1 "/eo/2" == some (.bool false))) = some (true, true) := by
  decide +kernel
/-- both conditions hold: the idiom FAILS without entering a subtree -/
example : log (hist [setB "/a" true, setB "/b" true, .tick eR] eo2 Store.empty) =
    some [(.invalid, []), (.invalid, []), (.failure, [1, 2])] := by decide +kernel
/-- no condition holds: the idiom FAILS without entering a subtree -/
example : log (hist [setB "/a" false, setB "/b" false, .tick eR] eo2 Store.empty) =
    some [(.invalid, []), (.invalid, []), (.failure, [1, 2])] := by decide +kernel
/-- **K3**: three options, all three conditions hold: the idiom does not fail but runs the FIRST subtree (6) -/
example : log (hist [setB "/a" true, setB "/b" true, setB "/c" true, .tick eR] eo3 Store.empty) =
    some [(.invalid, []), (.invalid, []), (.invalid, []), (.running, [1, 2, 3, 4, 5, 6])] := by decide +kernel
/-- three options, two conditions hold: fails as specified -/
example : log (hist [setB "/a" true, setB "/b" false, setB "/c" true, .tick eR] eo3 Store.empty) =
    some [(.invalid, []), (.invalid, []), (.invalid, []), (.failure, [1, 2])] := by decide +kernel

/-- the hypothesis of `C18_eo_flags_written` on a concrete blackboard, and K3 at the level of the XOR leaf: with three
    true conditions its `update()` returns SUCCESS -/
example : (match evalChecks ((Store.empty.set "/a" (.bool true)).set "/b" (.bool false)) [isTrue "/a", isTrue "/b"] with
    | .ok (some rs) => rs == [true, false] | _ => false) = true := by decide
example : (match leafUpdate 2 eR (((Store.empty.set "/a" (.bool true)).set "/b" (.bool true)).set "/c" (.bool true))
      (.checkValues [isTrue "/a", isTrue "/b", isTrue "/c"] .xor (some ["/eo/1", "/eo/2", "/eo/3"])) with
    | .ok (_, o, w') => o == .success && (w' "/eo/3" == some (.bool true)) | _ => false) = true := by decide
example : (C18.eoKeys 3 "/eo") = ["/eo/1", "/eo/2", "/eo/3"] := by decide +kernel

/-! ### (iii) the oneshot idiom -/
namespace C18
/-- ON_COMPLETION. ids: 1 root [2 [3 inverter (4 exists?), 5 [6 [7 task, 8 set SUCCESS], 9 [10 set FAILURE, 11 Failure]]],
    12 result] -/
def osC : Node := Idioms.renumber (Idioms.oneshot probe "/oneshot" [] true)
/-- ON_SUCCESS. ids: 1 root [2 [3 inverter (4 exists?), 5 [6 task, 7 set SUCCESS]], 8 result] -/
def osS : Node := Idioms.renumber (Idioms.oneshot probe "/oneshot" [] false)
end C18

example : (nodes osC).map Node.id = [1, 2, 3, 4, 5, 6, 7, 8, 9, 10, 11, 12] := by decide
example : isFresh osC = true := by decide
example : isFresh osS = true := by decide

/-- ON_COMPLETION: RUNNING is mirrored; after the FAILURE completion the task (7) is never entered again and the root
    keeps returning FAILURE, across an interrupt and whatever the task would now return -/
example : log (hist [.tick eR, .tick eF, .tick eS, .stop, .tick eS, .tick eR] osC Store.empty) =
    some [(.running, [1, 2, 3, 4, 5, 6, 7]), (.failure, [1, 2, 5, 6, 7, 9, 10, 11, 12]), (.failure, [1, 2, 3, 4, 12]),
          (.invalid, []), (.failure, [1, 2, 3, 4, 12]), (.failure, [1, 2, 3, 4, 12])] := by decide +kernel
/-- an interrupt before completion does not latch: the task is run again, and a SUCCESS completion is then kept -/
example : log (hist [.tick eR, .stop, .tick eR, .tick eS, .tick eF, .stop, .tick eF] osC Store.empty) =
    some [(.running, [1, 2, 3, 4, 5, 6, 7]), (.invalid, []), (.running, [1, 2, 3, 4, 5, 6, 7]),
          (.success, [1, 2, 5, 6, 7, 8]), (.success, [1, 2, 3, 4, 12]), (.invalid, []),
          (.success, [1, 2, 3, 4, 12])] := by decide +kernel
/-- ON_SUCCESSFUL_COMPLETION: a FAILURE does not latch (the task, 6, is entered again), a SUCCESS does -/
example : log (hist [.tick eR, .tick eF, .tick eF, .tick eS, .stop, .tick eF] osS Store.empty) =
    some [(.running, [1, 2, 3, 4, 5, 6]), (.failure, [1, 2, 5, 6, 8]), (.failure, [1, 2, 3, 4, 5, 6, 8]),
          (.success, [1, 2, 3, 4, 5, 6, 7]), (.invalid, []), (.success, [1, 2, 3, 4, 8])] := by decide +kernel

/-! ### the OneShot decorator, end to end -/
namespace C18
def osD (both : Bool) : Node := dec 1 (.oneShot both none) .invalid (leaf 2 .invalid .probe [])
end C18
example : isFresh (osD true) = true := by decide
example : log (hist [.tick eR, .stop, .tick eR, .tick eF, .tick eS, .stop, .tick eS] (osD true) Store.empty) =
    some [(.running, [1, 2]), (.invalid, []), (.running, [1, 2]), (.failure, [1, 2]), (.failure, [1]), (.invalid, []),
          (.failure, [1])] := by decide
example : log (hist [.tick eF, .tick eS, .stop, .tick eF] (osD false) Store.empty) =
    some [(.failure, [1, 2]), (.success, [1, 2]), (.invalid, []), (.success, [1])] := by decide
/-- the hypotheses of `C18_oneshot_latch_forever` are reachable: after the completion the root is latched -/
example : (hist [.tick eR, .tick eF] (osD true) Store.empty).map
    (fun r => match r.1 with | dec i k s _ => some (i, k, s) | _ => none) =
    some (some (1, .oneShot true (some .failure), .failure)) := by decide
