/-
  C18b — pick_up_where_you_left_off: the WHOLE idiom, one whole tick and whole histories, for any number of tasks:
  "runs its tasks strictly in order, runs no task again once it succeeded within the current round however often the
  idiom is interrupted, succeeds only after every task succeeded, and starts the next round afresh".

  An instance is described structurally, in ANY runtime state (ids, statuses, remembered children arbitrary):
    `Slot` (flag, ids of guarded selector / guard / worker / set-flag leaf, task), `slotNode`, `IsSlot`, `IsClear`,
    `IsPickUp slots clearIds rid n`.  `IsSlot` / `IsPickUp` are properties of the skeleton (`isSlot_iff_skel`,
    `isPickUp_iff_skel`), hence kept by ticks, interrupts and pokes (`tickF_skel`, `stopInv_skel`, `step_skel`).
    `PickUpOK`: blackboard-free tasks (`noBB`), pairwise distinct flags, pairwise distinct ids, one clearing leaf per slot.
    `flagOn w k`: the guard passes, i.e. `w k` is `True` — or the integer 1, which `Val.beq` (as Python) identifies with
    `True`; the idiom itself only ever writes `True` or removes the flag.

  Theorems (all top level):
   1. `C18_noBB_frame` (+ `_tick`), `C18_noBB_indep`: a blackboard-free subtree leaves the store alone and its tick does
      not depend on the store.  Also `C18b.tickF_enters` / `tickF_enter_self`: a tick enters only behaviours of the
      ticked subtree, and enters its root.
   2. `C18_slot_tick` (+ `C18_slot_tick_done`): one slot, one tick, any state, any fuel: (a) flag set ⇒ SUCCESS, store
      untouched, only selector and guard entered; (b) flag not set and worker sane (`slotOK`) ⇒ the task is ticked, slot
      SUCCESS / RUNNING iff the task is, flag `True` afterwards iff the task returned SUCCESS; always: shape kept, only
      the own flag can change and only to `True`, `slotOK` kept.
   3. `C18_pickup_tick_no_rerun` (+ `_on`): ANY state: a task whose flag is set at the start of a tick is not entered.
   4. `C18_pickup_tick_order` (+ `_index`): if the task of slot j is entered and the root does not return SUCCESS, the
      flags of all earlier slots are set afterwards.                                         [needs the invariant]
   5. `C18_pickup_tick_flags`; parts: `C18_pickup_tick_store` / `C18_pickup_tick_flags_kept` (ANY state: root not
      SUCCESS ⇒ nothing cleared, only flags change, and only to `True`), `C18_pickup_tick_success` (root SUCCESS ⇒
      all flags removed, every child of the root SUCCESS) [needs the invariant],
      `C18_pickup_tick_flag_set_only_by_success` (a flag newly set belongs to a slot that returned SUCCESS in this tick).
   6. `C18_pickup_stop_keeps`, the invariant `C18b.PUInv` with `C18_pickup_inv_fresh`, `C18_pickup_inv_step`,
      `C18_pickup_inv_run`, and the history statement `C18_pickup_history`.
   7. `C18_pickup_isPickUp` (+ `_inv`): for EVERY task list, `Idioms.renumber (Idioms.pickUp tasks)` is an instance
      over the explicit slots `C18b.slotsOf 2 tasks` and satisfies the invariant.

  On the hypothesis `PUInv` of 4 and of the SUCCESS half of 5: `IsPickUp` also allows states no history reaches (e.g. a
  root that claims to be RUNNING at slot 2 although flag 1 is not set, or RUNNING at a clearing leaf); there the two
  statements are FALSE (kernel-checked counterexamples at the end of the file).  `PUInv slots w n` — every worker that is
  RUNNING remembers its task; a RUNNING root remembers a slot, all earlier slot nodes are SUCCESS and all earlier flags
  are set — holds for the fresh idiom with any blackboard and is preserved by every tick, interrupt and poke of a
  variable that is not one of the idiom's flags; 3 and the "nothing is cleared" half of 5 need no invariant at all.
  Not proved here: that `Idioms.renumber` yields pairwise distinct ids for every task list (part of `PickUpOK`; checked
  by `decide` on the concrete instance).
-/
import PyTreesProofs.Props.C18
import PyTreesProofs.Lemmas.Shape
set_option linter.unusedVariables false
set_option linter.unusedSimpArgs false
open Node

namespace C18b

/-! ## 0. blackboard-free subtrees and the frame lemma -/

/-- leaf kinds that neither read nor write the blackboard -/
def leafNoBB : LeafShape → Bool
| .probe => true
| .const _ => true
| .tickCounter _ _ => true
| .statusQueue _ _ => true
| .successEveryN _ => true
| .timer _ => true
| _ => false

/-- every decorator but `StatusToBlackboard` -/
def decNoBB : DecShape → Bool
| .statusToBB _ _ => false
| _ => true

mutual
def skelNoBB : Skel → Bool
| .leaf _ k => leafNoBB k
| .seq _ _ cs => skelNoBBL cs
| .sel _ _ cs => skelNoBBL cs
| .par _ _ cs => skelNoBBL cs
| .dec _ k c => decNoBB k && skelNoBB c
def skelNoBBL : List Skel → Bool
| [] => true
| c :: cs => skelNoBB c && skelNoBBL cs
end

/-- the subtree does not touch the blackboard: only probe / const / tickCounter / statusQueue / successEveryN / timer
    leaves and no `StatusToBlackboard` decorator.  (A property of the skeleton, hence invariant under ticks and
    interrupts.) -/
def noBB (n : Node) : Bool := skelNoBB (skel n)

def noBBL (cs : List Node) : Bool := skelNoBBL (skelL cs)

theorem noBB_leaf (i s k l) : noBB (leaf i s k l) = leafNoBB k.shape := by simp [noBB, skel, skelNoBB]
theorem noBB_seq (i m s c cs) : noBB (seq i m s c cs) = noBBL cs := by simp [noBB, noBBL, skel, skelNoBB]
theorem noBB_sel (i m s c cs) : noBB (sel i m s c cs) = noBBL cs := by simp [noBB, noBBL, skel, skelNoBB]
theorem noBB_par (i p s c cs) : noBB (par i p s c cs) = noBBL cs := by simp [noBB, noBBL, skel, skelNoBB]
theorem noBB_dec (i k s c) : noBB (dec i k s c) = (decNoBB k.shape && noBB c) := by simp [noBB, skel, skelNoBB]
theorem noBBL_nil : noBBL [] = true := by simp [noBBL, skelNoBBL]
theorem noBBL_cons (c cs) : noBBL (c :: cs) = (noBB c && noBBL cs) := by simp [noBBL, noBB, skelNoBBL]

theorem skelNoBBL_append : ∀ (a b : List Skel), skelNoBBL (a ++ b) = (skelNoBBL a && skelNoBBL b)
| [], b => by simp [skelNoBBL]
| c :: a, b => by simp [skelNoBBL, skelNoBBL_append a b, Bool.and_assoc]

theorem noBB_of_skel {a b : Node} (h : skel a = skel b) : noBB a = noBB b := by simp [noBB, h]

theorem leafUpdate_noBB (i : Nat) (e : Env) (w : Store) (k k' : LeafKind) (o : Status) (w' : Store)
    (hk : leafNoBB k.shape = true) (h : leafUpdate i e w k = .ok (k', o, w')) : w' = w := by
  cases k with
  | statusQueue q ev cur =>
    simp only [leafUpdate] at h
    split at h
    · simp only [pure, Except.pure, Except.ok.injEq, Prod.mk.injEq] at h; exact h.2.2.symm
    · split at h
      · simp only [pure, Except.pure, Except.ok.injEq, Prod.mk.injEq] at h; exact h.2.2.symm
      · split at h
        · simp only [pure, Except.pure, Except.ok.injEq, Prod.mk.injEq] at h; exact h.2.2.symm
        · simp [throw, throwThe, MonadExceptOf.throw] at h
  | successEveryN n c =>
    simp only [leafUpdate] at h
    split at h
    · simp [throw, throwThe, MonadExceptOf.throw] at h
    · simp only [pure, Except.pure, Except.ok.injEq, Prod.mk.injEq] at h; exact h.2.2.symm
  | probe => simp only [leafUpdate, pure, Except.pure, Except.ok.injEq, Prod.mk.injEq] at h; exact h.2.2.symm
  | const s => simp only [leafUpdate, pure, Except.pure, Except.ok.injEq, Prod.mk.injEq] at h; exact h.2.2.symm
  | tickCounter d c n =>
    simp only [leafUpdate, pure, Except.pure, Except.ok.injEq, Prod.mk.injEq] at h; exact h.2.2.symm
  | timer d fin => simp only [leafUpdate, pure, Except.pure, Except.ok.injEq, Prod.mk.injEq] at h; exact h.2.2.symm
  | _ => simp [LeafKind.shape, leafNoBB] at hk

theorem leafTick_noBB (e : Env) (w : Store) (i : Nat) (st : Status) (k : LeafKind) (log : List LEv)
    (n' : Node) (w' : Store) (tr : List Ev) (hk : leafNoBB k.shape = true)
    (h : leafTick e w i st k log = .ok (n', w', tr)) : w' = w := by
  simp only [leafTick, bind, Except.bind] at h
  have hk0 : leafNoBB (if st ≠ .running then leafInit e k else k).shape = true := by
    split
    · rw [leafInit_shape]; exact hk
    · exact hk
  generalize (if st ≠ .running then leafInit e k else k) = k0 at h hk0
  cases hu : leafUpdate i e w k0 with
  | error err => simp [hu] at h
  | ok v =>
    obtain ⟨k1, o, w1⟩ := v
    simp only [hu, pure, Except.pure, Except.ok.injEq, Prod.mk.injEq] at h
    obtain ⟨_, rfl, _⟩ := h
    exact leafUpdate_noBB i e w k0 k1 o w1 hk0 hu

theorem decPublish_noBB (k : DecKind) (s : Status) (w : Store) (hk : decNoBB k.shape = true) :
    decPublish k s w = .ok w := by
  cases k <;> first | rfl | simp [DecKind.shape, decNoBB] at hk

/-- the store-frame property of a child tick function -/
def Frame (t : Tick) : Prop := ∀ w c c' w' tr, noBB c = true → t w c = .ok (c', w', tr) → w' = w

theorem seqLoop_frame (t : Tick) (ht : Frame t) : ∀ (cs : List Node) (w : Store) (done : List Node)
    (r : Option (Node × List Node)) (w' : Store) (tr : List Ev), noBBL cs = true →
    seqLoop t w cs = .ok (done, r, w', tr) → w' = w
| [], w, done, r, w', tr, _, h => by
    simp only [seqLoop, pure, Except.pure, Except.ok.injEq, Prod.mk.injEq] at h
    exact h.2.2.1.symm
| c :: cs, w, done, r, w', tr, hc, h => by
    simp only [noBBL_cons, Bool.and_eq_true] at hc
    simp only [seqLoop, bind, Except.bind] at h
    cases htc : t w c with
    | error e => simp [htc] at h
    | ok v =>
      obtain ⟨c1, w1, tr1⟩ := v
      simp only [htc] at h
      have h1 := ht w c c1 w1 tr1 hc.1 htc
      subst h1
      split at h
      · simp only [pure, Except.pure, Except.ok.injEq, Prod.mk.injEq] at h
        exact h.2.2.1.symm
      · cases hl : seqLoop t w1 cs with
        | error e => simp [hl] at h
        | ok v =>
          obtain ⟨d2, r2, w2, tr2⟩ := v
          simp only [hl, pure, Except.pure, Except.ok.injEq, Prod.mk.injEq] at h
          obtain ⟨_, _, rfl, _⟩ := h
          exact seqLoop_frame t ht cs w1 d2 r2 w2 tr2 hc.2 hl

theorem selLoop_frame (t : Tick) (ht : Frame t) : ∀ (cs : List Node) (w : Store) (done : List Node)
    (r : Option (Node × List Node)) (w' : Store) (tr : List Ev), noBBL cs = true →
    selLoop t w cs = .ok (done, r, w', tr) → w' = w
| [], w, done, r, w', tr, _, h => by
    simp only [selLoop, pure, Except.pure, Except.ok.injEq, Prod.mk.injEq] at h
    exact h.2.2.1.symm
| c :: cs, w, done, r, w', tr, hc, h => by
    simp only [noBBL_cons, Bool.and_eq_true] at hc
    simp only [selLoop, bind, Except.bind] at h
    cases htc : t w c with
    | error e => simp [htc] at h
    | ok v =>
      obtain ⟨c1, w1, tr1⟩ := v
      simp only [htc] at h
      have h1 := ht w c c1 w1 tr1 hc.1 htc
      subst h1
      split at h
      · simp only [pure, Except.pure, Except.ok.injEq, Prod.mk.injEq] at h
        exact h.2.2.1.symm
      · cases hl : selLoop t w1 cs with
        | error e => simp [hl] at h
        | ok v =>
          obtain ⟨d2, r2, w2, tr2⟩ := v
          simp only [hl, pure, Except.pure, Except.ok.injEq, Prod.mk.injEq] at h
          obtain ⟨_, _, rfl, _⟩ := h
          exact selLoop_frame t ht cs w1 d2 r2 w2 tr2 hc.2 hl

theorem parLoop_frame (t : Tick) (ht : Frame t) (sync : Bool) : ∀ (cs : List Node) (w : Store) (cs' : List Node)
    (w' : Store) (tr : List Ev), noBBL cs = true → parLoop t sync w cs = .ok (cs', w', tr) → w' = w
| [], w, cs', w', tr, _, h => by
    simp only [parLoop, pure, Except.pure, Except.ok.injEq, Prod.mk.injEq] at h
    exact h.2.1.symm
| c :: cs, w, cs', w', tr, hc, h => by
    simp only [noBBL_cons, Bool.and_eq_true] at hc
    simp only [parLoop, bind, Except.bind] at h
    split at h
    · cases hl : parLoop t sync w cs with
      | error e => simp [hl] at h
      | ok v =>
        obtain ⟨d2, w2, tr2⟩ := v
        simp only [hl, pure, Except.pure, Except.ok.injEq, Prod.mk.injEq] at h
        obtain ⟨_, rfl, _⟩ := h
        exact parLoop_frame t ht sync cs w d2 w2 tr2 hc.2 hl
    · cases htc : t w c with
      | error e => simp [htc] at h
      | ok v =>
        obtain ⟨c1, w1, tr1⟩ := v
        simp only [htc] at h
        have h1 := ht w c c1 w1 tr1 hc.1 htc
        subst h1
        cases hl : parLoop t sync w1 cs with
        | error e => simp [hl] at h
        | ok v =>
          obtain ⟨d2, w2, tr2⟩ := v
          simp only [hl, pure, Except.pure, Except.ok.injEq, Prod.mk.injEq] at h
          obtain ⟨_, rfl, _⟩ := h
          exact parLoop_frame t ht sync cs w1 d2 w2 tr2 hc.2 hl

theorem seqRun_frame (t : Tick) (ht : Frame t) (w : Store) (i : Nat) (m : Bool) (before rest : List Node)
    (trR : List Ev) (n' : Node) (w' : Store) (tr : List Ev) (hc : noBBL rest = true)
    (h : seqRun t w i m before rest trR = .ok (n', w', tr)) : w' = w := by
  simp only [seqRun, bind, Except.bind] at h
  cases hl : seqLoop t w rest with
  | error e => simp [hl] at h
  | ok v =>
    obtain ⟨done, r, w1, trl⟩ := v
    simp only [hl] at h
    have := seqLoop_frame t ht rest w done r w1 trl hc hl
    subst this
    cases r with
    | none =>
      simp only [pure, Except.pure, Except.ok.injEq, Prod.mk.injEq] at h
      exact h.2.1.symm
    | some p =>
      obtain ⟨c', untouched⟩ := p
      simp only [pure, Except.pure, Except.ok.injEq, Prod.mk.injEq] at h
      exact h.2.1.symm

theorem selRun_frame (t : Tick) (ht : Frame t) (w : Store) (i : Nat) (m : Bool) (cur0 : Option Nat)
    (before rest : List Node) (trP : List Ev) (n' : Node) (w' : Store) (tr : List Ev) (hc : noBBL rest = true)
    (h : selRun t w i m cur0 before rest trP = .ok (n', w', tr)) : w' = w := by
  simp only [selRun, bind, Except.bind] at h
  cases hl : selLoop t w rest with
  | error e => simp [hl] at h
  | ok v =>
    obtain ⟨done, r, w1, trl⟩ := v
    simp only [hl] at h
    have := selLoop_frame t ht rest w done r w1 trl hc hl
    subst this
    cases r with
    | none =>
      simp only [pure, Except.pure, Except.ok.injEq, Prod.mk.injEq] at h
      exact h.2.1.symm
    | some p =>
      obtain ⟨c', untouched⟩ := p
      simp only [pure, Except.pure, Except.ok.injEq, Prod.mk.injEq] at h
      exact h.2.1.symm

theorem parRun_frame (t : Tick) (ht : Frame t) (w : Store) (i : Nat) (p : Policy) (cs0 : List Node)
    (trR : List Ev) (n' : Node) (w' : Store) (tr : List Ev) (hc : noBBL cs0 = true)
    (h : parRun t w i p cs0 trR = .ok (n', w', tr)) : w' = w := by
  simp only [parRun, bind, Except.bind] at h
  cases hl : parLoop t p.sync w cs0 with
  | error e => simp [hl] at h
  | ok v =>
    obtain ⟨cs1, w1, trl⟩ := v
    simp only [hl] at h
    have := parLoop_frame t ht p.sync cs0 w cs1 w1 trl hc hl
    subst this
    split at h
    · simp only [pure, Except.pure, Except.ok.injEq, Prod.mk.injEq] at h
      exact h.2.1.symm
    · simp only [pure, Except.pure, Except.ok.injEq, Prod.mk.injEq] at h
      exact h.2.1.symm

theorem decRun_frame (t : Tick) (ht : Frame t) (e : Env) (w : Store) (i : Nat) (k : DecKind) (st : Status)
    (c n' : Node) (w' : Store) (tr : List Ev) (hk : decNoBB k.shape = true) (hc : noBB c = true)
    (h : decRun t e w i k st c = .ok (n', w', tr)) : w' = w := by
  simp only [decRun, bind, Except.bind] at h
  cases htc : t w c with
  | error err => simp [htc] at h
  | ok v =>
    obtain ⟨c1, w1, trc⟩ := v
    have := ht w c c1 w1 trc hc htc
    subst this
    simp only [htc] at h
    have hk0 : decNoBB (if st ≠ .running then decInit e k else k).shape = true := by
      split
      · rw [decInit_shape]; exact hk
      · exact hk
    generalize (if st ≠ .running then decInit e k else k) = k0 at h hk0
    rw [decPublish_noBB k0 c1.status w1 hk0] at h
    simp only at h
    split at h
    · simp only [pure, Except.pure, Except.ok.injEq, Prod.mk.injEq] at h
      exact h.2.1.symm
    · simp only [pure, Except.pure, Except.ok.injEq, Prod.mk.injEq] at h
      exact h.2.1.symm

theorem noBBL_of_skelL {a b : List Node} (h : skelL a = skelL b) : noBBL a = noBBL b := by simp [noBBL, h]

theorem noBBL_append (a b : List Node) : noBBL (a ++ b) = (noBBL a && noBBL b) := by
  simp [noBBL, skelL_append, skelNoBBL_append]

/-- **frame lemma**: the tick of a blackboard-free subtree leaves the store as it was -/
theorem tickF_noBB_store (e : Env) : ∀ (f : Nat) (w : Store) (n n' : Node) (w' : Store) (tr : List Ev),
    noBB n = true → tickF f e w n = .ok (n', w', tr) → w' = w := by
  intro f
  induction f with
  | zero => intro w n n' w' tr _ h; simp [tickF] at h
  | succ f ih =>
    have hF : Frame (tickF f e) := fun w c c' w' tr hc h => ih w c c' w' tr hc h
    intro w n n' w' tr hn h
    cases n with
    | leaf i st k log =>
      simp only [tickF] at h
      rw [noBB_leaf] at hn
      exact leafTick_noBB e w i st k log n' w' tr hn h
    | seq i m st cur cs =>
      rw [noBB_seq] at hn
      simp only [tickF, bind, Except.bind] at h
      cases hen : seqEntry st m cur cs with
      | error err => simp [hen] at h
      | ok v =>
        obtain ⟨before, rest, trR⟩ := v
        simp only [hen] at h
        split at h
        · simp only [pure, Except.pure, Except.ok.injEq, Prod.mk.injEq] at h
          exact h.2.1.symm
        · have hs := seqEntry_skelL st m cur cs before rest trR hen
          have hr : noBBL rest = true := by
            have := noBBL_of_skelL hs
            rw [noBBL_append, hn, Bool.and_eq_true] at this
            exact this.2
          exact seqRun_frame (tickF f e) hF w i m before rest trR n' w' tr hr h
    | sel i m st cur cs =>
      rw [noBB_sel] at hn
      simp only [tickF, bind, Except.bind] at h
      split at h
      · simp only [pure, Except.pure, Except.ok.injEq, Prod.mk.injEq] at h
        exact h.2.1.symm
      · cases hen : selEntry st m cur cs with
        | error err => simp [hen] at h
        | ok v =>
          obtain ⟨cur0, before, rest, trP⟩ := v
          simp only [hen] at h
          have hs := selEntry_skelL st m cur cur0 cs before rest trP hen
          have hr : noBBL rest = true := by
            have := noBBL_of_skelL hs
            rw [noBBL_append, hn, Bool.and_eq_true] at this
            exact this.2
          exact selRun_frame (tickF f e) hF w i m cur0 before rest trP n' w' tr hr h
    | par i p st cur cs =>
      rw [noBB_par] at hn
      simp only [tickF, bind, Except.bind] at h
      split at h
      · simp [throw, throwThe, MonadExceptOf.throw] at h
      · have h0 : noBBL (if st ≠ .running then stopInvNonInvalid cs else (cs, [])).1 = true := by
          split
          · rw [noBBL_of_skelL (stopInvNonInvalid_skelL cs)]; exact hn
          · exact hn
        generalize (if st ≠ .running then stopInvNonInvalid cs else (cs, [])) = r0 at h h0
        simp only [pure, Except.pure] at h
        split at h
        · simp only [Except.ok.injEq, Prod.mk.injEq] at h
          exact h.2.1.symm
        · exact parRun_frame (tickF f e) hF w i p r0.1 r0.2 n' w' tr h0 h
    | dec i k st c =>
      rw [noBB_dec, Bool.and_eq_true] at hn
      simp only [tickF] at h
      split at h
      · split at h
        · exact decRun_frame (tickF f e) hF e w i _ st c n' w' tr hn.1 hn.2 h
        · simp only [decBounce, pure, Except.pure, Except.ok.injEq, Prod.mk.injEq] at h
          exact h.2.1.symm
      · simp only [decBounce, pure, Except.pure, Except.ok.injEq, Prod.mk.injEq] at h
        exact h.2.1.symm
      · exact decRun_frame (tickF f e) hF e w i _ st c n' w' tr hn.1 hn.2 h

end C18b

/-- **1. frame**: the tick of a subtree without blackboard behaviours (only probe / const / tickCounter / statusQueue /
    successEveryN / timer leaves, no `StatusToBlackboard` decorator) leaves the store as it was, with any fuel. -/
theorem C18_noBB_frame (f : Nat) (e : Env) (w : Store) (n n' : Node) (w' : Store) (tr : List Ev)
    (hn : C18b.noBB n = true) (h : tickF f e w n = .ok (n', w', tr)) : w' = w :=
  C18b.tickF_noBB_store e f w n n' w' tr hn h

/-- … in particular for `tick` -/
theorem C18_noBB_frame_tick (e : Env) (w : Store) (n n' : Node) (w' : Store) (tr : List Ev)
    (hn : C18b.noBB n = true) (h : tick e w n = .ok (n', w', tr)) : w' = w :=
  C18b.tickF_noBB_store e _ w n n' w' tr hn h

namespace C18b

/-! ## 0c. the tick of a blackboard-free subtree does not depend on the store -/

theorem leafUpdate_noBB_indep (i : Nat) (e : Env) (w w2 : Store) (k k' : LeafKind) (o : Status) (w' : Store)
    (hk : leafNoBB k.shape = true) (h : leafUpdate i e w k = .ok (k', o, w')) :
    leafUpdate i e w2 k = .ok (k', o, w2) := by
  cases k with
  | statusQueue q ev cur =>
    simp only [leafUpdate] at h ⊢
    split at h
    · simp only [pure, Except.pure, Except.ok.injEq, Prod.mk.injEq] at h ⊢; exact ⟨h.1, h.2.1, trivial⟩
    · split at h
      · simp only [pure, Except.pure, Except.ok.injEq, Prod.mk.injEq] at h ⊢; exact ⟨h.1, h.2.1, trivial⟩
      · split at h
        · simp only [pure, Except.pure, Except.ok.injEq, Prod.mk.injEq] at h ⊢; exact ⟨h.1, h.2.1, trivial⟩
        · simp [throw, throwThe, MonadExceptOf.throw] at h
  | successEveryN n c =>
    simp only [leafUpdate] at h ⊢
    split at h
    · simp [throw, throwThe, MonadExceptOf.throw] at h
    · rename_i hn
      simp only [hn, ↓reduceIte, pure, Except.pure, Except.ok.injEq, Prod.mk.injEq] at h ⊢; exact ⟨h.1, h.2.1, trivial⟩
  | probe =>
    simp only [leafUpdate, pure, Except.pure, Except.ok.injEq, Prod.mk.injEq] at h ⊢; exact ⟨h.1, h.2.1, trivial⟩
  | const s =>
    simp only [leafUpdate, pure, Except.pure, Except.ok.injEq, Prod.mk.injEq] at h ⊢; exact ⟨h.1, h.2.1, trivial⟩
  | tickCounter d c n =>
    simp only [leafUpdate, pure, Except.pure, Except.ok.injEq, Prod.mk.injEq] at h ⊢; exact ⟨h.1, h.2.1, trivial⟩
  | timer d fin =>
    simp only [leafUpdate, pure, Except.pure, Except.ok.injEq, Prod.mk.injEq] at h ⊢; exact ⟨h.1, h.2.1, trivial⟩
  | _ => simp [LeafKind.shape, leafNoBB] at hk

theorem leafTick_noBB_indep (e : Env) (w w2 : Store) (i : Nat) (st : Status) (k : LeafKind) (log : List LEv)
    (n' : Node) (w' : Store) (tr : List Ev) (hk : leafNoBB k.shape = true)
    (h : leafTick e w i st k log = .ok (n', w', tr)) : leafTick e w2 i st k log = .ok (n', w2, tr) := by
  simp only [leafTick, bind, Except.bind] at h ⊢
  have hk0 : leafNoBB (if st ≠ .running then leafInit e k else k).shape = true := by
    split
    · rw [leafInit_shape]; exact hk
    · exact hk
  generalize (if st ≠ .running then leafInit e k else k) = k0 at h hk0 ⊢
  cases hu : leafUpdate i e w k0 with
  | error err => simp [hu] at h
  | ok v =>
    obtain ⟨k1, o, w1⟩ := v
    rw [leafUpdate_noBB_indep i e w w2 k0 k1 o w1 hk0 hu]
    simp only [hu, pure, Except.pure, Except.ok.injEq, Prod.mk.injEq] at h ⊢
    exact ⟨h.1, trivial, h.2.2⟩

/-- store-independence of a child tick function -/
def Indep (t : Tick) : Prop :=
  ∀ w w2 c c' w' tr, noBB c = true → t w c = .ok (c', w', tr) → t w2 c = .ok (c', w2, tr)

theorem seqLoop_indep (t : Tick) (ht : Indep t) : ∀ (cs : List Node) (w w2 : Store) (done : List Node)
    (r : Option (Node × List Node)) (w' : Store) (tr : List Ev), noBBL cs = true →
    seqLoop t w cs = .ok (done, r, w', tr) → seqLoop t w2 cs = .ok (done, r, w2, tr)
| [], w, w2, done, r, w', tr, _, h => by
    simp only [seqLoop, pure, Except.pure, Except.ok.injEq, Prod.mk.injEq] at h ⊢
    exact ⟨h.1, h.2.1, trivial, h.2.2.2⟩
| c :: cs, w, w2, done, r, w', tr, hc, h => by
    simp only [noBBL_cons, Bool.and_eq_true] at hc
    simp only [seqLoop, bind, Except.bind] at h ⊢
    cases htc : t w c with
    | error e => simp [htc] at h
    | ok v =>
      obtain ⟨c1, w1, tr1⟩ := v
      simp only [htc] at h
      rw [ht w w2 c c1 w1 tr1 hc.1 htc]
      simp only
      by_cases hs : c1.status = .success
      · simp only [hs, ne_eq, not_true_eq_false, ↓reduceIte] at h ⊢
        cases hl : seqLoop t w1 cs with
        | error e => simp [hl] at h
        | ok v =>
          obtain ⟨d2, r2, w3, tr2⟩ := v
          simp only [hl, pure, Except.pure, Except.ok.injEq, Prod.mk.injEq] at h
          rw [seqLoop_indep t ht cs w1 w2 d2 r2 w3 tr2 hc.2 hl]
          simp only [pure, Except.pure, Except.ok.injEq, Prod.mk.injEq]
          exact ⟨h.1, h.2.1, trivial, h.2.2.2⟩
      · simp only [hs, ne_eq, not_false_eq_true, ↓reduceIte, pure, Except.pure, Except.ok.injEq, Prod.mk.injEq] at h ⊢
        exact ⟨h.1, h.2.1, trivial, h.2.2.2⟩

theorem selLoop_indep (t : Tick) (ht : Indep t) : ∀ (cs : List Node) (w w2 : Store) (done : List Node)
    (r : Option (Node × List Node)) (w' : Store) (tr : List Ev), noBBL cs = true →
    selLoop t w cs = .ok (done, r, w', tr) → selLoop t w2 cs = .ok (done, r, w2, tr)
| [], w, w2, done, r, w', tr, _, h => by
    simp only [selLoop, pure, Except.pure, Except.ok.injEq, Prod.mk.injEq] at h ⊢
    exact ⟨h.1, h.2.1, trivial, h.2.2.2⟩
| c :: cs, w, w2, done, r, w', tr, hc, h => by
    simp only [noBBL_cons, Bool.and_eq_true] at hc
    simp only [selLoop, bind, Except.bind] at h ⊢
    cases htc : t w c with
    | error e => simp [htc] at h
    | ok v =>
      obtain ⟨c1, w1, tr1⟩ := v
      simp only [htc] at h
      rw [ht w w2 c c1 w1 tr1 hc.1 htc]
      simp only
      by_cases hs : c1.status = .running ∨ c1.status = .success
      · simp only [hs, ↓reduceIte, pure, Except.pure, Except.ok.injEq, Prod.mk.injEq] at h ⊢
        exact ⟨h.1, h.2.1, trivial, h.2.2.2⟩
      · simp only [hs, ↓reduceIte] at h ⊢
        cases hl : selLoop t w1 cs with
        | error e => simp [hl] at h
        | ok v =>
          obtain ⟨d2, r2, w3, tr2⟩ := v
          simp only [hl, pure, Except.pure, Except.ok.injEq, Prod.mk.injEq] at h
          rw [selLoop_indep t ht cs w1 w2 d2 r2 w3 tr2 hc.2 hl]
          simp only [pure, Except.pure, Except.ok.injEq, Prod.mk.injEq]
          exact ⟨h.1, h.2.1, trivial, h.2.2.2⟩

theorem parLoop_indep (t : Tick) (ht : Indep t) (sync : Bool) : ∀ (cs : List Node) (w w2 : Store) (cs' : List Node)
    (w' : Store) (tr : List Ev), noBBL cs = true → parLoop t sync w cs = .ok (cs', w', tr) →
    parLoop t sync w2 cs = .ok (cs', w2, tr)
| [], w, w2, cs', w', tr, _, h => by
    simp only [parLoop, pure, Except.pure, Except.ok.injEq, Prod.mk.injEq] at h ⊢
    exact ⟨h.1, trivial, h.2.2⟩
| c :: cs, w, w2, cs', w', tr, hc, h => by
    simp only [noBBL_cons, Bool.and_eq_true] at hc
    simp only [parLoop, bind, Except.bind] at h ⊢
    by_cases hsy : (sync && decide (c.status = .success)) = true
    · simp only [hsy, ↓reduceIte] at h ⊢
      cases hl : parLoop t sync w cs with
      | error e => simp [hl] at h
      | ok v =>
        obtain ⟨d2, w3, tr2⟩ := v
        simp only [hl, pure, Except.pure, Except.ok.injEq, Prod.mk.injEq] at h
        rw [parLoop_indep t ht sync cs w w2 d2 w3 tr2 hc.2 hl]
        simp only [pure, Except.pure, Except.ok.injEq, Prod.mk.injEq]
        exact ⟨h.1, trivial, h.2.2⟩
    · simp only [hsy, Bool.false_eq_true, ↓reduceIte] at h ⊢
      cases htc : t w c with
      | error e => simp [htc] at h
      | ok v =>
        obtain ⟨c1, w1, tr1⟩ := v
        simp only [htc] at h
        rw [ht w w2 c c1 w1 tr1 hc.1 htc]
        simp only
        cases hl : parLoop t sync w1 cs with
        | error e => simp [hl] at h
        | ok v =>
          obtain ⟨d2, w3, tr2⟩ := v
          simp only [hl, pure, Except.pure, Except.ok.injEq, Prod.mk.injEq] at h
          rw [parLoop_indep t ht sync cs w1 w2 d2 w3 tr2 hc.2 hl]
          simp only [pure, Except.pure, Except.ok.injEq, Prod.mk.injEq]
          exact ⟨h.1, trivial, h.2.2⟩

theorem seqRun_indep (t : Tick) (ht : Indep t) (w w2 : Store) (i : Nat) (m : Bool) (before rest : List Node)
    (trR : List Ev) (n' : Node) (w' : Store) (tr : List Ev) (hc : noBBL rest = true)
    (h : seqRun t w i m before rest trR = .ok (n', w', tr)) : seqRun t w2 i m before rest trR = .ok (n', w2, tr) := by
  simp only [seqRun, bind, Except.bind] at h ⊢
  cases hl : seqLoop t w rest with
  | error e => simp [hl] at h
  | ok v =>
    obtain ⟨done, r, w1, trl⟩ := v
    simp only [hl] at h
    rw [seqLoop_indep t ht rest w w2 done r w1 trl hc hl]
    cases r with
    | none =>
      simp only [pure, Except.pure, Except.ok.injEq, Prod.mk.injEq] at h ⊢
      exact ⟨h.1, trivial, h.2.2⟩
    | some p =>
      obtain ⟨c', untouched⟩ := p
      simp only [pure, Except.pure, Except.ok.injEq, Prod.mk.injEq] at h ⊢
      exact ⟨h.1, trivial, h.2.2⟩

theorem selRun_indep (t : Tick) (ht : Indep t) (w w2 : Store) (i : Nat) (m : Bool) (cur0 : Option Nat)
    (before rest : List Node) (trP : List Ev) (n' : Node) (w' : Store) (tr : List Ev) (hc : noBBL rest = true)
    (h : selRun t w i m cur0 before rest trP = .ok (n', w', tr)) :
    selRun t w2 i m cur0 before rest trP = .ok (n', w2, tr) := by
  simp only [selRun, bind, Except.bind] at h ⊢
  cases hl : selLoop t w rest with
  | error e => simp [hl] at h
  | ok v =>
    obtain ⟨done, r, w1, trl⟩ := v
    simp only [hl] at h
    rw [selLoop_indep t ht rest w w2 done r w1 trl hc hl]
    cases r with
    | none =>
      simp only [pure, Except.pure, Except.ok.injEq, Prod.mk.injEq] at h ⊢
      exact ⟨h.1, trivial, h.2.2⟩
    | some p =>
      obtain ⟨c', untouched⟩ := p
      simp only [pure, Except.pure, Except.ok.injEq, Prod.mk.injEq] at h ⊢
      exact ⟨h.1, trivial, h.2.2⟩

theorem parRun_indep (t : Tick) (ht : Indep t) (w w2 : Store) (i : Nat) (p : Policy) (cs0 : List Node)
    (trR : List Ev) (n' : Node) (w' : Store) (tr : List Ev) (hc : noBBL cs0 = true)
    (h : parRun t w i p cs0 trR = .ok (n', w', tr)) : parRun t w2 i p cs0 trR = .ok (n', w2, tr) := by
  simp only [parRun, bind, Except.bind] at h ⊢
  cases hl : parLoop t p.sync w cs0 with
  | error e => simp [hl] at h
  | ok v =>
    obtain ⟨cs1, w1, trl⟩ := v
    simp only [hl] at h
    rw [parLoop_indep t ht p.sync cs0 w w2 cs1 w1 trl hc hl]
    simp only at h ⊢
    split at h
    · rename_i hns
      rw [if_pos hns]
      simp only [pure, Except.pure, Except.ok.injEq, Prod.mk.injEq] at h ⊢
      exact ⟨h.1, trivial, h.2.2⟩
    · rename_i hns
      rw [if_neg hns]
      simp only [pure, Except.pure, Except.ok.injEq, Prod.mk.injEq] at h ⊢
      exact ⟨h.1, trivial, h.2.2⟩

theorem decRun_indep (t : Tick) (ht : Indep t) (e : Env) (w w2 : Store) (i : Nat) (k : DecKind) (st : Status)
    (c n' : Node) (w' : Store) (tr : List Ev) (hk : decNoBB k.shape = true) (hc : noBB c = true)
    (h : decRun t e w i k st c = .ok (n', w', tr)) : decRun t e w2 i k st c = .ok (n', w2, tr) := by
  simp only [decRun, bind, Except.bind] at h ⊢
  cases htc : t w c with
  | error err => simp [htc] at h
  | ok v =>
    obtain ⟨c1, w1, trc⟩ := v
    simp only [htc] at h
    rw [ht w w2 c c1 w1 trc hc htc]
    simp only
    have hk0 : decNoBB (if st ≠ .running then decInit e k else k).shape = true := by
      split
      · rw [decInit_shape]; exact hk
      · exact hk
    generalize (if st ≠ .running then decInit e k else k) = k0 at h hk0 ⊢
    rw [decPublish_noBB k0 c1.status w1 hk0] at h
    rw [decPublish_noBB k0 c1.status w2 hk0]
    simp only at h ⊢
    split at h
    · rename_i hns
      rw [if_pos hns]
      simp only [pure, Except.pure, Except.ok.injEq, Prod.mk.injEq] at h ⊢
      exact ⟨h.1, trivial, h.2.2⟩
    · rename_i hns
      rw [if_neg hns]
      simp only [pure, Except.pure, Except.ok.injEq, Prod.mk.injEq] at h ⊢
      exact ⟨h.1, trivial, h.2.2⟩

/-- the tick of a blackboard-free subtree gives the same tree and the same trace whatever the store -/
theorem tickF_noBB_indep (e : Env) : ∀ (f : Nat) (w w2 : Store) (n n' : Node) (w' : Store) (tr : List Ev),
    noBB n = true → tickF f e w n = .ok (n', w', tr) → tickF f e w2 n = .ok (n', w2, tr) := by
  intro f
  induction f with
  | zero => intro w w2 n n' w' tr _ h; simp [tickF] at h
  | succ f ih =>
    have hI : Indep (tickF f e) := fun w w2 c c' w' tr hc h => ih w w2 c c' w' tr hc h
    intro w w2 n n' w' tr hn h
    cases n with
    | leaf i st k log =>
      simp only [tickF] at h ⊢
      rw [noBB_leaf] at hn
      exact leafTick_noBB_indep e w w2 i st k log n' w' tr hn h
    | seq i m st cur cs =>
      rw [noBB_seq] at hn
      simp only [tickF, bind, Except.bind] at h ⊢
      cases hen : seqEntry st m cur cs with
      | error err => simp [hen] at h
      | ok v =>
        obtain ⟨before, rest, trR⟩ := v
        simp only [hen] at h ⊢
        by_cases hemp : cs.isEmpty = true
        · simp only [hemp, ↓reduceIte, pure, Except.pure, Except.ok.injEq, Prod.mk.injEq] at h ⊢
          exact ⟨h.1, trivial, h.2.2⟩
        · simp only [hemp, Bool.false_eq_true, ↓reduceIte] at h ⊢
          have hs := seqEntry_skelL st m cur cs before rest trR hen
          have hr : noBBL rest = true := by
            have := noBBL_of_skelL hs
            rw [noBBL_append, hn, Bool.and_eq_true] at this
            exact this.2
          exact seqRun_indep (tickF f e) hI w w2 i m before rest trR n' w' tr hr h
    | sel i m st cur cs =>
      rw [noBB_sel] at hn
      simp only [tickF, bind, Except.bind] at h ⊢
      by_cases hemp : cs.isEmpty = true
      · simp only [hemp, ↓reduceIte, pure, Except.pure, Except.ok.injEq, Prod.mk.injEq] at h ⊢
        exact ⟨h.1, trivial, h.2.2⟩
      · simp only [hemp, Bool.false_eq_true, ↓reduceIte] at h ⊢
        cases hen : selEntry st m cur cs with
        | error err => simp [hen] at h
        | ok v =>
          obtain ⟨cur0, before, rest, trP⟩ := v
          simp only [hen] at h ⊢
          have hs := selEntry_skelL st m cur cur0 cs before rest trP hen
          have hr : noBBL rest = true := by
            have := noBBL_of_skelL hs
            rw [noBBL_append, hn, Bool.and_eq_true] at this
            exact this.2
          exact selRun_indep (tickF f e) hI w w2 i m cur0 before rest trP n' w' tr hr h
    | par i p st cur cs =>
      rw [noBB_par] at hn
      simp only [tickF, bind, Except.bind] at h ⊢
      by_cases hv : (!validPolicy p cs) = true
      · simp [hv, throw, throwThe, MonadExceptOf.throw] at h
      · simp only [hv, Bool.false_eq_true, ↓reduceIte] at h ⊢
        have h0 : noBBL (if st ≠ .running then stopInvNonInvalid cs else (cs, [])).1 = true := by
          split
          · rw [noBBL_of_skelL (stopInvNonInvalid_skelL cs)]; exact hn
          · exact hn
        generalize (if st ≠ .running then stopInvNonInvalid cs else (cs, [])) = r0 at h h0 ⊢
        simp only [pure, Except.pure] at h ⊢
        by_cases hemp : r0.1.isEmpty = true
        · simp only [hemp, ↓reduceIte, Except.ok.injEq, Prod.mk.injEq] at h ⊢
          exact ⟨h.1, trivial, h.2.2⟩
        · simp only [hemp, Bool.false_eq_true, ↓reduceIte] at h ⊢
          exact parRun_indep (tickF f e) hI w w2 i p r0.1 r0.2 n' w' tr h0 h
    | dec i k st c =>
      rw [noBB_dec, Bool.and_eq_true] at hn
      have hb : ∀ s, decBounce w i k s c = .ok (n', w', tr) → decBounce w2 i k s c = .ok (n', w2, tr) := by
        intro s hb
        simp only [decBounce, pure, Except.pure, Except.ok.injEq, Prod.mk.injEq] at hb ⊢
        exact ⟨hb.1, trivial, hb.2.2⟩
      have hr := decRun_indep (tickF f e) hI e w w2 i k st c n' w' tr hn.1 hn.2
      cases k with
      | guard g =>
        simp only [tickF] at h ⊢
        by_cases hg : e.guard g = true
        · simp only [hg, ↓reduceIte] at h ⊢; exact hr h
        · simp only [hg, Bool.false_eq_true, ↓reduceIte] at h ⊢; exact hb _ h
      | oneShot b fin =>
        cases fin with
        | none => simp only [tickF] at h ⊢; exact hr h
        | some s => simp only [tickF] at h ⊢; exact hb _ h
      | _ => simp only [tickF] at h ⊢; exact hr h

end C18b

/-- 1, second half: the tick of a blackboard-free subtree does not depend on the store: started from another store it
    returns the same tree and the same trace (and leaves that store as it was) -/
theorem C18_noBB_indep (f : Nat) (e : Env) (w w2 : Store) (n n' : Node) (w' : Store) (tr : List Ev)
    (hn : C18b.noBB n = true) (h : tickF f e w n = .ok (n', w', tr)) : tickF f e w2 n = .ok (n', w2, tr) :=
  C18b.tickF_noBB_indep e f w w2 n n' w' tr hn h

namespace C18b

/-! ## 0b. the behaviours entered by a tick belong to the ticked subtree -/

/-- every `enter` event of the trace is for an id in `S` -/
def Enters (S : List Nat) (tr : List Ev) : Prop := ∀ j, Ev.enter j ∈ tr → j ∈ S

/-- a trace without `enter` events (interrupt traces) -/
def NoEnter (tr : List Ev) : Prop := ∀ j, Ev.enter j ∉ tr

theorem NoEnter.nil : NoEnter [] := by intro j h; simp at h

theorem NoEnter.of_term {tr : List Ev} (h : ∀ ev ∈ tr, ∃ j, ev = Ev.term j .invalid) : NoEnter tr := by
  intro j hj
  obtain ⟨k, hk⟩ := h _ hj
  cases hk

theorem NoEnter.append {a b : List Ev} (ha : NoEnter a) (hb : NoEnter b) : NoEnter (a ++ b) := by
  intro j h
  simp only [List.mem_append] at h
  rcases h with h | h
  · exact ha j h
  · exact hb j h

theorem NoEnter.enters {tr : List Ev} (h : NoEnter tr) (S : List Nat) : Enters S tr :=
  fun j hj => (h j hj).elim

theorem Enters.nil (S : List Nat) : Enters S [] := by intro j h; simp at h

theorem Enters.append {S : List Nat} {a b : List Ev} (ha : Enters S a) (hb : Enters S b) : Enters S (a ++ b) := by
  intro j h
  simp only [List.mem_append] at h
  rcases h with h | h
  · exact ha j h
  · exact hb j h

theorem Enters.mono {S T : List Nat} {tr : List Ev} (h : Enters S tr) (hST : ∀ j ∈ S, j ∈ T) : Enters T tr :=
  fun j hj => hST j (h j hj)

theorem stopInv_noEnter (n : Node) : NoEnter (stopInv n).2 := NoEnter.of_term (C18.stopInv_events n)
theorem stopInvNonInvalid_noEnter (cs : List Node) : NoEnter (stopInvNonInvalid cs).2 :=
  NoEnter.of_term (C18.stopInvNonInvalid_events cs)

theorem stopRunning_noEnter : ∀ cs : List Node, NoEnter (stopRunning cs).2
| [] => by simp [stopRunning, NoEnter.nil]
| c :: cs => by
    simp only [stopRunning]
    apply NoEnter.append
    · split
      · exact stopInv_noEnter c
      · exact NoEnter.nil
    · exact stopRunning_noEnter cs

theorem stopInvAll_noEnter : ∀ cs : List Node, NoEnter (stopInvAll cs).2
| [] => by simp [stopInvAll, NoEnter.nil]
| c :: cs => by
    simp only [stopInvAll]
    exact NoEnter.append (stopInv_noEnter c) (stopInvAll_noEnter cs)

theorem idsL_append : ∀ (a b : List Skel), Skel.idsL (a ++ b) = Skel.idsL a ++ Skel.idsL b
| [], b => by simp [Skel.idsL]
| c :: a, b => by simp [Skel.idsL, idsL_append a b]

theorem id_mem_ids (n : Node) : n.id ∈ (skel n).ids := by
  cases n <;> simp [skel, Skel.ids, Node.id]

/-- the `enter`-ids property of a child tick function -/
def EntersOK (t : Tick) : Prop := ∀ w c c' w' tr, t w c = .ok (c', w', tr) → Enters (skel c).ids tr

theorem seqLoop_enters (t : Tick) (ht : EntersOK t) : ∀ (cs : List Node) (w : Store) (done : List Node)
    (r : Option (Node × List Node)) (w' : Store) (tr : List Ev),
    seqLoop t w cs = .ok (done, r, w', tr) → Enters (Skel.idsL (skelL cs)) tr
| [], w, done, r, w', tr, h => by
    simp only [seqLoop, pure, Except.pure, Except.ok.injEq, Prod.mk.injEq] at h
    obtain ⟨_, _, _, rfl⟩ := h
    exact Enters.nil _
| c :: cs, w, done, r, w', tr, h => by
    simp only [seqLoop, bind, Except.bind] at h
    cases htc : t w c with
    | error e => simp [htc] at h
    | ok v =>
      obtain ⟨c1, w1, tr1⟩ := v
      simp only [htc] at h
      have h1 : Enters (Skel.idsL (skelL (c :: cs))) tr1 :=
        (ht w c c1 w1 tr1 htc).mono (by intro j hj; simp [Skel.idsL, hj])
      split at h
      · simp only [pure, Except.pure, Except.ok.injEq, Prod.mk.injEq] at h
        obtain ⟨_, _, _, rfl⟩ := h
        exact h1
      · cases hl : seqLoop t w1 cs with
        | error e => simp [hl] at h
        | ok v =>
          obtain ⟨d2, r2, w2, tr2⟩ := v
          simp only [hl, pure, Except.pure, Except.ok.injEq, Prod.mk.injEq] at h
          obtain ⟨_, _, _, rfl⟩ := h
          exact h1.append ((seqLoop_enters t ht cs w1 d2 r2 w2 tr2 hl).mono
            (by intro j hj; simp [Skel.idsL, hj]))

theorem selLoop_enters (t : Tick) (ht : EntersOK t) : ∀ (cs : List Node) (w : Store) (done : List Node)
    (r : Option (Node × List Node)) (w' : Store) (tr : List Ev),
    selLoop t w cs = .ok (done, r, w', tr) → Enters (Skel.idsL (skelL cs)) tr
| [], w, done, r, w', tr, h => by
    simp only [selLoop, pure, Except.pure, Except.ok.injEq, Prod.mk.injEq] at h
    obtain ⟨_, _, _, rfl⟩ := h
    exact Enters.nil _
| c :: cs, w, done, r, w', tr, h => by
    simp only [selLoop, bind, Except.bind] at h
    cases htc : t w c with
    | error e => simp [htc] at h
    | ok v =>
      obtain ⟨c1, w1, tr1⟩ := v
      simp only [htc] at h
      have h1 : Enters (Skel.idsL (skelL (c :: cs))) tr1 :=
        (ht w c c1 w1 tr1 htc).mono (by intro j hj; simp [Skel.idsL, hj])
      split at h
      · simp only [pure, Except.pure, Except.ok.injEq, Prod.mk.injEq] at h
        obtain ⟨_, _, _, rfl⟩ := h
        exact h1
      · cases hl : selLoop t w1 cs with
        | error e => simp [hl] at h
        | ok v =>
          obtain ⟨d2, r2, w2, tr2⟩ := v
          simp only [hl, pure, Except.pure, Except.ok.injEq, Prod.mk.injEq] at h
          obtain ⟨_, _, _, rfl⟩ := h
          exact h1.append ((selLoop_enters t ht cs w1 d2 r2 w2 tr2 hl).mono
            (by intro j hj; simp [Skel.idsL, hj]))

theorem parLoop_enters (t : Tick) (ht : EntersOK t) (sync : Bool) : ∀ (cs : List Node) (w : Store) (cs' : List Node)
    (w' : Store) (tr : List Ev), parLoop t sync w cs = .ok (cs', w', tr) → Enters (Skel.idsL (skelL cs)) tr
| [], w, cs', w', tr, h => by
    simp only [parLoop, pure, Except.pure, Except.ok.injEq, Prod.mk.injEq] at h
    obtain ⟨_, _, rfl⟩ := h
    exact Enters.nil _
| c :: cs, w, cs', w', tr, h => by
    simp only [parLoop, bind, Except.bind] at h
    split at h
    · cases hl : parLoop t sync w cs with
      | error e => simp [hl] at h
      | ok v =>
        obtain ⟨d2, w2, tr2⟩ := v
        simp only [hl, pure, Except.pure, Except.ok.injEq, Prod.mk.injEq] at h
        obtain ⟨_, _, rfl⟩ := h
        exact (parLoop_enters t ht sync cs w d2 w2 tr2 hl).mono (by intro j hj; simp [Skel.idsL, hj])
    · cases htc : t w c with
      | error e => simp [htc] at h
      | ok v =>
        obtain ⟨c1, w1, tr1⟩ := v
        simp only [htc] at h
        have h1 : Enters (Skel.idsL (skelL (c :: cs))) tr1 :=
          (ht w c c1 w1 tr1 htc).mono (by intro j hj; simp [Skel.idsL, hj])
        cases hl : parLoop t sync w1 cs with
        | error e => simp [hl] at h
        | ok v =>
          obtain ⟨d2, w2, tr2⟩ := v
          simp only [hl, pure, Except.pure, Except.ok.injEq, Prod.mk.injEq] at h
          obtain ⟨_, _, rfl⟩ := h
          exact h1.append ((parLoop_enters t ht sync cs w1 d2 w2 tr2 hl).mono
            (by intro j hj; simp [Skel.idsL, hj]))

theorem Enters.cons_enter {S : List Nat} {tr : List Ev} (i : Nat) (h : Enters S tr) :
    Enters (i :: S) (Ev.enter i :: tr) := by
  intro j hj
  simp only [List.mem_cons, Ev.enter.injEq] at hj
  rcases hj with rfl | hj
  · simp
  · exact List.mem_cons_of_mem _ (h j hj)

theorem noEnter_yld (i : Nat) (s : Status) : NoEnter [Ev.yld i s] := by
  intro j h; simp at h

theorem seqRun_enters (t : Tick) (ht : EntersOK t) (w : Store) (i : Nat) (m : Bool) (before rest : List Node)
    (trR : List Ev) (n' : Node) (w' : Store) (tr : List Ev) (hR : NoEnter trR)
    (h : seqRun t w i m before rest trR = .ok (n', w', tr)) : Enters (i :: Skel.idsL (skelL rest)) tr := by
  simp only [seqRun, bind, Except.bind] at h
  cases hl : seqLoop t w rest with
  | error e => simp [hl] at h
  | ok v =>
    obtain ⟨done, r, w1, trl⟩ := v
    simp only [hl] at h
    have hs := seqLoop_enters t ht rest w done r w1 trl hl
    cases r with
    | none =>
      simp only [pure, Except.pure, Except.ok.injEq, Prod.mk.injEq] at h
      obtain ⟨_, _, rfl⟩ := h
      simp only [List.singleton_append, List.cons_append]
      exact Enters.cons_enter i (((hR.enters _).append hs).append ((noEnter_yld _ _).enters _))
    | some p =>
      obtain ⟨c', untouched⟩ := p
      simp only [pure, Except.pure, Except.ok.injEq, Prod.mk.injEq] at h
      obtain ⟨_, _, rfl⟩ := h
      have hK : NoEnter (if m = true then (untouched, []) else stopInvNonInvalid untouched).2 := by
        split
        · exact NoEnter.nil
        · exact stopInvNonInvalid_noEnter untouched
      simp only [List.singleton_append, List.cons_append]
      exact Enters.cons_enter i ((((hR.enters _).append hs).append (hK.enters _)).append ((noEnter_yld _ _).enters _))

theorem selRun_enters (t : Tick) (ht : EntersOK t) (w : Store) (i : Nat) (m : Bool) (cur0 : Option Nat)
    (before rest : List Node) (trP : List Ev) (n' : Node) (w' : Store) (tr : List Ev) (hP : NoEnter trP)
    (h : selRun t w i m cur0 before rest trP = .ok (n', w', tr)) : Enters (i :: Skel.idsL (skelL rest)) tr := by
  simp only [selRun, bind, Except.bind] at h
  cases hl : selLoop t w rest with
  | error e => simp [hl] at h
  | ok v =>
    obtain ⟨done, r, w1, trl⟩ := v
    simp only [hl] at h
    have hs := selLoop_enters t ht rest w done r w1 trl hl
    cases r with
    | none =>
      simp only [pure, Except.pure, Except.ok.injEq, Prod.mk.injEq] at h
      obtain ⟨_, _, rfl⟩ := h
      simp only [List.singleton_append, List.cons_append]
      exact Enters.cons_enter i (((hP.enters _).append hs).append ((noEnter_yld _ _).enters _))
    | some p =>
      obtain ⟨c', untouched⟩ := p
      simp only [pure, Except.pure, Except.ok.injEq, Prod.mk.injEq] at h
      obtain ⟨_, _, rfl⟩ := h
      have hK : NoEnter (if cur0 = some c'.id then (untouched, []) else stopInvNonInvalid untouched).2 := by
        split
        · exact NoEnter.nil
        · exact stopInvNonInvalid_noEnter untouched
      simp only [List.singleton_append, List.cons_append]
      exact Enters.cons_enter i ((((hP.enters _).append hs).append (hK.enters _)).append ((noEnter_yld _ _).enters _))

theorem parRun_enters (t : Tick) (ht : EntersOK t) (w : Store) (i : Nat) (p : Policy) (cs0 : List Node)
    (trR : List Ev) (n' : Node) (w' : Store) (tr : List Ev) (hR : NoEnter trR)
    (h : parRun t w i p cs0 trR = .ok (n', w', tr)) : Enters (i :: Skel.idsL (skelL cs0)) tr := by
  simp only [parRun, bind, Except.bind] at h
  cases hl : parLoop t p.sync w cs0 with
  | error e => simp [hl] at h
  | ok v =>
    obtain ⟨cs1, w1, trl⟩ := v
    simp only [hl] at h
    have hs := parLoop_enters t ht p.sync cs0 w cs1 w1 trl hl
    split at h
    · simp only [pure, Except.pure, Except.ok.injEq, Prod.mk.injEq] at h
      obtain ⟨_, _, rfl⟩ := h
      simp only [List.singleton_append, List.cons_append]
      exact Enters.cons_enter i ((((hR.enters _).append hs).append ((stopRunning_noEnter cs1).enters _)).append
        ((noEnter_yld _ _).enters _))
    · simp only [pure, Except.pure, Except.ok.injEq, Prod.mk.injEq] at h
      obtain ⟨_, _, rfl⟩ := h
      simp only [List.singleton_append, List.cons_append]
      exact Enters.cons_enter i (((hR.enters _).append hs).append ((noEnter_yld _ _).enters _))

theorem decBounce_enters (w : Store) (i : Nat) (k : DecKind) (s : Status) (c n' : Node) (w' : Store) (tr : List Ev)
    (h : decBounce w i k s c = .ok (n', w', tr)) : Enters (i :: (skel c).ids) tr := by
  simp only [decBounce, pure, Except.pure, Except.ok.injEq, Prod.mk.injEq] at h
  obtain ⟨_, _, rfl⟩ := h
  have hS : NoEnter (if c.status = .running then stopInv c else (c, [])).2 := by
    split
    · exact stopInv_noEnter c
    · exact NoEnter.nil
  simp only [List.singleton_append, List.cons_append]
  exact Enters.cons_enter i ((hS.enters _).append ((noEnter_yld _ _).enters _))

theorem decRun_enters (t : Tick) (ht : EntersOK t) (e : Env) (w : Store) (i : Nat) (k : DecKind) (st : Status)
    (c n' : Node) (w' : Store) (tr : List Ev)
    (h : decRun t e w i k st c = .ok (n', w', tr)) : Enters (i :: (skel c).ids) tr := by
  simp only [decRun, bind, Except.bind] at h
  cases htc : t w c with
  | error err => simp [htc] at h
  | ok v =>
    obtain ⟨c1, w1, trc⟩ := v
    have hc := ht w c c1 w1 trc htc
    simp only [htc] at h
    generalize (if st ≠ .running then decInit e k else k) = k0 at h
    cases hp : decPublish k0 c1.status w1 with
    | error err => simp [hp] at h
    | ok w2 =>
      simp only [hp] at h
      have hC : NoEnter (if (decUpdate e k0 c1.status).2.2 = true then stopInv c1 else (c1, [])).2 := by
        split
        · exact stopInv_noEnter c1
        · exact NoEnter.nil
      generalize (if (decUpdate e k0 c1.status).2.2 = true then stopInv c1 else (c1, [])) = cc at h hC
      split at h
      · simp only [pure, Except.pure, Except.ok.injEq, Prod.mk.injEq] at h
        obtain ⟨_, _, rfl⟩ := h
        have hS : NoEnter (if (decUpdate e k0 c1.status).2.1 = .invalid ∨ cc.1.status = .running
            then stopInv cc.1 else (cc.1, [])).2 := by
          split
          · exact stopInv_noEnter _
          · exact NoEnter.nil
        simp only [List.singleton_append, List.cons_append]
        exact Enters.cons_enter i (((hc.append (hC.enters _)).append (hS.enters _)).append
          ((noEnter_yld _ _).enters _))
      · simp only [pure, Except.pure, Except.ok.injEq, Prod.mk.injEq] at h
        obtain ⟨_, _, rfl⟩ := h
        simp only [List.singleton_append, List.cons_append]
        exact Enters.cons_enter i ((hc.append (hC.enters _)).append ((noEnter_yld _ _).enters _))

theorem leafTick_enters (e : Env) (w : Store) (i : Nat) (st : Status) (k : LeafKind) (log : List LEv)
    (n' : Node) (w' : Store) (tr : List Ev) (h : leafTick e w i st k log = .ok (n', w', tr)) : Enters [i] tr := by
  simp only [leafTick, bind, Except.bind] at h
  generalize (if st ≠ .running then leafInit e k else k) = k0 at h
  cases hu : leafUpdate i e w k0 with
  | error err => simp [hu] at h
  | ok v =>
    obtain ⟨k1, o, w1⟩ := v
    simp only [hu, pure, Except.pure, Except.ok.injEq, Prod.mk.injEq] at h
    obtain ⟨_, _, rfl⟩ := h
    intro j hj
    simp only [List.mem_append, List.mem_cons, List.mem_singleton, Ev.enter.injEq, reduceCtorEq, or_false,
      List.not_mem_nil, false_or] at hj
    rcases hj with (hj | hj) | hj
    · simp [hj]
    · split at hj <;> simp at hj
    · split at hj <;> simp at hj

theorem idsL_mono_of_append {a b c : List Node} (h : skelL (a ++ b) = skelL c) :
    ∀ j ∈ Skel.idsL (skelL b), j ∈ Skel.idsL (skelL c) := by
  intro j hj
  rw [← h, skelL_append, idsL_append]
  exact List.mem_append_right _ hj

/-- **the behaviours a tick enters are behaviours of the ticked subtree** -/
theorem tickF_enters (e : Env) : ∀ (f : Nat) (w : Store) (n n' : Node) (w' : Store) (tr : List Ev),
    tickF f e w n = .ok (n', w', tr) → Enters (skel n).ids tr := by
  intro f
  induction f with
  | zero => intro w n n' w' tr h; simp [tickF] at h
  | succ f ih =>
    have hE : EntersOK (tickF f e) := fun w c c' w' tr h => ih w c c' w' tr h
    intro w n n' w' tr h
    cases n with
    | leaf i st k log =>
      simp only [tickF] at h
      simpa [skel, Skel.ids] using leafTick_enters e w i st k log n' w' tr h
    | seq i m st cur cs =>
      simp only [tickF, bind, Except.bind] at h
      cases hen : seqEntry st m cur cs with
      | error err => simp [hen] at h
      | ok v =>
        obtain ⟨before, rest, trR⟩ := v
        simp only [hen] at h
        by_cases hemp : cs.isEmpty = true
        · simp only [hemp, ↓reduceIte, pure, Except.pure, Except.ok.injEq, Prod.mk.injEq] at h
          obtain ⟨_, _, rfl⟩ := h
          have : cs = [] := by simpa using hemp
          subst this
          simp only [seqEntry] at hen
          intro j hj
          have hRn : NoEnter trR := by
            split at hen
            · simp only [pure, Except.pure, Except.ok.injEq, Prod.mk.injEq] at hen
              obtain ⟨_, _, rfl⟩ := hen
              exact stopInvNonInvalid_noEnter []
            · split at hen
              · split at hen
                · simp only [pure, Except.pure, Except.ok.injEq, Prod.mk.injEq] at hen
                  obtain ⟨_, _, rfl⟩ := hen
                  exact NoEnter.nil
                · simp [splitAtId, throw, throwThe, MonadExceptOf.throw] at hen
              · simp only [pure, Except.pure, Except.ok.injEq, Prod.mk.injEq] at hen
                obtain ⟨_, _, rfl⟩ := hen
                exact NoEnter.nil
          simp only [List.mem_append, List.mem_singleton, Ev.enter.injEq, reduceCtorEq, or_false] at hj
          rcases hj with hj | hj
          · simp [skel, Skel.ids, hj]
          · exact (hRn j hj).elim
        · simp only [hemp, Bool.false_eq_true, ↓reduceIte] at h
          have hRn : NoEnter trR := by
            unfold seqEntry at hen
            split at hen
            · simp only [pure, Except.pure, Except.ok.injEq, Prod.mk.injEq] at hen
              obtain ⟨_, _, rfl⟩ := hen
              exact stopInvNonInvalid_noEnter cs
            · split at hen
              · split at hen
                · simp only [pure, Except.pure, Except.ok.injEq, Prod.mk.injEq] at hen
                  obtain ⟨_, _, rfl⟩ := hen
                  exact NoEnter.nil
                · split at hen
                  · simp only [pure, Except.pure, Except.ok.injEq, Prod.mk.injEq] at hen
                    obtain ⟨_, _, rfl⟩ := hen
                    exact NoEnter.nil
                  · simp [throw, throwThe, MonadExceptOf.throw] at hen
              · simp only [pure, Except.pure, Except.ok.injEq, Prod.mk.injEq] at hen
                obtain ⟨_, _, rfl⟩ := hen
                exact NoEnter.nil
          have hs := seqEntry_skelL st m cur cs before rest trR hen
          refine (seqRun_enters (tickF f e) hE w i m before rest trR n' w' tr hRn h).mono ?_
          intro j hj
          simp only [List.mem_cons] at hj
          simp only [skel, Skel.ids, List.mem_cons]
          rcases hj with hj | hj
          · exact Or.inl hj
          · exact Or.inr (idsL_mono_of_append hs j hj)
    | sel i m st cur cs =>
      simp only [tickF, bind, Except.bind] at h
      split at h
      · simp only [pure, Except.pure, Except.ok.injEq, Prod.mk.injEq] at h
        obtain ⟨_, _, rfl⟩ := h
        intro j hj
        simp only [List.mem_cons, Ev.enter.injEq, reduceCtorEq, List.not_mem_nil, or_false] at hj
        simp [skel, Skel.ids, hj]
      · cases hen : selEntry st m cur cs with
        | error err => simp [hen] at h
        | ok v =>
          obtain ⟨cur0, before, rest, trP⟩ := v
          simp only [hen] at h
          have hs := selEntry_skelL st m cur cur0 cs before rest trP hen
          have hPn : NoEnter trP := by
            unfold selEntry at hen
            generalize (if st ≠ .running then cs.head?.map Node.id else cur) = c0 at hen
            simp only at hen
            split at hen
            · cases c0 with
              | none =>
                simp only [pure, Except.pure, Except.ok.injEq, Prod.mk.injEq] at hen
                obtain ⟨_, _, _, rfl⟩ := hen
                exact NoEnter.nil
              | some cid =>
                simp only at hen
                split at hen
                · simp only [pure, Except.pure, Except.ok.injEq, Prod.mk.injEq] at hen
                  obtain ⟨_, _, _, rfl⟩ := hen
                  exact stopInvAll_noEnter _
                · simp [throw, throwThe, MonadExceptOf.throw] at hen
            · simp only [pure, Except.pure, Except.ok.injEq, Prod.mk.injEq] at hen
              obtain ⟨_, _, _, rfl⟩ := hen
              exact NoEnter.nil
          refine (selRun_enters (tickF f e) hE w i m cur0 before rest trP n' w' tr hPn h).mono ?_
          intro j hj
          simp only [List.mem_cons] at hj
          simp only [skel, Skel.ids, List.mem_cons]
          rcases hj with hj | hj
          · exact Or.inl hj
          · exact Or.inr (idsL_mono_of_append hs j hj)
    | par i p st cur cs =>
      simp only [tickF, bind, Except.bind] at h
      split at h
      · simp [throw, throwThe, MonadExceptOf.throw] at h
      · have h0 : skelL (if st ≠ .running then stopInvNonInvalid cs else (cs, [])).1 = skelL cs ∧
            NoEnter (if st ≠ .running then stopInvNonInvalid cs else (cs, [])).2 := by
          split
          · exact ⟨stopInvNonInvalid_skelL cs, stopInvNonInvalid_noEnter cs⟩
          · exact ⟨rfl, NoEnter.nil⟩
        generalize (if st ≠ .running then stopInvNonInvalid cs else (cs, [])) = r0 at h h0
        simp only [pure, Except.pure] at h
        split at h
        · simp only [Except.ok.injEq, Prod.mk.injEq] at h
          obtain ⟨_, _, rfl⟩ := h
          simp only [List.singleton_append, List.cons_append]
          simp only [skel, Skel.ids]
          exact Enters.cons_enter i ((h0.2.enters _).append ((noEnter_yld _ _).enters _))
        · have := parRun_enters (tickF f e) hE w i p r0.1 r0.2 n' w' tr h0.2 h
          rw [h0.1] at this
          simpa [skel, Skel.ids] using this
    | dec i k st c =>
      simp only [tickF] at h
      split at h
      · split at h
        · simpa [skel, Skel.ids] using decRun_enters (tickF f e) hE e w i _ st c n' w' tr h
        · simpa [skel, Skel.ids] using decBounce_enters w i _ .failure c n' w' tr h
      · simpa [skel, Skel.ids] using decBounce_enters w i _ _ c n' w' tr h
      · simpa [skel, Skel.ids] using decRun_enters (tickF f e) hE e w i _ st c n' w' tr h

end C18b

namespace C18b

/-! ## 1. structural description of an idiom instance -/

/-- one guarded task of the idiom: its flag, the ids of the guarded selector, the guard leaf, the worker sequence and
    the flag-setting leaf, and the task subtree (whose runtime state is irrelevant: only its skeleton is used) -/
structure Slot where
  flag : String
  sid : Nat
  gid : Nat
  wid : Nat
  setid : Nat
  task : Node

/-- the guarded selector of a slot in an arbitrary runtime state; `t` is the task subtree in its current state -/
def slotNode (sl : Slot) (sst : Status) (scur : Option Nat) (gst : Status) (glog : List LEv) (wst : Status)
    (wcur : Option Nat) (t : Node) (setst : Status) (setlog : List LEv) : Node :=
  sel sl.sid false sst scur
    [leaf sl.gid gst (.checkValue { key := sl.flag, path := [], op := .eq, value := .bool true }) glog,
     seq sl.wid true wst wcur [t, leaf sl.setid setst (.setVar sl.flag [] (.bool true) true) setlog]]

/-- `n` is the guarded selector of slot `sl`, in any runtime state -/
def IsSlot (sl : Slot) (n : Node) : Prop :=
  ∃ sst scur gst glog wst wcur t setst setlog,
    n = slotNode sl sst scur gst glog wst wcur t setst setlog ∧ skel t = skel sl.task

/-- the skeleton of a slot -/
def slotSkel (sl : Slot) : Skel :=
  .sel sl.sid false
    [.leaf sl.gid (.checkValue { key := sl.flag, path := [], op := .eq, value := .bool true }),
     .seq sl.wid true [skel sl.task, .leaf sl.setid (.setVar sl.flag [] (.bool true) true)]]

/-- the flag-clearing leaf for `p = (flag, id)` -/
def clearSkel (p : String × Nat) : Skel := .leaf p.2 (.unsetVar p.1)

def IsClear (p : String × Nat) (n : Node) : Prop := ∃ st log, n = leaf p.2 st (.unsetVar p.1) log

/-- element-wise relation between a description list and a node list -/
def AllRel {α : Type} (R : α → Node → Prop) : List α → List Node → Prop
| [], [] => True
| a :: as, n :: ns => R a n ∧ AllRel R as ns
| _, _ => False

/-- the (flag, id) pairs of the clearing leaves -/
def clearPairs (slots : List Slot) (clearIds : List Nat) : List (String × Nat) :=
  (slots.map Slot.flag).zip clearIds

/-- `n` is an instance of `pick_up_where_you_left_off` over the slots, in any runtime state: a memory Sequence `rid`
    whose children are the guarded selectors of the slots, in order, followed by the flag-clearing leaves, in order -/
def IsPickUp (slots : List Slot) (clearIds : List Nat) (rid : Nat) (n : Node) : Prop :=
  ∃ rst rcur cs, n = seq rid true rst rcur cs ∧
    ∃ sn cn, cs = sn ++ cn ∧ AllRel IsSlot slots sn ∧ AllRel IsClear (clearPairs slots clearIds) cn

/-- the skeleton of the idiom -/
def pickUpSkel (slots : List Slot) (clearIds : List Nat) (rid : Nat) : Skel :=
  .seq rid true (slots.map slotSkel ++ (clearPairs slots clearIds).map clearSkel)

/-! ### inversion of `skel` -/

theorem skel_eq_leaf {n : Node} {i : Nat} {ks : LeafShape} (h : skel n = .leaf i ks) :
    ∃ s k l, n = leaf i s k l ∧ k.shape = ks := by
  cases n <;> simp only [skel, Skel.leaf.injEq, reduceCtorEq] at h
  obtain ⟨rfl, rfl⟩ := h
  exact ⟨_, _, _, rfl, rfl⟩

theorem skel_eq_seq {n : Node} {i : Nat} {m : Bool} {l : List Skel} (h : skel n = .seq i m l) :
    ∃ s c cs, n = seq i m s c cs ∧ skelL cs = l := by
  cases n <;> simp only [skel, Skel.seq.injEq, reduceCtorEq] at h
  obtain ⟨rfl, rfl, rfl⟩ := h
  exact ⟨_, _, _, rfl, rfl⟩

theorem skel_eq_sel {n : Node} {i : Nat} {m : Bool} {l : List Skel} (h : skel n = .sel i m l) :
    ∃ s c cs, n = sel i m s c cs ∧ skelL cs = l := by
  cases n <;> simp only [skel, Skel.sel.injEq, reduceCtorEq] at h
  obtain ⟨rfl, rfl, rfl⟩ := h
  exact ⟨_, _, _, rfl, rfl⟩

theorem skelL_eq_nil {cs : List Node} (h : skelL cs = []) : cs = [] := by
  cases cs with
  | nil => rfl
  | cons c cs => simp at h

theorem skelL_eq_cons {cs : List Node} {a : Skel} {l : List Skel} (h : skelL cs = a :: l) :
    ∃ c cs', cs = c :: cs' ∧ skel c = a ∧ skelL cs' = l := by
  cases cs with
  | nil => simp at h
  | cons c cs =>
    simp only [skelL_cons, List.cons.injEq] at h
    exact ⟨c, cs, rfl, h.1, h.2⟩

theorem skelL_eq_append : ∀ {cs : List Node} {a b : List Skel}, skelL cs = a ++ b →
    ∃ ca cb, cs = ca ++ cb ∧ skelL ca = a ∧ skelL cb = b
| cs, [], b, h => ⟨[], cs, rfl, rfl, h⟩
| cs, x :: a, b, h => by
    obtain ⟨c, cs', rfl, hc, hcs⟩ := skelL_eq_cons (by simpa using h)
    obtain ⟨ca, cb, rfl, h1, h2⟩ := skelL_eq_append hcs
    exact ⟨c :: ca, cb, rfl, by simp [hc, h1], h2⟩

theorem shape_eq_checkValue {k : LeafKind} {c : Check} (h : k.shape = .checkValue c) : k = .checkValue c := by
  cases k <;> simp only [LeafKind.shape, LeafShape.checkValue.injEq, reduceCtorEq] at h
  subst h; rfl

theorem shape_eq_setVar {k : LeafKind} {key : String} {p : List String} {v : Val} {ow : Bool}
    (h : k.shape = .setVar key p v ow) : k = .setVar key p v ow := by
  cases k <;> simp only [LeafKind.shape, LeafShape.setVar.injEq, reduceCtorEq] at h
  obtain ⟨rfl, rfl, rfl, rfl⟩ := h; rfl

theorem shape_eq_unsetVar {k : LeafKind} {key : String} (h : k.shape = .unsetVar key) : k = .unsetVar key := by
  cases k <;> simp only [LeafKind.shape, LeafShape.unsetVar.injEq, reduceCtorEq] at h
  subst h; rfl

/-- being a slot is a property of the skeleton … -/
theorem isSlot_iff_skel (sl : Slot) (n : Node) : IsSlot sl n ↔ skel n = slotSkel sl := by
  constructor
  · rintro ⟨sst, scur, gst, glog, wst, wcur, t, setst, setlog, rfl, ht⟩
    simp [slotNode, slotSkel, skel, LeafKind.shape, ht]
  · intro h
    obtain ⟨sst, scur, cs, rfl, hcs⟩ := skel_eq_sel h
    obtain ⟨g, cs1, rfl, hg, hcs1⟩ := skelL_eq_cons hcs
    obtain ⟨wk, cs2, rfl, hwk, hcs2⟩ := skelL_eq_cons hcs1
    obtain rfl := skelL_eq_nil hcs2
    obtain ⟨gst, gk, glog, rfl, hgk⟩ := skel_eq_leaf hg
    obtain rfl := shape_eq_checkValue hgk
    obtain ⟨wst, wcur, ws, rfl, hws⟩ := skel_eq_seq hwk
    obtain ⟨t, ws1, rfl, ht, hws1⟩ := skelL_eq_cons hws
    obtain ⟨s, ws2, rfl, hs, hws2⟩ := skelL_eq_cons hws1
    obtain rfl := skelL_eq_nil hws2
    obtain ⟨setst, sk, setlog, rfl, hsk⟩ := skel_eq_leaf hs
    obtain rfl := shape_eq_setVar hsk
    exact ⟨sst, scur, gst, glog, wst, wcur, t, setst, setlog, rfl, ht⟩

theorem isClear_iff_skel (p : String × Nat) (n : Node) : IsClear p n ↔ skel n = clearSkel p := by
  constructor
  · rintro ⟨st, log, rfl⟩
    simp [clearSkel, skel, LeafKind.shape]
  · intro h
    obtain ⟨st, k, log, rfl, hk⟩ := skel_eq_leaf h
    obtain rfl := shape_eq_unsetVar hk
    exact ⟨st, log, rfl⟩

theorem allRel_iff_skelL {α : Type} (R : α → Node → Prop) (g : α → Skel) (hR : ∀ a n, R a n ↔ skel n = g a) :
    ∀ (as : List α) (ns : List Node), AllRel R as ns ↔ skelL ns = as.map g
| [], [] => by simp [AllRel]
| [], n :: ns => by simp [AllRel]
| a :: as, [] => by simp [AllRel]
| a :: as, n :: ns => by
    simp only [AllRel, hR, allRel_iff_skelL R g hR as ns, skelL_cons, List.map_cons, List.cons.injEq]

theorem slotsAre_iff (sls : List Slot) (ns : List Node) : AllRel IsSlot sls ns ↔ skelL ns = sls.map slotSkel :=
  allRel_iff_skelL IsSlot slotSkel isSlot_iff_skel sls ns

theorem clearsAre_iff (ps : List (String × Nat)) (ns : List Node) :
    AllRel IsClear ps ns ↔ skelL ns = ps.map clearSkel :=
  allRel_iff_skelL IsClear clearSkel isClear_iff_skel ps ns

/-- … and so is being an instance of the idiom -/
theorem isPickUp_iff_skel (slots : List Slot) (clearIds : List Nat) (rid : Nat) (n : Node) :
    IsPickUp slots clearIds rid n ↔ skel n = pickUpSkel slots clearIds rid := by
  constructor
  · rintro ⟨rst, rcur, cs, rfl, sn, cn, rfl, hs, hc⟩
    rw [slotsAre_iff] at hs
    rw [clearsAre_iff] at hc
    simp [pickUpSkel, skel, skelL_append, hs, hc]
  · intro h
    obtain ⟨rst, rcur, cs, rfl, hcs⟩ := skel_eq_seq h
    obtain ⟨sn, cn, rfl, h1, h2⟩ := skelL_eq_append hcs
    exact ⟨rst, rcur, _, rfl, sn, cn, rfl, (slotsAre_iff _ _).mpr h1, (clearsAre_iff _ _).mpr h2⟩

/-- hence ticks, interrupts and whole histories keep the idiom an instance of the idiom -/
theorem isPickUp_of_skel {slots : List Slot} {clearIds : List Nat} {rid : Nat} {n n' : Node}
    (h : IsPickUp slots clearIds rid n) (hs : skel n' = skel n) : IsPickUp slots clearIds rid n' := by
  rw [isPickUp_iff_skel] at h ⊢; rw [hs, h]

theorem isSlot_of_skel {sl : Slot} {n n' : Node} (h : IsSlot sl n) (hs : skel n' = skel n) : IsSlot sl n' := by
  rw [isSlot_iff_skel] at h ⊢; rw [hs, h]

end C18b

namespace C18b

/-! ## 2. one slot, one tick -/

/-- the guard of a slot passes: the flag holds `True` (or the integer 1, which Python's `==` identifies with `True`;
    the idiom itself only ever writes `True`) -/
def flagOn (w : Store) (k : String) : Prop := w k = some (.bool true) ∨ w k = some (.int 1)

theorem flagOn_set_self (w : Store) (k : String) : flagOn (w.set k (.bool true)) k := by
  left; simp [Store.set]

theorem flagOn_set (w : Store) (k k' : String) (h : flagOn w k) : flagOn (w.set k' (.bool true)) k := by
  by_cases hk : k = k'
  · subst hk; exact flagOn_set_self w k
  · simpa [flagOn, Store.set, hk] using h

/-- the store after a slot's tick: untouched, or the slot's flag set to `True` -/
def StoreStep (flag : String) (w w' : Store) : Prop := w' = w ∨ w' = w.set flag (.bool true)

theorem set_set (w : Store) (k : String) (v : Val) : (w.set k v).set k v = w.set k v := by
  funext k'; simp only [Store.set]; split <;> rfl

theorem StoreStep.trans {flag : String} {w w1 w2 : Store} (h1 : StoreStep flag w w1) (h2 : StoreStep flag w1 w2) :
    StoreStep flag w w2 := by
  rcases h1 with rfl | rfl <;> rcases h2 with rfl | rfl
  · left; rfl
  · right; rfl
  · right; rfl
  · right; exact set_set _ _ _

theorem StoreStep.flagOn {flag : String} {w w' : Store} (h : StoreStep flag w w') (k : String) (hk : flagOn w k) :
    flagOn w' k := by
  rcases h with rfl | rfl
  · exact hk
  · exact flagOn_set _ _ _ hk

theorem StoreStep.other {flag : String} {w w' : Store} (h : StoreStep flag w w') (k : String) (hk : k ≠ flag) :
    w' k = w k := by
  rcases h with rfl | rfl
  · rfl
  · simp [Store.set, hk]

theorem StoreStep.cases_key {flag : String} {w w' : Store} (h : StoreStep flag w w') (k : String) :
    w' k = w k ∨ (k = flag ∧ w' k = some (.bool true)) := by
  rcases h with rfl | rfl
  · left; rfl
  · by_cases hk : k = flag
    · right; subst hk; simp [Store.set]
    · left; simp [Store.set, hk]

/-- a worker in a sane state: when RUNNING it remembers the task (the flag-setting leaf never returns RUNNING) -/
def workerOK : Node → Bool
| seq _ _ wst wcur (t :: _) => wst != .running || wcur == some t.id
| _ => true

/-- a slot whose worker is in a sane state; true of every slot of every reachable state (`slot_tick`, `stopInv_slotOK`) -/
def slotOK : Node → Bool
| sel _ _ _ _ [_, W] => workerOK W
| _ => true

theorem slotOK_slotNode (sl : Slot) (sst scur gst glog wst wcur t setst setlog) :
    slotOK (slotNode sl sst scur gst glog wst wcur t setst setlog) = true ↔ (wst = .running → wcur = some t.id) := by
  simp only [slotNode, slotOK, workerOK, Bool.or_eq_true, bne_iff_ne, ne_eq, beq_iff_eq]
  constructor
  · intro h hr
    rcases h with h | h
    · exact absurd hr h
    · exact h
  · intro h
    by_cases hr : wst = .running
    · exact Or.inr (h hr)
    · exact Or.inl hr

theorem workerOK_stopInv (W : Node) : workerOK (stopInv W).1 = true := by
  cases W with
  | seq i m s c cs =>
    simp only [stopInv]
    cases (stopInvNonInvalid cs).1 <;> simp [workerOK]
  | _ => simp [stopInv, workerOK]

/-! ### the guard leaf -/

theorem guard_tick (e : Env) (w : Store) (g : Nat) (gs : Status) (gl : List LEv) (flag : String) :
    ∃ o l' tr, leafTick e w g gs (.checkValue { key := flag, path := [], op := .eq, value := .bool true }) gl =
        .ok (leaf g o (.checkValue { key := flag, path := [], op := .eq, value := .bool true }) l', w, tr) ∧
      (o = .success ↔ flagOn w flag) ∧ (o = .success ∨ o = .failure) := by
  obtain ⟨o, ho, hiff, hor, _⟩ := C18_eo_guard g e w flag
  refine ⟨o, ?_⟩
  simp only [leafTick, leafInit, ite_self, ho, bind, Except.bind, pure, Except.pure]
  exact ⟨_, _, rfl, hiff, hor⟩

/-! ### the store effect of a worker in ANY state -/

/-- a node that leaves the store alone or is a `set flag := True` leaf -/
def SetsOnly (flag : String) (c : Node) : Prop :=
  noBB c = true ∨ ∃ i s l, c = leaf i s (.setVar flag [] (.bool true) true) l

theorem setsOnly_tick (flag : String) (f : Nat) (e : Env) (w : Store) (c c' : Node) (w' : Store) (tr : List Ev)
    (hc : SetsOnly flag c) (h : tickF f e w c = .ok (c', w', tr)) : StoreStep flag w w' := by
  rcases hc with hc | ⟨i, s, l, rfl⟩
  · left; exact tickF_noBB_store e f w c c' w' tr hc h
  · cases f with
    | zero => simp [tickF] at h
    | succ f =>
      obtain ⟨l', trs, hset⟩ := C18.set_tick e w i s l flag
      simp only [C18.puSet] at hset
      simp only [tickF, hset, Except.ok.injEq, Prod.mk.injEq] at h
      right; exact h.2.1.symm

theorem seqLoop_setsOnly (flag : String) (f : Nat) (e : Env) : ∀ (cs : List Node) (w : Store) (done : List Node)
    (r : Option (Node × List Node)) (w' : Store) (tr : List Ev), (∀ c ∈ cs, SetsOnly flag c) →
    seqLoop (tickF f e) w cs = .ok (done, r, w', tr) → StoreStep flag w w'
| [], w, done, r, w', tr, _, h => by
    simp only [seqLoop, pure, Except.pure, Except.ok.injEq, Prod.mk.injEq] at h
    left; exact h.2.2.1.symm
| c :: cs, w, done, r, w', tr, hc, h => by
    simp only [seqLoop, bind, Except.bind] at h
    cases htc : tickF f e w c with
    | error err => simp [htc] at h
    | ok v =>
      obtain ⟨c1, w1, tr1⟩ := v
      simp only [htc] at h
      have h1 := setsOnly_tick flag f e w c c1 w1 tr1 (hc c (by simp)) htc
      split at h
      · simp only [pure, Except.pure, Except.ok.injEq, Prod.mk.injEq] at h
        obtain ⟨_, _, rfl, _⟩ := h
        exact h1
      · cases hl : seqLoop (tickF f e) w1 cs with
        | error err => simp [hl] at h
        | ok v =>
          obtain ⟨d2, r2, w2, tr2⟩ := v
          simp only [hl, pure, Except.pure, Except.ok.injEq, Prod.mk.injEq] at h
          obtain ⟨_, _, rfl, _⟩ := h
          exact h1.trans (seqLoop_setsOnly flag f e cs w1 d2 r2 w2 tr2 (fun c hc' => hc c (by simp [hc'])) hl)

/-- whatever its state, a worker `Sequence* [task, set flag]` over a blackboard-free task leaves the store alone or
    sets the flag -/
theorem worker_store_any (flag : String) (wid setid : Nat) (task : Node) (hnb : noBB task = true) (W : Node)
    (hW : skel W = .seq wid true [skel task, .leaf setid (.setVar flag [] (.bool true) true)])
    (f : Nat) (e : Env) (w : Store) (W' : Node) (w' : Store) (tr : List Ev)
    (h : tickF f e w W = .ok (W', w', tr)) : StoreStep flag w w' := by
  obtain ⟨wst, wcur, cs, rfl, hcs⟩ := skel_eq_seq hW
  cases f with
  | zero => simp [tickF] at h
  | succ f =>
    simp only [tickF, bind, Except.bind] at h
    cases hen : seqEntry wst true wcur cs with
    | error err => simp [hen] at h
    | ok v =>
      obtain ⟨before, rest, trR⟩ := v
      simp only [hen] at h
      split at h
      · simp only [pure, Except.pure, Except.ok.injEq, Prod.mk.injEq] at h
        left; exact h.2.1.symm
      · have hs := seqEntry_skelL wst true wcur cs before rest trR hen
        have hrest : ∀ c ∈ rest, SetsOnly flag c := by
          intro c hc
          have hm : skel c ∈ skelL (before ++ rest) := by
            rw [skelL_eq_map]; exact List.mem_map.mpr ⟨c, by simp [hc], rfl⟩
          rw [hs, hcs] at hm
          simp only [List.mem_cons, List.not_mem_nil, or_false] at hm
          rcases hm with hm | hm
          · left; rw [noBB_of_skel hm]; exact hnb
          · right
            obtain ⟨s, k, l, rfl, hk⟩ := skel_eq_leaf hm
            obtain rfl := shape_eq_setVar hk
            exact ⟨_, _, _, rfl⟩
        simp only [seqRun, bind, Except.bind] at h
        cases hl : seqLoop (tickF f e) w rest with
        | error err => simp [hl] at h
        | ok v =>
          obtain ⟨done, r, w1, trl⟩ := v
          simp only [hl] at h
          have hss := seqLoop_setsOnly flag f e rest w done r w1 trl hrest hl
          cases r with
          | none =>
            simp only [pure, Except.pure, Except.ok.injEq, Prod.mk.injEq] at h
            obtain ⟨_, rfl, _⟩ := h
            exact hss
          | some p =>
            obtain ⟨c', untouched⟩ := p
            simp only [pure, Except.pure, Except.ok.injEq, Prod.mk.injEq] at h
            obtain ⟨_, rfl, _⟩ := h
            exact hss

/-! ### the worker in a sane state -/

theorem tickF_seq2 (f : Nat) (e : Env) (w : Store) (i : Nat) (st : Status) (cur : Option Nat) (a b : Node) :
    tickF (f + 1) e w (seq i true st cur [a, b]) =
      (match seqEntry st true cur [a, b] with
       | .error err => .error err
       | .ok (before, rest, trR) => seqRun (tickF f e) w i true before rest trR) := by
  simp only [tickF, bind, Except.bind]
  cases seqEntry st true cur [a, b] with
  | error err => rfl
  | ok v => obtain ⟨x, y, z⟩ := v; simp

theorem tickF_sel2 (f : Nat) (e : Env) (w : Store) (i : Nat) (st : Status) (cur : Option Nat) (G W : Node) :
    tickF (f + 1) e w (sel i false st cur [G, W]) =
      selRun (tickF f e) w i false (if st ≠ .running then some G.id else cur) [] [G, W] [] := by
  simp [tickF, selEntry, bind, Except.bind, pure, Except.pure]

theorem worker_run_inv (f : Nat) (e : Env) (w : Store) (wid : Nat) (t0 : Node) (setid : Nat) (ss : Status)
    (sl : List LEv) (flag : String) (trR : List Ev) (W' : Node) (w' : Store) (tr : List Ev) (hnb : noBB t0 = true)
    (h : seqRun (tickF f e) w wid true [] [t0, leaf setid ss (.setVar flag [] (.bool true) true) sl] trR =
      .ok (W', w', tr)) :
    ∃ t' trt wcur' S', tickF f e w t0 = .ok (t', w, trt) ∧ (∀ ev ∈ trt, ev ∈ tr) ∧
      W' = seq wid true t'.status wcur' [t', S'] ∧ (t'.status ≠ .success → wcur' = some t'.id) ∧
      w' = (if t'.status = .success then w.set flag (.bool true) else w) := by
  simp only [seqRun, seqLoop, bind, Except.bind] at h
  cases ht : tickF f e w t0 with
  | error err => simp [ht] at h
  | ok v =>
    obtain ⟨t', w1, trt⟩ := v
    obtain rfl := tickF_noBB_store e f w t0 t' w1 trt hnb ht
    simp only [ht] at h
    by_cases hs : t'.status = .success
    · simp only [hs, ne_eq, not_true_eq_false, ↓reduceIte] at h
      cases f with
      | zero => simp [tickF] at ht
      | succ f' =>
        obtain ⟨l', trs, hset⟩ := C18.set_tick e w1 setid ss sl flag
        simp only [C18.puSet] at hset
        simp only [tickF, hset] at h
        simp only [Node.status, ne_eq, not_true_eq_false, ↓reduceIte, seqLoop, pure, Except.pure, Except.ok.injEq,
          Prod.mk.injEq] at h
        obtain ⟨rfl, rfl, rfl⟩ := h
        refine ⟨t', trt, lastId? [t', leaf setid .success (.setVar flag [] (.bool true) true) l'],
          leaf setid .success (.setVar flag [] (.bool true) true) l', rfl, ?_, ?_, ?_, ?_⟩
        · intro ev hev; simp [hev]
        · simp [hs]
        · intro hne; exact absurd hs hne
        · simp [hs]
    · simp only [hs, ne_eq, not_false_eq_true, ↓reduceIte, pure, Except.pure, Except.ok.injEq, Prod.mk.injEq] at h
      obtain ⟨rfl, rfl, rfl⟩ := h
      refine ⟨t', trt, some t'.id, leaf setid ss (.setVar flag [] (.bool true) true) sl, rfl, ?_, ?_, ?_, ?_⟩
      · intro ev hev; simp [hev]
      · simp
      · intro _; rfl
      · simp [hs]

/-- a tick of the worker `Sequence* [task, set flag]` in a sane state ticks the task (after the entry reset when the
    worker was not RUNNING), mirrors its status and sets the flag iff the task returned SUCCESS -/
theorem worker_tick (f : Nat) (e : Env) (w : Store) (wid : Nat) (wst : Status) (wcur : Option Nat) (t : Node)
    (setid : Nat) (ss : Status) (sl : List LEv) (flag : String) (W' : Node) (w' : Store) (tr : List Ev)
    (hok : wst = .running → wcur = some t.id) (hnb : noBB t = true)
    (h : tickF f e w (seq wid true wst wcur [t, leaf setid ss (.setVar flag [] (.bool true) true) sl]) =
      .ok (W', w', tr)) :
    ∃ f' t0 t' trt wcur' S', skel t0 = skel t ∧ tickF f' e w t0 = .ok (t', w, trt) ∧ (∀ ev ∈ trt, ev ∈ tr) ∧
      W' = seq wid true t'.status wcur' [t', S'] ∧ (t'.status ≠ .success → wcur' = some t.id) ∧
      w' = (if t'.status = .success then w.set flag (.bool true) else w) := by
  obtain ⟨f1, rfl⟩ : ∃ f1, f = f1 + 1 := by
    cases f with
    | zero => simp [tickF] at h
    | succ f1 => exact ⟨f1, rfl⟩
  rw [tickF_seq2] at h
  have fin : ∀ (t0 : Node) (ss' : Status) (sl' : List LEv) (trR : List Ev), skel t0 = skel t →
      seqRun (tickF f1 e) w wid true [] [t0, leaf setid ss' (.setVar flag [] (.bool true) true) sl'] trR =
        .ok (W', w', tr) →
      ∃ f' t0 t' trt wcur' S', skel t0 = skel t ∧ tickF f' e w t0 = .ok (t', w, trt) ∧ (∀ ev ∈ trt, ev ∈ tr) ∧
        W' = seq wid true t'.status wcur' [t', S'] ∧ (t'.status ≠ .success → wcur' = some t.id) ∧
        w' = (if t'.status = .success then w.set flag (.bool true) else w) := by
    intro t0 ss' sl' trR hsk hrun
    have hnb0 : noBB t0 = true := by rw [noBB_of_skel hsk]; exact hnb
    obtain ⟨t', trt, wcur', S', h1, h2, h3, h4, h5⟩ :=
      worker_run_inv f1 e w wid t0 setid ss' sl' flag trR W' w' tr hnb0 hrun
    have hid : t'.id = t.id := by
      rw [id_of_skel (tickF_skel e f1 w t0 t' w trt h1), id_of_skel hsk]
    exact ⟨f1, t0, t', trt, wcur', S', hsk, h1, h2, h3, fun hne => by rw [h4 hne, hid], h5⟩
  by_cases hst : wst = .running
  · have hc := hok hst
    subst hst; subst hc
    simp only [seqEntry, splitAtId, ne_eq, not_true_eq_false, ↓reduceIte, pure, Except.pure] at h
    exact fin t ss sl [] rfl h
  · have hsplit : ∃ ss' sl', (stopInvNonInvalid [t, leaf setid ss (.setVar flag [] (.bool true) true) sl]).1 =
        [if ¬ t.status = .invalid then (stopInv t).1 else t, leaf setid ss' (.setVar flag [] (.bool true) true) sl'] := by
      have hls : ∀ x, (leaf setid x (.setVar flag [] (.bool true) true) sl).status = x := fun _ => rfl
      by_cases h1 : t.status = .invalid <;> by_cases h2 : ss = .invalid <;>
        simp [stopInvNonInvalid, stopInv, hls, h1, h2]
    obtain ⟨ss', sl', hsp⟩ := hsplit
    simp only [seqEntry, ne_eq, hst, not_false_eq_true, ↓reduceIte, pure, Except.pure, hsp] at h
    refine fin _ ss' sl' _ ?_ h
    split
    · exact stopInv_skel t
    · rfl

/-! ### the guarded selector -/

theorem selRun_slot (T : Tick) (w : Store) (sid : Nat) (cur0 : Option Nat) (G G' W : Node) (trg : List Ev)
    (n' : Node) (w' : Store) (tr : List Ev) (hG : T w G = .ok (G', w, trg))
    (h : selRun T w sid false cur0 [] [G, W] [] = .ok (n', w', tr)) :
    (G'.status = .success → w' = w ∧ (∃ cur' tl, n' = sel sid false .success cur' [G', tl] ∧
        (tl = W ∨ tl = (stopInv W).1)) ∧ (∀ j, Ev.enter j ∈ tr → j = sid ∨ Ev.enter j ∈ trg)) ∧
    (G'.status = .failure → ∃ W' trw, T w W = .ok (W', w', trw) ∧ ∃ st' cur', n' = sel sid false st' cur' [G', W'] ∧
        (st' = .success ↔ W'.status = .success) ∧ (st' = .running ↔ W'.status = .running) ∧
        (∀ ev ∈ trw, ev ∈ tr)) := by
  simp only [selRun, selLoop, hG, bind, Except.bind] at h
  constructor
  · intro hs
    simp only [hs, or_true, ↓reduceIte, pure, Except.pure] at h
    have hT : ((if cur0 = some G'.id then ([W], ([] : List Ev)) else stopInvNonInvalid [W]).1 = [W] ∨
        (if cur0 = some G'.id then ([W], ([] : List Ev)) else stopInvNonInvalid [W]).1 = [(stopInv W).1]) ∧
        NoEnter (if cur0 = some G'.id then ([W], ([] : List Ev)) else stopInvNonInvalid [W]).2 := by
      split
      · exact ⟨Or.inl rfl, NoEnter.nil⟩
      · refine ⟨?_, stopInvNonInvalid_noEnter [W]⟩
        simp only [stopInvNonInvalid]
        split
        · right; rfl
        · left; rfl
    generalize (if cur0 = some G'.id then ([W], ([] : List Ev)) else stopInvNonInvalid [W]) = T0 at h hT
    simp only [Except.ok.injEq, Prod.mk.injEq] at h
    obtain ⟨rfl, rfl, rfl⟩ := h
    refine ⟨rfl, ?_, ?_⟩
    · rcases hT.1 with h1 | h1
      · exact ⟨some G'.id, W, by simp [h1], Or.inl rfl⟩
      · exact ⟨some G'.id, (stopInv W).1, by simp [h1], Or.inr rfl⟩
    · intro j hj
      simp only [List.mem_append, List.mem_cons, Ev.enter.injEq, reduceCtorEq, or_false, List.not_mem_nil] at hj
      rcases hj with (hj | hj) | hj
      · exact Or.inl hj
      · exact Or.inr hj
      · exact (hT.2 j hj).elim
  · intro hs
    simp only [hs, reduceCtorEq, or_self, ↓reduceIte] at h
    cases hW : T w W with
    | error err => simp [hW] at h
    | ok v =>
      obtain ⟨W', w1, trw⟩ := v
      simp only [hW] at h
      by_cases h1 : W'.status = .running ∨ W'.status = .success
      · simp only [h1, ↓reduceIte, pure, Except.pure, Except.ok.injEq, Prod.mk.injEq] at h
        obtain ⟨rfl, rfl, rfl⟩ := h
        refine ⟨W', trw, rfl, W'.status, some W'.id, ?_, Iff.rfl, Iff.rfl, ?_⟩
        · split <;> simp [stopInvNonInvalid]
        · intro ev hev; simp [hev]
      · simp only [h1, ↓reduceIte, pure, Except.pure, Except.ok.injEq, Prod.mk.injEq] at h
        obtain ⟨rfl, rfl, rfl⟩ := h
        simp only [not_or] at h1
        refine ⟨W', trw, rfl, .failure, lastId? [G', W'], by simp, ?_, ?_, ?_⟩
        · constructor
          · intro hx; cases hx
          · intro hx; exact absurd hx h1.2
        · constructor
          · intro hx; cases hx
          · intro hx; exact absurd hx h1.1
        · intro ev hev; simp [hev]

end C18b

namespace C18b

/-- the trace of a tick contains the `enter` event of the ticked behaviour -/
theorem tickF_enter_self (e : Env) (f : Nat) (w : Store) (n n' : Node) (w' : Store) (tr : List Ev)
    (h : tickF f e w n = .ok (n', w', tr)) : Ev.enter n.id ∈ tr := by
  cases f with
  | zero => simp [tickF] at h
  | succ f =>
    cases n with
    | leaf i st k log =>
      simp only [tickF, leafTick, bind, Except.bind] at h
      generalize (if st ≠ .running then leafInit e k else k) = k0 at h
      cases hu : leafUpdate i e w k0 with
      | error err => simp [hu] at h
      | ok v =>
        obtain ⟨k1, o, w1⟩ := v
        simp only [hu, pure, Except.pure, Except.ok.injEq, Prod.mk.injEq] at h
        obtain ⟨_, _, rfl⟩ := h
        simp [Node.id]
    | seq i m st cur cs =>
      simp only [tickF, bind, Except.bind] at h
      cases hen : seqEntry st m cur cs with
      | error err => simp [hen] at h
      | ok v =>
        obtain ⟨before, rest, trR⟩ := v
        simp only [hen] at h
        split at h
        · simp only [pure, Except.pure, Except.ok.injEq, Prod.mk.injEq] at h
          obtain ⟨_, _, rfl⟩ := h
          simp [Node.id]
        · simp only [seqRun, bind, Except.bind] at h
          cases hl : seqLoop (tickF f e) w rest with
          | error err => simp [hl] at h
          | ok v =>
            obtain ⟨done, r, w1, trl⟩ := v
            simp only [hl] at h
            cases r with
            | none =>
              simp only [pure, Except.pure, Except.ok.injEq, Prod.mk.injEq] at h
              obtain ⟨_, _, rfl⟩ := h
              simp [Node.id]
            | some p =>
              obtain ⟨c', u⟩ := p
              simp only [pure, Except.pure, Except.ok.injEq, Prod.mk.injEq] at h
              obtain ⟨_, _, rfl⟩ := h
              simp [Node.id]
    | sel i m st cur cs =>
      simp only [tickF, bind, Except.bind] at h
      split at h
      · simp only [pure, Except.pure, Except.ok.injEq, Prod.mk.injEq] at h
        obtain ⟨_, _, rfl⟩ := h
        simp [Node.id]
      · cases hen : selEntry st m cur cs with
        | error err => simp [hen] at h
        | ok v =>
          obtain ⟨cur0, before, rest, trP⟩ := v
          simp only [hen, selRun, bind, Except.bind] at h
          cases hl : selLoop (tickF f e) w rest with
          | error err => simp [hl] at h
          | ok v =>
            obtain ⟨done, r, w1, trl⟩ := v
            simp only [hl] at h
            cases r with
            | none =>
              simp only [pure, Except.pure, Except.ok.injEq, Prod.mk.injEq] at h
              obtain ⟨_, _, rfl⟩ := h
              simp [Node.id]
            | some p =>
              obtain ⟨c', u⟩ := p
              simp only [pure, Except.pure, Except.ok.injEq, Prod.mk.injEq] at h
              obtain ⟨_, _, rfl⟩ := h
              simp [Node.id]
    | par i p st cur cs =>
      simp only [tickF, bind, Except.bind] at h
      split at h
      · simp [throw, throwThe, MonadExceptOf.throw] at h
      · generalize (if st ≠ .running then stopInvNonInvalid cs else (cs, [])) = r0 at h
        simp only [pure, Except.pure] at h
        split at h
        · simp only [Except.ok.injEq, Prod.mk.injEq] at h
          obtain ⟨_, _, rfl⟩ := h
          simp [Node.id]
        · simp only [parRun, bind, Except.bind] at h
          cases hl : parLoop (tickF f e) p.sync w r0.1 with
          | error err => simp [hl] at h
          | ok v =>
            obtain ⟨cs1, w1, trl⟩ := v
            simp only [hl] at h
            split at h
            · simp only [pure, Except.pure, Except.ok.injEq, Prod.mk.injEq] at h
              obtain ⟨_, _, rfl⟩ := h
              simp [Node.id]
            · simp only [pure, Except.pure, Except.ok.injEq, Prod.mk.injEq] at h
              obtain ⟨_, _, rfl⟩ := h
              simp [Node.id]
    | dec i k st c =>
      have hrun : ∀ k', decRun (tickF f e) e w i k' st c = .ok (n', w', tr) → Ev.enter i ∈ tr := by
        intro k' h
        simp only [decRun, bind, Except.bind] at h
        cases htc : tickF f e w c with
        | error err => simp [htc] at h
        | ok v =>
          obtain ⟨c1, w1, trc⟩ := v
          simp only [htc] at h
          generalize (if st ≠ .running then decInit e k' else k') = k0 at h
          cases hp : decPublish k0 c1.status w1 with
          | error err => simp [hp] at h
          | ok w2 =>
            simp only [hp] at h
            split at h
            · simp only [pure, Except.pure, Except.ok.injEq, Prod.mk.injEq] at h
              obtain ⟨_, _, rfl⟩ := h
              simp
            · simp only [pure, Except.pure, Except.ok.injEq, Prod.mk.injEq] at h
              obtain ⟨_, _, rfl⟩ := h
              simp
      have hb : ∀ k' s, decBounce w i k' s c = .ok (n', w', tr) → Ev.enter i ∈ tr := by
        intro k' s h
        simp only [decBounce, pure, Except.pure, Except.ok.injEq, Prod.mk.injEq] at h
        obtain ⟨_, _, rfl⟩ := h
        simp
      simp only [tickF] at h
      simp only [Node.id]
      split at h
      · split at h
        · exact hrun _ h
        · exact hb _ _ h
      · exact hb _ _ h
      · exact hrun _ h

/-- **one slot, one tick** (explicit form) -/
theorem slot_tick (sl : Slot) (sst : Status) (scur : Option Nat) (gst : Status) (glog : List LEv) (wst : Status)
    (wcur : Option Nat) (t : Node) (setst : Status) (setlog : List LEv) (ht : skel t = skel sl.task)
    (hnb : noBB sl.task = true) (f : Nat) (e : Env) (w : Store) (n' : Node) (w' : Store) (tr : List Ev)
    (h : tickF f e w (slotNode sl sst scur gst glog wst wcur t setst setlog) = .ok (n', w', tr)) :
    (flagOn w sl.flag → n'.status = .success ∧ w' = w ∧ (∀ j, Ev.enter j ∈ tr → j = sl.sid ∨ j = sl.gid) ∧
        ((wst = .running → wcur = some t.id) → slotOK n' = true)) ∧
    (¬ flagOn w sl.flag → (wst = .running → wcur = some t.id) →
        ∃ f' t0 t' trt, skel t0 = skel sl.task ∧ tickF f' e w t0 = .ok (t', w, trt) ∧ (∀ ev ∈ trt, ev ∈ tr) ∧
          (n'.status = .success ↔ t'.status = .success) ∧ (n'.status = .running ↔ t'.status = .running) ∧
          w' = (if t'.status = .success then w.set sl.flag (.bool true) else w) ∧ slotOK n' = true) ∧
    StoreStep sl.flag w w' := by
  obtain ⟨f2, rfl⟩ : ∃ f2, f = f2 + 2 := by
    cases f with
    | zero => simp [tickF] at h
    | succ f =>
      cases f with
      | zero => simp [slotNode, tickF, selEntry, selRun, selLoop, bind, Except.bind, pure, Except.pure] at h
      | succ f2 => exact ⟨f2, rfl⟩
  unfold slotNode at h
  rw [show f2 + 2 = (f2 + 1) + 1 from rfl, tickF_sel2] at h
  obtain ⟨o, l', trg, hgt, hiff, hor⟩ := guard_tick e w sl.gid gst glog sl.flag
  have hG : tickF (f2 + 1) e w
      (leaf sl.gid gst (.checkValue { key := sl.flag, path := [], op := .eq, value := .bool true }) glog) =
      .ok (leaf sl.gid o (.checkValue { key := sl.flag, path := [], op := .eq, value := .bool true }) l', w, trg) := by
    simp only [tickF]; exact hgt
  have hGe := leafTick_enters e w sl.gid gst _ glog _ w trg hgt
  obtain ⟨ha, hb⟩ := selRun_slot (tickF (f2 + 1) e) w sl.sid _ _ _ _ trg n' w' tr hG h
  have hnbt : noBB t = true := by rw [noBB_of_skel ht]; exact hnb
  by_cases hon : flagOn w sl.flag
  · have hos : o = .success := hiff.mpr hon
    obtain ⟨rfl, ⟨cur', tl, rfl, htl⟩, hent⟩ := ha (by simp [Node.status, hos])
    refine ⟨fun _ => ⟨rfl, rfl, ?_, ?_⟩, fun hoff => absurd hon hoff, Or.inl rfl⟩
    · intro j hj
      rcases hent j hj with h1 | h1
      · exact Or.inl h1
      · right; simpa using hGe j h1
    · intro hok
      rcases htl with rfl | rfl
      · exact (slotOK_slotNode sl .success cur' o l' wst wcur t setst setlog).mpr hok
      · simp only [slotOK]; exact workerOK_stopInv _
  · have hof : o = .failure := by
      rcases hor with h1 | h1
      · exact absurd (hiff.mp h1) hon
      · exact h1
    obtain ⟨W', trw, hW, st', cur', rfl, hs1, hs2, htr⟩ := hb (by simp [Node.status, hof])
    have hstep := worker_store_any sl.flag sl.wid sl.setid sl.task hnb _
      (by simp [skel, LeafKind.shape, ht]) (f2 + 1) e w W' w' trw hW
    refine ⟨fun h1 => absurd h1 hon, ?_, hstep⟩
    intro _ hok
    obtain ⟨f', t0, t', trt, wcur', S', hsk, htt, hsub, rfl, hcur, rfl⟩ :=
      worker_tick (f2 + 1) e w sl.wid wst wcur t sl.setid setst setlog sl.flag W' w' trw hok hnbt hW
    have hid : t'.id = t.id := by
      rw [id_of_skel (tickF_skel e f' w t0 t' w trt htt), id_of_skel hsk]
    refine ⟨f', t0, t', trt, hsk.trans ht, htt, fun ev hev => htr ev (hsub ev hev), ?_, ?_, rfl, ?_⟩
    · simpa [Node.status] using hs1
    · simpa [Node.status] using hs2
    · simp only [slotOK, workerOK, Bool.or_eq_true, bne_iff_ne, ne_eq, beq_iff_eq]
      by_cases hr : t'.status = .running
      · right; rw [hid]; exact hcur (by rw [hr]; simp)
      · left; exact hr

end C18b

/-- **2. one slot, one tick**, for a slot node in ANY runtime state and any fuel.
    The slot keeps its shape; only its own flag can change, and it can only become `True`.
    (a) flag set (`flagOn`: holds `True`, or the integer 1 that Python's `==` identifies with `True`): the slot returns
        SUCCESS after ticking only its guard — the store is untouched and the task is not entered.
    (b) flag not set, worker in a sane state (`slotOK`: a RUNNING worker remembers the task — true in every reachable
        state and preserved, last-but-one clause): the task is ticked (from `t0`: the task subtree as it was, or reset when
        the worker is entered afresh), its trace is part of the slot's trace, the slot returns SUCCESS / RUNNING iff the
        task did, and the flag is `True` afterwards iff the task returned SUCCESS. -/
theorem C18_slot_tick (sl : C18b.Slot) (n : Node) (hs : C18b.IsSlot sl n) (hnb : C18b.noBB sl.task = true)
    (f : Nat) (e : Env) (w : Store) (n' : Node) (w' : Store) (tr : List Ev) (h : tickF f e w n = .ok (n', w', tr)) :
    C18b.IsSlot sl n' ∧
    (C18b.flagOn w sl.flag → n'.status = .success ∧ w' = w ∧ (∀ j, Ev.enter j ∈ tr → j = sl.sid ∨ j = sl.gid) ∧
      (sl.task.id ≠ sl.sid → sl.task.id ≠ sl.gid → ∀ ev ∈ tr, ev ≠ .enter sl.task.id)) ∧
    (w sl.flag ≠ some (.bool true) → w sl.flag ≠ some (.int 1) → C18b.slotOK n = true →
      ∃ f' t0 t' trt, skel t0 = skel sl.task ∧ tickF f' e w t0 = .ok (t', w, trt) ∧ (∀ ev ∈ trt, ev ∈ tr) ∧
        Ev.enter sl.task.id ∈ tr ∧
        (n'.status = .success ↔ t'.status = .success) ∧ (n'.status = .running ↔ t'.status = .running) ∧
        (w' sl.flag = some (.bool true) ↔ t'.status = .success) ∧
        w' = (if t'.status = .success then w.set sl.flag (.bool true) else w)) ∧
    (∀ k, k ≠ sl.flag → w' k = w k) ∧ (w' sl.flag = w sl.flag ∨ w' sl.flag = some (.bool true)) ∧
    (C18b.slotOK n = true → C18b.slotOK n' = true) ∧
    (C18b.slotOK n = true → n'.status = .success → C18b.flagOn w' sl.flag) := by
  have hshape : C18b.IsSlot sl n' := C18b.isSlot_of_skel hs (tickF_skel e f w n n' w' tr h)
  obtain ⟨sst, scur, gst, glog, wst, wcur, t, setst, setlog, rfl, ht⟩ := hs
  obtain ⟨ha, hb, hstep⟩ := C18b.slot_tick sl sst scur gst glog wst wcur t setst setlog ht hnb f e w n' w' tr h
  have hid : t.id = sl.task.id := id_of_skel ht
  refine ⟨hshape, ?_, ?_, fun k hk => hstep.other k hk, ?_, ?_, ?_⟩
  · intro hon
    obtain ⟨h1, h2, h3, _⟩ := ha hon
    refine ⟨h1, h2, h3, ?_⟩
    intro hn1 hn2 ev hev heq
    subst heq
    rcases h3 _ hev with h4 | h4
    · exact hn1 h4
    · exact hn2 h4
  · intro hf1 hf2 hok
    have hoff : ¬ C18b.flagOn w sl.flag := by
      intro hx; rcases hx with hx | hx
      · exact hf1 hx
      · exact hf2 hx
    obtain ⟨f', t0, t', trt, hsk, htt, hsub, hs1, hs2, hw', _⟩ :=
      hb hoff ((C18b.slotOK_slotNode sl sst scur gst glog wst wcur t setst setlog).mp hok)
    refine ⟨f', t0, t', trt, hsk, htt, hsub, ?_, hs1, hs2, ?_, hw'⟩
    · have := C18b.tickF_enter_self e f' w t0 t' w trt htt
      rw [id_of_skel hsk] at this
      exact hsub _ this
    · subst hw'
      by_cases hts : t'.status = .success
      · simp [hts, Store.set]
      · simp [hts, hf1]
  · rcases hstep.cases_key sl.flag with h1 | ⟨_, h1⟩
    · exact Or.inl h1
    · exact Or.inr h1
  · intro hok
    have hok' := (C18b.slotOK_slotNode sl sst scur gst glog wst wcur t setst setlog).mp hok
    by_cases hon : C18b.flagOn w sl.flag
    · exact (ha hon).2.2.2 hok'
    · obtain ⟨_, _, _, _, _, _, _, _, _, _, h7⟩ := hb hon hok'
      exact h7
  · intro hok hsucc
    have hok' := (C18b.slotOK_slotNode sl sst scur gst glog wst wcur t setst setlog).mp hok
    by_cases hon : C18b.flagOn w sl.flag
    · exact hstep.flagOn _ hon
    · obtain ⟨f', t0, t', trt, _, _, _, hs1, _, hw', _⟩ := hb hon hok'
      subst hw'
      rw [if_pos (hs1.mp hsucc)]
      exact C18b.flagOn_set_self w sl.flag

/-- (a) in the literal form of the task, with the flag holding `True` -/
theorem C18_slot_tick_done (sl : C18b.Slot) (n : Node) (hs : C18b.IsSlot sl n) (hnb : C18b.noBB sl.task = true)
    (hid1 : sl.task.id ≠ sl.sid) (hid2 : sl.task.id ≠ sl.gid)
    (f : Nat) (e : Env) (w : Store) (n' : Node) (w' : Store) (tr : List Ev) (hw : w sl.flag = some (.bool true))
    (h : tickF (f + 3) e w n = .ok (n', w', tr)) :
    n'.status = .success ∧ w' = w ∧ (∀ ev ∈ tr, ev ≠ .enter sl.task.id) := by
  obtain ⟨_, ha, _⟩ := C18_slot_tick sl n hs hnb (f + 3) e w n' w' tr h
  obtain ⟨h1, h2, _, h4⟩ := ha (Or.inl hw)
  exact ⟨h1, h2, h4 hid1 hid2⟩

namespace C18b

/-! ## 3. the root sequence: loops over the slots and over the clearing leaves -/

/-- one step of the Sequence loop -/
theorem seqLoop_cons_inv (T : Tick) (w : Store) (c : Node) (cs done : List Node) (r : Option (Node × List Node))
    (w' : Store) (tr : List Ev) (h : seqLoop T w (c :: cs) = .ok (done, r, w', tr)) :
    ∃ c1 w1 tr1, T w c = .ok (c1, w1, tr1) ∧
      ((c1.status ≠ .success ∧ done = [] ∧ r = some (c1, cs) ∧ w' = w1 ∧ tr = tr1) ∨
       (c1.status = .success ∧ ∃ d2 tr2, seqLoop T w1 cs = .ok (d2, r, w', tr2) ∧ done = c1 :: d2 ∧ tr = tr1 ++ tr2)) := by
  simp only [seqLoop, bind, Except.bind] at h
  cases htc : T w c with
  | error err => simp [htc] at h
  | ok v =>
    obtain ⟨c1, w1, tr1⟩ := v
    simp only [htc] at h
    refine ⟨c1, w1, tr1, rfl, ?_⟩
    by_cases hs : c1.status = .success
    · right
      simp only [hs, ne_eq, not_true_eq_false, ↓reduceIte] at h
      cases hl : seqLoop T w1 cs with
      | error err => simp [hl] at h
      | ok v =>
        obtain ⟨d2, r2, w2, tr2⟩ := v
        simp only [hl, pure, Except.pure, Except.ok.injEq, Prod.mk.injEq] at h
        obtain ⟨rfl, rfl, rfl, rfl⟩ := h
        exact ⟨hs, d2, tr2, rfl, rfl, rfl⟩
    · left
      simp only [hs, ne_eq, not_false_eq_true, ↓reduceIte, pure, Except.pure, Except.ok.injEq, Prod.mk.injEq] at h
      obtain ⟨rfl, rfl, rfl, rfl⟩ := h
      exact ⟨hs, rfl, rfl, rfl, rfl⟩

/-- the clearing leaves: every one is ticked, succeeds and removes its flag -/
theorem clearsLoop (f : Nat) (e : Env) : ∀ (ps : List (String × Nat)) (ns : List Node) (w : Store) (done : List Node)
    (r : Option (Node × List Node)) (w' : Store) (tr : List Ev), AllRel IsClear ps ns →
    seqLoop (tickF f e) w ns = .ok (done, r, w', tr) →
    r = none ∧ (∀ k, w' k = if k ∈ ps.map Prod.fst then none else w k) ∧ Enters (ps.map Prod.snd) tr ∧
      (∀ d ∈ done, d.status = .success)
| [], [], w, done, r, w', tr, _, h => by
    simp only [seqLoop, pure, Except.pure, Except.ok.injEq, Prod.mk.injEq] at h
    obtain ⟨rfl, rfl, rfl, rfl⟩ := h
    exact ⟨rfl, by simp, Enters.nil _, by simp⟩
| [], n :: ns, w, done, r, w', tr, hr, h => by simp [AllRel] at hr
| p :: ps, [], w, done, r, w', tr, hr, h => by simp [AllRel] at hr
| p :: ps, n :: ns, w, done, r, w', tr, hr, h => by
    simp only [AllRel] at hr
    obtain ⟨⟨st, log, rfl⟩, hr2⟩ := hr
    obtain ⟨c1, w1, tr1, htc, hcase⟩ := seqLoop_cons_inv _ _ _ _ _ _ _ _ h
    cases f with
    | zero => simp [tickF] at htc
    | succ f =>
      have hen := tickF_enters e (f + 1) w _ c1 w1 tr1 htc
      simp only [tickF, leafTick, leafInit, ite_self, leafUpdate, bind, Except.bind, pure, Except.pure,
        Except.ok.injEq, Prod.mk.injEq] at htc
      obtain ⟨rfl, rfl, rfl⟩ := htc
      rcases hcase with ⟨hns, _⟩ | ⟨_, d2, tr2, hl, rfl, rfl⟩
      · simp [Node.status] at hns
      · obtain ⟨h1, h2, h3, h4⟩ := clearsLoop (f + 1) e ps ns _ d2 r w' tr2 hr2 hl
        refine ⟨h1, ?_, ?_, ?_⟩
        · intro k
          rw [h2 k]
          by_cases hk : k = p.1
          · subst hk; simp [Store.unset]
          · by_cases hk2 : k ∈ ps.map Prod.fst
            · simp [hk2]
            · simp [hk, hk2, Store.unset]
        · apply Enters.append
          · refine hen.mono ?_
            intro j hj
            simp only [skel, Skel.ids, List.mem_singleton] at hj
            simp [hj]
          · exact h3.mono (by intro j hj; simp [hj])
        · intro d hd
          simp only [List.mem_cons] at hd
          rcases hd with rfl | hd
          · rfl
          · exact h4 d hd

/-- **store effect of the slots loop, in any state**: every key is unchanged or is the flag of one of the slots and now
    holds `True` -/
theorem slotsLoop_store (f : Nat) (e : Env) : ∀ (sls : List Slot) (ns : List Node) (w : Store) (done : List Node)
    (r : Option (Node × List Node)) (w' : Store) (tr : List Ev), AllRel IsSlot sls ns →
    (∀ sl ∈ sls, noBB sl.task = true) → seqLoop (tickF f e) w ns = .ok (done, r, w', tr) →
    ∀ k, w' k = w k ∨ (k ∈ sls.map Slot.flag ∧ w' k = some (.bool true))
| [], [], w, done, r, w', tr, _, _, h => by
    simp only [seqLoop, pure, Except.pure, Except.ok.injEq, Prod.mk.injEq] at h
    obtain ⟨_, _, rfl, _⟩ := h
    intro k; left; rfl
| [], n :: ns, w, done, r, w', tr, hr, _, h => by simp [AllRel] at hr
| sl :: sls, [], w, done, r, w', tr, hr, _, h => by simp [AllRel] at hr
| sl :: sls, n :: ns, w, done, r, w', tr, hr, hnb, h => by
    simp only [AllRel] at hr
    obtain ⟨c1, w1, tr1, htc, hcase⟩ := seqLoop_cons_inv _ _ _ _ _ _ _ _ h
    obtain ⟨_, _, _, hoth, hown, _, _⟩ := C18_slot_tick sl n hr.1 (hnb sl (by simp)) f e w c1 w1 tr1 htc
    have h1 : ∀ k, w1 k = w k ∨ (k ∈ (sl :: sls).map Slot.flag ∧ w1 k = some (.bool true)) := by
      intro k
      by_cases hk : k = sl.flag
      · subst hk
        rcases hown with h2 | h2
        · exact Or.inl h2
        · exact Or.inr ⟨by simp, h2⟩
      · exact Or.inl (hoth k hk)
    rcases hcase with ⟨_, _, _, rfl, _⟩ | ⟨_, d2, tr2, hl, _, _⟩
    · exact h1
    · have h2 := slotsLoop_store f e sls ns w1 d2 r w' tr2 hr.2 (fun x hx => hnb x (by simp [hx])) hl
      intro k
      rcases h2 k with h3 | ⟨h3, h4⟩
      · rw [h3]; exact h1 k
      · exact Or.inr ⟨by simp only [List.map_cons, List.mem_cons]; exact Or.inr h3, h4⟩

theorem slotsLoop_mono (f : Nat) (e : Env) (sls : List Slot) (ns : List Node) (w : Store) (done : List Node)
    (r : Option (Node × List Node)) (w' : Store) (tr : List Ev) (hr : AllRel IsSlot sls ns)
    (hnb : ∀ sl ∈ sls, noBB sl.task = true) (h : seqLoop (tickF f e) w ns = .ok (done, r, w', tr))
    (k : String) (hk : flagOn w k) : flagOn w' k := by
  rcases slotsLoop_store f e sls ns w done r w' tr hr hnb h k with h1 | ⟨_, h1⟩
  · simpa [flagOn, h1] using hk
  · exact Or.inl h1

/-- **no re-run, loop level, in any state**: a behaviour `x` that, whenever it belongs to a slot of the loop, belongs to
    one whose flag is set (and is neither its selector nor its guard) is not entered -/
theorem slotsLoop_norerun (f : Nat) (e : Env) : ∀ (sls : List Slot) (ns : List Node) (w : Store) (done : List Node)
    (r : Option (Node × List Node)) (w' : Store) (tr : List Ev), AllRel IsSlot sls ns →
    (∀ sl ∈ sls, noBB sl.task = true) → seqLoop (tickF f e) w ns = .ok (done, r, w', tr) →
    ∀ x, (∀ sl ∈ sls, x ∈ (slotSkel sl).ids → flagOn w sl.flag ∧ x ≠ sl.sid ∧ x ≠ sl.gid) → Ev.enter x ∉ tr
| [], [], w, done, r, w', tr, _, _, h => by
    simp only [seqLoop, pure, Except.pure, Except.ok.injEq, Prod.mk.injEq] at h
    obtain ⟨_, _, _, rfl⟩ := h
    intro x _ hx; simp at hx
| [], n :: ns, w, done, r, w', tr, hr, _, h => by simp [AllRel] at hr
| sl :: sls, [], w, done, r, w', tr, hr, _, h => by simp [AllRel] at hr
| sl :: sls, n :: ns, w, done, r, w', tr, hr, hnb, h => by
    simp only [AllRel] at hr
    obtain ⟨c1, w1, tr1, htc, hcase⟩ := seqLoop_cons_inv _ _ _ _ _ _ _ _ h
    obtain ⟨_, hon, _, hoth, hown, _, _⟩ := C18_slot_tick sl n hr.1 (hnb sl (by simp)) f e w c1 w1 tr1 htc
    intro x hx
    have hfirst : Ev.enter x ∉ tr1 := by
      intro hmem
      by_cases hin : x ∈ (slotSkel sl).ids
      · obtain ⟨h1, h2, h3⟩ := hx sl (by simp) hin
        rcases (hon h1).2.2.1 x hmem with h4 | h4
        · exact h2 h4
        · exact h3 h4
      · apply hin
        have := tickF_enters e f w n c1 w1 tr1 htc x hmem
        rwa [(isSlot_iff_skel sl n).mp hr.1] at this
    rcases hcase with ⟨_, _, _, _, rfl⟩ | ⟨_, d2, tr2, hl, _, rfl⟩
    · exact hfirst
    · intro hmem
      simp only [List.mem_append] at hmem
      rcases hmem with hmem | hmem
      · exact hfirst hmem
      · refine slotsLoop_norerun f e sls ns w1 d2 r w' tr2 hr.2 (fun y hy => hnb y (by simp [hy])) hl x ?_ hmem
        intro y hy hin
        obtain ⟨h1, h2, h3⟩ := hx y (by simp [hy]) hin
        refine ⟨?_, h2, h3⟩
        by_cases hk : y.flag = sl.flag
        · rcases hown with h4 | h4
          · rw [hk] at h1 ⊢; simpa [flagOn, h4] using h1
          · rw [hk]; exact Or.inl h4
        · simpa [flagOn, hoth y.flag hk] using h1

/-! ### ids -/

theorem idsL_clear : ∀ ps : List (String × Nat), Skel.idsL (ps.map clearSkel) = ps.map Prod.snd
| [] => by simp [Skel.idsL]
| p :: ps => by simp [Skel.idsL, clearSkel, Skel.ids, idsL_clear ps]

theorem mem_idsL_slots : ∀ (sls : List Slot) (x : Nat),
    x ∈ Skel.idsL (sls.map slotSkel) ↔ ∃ sl ∈ sls, x ∈ (slotSkel sl).ids
| [], x => by simp [Skel.idsL]
| s :: sls, x => by simp [Skel.idsL, mem_idsL_slots sls x]

theorem slot_ids_unique : ∀ (sls : List Slot), (Skel.idsL (sls.map slotSkel)).Nodup →
    ∀ a ∈ sls, ∀ b ∈ sls, ∀ x, x ∈ (slotSkel a).ids → x ∈ (slotSkel b).ids → a = b
| [], _, a, ha, _, _, _, _, _ => by simp at ha
| s :: sls, hnd, a, ha, b, hb, x, hxa, hxb => by
    simp only [List.map_cons, Skel.idsL, List.nodup_append] at hnd
    obtain ⟨_, h2, h3⟩ := hnd
    simp only [List.mem_cons] at ha hb
    rcases ha with rfl | ha <;> rcases hb with rfl | hb
    · rfl
    · exact absurd rfl (h3 x hxa x ((mem_idsL_slots sls x).mpr ⟨b, hb, hxb⟩))
    · exact absurd rfl (h3 x hxb x ((mem_idsL_slots sls x).mpr ⟨a, ha, hxa⟩))
    · exact slot_ids_unique sls h2 a ha b hb x hxa hxb

theorem slot_ids_nodup : ∀ (sls : List Slot), (Skel.idsL (sls.map slotSkel)).Nodup →
    ∀ a ∈ sls, (slotSkel a).ids.Nodup
| [], _, a, ha => by simp at ha
| s :: sls, hnd, a, ha => by
    simp only [List.map_cons, Skel.idsL, List.nodup_append] at hnd
    simp only [List.mem_cons] at ha
    rcases ha with rfl | ha
    · exact hnd.1
    · exact slot_ids_nodup sls hnd.2.1 a ha

theorem slotSkel_ids (sl : Slot) :
    (slotSkel sl).ids = sl.sid :: sl.gid :: sl.wid :: ((skel sl.task).ids ++ [sl.setid]) := by
  simp [slotSkel, Skel.ids, Skel.idsL]

theorem task_id_mem_slot (sl : Slot) : sl.task.id ∈ (slotSkel sl).ids := by
  rw [slotSkel_ids]; simp [id_mem_ids sl.task]

theorem task_id_ne (sl : Slot) (h : (slotSkel sl).ids.Nodup) : sl.task.id ≠ sl.sid ∧ sl.task.id ≠ sl.gid := by
  rw [slotSkel_ids] at h
  simp only [List.nodup_cons, List.mem_cons, List.mem_append, List.mem_singleton, not_or] at h
  have hm := id_mem_ids sl.task
  constructor
  · intro heq; rw [heq] at hm; exact h.1.2.2.1 hm
  · intro heq; rw [heq] at hm; exact h.2.1.2.1 hm

/-- side conditions of an instance: blackboard-free tasks, pairwise distinct flags, pairwise distinct ids (root, slot
    nodes, task-internal nodes, clearing leaves), one clearing leaf per slot -/
def PickUpOK (slots : List Slot) (clearIds : List Nat) (rid : Nat) : Prop :=
  (∀ sl ∈ slots, noBB sl.task = true) ∧ (slots.map Slot.flag).Nodup ∧
  (pickUpSkel slots clearIds rid).ids.Nodup ∧ clearIds.length = slots.length

theorem pickUpSkel_ids (slots : List Slot) (clearIds : List Nat) (rid : Nat) :
    (pickUpSkel slots clearIds rid).ids =
      rid :: (Skel.idsL (slots.map slotSkel) ++ (clearPairs slots clearIds).map Prod.snd) := by
  simp [pickUpSkel, Skel.ids, idsL_append, idsL_clear]

theorem PickUpOK.ids {slots : List Slot} {clearIds : List Nat} {rid : Nat} (h : PickUpOK slots clearIds rid) :
    (Skel.idsL (slots.map slotSkel)).Nodup ∧
    (∀ x ∈ Skel.idsL (slots.map slotSkel), x ≠ rid ∧ x ∉ (clearPairs slots clearIds).map Prod.snd) := by
  have h3 := h.2.2.1
  rw [pickUpSkel_ids, List.nodup_cons, List.nodup_append] at h3
  refine ⟨h3.2.1, ?_⟩
  intro x hx
  constructor
  · intro heq; subst heq; exact h3.1 (List.mem_append_left _ hx)
  · intro hc; exact h3.2.2.2 x hx x hc rfl

/-! ### the entry block of the root, in any state -/

theorem seqEntry_noEnter (st : Status) (m : Bool) (cur : Option Nat) (cs before rest : List Node) (trR : List Ev)
    (hen : seqEntry st m cur cs = .ok (before, rest, trR)) : NoEnter trR := by
  unfold seqEntry at hen
  split at hen
  · simp only [pure, Except.pure, Except.ok.injEq, Prod.mk.injEq] at hen
    obtain ⟨_, _, rfl⟩ := hen
    exact stopInvNonInvalid_noEnter cs
  · split at hen
    · split at hen
      · simp only [pure, Except.pure, Except.ok.injEq, Prod.mk.injEq] at hen
        obtain ⟨_, _, rfl⟩ := hen
        exact NoEnter.nil
      · split at hen
        · simp only [pure, Except.pure, Except.ok.injEq, Prod.mk.injEq] at hen
          obtain ⟨_, _, rfl⟩ := hen
          exact NoEnter.nil
        · simp [throw, throwThe, MonadExceptOf.throw] at hen
    · simp only [pure, Except.pure, Except.ok.injEq, Prod.mk.injEq] at hen
      obtain ⟨_, _, rfl⟩ := hen
      exact NoEnter.nil

/-- whatever the state of the root, the children it is about to tick are the slot nodes of a suffix of the slots
    followed by the clearing leaves of a suffix of the (flag, id) pairs -/
theorem entry_any (slots : List Slot) (ps : List (String × Nat)) (before rest cs : List Node)
    (hs : skelL (before ++ rest) = skelL cs) (hcs : skelL cs = slots.map slotSkel ++ ps.map clearSkel) :
    ∃ s1 s2 p1 p2 pre post, slots = s1 ++ s2 ∧ ps = p1 ++ p2 ∧ rest = pre ++ post ∧ AllRel IsSlot s2 pre ∧
      AllRel IsClear p2 post := by
  rw [hcs, skelL_append] at hs
  rcases List.append_eq_append_iff.mp hs with ⟨as, h1, h2⟩ | ⟨bs, h1, h2⟩
  · -- `before` ends inside the slots
    obtain ⟨s1, s2, rfl, hs1, hs2⟩ := List.map_eq_append_iff.mp h1
    subst hs2
    obtain ⟨pre, post, rfl, hpre, hpost⟩ := skelL_eq_append h2
    exact ⟨s1, s2, [], ps, pre, post, rfl, rfl, rfl, (slotsAre_iff _ _).mpr hpre, (clearsAre_iff _ _).mpr hpost⟩
  · -- `before` reaches into the clearing leaves
    obtain ⟨p1, p2, rfl, hp1, hp2⟩ := List.map_eq_append_iff.mp h2
    exact ⟨slots, [], p1, p2, [], rest, by simp, rfl, rfl, by simp [AllRel], (clearsAre_iff _ _).mpr hp2.symm⟩

/-- anatomy of a tick of a memory Sequence with children -/
theorem root_tick_inv (f : Nat) (e : Env) (w : Store) (rid : Nat) (rst : Status) (rcur : Option Nat) (cs : List Node)
    (n' : Node) (w' : Store) (tr : List Ev) (hne : cs ≠ [])
    (h : tickF f e w (seq rid true rst rcur cs) = .ok (n', w', tr)) :
    ∃ f' before rest trR done r trl, f = f' + 1 ∧ seqEntry rst true rcur cs = .ok (before, rest, trR) ∧
      seqLoop (tickF f' e) w rest = .ok (done, r, w', trl) ∧
      (∀ j, Ev.enter j ∈ tr → j = rid ∨ Ev.enter j ∈ trl) ∧ (∀ ev ∈ trl, ev ∈ tr) ∧
      ((r = none ∧ n' = seq rid true .success (lastId? (before ++ done)) (before ++ done)) ∨
       (∃ c' u, r = some (c', u) ∧ n' = seq rid true c'.status (some c'.id) (before ++ done ++ c' :: u))) := by
  cases f with
  | zero => simp [tickF] at h
  | succ f =>
    simp only [tickF, bind, Except.bind] at h
    cases hen : seqEntry rst true rcur cs with
    | error err => simp [hen] at h
    | ok v =>
      obtain ⟨before, rest, trR⟩ := v
      simp only [hen] at h
      have hemp : cs.isEmpty = false := by cases cs <;> simp_all
      simp only [hemp, Bool.false_eq_true, ↓reduceIte, seqRun, bind, Except.bind] at h
      have hRn := seqEntry_noEnter rst true rcur cs before rest trR hen
      cases hl : seqLoop (tickF f e) w rest with
      | error err => simp [hl] at h
      | ok v =>
        obtain ⟨done, r, w1, trl⟩ := v
        simp only [hl] at h
        cases r with
        | none =>
          simp only [pure, Except.pure, Except.ok.injEq, Prod.mk.injEq] at h
          obtain ⟨rfl, rfl, rfl⟩ := h
          refine ⟨f, before, rest, trR, done, none, trl, rfl, rfl, hl, ?_, ?_, Or.inl ⟨rfl, rfl⟩⟩
          · intro j hj
            simp only [List.mem_append, List.mem_cons, Ev.enter.injEq, reduceCtorEq, or_false, List.not_mem_nil] at hj
            rcases hj with (hj | hj) | hj
            · exact Or.inl hj
            · exact (hRn j hj).elim
            · exact Or.inr hj
          · intro ev hev; simp [hev]
        | some p =>
          obtain ⟨c', u⟩ := p
          simp only [↓reduceIte, pure, Except.pure, Except.ok.injEq, Prod.mk.injEq] at h
          obtain ⟨rfl, rfl, rfl⟩ := h
          refine ⟨f, before, rest, trR, done, some (c', u), trl, rfl, rfl, hl, ?_, ?_, Or.inr ⟨c', u, rfl, rfl⟩⟩
          · intro j hj
            simp only [List.mem_append, List.mem_cons, Ev.enter.injEq, reduceCtorEq, or_false, List.not_mem_nil] at hj
            rcases hj with (hj | hj) | hj
            · exact Or.inl hj
            · exact (hRn j hj).elim
            · exact Or.inr hj
          · intro ev hev; simp [hev]

end C18b

namespace C18b

theorem root_tick_empty (f : Nat) (e : Env) (w : Store) (rid : Nat) (rst : Status) (rcur : Option Nat)
    (n' : Node) (w' : Store) (tr : List Ev) (h : tickF f e w (seq rid true rst rcur []) = .ok (n', w', tr)) :
    n'.status = .success ∧ w' = w ∧ ∀ j, Ev.enter j ∈ tr → j = rid := by
  have h2 : w' = w := tickF_noBB_store e f w _ n' w' tr (by simp [noBB_seq, noBBL_nil]) h
  have h3 := tickF_enters e f w _ n' w' tr h
  refine ⟨?_, h2, ?_⟩
  · cases f with
    | zero => simp [tickF] at h
    | succ f =>
      simp only [tickF, bind, Except.bind] at h
      cases hen : seqEntry rst true rcur [] with
      | error err => simp [hen] at h
      | ok v =>
        obtain ⟨before, rest, trR⟩ := v
        simp only [hen, List.isEmpty_nil, ↓reduceIte, pure, Except.pure, Except.ok.injEq, Prod.mk.injEq] at h
        obtain ⟨rfl, _, _⟩ := h
        rfl
  · intro j hj
    simpa [skel, Skel.ids, Skel.idsL] using h3 j hj

/-- the child at which a Sequence loop stops did not return SUCCESS; the ones before it did -/
theorem seqLoop_stopper (T : Tick) : ∀ (cs : List Node) (w : Store) (done : List Node) (c' : Node) (u : List Node)
    (w' : Store) (tr : List Ev), seqLoop T w cs = .ok (done, some (c', u), w', tr) →
    c'.status ≠ .success ∧ (∀ d ∈ done, d.status = .success)
| [], w, done, c', u, w', tr, h => by simp [seqLoop, pure, Except.pure] at h
| c :: cs, w, done, c', u, w', tr, h => by
    obtain ⟨c1, w1, tr1, _, hcase⟩ := seqLoop_cons_inv _ _ _ _ _ _ _ _ h
    rcases hcase with ⟨hns, rfl, hr, _, _⟩ | ⟨hs, d2, tr2, hl2, rfl, _⟩
    · simp only [Option.some.injEq, Prod.mk.injEq] at hr
      rw [hr.1]; exact ⟨hns, by simp⟩
    · obtain ⟨h1, h2⟩ := seqLoop_stopper T cs w1 d2 c' u w' tr2 hl2
      refine ⟨h1, ?_⟩
      intro d hd
      simp only [List.mem_cons] at hd
      rcases hd with rfl | hd
      · exact hs
      · exact h2 d hd

theorem allRel_nil_right {α : Type} (R : α → Node → Prop) : ∀ (as : List α), AllRel R as [] → as = []
| [], _ => rfl
| a :: as, h => by simp [AllRel] at h

/-- what every tick of an instance looks like, in any state: the children ticked are the slot nodes `pre` of a suffix
    `s2` of the slots followed by the clearing leaves `post` of a suffix `p2` of the pairs; the loop either stops inside
    `pre` (the root does not return SUCCESS and `post` is untouched) or completes `pre` and then all of `post` (the root
    returns SUCCESS) -/
theorem pickup_tick_any (slots : List Slot) (clearIds : List Nat) (rid : Nat) (rst : Status) (rcur : Option Nat)
    (sn cn : List Node) (hsn : AllRel IsSlot slots sn) (hcn : AllRel IsClear (clearPairs slots clearIds) cn)
    (hne : sn ++ cn ≠ []) (f : Nat) (e : Env) (w : Store) (n' : Node) (w' : Store) (tr : List Ev)
    (h : tickF f e w (seq rid true rst rcur (sn ++ cn)) = .ok (n', w', tr)) :
    ∃ f' s1 s2 p1 p2 pre post, f = f' + 1 ∧ slots = s1 ++ s2 ∧ clearPairs slots clearIds = p1 ++ p2 ∧
      AllRel IsSlot s2 pre ∧ AllRel IsClear p2 post ∧
      ((∃ done c' u trl, seqLoop (tickF f' e) w pre = .ok (done, some (c', u), w', trl) ∧ n'.status = c'.status ∧
          c'.status ≠ .success ∧ (∀ j, Ev.enter j ∈ tr → j = rid ∨ Ev.enter j ∈ trl)) ∨
       (∃ done1 w1 tr1 done2 tr2, seqLoop (tickF f' e) w pre = .ok (done1, none, w1, tr1) ∧
          seqLoop (tickF f' e) w1 post = .ok (done2, none, w', tr2) ∧ n'.status = .success ∧
          (∀ j, Ev.enter j ∈ tr → j = rid ∨ Ev.enter j ∈ tr1 ∨ Ev.enter j ∈ tr2))) := by
  obtain ⟨f', before, rest, trR, done, r, trl, rfl, hen, hl, hent, _, hn'⟩ :=
    root_tick_inv f e w rid rst rcur (sn ++ cn) n' w' tr hne h
  have hs := seqEntry_skelL rst true rcur (sn ++ cn) before rest trR hen
  have hcs : skelL (sn ++ cn) = slots.map slotSkel ++ (clearPairs slots clearIds).map clearSkel := by
    rw [skelL_append, (slotsAre_iff _ _).mp hsn, (clearsAre_iff _ _).mp hcn]
  obtain ⟨s1, s2, p1, p2, pre, post, hslots, hps, rfl, hpre, hpost⟩ := entry_any slots _ before rest _ hs hcs
  refine ⟨f', s1, s2, p1, p2, pre, post, rfl, hslots, hps, hpre, hpost, ?_⟩
  rcases C18_pickup_clear_after_all_success (tickF f' e) pre post w done r w' trl hl with
    ⟨c', rest', hr, hl1⟩ | ⟨done1, w1, tr1, done2, tr2, hl1, _, _, hl2, _, rfl⟩
  · left
    subst hr
    rcases hn' with ⟨hr, _⟩ | ⟨c'', u, hr, rfl⟩
    · cases hr
    · simp only [Option.some.injEq, Prod.mk.injEq] at hr
      obtain ⟨rfl, rfl⟩ := hr
      have hns := (seqLoop_stopper _ _ _ _ _ _ _ _ hl1).1
      exact ⟨done, c', rest', trl, hl1, rfl, hns, hent⟩
  · right
    obtain ⟨hr, _, _, _⟩ := clearsLoop f' e p2 post w1 done2 r w' tr2 hpost hl2
    subst hr
    rcases hn' with ⟨_, rfl⟩ | ⟨c'', u, hr, _⟩
    · refine ⟨done1, w1, tr1, done2, tr2, hl1, hl2, rfl, ?_⟩
      intro j hj
      rcases hent j hj with h1 | h1
      · exact Or.inl h1
      · simp only [List.mem_append] at h1
        exact Or.inr h1
    · cases hr

end C18b

namespace C18b

/-- the id of a slot's task, under the side conditions: not the root, not a clearing leaf, not in any other slot, and
    neither the selector nor the guard of its own slot -/
theorem task_id_facts {slots : List Slot} {clearIds : List Nat} {rid : Nat} (hok : PickUpOK slots clearIds rid)
    (sl : Slot) (hsl : sl ∈ slots) :
    sl.task.id ≠ rid ∧ sl.task.id ∉ (clearPairs slots clearIds).map Prod.snd ∧
    (∀ y ∈ slots, sl.task.id ∈ (slotSkel y).ids → y = sl) ∧ sl.task.id ≠ sl.sid ∧ sl.task.id ≠ sl.gid := by
  obtain ⟨hnd, hrest⟩ := hok.ids
  have hm : sl.task.id ∈ Skel.idsL (slots.map slotSkel) := (mem_idsL_slots slots _).mpr ⟨sl, hsl, task_id_mem_slot sl⟩
  obtain ⟨h1, h2⟩ := hrest _ hm
  obtain ⟨h3, h4⟩ := task_id_ne sl (slot_ids_nodup slots hnd sl hsl)
  exact ⟨h1, h2, fun y hy hin => slot_ids_unique slots hnd y hy sl hsl _ hin (task_id_mem_slot sl), h3, h4⟩

theorem mem_of_suffix {α : Type} {l s1 s2 : List α} (h : l = s1 ++ s2) {a : α} (ha : a ∈ s2) : a ∈ l := by
  subst h; exact List.mem_append_right _ ha

end C18b

/-- **3. no re-run within a tick**, for an instance in ANY runtime state (fresh, RUNNING, interrupted, …) and any
    number of tasks: a task whose flag is set (`flagOn`) when the tick starts is not entered in that tick. -/
theorem C18_pickup_tick_no_rerun_on (slots : List C18b.Slot) (clearIds : List Nat) (rid : Nat) (n : Node)
    (hp : C18b.IsPickUp slots clearIds rid n) (hok : C18b.PickUpOK slots clearIds rid)
    (f : Nat) (e : Env) (w : Store) (n' : Node) (w' : Store) (tr : List Ev) (h : tickF f e w n = .ok (n', w', tr)) :
    ∀ sl ∈ slots, C18b.flagOn w sl.flag → ∀ ev ∈ tr, ev ≠ .enter sl.task.id := by
  obtain ⟨rst, rcur, cs, rfl, sn, cn, rfl, hsn, hcn⟩ := hp
  intro sl hsl hon ev hev heq
  subst heq
  obtain ⟨hid1, hid2, hid3, hid4, hid5⟩ := C18b.task_id_facts hok sl hsl
  by_cases hne : sn ++ cn = []
  · rw [hne] at h
    exact hid1 ((C18b.root_tick_empty f e w rid rst rcur n' w' tr h).2.2 _ hev)
  · obtain ⟨f', s1, s2, p1, p2, pre, post, rfl, hslots, hps, hpre, hpost, hcase⟩ :=
      C18b.pickup_tick_any slots clearIds rid rst rcur sn cn hsn hcn hne f e w n' w' tr h
    have hnb : ∀ y ∈ s2, C18b.noBB y.task = true := fun y hy => hok.1 y (C18b.mem_of_suffix hslots hy)
    have hx : ∀ y ∈ s2, sl.task.id ∈ (C18b.slotSkel y).ids →
        C18b.flagOn w y.flag ∧ sl.task.id ≠ y.sid ∧ sl.task.id ≠ y.gid := by
      intro y hy hin
      obtain rfl := hid3 y (C18b.mem_of_suffix hslots hy) hin
      exact ⟨hon, hid4, hid5⟩
    rcases hcase with ⟨done, c', u, trl, hl, _, _, hent⟩ | ⟨done1, w1, tr1, done2, tr2, hl1, hl2, _, hent⟩
    · rcases hent _ hev with h1 | h1
      · exact hid1 h1
      · exact C18b.slotsLoop_norerun f' e s2 pre w done _ w' trl hpre hnb hl _ hx h1
    · rcases hent _ hev with h1 | h1 | h1
      · exact hid1 h1
      · exact C18b.slotsLoop_norerun f' e s2 pre w done1 _ w1 tr1 hpre hnb hl1 _ hx h1
      · have := (C18b.clearsLoop f' e p2 post w1 done2 none w' tr2 hpost hl2).2.2.1 _ h1
        apply hid2
        rw [hps, List.map_append]
        exact List.mem_append_right _ this

/-- 3. in the literal form: the flag holds `True` -/
theorem C18_pickup_tick_no_rerun (slots : List C18b.Slot) (clearIds : List Nat) (rid : Nat) (n : Node)
    (hp : C18b.IsPickUp slots clearIds rid n) (hok : C18b.PickUpOK slots clearIds rid)
    (f : Nat) (e : Env) (w : Store) (n' : Node) (w' : Store) (tr : List Ev) (h : tickF f e w n = .ok (n', w', tr)) :
    ∀ sl ∈ slots, w sl.flag = some (.bool true) → ∀ ev ∈ tr, ev ≠ .enter sl.task.id :=
  fun sl hsl hw => C18_pickup_tick_no_rerun_on slots clearIds rid n hp hok f e w n' w' tr h sl hsl (Or.inl hw)

/-- **5, first part: nothing is cleared unless the root returns SUCCESS**, in ANY runtime state: if the root does not
    return SUCCESS, every blackboard key is unchanged or is the flag of one of the slots and now holds `True`; so no flag
    that was set is lost, and keys other than the flags are untouched. -/
theorem C18_pickup_tick_store (slots : List C18b.Slot) (clearIds : List Nat) (rid : Nat) (n : Node)
    (hp : C18b.IsPickUp slots clearIds rid n) (hok : C18b.PickUpOK slots clearIds rid)
    (f : Nat) (e : Env) (w : Store) (n' : Node) (w' : Store) (tr : List Ev) (h : tickF f e w n = .ok (n', w', tr))
    (hns : n'.status ≠ .success) :
    ∀ k, w' k = w k ∨ (k ∈ slots.map C18b.Slot.flag ∧ w' k = some (.bool true)) := by
  obtain ⟨rst, rcur, cs, rfl, sn, cn, rfl, hsn, hcn⟩ := hp
  by_cases hne : sn ++ cn = []
  · rw [hne] at h
    exact absurd (C18b.root_tick_empty f e w rid rst rcur n' w' tr h).1 hns
  · obtain ⟨f', s1, s2, p1, p2, pre, post, rfl, hslots, hps, hpre, hpost, hcase⟩ :=
      C18b.pickup_tick_any slots clearIds rid rst rcur sn cn hsn hcn hne f e w n' w' tr h
    have hnb : ∀ y ∈ s2, C18b.noBB y.task = true := fun y hy => hok.1 y (C18b.mem_of_suffix hslots hy)
    rcases hcase with ⟨done, c', u, trl, hl, _, _, _⟩ | ⟨_, _, _, _, _, _, _, hs, _⟩
    · intro k
      rcases C18b.slotsLoop_store f' e s2 pre w done _ w' trl hpre hnb hl k with h1 | ⟨h1, h2⟩
      · exact Or.inl h1
      · refine Or.inr ⟨?_, h2⟩
        rw [hslots, List.map_append]
        exact List.mem_append_right _ h1
    · exact absurd hs hns

/-- 5, first part, in the literal form: **no flag is lost unless the root returns SUCCESS** -/
theorem C18_pickup_tick_flags_kept (slots : List C18b.Slot) (clearIds : List Nat) (rid : Nat) (n : Node)
    (hp : C18b.IsPickUp slots clearIds rid n) (hok : C18b.PickUpOK slots clearIds rid)
    (f : Nat) (e : Env) (w : Store) (n' : Node) (w' : Store) (tr : List Ev) (h : tickF f e w n = .ok (n', w', tr))
    (hns : n'.status ≠ .success) :
    (∀ sl ∈ slots, w sl.flag = some (.bool true) → w' sl.flag = some (.bool true)) ∧
    (∀ k, C18b.flagOn w k → C18b.flagOn w' k) ∧ (∀ k, k ∉ slots.map C18b.Slot.flag → w' k = w k) := by
  have hst := C18_pickup_tick_store slots clearIds rid n hp hok f e w n' w' tr h hns
  refine ⟨?_, ?_, ?_⟩
  · intro sl _ hw
    rcases hst sl.flag with h1 | ⟨_, h1⟩
    · rw [h1]; exact hw
    · exact h1
  · intro k hk
    rcases hst k with h1 | ⟨_, h1⟩
    · simpa [C18b.flagOn, h1] using hk
    · exact Or.inl h1
  · intro k hk
    rcases hst k with h1 | ⟨h1, _⟩
    · exact h1
    · exact absurd h1 hk

namespace C18b

/-! ## 4. the state invariant of an instance and the ticks of a state that satisfies it -/

theorem allRel_mem_right {α : Type} (R : α → Node → Prop) : ∀ (as : List α) (ns : List Node), AllRel R as ns →
    ∀ n ∈ ns, ∃ a ∈ as, R a n
| [], [], _, n, hn => by simp at hn
| [], _ :: _, h, _, _ => by simp [AllRel] at h
| _ :: _, [], h, _, _ => by simp [AllRel] at h
| a :: as, m :: ns, h, n, hn => by
    simp only [AllRel] at h
    simp only [List.mem_cons] at hn
    rcases hn with rfl | hn
    · exact ⟨a, by simp, h.1⟩
    · obtain ⟨b, hb, hr⟩ := allRel_mem_right R as ns h.2 n hn
      exact ⟨b, by simp [hb], hr⟩

theorem slotsAre_append {s1 s2 : List Slot} {n1 n2 : List Node} (h1 : AllRel IsSlot s1 n1) (h2 : AllRel IsSlot s2 n2) :
    AllRel IsSlot (s1 ++ s2) (n1 ++ n2) := by
  rw [slotsAre_iff] at h1 h2 ⊢
  rw [skelL_append, List.map_append, h1, h2]

theorem isSlot_id {sl : Slot} {c : Node} (h : IsSlot sl c) : c.id = sl.sid := by
  obtain ⟨_, _, _, _, _, _, _, _, _, rfl, _⟩ := h; rfl

theorem isClear_slotOK {p : String × Nat} {c : Node} (h : IsClear p c) : slotOK c = true := by
  obtain ⟨_, _, rfl⟩ := h; rfl

theorem clearsAre_slotOK {ps : List (String × Nat)} {ns : List Node} (h : AllRel IsClear ps ns) :
    ∀ c ∈ ns, slotOK c = true := by
  intro c hc
  obtain ⟨p, _, hp⟩ := allRel_mem_right IsClear ps ns h c hc
  exact isClear_slotOK hp

/-- an interrupt keeps a slot's worker sane -/
theorem stopInv_slotOK (c : Node) (h : slotOK c = true) : slotOK (stopInv c).1 = true := by
  cases c with
  | sel i m s cur cs =>
    match cs, h with
    | [], _ => simp [stopInv, stopInvNonInvalid, slotOK]
    | [a], _ => simp [stopInv, stopInvNonInvalid, slotOK]
    | [a, W], h =>
      simp only [slotOK] at h
      simp only [stopInv, stopInvNonInvalid, slotOK]
      split
      · exact workerOK_stopInv W
      · exact h
    | a :: b :: c :: rest, _ => simp [stopInv, stopInvNonInvalid, slotOK]
  | leaf i s k l => simp [stopInv, slotOK]
  | seq i m s cur cs => simp [stopInv, slotOK]
  | par i p s cur cs => simp [stopInv, slotOK]
  | dec i k s c => simp [stopInv, slotOK]

theorem stopInvNonInvalid_slotOK : ∀ (cs : List Node), (∀ c ∈ cs, slotOK c = true) →
    ∀ c ∈ (stopInvNonInvalid cs).1, slotOK c = true
| [], _, c, hc => by simp [stopInvNonInvalid] at hc
| a :: cs, h, c, hc => by
    simp only [stopInvNonInvalid, List.mem_cons] at hc
    rcases hc with rfl | hc
    · split
      · exact stopInv_slotOK a (h a (by simp))
      · exact h a (by simp)
    · exact stopInvNonInvalid_slotOK cs (fun x hx => h x (by simp [hx])) c hc

theorem splitAtId_append_of_ne (i : Nat) (c : Node) (b : List Node) (hc : c.id = i) : ∀ (a : List Node),
    (∀ d ∈ a, d.id ≠ i) → splitAtId i (a ++ c :: b) = some (a, c :: b)
| [], _ => by simp [splitAtId, hc]
| x :: a, h => by
    have hx : x.id ≠ i := h x (by simp)
    simp [splitAtId, hx, splitAtId_append_of_ne i c b hc a (fun d hd => h d (by simp [hd]))]

/-- **the state invariant** of an instance together with the blackboard: every slot's worker is sane, and when the root
    is RUNNING it remembers a slot, every earlier slot node has status SUCCESS and every earlier flag is set.
    True of a fresh instance (`puInv_of_not_running`), kept by ticks, interrupts and pokes of other variables
    (`C18_pickup_inv_step`). -/
def PUInv (slots : List Slot) (w : Store) : Node → Prop
| seq _ _ rst rcur cs => (∀ c ∈ cs, slotOK c = true) ∧
    (rst = .running → ∃ s1 sl s2 n1 c n2, slots = s1 ++ sl :: s2 ∧ cs = n1 ++ c :: n2 ∧ AllRel IsSlot s1 n1 ∧
      IsSlot sl c ∧ rcur = some sl.sid ∧ (∀ x ∈ s1, flagOn w x.flag) ∧ (∀ d ∈ n1, d.status = .success))
| _ => True

theorem puInv_of_not_running (slots : List Slot) (w : Store) (i : Nat) (m : Bool) (st : Status) (cur : Option Nat)
    (cs : List Node) (hst : st ≠ .running) (hcs : ∀ c ∈ cs, slotOK c = true) : PUInv slots w (seq i m st cur cs) :=
  ⟨hcs, fun h => absurd h hst⟩

/-- the entry block of the root in a state satisfying the invariant -/
theorem entry_inv (slots : List Slot) (clearIds : List Nat) (rid : Nat) (hok : PickUpOK slots clearIds rid)
    (w : Store) (rst : Status) (rcur : Option Nat) (sn cn : List Node) (hsn : AllRel IsSlot slots sn)
    (hcn : AllRel IsClear (clearPairs slots clearIds) cn) (hinv : PUInv slots w (seq rid true rst rcur (sn ++ cn)))
    (before rest : List Node) (trR : List Ev) (hen : seqEntry rst true rcur (sn ++ cn) = .ok (before, rest, trR)) :
    ∃ s1 s2 pre post, slots = s1 ++ s2 ∧ rest = pre ++ post ∧ AllRel IsSlot s1 before ∧ AllRel IsSlot s2 pre ∧
      AllRel IsClear (clearPairs slots clearIds) post ∧ (∀ x ∈ s1, flagOn w x.flag) ∧
      (∀ d ∈ before, d.status = .success) ∧ (∀ d ∈ before, slotOK d = true) ∧ (∀ c ∈ pre, slotOK c = true) := by
  obtain ⟨hI1, hI2⟩ := hinv
  have hcs : skelL (sn ++ cn) = slots.map slotSkel ++ (clearPairs slots clearIds).map clearSkel := by
    rw [skelL_append, (slotsAre_iff _ _).mp hsn, (clearsAre_iff _ _).mp hcn]
  by_cases hst : rst = .running
  · obtain ⟨s1, sl, s2, n1, c, n2, hslots, hcs2, hn1, hc, hcur, hfl, hsucc⟩ := hI2 hst
    subst hst; subst hcur; subst hslots
    have hnd := hok.ids.1
    rw [List.map_append, idsL_append, List.nodup_append] at hnd
    have hne : ∀ d ∈ n1, d.id ≠ sl.sid := by
      intro d hd heq
      obtain ⟨x, hx, hxd⟩ := allRel_mem_right IsSlot s1 n1 hn1 d hd
      have h1 : sl.sid ∈ Skel.idsL (s1.map slotSkel) := by
        rw [mem_idsL_slots]; refine ⟨x, hx, ?_⟩
        rw [← heq, isSlot_id hxd, slotSkel_ids]; simp
      have h2 : sl.sid ∈ Skel.idsL ((sl :: s2).map slotSkel) := by
        rw [mem_idsL_slots]; exact ⟨sl, by simp, by rw [slotSkel_ids]; simp⟩
      exact hnd.2.2 _ h1 _ h2 rfl
    have hsplit : splitAtId sl.sid (sn ++ cn) = some (n1, c :: n2) := by
      rw [hcs2]; exact splitAtId_append_of_ne sl.sid c n2 (isSlot_id hc) n1 hne
    simp only [seqEntry, ne_eq, not_true_eq_false, ↓reduceIte, hsplit, pure, Except.pure, Except.ok.injEq,
      Prod.mk.injEq] at hen
    obtain ⟨rfl, rfl, _⟩ := hen
    have hsk : skelL (c :: n2) =
        (sl :: s2).map slotSkel ++ (clearPairs (s1 ++ sl :: s2) clearIds).map clearSkel := by
      have h3 := hcs
      rw [hcs2, skelL_append, (slotsAre_iff _ _).mp hn1, List.map_append, List.append_assoc] at h3
      exact List.append_cancel_left h3
    obtain ⟨pre, post, hrest, hpre, hpost⟩ := skelL_eq_append hsk
    refine ⟨s1, sl :: s2, pre, post, rfl, hrest, hn1, (slotsAre_iff _ _).mpr hpre, (clearsAre_iff _ _).mpr hpost,
      hfl, hsucc, ?_, ?_⟩
    · intro d hd; exact hI1 d (by rw [hcs2]; simp [hd])
    · intro d hd
      have : d ∈ c :: n2 := by rw [hrest]; simp [hd]
      exact hI1 d (by rw [hcs2]; exact List.mem_append_right _ this)
  · simp only [seqEntry, ne_eq, hst, not_false_eq_true, ↓reduceIte, pure, Except.pure, Except.ok.injEq,
      Prod.mk.injEq] at hen
    obtain ⟨rfl, rfl, _⟩ := hen
    have hsk : skelL (stopInvNonInvalid (sn ++ cn)).1 =
        slots.map slotSkel ++ (clearPairs slots clearIds).map clearSkel := by
      rw [stopInvNonInvalid_skelL, hcs]
    obtain ⟨pre, post, hrest, hpre, hpost⟩ := skelL_eq_append hsk
    refine ⟨[], slots, pre, post, rfl, hrest, by simp [AllRel], (slotsAre_iff _ _).mpr hpre,
      (clearsAre_iff _ _).mpr hpost, by simp, by simp, by simp, ?_⟩
    intro d hd
    exact stopInvNonInvalid_slotOK (sn ++ cn) hI1 d (by rw [hrest]; simp [hd])

/-- **the slots loop over sane slots**: the slots that returned SUCCESS have their flags set afterwards; the loop stops
    at the first slot that did not return SUCCESS -/
theorem slotsLoop_ok (f : Nat) (e : Env) : ∀ (sls : List Slot) (ns : List Node) (w : Store) (done : List Node)
    (r : Option (Node × List Node)) (w' : Store) (tr : List Ev), AllRel IsSlot sls ns →
    (∀ sl ∈ sls, noBB sl.task = true) → (∀ c ∈ ns, slotOK c = true) →
    seqLoop (tickF f e) w ns = .ok (done, r, w', tr) →
    (∀ d ∈ done, slotOK d = true ∧ d.status = .success) ∧
    (r = none → AllRel IsSlot sls done ∧ ∀ x ∈ sls, flagOn w' x.flag) ∧
    (∀ c' u, r = some (c', u) → ∃ t1 sl t2, sls = t1 ++ sl :: t2 ∧ AllRel IsSlot t1 done ∧ IsSlot sl c' ∧
      slotOK c' = true ∧ c'.status ≠ .success ∧ (∀ x ∈ t1, flagOn w' x.flag) ∧ (∀ c ∈ u, slotOK c = true))
| [], [], w, done, r, w', tr, _, _, _, h => by
    simp only [seqLoop, pure, Except.pure, Except.ok.injEq, Prod.mk.injEq] at h
    obtain ⟨rfl, rfl, rfl, _⟩ := h
    refine ⟨by simp, fun _ => ⟨by simp [AllRel], by simp⟩, ?_⟩
    intro c' u hr; cases hr
| [], n :: ns, w, done, r, w', tr, hr, _, _, h => by simp [AllRel] at hr
| sl :: sls, [], w, done, r, w', tr, hr, _, _, h => by simp [AllRel] at hr
| sl :: sls, n :: ns, w, done, r, w', tr, hr, hnb, hso, h => by
    simp only [AllRel] at hr
    obtain ⟨c1, w1, tr1, htc, hcase⟩ := seqLoop_cons_inv _ _ _ _ _ _ _ _ h
    obtain ⟨hshape, _, _, _, _, hok1, hfl1⟩ := C18_slot_tick sl n hr.1 (hnb sl (by simp)) f e w c1 w1 tr1 htc
    have hok1' := hok1 (hso n (by simp))
    rcases hcase with ⟨hns, rfl, rfl, rfl, _⟩ | ⟨hs, d2, tr2, hl, rfl, _⟩
    · refine ⟨by simp, fun hx => (by cases hx), ?_⟩
      intro c' u hr'
      simp only [Option.some.injEq, Prod.mk.injEq] at hr'
      obtain ⟨rfl, rfl⟩ := hr'
      exact ⟨[], sl, sls, rfl, by simp [AllRel], hshape, hok1', hns, by simp, fun c hc => hso c (by simp [hc])⟩
    · have hnb2 : ∀ x ∈ sls, noBB x.task = true := fun x hx => hnb x (by simp [hx])
      obtain ⟨ih1, ih2, ih3⟩ := slotsLoop_ok f e sls ns w1 d2 r w' tr2 hr.2 hnb2
        (fun c hc => hso c (by simp [hc])) hl
      have hflag : flagOn w' sl.flag :=
        slotsLoop_mono f e sls ns w1 d2 r w' tr2 hr.2 hnb2 hl _ (hfl1 (hso n (by simp)) hs)
      refine ⟨?_, ?_, ?_⟩
      · intro d hd
        simp only [List.mem_cons] at hd
        rcases hd with rfl | hd
        · exact ⟨hok1', hs⟩
        · exact ih1 d hd
      · intro hr'
        obtain ⟨h1, h2⟩ := ih2 hr'
        refine ⟨by simp only [AllRel]; exact ⟨hshape, h1⟩, ?_⟩
        intro x hx
        simp only [List.mem_cons] at hx
        rcases hx with rfl | hx
        · exact hflag
        · exact h2 x hx
      · intro c' u hr'
        obtain ⟨t1, sl', t2, h1, h2, h3, h4, h5, h6, h7⟩ := ih3 c' u hr'
        refine ⟨sl :: t1, sl', t2, by simp [h1], by simp only [AllRel]; exact ⟨hshape, h2⟩, h3, h4, h5, ?_, h7⟩
        intro x hx
        simp only [List.mem_cons] at hx
        rcases hx with rfl | hx
        · exact hflag
        · exact h6 x hx

/-- **strict order, loop level**: if a behaviour of slot `sl` was entered, every earlier slot of the loop returned
    SUCCESS before, so its flag is set afterwards -/
theorem slotsLoop_order (f : Nat) (e : Env) : ∀ (sls : List Slot) (ns : List Node) (w : Store) (done : List Node)
    (r : Option (Node × List Node)) (w' : Store) (tr : List Ev), AllRel IsSlot sls ns →
    (∀ sl ∈ sls, noBB sl.task = true) → (∀ c ∈ ns, slotOK c = true) →
    seqLoop (tickF f e) w ns = .ok (done, r, w', tr) →
    ∀ t1 sl t2, sls = t1 ++ sl :: t2 → ∀ x, (∀ y ∈ t1, x ∉ (slotSkel y).ids) → Ev.enter x ∈ tr →
      ∀ y ∈ t1, flagOn w' y.flag
| [], [], w, done, r, w', tr, _, _, _, h => by
    intro t1 sl t2 hsl; simp at hsl
| [], n :: ns, w, done, r, w', tr, hr, _, _, h => by simp [AllRel] at hr
| s :: sls, [], w, done, r, w', tr, hr, _, _, h => by simp [AllRel] at hr
| s :: sls, n :: ns, w, done, r, w', tr, hr, hnb, hso, h => by
    intro t1 sl t2 hsl x hx hent y hy
    cases t1 with
    | nil => simp at hy
    | cons y0 t1 =>
      simp only [List.cons_append, List.cons.injEq] at hsl
      obtain ⟨rfl, hsl⟩ := hsl
      simp only [AllRel] at hr
      obtain ⟨c1, w1, tr1, htc, hcase⟩ := seqLoop_cons_inv _ _ _ _ _ _ _ _ h
      obtain ⟨_, _, _, _, _, _, hfl1⟩ := C18_slot_tick s n hr.1 (hnb s (by simp)) f e w c1 w1 tr1 htc
      have hfirst : Ev.enter x ∉ tr1 := by
        intro hmem
        have := tickF_enters e f w n c1 w1 tr1 htc x hmem
        rw [(isSlot_iff_skel s n).mp hr.1] at this
        exact hx s (by simp) this
      have hnb2 : ∀ z ∈ sls, noBB z.task = true := fun z hz => hnb z (by simp [hz])
      rcases hcase with ⟨_, _, _, _, rfl⟩ | ⟨hs, d2, tr2, hl, _, rfl⟩
      · exact absurd hent hfirst
      · simp only [List.mem_append] at hent
        have hent2 : Ev.enter x ∈ tr2 := by
          rcases hent with h1 | h1
          · exact absurd h1 hfirst
          · exact h1
        simp only [List.mem_cons] at hy
        rcases hy with rfl | hy
        · exact slotsLoop_mono f e sls ns w1 d2 r w' tr2 hr.2 hnb2 hl _ (hfl1 (hso n (by simp)) hs)
        · exact slotsLoop_order f e sls ns w1 d2 r w' tr2 hr.2 hnb2 (fun c hc => hso c (by simp [hc])) hl
            t1 sl t2 hsl x (fun z hz => hx z (by simp [hz])) hent2 y hy

end C18b

namespace C18b

theorem root_tick_empty_node (f : Nat) (e : Env) (w : Store) (rid : Nat) (rst : Status) (rcur : Option Nat)
    (n' : Node) (w' : Store) (tr : List Ev) (h : tickF f e w (seq rid true rst rcur []) = .ok (n', w', tr)) :
    n' = seq rid true .success none [] := by
  cases f with
  | zero => simp [tickF] at h
  | succ f =>
    simp only [tickF, bind, Except.bind] at h
    cases hen : seqEntry rst true rcur [] with
    | error err => simp [hen] at h
    | ok v =>
      obtain ⟨before, rest, trR⟩ := v
      simp only [hen, List.isEmpty_nil, ↓reduceIte, pure, Except.pure, Except.ok.injEq, Prod.mk.injEq] at h
      exact h.1.symm

/-- anatomy of a tick of an instance in a state satisfying the invariant -/
theorem pickup_tick_inv (slots : List Slot) (clearIds : List Nat) (rid : Nat) (hok : PickUpOK slots clearIds rid)
    (rst : Status) (rcur : Option Nat) (sn cn : List Node) (hsn : AllRel IsSlot slots sn)
    (hcn : AllRel IsClear (clearPairs slots clearIds) cn) (hne : sn ++ cn ≠ []) (f : Nat) (e : Env) (w : Store)
    (hinv : PUInv slots w (seq rid true rst rcur (sn ++ cn))) (n' : Node) (w' : Store) (tr : List Ev)
    (h : tickF f e w (seq rid true rst rcur (sn ++ cn)) = .ok (n', w', tr)) :
    ∃ f' s1 s2 before pre post, slots = s1 ++ s2 ∧ AllRel IsSlot s1 before ∧ AllRel IsSlot s2 pre ∧
      AllRel IsClear (clearPairs slots clearIds) post ∧ (∀ x ∈ s1, flagOn w x.flag) ∧
      (∀ d ∈ before, d.status = .success) ∧ (∀ d ∈ before, slotOK d = true) ∧ (∀ c ∈ pre, slotOK c = true) ∧
      ((∃ done c' u trl, seqLoop (tickF f' e) w pre = .ok (done, some (c', u), w', trl) ∧
          n' = seq rid true c'.status (some c'.id) (before ++ done ++ c' :: (u ++ post)) ∧
          (∀ j, Ev.enter j ∈ tr → j = rid ∨ Ev.enter j ∈ trl)) ∨
       (∃ done1 w1 tr1 done2 tr2, seqLoop (tickF f' e) w pre = .ok (done1, none, w1, tr1) ∧
          seqLoop (tickF f' e) w1 post = .ok (done2, none, w', tr2) ∧
          n' = seq rid true .success (lastId? (before ++ (done1 ++ done2))) (before ++ (done1 ++ done2)) ∧
          (∀ j, Ev.enter j ∈ tr → j = rid ∨ Ev.enter j ∈ tr1 ∨ Ev.enter j ∈ tr2))) := by
  obtain ⟨f', before, rest, trR, done, r, trl, rfl, hen, hl, hent, _, hn'⟩ :=
    root_tick_inv f e w rid rst rcur (sn ++ cn) n' w' tr hne h
  obtain ⟨s1, s2, pre, post, hslots, rfl, hbefore, hpre, hpost, hfl, hsucc, hso1, hso2⟩ :=
    entry_inv slots clearIds rid hok w rst rcur sn cn hsn hcn hinv before rest trR hen
  refine ⟨f', s1, s2, before, pre, post, hslots, hbefore, hpre, hpost, hfl, hsucc, hso1, hso2, ?_⟩
  rcases C18_pickup_clear_after_all_success (tickF f' e) pre post w done r w' trl hl with
    ⟨c', rest', hr, hl1⟩ | ⟨done1, w1, tr1, done2, tr2, hl1, _, _, hl2, rfl, rfl⟩
  · left
    subst hr
    rcases hn' with ⟨hr, _⟩ | ⟨c'', u, hr, rfl⟩
    · cases hr
    · simp only [Option.some.injEq, Prod.mk.injEq] at hr
      obtain ⟨rfl, rfl⟩ := hr
      exact ⟨done, c', rest', trl, hl1, rfl, hent⟩
  · right
    obtain ⟨hr, _, _, _⟩ := clearsLoop f' e _ post w1 done2 r w' tr2 hpost hl2
    subst hr
    rcases hn' with ⟨_, rfl⟩ | ⟨c'', u, hr, _⟩
    · refine ⟨done1, w1, tr1, done2, tr2, hl1, hl2, rfl, ?_⟩
      intro j hj
      rcases hent j hj with h1 | h1
      · exact Or.inl h1
      · simp only [List.mem_append] at h1
        exact Or.inr h1
    · cases hr

/-- in a list of slots with pairwise distinct ids, an id of one slot belongs to no slot before or after it -/
theorem slot_ids_position (a : List Slot) (sl : Slot) (b : List Slot)
    (hnd : (Skel.idsL ((a ++ sl :: b).map slotSkel)).Nodup) (x : Nat) (hx : x ∈ (slotSkel sl).ids) :
    (∀ z ∈ a, x ∉ (slotSkel z).ids) ∧ (∀ z ∈ b, x ∉ (slotSkel z).ids) := by
  rw [List.map_append, idsL_append, List.nodup_append] at hnd
  obtain ⟨_, h2, h3⟩ := hnd
  simp only [List.map_cons, Skel.idsL, List.nodup_append] at h2
  constructor
  · intro z hz hxz
    refine h3 x ((mem_idsL_slots a x).mpr ⟨z, hz, hxz⟩) x ?_ rfl
    simp only [List.map_cons, Skel.idsL, List.mem_append]
    exact Or.inl hx
  · intro z hz hxz
    exact h2.2.2 x hx x ((mem_idsL_slots b x).mpr ⟨z, hz, hxz⟩) rfl

theorem clearPairs_fst (slots : List Slot) (clearIds : List Nat) (h : clearIds.length = slots.length) :
    (clearPairs slots clearIds).map Prod.fst = slots.map Slot.flag := by
  unfold clearPairs
  exact List.map_fst_zip (by simp [h])

end C18b

/-- **4. strict order**: in a state satisfying the invariant, if the root does not return SUCCESS (so no clearing leaf
    ran) and the task of a slot was entered in this tick, then the flag of every earlier slot is set afterwards: it was
    set before, or its task returned SUCCESS in this tick. -/
theorem C18_pickup_tick_order (slots : List C18b.Slot) (clearIds : List Nat) (rid : Nat) (n : Node)
    (hp : C18b.IsPickUp slots clearIds rid n) (hok : C18b.PickUpOK slots clearIds rid)
    (f : Nat) (e : Env) (w : Store) (hinv : C18b.PUInv slots w n) (n' : Node) (w' : Store) (tr : List Ev)
    (h : tickF f e w n = .ok (n', w', tr)) (hns : n'.status ≠ .success) :
    ∀ a sl b, slots = a ++ sl :: b → Ev.enter sl.task.id ∈ tr → ∀ y ∈ a, C18b.flagOn w' y.flag := by
  obtain ⟨rst, rcur, cs, rfl, sn, cn, rfl, hsn, hcn⟩ := hp
  intro a sl b hsplit hent y hy
  have hsl : sl ∈ slots := by rw [hsplit]; simp
  obtain ⟨hid1, _, _, _, _⟩ := C18b.task_id_facts hok sl hsl
  by_cases hne : sn ++ cn = []
  · rw [hne] at h
    exact absurd (C18b.root_tick_empty f e w rid rst rcur n' w' tr h).1 hns
  · obtain ⟨f', s1, s2, before, pre, post, hslots, hbefore, hpre, hpost, hfl, hsucc, hso1, hso2, hcase⟩ :=
      C18b.pickup_tick_inv slots clearIds rid hok rst rcur sn cn hsn hcn hne f e w hinv n' w' tr h
    have hnb : ∀ z ∈ s2, C18b.noBB z.task = true := fun z hz => hok.1 z (C18b.mem_of_suffix hslots hz)
    rcases hcase with ⟨done, c', u, trl, hl, rfl, hen⟩ | ⟨_, _, _, _, _, _, _, rfl, _⟩
    · have hx : Ev.enter sl.task.id ∈ trl := by
        rcases hen _ hent with h1 | h1
        · exact absurd h1 hid1
        · exact h1
      have hmono := C18b.slotsLoop_mono f' e s2 pre w done _ w' trl hpre hnb hl
      have hnd := hok.ids.1
      rw [hsplit] at hnd
      obtain ⟨hpos1, hpos2⟩ := C18b.slot_ids_position a sl b hnd _ (C18b.task_id_mem_slot sl)
      have hEq : s1 ++ s2 = a ++ sl :: b := by rw [← hslots, hsplit]
      rcases List.append_eq_append_iff.mp hEq with ⟨as, ha, hs2⟩ | ⟨bs, hs1, hb⟩
      · -- the slot is among the slots ticked in this tick
        rw [ha] at hy
        simp only [List.mem_append] at hy
        rcases hy with hy | hy
        · exact hmono _ (hfl y hy)
        · exact C18b.slotsLoop_order f' e s2 pre w done _ w' trl hpre hnb hso2 hl as sl b hs2 _
            (fun z hz => hpos1 z (by rw [ha]; simp [hz])) hx y hy
      · cases bs with
        | nil =>
          simp only [List.append_nil, List.nil_append] at hs1 hb
          rw [← hs1] at hy
          exact hmono _ (hfl y hy)
        | cons s0 bs =>
          -- the slot is before the starting point: its task cannot have been entered
          simp only [List.cons_append, List.cons.injEq] at hb
          obtain ⟨rfl, hb⟩ := hb
          have hin := C18b.seqLoop_enters (tickF f' e) (fun w c c' w' tr h => C18b.tickF_enters e f' w c c' w' tr h)
            pre w done _ w' trl hl _ hx
          rw [(C18b.slotsAre_iff _ _).mp hpre, C18b.mem_idsL_slots] at hin
          obtain ⟨z, hz, hxz⟩ := hin
          exact absurd hxz (hpos2 z (by rw [hb]; simp [hz]))
    · exact absurd rfl hns

/-- **5, second part: the root succeeds only after every task succeeded, and then the next round starts afresh**: in a
    state satisfying the invariant, if the root returns SUCCESS then every child of the root — every slot node and
    every clearing leaf — has status SUCCESS, every flag is gone from the blackboard, and no other key changed. -/
theorem C18_pickup_tick_success (slots : List C18b.Slot) (clearIds : List Nat) (rid : Nat) (n : Node)
    (hp : C18b.IsPickUp slots clearIds rid n) (hok : C18b.PickUpOK slots clearIds rid)
    (f : Nat) (e : Env) (w : Store) (hinv : C18b.PUInv slots w n) (n' : Node) (w' : Store) (tr : List Ev)
    (h : tickF f e w n = .ok (n', w', tr)) (hs : n'.status = .success) :
    (∀ sl ∈ slots, w' sl.flag = none) ∧ (∀ c ∈ n'.children, c.status = .success) ∧
    (∀ k, k ∉ slots.map C18b.Slot.flag → w' k = w k) := by
  obtain ⟨rst, rcur, cs, rfl, sn, cn, rfl, hsn, hcn⟩ := hp
  by_cases hne : sn ++ cn = []
  · rw [hne] at h
    have hn' := C18b.root_tick_empty_node f e w rid rst rcur n' w' tr h
    have hw := (C18b.root_tick_empty f e w rid rst rcur n' w' tr h).2.1
    subst hn'; subst hw
    have hsl : slots = [] := by
      have : sn = [] := by
        cases sn with
        | nil => rfl
        | cons a sn => simp at hne
      subst this
      exact C18b.allRel_nil_right _ _ hsn
    subst hsl
    simp [Node.children]
  · obtain ⟨f', s1, s2, before, pre, post, hslots, hbefore, hpre, hpost, hfl, hsucc, hso1, hso2, hcase⟩ :=
      C18b.pickup_tick_inv slots clearIds rid hok rst rcur sn cn hsn hcn hne f e w hinv n' w' tr h
    have hnb : ∀ z ∈ s2, C18b.noBB z.task = true := fun z hz => hok.1 z (C18b.mem_of_suffix hslots hz)
    rcases hcase with ⟨done, c', u, trl, hl, rfl, _⟩ | ⟨done1, w1, tr1, done2, tr2, hl1, hl2, rfl, _⟩
    · exact absurd hs (C18b.seqLoop_stopper _ _ _ _ _ _ _ _ hl).1
    · obtain ⟨_, hw', _, hd2⟩ := C18b.clearsLoop f' e _ post w1 done2 none w' tr2 hpost hl2
      rw [C18b.clearPairs_fst slots clearIds hok.2.2.2] at hw'
      obtain ⟨hd1, _, _⟩ := C18b.slotsLoop_ok f' e s2 pre w done1 none w1 tr1 hpre hnb hso2 hl1
      have hst := C18b.slotsLoop_store f' e s2 pre w done1 none w1 tr1 hpre hnb hl1
      refine ⟨?_, ?_, ?_⟩
      · intro sl hsl
        rw [hw' sl.flag]
        simp [List.mem_map_of_mem hsl]
      · intro c hc
        simp only [Node.children, List.mem_append] at hc
        rcases hc with hc | hc | hc
        · exact hsucc c hc
        · exact (hd1 c hc).2
        · exact hd2 c hc
      · intro k hk
        rw [hw' k, if_neg hk]
        rcases hst k with h1 | ⟨h1, _⟩
        · exact h1
        · exfalso; apply hk
          rw [hslots, List.map_append]
          exact List.mem_append_right _ h1

/-- 4. in index form: if the task of slot `j` was entered and the root did not return SUCCESS, the flag of every slot
    `i < j` is set afterwards -/
theorem C18_pickup_tick_order_index (slots : List C18b.Slot) (clearIds : List Nat) (rid : Nat) (n : Node)
    (hp : C18b.IsPickUp slots clearIds rid n) (hok : C18b.PickUpOK slots clearIds rid)
    (f : Nat) (e : Env) (w : Store) (hinv : C18b.PUInv slots w n) (n' : Node) (w' : Store) (tr : List Ev)
    (h : tickF f e w n = .ok (n', w', tr)) (hns : n'.status ≠ .success)
    (i j : Nat) (hij : i < j) (hj : j < slots.length) (hent : Ev.enter (slots[j]).task.id ∈ tr) :
    C18b.flagOn w' (slots[i]'(Nat.lt_trans hij hj)).flag := by
  have hsplit : slots = slots.take j ++ slots[j] :: slots.drop (j + 1) := by
    rw [← List.drop_eq_getElem_cons hj, List.take_append_drop]
  refine C18_pickup_tick_order slots clearIds rid n hp hok f e w hinv n' w' tr h hns _ _ _ hsplit hent _ ?_
  rw [List.mem_take_iff_getElem]
  exact ⟨i, by omega, rfl⟩

namespace C18b

/-! ## 5. the invariant is kept by ticks, interrupts and pokes of other variables -/

/-- the invariant only depends on which flags are set, monotonically -/
theorem puInv_store_mono (slots : List Slot) (w w2 : Store) (n : Node)
    (hw : ∀ sl ∈ slots, flagOn w sl.flag → flagOn w2 sl.flag) (h : PUInv slots w n) : PUInv slots w2 n := by
  cases n with
  | seq i m st cur cs =>
    obtain ⟨h1, h2⟩ := h
    refine ⟨h1, ?_⟩
    intro hst
    obtain ⟨s1, sl, s2, n1, c, n2, hslots, hcs, hn1, hc, hcur, hfl, hsucc⟩ := h2 hst
    exact ⟨s1, sl, s2, n1, c, n2, hslots, hcs, hn1, hc, hcur,
      fun x hx => hw x (by rw [hslots]; simp [hx]) (hfl x hx), hsucc⟩
  | leaf i s k l => trivial
  | sel i m s cur cs => trivial
  | par i p s cur cs => trivial
  | dec i k s c => trivial

theorem puInv_tick (slots : List Slot) (clearIds : List Nat) (rid : Nat) (n : Node)
    (hp : IsPickUp slots clearIds rid n) (hok : PickUpOK slots clearIds rid)
    (f : Nat) (e : Env) (w : Store) (hinv : PUInv slots w n) (n' : Node) (w' : Store) (tr : List Ev)
    (h : tickF f e w n = .ok (n', w', tr)) : PUInv slots w' n' := by
  obtain ⟨rst, rcur, cs, rfl, sn, cn, rfl, hsn, hcn⟩ := hp
  by_cases hne : sn ++ cn = []
  · rw [hne] at h
    rw [root_tick_empty_node f e w rid rst rcur n' w' tr h]
    exact puInv_of_not_running slots w' rid true .success none [] (by simp) (by simp)
  · obtain ⟨f', s1, s2, before, pre, post, hslots, hbefore, hpre, hpost, hfl, hsucc, hso1, hso2, hcase⟩ :=
      pickup_tick_inv slots clearIds rid hok rst rcur sn cn hsn hcn hne f e w hinv n' w' tr h
    have hnb : ∀ z ∈ s2, noBB z.task = true := fun z hz => hok.1 z (mem_of_suffix hslots hz)
    rcases hcase with ⟨done, c', u, trl, hl, rfl, _⟩ | ⟨done1, w1, tr1, done2, tr2, hl1, hl2, rfl, _⟩
    · obtain ⟨hd, _, hsome⟩ := slotsLoop_ok f' e s2 pre w done _ w' trl hpre hnb hso2 hl
      obtain ⟨t1, sl, t2, hs2, hdone, hc', hokc', _, hflt1, hu⟩ := hsome c' u rfl
      have hmono := slotsLoop_mono f' e s2 pre w done _ w' trl hpre hnb hl
      refine ⟨?_, ?_⟩
      · intro c hc
        simp only [List.mem_append, List.mem_cons] at hc
        rcases hc with (hc | hc) | hc | hc | hc
        · exact hso1 c hc
        · exact (hd c hc).1
        · rw [hc]; exact hokc'
        · exact hu c hc
        · exact clearsAre_slotOK hpost c hc
      · intro _
        refine ⟨s1 ++ t1, sl, t2, before ++ done, c', u ++ post, ?_, ?_, slotsAre_append hbefore hdone, hc', ?_, ?_, ?_⟩
        · rw [hslots, hs2, List.append_assoc]
        · simp
        · rw [isSlot_id hc']
        · intro x hx
          simp only [List.mem_append] at hx
          rcases hx with hx | hx
          · exact hmono _ (hfl x hx)
          · exact hflt1 x hx
        · intro d hd'
          simp only [List.mem_append] at hd'
          rcases hd' with hd' | hd'
          · exact hsucc d hd'
          · exact (hd d hd').2
    · apply puInv_of_not_running _ _ _ _ _ _ _ (by simp)
      obtain ⟨hd1, _, _⟩ := slotsLoop_ok f' e s2 pre w done1 none w1 tr1 hpre hnb hso2 hl1
      have hsk := seqLoop_skelL (tickF f' e) (tickF_skel e f') post w1 done2 none w' tr2 hl2
      simp only [List.append_nil] at hsk
      have hd2 : AllRel IsClear (clearPairs slots clearIds) done2 := by
        rw [clearsAre_iff] at hpost ⊢; rw [hsk, hpost]
      intro c hc
      simp only [List.mem_append] at hc
      rcases hc with hc | hc | hc
      · exact hso1 c hc
      · exact (hd1 c hc).1
      · exact clearsAre_slotOK hd2 c hc

theorem puInv_stop (slots : List Slot) (w : Store) (n : Node) (hinv : PUInv slots w n) :
    PUInv slots w (stopInv n).1 := by
  cases n with
  | seq i m st cur cs =>
    simp only [stopInv]
    exact puInv_of_not_running slots w i m .invalid none _ (by simp) (stopInvNonInvalid_slotOK cs hinv.1)
  | leaf i s k l => simp [stopInv, PUInv]
  | sel i m s cur cs => simp [stopInv, PUInv]
  | par i p s cur cs => simp [stopInv, PUInv]
  | dec i k s c => simp [stopInv, PUInv]

/-- operations of a history that respect the idiom: the outside world does not write or remove the idiom's own flags -/
def OpOK (slots : List Slot) : Op → Prop
| .poke k _ => ∀ sl ∈ slots, k ≠ sl.flag
| _ => True

theorem flagOn_set_other (w : Store) (k k' : String) (v : Val) (h : k' ≠ k) : flagOn (w.set k v) k' ↔ flagOn w k' := by
  simp [flagOn, Store.set, h]

theorem flagOn_unset_other (w : Store) (k k' : String) (h : k' ≠ k) : flagOn (w.unset k) k' ↔ flagOn w k' := by
  simp [flagOn, Store.unset, h]

end C18b

/-- **6a. an interrupt loses no flag and keeps the shape**: `stop(INVALID)` does not touch the store (it has no store
    argument) and the result is still an instance of the idiom satisfying the invariant. -/
theorem C18_pickup_stop_keeps (slots : List C18b.Slot) (clearIds : List Nat) (rid : Nat) (n : Node) (w : Store)
    (hp : C18b.IsPickUp slots clearIds rid n) :
    step n w .stop = .ok ((stopInv n).1, w, (stopInv n).2) ∧ C18b.IsPickUp slots clearIds rid (stopInv n).1 ∧
    (C18b.PUInv slots w n → C18b.PUInv slots w (stopInv n).1) :=
  ⟨rfl, C18b.isPickUp_of_skel hp (stopInv_skel n), C18b.puInv_stop slots w n⟩

/-- **6b. the invariant is preserved by every operation of a history** (ticks with any environment, root interrupts,
    pokes of variables other than the idiom's flags), and so is being an instance of the idiom. -/
theorem C18_pickup_inv_step (slots : List C18b.Slot) (clearIds : List Nat) (rid : Nat) (n : Node) (w : Store)
    (hp : C18b.IsPickUp slots clearIds rid n) (hok : C18b.PickUpOK slots clearIds rid) (hinv : C18b.PUInv slots w n)
    (op : Op) (hop : C18b.OpOK slots op) (n' : Node) (w' : Store) (tr : List Ev)
    (h : step n w op = .ok (n', w', tr)) : C18b.IsPickUp slots clearIds rid n' ∧ C18b.PUInv slots w' n' := by
  refine ⟨C18b.isPickUp_of_skel hp (step_skel n w op n' w' tr h), ?_⟩
  cases op with
  | tick e =>
    simp only [step, tick] at h
    exact C18b.puInv_tick slots clearIds rid n hp hok _ e w hinv n' w' tr h
  | stop =>
    simp only [step, Except.ok.injEq, Prod.mk.injEq] at h
    obtain ⟨rfl, rfl, _⟩ := h
    exact C18b.puInv_stop slots w n hinv
  | poke k v =>
    cases v with
    | some v =>
      simp only [step, Except.ok.injEq, Prod.mk.injEq] at h
      obtain ⟨rfl, rfl, _⟩ := h
      exact C18b.puInv_store_mono slots w _ n
        (fun sl hsl hf => (C18b.flagOn_set_other w k sl.flag v (fun heq => hop sl hsl heq.symm)).mpr hf) hinv
    | none =>
      simp only [step, Except.ok.injEq, Prod.mk.injEq] at h
      obtain ⟨rfl, rfl, _⟩ := h
      exact C18b.puInv_store_mono slots w _ n
        (fun sl hsl hf => (C18b.flagOn_unset_other w k sl.flag (fun heq => hop sl hsl heq.symm)).mpr hf) hinv

/-- … hence by every history -/
theorem C18_pickup_inv_run (slots : List C18b.Slot) (clearIds : List Nat) (rid : Nat)
    (hok : C18b.PickUpOK slots clearIds rid) : ∀ (ops : List Op) (n : Node) (w : Store),
    C18b.IsPickUp slots clearIds rid n → C18b.PUInv slots w n → (∀ op ∈ ops, C18b.OpOK slots op) →
    ∀ (n' : Node) (w' : Store), run ops n w = .ok (n', w') →
    C18b.IsPickUp slots clearIds rid n' ∧ C18b.PUInv slots w' n'
| [], n, w, hp, hinv, _, n', w', h => by
    simp only [run, Except.ok.injEq, Prod.mk.injEq] at h
    obtain ⟨rfl, rfl⟩ := h
    exact ⟨hp, hinv⟩
| op :: ops, n, w, hp, hinv, hops, n', w', h => by
    simp only [run] at h
    cases hs : step n w op with
    | error err => simp [hs] at h
    | ok v =>
      obtain ⟨n1, w1, tr⟩ := v
      simp only [hs] at h
      obtain ⟨hp1, hinv1⟩ := C18_pickup_inv_step slots clearIds rid n w hp hok hinv op (hops op (by simp)) n1 w1 tr hs
      exact C18_pickup_inv_run slots clearIds rid hok ops n1 w1 hp1 hinv1 (fun o ho => hops o (by simp [ho])) n' w' h

/-- a fresh instance (or any instance that is not RUNNING and whose workers are sane) satisfies the invariant with any
    blackboard -/
theorem C18_pickup_inv_fresh (slots : List C18b.Slot) (clearIds : List Nat) (rid : Nat) (n : Node) (w : Store)
    (hp : C18b.IsPickUp slots clearIds rid n) (hst : n.status ≠ .running)
    (hcs : ∀ c ∈ n.children, C18b.slotOK c = true) : C18b.PUInv slots w n := by
  obtain ⟨rst, rcur, cs, rfl, _⟩ := hp
  exact C18b.puInv_of_not_running slots w rid true rst rcur cs hst hcs

/-- **6c. the history statement.**  Ghost set `Done(w)` := the slots whose flag is set in `w`.  After ANY history of
    ticks (arbitrary environments), root interrupts and pokes of other variables, starting from an instance that
    satisfies the invariant (e.g. a fresh one), the state reached is an instance satisfying the invariant, and for
    EVERY next tick from it:
    * no task in `Done(w1)` is entered — however often the idiom was interrupted in between;
    * tasks run strictly in order: if the task of a slot is entered (and the root does not return SUCCESS), every
      earlier slot is in `Done` afterwards;
    * if the root does not return SUCCESS, `Done` only grows and nothing but flags changes on the blackboard;
    * if the root returns SUCCESS, every slot node has status SUCCESS and `Done` is empty afterwards: all flags are
      removed and the next round starts afresh. -/
theorem C18_pickup_history (slots : List C18b.Slot) (clearIds : List Nat) (rid : Nat)
    (hok : C18b.PickUpOK slots clearIds rid) (ops : List Op) (n : Node) (w : Store)
    (hp : C18b.IsPickUp slots clearIds rid n) (hinv : C18b.PUInv slots w n) (hops : ∀ op ∈ ops, C18b.OpOK slots op)
    (n1 : Node) (w1 : Store) (hrun : run ops n w = .ok (n1, w1)) :
    C18b.IsPickUp slots clearIds rid n1 ∧ C18b.PUInv slots w1 n1 ∧
    ∀ (e : Env) (n2 : Node) (w2 : Store) (tr : List Ev), tick e w1 n1 = .ok (n2, w2, tr) →
      C18b.IsPickUp slots clearIds rid n2 ∧ C18b.PUInv slots w2 n2 ∧
      (∀ sl ∈ slots, C18b.flagOn w1 sl.flag → ∀ ev ∈ tr, ev ≠ .enter sl.task.id) ∧
      (n2.status ≠ .success →
        (∀ a sl b, slots = a ++ sl :: b → Ev.enter sl.task.id ∈ tr → ∀ y ∈ a, C18b.flagOn w2 y.flag) ∧
        (∀ sl ∈ slots, C18b.flagOn w1 sl.flag → C18b.flagOn w2 sl.flag) ∧
        (∀ k, k ∉ slots.map C18b.Slot.flag → w2 k = w1 k)) ∧
      (n2.status = .success →
        (∀ sl ∈ slots, w2 sl.flag = none) ∧ (∀ c ∈ n2.children, c.status = .success) ∧
        (∀ k, k ∉ slots.map C18b.Slot.flag → w2 k = w1 k)) := by
  obtain ⟨hp1, hinv1⟩ := C18_pickup_inv_run slots clearIds rid hok ops n w hp hinv hops n1 w1 hrun
  refine ⟨hp1, hinv1, ?_⟩
  intro e n2 w2 tr ht
  have ht' : tickF (height n1 + 1) e w1 n1 = .ok (n2, w2, tr) := ht
  refine ⟨C18b.isPickUp_of_skel hp1 (tick_skel e w1 n1 n2 w2 tr ht),
    C18b.puInv_tick slots clearIds rid n1 hp1 hok _ e w1 hinv1 n2 w2 tr ht',
    C18_pickup_tick_no_rerun_on slots clearIds rid n1 hp1 hok _ e w1 n2 w2 tr ht', ?_, ?_⟩
  · intro hns
    have hk := C18_pickup_tick_flags_kept slots clearIds rid n1 hp1 hok _ e w1 n2 w2 tr ht' hns
    exact ⟨C18_pickup_tick_order slots clearIds rid n1 hp1 hok _ e w1 hinv1 n2 w2 tr ht' hns,
      fun sl _ hf => hk.2.1 _ hf, hk.2.2⟩
  · intro hs
    exact C18_pickup_tick_success slots clearIds rid n1 hp1 hok _ e w1 hinv1 n2 w2 tr ht' hs

namespace C18b

/-! ## 6. connection to the constructor `Idioms.pickUp` + `Idioms.renumber` -/

/-- the slot node of a freshly built idiom -/
def freshSlot (sl : Slot) : Node := slotNode sl .invalid none .invalid [] .invalid none sl.task .invalid []

/-- the slots of the renumbered idiom, the first one starting at id `k`; also the first id after them -/
def slotsOf : Nat → List (String × Node) → List Slot × Nat
| k, [] => ([], k)
| k, (nm, t) :: ts =>
    let r := Idioms.renum (k + 3) t
    let rest := slotsOf (r.2.1 + 1) ts
    ({ flag := C18.puFlag nm, sid := k, gid := k + 1, wid := k + 2, setid := r.2.1, task := r.1 } :: rest.1, rest.2)

theorem renumL_cons (k : Nat) (c : Node) (cs : List Node) :
    (Idioms.renumL k (c :: cs)).1 = (Idioms.renum k c).1 :: (Idioms.renumL (Idioms.renum k c).2.1 cs).1 := by
  simp [Idioms.renumL]

theorem renum_guarded (k : Nat) (nm : String) (t : Node) :
    (Idioms.renum k (C18.puGuarded nm t)).1 =
      freshSlot { flag := C18.puFlag nm, sid := k, gid := k + 1, wid := k + 2, setid := (Idioms.renum (k + 3) t).2.1,
                  task := (Idioms.renum (k + 3) t).1 } ∧
    (Idioms.renum k (C18.puGuarded nm t)).2.1 = (Idioms.renum (k + 3) t).2.1 + 1 := by
  simp [C18.puGuarded, Idioms.renum, Idioms.renumL, freshSlot, slotNode, C18.flagCheck, C18.puSet]

theorem renumL_guarded : ∀ (ts : List (String × Node)) (k : Nat) (tail : List Node),
    (Idioms.renumL k (ts.map (fun p => C18.puGuarded p.1 p.2) ++ tail)).1 =
      (slotsOf k ts).1.map freshSlot ++ (Idioms.renumL (slotsOf k ts).2 tail).1
| [], k, tail => by simp [slotsOf]
| (nm, t) :: ts, k, tail => by
    simp only [List.map_cons, List.cons_append, renumL_cons, (renum_guarded k nm t).1, (renum_guarded k nm t).2,
      renumL_guarded ts _ tail, slotsOf]

theorem renumL_clear : ∀ (fl : List String) (k : Nat),
    (Idioms.renumL k (fl.map (fun f => leaf 0 .invalid (.unsetVar f) []))).1 =
      (fl.zip (List.range' k fl.length)).map (fun p => leaf p.2 .invalid (.unsetVar p.1) [])
| [], k => by simp [Idioms.renumL]
| f :: fl, k => by
    simp only [List.map_cons, renumL_cons, List.length_cons, List.range'_succ, List.zip_cons_cons]
    simp [Idioms.renum, renumL_clear fl (k + 1)]

theorem slotsOf_flags : ∀ (ts : List (String × Node)) (k : Nat),
    (slotsOf k ts).1.map Slot.flag = ts.map (fun p => C18.puFlag p.1)
| [], k => by simp [slotsOf]
| (nm, t) :: ts, k => by simp [slotsOf, slotsOf_flags ts]

theorem allRel_map {α : Type} (R : α → Node → Prop) (g : α → Node) (h : ∀ a, R a (g a)) :
    ∀ as : List α, AllRel R as (as.map g)
| [] => by simp [AllRel]
| a :: as => by simp only [List.map_cons, AllRel]; exact ⟨h a, allRel_map R g h as⟩

end C18b

/-- **7. connection to the constructor**, for EVERY task list: the tree built by `Idioms.pickUp` and numbered by
    `Idioms.renumber` is an instance of the idiom over the slots `slotsOf 2 tasks` (slot `i`: flag of task `i`, the task
    renumbered, consecutive pre-order ids), with root id 1 and the clearing leaves numbered after the last slot. -/
theorem C18_pickup_isPickUp (tasks : List (String × Node)) :
    C18b.IsPickUp (C18b.slotsOf 2 tasks).1 (List.range' (C18b.slotsOf 2 tasks).2 tasks.length) 1
      (Idioms.renumber (Idioms.pickUp tasks)) ∧
    (C18b.slotsOf 2 tasks).1.map C18b.Slot.flag = tasks.map (fun p => C18.puFlag p.1) ∧
    (Idioms.renumber (Idioms.pickUp tasks)).status = .invalid ∧
    (∀ c ∈ (Idioms.renumber (Idioms.pickUp tasks)).children, C18b.slotOK c = true) := by
  have hfl := C18b.slotsOf_flags tasks 2
  have hshape : Idioms.renumber (Idioms.pickUp tasks) =
      seq 1 true .invalid none ((C18b.slotsOf 2 tasks).1.map C18b.freshSlot ++
        ((tasks.map (fun p => C18.puFlag p.1)).zip (List.range' (C18b.slotsOf 2 tasks).2 tasks.length)).map
          (fun p => leaf p.2 .invalid (.unsetVar p.1) [])) := by
    rw [C18_pickup_shape]
    simp only [Idioms.renumber, Idioms.renum]
    rw [C18b.renumL_guarded]
    have : tasks.map (fun p => C18.puClear p.1) =
        (tasks.map (fun p => C18.puFlag p.1)).map (fun f => leaf 0 .invalid (.unsetVar f) []) := by
      simp [C18.puClear, List.map_map, Function.comp_def]
    rw [this, C18b.renumL_clear]
    simp
  refine ⟨?_, hfl, by rw [hshape]; rfl, ?_⟩
  · rw [hshape]
    refine ⟨.invalid, none, _, rfl, _, _, rfl, ?_, ?_⟩
    · exact C18b.allRel_map _ _ (fun sl => ⟨_, _, _, _, _, _, _, _, _, rfl, rfl⟩) _
    · unfold C18b.clearPairs
      rw [hfl]
      exact C18b.allRel_map _ _ (fun p => ⟨_, _, rfl⟩) _
  · rw [hshape]
    intro c hc
    simp only [Node.children, List.mem_append, List.mem_map] at hc
    rcases hc with ⟨sl, _, rfl⟩ | ⟨p, _, rfl⟩
    · rfl
    · rfl

/-- … so the freshly built idiom satisfies the state invariant with any blackboard -/
theorem C18_pickup_isPickUp_inv (tasks : List (String × Node)) (w : Store) :
    C18b.PUInv (C18b.slotsOf 2 tasks).1 w (Idioms.renumber (Idioms.pickUp tasks)) := by
  obtain ⟨hp, _, hst, hcs⟩ := C18_pickup_isPickUp tasks
  exact C18_pickup_inv_fresh _ _ _ _ w hp (by rw [hst]; simp) hcs

namespace C18b

theorem allRel_mem_left {α : Type} (R : α → Node → Prop) : ∀ (as : List α) (ns : List Node), AllRel R as ns →
    ∀ a ∈ as, ∃ n ∈ ns, R a n
| [], [], _, a, ha => by simp at ha
| [], _ :: _, h, _, _ => by simp [AllRel] at h
| _ :: _, [], h, _, _ => by simp [AllRel] at h
| b :: as, m :: ns, h, a, ha => by
    simp only [AllRel] at h
    simp only [List.mem_cons] at ha
    rcases ha with rfl | ha
    · exact ⟨m, by simp, h.1⟩
    · obtain ⟨n, hn, hr⟩ := allRel_mem_left R as ns h.2 a ha
      exact ⟨n, by simp [hn], hr⟩

/-- **flags are set only by success, loop level**: a flag that was not set before the loop and is set after it belongs
    to a slot that was ticked in the loop and returned SUCCESS -/
theorem slotsLoop_set_only (f : Nat) (e : Env) : ∀ (sls : List Slot) (ns : List Node) (w : Store) (done : List Node)
    (r : Option (Node × List Node)) (w' : Store) (tr : List Ev), AllRel IsSlot sls ns →
    (∀ sl ∈ sls, noBB sl.task = true) → (∀ c ∈ ns, slotOK c = true) → (sls.map Slot.flag).Nodup →
    seqLoop (tickF f e) w ns = .ok (done, r, w', tr) →
    ∀ sl ∈ sls, ¬ flagOn w sl.flag → flagOn w' sl.flag → ∃ d ∈ done, IsSlot sl d ∧ d.status = .success
| [], [], w, done, r, w', tr, _, _, _, _, h => by intro sl hsl; simp at hsl
| [], n :: ns, w, done, r, w', tr, hr, _, _, _, h => by simp [AllRel] at hr
| s :: sls, [], w, done, r, w', tr, hr, _, _, _, h => by simp [AllRel] at hr
| s :: sls, n :: ns, w, done, r, w', tr, hr, hnb, hso, hnd, h => by
    simp only [AllRel] at hr
    simp only [List.map_cons, List.nodup_cons] at hnd
    obtain ⟨c1, w1, tr1, htc, hcase⟩ := seqLoop_cons_inv _ _ _ _ _ _ _ _ h
    obtain ⟨hshape, _, hb, hoth, _, _, _⟩ := C18_slot_tick s n hr.1 (hnb s (by simp)) f e w c1 w1 tr1 htc
    have hnb2 : ∀ x ∈ sls, noBB x.task = true := fun x hx => hnb x (by simp [hx])
    intro sl hsl hoff hon
    simp only [List.mem_cons] at hsl
    rcases hcase with ⟨hns, _, _, rfl, _⟩ | ⟨hs, d2, tr2, hl, rfl, _⟩
    · -- the loop stopped at the first slot, which did not return SUCCESS: no flag was set
      exfalso
      have hsame : w' sl.flag = w sl.flag := by
        by_cases hk : sl.flag = s.flag
        · have hoff' : ¬ flagOn w s.flag := by rw [← hk]; exact hoff
          obtain ⟨f', t0, t', trt, _, _, _, _, hs1, _, _, hw'⟩ :=
            hb (fun hx => hoff' (Or.inl hx)) (fun hx => hoff' (Or.inr hx)) (hso n (by simp))
          have : ¬ t'.status = .success := fun hx => hns (hs1.mpr hx)
          rw [hw', if_neg this]
        · exact hoth _ hk
      exact hoff (by simpa [flagOn, hsame] using hon)
    · rcases hsl with rfl | hsl
      · exact ⟨c1, by simp, hshape, hs⟩
      · have hk : sl.flag ≠ s.flag := by
          intro heq; apply hnd.1; rw [← heq]; exact List.mem_map_of_mem hsl
        have hoff1 : ¬ flagOn w1 sl.flag := by simpa [flagOn, hoth _ hk] using hoff
        obtain ⟨d, hd, h1, h2⟩ := slotsLoop_set_only f e sls ns w1 d2 r w' tr2 hr.2 hnb2
          (fun c hc => hso c (by simp [hc])) hnd.2 hl sl hsl hoff1 hon
        exact ⟨d, by simp [hd], h1, h2⟩

end C18b

/-- **5. the flags**, in the form of the task: in a state satisfying the invariant,
    * if the root does not return SUCCESS, nothing is cleared (this part holds in ANY state: `C18_pickup_tick_flags_kept`);
    * if the root returns SUCCESS, every flag is cleared: the next round starts afresh;
    * if the root returns SUCCESS, every slot has a node with status SUCCESS among the children of the root (and so has
      every other child): the idiom succeeds only after every task succeeded — through its flag or in this tick. -/
theorem C18_pickup_tick_flags (slots : List C18b.Slot) (clearIds : List Nat) (rid : Nat) (n : Node)
    (hp : C18b.IsPickUp slots clearIds rid n) (hok : C18b.PickUpOK slots clearIds rid)
    (f : Nat) (e : Env) (w : Store) (hinv : C18b.PUInv slots w n) (n' : Node) (w' : Store) (tr : List Ev)
    (h : tickF f e w n = .ok (n', w', tr)) :
    (n'.status ≠ .success → ∀ sl ∈ slots, w sl.flag = some (.bool true) → w' sl.flag = some (.bool true)) ∧
    (n'.status = .success → ∀ sl ∈ slots, w' sl.flag = none) ∧
    (n'.status = .success → ∀ sl ∈ slots, ∃ c ∈ n'.children, C18b.IsSlot sl c ∧ c.status = .success) := by
  refine ⟨fun hns => (C18_pickup_tick_flags_kept slots clearIds rid n hp hok f e w n' w' tr h hns).1,
    fun hs => (C18_pickup_tick_success slots clearIds rid n hp hok f e w hinv n' w' tr h hs).1, ?_⟩
  intro hs sl hsl
  have hall := (C18_pickup_tick_success slots clearIds rid n hp hok f e w hinv n' w' tr h hs).2.1
  obtain ⟨rst, rcur, cs, rfl, sn, cn, rfl, hsn, hcn⟩ :=
    C18b.isPickUp_of_skel hp (tickF_skel e f w n n' w' tr h)
  obtain ⟨c, hc, hsc⟩ := C18b.allRel_mem_left C18b.IsSlot slots sn hsn sl hsl
  have hmem : c ∈ (seq rid true rst rcur (sn ++ cn)).children := by simp [Node.children, hc]
  exact ⟨c, hmem, hsc, hall c hmem⟩

/-- **5, converse direction: flags become set only by a task that returned SUCCESS in this tick**: in a state satisfying
    the invariant, if the root does not return SUCCESS, a flag that was not set before the tick and is set after it
    belongs to a slot whose node returned SUCCESS in this tick. -/
theorem C18_pickup_tick_flag_set_only_by_success (slots : List C18b.Slot) (clearIds : List Nat) (rid : Nat) (n : Node)
    (hp : C18b.IsPickUp slots clearIds rid n) (hok : C18b.PickUpOK slots clearIds rid)
    (f : Nat) (e : Env) (w : Store) (hinv : C18b.PUInv slots w n) (n' : Node) (w' : Store) (tr : List Ev)
    (h : tickF f e w n = .ok (n', w', tr)) (hns : n'.status ≠ .success) :
    ∀ sl ∈ slots, ¬ C18b.flagOn w sl.flag → C18b.flagOn w' sl.flag →
      ∃ c ∈ n'.children, C18b.IsSlot sl c ∧ c.status = .success := by
  obtain ⟨rst, rcur, cs, rfl, sn, cn, rfl, hsn, hcn⟩ := hp
  intro sl hsl hoff hon
  by_cases hne : sn ++ cn = []
  · rw [hne] at h
    exact absurd (C18b.root_tick_empty f e w rid rst rcur n' w' tr h).1 hns
  · obtain ⟨f', s1, s2, before, pre, post, hslots, hbefore, hpre, hpost, hfl, hsucc, hso1, hso2, hcase⟩ :=
      C18b.pickup_tick_inv slots clearIds rid hok rst rcur sn cn hsn hcn hne f e w hinv n' w' tr h
    have hnb : ∀ z ∈ s2, C18b.noBB z.task = true := fun z hz => hok.1 z (C18b.mem_of_suffix hslots hz)
    rcases hcase with ⟨done, c', u, trl, hl, rfl, _⟩ | ⟨_, _, _, _, _, _, _, rfl, _⟩
    · have hnd : (s2.map C18b.Slot.flag).Nodup := by
        have := hok.2.1
        rw [hslots, List.map_append, List.nodup_append] at this
        exact this.2.1
      rw [hslots, List.mem_append] at hsl
      rcases hsl with hsl | hsl
      · exact absurd (hfl sl hsl) hoff
      · obtain ⟨d, hd, h1, h2⟩ := C18b.slotsLoop_set_only f' e s2 pre w done _ w' trl hpre hnb hso2 hnd hl sl hsl hoff hon
        exact ⟨d, by simp [Node.children, hd], h1, h2⟩
    · exact absurd rfl hns

/-! ## 7. non-vacuity: a concrete two-task instance -/

namespace C18b

/-- slots of a two-task idiom; ids as `Idioms.renumber` assigns them:
    1 root; 2 [3 guard A, 4 [5 task A, 6 set A]]; 7 [8 guard B, 9 [10 task B, 11 set B]]; 12, 13 clear A, B -/
def exSlots : List Slot :=
  [{ flag := "/a_done", sid := 2, gid := 3, wid := 4, setid := 6, task := leaf 5 .invalid .probe [] },
   { flag := "/b_done", sid := 7, gid := 8, wid := 9, setid := 11,
     task := seq 10 false .invalid none [leaf 14 .invalid (.tickCounter 1 .success 0) [], leaf 15 .invalid .probe []] }]

/-- the fresh instance -/
def exTree : Node :=
  seq 1 true .invalid none
    (exSlots.map freshSlot ++
     [leaf 12 .invalid (.unsetVar "/a_done") [], leaf 13 .invalid (.unsetVar "/b_done") []])

def exEnv (a b : Status) : Env := { outcome := fun i => if i = 5 then a else b, guard := fun _ => true, now := 0 }

theorem exTree_isPickUp : IsPickUp exSlots [12, 13] 1 exTree :=
  ⟨.invalid, none, _, rfl, exSlots.map freshSlot, _, rfl,
    allRel_map _ _ (fun sl => ⟨_, _, _, _, _, _, _, _, _, rfl, rfl⟩) _,
    ⟨⟨_, _, rfl⟩, ⟨_, _, rfl⟩, trivial⟩⟩

end C18b
open C18b

example : noBB (leaf 5 .invalid .probe []) = true := by decide
example : ∀ sl ∈ exSlots, noBB sl.task = true := by decide
example : noBB (leaf 1 .invalid (.setVar "x" [] (.bool true) true) []) = false := by decide
example : noBB (dec 1 (.statusToBB "x" []) .invalid (leaf 2 .invalid .probe [])) = false := by decide
example : (pickUpSkel exSlots [12, 13] 1).ids = [1, 2, 3, 4, 5, 6, 7, 8, 9, 10, 14, 15, 11, 12, 13] := by decide

theorem C18b.exTree_ok : PickUpOK exSlots [12, 13] 1 :=
  ⟨by decide, by decide, by decide, by decide⟩

/-- the fresh instance satisfies the invariant … -/
example (w : Store) : PUInv exSlots w exTree :=
  C18_pickup_inv_fresh exSlots [12, 13] 1 exTree w exTree_isPickUp (by decide) (by decide)

/-- … and so does every state reached from it -/
example (ops : List Op) (hops : ∀ op ∈ ops, OpOK exSlots op) (n1 : Node) (w1 : Store)
    (h : run ops exTree Store.empty = .ok (n1, w1)) : IsPickUp exSlots [12, 13] 1 n1 ∧ PUInv exSlots w1 n1 :=
  C18_pickup_inv_run exSlots [12, 13] 1 exTree_ok ops exTree Store.empty exTree_isPickUp
    (C18_pickup_inv_fresh exSlots [12, 13] 1 exTree _ exTree_isPickUp (by decide) (by decide)) hops n1 w1 h

-- the hypotheses of the tick theorems are satisfiable, on states that are not trivial:
-- task A succeeds, task B (a Sequence over a counter and a probe) keeps running; interrupt; tick again
example : (run [.tick (exEnv .success .running), .stop, .tick (exEnv .failure .running)] exTree Store.empty).toOption.map
    (fun r => (r.1.status, r.2 "/a_done" == some (.bool true), (r.2 "/b_done").isSome)) =
    some (.running, true, false) := by decide
-- in the second tick the flag of A is set at the start (hypothesis of 3) and task A (5) is not entered, task B (10) is
example : (match run [.tick (exEnv .success .running), .stop] exTree Store.empty with
    | .ok (n1, w1) => (match tick (exEnv .failure .running) w1 n1 with
        | .ok (_, _, tr) => some (w1 "/a_done" == some (.bool true), tr.contains (.enter 5), tr.contains (.enter 10))
        | .error _ => none)
    | .error _ => none) = some (true, false, true) := by decide
-- when B succeeds as well the root returns SUCCESS and both flags are gone (hypothesis and conclusion of 5)
example : (run [.tick (exEnv .success .running), .tick (exEnv .failure .success)] exTree Store.empty).toOption.map
    (fun r => (r.1.status, (r.2 "/a_done").isSome, (r.2 "/b_done").isSome, r.1.children.map Node.status)) =
    some (.success, false, false, [.success, .success, .success, .success]) := by decide
-- `OpOK`: pokes of other variables are allowed, pokes of the flags are not
example : OpOK exSlots (.poke "/other" (some (.int 3))) := by simp [OpOK, exSlots]
example : ¬ OpOK exSlots (.poke "/a_done" none) := by simp [OpOK, exSlots]
-- a slot whose flag is set / not set (hypotheses of 2a / 2b) and `slotOK`
example : flagOn (Store.empty.set "/a_done" (.bool true)) "/a_done" := Or.inl (by simp [Store.set])
example : ¬ flagOn Store.empty "/a_done" := by simp [flagOn, Store.empty]
example : ∀ c ∈ exTree.children, slotOK c = true := by decide
-- the builder instance of 7 for the two-task idiom of C18 (`C18.pu`): slots, clearing ids, root id
example : ((slotsOf 2 [("Task A", C18.probe), ("Task B", C18.probe)]).1.map
      (fun sl => (sl.sid, sl.gid, sl.wid, sl.task.id, sl.setid)),
    (slotsOf 2 [("Task A", C18.probe), ("Task B", C18.probe)]).2) = ([(2, 3, 4, 5, 6), (7, 8, 9, 10, 11)], 12) := by
  decide
example : IsPickUp (slotsOf 2 [("Task A", C18.probe), ("Task B", C18.probe)]).1 (List.range' 12 2) 1 C18.pu :=
  (C18_pickup_isPickUp [("Task A", C18.probe), ("Task B", C18.probe)]).1
open C18b

/-! ### why 4 and the SUCCESS half of 5 need the invariant `PUInv`

  `IsPickUp` allows ANY runtime state, also states no history can reach.  In such states the order / "starts afresh"
  statements are false, which is why they carry the hypothesis `PUInv` (true initially and kept by every operation,
  `C18_pickup_inv_step`); 3 and the "nothing is cleared" half of 5 hold without it. -/

namespace C18b
/-- an UNREACHABLE state: the root claims to be RUNNING at slot B although task A never ran -/
def exBad1 : Node :=
  seq 1 true .running (some 7)
    (exSlots.map freshSlot ++ [leaf 12 .invalid (.unsetVar "/a_done") [], leaf 13 .invalid (.unsetVar "/b_done") []])
/-- an UNREACHABLE state: the root claims to be RUNNING at the last clearing leaf -/
def exBad2 : Node :=
  seq 1 true .running (some 13)
    (exSlots.map freshSlot ++ [leaf 12 .invalid (.unsetVar "/a_done") [], leaf 13 .invalid (.unsetVar "/b_done") []])
end C18b

example : IsPickUp exSlots [12, 13] 1 exBad1 :=
  ⟨.running, some 7, _, rfl, exSlots.map freshSlot, _, rfl,
    allRel_map _ _ (fun sl => ⟨_, _, _, _, _, _, _, _, _, rfl, rfl⟩) _, ⟨⟨_, _, rfl⟩, ⟨_, _, rfl⟩, trivial⟩⟩
/-- without the invariant, 4 fails: task B (10) is entered, the root is RUNNING, yet the flag of A is not set -/
example : (match tick (exEnv .running .running) Store.empty exBad1 with
    | .ok (n', w', tr) => some (n'.status, tr.contains (.enter 10), (w' "/a_done").isSome)
    | .error _ => none) = some (.running, true, false) := by decide
/-- without the invariant, the SUCCESS half of 5 fails: the root returns SUCCESS but the flag of A is still there -/
example : (match tick (exEnv .running .running) (Store.empty.set "/a_done" (.bool true)) exBad2 with
    | .ok (n', w', _) => some (n'.status, w' "/a_done" == some (.bool true))
    | .error _ => none) = some (.success, true) := by decide
