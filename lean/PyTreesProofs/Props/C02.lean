/-
  C02 — Interruption leaves no dangling RUNNING behaviour.

  Quantification: as C01 (all trees of the model, all histories of ticks with arbitrary environments, root
  interrupts, blackboard pokes, any length); checked in every reachable state.  Trees whose Parallel has an
  invalid selection raise `Err.policy` mid-tick; `run` stops there and the statements speak about histories
  that did not raise (C05 covers the rejection itself).
-/
import PyTreesProofs.Lemmas.Stop
open Node

/-- **no dangling RUNNING**: in every reachable state, a behaviour that is not RUNNING has no RUNNING behaviour
    anywhere below it. -/
theorem C02_closed (ops : List Op) (n n' : Node) (w' : Store) (hf : isFresh n = true)
    (hops : ∀ op ∈ ops, ValidOp op) (h : run ops n Store.empty = .ok (n', w')) :
    ∀ m ∈ nodes n', m.status ≠ .running → ∀ x ∈ nodes m, x.status ≠ .running := by
  intro m hm hs x hx
  have hg := (reachable_good ops n n' w' hf hops h).1
  have hwm := wf_of_mem_nodes n' m hg.1 hm
  exact noRun_of_mem_nodes m x (wf_noRun hwm hs) hx

theorem children_subset_nodes (m c : Node) (hc : c ∈ m.children) : c ∈ nodes m := by
  cases m with
  | leaf i s k l => simp [children] at hc
  | seq i mm s cur cs =>
    simp only [children] at hc; simp only [nodes, List.mem_cons]; right
    induction cs with
    | nil => simp at hc
    | cons a cs ih =>
      simp only [List.mem_cons] at hc; simp only [nodesL, List.mem_append]
      rcases hc with rfl | hc
      · exact Or.inl (self_mem_nodes _)
      · exact Or.inr (ih hc)
  | sel i mm s cur cs =>
    simp only [children] at hc; simp only [nodes, List.mem_cons]; right
    induction cs with
    | nil => simp at hc
    | cons a cs ih =>
      simp only [List.mem_cons] at hc; simp only [nodesL, List.mem_append]
      rcases hc with rfl | hc
      · exact Or.inl (self_mem_nodes _)
      · exact Or.inr (ih hc)
  | par i p s cur cs =>
    simp only [children] at hc; simp only [nodes, List.mem_cons]; right
    induction cs with
    | nil => simp at hc
    | cons a cs ih =>
      simp only [List.mem_cons] at hc; simp only [nodesL, List.mem_append]
      rcases hc with rfl | hc
      · exact Or.inl (self_mem_nodes _)
      · exact Or.inr (ih hc)
  | dec i k s c' =>
    simp only [children, List.mem_singleton] at hc; subst hc
    simp only [nodes, List.mem_cons]; right; exact self_mem_nodes _

/-- the same in parent/child form: **every RUNNING behaviour has a RUNNING parent**, all the way up to the behaviour
    that was ticked. -/
theorem C02_running_parent (ops : List Op) (n n' : Node) (w' : Store) (hf : isFresh n = true)
    (hops : ∀ op ∈ ops, ValidOp op) (h : run ops n Store.empty = .ok (n', w')) :
    ∀ m ∈ nodes n', ∀ c ∈ m.children, c.status = .running → m.status = .running := by
  intro m hm c hc hr
  apply Classical.byContradiction
  intro hs
  exact C02_closed ops n n' w' hf hops h m hm hs c (children_subset_nodes m c hc) hr

/-- **stop(INVALID) leaves every behaviour of the subtree INVALID**, in every state satisfying the invariant (hence in
    every reachable state and for every subtree of it). -/
theorem C02_stop_all_invalid (n : Node) (hg : Good n) : ∀ m ∈ nodes (stopInv n).1, m.status = .invalid :=
  fun m hm => allInv_of_mem_nodes _ m (stopInv_allInv n hg.1) hm

/-- … and **every leaf that was RUNNING has been notified through terminate(INVALID)** (exactly one such callback is
    appended to its log), leaves that were INVALID already are not called. -/
theorem C02_stop_notifies (n : Node) (hg : Good n) : Zip2 StopRel (leafLogs n) (leafLogs (stopInv n).1) :=
  stopInv_leafLogs n hg.1

/-- interrupting the root of any reachable state -/
theorem C02_reachable_stop (ops : List Op) (n n' : Node) (w' : Store) (hf : isFresh n = true)
    (hops : ∀ op ∈ ops, ValidOp op) (h : run ops n Store.empty = .ok (n', w')) :
    (∀ m ∈ nodes (stopInv n').1, m.status = .invalid) ∧ Zip2 StopRel (leafLogs n') (leafLogs (stopInv n').1) :=
  have hg := (reachable_good ops n n' w' hf hops h).1
  ⟨C02_stop_all_invalid n' hg, C02_stop_notifies n' hg⟩

/-- interrupting any subtree of any reachable state (what a composite or decorator does to a child) -/
theorem C02_reachable_stop_subtree (ops : List Op) (n n' : Node) (w' : Store) (hf : isFresh n = true)
    (hops : ∀ op ∈ ops, ValidOp op) (h : run ops n Store.empty = .ok (n', w')) (m : Node) (hm : m ∈ nodes n') :
    (∀ x ∈ nodes (stopInv m).1, x.status = .invalid) ∧ Zip2 StopRel (leafLogs m) (leafLogs (stopInv m).1) := by
  have hg := (reachable_good ops n n' w' hf hops h).1
  have hwm := wf_of_mem_nodes n' m hg.1 hm
  exact ⟨fun x hx => allInv_of_mem_nodes _ x (stopInv_allInv m hwm) hx, stopInv_leafLogs m hwm⟩

/-! non-vacuity: the case named in the property — a RUNNING leaf two levels below a decorator that converts RUNNING
    to SUCCESS inside a Sequence without memory -/
def C02_example : Node :=
  .seq 1 false .invalid none
    [.dec 2 .runningIsSuccess .invalid (.dec 3 .passThrough .invalid (.leaf 4 .invalid .probe [])),
     .leaf 5 .invalid .probe []]

def C02_env : Env := { outcome := fun _ => .running, guard := fun _ => true, now := 0 }

example : isFresh C02_example = true := by decide
-- after the tick leaf 4 was RUNNING for a moment and has been interrupted; 5 runs under RUNNING parents
example : (run [.tick C02_env] C02_example Store.empty).toOption.map (fun r => (nodes r.1).map (fun m => (m.id, m.status))) =
    some [(1, .running), (2, .success), (3, .invalid), (4, .invalid), (5, .running)] := by decide
example : (run [.tick C02_env] C02_example Store.empty).toOption.map (fun r => leafLogs r.1) =
    some [(4, .invalid, [.init, .upd .running, .term .invalid]), (5, .running, [.init, .upd .running])] := by decide
