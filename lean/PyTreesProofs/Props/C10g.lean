/-
  C10g — bridge between `Retry` / `Repeat` callbacks GENERATED from /repo's current source (PyTreesGen/C10.lean)
  and the hand-written model (`Node.decUpdate`, `Node.decInit`).
-/
import PyTreesModel.Tree
import PyTreesGen.C10

open Node

/-- `Retry.update`: new failure counter and returned status, for every counter value, limit and child status the
    decorator can see (a ticked child is never INVALID: `tickF_good`). -/
theorem C10_gen_retry_update (e : Env) (n : Int) (f : Nat) (cs : Status) (h : cs ≠ .invalid) :
    decUpdate e (.retry n f) cs =
      (.retry n (Gen.Retry_update f n cs).1.toNat, (Gen.Retry_update f n cs).2, false) := by
  cases cs <;> simp [decUpdate, Gen.Retry_update] at h ⊢
  split <;> simp_all <;> omega

theorem C10_gen_retry_initialise (e : Env) (n : Int) (f : Nat) :
    decInit e (.retry n f) = .retry n Gen.Retry_initialise.toNat := rfl

theorem C10_gen_repeat_update (e : Env) (n : Int) (s : Nat) (cs : Status) (h : cs ≠ .invalid) :
    decUpdate e (.repeat_ n s) cs =
      (.repeat_ n (Gen.Repeat_update n s cs).1.toNat, (Gen.Repeat_update n s cs).2, false) := by
  cases cs <;> simp [decUpdate, Gen.Repeat_update] at h ⊢
  split <;> simp_all <;> omega

theorem C10_gen_repeat_initialise (e : Env) (n : Int) (s : Nat) :
    decInit e (.repeat_ n s) = .repeat_ n Gen.Repeat_initialise.toNat := rfl

/-- `Timeout.update`: result and "cancels its child" flag, for every clock reading -/
theorem C10_gen_timeout_update (e : Env) (d fin : Int) (cs : Status) :
    decUpdate e (.timeout d fin) cs =
      (.timeout d fin, (Gen.Timeout_update fin cs e.now).1, (Gen.Timeout_update fin cs e.now).2) := by
  by_cases h : e.now > fin <;> cases cs <;> simp [decUpdate, Gen.Timeout_update, h]

theorem C10_gen_timeout_initialise (e : Env) (d fin : Int) :
    decInit e (.timeout d fin) = .timeout d (Gen.Timeout_initialise d e.now) := rfl

/-! ### OneShot: `update()` and `terminate()` (the latch) and the two policies of `common.OneShotPolicy` -/

theorem C10_gen_oneshot_update (e : Env) (both : Bool) (final : Option Status) (cs : Status) :
    decUpdate e (.oneShot both final) cs = (.oneShot both final, Gen.OneShot_update final cs, false) := by
  cases final <;> rfl

/-- the model's `both` flag stands for the policy ON_COMPLETION, its absence for ON_SUCCESSFUL_COMPLETION -/
theorem C10_gen_oneshot_terminate (both : Bool) (final : Option Status) (s : Status) :
    decTerminate s (.oneShot both final) =
      .oneShot both (Gen.OneShot_terminate final
        (if both then Gen.OneShotPolicy_ON_COMPLETION else Gen.OneShotPolicy_ON_SUCCESSFUL_COMPLETION) s) := by
  cases final <;> cases both <;> cases s <;>
    simp [decTerminate, Gen.OneShot_terminate, Gen.OneShotPolicy_ON_COMPLETION,
      Gen.OneShotPolicy_ON_SUCCESSFUL_COMPLETION]

/-- `EternalGuard.update()` (reached only while the condition holds): the child's status -/
theorem C10_gen_guard_update (e : Env) (g : Nat) (cs : Status) :
    decUpdate e (.guard g) cs = (.guard g, Gen.EternalGuard_update cs, false) := rfl
