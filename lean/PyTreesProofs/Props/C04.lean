/-
  C04 — Selector.

  "A Selector ticks its children in priority order (from the first child on fresh entry or whenever it has no memory;
  from the child that was RUNNING last tick when it has memory) until one returns RUNNING or SUCCESS, adopts that
  status, and returns FAILURE only when every child it ticked failed (an empty selector fails).  Whenever the selected
  child differs from the one selected on the previous tick, every lower-priority child that is not INVALID is
  interrupted, so at most one child of a selector is RUNNING after any tick; with memory, higher-priority children
  that are skipped are not ticked and show INVALID."

  Quantification: the loop theorems hold for an ARBITRARY child tick function `t`; the tick theorems hold for every
  fuel, environment, blackboard and selector node; `C04_one_running` holds in every reachable state.

  KNOWN FINDING K1 (see `C04_interrupt_on_change_partial` and `C04_stale_counterexample`): the clause "whenever the
  selected child differs from the one selected on the previous tick, every lower-priority child … is interrupted" does
  NOT hold as stated: on fresh entry the remembered selection is first reset to the FIRST child, so when the first
  child is selected on a fresh re-entry the lower-priority children keep their stale SUCCESS/FAILURE.  The stated
  purpose of the clause (at most one RUNNING child) does hold: `C04_one_running`.
-/
import PyTreesProofs.Lemmas.NoInternal
import PyTreesProofs.Lemmas.Stop
set_option linter.unusedVariables false
set_option linter.unusedSimpArgs false
open Node

/-- **an empty selector fails**. -/
theorem C04_empty (f : Nat) (e : Env) (w : Store) (i : Nat) (m : Bool) (st : Status) (cur : Option Nat) :
    ∃ tr, tickF (f+1) e w (sel i m st cur []) = .ok (sel i m .failure none [], w, tr) := by
  simp [tickF, bind, Except.bind, pure, Except.pure]

/-- **ticks in priority order until one child returns RUNNING or SUCCESS**: the children ticked before it all failed
    (returned neither RUNNING nor SUCCESS), and the children after it (`rest`) are literally the untouched suffix. -/
theorem C04_loop_selects (t : Tick) :
    ∀ (cs : List Node) (w : Store) (failed : List Node) (c' : Node) (rest : List Node) (w' : Store) (tr : List Ev),
      selLoop t w cs = .ok (failed, some (c', rest), w', tr) →
      (∀ x ∈ failed, x.status ≠ .running ∧ x.status ≠ .success) ∧
      (c'.status = .running ∨ c'.status = .success) ∧
      ∃ pre, cs = pre ++ rest ∧ pre.length = failed.length + 1 := by
  intro cs
  induction cs with
  | nil => intro w failed c' rest w' tr h; simp [selLoop, pure, Except.pure] at h
  | cons c cs ih =>
    intro w failed c' rest w' tr h
    simp only [selLoop, bind, Except.bind] at h
    cases htc : t w c with
    | error e => simp [htc] at h
    | ok v =>
      obtain ⟨c1, w1, trc⟩ := v
      simp only [htc] at h
      by_cases hs : c1.status = .running ∨ c1.status = .success
      · simp only [hs, ↓reduceIte, pure, Except.pure, Except.ok.injEq, Prod.mk.injEq, Option.some.injEq] at h
        obtain ⟨rfl, ⟨rfl, rfl⟩, rfl, rfl⟩ := h
        exact ⟨by simp, hs, [c], by simp, by simp⟩
      · simp only [hs, ↓reduceIte] at h
        cases hl : selLoop t w1 cs with
        | error e => simp [hl] at h
        | ok v2 =>
          obtain ⟨done2, r2, w2, tr2⟩ := v2
          simp only [hl, pure, Except.pure, Except.ok.injEq, Prod.mk.injEq] at h
          obtain ⟨rfl, rfl, rfl, rfl⟩ := h
          obtain ⟨i1, i2, pre, i3, i4⟩ := ih w1 done2 c' rest w2 tr2 hl
          refine ⟨?_, i2, c :: pre, by simp [i3], by simp [i4]⟩
          intro x hx; simp only [List.mem_cons] at hx
          rcases hx with rfl | hx
          · exact ⟨fun h => hs (Or.inl h), fun h => hs (Or.inr h)⟩
          · exact i1 x hx

/-- **the loop runs to the end only if every child failed** (and then every child was ticked). -/
theorem C04_loop_fails (t : Tick) :
    ∀ (cs : List Node) (w : Store) (failed : List Node) (w' : Store) (tr : List Ev),
      selLoop t w cs = .ok (failed, none, w', tr) →
      (∀ x ∈ failed, x.status ≠ .running ∧ x.status ≠ .success) ∧ failed.length = cs.length := by
  intro cs
  induction cs with
  | nil =>
    intro w failed w' tr h
    simp [selLoop, pure, Except.pure] at h; obtain ⟨rfl, rfl, rfl⟩ := h; simp
  | cons c cs ih =>
    intro w failed w' tr h
    simp only [selLoop, bind, Except.bind] at h
    cases htc : t w c with
    | error e => simp [htc] at h
    | ok v =>
      obtain ⟨c1, w1, trc⟩ := v
      simp only [htc] at h
      by_cases hs : c1.status = .running ∨ c1.status = .success
      · simp [hs, pure, Except.pure] at h
      · simp only [hs, ↓reduceIte] at h
        cases hl : selLoop t w1 cs with
        | error e => simp [hl] at h
        | ok v2 =>
          obtain ⟨done2, r2, w2, tr2⟩ := v2
          simp only [hl, pure, Except.pure, Except.ok.injEq, Prod.mk.injEq] at h
          obtain ⟨rfl, rfl, rfl, rfl⟩ := h
          obtain ⟨i1, i2⟩ := ih w1 done2 w2 tr2 hl
          refine ⟨?_, by simp [i2]⟩
          intro x hx; simp only [List.mem_cons] at hx
          rcases hx with rfl | hx
          · exact ⟨fun h => hs (Or.inl h), fun h => hs (Or.inr h)⟩
          · exact i1 x hx

/-- **the children ticked are a contiguous block from the start, each once, in order** (for any child tick function
    that keeps ids). -/
theorem C04_loop_order (t : Tick) (ht : ∀ w c c' w' tr, t w c = .ok (c', w', tr) → c'.id = c.id) :
    ∀ (cs : List Node) (w : Store) (failed : List Node) (r : Option (Node × List Node)) (w' : Store) (tr : List Ev),
      selLoop t w cs = .ok (failed, r, w', tr) →
      (failed.map Node.id ++ (match r with | some (c', _) => [c'.id] | none => [])) =
        (cs.map Node.id).take (failed.length + (match r with | some _ => 1 | none => 0)) := by
  intro cs
  induction cs with
  | nil =>
    intro w failed r w' tr h
    simp [selLoop, pure, Except.pure] at h; obtain ⟨rfl, rfl, rfl, rfl⟩ := h; simp
  | cons c cs ih =>
    intro w failed r w' tr h
    simp only [selLoop, bind, Except.bind] at h
    cases htc : t w c with
    | error e => simp [htc] at h
    | ok v =>
      obtain ⟨c1, w1, trc⟩ := v
      have hid := ht w c c1 w1 trc htc
      simp only [htc] at h
      by_cases hs : c1.status = .running ∨ c1.status = .success
      · simp only [hs, ↓reduceIte, pure, Except.pure, Except.ok.injEq, Prod.mk.injEq] at h
        obtain ⟨rfl, rfl, rfl, rfl⟩ := h
        simp [hid]
      · simp only [hs, ↓reduceIte] at h
        cases hl : selLoop t w1 cs with
        | error e => simp [hl] at h
        | ok v2 =>
          obtain ⟨done2, r2, w2, tr2⟩ := v2
          simp only [hl, pure, Except.pure, Except.ok.injEq, Prod.mk.injEq] at h
          obtain ⟨rfl, rfl, rfl, rfl⟩ := h
          have := ih w1 done2 r2 w2 tr2 hl
          cases r2 with
          | none =>
            simp only [List.append_nil, Nat.add_zero] at this
            simp only [List.map_cons, List.length_cons, List.append_nil, Nat.add_zero, hid, List.take_succ_cons,
              ← this]
          | some p =>
            simp only at this
            simp only [List.map_cons, List.length_cons, List.cons_append, hid]
            rw [show done2.length + 1 + 1 = (done2.length + 1) + 1 by omega, List.take_succ_cons, ← this]

/-- the selection the new one is compared with: on fresh entry the FIRST child (finding K1), otherwise the child
    remembered from the previous tick -/
def C04_cur0 (st : Status) (cur : Option Nat) (cs : List Node) : Option Nat :=
  if st ≠ .running then cs.head?.map Node.id else cur

/-- **without memory every tick starts at the first child**; nothing is stopped on entry. -/
theorem C04_entry_no_memory (st : Status) (cur : Option Nat) (cs : List Node) :
    selEntry st false cur cs = .ok (C04_cur0 st cur cs, [], cs, []) := by
  simp [selEntry, C04_cur0, pure, Except.pure]

/-- **with memory the tick starts at the remembered child**; the higher priorities before it are skipped (not
    ticked) and unconditionally stop(INVALID)-ed. -/
theorem C04_entry_memory (st : Status) (cur : Option Nat) (cs a b : List Node) (c : Nat)
    (hc : C04_cur0 st cur cs = some c) (hsp : splitAtId c cs = some (a, b)) :
    selEntry st true cur cs = .ok (some c, (stopInvAll a).1, b, (stopInvAll a).2) := by
  simp only [C04_cur0] at hc
  simp [selEntry, hc, hsp, pure, Except.pure]

/-- with memory but nothing remembered (the remembered child was removed) every priority is re-evaluated. -/
theorem C04_entry_memory_none (st : Status) (cur : Option Nat) (cs : List Node)
    (hc : C04_cur0 st cur cs = none) :
    selEntry st true cur cs = .ok (none, [], cs, []) := by
  simp only [C04_cur0] at hc
  simp [selEntry, hc, pure, Except.pure]

/-- whatever the case, the starting point is a suffix of the children, and it is the whole list without memory -/
theorem C04_entry_suffix (st : Status) (m : Bool) (cur cur0 : Option Nat) (cs before rest : List Node)
    (trP : List Ev) (h : selEntry st m cur cs = .ok (cur0, before, rest, trP)) :
    cur0 = C04_cur0 st cur cs ∧ ∃ a, cs = a ++ rest ∧ (before, trP) = stopInvAll a ∧ (m = false → a = []) := by
  cases m with
  | false =>
    rw [C04_entry_no_memory] at h
    simp only [Except.ok.injEq, Prod.mk.injEq] at h
    obtain ⟨rfl, rfl, rfl, rfl⟩ := h
    exact ⟨rfl, [], rfl, by simp [stopInvAll], fun _ => rfl⟩
  | true =>
    cases hc : C04_cur0 st cur cs with
    | none =>
      rw [C04_entry_memory_none st cur cs hc] at h
      simp only [Except.ok.injEq, Prod.mk.injEq] at h
      obtain ⟨rfl, rfl, rfl, rfl⟩ := h
      exact ⟨rfl, [], rfl, by simp [stopInvAll], by simp⟩
    | some c =>
      cases hsp : splitAtId c cs with
      | none =>
        simp only [C04_cur0] at hc
        simp [selEntry, hc, hsp, throw, throwThe, MonadExceptOf.throw] at h
      | some p =>
        obtain ⟨a, b⟩ := p
        rw [C04_entry_memory st cur cs a b c hc hsp] at h
        simp only [Except.ok.injEq, Prod.mk.injEq] at h
        obtain ⟨rfl, rfl, rfl, rfl⟩ := h
        exact ⟨rfl, a, (splitAtId_spec c cs a b hsp).1, rfl, by simp⟩

/-- **with memory, the higher-priority children that are skipped show INVALID** (they and everything below them). -/
theorem C04_memory_skipped_invalid (a : List Node) (h : wfL a = true) : allInvL (stopInvAll a).1 = true :=
  (stopInvAll_spec a h).2.1

/-- **shape of one tick of a non-empty selector**: entry, then the loop over the children from the starting point;
    the selector adopts the status of the child it selected (FAILURE if none); the lower-priority children after the
    selected one are carried over untouched if the selection equals the remembered one `cur0`, and are
    stop(INVALID)-ed (those that are not INVALID) otherwise. -/
theorem C04_tick_shape (f : Nat) (e : Env) (w : Store) (i : Nat) (m : Bool) (st : Status) (cur : Option Nat)
    (cs : List Node) (n' : Node) (w' : Store) (tr : List Ev) (hne : cs ≠ [])
    (h : tickF (f+1) e w (sel i m st cur cs) = .ok (n', w', tr)) :
    ∃ cur0 before rest trP failed r trL,
      selEntry st m cur cs = .ok (cur0, before, rest, trP) ∧
      selLoop (tickF f e) w rest = .ok (failed, r, w', trL) ∧
      (match r with
       | none => n'.status = .failure ∧ n'.children = before ++ failed
       | some (c', untouched) =>
           n'.status = c'.status ∧
           n'.children = before ++ failed ++
             c' :: (if cur0 = some c'.id then untouched else (stopInvNonInvalid untouched).1)) := by
  have hemp : cs.isEmpty = false := by cases cs with
    | nil => exact absurd rfl hne
    | cons a b => rfl
  simp only [tickF, hemp, Bool.false_eq_true, ↓reduceIte, bind, Except.bind] at h
  cases he : selEntry st m cur cs with
  | error x => simp [he] at h
  | ok v =>
    obtain ⟨cur0, before, rest, trP⟩ := v
    simp only [he, selRun, bind, Except.bind] at h
    cases hl : selLoop (tickF f e) w rest with
    | error x => simp [hl] at h
    | ok v2 =>
      obtain ⟨failed, r, w1, trL⟩ := v2
      simp only [hl] at h
      cases r with
      | none =>
        simp only [pure, Except.pure, Except.ok.injEq, Prod.mk.injEq] at h
        obtain ⟨rfl, rfl, rfl⟩ := h
        exact ⟨cur0, before, rest, trP, failed, none, trL, rfl, hl, by simp [status, children]⟩
      | some p =>
        obtain ⟨c', untouched⟩ := p
        by_cases hsame : cur0 = some c'.id
        · simp only [hsame, ↓reduceIte, pure, Except.pure, Except.ok.injEq, Prod.mk.injEq] at h
          obtain ⟨rfl, rfl, rfl⟩ := h
          exact ⟨cur0, before, rest, trP, failed, some (c', untouched), trL, rfl, hl,
            by simp [status, children, hsame]⟩
        · simp only [hsame, ↓reduceIte, pure, Except.pure, Except.ok.injEq, Prod.mk.injEq] at h
          obtain ⟨rfl, rfl, rfl⟩ := h
          exact ⟨cur0, before, rest, trP, failed, some (c', untouched), trL, rfl, hl,
            by simp [status, children, hsame]⟩

/-- **FAILURE exactly when every child it ticked failed**: the selector returns FAILURE iff the loop selected no
    child, and then the children it ticked (`failed`, all of `rest`) all returned neither RUNNING nor SUCCESS. -/
theorem C04_failure_iff (f : Nat) (e : Env) (w : Store) (i : Nat) (m : Bool) (st : Status) (cur : Option Nat)
    (cs : List Node) (n' : Node) (w' : Store) (tr : List Ev) (hne : cs ≠ [])
    (h : tickF (f+1) e w (sel i m st cur cs) = .ok (n', w', tr)) :
    ∃ cur0 before rest trP failed r trL,
      selEntry st m cur cs = .ok (cur0, before, rest, trP) ∧
      selLoop (tickF f e) w rest = .ok (failed, r, w', trL) ∧
      (n'.status = .failure ↔ r = none) ∧
      (n'.status = .failure → n'.children = before ++ failed ∧ failed.length = rest.length ∧
        ∀ c ∈ failed, c.status ≠ .running ∧ c.status ≠ .success) := by
  obtain ⟨cur0, before, rest, trP, failed, r, trL, he, hl, hr⟩ := C04_tick_shape f e w i m st cur cs n' w' tr hne h
  refine ⟨cur0, before, rest, trP, failed, r, trL, he, hl, ?_⟩
  cases r with
  | none =>
    simp only at hr
    obtain ⟨d1, d2⟩ := C04_loop_fails _ rest w failed w' trL hl
    exact ⟨by simp [hr.1], fun _ => ⟨hr.2, d2, d1⟩⟩
  | some p =>
    obtain ⟨c', untouched⟩ := p
    simp only at hr
    obtain ⟨_, d2, _⟩ := C04_loop_selects _ rest w failed c' untouched w' trL hl
    have hnf : n'.status ≠ .failure := by
      rw [hr.1]; rcases d2 with d | d <;> simp [d]
    exact ⟨by simp [hnf], fun hf => absurd hf hnf⟩

/-- the corollary in plain form: without memory a FAILURE selector has only children that failed in this tick. -/
theorem C04_failure_all_failed (f : Nat) (e : Env) (w : Store) (i : Nat) (st : Status) (cur : Option Nat)
    (cs : List Node) (n' : Node) (w' : Store) (tr : List Ev) (hne : cs ≠ [])
    (h : tickF (f+1) e w (sel i false st cur cs) = .ok (n', w', tr)) (hf : n'.status = .failure) :
    n'.children.length = cs.length ∧ ∀ c ∈ n'.children, c.status ≠ .running ∧ c.status ≠ .success := by
  obtain ⟨cur0, before, rest, trP, failed, r, trL, he, hl, _, hr⟩ :=
    C04_failure_iff f e w i false st cur cs n' w' tr hne h
  rw [C04_entry_no_memory] at he
  simp only [Except.ok.injEq, Prod.mk.injEq] at he
  obtain ⟨rfl, rfl, rfl, rfl⟩ := he
  obtain ⟨h1, h2, h3⟩ := hr hf
  rw [h1]; simpa [h2] using h3

/-
  FULL statement of the interruption clause (NOT provable — finding K1, refuted by `C04_stale_counterexample`):

    whenever the child selected by this tick differs from the child selected by the previous tick of the selector
    (in particular when the selector was not RUNNING before, i.e. nothing was selected), every lower-priority child
    (every child after the selected one) is INVALID after the tick:

      tickF (f+1) e w (sel i m st cur cs) = .ok (n', w', tr) → Good (sel i m st cur cs) → n'.children = pre ++ c' :: tail →
      n'.cur = some c'.id → (st ≠ .running ∨ cur ≠ some c'.id) → allInvL tail = true

  What holds is the same with "the child selected by the previous tick" replaced by the value `cur0 = C04_cur0 st cur cs`
  the implementation compares with: on fresh entry that is the FIRST child, not "none".
-/

/-- **interruption on a change of selection** (partial, finding K1): if the selected child differs from `cur0`
    (the remembered selection, or the first child on fresh entry) then every lower-priority child, and everything
    below it, is INVALID after the tick. -/
theorem C04_interrupt_on_change_partial (f : Nat) (e : Env) (w : Store) (i : Nat) (m : Bool) (st : Status)
    (cur : Option Nat) (cs : List Node) (n' : Node) (w' : Store) (tr : List Ev) (hw : wfL cs = true) (hne : cs ≠ [])
    (h : tickF (f+1) e w (sel i m st cur cs) = .ok (n', w', tr)) :
    ∃ before rest trP failed r trL,
      selEntry st m cur cs = .ok (C04_cur0 st cur cs, before, rest, trP) ∧
      selLoop (tickF f e) w rest = .ok (failed, r, w', trL) ∧
      ∀ c' untouched, r = some (c', untouched) → C04_cur0 st cur cs ≠ some c'.id →
        wfL untouched = true ∧
        n'.children = before ++ failed ++ c' :: (stopInvNonInvalid untouched).1 ∧
        allInvL (stopInvNonInvalid untouched).1 = true := by
  obtain ⟨cur0, before, rest, trP, failed, r, trL, he, hl, hr⟩ := C04_tick_shape f e w i m st cur cs n' w' tr hne h
  obtain ⟨rfl, a, hcs, _, _⟩ := C04_entry_suffix st m cur cur0 cs before rest trP he
  refine ⟨before, rest, trP, failed, r, trL, he, hl, ?_⟩
  intro c' untouched hrr hdiff
  subst hrr
  simp only [hdiff, ↓reduceIte] at hr
  obtain ⟨_, _, pre, hpre, _⟩ := C04_loop_selects _ rest w failed c' untouched w' trL hl
  have hwu : wfL untouched = true := by
    rw [hcs, hpre, wfL_append, wfL_append] at hw; exact hw.2.2
  exact ⟨hwu, hr.2, stopInvNonInvalid_allInvL untouched hwu⟩

/-- the bare form requested: the tail that `C04_tick_shape` places after a selected child that differs from `cur0`
    is entirely INVALID. -/
theorem C04_interrupt_tail_invalid (untouched : List Node) (h : wfL untouched = true) :
    allInvL (stopInvNonInvalid untouched).1 = true :=
  stopInvNonInvalid_allInvL untouched h

/-! ### the machine-checked counterexample to the full clause (finding K1) -/

def C04_sel3 : Node :=
  .sel 1 false .invalid none [.leaf 2 .invalid .probe [], .leaf 3 .invalid .probe [], .leaf 4 .invalid .probe []]

/-- the state after one tick in which all three probes FAIL -/
def C04_sel3_failed : Node :=
  .sel 1 false .failure (some 4)
    [.leaf 2 .failure .probe [.init, .upd .failure, .term .failure],
     .leaf 3 .failure .probe [.init, .upd .failure, .term .failure],
     .leaf 4 .failure .probe [.init, .upd .failure, .term .failure]]

def C04_env (o2 o3 o4 : Status) : Env :=
  { outcome := fun i => if i = 2 then o2 else if i = 3 then o3 else o4, guard := fun _ => true, now := 0 }

theorem C04_env_valid (o2 o3 o4 : Status) (h2 : o2 ≠ .invalid) (h3 : o3 ≠ .invalid) (h4 : o4 ≠ .invalid) :
    ValidEnv (C04_env o2 o3 o4) := by
  intro i; simp only [C04_env]; split
  · exact h2
  · split
    · exact h3
    · exact h4

/-- **K1**: a fresh memoryless selector over three probes; tick 1: all three FAIL (selector FAILURE, nothing selected,
    children F,F,F); tick 2: the first probe is RUNNING, so the selection changes from "nothing" to child 2 — yet the
    lower-priority children 3 and 4 still show the stale FAILURE of the previous tick instead of INVALID, and they
    received no callback in tick 2. -/
theorem C04_stale_counterexample :
    ∃ (n n2 : Node) (w w2 : Store) (tr : List Ev) (e : Env),
      isFresh C04_sel3 = true ∧ ValidEnv (C04_env .failure .failure .failure) ∧ ValidEnv e ∧
      run [.tick (C04_env .failure .failure .failure)] C04_sel3 Store.empty = .ok (n, w) ∧
      (nodes n).map (fun x => (x.id, x.status)) = [(1, .failure), (2, .failure), (3, .failure), (4, .failure)] ∧
      tick e w n = .ok (n2, w2, tr) ∧
      (nodes n2).map (fun x => (x.id, x.status)) = [(1, .running), (2, .running), (3, .failure), (4, .failure)] ∧
      tip n2 = some 2 ∧
      tr = [.enter 1, .enter 2, .init 2, .upd 2 .running, .yld 2 .running, .yld 1 .running] := by
  refine ⟨C04_sel3_failed,
    .sel 1 false .running (some 2)
      [.leaf 2 .running .probe [.init, .upd .failure, .term .failure, .init, .upd .running],
       .leaf 3 .failure .probe [.init, .upd .failure, .term .failure],
       .leaf 4 .failure .probe [.init, .upd .failure, .term .failure]],
    Store.empty, Store.empty, _, C04_env .running .failure .failure,
    by decide, C04_env_valid _ _ _ (by decide) (by decide) (by decide),
    C04_env_valid _ _ _ (by decide) (by decide) (by decide), rfl, by decide, rfl, by decide, by decide, rfl⟩

/-! ### the purpose of the clause, at full strength -/

/-- **at most one child of a selector is RUNNING** — in every reachable state, a child of a selector whose subtree
    contains a RUNNING node is the selected (current) child. -/
theorem C04_one_running (ops : List Op) (n n' : Node) (w' : Store) (hf : isFresh n = true)
    (hops : ∀ op ∈ ops, ValidOp op) (h : run ops n Store.empty = .ok (n', w')) :
    ∀ i m st cur cs, sel i m st cur cs ∈ nodes n' → ∀ c ∈ cs, noRun c = false → cur = some c.id := by
  intro i m st cur cs hm c hc hr
  have hg := (reachable_good ops n n' w' hf hops h).1
  have hwm := wf_of_mem_nodes n' _ hg.1 hm
  simp only [wf, Bool.and_eq_true] at hwm
  have hoc := hwm.1.1.1.2
  rw [onlyCur_iff] at hoc
  rcases hoc c hc with h1 | h1
  · rw [h1] at hr; exact absurd hr (by simp)
  · exact h1

/-- … hence two children containing RUNNING nodes are the same child (sibling ids are pairwise distinct). -/
theorem C04_one_running_unique (ops : List Op) (n n' : Node) (w' : Store) (hf : isFresh n = true)
    (hops : ∀ op ∈ ops, ValidOp op) (h : run ops n Store.empty = .ok (n', w')) :
    ∀ i m st cur cs, sel i m st cur cs ∈ nodes n' →
      (cs.map Node.id).Nodup ∧
      ∀ c₁ ∈ cs, ∀ c₂ ∈ cs, noRun c₁ = false → noRun c₂ = false → c₁.id = c₂.id := by
  intro i m st cur cs hm
  have hg := (reachable_good ops n n' w' hf hops h).1
  have hwm := wf_of_mem_nodes n' _ hg.1 hm
  simp only [wf, Bool.and_eq_true, decide_eq_true_eq] at hwm
  refine ⟨hwm.1.1.2, ?_⟩
  intro c₁ h₁ c₂ h₂ r₁ r₂
  have e₁ := C04_one_running ops n n' w' hf hops h i m st cur cs hm c₁ h₁ r₁
  have e₂ := C04_one_running ops n n' w' hf hops h i m st cur cs hm c₂ h₂ r₂
  rw [e₁] at e₂; exact Option.some.inj e₂

/-- in particular at most one child of a selector has status RUNNING -/
theorem C04_one_running_status (ops : List Op) (n n' : Node) (w' : Store) (hf : isFresh n = true)
    (hops : ∀ op ∈ ops, ValidOp op) (h : run ops n Store.empty = .ok (n', w')) :
    ∀ i m st cur cs, sel i m st cur cs ∈ nodes n' →
      ∀ c₁ ∈ cs, ∀ c₂ ∈ cs, c₁.status = .running → c₂.status = .running → c₁.id = c₂.id := by
  intro i m st cur cs hm c₁ h₁ c₂ h₂ r₁ r₂
  have hnr : ∀ c : Node, c.status = .running → noRun c = false := by
    intro c hc
    cases hn : noRun c with
    | false => rfl
    | true => exact absurd hc (noRun_status hn)
  exact (C04_one_running_unique ops n n' w' hf hops h i m st cur cs hm).2 c₁ h₁ c₂ h₂ (hnr c₁ r₁) (hnr c₂ r₂)

/-! ### non-vacuity -/

/-- result tree and trace of the last of a series of ticks -/
def C04_last : List Env → Node → Store → Option (Node × List Ev)
| [], _, _ => none
| [e], n, w => match tick e w n with
    | .ok (n', _, tr) => some (n', tr)
    | .error _ => none
| e :: es, n, w => match tick e w n with
    | .ok (n', w', _) => C04_last es n' w'
    | .error _ => none
/-- statuses (pre-order) and trace -/
def C04_view (es : List Env) (n : Node) : Option (List (Nat × Status) × List Ev) :=
  (C04_last es n Store.empty).map (fun r => ((nodes r.1).map (fun m => (m.id, m.status)), r.2))
/-- the leaves' own callback logs -/
def C04_logs (es : List Env) (n : Node) : Option (List (Nat × Status × List LEv)) :=
  (C04_last es n Store.empty).map (fun r => leafLogs r.1)

example : isFresh C04_sel3 = true := by decide
example : wfL C04_sel3_failed.children = true := by decide
-- priority interrupt: tick 1 (F, R, _) selects child 3; tick 2 child 2 is RUNNING ⇒ child 3 is interrupted: it
-- gets terminate(INVALID) and shows INVALID
example : C04_view [C04_env .failure .running .failure] C04_sel3 =
    some ([(1, .running), (2, .failure), (3, .running), (4, .invalid)],
      [.enter 1, .enter 2, .init 2, .upd 2 .failure, .term 2 .failure, .yld 2 .failure,
       .enter 3, .init 3, .upd 3 .running, .yld 3 .running, .yld 1 .running]) := by decide
example : C04_view [C04_env .failure .running .failure, C04_env .running .running .failure] C04_sel3 =
    some ([(1, .running), (2, .running), (3, .invalid), (4, .invalid)],
      [.enter 1, .enter 2, .init 2, .upd 2 .running, .yld 2 .running, .term 3 .invalid, .yld 1 .running]) := by decide
example : C04_logs [C04_env .failure .running .failure, C04_env .running .running .failure] C04_sel3 =
    some [(2, .running, [.init, .upd .failure, .term .failure, .init, .upd .running]),
       (3, .invalid, [.init, .upd .running, .term .invalid]), (4, .invalid, [])] := by decide
-- a memory selector skips the higher priority: tick 1 (F, R, _), tick 2 resumes at child 3 — no `enter 2` although
-- probe 2 would now succeed — and child 2 shows INVALID
def C04_sel3_mem : Node :=
  .sel 1 true .invalid none [.leaf 2 .invalid .probe [], .leaf 3 .invalid .probe [], .leaf 4 .invalid .probe []]
example : C04_view [C04_env .failure .running .failure, C04_env .success .running .failure] C04_sel3_mem =
    some ([(1, .running), (2, .invalid), (3, .running), (4, .invalid)],
      [.enter 1, .term 2 .invalid, .enter 3, .upd 3 .running, .yld 3 .running, .yld 1 .running]) := by decide
example : C04_logs [C04_env .failure .running .failure, C04_env .success .running .failure] C04_sel3_mem =
    some [(2, .invalid, [.init, .upd .failure, .term .failure, .term .invalid]),
       (3, .running, [.init, .upd .running, .upd .running]), (4, .invalid, [])] := by decide
-- the hypotheses of `C04_entry_memory` are satisfiable
example : C04_cur0 .running (some 3)
    [.leaf 2 .failure .probe [], .leaf 3 .running .probe [], .leaf 4 .invalid .probe []] = some 3 := by decide
example : (splitAtId 3 [Node.leaf 2 .failure .probe [], .leaf 3 .running .probe [], .leaf 4 .invalid .probe []]).isSome
    = true := by decide
-- the hypothesis `cur0 ≠ some c'.id` of the interruption theorem holds in the priority-interrupt run above
-- (cur0 = some 3, selected 2), and fails in the K1 run (fresh entry: cur0 = some 2, selected 2)
example : C04_cur0 .failure (some 4) C04_sel3_failed.children = some 2 := by decide
