/-
  C19g — bridge between the four `tip()` methods GENERATED from /repo's current source (PyTreesGen/C19.lean, written
  by harness/py2lean.py on every run: `Behaviour.tip`, `Composite.tip`, `Decorator.tip`, `BehaviourTree.tip`) and the
  hand-written model (`Node.tip`).  The generated definitions are one level of the recursion each: what `tip()` of the
  current child / of the decorated child / of the root returns is a parameter.  The theorems say that the model's `tip`
  satisfies exactly these equations at every node, and that they determine it (`C19_gen_tip_unique`): any function on
  trees that obeys the generated equations is the model's `tip`.  If py_trees changes what one of these methods
  computes, the corresponding theorem stops checking.
-/
import PyTreesModel.Tree
import PyTreesGen.C19

open Node

/-- `current_child.tip()` in the model: the current child is remembered by id and looked up among the children -/
def curTip (cur : Option Nat) (cs : List Node) : Option Nat :=
  match cur with
  | some c => tipOf c cs
  | none => none

theorem C19_gen_behaviour_tip (i : Nat) (s : Status) (k : LeafKind) (log : List LEv) :
    tip (leaf i s k log) = Gen.Behaviour_tip i s := by
  cases s <;> simp [tip, Gen.Behaviour_tip]

theorem C19_gen_composite_tip_seq (i : Nat) (m : Bool) (s : Status) (cur : Option Nat) (cs : List Node) :
    tip (seq i m s cur cs) = Gen.Composite_tip i s cur.isNone (curTip cur cs) := by
  cases cur <;> cases s <;> simp [tip, curTip, Gen.Composite_tip, Gen.Behaviour_tip]

theorem C19_gen_composite_tip_sel (i : Nat) (m : Bool) (s : Status) (cur : Option Nat) (cs : List Node) :
    tip (sel i m s cur cs) = Gen.Composite_tip i s cur.isNone (curTip cur cs) := by
  cases cur <;> cases s <;> simp [tip, curTip, Gen.Composite_tip, Gen.Behaviour_tip]

theorem C19_gen_composite_tip_par (i : Nat) (p : Policy) (s : Status) (cur : Option Nat) (cs : List Node) :
    tip (par i p s cur cs) = Gen.Composite_tip i s cur.isNone (curTip cur cs) := by
  cases cur <;> cases s <;> simp [tip, curTip, Gen.Composite_tip, Gen.Behaviour_tip]

theorem C19_gen_decorator_tip (i : Nat) (k : DecKind) (s : Status) (c : Node) :
    tip (dec i k s c) = Gen.Decorator_tip i s c.status (tip c) := by
  cases hc : c.status <;> cases s <;> simp [tip, Gen.Decorator_tip, Gen.Behaviour_tip, hc]

/-- `BehaviourTree.tip()` is the root's tip (the `0=` entry of the driver's `P` line prints `tip root`) -/
theorem C19_gen_tree_tip (t : Option Nat) : Gen.BehaviourTree_tip t = t := by
  simp [Gen.BehaviourTree_tip]

/-- the generated equations as one step function over an arbitrary assignment `f` of tips to subtrees -/
def genStep (f : Node → Option Nat) : Node → Option Nat
| leaf i s _ _ => Gen.Behaviour_tip i s
| seq i _ s cur cs => Gen.Composite_tip i s cur.isNone (match cur with
    | some c => (cs.find? (fun x => x.id = c)).bind f | none => none)
| sel i _ s cur cs => Gen.Composite_tip i s cur.isNone (match cur with
    | some c => (cs.find? (fun x => x.id = c)).bind f | none => none)
| par i _ s cur cs => Gen.Composite_tip i s cur.isNone (match cur with
    | some c => (cs.find? (fun x => x.id = c)).bind f | none => none)
| dec i _ s c => Gen.Decorator_tip i s c.status (f c)

theorem tipOf_eq_find (c : Nat) (cs : List Node) :
    tipOf c cs = (cs.find? (fun x => x.id = c)).bind tip := by
  induction cs with
  | nil => simp [tipOf]
  | cons x xs ih =>
    by_cases h : x.id = c
    · simp [tipOf, h, List.find?]
    · simp [tipOf, h, List.find?, ih]

/-- the model's `tip` is a fixed point of the generated equations -/
theorem C19_gen_tip_fixed (n : Node) : tip n = genStep tip n := by
  cases n with
  | leaf i s k log => exact C19_gen_behaviour_tip i s k log
  | seq i m s cur cs =>
    rw [C19_gen_composite_tip_seq]; cases cur <;> simp [genStep, curTip, tipOf_eq_find]
  | sel i m s cur cs =>
    rw [C19_gen_composite_tip_sel]; cases cur <;> simp [genStep, curTip, tipOf_eq_find]
  | par i p s cur cs =>
    rw [C19_gen_composite_tip_par]; cases cur <;> simp [genStep, curTip, tipOf_eq_find]
  | dec i k s c => rw [C19_gen_decorator_tip]; simp [genStep]

theorem find_bind_congr (f g : Node → Option Nat) (c : Nat) (cs : List Node)
    (h : ∀ x ∈ cs, f x = g x) :
    (cs.find? (fun x => x.id = c)).bind f = (cs.find? (fun x => x.id = c)).bind g := by
  cases hx : cs.find? (fun x => x.id = c) with
  | none => rfl
  | some x => simp [Option.bind, h x (List.mem_of_find?_eq_some hx)]

/-- … and the only one: the generated equations determine `tip()` on every tree (induction on the size of the tree) -/
theorem C19_gen_tip_unique (f : Node → Option Nat) (hf : ∀ n, f n = genStep f n) : ∀ n, f n = tip n
  | leaf i s k log => by rw [hf, C19_gen_tip_fixed]; simp [genStep]
  | seq i m s cur cs => by
      have ih : ∀ x ∈ cs, f x = tip x := fun x hx => by
        have hlt := List.sizeOf_lt_of_mem hx
        exact C19_gen_tip_unique f hf x
      rw [hf, C19_gen_tip_fixed]; cases cur <;> simp [genStep, find_bind_congr f tip _ cs ih]
  | sel i m s cur cs => by
      have ih : ∀ x ∈ cs, f x = tip x := fun x hx => by
        have hlt := List.sizeOf_lt_of_mem hx
        exact C19_gen_tip_unique f hf x
      rw [hf, C19_gen_tip_fixed]; cases cur <;> simp [genStep, find_bind_congr f tip _ cs ih]
  | par i p s cur cs => by
      have ih : ∀ x ∈ cs, f x = tip x := fun x hx => by
        have hlt := List.sizeOf_lt_of_mem hx
        exact C19_gen_tip_unique f hf x
      rw [hf, C19_gen_tip_fixed]; cases cur <;> simp [genStep, find_bind_congr f tip _ cs ih]
  | dec i k s c => by
      have ih : f c = tip c := C19_gen_tip_unique f hf c
      rw [hf, C19_gen_tip_fixed]; simp [genStep, ih]
termination_by n => sizeOf n
decreasing_by all_goals (simp_wf; omega)

/-- non-vacuity: a concrete tree on which the generated equations yield the remembered child's tip -/
example : genStep tip (seq 1 true .running (some 3)
    [leaf 2 .success (.const .success) [], leaf 3 .running (.const .running) []]) = some 3 := by
  decide
