import PyTreesModel.BlackboardOps

/-
  C06 — read-your-writes: the blackboard storage refines a plain dictionary.

  The abstract dictionary is the association list `BB.storage` viewed through `AL.get`.  Part 1 proves the
  dictionary laws of `AL.get/put/del` (with the duplicate-free invariant `AL.NoDup` needed for `del`).
  Part 2 characterises every client entry point (`setattr/getattr/get/exists_/set/unset`) and the statics
  (`sget/sset`) as dictionary operations on the location `loc` that the client's remap table assigns to the
  absolute key, and derives read-your-writes across clients, namespaces, spellings and remaps.
-/

/-! ### dictionary laws -/

namespace AL

def NoDup {β : Type} (l : List (String × β)) : Prop := (l.map (·.1)).Nodup

theorem get_put_same {β : Type} (k : String) (v : β) (l : List (String × β)) :
    AL.get k (AL.put k v l) = some v := by
  induction l with
  | nil => simp [put, get]
  | cons p l ih =>
    obtain ⟨k', v'⟩ := p
    simp only [put]
    split <;> simp [get, *]

theorem get_put_other {β : Type} {k k' : String} (v : β) (l : List (String × β)) (hne : k' ≠ k) :
    AL.get k' (AL.put k v l) = AL.get k' l := by
  induction l with
  | nil => simp [put, get, Ne.symm hne]
  | cons p l ih =>
    obtain ⟨k₀, v₀⟩ := p
    simp only [put]
    split
    · next h => subst h; simp [get, Ne.symm hne]
    · simp [get, ih]

theorem get_eq_none_of_not_mem {β : Type} {k : String} {l : List (String × β)}
    (h : k ∉ l.map (·.1)) : AL.get k l = none := by
  induction l with
  | nil => rfl
  | cons p l ih =>
    obtain ⟨k₀, v₀⟩ := p
    simp only [List.map_cons, List.mem_cons, not_or] at h
    simp [get, Ne.symm h.1, ih h.2]

theorem mem_keys_of_get {β : Type} {k : String} {v : β} {l : List (String × β)}
    (h : AL.get k l = some v) : k ∈ l.map (·.1) := by
  apply Classical.byContradiction
  intro hn
  rw [get_eq_none_of_not_mem hn] at h
  cases h

theorem get_del_same {β : Type} (k : String) (l : List (String × β)) (hnd : AL.NoDup l) :
    AL.get k (AL.del k l) = none := by
  induction l with
  | nil => rfl
  | cons p l ih =>
    obtain ⟨k₀, v₀⟩ := p
    simp only [NoDup, List.map_cons, List.nodup_cons] at hnd
    simp only [del]
    split
    · next h => subst h; exact get_eq_none_of_not_mem hnd.1
    · next h => simp [get, h, ih hnd.2]

theorem get_del_other {β : Type} {k k' : String} (l : List (String × β)) (hne : k' ≠ k) :
    AL.get k' (AL.del k l) = AL.get k' l := by
  induction l with
  | nil => rfl
  | cons p l ih =>
    obtain ⟨k₀, v₀⟩ := p
    simp only [del]
    split
    · next h => subst h; simp [get, Ne.symm hne]
    · simp [get, ih]

theorem keys_put_subset {β : Type} (k : String) (v : β) (l : List (String × β)) :
    ∀ x, x ∈ (AL.put k v l).map (·.1) → x = k ∨ x ∈ l.map (·.1) := by
  induction l with
  | nil => intro x hx; simp [put] at hx; exact Or.inl hx
  | cons p l ih =>
    obtain ⟨k₀, v₀⟩ := p
    intro x hx
    simp only [put] at hx
    split at hx
    · next h => subst h; simp at hx ⊢; rcases hx with hx | hx <;> simp [hx]
    · simp only [List.map_cons, List.mem_cons] at hx ⊢
      rcases hx with hx | hx
      · exact Or.inr (Or.inl hx)
      · rcases ih x hx with h' | h'
        · exact Or.inl h'
        · exact Or.inr (Or.inr h')

theorem NoDup_put {β : Type} (k : String) (v : β) (l : List (String × β)) (hnd : AL.NoDup l) :
    AL.NoDup (AL.put k v l) := by
  induction l with
  | nil => simp [NoDup, put]
  | cons p l ih =>
    obtain ⟨k₀, v₀⟩ := p
    simp only [NoDup, List.map_cons, List.nodup_cons] at hnd
    simp only [put]
    split
    · next h => subst h; simp only [NoDup, List.map_cons, List.nodup_cons]; exact hnd
    · next h =>
      simp only [NoDup, List.map_cons, List.nodup_cons]
      refine ⟨?_, ih hnd.2⟩
      intro hm
      rcases keys_put_subset k v l _ hm with h' | h'
      · exact h h'
      · exact hnd.1 h'

theorem keys_del_subset {β : Type} (k : String) (l : List (String × β)) :
    ∀ x, x ∈ (AL.del k l).map (·.1) → x ∈ l.map (·.1) := by
  induction l with
  | nil => intro x hx; exact hx
  | cons p l ih =>
    obtain ⟨k₀, v₀⟩ := p
    intro x hx
    simp only [del] at hx
    split at hx
    · simp only [List.map_cons, List.mem_cons]; exact Or.inr hx
    · simp only [List.map_cons, List.mem_cons] at hx ⊢
      rcases hx with hx | hx
      · exact Or.inl hx
      · exact Or.inr (ih x hx)

theorem NoDup_del {β : Type} (k : String) (l : List (String × β)) (hnd : AL.NoDup l) :
    AL.NoDup (AL.del k l) := by
  induction l with
  | nil => exact hnd
  | cons p l ih =>
    obtain ⟨k₀, v₀⟩ := p
    simp only [NoDup, List.map_cons, List.nodup_cons] at hnd
    simp only [del]
    split
    · exact hnd.2
    · simp only [NoDup, List.map_cons, List.nodup_cons]
      exact ⟨fun hm => hnd.1 (keys_del_subset k l _ hm), ih hnd.2⟩

theorem del_of_get_none {β : Type} {k : String} {l : List (String × β)} (h : AL.get k l = none) :
    AL.del k l = l := by
  induction l with
  | nil => rfl
  | cons p l ih =>
    obtain ⟨k₀, v₀⟩ := p
    simp only [get] at h
    split at h
    · cases h
    · next hne => simp [del, hne, ih h]

end AL
namespace BB

@[simp] theorem push_storage (s : BB) (it : Item) : (s.push it).storage = s.storage := by
  unfold push; split <;> rfl
@[simp] theorem push_clients (s : BB) (it : Item) : (s.push it).clients = s.clients := by
  unfold push; split <;> rfl
@[simp] theorem push_client? (s : BB) (it : Item) (c : Nat) : (s.push it).client? c = s.client? c := by
  simp [client?]

theorem setattr_spec (s : BB) (c : Nat) (cl : Client) (name : String) (v : Val) (loc : String)
    (h : s.client? c = some cl)
    (hw : canWrite cl (absNameS cl.ns name) = true)
    (hr : AL.get (absNameS cl.ns name) cl.remap = some loc) :
    (s.setattr c name v).2 = .ok ∧ (s.setattr c name v).1.storage = AL.put loc v s.storage
      ∧ (s.setattr c name v).1.clients = s.clients := by
  simp only [setattr, h, hw, hr, Bool.not_true, Bool.false_eq_true, if_false]
  split <;> simp

theorem getattr_spec (s : BB) (c : Nat) (cl : Client) (name : String) (loc : String)
    (h : s.client? c = some cl)
    (hrd : canRead cl (absNameS cl.ns name) = true)
    (hr : AL.get (absNameS cl.ns name) cl.remap = some loc) :
    (s.getattr c name).1.storage = s.storage ∧ (s.getattr c name).1.clients = s.clients ∧
    (s.getattr c name).2 = (match AL.get loc s.storage with | some v => .val v | none => .keyError) := by
  have hperm : (!decide (absNameS cl.ns name ∈ cl.read) &&
      !(!decide (absNameS cl.ns name ∈ cl.read) &&
        (decide (absNameS cl.ns name ∈ cl.write) || decide (absNameS cl.ns name ∈ cl.excl)))) = false := by
    simp only [canRead] at hrd
    revert hrd
    cases decide (absNameS cl.ns name ∈ cl.read) <;> cases decide (absNameS cl.ns name ∈ cl.write) <;>
      cases decide (absNameS cl.ns name ∈ cl.excl) <;> simp
  simp only [getattr, h, hperm, hr, Bool.false_eq_true, if_false]
  cases hg : AL.get loc s.storage <;> simp

end BB
namespace BB

theorem get_spec (s : BB) (c : Nat) (cl : Client) (name : String) (loc : String)
    (h : s.client? c = some cl)
    (hrd : canRead cl (absNameS cl.ns (splitName name).1) = true)
    (hr : AL.get (absNameS cl.ns (splitName name).1) cl.remap = some loc) :
    (s.get c name).1.storage = s.storage ∧ (s.get c name).1.clients = s.clients ∧
    (s.get c name).2 =
      (match AL.get loc s.storage with
       | none => .keyError
       | some v =>
         if (splitName name).2.isEmpty || (splitName name).2 == [""] then .val v
         else (match v.getPath (splitName name).2 with | some x => .val x | none => .keyError)) := by
  obtain ⟨hs, hc, hres⟩ := getattr_spec s c cl _ loc h hrd hr
  unfold get
  rcases hsp : splitName name with ⟨k, path⟩
  simp only [hsp] at hs hc hres ⊢
  generalize s.getattr c k = r at hs hc hres
  obtain ⟨s1, res⟩ := r
  simp only at hs hc hres
  subst hres
  cases hg : AL.get loc s.storage with
  | none => simp [hs, hc]
  | some v =>
    simp only
    split
    · simp [hs, hc]
    · cases hp : v.getPath path <;> simp [hs, hc]

end BB
namespace BB

theorem exists_spec (s : BB) (c : Nat) (name : String) :
    (s.exists_ c name).1 = (s.get c name).1 ∧
    (s.exists_ c name).2 =
      (match (s.get c name).2 with
       | .val _ => .bool true
       | .fetcher _ => .bool true
       | .keyError => .bool false
       | r => r) := by
  unfold exists_
  generalize s.get c name = r
  obtain ⟨s1, res⟩ := r
  cases res <;> exact ⟨rfl, rfl⟩

theorem ow_none {ow : Bool} {loc : String} {st : List (String × Val)}
    (how : ow = true ∨ AL.get loc st = none) :
    (if ow = true then none else AL.get loc st) = none := by
  rcases how with h | h <;> simp [h]

end BB

theorem C06_set_no_overwrite (s : BB) (c : Nat) (cl : Client) (name : String) (v old : Val) (loc : String)
    (h : s.client? c = some cl)
    (hw : BB.canWrite cl (splitName (absNameS cl.ns name)).1 = true)
    (hr : AL.get (splitName (absNameS cl.ns name)).1 cl.remap = some loc)
    (ho : AL.get loc s.storage = some old) :
    (s.set c name v false).2 = .bool false ∧ (s.set c name v false).1.storage = s.storage := by
  unfold BB.set
  simp only [h]
  rcases hsp : splitName (absNameS cl.ns name) with ⟨key, path⟩
  simp only [hsp] at hw hr ⊢
  simp [hw, hr, ho]

theorem C06_set_plain (s : BB) (c : Nat) (cl : Client) (name : String) (v : Val) (ow : Bool) (loc : String)
    (h : s.client? c = some cl)
    (hw : BB.canWrite cl (splitName (absNameS cl.ns name)).1 = true)
    (hr : AL.get (splitName (absNameS cl.ns name)).1 cl.remap = some loc)
    (habs : absNameS cl.ns (splitName (absNameS cl.ns name)).1 = (splitName (absNameS cl.ns name)).1)
    (hpath : ((splitName (absNameS cl.ns name)).2.isEmpty || (splitName (absNameS cl.ns name)).2 == [""]) = true)
    (how : ow = true ∨ AL.get loc s.storage = none) :
    (s.set c name v ow).2 = .bool true ∧ (s.set c name v ow).1.storage = AL.put loc v s.storage := by
  unfold BB.set
  simp only [h]
  rcases hsp : splitName (absNameS cl.ns name) with ⟨key, path⟩
  simp only [hsp] at hw hr habs hpath ⊢
  obtain ⟨h1, h2, _⟩ := BB.setattr_spec s c cl key v loc h (by rw [habs]; exact hw) (by rw [habs]; exact hr)
  simp only [hw, hr, BB.ow_none how, hpath, Bool.not_true, Bool.false_eq_true, if_false, if_true]
  generalize s.setattr c key v = r at h1 h2
  obtain ⟨s1, res⟩ := r
  simp only at h1 h2
  subst h1
  exact ⟨rfl, h2⟩

theorem C06_set_nested_missing (s : BB) (c : Nat) (cl : Client) (name : String) (v : Val) (ow : Bool)
    (loc : String)
    (h : s.client? c = some cl)
    (hw : BB.canWrite cl (splitName (absNameS cl.ns name)).1 = true)
    (hr : AL.get (splitName (absNameS cl.ns name)).1 cl.remap = some loc)
    (habs : absNameS cl.ns (splitName (absNameS cl.ns name)).1 = (splitName (absNameS cl.ns name)).1)
    (hpath : ((splitName (absNameS cl.ns name)).2.isEmpty || (splitName (absNameS cl.ns name)).2 == [""]) = false)
    (_how : ow = true ∨ AL.get loc s.storage = none)
    (hg : AL.get loc s.storage = none) :
    (s.set c name v ow).2 = .keyError ∧ (s.set c name v ow).1.storage = s.storage := by
  unfold BB.set
  simp only [h]
  rcases hsp : splitName (absNameS cl.ns name) with ⟨key, path⟩
  simp only [hsp] at hw hr habs hpath ⊢
  have hrd : BB.canRead cl key = true := by
    simp only [BB.canWrite, BB.canRead] at hw ⊢
    revert hw
    cases decide (key ∈ cl.read) <;> cases decide (key ∈ cl.write) <;> cases decide (key ∈ cl.excl) <;> simp
  obtain ⟨h1, _, h2⟩ := BB.getattr_spec s c cl key loc h (by rw [habs]; exact hrd) (by rw [habs]; exact hr)
  simp only [hw, hr, BB.ow_none (Or.inr hg), hpath, Bool.not_true, Bool.false_eq_true, if_false]
  generalize s.getattr c key = r at h1 h2
  obtain ⟨s1, res⟩ := r
  simp only [hg] at h1 h2
  subst h2
  exact ⟨rfl, h1⟩
theorem BB.canRead_of_canWrite {cl : Client} {key : String} (hw : BB.canWrite cl key = true) :
    BB.canRead cl key = true := by
  simp only [BB.canWrite, BB.canRead] at hw ⊢
  revert hw
  cases decide (key ∈ cl.read) <;> cases decide (key ∈ cl.write) <;> cases decide (key ∈ cl.excl) <;> simp

theorem C06_set_nested_ok (s : BB) (c : Nat) (cl : Client) (name : String) (v old new : Val) (ow : Bool)
    (loc : String)
    (h : s.client? c = some cl)
    (hw : BB.canWrite cl (splitName (absNameS cl.ns name)).1 = true)
    (hr : AL.get (splitName (absNameS cl.ns name)).1 cl.remap = some loc)
    (habs : absNameS cl.ns (splitName (absNameS cl.ns name)).1 = (splitName (absNameS cl.ns name)).1)
    (hpath : ((splitName (absNameS cl.ns name)).2.isEmpty || (splitName (absNameS cl.ns name)).2 == [""]) = false)
    (how : ow = true ∨ AL.get loc s.storage = none)
    (hg : AL.get loc s.storage = some old)
    (hsp : old.setPath (splitName (absNameS cl.ns name)).2 v = some new) :
    (s.set c name v ow).2 = .bool true ∧ (s.set c name v ow).1.storage = AL.put loc new s.storage := by
  unfold BB.set
  simp only [h]
  rcases hsn : splitName (absNameS cl.ns name) with ⟨key, path⟩
  simp only [hsn] at hw hr habs hpath hsp ⊢
  obtain ⟨h1, _, h2⟩ := BB.getattr_spec s c cl key loc h
    (by rw [habs]; exact BB.canRead_of_canWrite hw) (by rw [habs]; exact hr)
  simp only [hw, hr, BB.ow_none how, hpath, Bool.not_true, Bool.false_eq_true, if_false]
  generalize s.getattr c key = r at h1 h2
  obtain ⟨s1, res⟩ := r
  simp only [hg] at h1 h2
  subst h2
  simp [hsp, h1]

theorem C06_set_nested_fail (s : BB) (c : Nat) (cl : Client) (name : String) (v old : Val) (ow : Bool)
    (loc : String)
    (h : s.client? c = some cl)
    (hw : BB.canWrite cl (splitName (absNameS cl.ns name)).1 = true)
    (hr : AL.get (splitName (absNameS cl.ns name)).1 cl.remap = some loc)
    (habs : absNameS cl.ns (splitName (absNameS cl.ns name)).1 = (splitName (absNameS cl.ns name)).1)
    (hpath : ((splitName (absNameS cl.ns name)).2.isEmpty || (splitName (absNameS cl.ns name)).2 == [""]) = false)
    (how : ow = true ∨ AL.get loc s.storage = none)
    (hg : AL.get loc s.storage = some old)
    (hsp : old.setPath (splitName (absNameS cl.ns name)).2 v = none) :
    (s.set c name v ow).2 = .bool false ∧ (s.set c name v ow).1.storage = s.storage := by
  unfold BB.set
  simp only [h]
  rcases hsn : splitName (absNameS cl.ns name) with ⟨key, path⟩
  simp only [hsn] at hw hr habs hpath hsp ⊢
  obtain ⟨h1, _, h2⟩ := BB.getattr_spec s c cl key loc h
    (by rw [habs]; exact BB.canRead_of_canWrite hw) (by rw [habs]; exact hr)
  simp only [hw, hr, BB.ow_none how, hpath, Bool.not_true, Bool.false_eq_true, if_false]
  generalize s.getattr c key = r at h1 h2
  obtain ⟨s1, res⟩ := r
  simp only [hg] at h1 h2
  subst h2
  simp [hsp, h1]

theorem BB.unset_spec (s : BB) (c : Nat) (cl : Client) (name : String) (loc : String)
    (h : s.client? c = some cl)
    (hr : AL.get (absNameS cl.ns name) cl.remap = some loc) :
    (s.unset c name).2 = .bool (AL.has loc s.storage) ∧
    (s.unset c name).1.storage = AL.del loc s.storage ∧
    (s.unset c name).1.clients = s.clients := by
  simp only [BB.unset, h, hr, BB.push_storage]
  cases hh : AL.has loc s.storage
  · have : AL.get loc s.storage = none := by
      simp only [AL.has] at hh
      cases hg : AL.get loc s.storage <;> simp_all
    simp [AL.del_of_get_none this]
  · simp

theorem C06_unset_refines (s : BB) (c : Nat) (cl : Client) (name : String) (loc : String)
    (h : s.client? c = some cl)
    (hr : AL.get (absNameS cl.ns name) cl.remap = some loc) :
    (s.unset c name).2 = .bool (AL.has loc s.storage) ∧
    (s.unset c name).1.storage = AL.del loc s.storage :=
  ⟨(BB.unset_spec s c cl name loc h hr).1, (BB.unset_spec s c cl name loc h hr).2.1⟩

theorem C06_read_your_writes (s : BB) (c₁ c₂ : Nat) (cl₁ cl₂ : Client) (name₁ name₂ : String) (v : Val)
    (loc : String)
    (h₁ : s.client? c₁ = some cl₁) (h₂ : s.client? c₂ = some cl₂)
    (hw : BB.canWrite cl₁ (absNameS cl₁.ns name₁) = true)
    (hr₁ : AL.get (absNameS cl₁.ns name₁) cl₁.remap = some loc)
    (hrd : BB.canRead cl₂ (absNameS cl₂.ns name₂) = true)
    (hr₂ : AL.get (absNameS cl₂.ns name₂) cl₂.remap = some loc) :
    ((s.setattr c₁ name₁ v).1.getattr c₂ name₂).2 = .val v := by
  obtain ⟨_, hst, hcl⟩ := BB.setattr_spec s c₁ cl₁ name₁ v loc h₁ hw hr₁
  have h₂' : (s.setattr c₁ name₁ v).1.client? c₂ = some cl₂ := by
    simp only [BB.client?] at h₂ ⊢; rw [hcl]; exact h₂
  obtain ⟨_, _, hres⟩ := BB.getattr_spec _ c₂ cl₂ name₂ loc h₂' hrd hr₂
  rw [hres, hst, AL.get_put_same]

theorem C06_unset_then_read (s : BB) (c₁ c₂ : Nat) (cl₁ cl₂ : Client) (name₁ name₂ : String) (loc : String)
    (h₁ : s.client? c₁ = some cl₁) (h₂ : s.client? c₂ = some cl₂)
    (hnd : AL.NoDup s.storage)
    (hr₁ : AL.get (absNameS cl₁.ns name₁) cl₁.remap = some loc)
    (hrd : BB.canRead cl₂ (absNameS cl₂.ns name₂) = true)
    (hr₂ : AL.get (absNameS cl₂.ns name₂) cl₂.remap = some loc) :
    ((s.unset c₁ name₁).1.getattr c₂ name₂).2 = .keyError ∧
    ∀ name₃, (splitName name₃).1 = name₂ →
      ((s.unset c₁ name₁).1.get c₂ name₃).2 = .keyError ∧
      ((s.unset c₁ name₁).1.exists_ c₂ name₃).2 = .bool false := by
  obtain ⟨_, hst, hcl⟩ := BB.unset_spec s c₁ cl₁ name₁ loc h₁ hr₁
  have h₂' : (s.unset c₁ name₁).1.client? c₂ = some cl₂ := by
    simp only [BB.client?] at h₂ ⊢; rw [hcl]; exact h₂
  have hnone : AL.get loc (s.unset c₁ name₁).1.storage = none := by
    rw [hst]; exact AL.get_del_same loc _ hnd
  refine ⟨?_, ?_⟩
  · obtain ⟨_, _, hres⟩ := BB.getattr_spec _ c₂ cl₂ name₂ loc h₂' hrd hr₂
    rw [hres, hnone]
  · intro name₃ hk
    subst hk
    obtain ⟨_, _, hres⟩ := BB.get_spec _ c₂ cl₂ name₃ loc h₂' hrd hr₂
    rw [hnone] at hres
    refine ⟨hres, ?_⟩
    rw [(BB.exists_spec _ c₂ name₃).2, hres]

theorem C06_sget_refines (s : BB) (name key : String)
    (hsp : splitName (absNameS "/" name) = (key, [])) :
    s.sget name = (match AL.get key s.storage with | some v => .val v | none => .keyError) := by
  simp only [BB.sget, hsp]
  cases AL.get key s.storage <;> simp

theorem C06_static_agree (s : BB) (name key : String) (v : Val)
    (hsp : splitName (absNameS "/" name) = (key, [])) :
    (s.sset name v).1.sget name = .val v := by
  rw [C06_sget_refines _ name key hsp]
  have : (s.sset name v).1.storage = AL.put key v s.storage := by
    simp only [BB.sset, hsp, List.isEmpty_nil, Bool.true_or, if_true]
    split <;> rfl
  rw [this, AL.get_put_same]
/-! ### the refinement theorems for attribute-style and get-style access -/

theorem C06_setattr_refines (s : BB) (c : Nat) (cl : Client) (name : String) (v : Val) (loc : String)
    (h : s.client? c = some cl)
    (hw : BB.canWrite cl (absNameS cl.ns name) = true)
    (hr : AL.get (absNameS cl.ns name) cl.remap = some loc) :
    (s.setattr c name v).2 = .ok ∧ (s.setattr c name v).1.storage = AL.put loc v s.storage :=
  ⟨(BB.setattr_spec s c cl name v loc h hw hr).1, (BB.setattr_spec s c cl name v loc h hw hr).2.1⟩

theorem C06_getattr_refines (s : BB) (c : Nat) (cl : Client) (name : String) (loc : String)
    (h : s.client? c = some cl)
    (hrd : BB.canRead cl (absNameS cl.ns name) = true)
    (hr : AL.get (absNameS cl.ns name) cl.remap = some loc) :
    (s.getattr c name).1.storage = s.storage ∧
    (s.getattr c name).2 = (match AL.get loc s.storage with | some v => .val v | none => .keyError) :=
  ⟨(BB.getattr_spec s c cl name loc h hrd hr).1, (BB.getattr_spec s c cl name loc h hrd hr).2.2⟩

theorem C06_get_refines (s : BB) (c : Nat) (cl : Client) (name : String) (loc : String)
    (h : s.client? c = some cl)
    (hrd : BB.canRead cl (absNameS cl.ns (splitName name).1) = true)
    (hr : AL.get (absNameS cl.ns (splitName name).1) cl.remap = some loc) :
    (s.get c name).1.storage = s.storage ∧
    (s.get c name).2 =
      (match AL.get loc s.storage with
       | none => .keyError
       | some v =>
         if (splitName name).2.isEmpty || (splitName name).2 == [""] then .val v
         else (match v.getPath (splitName name).2 with | some x => .val x | none => .keyError)) :=
  ⟨(BB.get_spec s c cl name loc h hrd hr).1, (BB.get_spec s c cl name loc h hrd hr).2.2⟩

theorem C06_exists_refines (s : BB) (c : Nat) (cl : Client) (name : String) (loc : String)
    (h : s.client? c = some cl)
    (hrd : BB.canRead cl (absNameS cl.ns (splitName name).1) = true)
    (hr : AL.get (absNameS cl.ns (splitName name).1) cl.remap = some loc) :
    (s.exists_ c name).1.storage = s.storage ∧
    (s.exists_ c name).2 =
      (match (s.get c name).2 with
       | .val _ => .bool true
       | .fetcher _ => .bool true
       | .keyError => .bool false
       | r => r) := by
  refine ⟨?_, (BB.exists_spec s c name).2⟩
  rw [(BB.exists_spec s c name).1]
  exact (BB.get_spec s c cl name loc h hrd hr).1

/-- `exists_` in closed form: true exactly when the location holds a value and the nested path resolves -/
theorem C06_exists_closed (s : BB) (c : Nat) (cl : Client) (name : String) (loc : String)
    (h : s.client? c = some cl)
    (hrd : BB.canRead cl (absNameS cl.ns (splitName name).1) = true)
    (hr : AL.get (absNameS cl.ns (splitName name).1) cl.remap = some loc) :
    (s.exists_ c name).2 =
      .bool (match AL.get loc s.storage with
       | none => false
       | some v =>
         ((splitName name).2.isEmpty || (splitName name).2 == [""]) || (v.getPath (splitName name).2).isSome) := by
  rw [(BB.exists_spec s c name).2, (BB.get_spec s c cl name loc h hrd hr).2.2]
  cases AL.get loc s.storage with
  | none => rfl
  | some v =>
    simp only
    cases hp : ((splitName name).2.isEmpty || (splitName name).2 == [""])
    · cases hq : v.getPath (splitName name).2 <;> simp
    · simp

/-! ### the duplicate-free invariant is maintained by the writes -/

theorem C06_setattr_preserves_NoDup (s : BB) (c : Nat) (name : String) (v : Val)
    (hnd : AL.NoDup s.storage) : AL.NoDup (s.setattr c name v).1.storage := by
  unfold BB.setattr
  split
  · exact hnd
  · simp only
    split
    · simpa using hnd
    · split
      · exact hnd
      · simp only
        split <;> (simp only [BB.push_storage]; exact AL.NoDup_put _ _ _ hnd)

theorem C06_unset_preserves_NoDup (s : BB) (c : Nat) (name : String)
    (hnd : AL.NoDup s.storage) : AL.NoDup (s.unset c name).1.storage := by
  unfold BB.unset
  split
  · exact hnd
  · simp only
    split
    · exact hnd
    · simp only [BB.push_storage]
      split
      · exact AL.NoDup_del _ _ hnd
      · simpa using hnd

/-! ### non-vacuity: a concrete history -/

namespace C06Ex

def nested : Val := .obj [("a", .obj [("b", .int 1)]), ("z", .int 0)]

/-- two clients in different namespaces; client 1 reads `/b/m`, remapped onto client 0's location `/a/k` -/
def hist : List BOp :=
  [ .new "a", .new "b",
    .register 0 "k" (some .write) false none,
    .register 1 "m" (some .read) false (some "/a/k"),
    .setattr 0 "k" nested ]

def s₀ : BB := BB.runOps hist

def isVal (r : Res) (v : Val) : Bool := match r with | .val x => x == v | _ => false
def isBool (r : Res) (b : Bool) : Bool := match r with | .bool x => x == b | _ => false
def isKeyError (r : Res) : Bool := match r with | .keyError => true | _ => false

instance (l : List (String × Val)) : Decidable (AL.NoDup l) := inferInstanceAs (Decidable (List.Nodup _))

/-- depth-2 nested write through client 0, read through the remapped client 1, in three spellings -/
example : isVal ((BB.runOps (hist ++ [.set 0 "k.a.b" (.int 7) true])).get 1 "m.a.b").2 (.int 7) = true := by decide
example : isVal ((BB.runOps (hist ++ [.set 0 "/a/k.a.b" (.int 7) true])).get 1 "/b/m.a.b").2 (.int 7) = true := by
  decide
example : isVal ((BB.runOps (hist ++ [.set 0 "k.a.b" (.int 7) true])).get 1 "m.z").2 (.int 0) = true := by decide
example : isVal ((BB.runOps (hist ++ [.set 0 "k.a.b" (.int 7) true])).sget "/a/k.a.b") (.int 7) = true := by decide
/-- no-overwrite leaves the value, unset removes it -/
example : isBool ((s₀.set 0 "k" (.int 3) false).2) false = true := by decide
example : isVal (((s₀.set 0 "k" (.int 3) false).1.get 1 "m.a.b").2) (.int 1) = true := by decide
example : isBool ((s₀.unset 1 "m").2) true = true := by decide
example : isKeyError (((s₀.unset 1 "m").1.getattr 0 "k").2) = true := by decide
example : isBool (((s₀.unset 1 "m").1.exists_ 0 "k.a").2) false = true := by decide

/-- the hypotheses of the theorems hold in `s₀` -/
example : ∃ cl₀ cl₁, s₀.client? 0 = some cl₀ ∧ s₀.client? 1 = some cl₁ ∧ cl₀.ns ≠ cl₁.ns ∧
    BB.canWrite cl₀ (absNameS cl₀.ns "k") = true ∧ AL.get (absNameS cl₀.ns "k") cl₀.remap = some "/a/k" ∧
    BB.canRead cl₁ (absNameS cl₁.ns "m") = true ∧ AL.get (absNameS cl₁.ns "m") cl₁.remap = some "/a/k" ∧
    BB.canWrite cl₀ (splitName (absNameS cl₀.ns "k.a.b")).1 = true ∧
    AL.get (splitName (absNameS cl₀.ns "k.a.b")).1 cl₀.remap = some "/a/k" ∧
    absNameS cl₀.ns (splitName (absNameS cl₀.ns "k.a.b")).1 = (splitName (absNameS cl₀.ns "k.a.b")).1 ∧
    ((splitName (absNameS cl₀.ns "k.a.b")).2.isEmpty || (splitName (absNameS cl₀.ns "k.a.b")).2 == [""]) = false ∧
    ((splitName (absNameS cl₀.ns "k")).2.isEmpty || (splitName (absNameS cl₀.ns "k")).2 == [""]) = true ∧
    (AL.get "/a/k" s₀.storage).isSome = true ∧
    ((AL.get "/a/k" s₀.storage).bind (fun old => old.setPath (splitName (absNameS cl₀.ns "k.a.b")).2 (.int 7))).isSome
      = true ∧
    ((AL.get "/a/k" s₀.storage).bind (fun old => old.setPath (splitName (absNameS cl₀.ns "k.z.b")).2 (.int 7))).isNone
      = true ∧
    AL.NoDup s₀.storage :=
  ⟨_, _, rfl, rfl, by decide, by decide, by decide, by decide, by decide, by decide, by decide, by decide,
    by decide, by decide, by decide, by decide, by decide, by decide⟩

/-- the theorems instantiated on `s₀` -/
example : ((s₀.setattr 0 "k" (.int 5)).1.getattr 1 "m").2 = .val (.int 5) :=
  C06_read_your_writes s₀ 0 1 _ _ "k" "m" (.int 5) "/a/k" rfl rfl (by decide) (by decide) (by decide) (by decide)

example : ((s₀.unset 1 "m").1.getattr 0 "k").2 = .keyError :=
  (C06_unset_then_read s₀ 1 0 _ _ "m" "k" "/a/k" rfl rfl (by decide) (by decide) (by decide) (by decide)).1

example : splitName (absNameS "/" "x/y") = ("/x/y", []) := by decide
example : (s₀.sset "x/y" (.int 2)).1.sget "x/y" = .val (.int 2) :=
  C06_static_agree s₀ "x/y" "/x/y" (.int 2) (by decide)

end C06Ex
