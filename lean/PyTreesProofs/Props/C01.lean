/-
  C01 — Behaviour lifecycle protocol: initialise / update / terminate ordering.

  The protocol is the automaton `protoStep` of Lemmas/Inv.lean (states idle / entered / running / closing s):
     idle —init→ entered;  entered|running —upd RUNNING→ running;  entered|running —upd s→ closing s (s ≠ RUNNING);
     closing s —term s→ idle;  running —term INVALID→ idle;  idle —term INVALID→ idle (a redundant
     invalidation of a leaf that is not in a round; `Decorator.stop` and the memory Selector do this and the
     property does not forbid it).  Everything else is rejected.
  `protoOK st log`: the leaf's whole callback log is accepted, the automaton is idle or running (never inside a
  round) and it is running exactly when the leaf's status is RUNNING.

  Quantification: every tree built from the model's node kinds (all composites / policies / decorators / stock
  leaves) that is freshly constructed with distinct sibling ids, every history of ticks with arbitrary
  outcomes ∈ {S,F,R}, guard values and clock readings, root interrupts and blackboard pokes, of any length.
-/
import PyTreesProofs.Lemmas.Stop
open Node

/-- **C01 (main).** In every reachable state every leaf's callback history follows the lifecycle protocol, and the
    leaf is inside a RUNNING round exactly when its status is RUNNING. -/
theorem C01_protocol (ops : List Op) (n n' : Node) (w' : Store) (hf : isFresh n = true)
    (hops : ∀ op ∈ ops, ValidOp op) (h : run ops n Store.empty = .ok (n', w')) :
    ∀ i s k log, leaf i s k log ∈ nodes n' → protoOK s log = true := by
  intro i s k log hm
  have hg := (reachable_good ops n n' w' hf hops h).1
  simpa [wf] using wf_of_mem_nodes n' _ hg.1 hm

theorem protoFold_none (l : List LEv) : l.foldl protoStep none = none := by
  induction l with
  | nil => rfl
  | cons a l ih => simpa [List.foldl, protoStep] using ih

/-- what acceptance means, clause by clause.  Let the log be `pre ++ ev :: post`. -/
theorem protoRun_split (pre post : List LEv) (ev : LEv) (f : PState)
    (h : protoRun (pre ++ ev :: post) = some f) :
    ∃ p q, protoRun pre = some p ∧ protoStep (some p) ev = some q ∧ post.foldl protoStep (some q) = some f := by
  rw [protoRun_append] at h
  cases hp : protoRun pre with
  | none => rw [hp] at h; simp only [List.foldl] at h; rw [show protoStep none ev = none from rfl, protoFold_none] at h; cases h
  | some p =>
    rw [hp] at h; simp only [List.foldl] at h
    cases hq : protoStep (some p) ev with
    | none => rw [hq, protoFold_none] at h; cases h
    | some q => rw [hq] at h; exact ⟨p, q, rfl, hq, h⟩

theorem protoOK_accepts {st : Status} {log : List LEv} (h : protoOK st log = true) :
    protoRun log = some .idle ∨ protoRun log = some .running := by
  unfold protoOK at h
  cases hp : protoRun log with
  | none => simp [hp] at h
  | some p => cases p <;> simp_all

/-- **initialise is immediately followed by update** (and never happens while RUNNING or inside a round). -/
theorem C01_init_then_update (st : Status) (pre post : List LEv) (h : protoOK st (pre ++ .init :: post) = true) :
    protoRun pre = some .idle ∧ ∃ s rest, post = .upd s :: rest := by
  rcases protoOK_accepts h with h | h
  all_goals
    obtain ⟨p, q, hp, hq, hf⟩ := protoRun_split pre post .init _ h
    cases p <;> simp [protoStep] at hq
    subst hq
    refine ⟨hp, ?_⟩
    cases post with
    | nil => simp [List.foldl] at hf
    | cons e rest =>
      cases e with
      | upd s => exact ⟨s, rest, rfl⟩
      | init => simp only [List.foldl] at hf; rw [show protoStep (some .entered) .init = none from rfl, protoFold_none] at hf; cases hf
      | term s => simp only [List.foldl] at hf; rw [show protoStep (some .entered) (.term s) = none from rfl, protoFold_none] at hf; cases hf

/-- **update happens only inside a round** (directly after initialise, or while RUNNING), and a completing update
    is immediately followed by terminate with exactly that status. -/
theorem C01_update_in_round (st : Status) (pre post : List LEv) (s : Status)
    (h : protoOK st (pre ++ .upd s :: post) = true) :
    (protoRun pre = some .entered ∨ protoRun pre = some .running) ∧
    (s ≠ .running → ∃ rest, post = .term s :: rest) := by
  rcases protoOK_accepts h with h | h
  all_goals
    obtain ⟨p, q, hp, hq, hf⟩ := protoRun_split pre post (.upd s) _ h
    cases p <;> simp [protoStep] at hq
    all_goals
      refine ⟨by simp [hp], ?_⟩
      intro hs
      simp only [hs, ↓reduceIte, Option.some.injEq] at hq
      subst hq
      cases post with
      | nil => simp [List.foldl] at hf
      | cons e rest =>
        cases e with
        | term s' =>
          simp only [List.foldl, protoStep] at hf
          by_cases hss : s = s'
          · subst hss; exact ⟨rest, rfl⟩
          · simp only [hss, ↓reduceIte] at hf; rw [protoFold_none] at hf; cases hf
        | init => simp only [List.foldl] at hf; rw [show protoStep (some (.closing s)) .init = none from rfl, protoFold_none] at hf; cases hf
        | upd s' => simp only [List.foldl] at hf; rw [show protoStep (some (.closing s)) (.upd s') = none from rfl, protoFold_none] at hf; cases hf

/-- **terminate(SUCCESS/FAILURE) never happens without the matching update result**: it directly follows an update
    that returned exactly that status; terminate(INVALID) otherwise only hits a RUNNING or an idle leaf. -/
theorem C01_terminate_matches (st : Status) (pre post : List LEv) (s : Status)
    (h : protoOK st (pre ++ .term s :: post) = true) :
    protoRun pre = some (.closing s) ∨ (s = .invalid ∧ (protoRun pre = some .running ∨ protoRun pre = some .idle)) := by
  rcases protoOK_accepts h with h | h
  all_goals
    obtain ⟨p, q, hp, hq, hf⟩ := protoRun_split pre post (.term s) _ h
    cases p with
    | idle => simp only [protoStep] at hq; split at hq <;> simp_all
    | running => simp only [protoStep] at hq; split at hq <;> simp_all
    | entered => simp [protoStep] at hq
    | closing s' =>
      simp only [protoStep] at hq
      split at hq
      · rename_i e; subst e; exact Or.inl hp
      · cases hq

/-- the automaton reaches `closing s` only through an update that returned `s` -/
theorem protoRun_closing (log : List LEv) (s : Status) (h : protoRun log = some (.closing s)) :
    ∃ pre, log = pre ++ [.upd s] ∧ s ≠ .running := by
  rcases List.eq_nil_or_concat log with rfl | ⟨pre, ev, rfl⟩
  · simp [protoRun] at h
  · rw [List.concat_eq_append, protoRun_append] at h
    simp only [List.foldl] at h
    cases hp : protoRun pre with
    | none => rw [hp] at h; cases h
    | some p =>
      rw [hp] at h
      cases p <;> cases ev <;> simp only [protoStep] at h <;> (try (cases h; done)) <;>
        (split at h) <;> simp_all

/-- **one leaf tick is contiguous in the global trace**: `[enter] [init]? [upd] [term]? [yld]`, nothing of another
    behaviour in between, initialise present exactly when the leaf was not RUNNING, terminate present exactly when
    update returned a completing status, with that status. -/
theorem C01_tick_contiguous (e : Env) (w : Store) (i : Nat) (st : Status) (k : LeafKind) (log : List LEv)
    (n' : Node) (w' : Store) (tr : List Ev) (h : leafTick e w i st k log = .ok (n', w', tr)) :
    ∃ o, n'.status = o ∧
      tr = [.enter i] ++ (if st ≠ .running then [.init i] else []) ++ [.upd i o] ++
           (if o ≠ .running then [.term i o] else []) ++ [.yld i o] := by
  simp only [leafTick, bind, Except.bind] at h
  generalize (if st ≠ .running then leafInit e k else k) = k0 at h
  cases hu : leafUpdate i e w k0 with
  | error err => simp [hu] at h
  | ok v =>
    obtain ⟨k1, o, w1⟩ := v
    simp only [hu, pure, Except.pure, Except.ok.injEq, Prod.mk.injEq] at h
    obtain ⟨rfl, _, rfl⟩ := h
    exact ⟨o, rfl, rfl⟩

/-- **an interrupted RUNNING leaf receives terminate(INVALID) exactly once and becomes INVALID**: `stop(INVALID)` of
    any well-formed subtree appends exactly `[term INVALID]` to the log of every leaf that was not INVALID (in
    particular every RUNNING one), nothing to the others, and leaves all of them INVALID. -/
theorem C01_interrupt_once (n : Node) (h : Good n) :
    Zip2 StopRel (leafLogs n) (leafLogs (stopInv n).1) := stopInv_leafLogs n h.1

/-! non-vacuity: a synchronised Parallel inside a Selector, interrupted while RUNNING -/
def C01_example : Node :=
  .sel 1 false .invalid none
    [.leaf 2 .invalid .probe [],
     .par 3 (.onAll true) .invalid none [.leaf 4 .invalid .probe [], .leaf 5 .invalid .probe []]]

def C01_env (o2 o4 o5 : Status) : Env :=
  { outcome := fun i => if i = 2 then o2 else if i = 4 then o4 else o5, guard := fun _ => true, now := 0 }

example : isFresh C01_example = true := by decide
example : (run [.tick (C01_env .failure .success .running), .tick (C01_env .failure .success .running),
               .tick (C01_env .running .success .success), .stop] C01_example Store.empty).toOption.map
            (fun r => leafLogs r.1) =
    some [(2, .invalid, [.init, .upd .failure, .term .failure, .init, .upd .failure, .term .failure,
                         .init, .upd .running, .term .invalid]),
          (4, .invalid, [.init, .upd .success, .term .success, .term .invalid]),
          (5, .invalid, [.init, .upd .running, .upd .running, .term .invalid])] := by decide

-- the hypotheses of the clause theorems are satisfiable, and the automaton rejects what the property forbids
example : protoOK .running ([.init, .upd .running] ++ .upd .running :: []) = true := by decide
example : protoOK .invalid [.init, .upd .running, .term .invalid, .term .invalid] = true := by decide
example : protoOK .running [.init, .upd .running, .init, .upd .running] = false := by decide   -- initialise while RUNNING
example : protoOK .success [.init, .upd .success] = false := by decide                         -- no terminate
example : protoOK .success [.init, .upd .success, .term .failure] = false := by decide         -- wrong terminate status
example : protoOK .success [.upd .success, .term .success] = false := by decide                -- update outside a round
example : protoOK .invalid [.init, .term .invalid] = false := by decide                        -- initialise without update
