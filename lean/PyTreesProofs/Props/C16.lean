/-
  C16 — the activity stream.

  "While the activity stream is enabled, every store access performed by a client operation appends exactly one
  record, in order, carrying the storage location, the client, the activity type determined by the outcome and the
  values involved; nothing is recorded while it is disabled.  The stream never holds more than its configured
  maximum number of records and always retains the most recent ones."
-/
import PyTreesModel.BlackboardOps

/-- the stream never holds more than its configured maximum number of records -/
def BB.StreamOK (s : BB) : Prop := ∀ mx d, s.stream = some (mx, d) → d.length ≤ mx

namespace C16

abbrev Stream := Option (Nat × List Item)

/-- `push` as a function of the stream field alone -/
def pushS : Stream → Item → Stream
| none, _ => none
| some (mx, d), it => some (mx, (d ++ [it]).drop ((d ++ [it]).length - mx))

theorem push_stream (s : BB) (it : Item) : (s.push it).stream = pushS s.stream it := by
  unfold BB.push pushS
  split <;> simp_all

/-- the stream `b` is obtained from the stream `a` by a (possibly empty) sequence of pushes -/
inductive Pushes : Stream → Stream → Prop
| refl (a : Stream) : Pushes a a
| snoc {a b : Stream} (it : Item) : Pushes a b → Pushes a (pushS b it)

theorem Pushes.trans {a b c : Stream} (h₁ : Pushes a b) (h₂ : Pushes b c) : Pushes a c := by
  induction h₂ with
  | refl => exact h₁
  | snoc it _ ih => exact Pushes.snoc it ih

theorem Pushes.one (a : Stream) (it : Item) : Pushes a (pushS a it) := Pushes.snoc it (Pushes.refl a)

theorem Pushes.of_eq {a b : Stream} (h : b = a) : Pushes a b := h ▸ Pushes.refl a

theorem Pushes.push (s : BB) (it : Item) : Pushes s.stream (s.push it).stream := by
  rw [push_stream]; exact Pushes.one _ _

/-- bound on a bare stream -/
def OKs (st : Stream) : Prop := ∀ mx d, st = some (mx, d) → d.length ≤ mx

theorem pushS_ok (st : Stream) (it : Item) : OKs (pushS st it) := by
  intro mx d h
  unfold pushS at h
  split at h
  · simp at h
  · simp only [Option.some.injEq, Prod.mk.injEq] at h
    obtain ⟨rfl, rfl⟩ := h
    simp only [List.length_drop, List.length_append, List.length_cons, List.length_nil]
    omega

theorem Pushes.ok {a b : Stream} (h : Pushes a b) (ha : OKs a) : OKs b := by
  cases h with
  | refl => exact ha
  | snoc it _ => exact pushS_ok _ _

theorem Pushes.none {a b : Stream} (h : Pushes a b) (ha : a = none) : b = none := by
  induction h with
  | refl => exact ha
  | snoc it _ ih => simp [ih, pushS]

/-! ### every model function only pushes -/

theorem setattr_pushes (s : BB) (c : Nat) (name : String) (v : Val) :
    Pushes s.stream (s.setattr c name v).1.stream := by
  unfold BB.setattr
  split
  · exact Pushes.refl _
  · simp only
    split
    · exact Pushes.push _ _
    · split
      · exact Pushes.refl _
      · split <;> exact Pushes.push _ _

theorem getattr_pushes (s : BB) (c : Nat) (name : String) :
    Pushes s.stream (s.getattr c name).1.stream := by
  unfold BB.getattr
  split
  · exact Pushes.refl _
  · simp only
    split
    · split
      · exact Pushes.refl _
      · exact Pushes.push _ _
    · split
      · exact Pushes.refl _
      · split <;> exact Pushes.push _ _

theorem get_fst (s : BB) (c : Nat) (name : String) :
    (s.get c name).1 = (s.getattr c (splitName name).1).1 := by
  unfold BB.get
  simp only
  split
  · rename_i h; rw [h]; simp only; split
    · rfl
    · split <;> rfl
  · rfl

theorem get_pushes (s : BB) (c : Nat) (name : String) : Pushes s.stream (s.get c name).1.stream := by
  rw [get_fst]; exact getattr_pushes _ _ _

theorem exists_fst (s : BB) (c : Nat) (name : String) : (s.exists_ c name).1 = (s.get c name).1 := by
  unfold BB.exists_
  split <;> rename_i h <;> (try rw [h]) <;> rfl

theorem exists_pushes (s : BB) (c : Nat) (name : String) : Pushes s.stream (s.exists_ c name).1.stream := by
  rw [exists_fst]; exact get_pushes _ _ _

theorem set_pushes (s : BB) (c : Nat) (name : String) (v : Val) (ow : Bool) :
    Pushes s.stream (s.set c name v ow).1.stream := by
  unfold BB.set
  split
  · exact Pushes.refl _
  · simp only
    split
    · exact Pushes.push _ _
    · split
      · exact Pushes.refl _
      · split
        · exact Pushes.push _ _
        · split
          · have := setattr_pushes s c (splitName (absNameS ‹Client›.ns name)).1 v
            split <;> rename_i h <;> (try rw [h] at this) <;> exact this
          · have := getattr_pushes s c (splitName (absNameS ‹Client›.ns name)).1
            split
            · rename_i h; rw [h] at this
              split <;> exact this
            · exact this

theorem unset_pushes (s : BB) (c : Nat) (name : String) : Pushes s.stream (s.unset c name).1.stream := by
  unfold BB.unset
  split
  · exact Pushes.refl _
  · simp only
    split
    · exact Pushes.refl _
    · split <;> exact Pushes.push _ _

theorem dotFetch_pushes (c : Nat) (path : List String) :
    ∀ (s : BB) (ns : String), Pushes s.stream (BB.dotGet.dotFetch s c ns path).1.stream := by
  induction path with
  | nil => intro s ns; exact Pushes.refl _
  | cons k rest ih =>
    intro s ns
    unfold BB.dotGet.dotFetch
    have hg := get_pushes s c (absNameS ns k)
    split
    · rename_i s1 ns' h
      rw [h] at hg
      exact hg.trans (ih s1 ns')
    · split <;> exact hg

theorem dotGet_pushes (s : BB) (c : Nat) (path : List String) :
    Pushes s.stream (s.dotGet c path).1.stream := by
  unfold BB.dotGet
  split
  · exact Pushes.refl _
  · exact getattr_pushes _ _ _
  · rename_i k rest _
    have hg := getattr_pushes s c k
    split
    · rename_i s1 ns h
      rw [h] at hg
      exact hg.trans (dotFetch_pushes c rest s1 ns)
    · exact hg

theorem dotSetGo_pushes (c : Nat) (v : Val) (path : List String) :
    ∀ (s : BB) (ns : String), Pushes s.stream (BB.dotSet.go c v s ns path).1.stream := by
  induction path with
  | nil => intro s ns; exact Pushes.refl _
  | cons k rest ih =>
    intro s ns
    unfold BB.dotSet.go
    split
    · exact Pushes.refl _
    · rename_i k' heq
      have hs := set_pushes s c (absNameS ns k') v true
      split
      · rename_i h; rw [h] at hs; exact hs
      · exact hs
    · rename_i k' rest' _ heq
      simp only [List.cons.injEq] at heq
      obtain ⟨rfl, rfl⟩ := heq
      have hg := get_pushes s c (absNameS ns k)
      split
      · rename_i s1 ns' h
        rw [h] at hg
        exact hg.trans (ih s1 ns')
      · rename_i h; rw [h] at hg; exact hg
      · exact hg

theorem dotSet_pushes (s : BB) (c : Nat) (path : List String) (v : Val) :
    Pushes s.stream (s.dotSet c path v).1.stream := by
  unfold BB.dotSet
  split
  · exact Pushes.refl _
  · exact setattr_pushes _ _ _ _
  · rename_i k rest _
    have hg := getattr_pushes s c k
    split
    · rename_i s1 ns h
      rw [h] at hg
      exact hg.trans (dotSetGo_pushes c v rest s1 ns)
    · exact hg

theorem register_stream (s : BB) (c : Nat) (name : String) (a : Option Access) (r : Bool) (rm : Option String) :
    (s.register c name a r rm).1.stream = s.stream := by
  unfold BB.register
  split
  · rfl
  · simp only
    split
    · rfl
    · rename_i acc
      cases acc <;> simp only <;> split <;> rfl

theorem unregisterKey_stream (s : BB) (c : Nat) (name : String) (clear upd : Bool) :
    (s.unregisterKey c name clear upd).1.stream = s.stream := by
  unfold BB.unregisterKey
  split
  · rfl
  · simp only
    split
    · rfl
    · split
      · rfl
      · simp only [BB.setClient]
        split <;> rfl

theorem unregisterKeys_stream (c : Nat) (clear : Bool) (ks : List String) :
    ∀ s : BB, (BB.unregisterKeys s c clear ks).1.stream = s.stream := by
  induction ks with
  | nil => intro s; rfl
  | cons k ks ih =>
    intro s
    unfold BB.unregisterKeys
    have hk := unregisterKey_stream s c k clear false
    split
    · rename_i s1 h
      rw [h] at hk
      rw [ih s1]; exact hk
    · exact hk

theorem unregisterAll_stream (s : BB) (c : Nat) (clear : Bool) (order : List String → List String) :
    (s.unregisterAll c clear order).1.stream = s.stream := by
  unfold BB.unregisterAll
  split
  · rfl
  · rename_i cl _
    have hk := unregisterKeys_stream c clear (order (BB.dedup (cl.read ++ cl.write ++ cl.excl))) s
    split
    · rename_i s1 h
      rw [h] at hk
      split <;> exact hk
    · exact hk

theorem unregister_stream (s : BB) (c : Nat) (clear : Bool) (order : List String → List String) :
    (s.unregister c clear order).1.stream = s.stream := by
  unfold BB.unregister
  have hk := unregisterAll_stream s c clear order
  split
  · rename_i s1 h
    rw [h] at hk
    split <;> exact hk
  · exact hk

theorem verifyGo_pushes (c : Nat) (ks : List String) :
    ∀ (s : BB) (absent : Bool), Pushes s.stream (BB.verify.go c s ks absent).1.stream := by
  induction ks with
  | nil => intro s absent; exact Pushes.refl _
  | cons k ks ih =>
    intro s absent
    unfold BB.verify.go
    have he := exists_pushes s c k
    split
    · rename_i s1 h; rw [h] at he; exact he.trans (ih s1 absent)
    · rename_i s1 h; rw [h] at he; exact he.trans (ih s1 true)
    · exact he

theorem verify_pushes (s : BB) (c : Nat) (order : List String → List String) :
    Pushes s.stream (s.verify c order).1.stream := by
  unfold BB.verify
  split
  · exact Pushes.refl _
  · exact verifyGo_pushes _ _ _ _

theorem sset_stream (s : BB) (name : String) (v : Val) : (s.sset name v).1.stream = s.stream := by
  unfold BB.sset
  simp only
  split
  · split <;> rfl
  · split
    · rfl
    · split
      · split <;> rfl
      · rfl

theorem sunset_stream (s : BB) (name : String) : (s.sunset name).1.stream = s.stream := by
  unfold BB.sunset
  simp only
  split <;> rfl

theorem newClient_stream (s : BB) (ns : String) : (s.newClient ns).1.stream = s.stream := rfl

/-- every operation other than the three stream controls only pushes onto the stream -/
theorem step_pushes (s : BB) (op : BOp) (h₁ : ∀ n, op ≠ .streamOn n) (h₂ : op ≠ .streamOff)
    (h₃ : op ≠ .streamClear) : Pushes s.stream (s.step op).1.stream := by
  cases op with
  | new ns => exact Pushes.of_eq (newClient_stream _ _)
  | register c name acc req remap => exact Pushes.of_eq (register_stream _ _ _ _ _ _)
  | unregisterKey c name clear => exact Pushes.of_eq (unregisterKey_stream _ _ _ _ _)
  | unregisterAll c clear => exact Pushes.of_eq (unregisterAll_stream _ _ _ _)
  | unregister c clear => exact Pushes.of_eq (unregister_stream _ _ _ _)
  | setattr c name v => exact setattr_pushes _ _ _ _
  | getattr c name => exact getattr_pushes _ _ _
  | set c name v ow => exact set_pushes _ _ _ _ _
  | get c name => exact get_pushes _ _ _
  | exists_ c name => exact exists_pushes _ _ _
  | unset c name => exact unset_pushes _ _ _
  | dotGet c path => exact dotGet_pushes _ _ _
  | dotSet c path v => exact dotSet_pushes _ _ _ _
  | verify c => exact verify_pushes _ _ _
  | sset name v => exact Pushes.of_eq (sset_stream _ _ _)
  | sunset name => exact Pushes.of_eq (sunset_stream _ _)
  | streamOn n => exact absurd rfl (h₁ n)
  | streamOff => exact absurd rfl h₂
  | streamClear => exact absurd rfl h₃

theorem streamOn_ok (s : BB) (n : Nat) (h : s.StreamOK) : (s.streamOn n).StreamOK := by
  intro mx d hs
  unfold BB.streamOn at hs
  split at hs
  · simp only [Option.some.injEq, Prod.mk.injEq] at hs
    obtain ⟨_, rfl⟩ := hs; simp
  · exact h mx d hs

theorem streamOff_ok (s : BB) : (s.streamOff).StreamOK := by
  intro mx d hs; simp [BB.streamOff] at hs

theorem streamClear_ok (s : BB) (h : s.StreamOK) : (s.streamClear).StreamOK := by
  intro mx d hs
  unfold BB.streamClear at hs
  split at hs
  · simp only [Option.some.injEq, Prod.mk.injEq] at hs
    obtain ⟨_, rfl⟩ := hs; simp
  · exact h mx d hs

theorem empty_ok : BB.StreamOK {} := by
  intro mx d h; simp at h

theorem step_ok (s : BB) (op : BOp) (h : s.StreamOK) : (s.step op).1.StreamOK := by
  by_cases h₁ : ∃ n, op = .streamOn n
  · obtain ⟨n, rfl⟩ := h₁; exact streamOn_ok s n h
  · by_cases h₂ : op = .streamOff
    · subst h₂; exact streamOff_ok s
    · by_cases h₃ : op = .streamClear
      · subst h₃; exact streamClear_ok s h
      · exact (step_pushes s op (fun n hn => h₁ ⟨n, hn⟩) h₂ h₃).ok h

theorem runOps_ok (ops : List BOp) : ∀ s : BB, s.StreamOK → (BB.runOps ops s).StreamOK := by
  induction ops with
  | nil => intro s h; exact h
  | cons op ops ih =>
    intro s h
    simp only [BB.runOps, List.foldl_cons]
    exact ih _ (step_ok s op h)

end C16

open C16

/-! ### 1–3: `push` -/

/-- the stream never exceeds its maximum size after a push, whatever it held before -/
theorem C16_push_bounded (s : BB) (it : Item) (mx : Nat) (d0 : List Item) (h : s.stream = some (mx, d0)) :
    ∃ d, (s.push it).stream = some (mx, d) ∧ d.length ≤ mx := by
  refine ⟨(d0 ++ [it]).drop ((d0 ++ [it]).length - mx), ?_, ?_⟩
  · simp [BB.push, h]
  · simp only [List.length_drop, List.length_append, List.length_cons, List.length_nil]; omega

/-- the retained records are the most recent ones, in order; at most the single oldest one is evicted -/
theorem C16_push_most_recent (s : BB) (it : Item) (mx : Nat) (d0 : List Item) (h : s.stream = some (mx, d0))
    (hb : d0.length ≤ mx) :
    ∃ d, (s.push it).stream = some (mx, d) ∧
      ∃ pre, d0 ++ [it] = pre ++ d ∧ (pre = [] ∨ d.length = mx) ∧ pre.length ≤ 1 := by
  refine ⟨(d0 ++ [it]).drop ((d0 ++ [it]).length - mx), ?_, (d0 ++ [it]).take ((d0 ++ [it]).length - mx), ?_, ?_, ?_⟩
  · simp [BB.push, h]
  · exact (List.take_append_drop _ _).symm
  · by_cases hlt : d0.length < mx
    · left
      have : (d0 ++ [it]).length - mx = 0 := by simp; omega
      rw [this]; rfl
    · right
      simp only [List.length_drop, List.length_append, List.length_cons, List.length_nil]; omega
  · simp only [List.length_take, List.length_append, List.length_cons, List.length_nil]; omega

/-- nothing is recorded while the stream is disabled -/
theorem C16_disabled (s : BB) (it : Item) (h : s.stream = none) : s.push it = s := by
  simp [BB.push, h]

/-! ### 4: the bound holds in every reachable state -/

theorem C16_bounded : ∀ (ops : List BOp), (BB.runOps ops).StreamOK :=
  fun ops => runOps_ok ops {} empty_ok

/-! ### 5: exactly one record per store access, with the documented type -/

theorem C16_setattr_denied (s : BB) (c : Nat) (name : String) (v : Val) (cl : Client)
    (h : s.client? c = some cl) (hw : BB.canWrite cl (absNameS cl.ns name) = false) :
    (s.setattr c name v).1.stream = (s.push ⟨absNameS cl.ns name, c, .accessDenied, none, none⟩).stream := by
  simp [BB.setattr, h, hw]

theorem C16_setattr_initialised (s : BB) (c : Nat) (name : String) (v : Val) (cl : Client) (loc : String)
    (h : s.client? c = some cl) (hw : BB.canWrite cl (absNameS cl.ns name) = true)
    (hr : AL.get (absNameS cl.ns name) cl.remap = some loc) (hs : AL.get loc s.storage = none) :
    (s.setattr c name v).1.stream = (s.push ⟨loc, c, .initialised, none, some v⟩).stream := by
  simp [BB.setattr, h, hw, hr, hs]

theorem C16_setattr_write (s : BB) (c : Nat) (name : String) (v old : Val) (cl : Client) (loc : String)
    (h : s.client? c = some cl) (hw : BB.canWrite cl (absNameS cl.ns name) = true)
    (hr : AL.get (absNameS cl.ns name) cl.remap = some loc) (hs : AL.get loc s.storage = some old) :
    (s.setattr c name v).1.stream = (s.push ⟨loc, c, .write, some old, some v⟩).stream := by
  simp [BB.setattr, h, hw, hr, hs]

theorem C16_getattr_denied (s : BB) (c : Nat) (name : String) (cl : Client)
    (h : s.client? c = some cl) (hrd : BB.canRead cl (absNameS cl.ns name) = false)
    (hn : absNameS cl.ns name ∉ cl.namespaces) :
    (s.getattr c name).1.stream = (s.push ⟨absNameS cl.ns name, c, .accessDenied, none, none⟩).stream := by
  simp only [BB.canRead, Bool.or_eq_false_iff, decide_eq_false_iff_not] at hrd
  obtain ⟨⟨h1, h2⟩, h3⟩ := hrd
  simp [BB.getattr, h, h1, h2, h3, hn]

theorem C16_getattr_no_key (s : BB) (c : Nat) (name : String) (cl : Client) (loc : String)
    (h : s.client? c = some cl) (hrd : BB.canRead cl (absNameS cl.ns name) = true)
    (hr : AL.get (absNameS cl.ns name) cl.remap = some loc) (hs : AL.get loc s.storage = none) :
    (s.getattr c name).1.stream = (s.push ⟨loc, c, .noKey, none, none⟩).stream := by
  simp only [BB.canRead, Bool.or_eq_true, decide_eq_true_eq] at hrd
  by_cases h1 : absNameS cl.ns name ∈ cl.read
  · simp [BB.getattr, h, h1, hr, hs]
  · have h2 : absNameS cl.ns name ∈ cl.write ∨ absNameS cl.ns name ∈ cl.excl := by
      rcases hrd with (h' | h') | h'
      · exact absurd h' h1
      · exact Or.inl h'
      · exact Or.inr h'
    have h2' : ¬(¬absNameS cl.ns name ∈ cl.write ∧ ¬absNameS cl.ns name ∈ cl.excl) := fun ⟨a, b⟩ => h2.elim a b
    simp [BB.getattr, h, h1, h2', hr, hs]

theorem C16_getattr_read (s : BB) (c : Nat) (name : String) (v : Val) (cl : Client) (loc : String)
    (h : s.client? c = some cl) (hrd : absNameS cl.ns name ∈ cl.read)
    (hr : AL.get (absNameS cl.ns name) cl.remap = some loc) (hs : AL.get loc s.storage = some v) :
    (s.getattr c name).1.stream = (s.push ⟨loc, c, .read, none, some v⟩).stream := by
  simp [BB.getattr, h, hrd, hr, hs]

theorem C16_getattr_writer (s : BB) (c : Nat) (name : String) (v : Val) (cl : Client) (loc : String)
    (h : s.client? c = some cl) (hrd : absNameS cl.ns name ∉ cl.read)
    (hw : BB.canWrite cl (absNameS cl.ns name) = true)
    (hr : AL.get (absNameS cl.ns name) cl.remap = some loc) (hs : AL.get loc s.storage = some v) :
    (s.getattr c name).1.stream =
      (s.push ⟨loc, c, if v.isPrimitive then .read else .accessed, none, some v⟩).stream := by
  simp only [BB.canWrite, Bool.or_eq_true, decide_eq_true_eq] at hw
  have hw' : ¬(¬absNameS cl.ns name ∈ cl.write ∧ ¬absNameS cl.ns name ∈ cl.excl) := fun ⟨a, b⟩ => hw.elim a b
  cases hp : v.isPrimitive <;> simp [BB.getattr, h, hrd, hw', hw, hr, hs, hp]

theorem C16_unset_record (s : BB) (c : Nat) (name : String) (cl : Client) (loc : String)
    (h : s.client? c = some cl) (hr : AL.get (absNameS cl.ns name) cl.remap = some loc) :
    (s.unset c name).1.stream = (s.push ⟨loc, c, .unset, none, none⟩).stream := by
  simp only [BB.unset, h, hr]
  split <;> rfl

theorem C16_set_no_overwrite (s : BB) (c : Nat) (name : String) (v old : Val) (cl : Client) (loc : String)
    (h : s.client? c = some cl)
    (hw : BB.canWrite cl (splitName (absNameS cl.ns name)).1 = true)
    (hr : AL.get (splitName (absNameS cl.ns name)).1 cl.remap = some loc)
    (hs : AL.get loc s.storage = some old) :
    (s.set c name v false).1.stream = (s.push ⟨loc, c, .noOverwrite, none, some old⟩).stream := by
  simp [BB.set, h, hw, hr, hs]

theorem C16_set_denied (s : BB) (c : Nat) (name : String) (v : Val) (ow : Bool) (cl : Client)
    (h : s.client? c = some cl)
    (hw : BB.canWrite cl (splitName (absNameS cl.ns name)).1 = false) :
    (s.set c name v ow).1.stream =
      (s.push ⟨(splitName (absNameS cl.ns name)).1, c, .accessDenied, none, none⟩).stream := by
  simp [BB.set, h, hw]

/-! ### 6: nothing is recorded while the stream is disabled -/

theorem C16_nothing_while_disabled (s : BB) (op : BOp) (h : s.stream = none) :
    (s.step op).1.stream = none ∨ ∃ n, op = .streamOn n := by
  by_cases h₁ : ∃ n, op = .streamOn n
  · exact Or.inr h₁
  · left
    by_cases h₂ : op = .streamOff
    · subst h₂; rfl
    · by_cases h₃ : op = .streamClear
      · subst h₃; simp [BB.step, BB.streamClear, h]
      · exact (step_pushes s op (fun n hn => h₁ ⟨n, hn⟩) h₂ h₃).none h

/-! ### non-vacuity -/

namespace C16

/-- a decidable view of a record: location, client, type and (integer) values -/
structure Rec where
  key : List Char
  client : Nat
  typ : ActType
  prev : Option Int
  cur : Option Int
deriving DecidableEq

def Item.view (it : Item) : Rec :=
  let iv : Option Val → Option Int := fun o => match o with | some (.int n) => some n | _ => none
  ⟨it.key.toList, it.client, it.typ, iv it.prev, iv it.cur⟩

def view (s : BB) : Option (Nat × List Rec) :=
  s.stream.map (fun p => (p.1, p.2.map Item.view))

def demo (n : Nat) : List BOp :=
  [.new "ns", .register 0 "k" (some .write) false none, .streamOn n,
   .setattr 0 "k" (.int 1), .setattr 0 "k" (.int 2), .setattr 0 "k" (.int 3), .setattr 0 "k" (.int 4)]

end C16

/-- size 2, four writes: exactly the two most recent records are retained, in order -/
example : view (BB.runOps (demo 2)) =
    some (2, [⟨"/ns/k".toList, 0, .write, some 2, some 3⟩, ⟨"/ns/k".toList, 0, .write, some 3, some 4⟩]) := by
  decide

/-- size 5: all four records, the first one INITIALISED -/
example : view (BB.runOps (demo 5)) =
    some (5, [⟨"/ns/k".toList, 0, .initialised, none, some 1⟩, ⟨"/ns/k".toList, 0, .write, some 1, some 2⟩,
              ⟨"/ns/k".toList, 0, .write, some 2, some 3⟩, ⟨"/ns/k".toList, 0, .write, some 3, some 4⟩]) := by
  decide

/-- a size-0 stream stays empty -/
example : view (BB.runOps (demo 0)) = some (0, []) := by decide

/-- the same history without enabling the stream records nothing -/
example : view (BB.runOps ((demo 2).filter (fun op => match op with | .streamOn _ => false | _ => true))) = none := by
  decide

namespace C16
def demo2 : List BOp :=
  [.new "ns", .register 0 "k" (some .write) false none, .register 0 "r" (some .read) false none, .streamOn 10,
   .setattr 0 "zz" (.int 1), .getattr 0 "r", .getattr 0 "zz", .setattr 0 "k" (.int 1), .set 0 "k" (.int 2) false,
   .getattr 0 "k", .setattr 0 "k" (.obj []), .getattr 0 "k", .unset 0 "k"]
end C16

/-- one record per access, every documented outcome type, in order -/
example : view (BB.runOps demo2) = some (10,
    [⟨"/ns/zz".toList, 0, .accessDenied, none, none⟩, ⟨"/ns/r".toList, 0, .noKey, none, none⟩,
     ⟨"/ns/zz".toList, 0, .accessDenied, none, none⟩, ⟨"/ns/k".toList, 0, .initialised, none, some 1⟩,
     ⟨"/ns/k".toList, 0, .noOverwrite, none, some 1⟩, ⟨"/ns/k".toList, 0, .read, none, some 1⟩,
     ⟨"/ns/k".toList, 0, .write, some 1, none⟩, ⟨"/ns/k".toList, 0, .accessed, none, none⟩,
     ⟨"/ns/k".toList, 0, .unset, none, none⟩]) := by
  decide

/-- the hypotheses of `C16_setattr_write` / `C16_getattr_writer` / `C16_set_no_overwrite` hold in a reachable state
    whose stream is enabled and full -/
example : ∃ cl loc old, (BB.runOps (demo 2)).client? 0 = some cl ∧
    BB.canWrite cl (absNameS cl.ns "k") = true ∧ absNameS cl.ns "k" ∉ cl.read ∧
    AL.get (absNameS cl.ns "k") cl.remap = some loc ∧ AL.get loc (BB.runOps (demo 2)).storage = some old ∧
    (BB.runOps (demo 2)).stream.isSome = true :=
  ⟨_, _, _, rfl, by decide, by decide, rfl, rfl, by decide⟩
