import PyTreesProofs.Props.C06b

/-
  C06c — C06 lifted from single operations to WHOLE HISTORIES (`List BOp`): the storage behaves like a plain
  dictionary keyed by resolved location under every interleaving of every public entry point.

  * `BB.targets s op` : the locations `op` may change when executed in `s`, computed by RESOLUTION in `s` (client
    record, namespace, remap table, namespace cache) — never by running the operation.
  * `BB.step_chg` : for EVERY operation the new storage is obtained from the old one by finitely many
    `AL.put` / `AL.del` on keys in `targets` (`AL'.Chg`).  The frame theorem `C06_frame` and the preservation of the
    duplicate-free invariant `C06_step_NoDup` are both corollaries.
  * `C06_history_most_recent`, `C06_history_read_your_writes`, `C06_history_unset_then_read`, `C06_history_NoDup` :
    induction over the history.
-/

namespace AL'

theorem mem_range_of_get {β : Type} {k : String} {v : β} {l : List (String × β)}
    (h : AL.get k l = some v) : v ∈ l.map (·.2) := by
  induction l with
  | nil => simp [AL.get] at h
  | cons p l ih =>
    obtain ⟨k₀, v₀⟩ := p
    simp only [AL.get] at h
    split at h
    · cases h; simp
    · simp [ih h]

theorem range_del_subset {β : Type} (k : String) (l : List (String × β)) :
    ∀ x, x ∈ (AL.del k l).map (·.2) → x ∈ l.map (·.2) := by
  induction l with
  | nil => intro x hx; exact hx
  | cons p l ih =>
    obtain ⟨k₀, v₀⟩ := p
    intro x hx
    simp only [AL.del] at hx
    split at hx
    · simp only [List.map_cons, List.mem_cons]; exact Or.inr hx
    · simp only [List.map_cons, List.mem_cons] at hx ⊢
      rcases hx with hx | hx
      · exact Or.inl hx
      · exact Or.inr (ih x hx)

/-- `Chg T st st'`: `st'` is obtained from `st` by finitely many `AL.put` / `AL.del` on keys in `T` -/
inductive Chg (T : List String) : List (String × Val) → List (String × Val) → Prop
| refl (st) : Chg T st st
| put {st st'} (k : String) (v : Val) : k ∈ T → Chg T st st' → Chg T st (AL.put k v st')
| del {st st'} (k : String) : k ∈ T → Chg T st st' → Chg T st (AL.del k st')

theorem Chg.of_eq {T : List String} {st st' : List (String × Val)} (h : st' = st) : Chg T st st' := by
  subst h; exact .refl _

theorem Chg.mono {T T' : List String} {st st' : List (String × Val)} (hsub : ∀ x, x ∈ T → x ∈ T')
    (h : Chg T st st') : Chg T' st st' := by
  induction h with
  | refl => exact .refl _
  | put k v hk _ ih => exact .put k v (hsub _ hk) ih
  | del k hk _ ih => exact .del k (hsub _ hk) ih

theorem Chg.trans {T : List String} {a b c : List (String × Val)} (h₁ : Chg T a b) (h₂ : Chg T b c) :
    Chg T a c := by
  induction h₂ with
  | refl => exact h₁
  | put k v hk _ ih => exact .put k v hk ih
  | del k hk _ ih => exact .del k hk ih

theorem Chg.put1 {T : List String} (st : List (String × Val)) (k : String) (v : Val) (hk : k ∈ T) :
    Chg T st (AL.put k v st) := .put k v hk (.refl _)

theorem Chg.del1 {T : List String} (st : List (String × Val)) (k : String) (hk : k ∈ T) :
    Chg T st (AL.del k st) := .del k hk (.refl _)

theorem Chg.frame {T : List String} {st st' : List (String × Val)} (h : Chg T st st') (loc : String)
    (hloc : loc ∉ T) : AL.get loc st' = AL.get loc st := by
  induction h with
  | refl => rfl
  | put k v hk _ ih =>
    rw [AL.get_put_other v _ (fun (e : loc = k) => hloc (by rw [e]; exact hk)), ih]
  | del k hk _ ih =>
    rw [AL.get_del_other _ (fun (e : loc = k) => hloc (by rw [e]; exact hk)), ih]

theorem Chg.noDup {T : List String} {st st' : List (String × Val)} (h : Chg T st st')
    (hnd : AL.NoDup st) : AL.NoDup st' := by
  induction h with
  | refl => exact hnd
  | put k v _ _ ih => exact AL.NoDup_put _ _ _ ih
  | del k _ _ ih => exact AL.NoDup_del _ _ ih

end AL'

open AL' (Chg)

namespace BB

/-- every location in the range of client `c`'s remap table -/
def remapRange (s : BB) (c : Nat) : List String :=
  match s.client? c with
  | some cl => cl.remap.map (·.2)
  | none => []

/-- the location client `c` resolves the (relative or absolute) name to -/
def resolveName (s : BB) (c : Nat) (name : String) : List String :=
  match s.client? c with
  | none => []
  | some cl =>
    match AL.get (absNameS cl.ns name) cl.remap with
    | some loc => [loc]
    | none => []

/-- the namespace for which `getattr c name` hands out an `IntermediateVariableFetcher` (it does so exactly when the
    absolute name is not an accessible key but is in the namespace cache) -/
def fetcherOf (cl : Client) (name : String) : Option String :=
  if canRead cl (absNameS cl.ns name) = false ∧ absNameS cl.ns name ∈ cl.namespaces then some (absNameS cl.ns name)
  else none

/-- the location `set c name …` may change.  `BB.set` resolves the key part of the absolute name for its permission
    and overwrite checks; its nested branch writes there, but its plain branch calls `setattr c key`, which
    absolutises `key` once more against the client namespace before resolving. -/
def setTargets (s : BB) (c : Nat) (name : String) : List String :=
  match s.client? c with
  | none => []
  | some cl =>
    match AL.get (splitName (absNameS cl.ns name)).1 cl.remap with
    | none => []
    | some loc =>
      if (splitName (absNameS cl.ns name)).2.isEmpty || (splitName (absNameS cl.ns name)).2 == [""] then
        s.resolveName c (splitName (absNameS cl.ns name)).1
      else [loc]

/-- resolution of the tail of a dotted write below the fetcher namespace `ns` (mirrors `BB.dotSet.go`) -/
def dotGoTargets (s : BB) (c : Nat) (cl : Client) : String → List String → List String
| _, [] => []
| ns, [k] => s.setTargets c (absNameS ns k)
| ns, k :: k' :: rest =>
    match fetcherOf cl (splitName (absNameS ns k)).1 with
    | some ns' => dotGoTargets s c cl ns' (k' :: rest)
    | none => []

/-- the location a dotted write `client.<path> = v` may change: the path is resolved through the namespace cache -/
def dotTargets (s : BB) (c : Nat) : List String → List String
| [] => []
| [k] => s.resolveName c k
| k :: k' :: rest =>
    match s.client? c with
    | none => []
    | some cl =>
      match fetcherOf cl k with
      | some ns => dotGoTargets s c cl ns (k' :: rest)
      | none => []

/-- the locations an operation may change, by resolution in the current state -/
def targets (s : BB) : BOp → List String
| .setattr c name _ => s.resolveName c name
| .unset c name => s.resolveName c name
| .set c name _ _ => s.setTargets c name
| .dotSet c path _ => s.dotTargets c path
| .sset name _ => [(splitName (absNameS "/" name)).1]
| .sunset name => [absNameS "/" name]
| .unregisterKey c name clear => if clear then s.resolveName c name else []
| .unregisterAll c clear => if clear then s.remapRange c else []
| .unregister c clear => if clear then s.remapRange c else []
| _ => []

theorem resolveName_sub_range (s : BB) (c : Nat) (name : String) :
    ∀ x, x ∈ s.resolveName c name → x ∈ s.remapRange c := by
  intro x hx
  unfold resolveName at hx
  unfold remapRange
  split at hx
  · simp at hx
  · next cl hcl =>
    simp only [hcl]
    split at hx
    · next loc hl => simp only [List.mem_singleton] at hx; subst hx; exact AL'.mem_range_of_get hl
    · simp at hx

/-! #### read-only entry points -/

theorem getattr_sc (s : BB) (c : Nat) (name : String) :
    (s.getattr c name).1.storage = s.storage ∧ (s.getattr c name).1.clients = s.clients := by
  unfold getattr
  split
  · exact ⟨rfl, rfl⟩
  · simp only
    split
    · split <;> simp
    · split
      · exact ⟨rfl, rfl⟩
      · split <;> simp

theorem get_sc (s : BB) (c : Nat) (name : String) :
    (s.get c name).1.storage = s.storage ∧ (s.get c name).1.clients = s.clients := by
  have h := getattr_sc s c (splitName name).1
  unfold get
  simp only
  generalize s.getattr c (splitName name).1 = r at h
  obtain ⟨s1, res⟩ := r
  simp only at h
  cases res <;> try exact h
  simp only
  split
  · exact h
  · split <;> exact h

theorem exists_sc (s : BB) (c : Nat) (name : String) :
    (s.exists_ c name).1.storage = s.storage ∧ (s.exists_ c name).1.clients = s.clients := by
  rw [(exists_spec s c name).1]; exact get_sc s c name

end BB

/-- closes `Chg T st st' ∧ clients' = clients` goals after the model function has been unfolded to a leaf -/
macro "chg_fin" : tactic => `(tactic|
  (refine ⟨?_, ?_⟩ <;>
    first
    | rfl | trivial | exact AL'.Chg.refl _
    | exact AL'.Chg.put1 _ _ _ (by simp) | exact AL'.Chg.del1 _ _ (by simp)
    | (simp only [BB.push_storage, BB.push_clients] <;>
        first
        | rfl | exact AL'.Chg.refl _
        | exact AL'.Chg.put1 _ _ _ (by simp) | exact AL'.Chg.del1 _ _ (by simp))))

namespace BB

theorem remapRange_congr {s s1 : BB} (c : Nat) (h : s1.clients = s.clients) :
    s1.remapRange c = s.remapRange c := by
  simp only [remapRange, client?, h]

theorem resolveName_congr {s s1 : BB} (c : Nat) (name : String) (h : s1.clients = s.clients) :
    s1.resolveName c name = s.resolveName c name := by
  simp only [resolveName, client?, h]

theorem dotFetch_sc (c : Nat) (rest : List String) : ∀ (s : BB) (ns : String),
    (dotGet.dotFetch s c ns rest).1.storage = s.storage ∧ (dotGet.dotFetch s c ns rest).1.clients = s.clients := by
  induction rest with
  | nil => intro s ns; exact ⟨rfl, rfl⟩
  | cons k rest ih =>
    intro s ns
    have h := get_sc s c (absNameS ns k)
    simp only [dotGet.dotFetch]
    generalize s.get c (absNameS ns k) = r at h
    obtain ⟨s1, res⟩ := r
    simp only at h
    cases res <;> try (simp only; split <;> exact h)
    simp only
    obtain ⟨h1, h2⟩ := ih s1 ‹_›
    exact ⟨h1.trans h.1, h2.trans h.2⟩

theorem dotGet_sc (s : BB) (c : Nat) (path : List String) :
    (s.dotGet c path).1.storage = s.storage ∧ (s.dotGet c path).1.clients = s.clients := by
  match path with
  | [] => exact ⟨rfl, rfl⟩
  | [k] => simp only [dotGet]; exact getattr_sc s c k
  | k :: k' :: rest =>
    have h := getattr_sc s c k
    simp only [dotGet]
    generalize s.getattr c k = r at h
    obtain ⟨s1, res⟩ := r
    simp only at h
    cases res <;> try exact h
    simp only
    obtain ⟨h1, h2⟩ := dotFetch_sc c (k' :: rest) s1 ‹_›
    exact ⟨h1.trans h.1, h2.trans h.2⟩

theorem verify_go_sc (c : Nat) (ks : List String) : ∀ (s : BB) (absent : Bool),
    (verify.go c s ks absent).1.storage = s.storage ∧ (verify.go c s ks absent).1.clients = s.clients := by
  induction ks with
  | nil => intro s absent; exact ⟨rfl, rfl⟩
  | cons k ks ih =>
    intro s absent
    have h := exists_sc s c k
    simp only [verify.go]
    generalize s.exists_ c k = r at h
    obtain ⟨s1, res⟩ := r
    simp only at h
    cases res <;> try exact h
    next b =>
      cases b
      · obtain ⟨h1, h2⟩ := ih s1 true
        exact ⟨h1.trans h.1, h2.trans h.2⟩
      · obtain ⟨h1, h2⟩ := ih s1 absent
        exact ⟨h1.trans h.1, h2.trans h.2⟩

theorem verify_sc (s : BB) (c : Nat) (order : List String → List String) :
    (s.verify c order).1.storage = s.storage ∧ (s.verify c order).1.clients = s.clients := by
  unfold verify
  split
  · exact ⟨rfl, rfl⟩
  · exact verify_go_sc c _ s false

theorem register_storage (s : BB) (c : Nat) (name : String) (acc : Option Access) (req : Bool)
    (remapTo : Option String) : (s.register c name acc req remapTo).1.storage = s.storage := by
  cases hcl : s.client? c with
  | none => simp only [register, hcl]
  | some cl =>
    cases acc with
    | none => simp only [register, hcl]
    | some a =>
      cases a <;> (simp only [register, hcl]; split <;> rfl)

/-! #### writers -/

theorem setattr_chg (s : BB) (c : Nat) (name : String) (v : Val) :
    Chg (s.resolveName c name) s.storage (s.setattr c name v).1.storage ∧
    (s.setattr c name v).1.clients = s.clients := by
  cases hcl : s.client? c with
  | none => simp only [setattr, hcl]; chg_fin
  | some cl =>
    cases hr : AL.get (absNameS cl.ns name) cl.remap with
    | none =>
      simp only [setattr, resolveName, hcl, hr]
      split <;> chg_fin
    | some loc =>
      simp only [setattr, resolveName, hcl, hr]
      split
      · chg_fin
      · split <;> chg_fin

theorem unset_chg (s : BB) (c : Nat) (name : String) :
    Chg (s.resolveName c name) s.storage (s.unset c name).1.storage ∧
    (s.unset c name).1.clients = s.clients := by
  cases hcl : s.client? c with
  | none => simp only [unset, hcl]; chg_fin
  | some cl =>
    cases hr : AL.get (absNameS cl.ns name) cl.remap with
    | none => simp only [unset, resolveName, hcl, hr]; chg_fin
    | some loc =>
      simp only [unset, resolveName, hcl, hr]
      split <;> chg_fin
theorem set_chg (s : BB) (c : Nat) (name : String) (v : Val) (ow : Bool) :
    Chg (s.setTargets c name) s.storage (s.set c name v ow).1.storage ∧
    (s.set c name v ow).1.clients = s.clients := by
  cases hcl : s.client? c with
  | none => simp only [set, hcl]; chg_fin
  | some cl =>
    simp only [set, setTargets, hcl]
    rcases hsp : splitName (absNameS cl.ns name) with ⟨key, path⟩
    simp only
    cases hw : canWrite cl key with
    | false => simp only [Bool.not_false, if_true]; chg_fin
    | true =>
      simp only [Bool.not_true, Bool.false_eq_true, if_false]
      cases hr : AL.get key cl.remap with
      | none => chg_fin
      | some loc =>
        simp only
        cases hp : (path.isEmpty || path == [""])
        · simp only [Bool.false_eq_true, if_false]
          split
          · chg_fin
          · have h := getattr_sc s c key
            generalize s.getattr c key = r at h
            obtain ⟨s1, res⟩ := r
            simp only at h
            cases res <;> try exact ⟨.of_eq h.1, h.2⟩
            simp only
            split
            · simp only [h.1]; exact ⟨.put1 _ _ _ (by simp), h.2⟩
            · exact ⟨.of_eq h.1, h.2⟩
        · simp only [if_true]
          split
          · chg_fin
          · have h := setattr_chg s c key v
            generalize s.setattr c key v = r at h
            obtain ⟨s1, res⟩ := r
            simp only at h
            cases res <;> exact h

theorem setTargets_sub_range (s : BB) (c : Nat) (name : String) :
    ∀ x, x ∈ s.setTargets c name → x ∈ s.remapRange c := by
  intro x hx
  simp only [setTargets] at hx
  split at hx
  · simp at hx
  · next cl hcl =>
    split at hx
    · simp at hx
    · next loc hl =>
      split at hx
      · exact resolveName_sub_range s c _ x hx
      · simp only [List.mem_singleton] at hx; subst hx
        simp only [remapRange, hcl]; exact AL'.mem_range_of_get hl

theorem getattr_fetcher_inv (s : BB) (c : Nat) (cl : Client) (name ns : String) (hcl : s.client? c = some cl)
    (h : (s.getattr c name).2 = .fetcher ns) : fetcherOf cl name = some ns := by
  simp only [getattr, hcl] at h
  split at h
  · next hperm =>
    split at h
    · next hns =>
      simp only [Res.fetcher.injEq] at h
      subst h
      have hrd : canRead cl (absNameS cl.ns name) = false := by
        simp only [canRead]
        revert hperm
        cases decide (absNameS cl.ns name ∈ cl.read) <;> cases decide (absNameS cl.ns name ∈ cl.write) <;>
          cases decide (absNameS cl.ns name ∈ cl.excl) <;> simp
      simp only [fetcherOf]
      rw [if_pos ⟨hrd, hns⟩]
    · simp at h
  · split at h
    · simp at h
    · split at h <;> simp at h

theorem get_fetcher_inv (s : BB) (c : Nat) (cl : Client) (name ns : String) (hcl : s.client? c = some cl)
    (h : (s.get c name).2 = .fetcher ns) : fetcherOf cl (splitName name).1 = some ns := by
  have hg := getattr_fetcher_inv s c cl (splitName name).1 ns hcl
  unfold get at h
  simp only at h
  generalize s.getattr c (splitName name).1 = r at h hg
  obtain ⟨s1, res⟩ := r
  cases res <;> simp only at h hg <;> try exact hg h
  split at h
  · simp at h
  · split at h <;> simp at h

theorem setTargets_congr {s s1 : BB} (c : Nat) (name : String) (h : s1.clients = s.clients) :
    s1.setTargets c name = s.setTargets c name := by
  simp only [setTargets, resolveName, client?, h]

theorem dotGoTargets_congr {s s1 : BB} (c : Nat) (cl : Client) (h : s1.clients = s.clients) (rest : List String) :
    ∀ ns, s1.dotGoTargets c cl ns rest = s.dotGoTargets c cl ns rest := by
  induction rest with
  | nil => intro ns; rfl
  | cons k rest ih =>
    intro ns
    cases rest with
    | nil => simp only [dotGoTargets]; exact setTargets_congr c _ h
    | cons k' rest =>
      simp only [dotGoTargets]
      split
      · exact ih _
      · rfl

theorem dotGoTargets_sub_range (s : BB) (c : Nat) (cl : Client) (rest : List String) :
    ∀ ns x, x ∈ s.dotGoTargets c cl ns rest → x ∈ s.remapRange c := by
  induction rest with
  | nil => intro ns x hx; simp [dotGoTargets] at hx
  | cons k rest ih =>
    intro ns x hx
    cases rest with
    | nil => simp only [dotGoTargets] at hx; exact setTargets_sub_range s c _ x hx
    | cons k' rest =>
      simp only [dotGoTargets] at hx
      split at hx
      · exact ih _ x hx
      · simp at hx

/-- the dotted-write targets are within the range of the client's remap table -/
theorem dotTargets_sub_range (s : BB) (c : Nat) (path : List String) :
    ∀ x, x ∈ s.dotTargets c path → x ∈ s.remapRange c := by
  intro x hx
  match path with
  | [] => simp [dotTargets] at hx
  | [k] => simp only [dotTargets] at hx; exact resolveName_sub_range s c k x hx
  | k :: k' :: rest =>
    simp only [dotTargets] at hx
    split at hx
    · simp at hx
    · split at hx
      · exact dotGoTargets_sub_range s c _ _ _ x hx
      · simp at hx

theorem dotSet_go_chg (c : Nat) (cl : Client) (v : Val) (rest : List String) : ∀ (s : BB) (ns : String),
    s.client? c = some cl →
    Chg (s.dotGoTargets c cl ns rest) s.storage (dotSet.go c v s ns rest).1.storage ∧
    (dotSet.go c v s ns rest).1.clients = s.clients := by
  induction rest with
  | nil => intro s ns _; exact ⟨.refl _, rfl⟩
  | cons k rest ih =>
    intro s ns hcl
    cases rest with
    | nil =>
      have h := set_chg s c (absNameS ns k) v true
      simp only [dotSet.go, dotGoTargets]
      generalize s.set c (absNameS ns k) v true = r at h
      obtain ⟨s1, res⟩ := r
      simp only at h
      cases res <;> exact h
    | cons k' rest =>
      have h := get_sc s c (absNameS ns k)
      have hf := fun ns' => get_fetcher_inv s c cl (absNameS ns k) ns' hcl
      simp only [dotSet.go]
      generalize s.get c (absNameS ns k) = r at h hf
      obtain ⟨s1, res⟩ := r
      simp only at h hf
      cases res <;> try exact ⟨.of_eq h.1, h.2⟩
      next ns' =>
        simp only [dotGoTargets, hf ns' rfl]
        have hcl1 : s1.client? c = some cl := by simp only [client?, h.2]; exact hcl
        obtain ⟨h1, h2⟩ := ih s1 ns' hcl1
        rw [dotGoTargets_congr c cl h.2, h.1] at h1
        exact ⟨h1, h2.trans h.2⟩

theorem dotSet_chg (s : BB) (c : Nat) (path : List String) (v : Val) :
    Chg (s.dotTargets c path) s.storage (s.dotSet c path v).1.storage ∧
    (s.dotSet c path v).1.clients = s.clients := by
  match path with
  | [] => exact ⟨.refl _, rfl⟩
  | [k] => simp only [dotSet, dotTargets]; exact setattr_chg s c k v
  | k :: k' :: rest =>
    have h := getattr_sc s c k
    cases hcl : s.client? c with
    | none => simp only [dotSet, getattr, hcl]; chg_fin
    | some cl =>
      have hf := fun ns' => getattr_fetcher_inv s c cl k ns' hcl
      simp only [dotSet, dotTargets, hcl]
      generalize s.getattr c k = r at h hf
      obtain ⟨s1, res⟩ := r
      simp only at h hf
      cases res <;> try exact ⟨.of_eq h.1, h.2⟩
      next ns =>
        simp only [hf ns rfl]
        have hcl1 : s1.client? c = some cl := by simp only [client?, h.2]; exact hcl
        obtain ⟨h1, h2⟩ := dotSet_go_chg c cl v (k' :: rest) s1 ns hcl1
        rw [dotGoTargets_congr c cl h.2, h.1] at h1
        exact ⟨h1, h2.trans h.2⟩

theorem sset_chg (s : BB) (name : String) (v : Val) :
    Chg [(splitName (absNameS "/" name)).1] s.storage (s.sset name v).1.storage := by
  unfold sset
  rcases hsp : splitName (absNameS "/" name) with ⟨key, path⟩
  simp only
  split
  · split <;> exact .put1 _ _ _ (by simp)
  · split
    · exact .refl _
    · split
      · split <;> exact .put1 _ _ _ (by simp)
      · exact .refl _

theorem sunset_chg (s : BB) (name : String) :
    Chg [absNameS "/" name] s.storage (s.sunset name).1.storage := by
  unfold sunset
  simp only
  split
  · exact .del1 _ _ (by simp)
  · exact .refl _

end BB

namespace BB

/-! #### unregistration -/

theorem setClient_client?_same {s : BB} {c : Nat} {cl : Client} (h : s.client? c = some cl) (cl' : Client) :
    (s.setClient c cl').client? c = some cl' := by
  have hlt : c < s.clients.length := by
    simp only [client?] at h
    exact (List.getElem?_eq_some_iff.mp h).1
  simp [client?, setClient, hlt]

theorem setClient_client?_lt (s : BB) (c : Nat) (cl' : Client) (hlt : c < s.clients.length) :
    (s.setClient c cl').client? c = some cl' := by
  simp [client?, setClient, hlt]

@[simp] theorem setClient_storage (s : BB) (c : Nat) (cl : Client) : (s.setClient c cl).storage = s.storage := rfl

theorem unregisterKey_chg (s : BB) (c : Nat) (name : String) (clear u : Bool) :
    Chg (if clear then s.resolveName c name else []) s.storage (s.unregisterKey c name clear u).1.storage ∧
    (∀ x, x ∈ (s.unregisterKey c name clear u).1.remapRange c → x ∈ s.remapRange c) := by
  cases hcl : s.client? c with
  | none => simp only [unregisterKey, hcl]; exact ⟨.refl _, fun _ h => h⟩
  | some cl =>
    cases hr : AL.get (absNameS cl.ns name) cl.remap with
    | none => simp only [unregisterKey, hcl, hr]; exact ⟨.refl _, fun _ h => h⟩
    | some loc =>
      cases hm : AL.get loc s.metadata with
      | none =>
        simp only [unregisterKey, hcl, hr, hm, setClient_storage]
        refine ⟨.refl _, ?_⟩
        intro x hx
        simp only [remapRange, setClient_client?_same hcl, hcl] at hx ⊢
        exact hx
      | some m =>
        have hlt : c < s.clients.length := by
          simp only [client?] at hcl
          exact (List.getElem?_eq_some_iff.mp hcl).1
        simp only [unregisterKey, resolveName, hcl, hr, hm, setClient_storage]
        generalize ((SetL.discard c m.read).isEmpty && (SetL.discard c m.write).isEmpty &&
          (SetL.discard c m.excl).isEmpty) = b
        refine ⟨?_, ?_⟩
        · cases b <;> cases clear <;>
            simp only [Bool.false_eq_true, if_false, if_true] <;>
            first | exact .refl _ | exact .del1 _ _ (by simp)
        · intro x hx
          cases b <;> cases u <;>
            simp only [Bool.false_eq_true, if_false, if_true, remapRange, hcl,
              setClient_client?_lt, hlt, rebuildNamespaces] at hx ⊢ <;>
            exact AL'.range_del_subset _ _ x hx

theorem unregisterKeys_chg (c : Nat) (clear : Bool) (ks : List String) : ∀ (s : BB),
    Chg (if clear then s.remapRange c else []) s.storage (unregisterKeys s c clear ks).1.storage ∧
    (∀ x, x ∈ (unregisterKeys s c clear ks).1.remapRange c → x ∈ s.remapRange c) := by
  induction ks with
  | nil => intro s; exact ⟨.refl _, fun _ h => h⟩
  | cons k ks ih =>
    intro s
    obtain ⟨h1, h2⟩ := unregisterKey_chg s c k clear false
    have h1' : Chg (if clear then s.remapRange c else []) s.storage (s.unregisterKey c k clear false).1.storage := by
      refine h1.mono ?_
      cases clear
      · exact fun _ h => h
      · exact resolveName_sub_range s c k
    simp only [unregisterKeys]
    generalize s.unregisterKey c k clear false = r at h1' h2
    obtain ⟨s1, res⟩ := r
    simp only at h1' h2
    cases res <;> try exact ⟨h1', h2⟩
    simp only
    obtain ⟨h3, h4⟩ := ih s1
    refine ⟨h1'.trans (h3.mono ?_), fun x hx => h2 x (h4 x hx)⟩
    cases clear
    · exact fun _ h => h
    · exact h2

theorem unregisterAll_chg (s : BB) (c : Nat) (clear : Bool) (order : List String → List String) :
    Chg (if clear then s.remapRange c else []) s.storage (s.unregisterAll c clear order).1.storage := by
  cases hcl : s.client? c with
  | none => simp only [unregisterAll, hcl]; exact .refl _
  | some cl =>
    have h := (unregisterKeys_chg c clear (order (dedup (cl.read ++ cl.write ++ cl.excl))) s).1
    simp only [unregisterAll, hcl]
    generalize (if clear then s.remapRange c else []) = T at h ⊢
    generalize unregisterKeys s c clear (order (dedup (cl.read ++ cl.write ++ cl.excl))) = r at h
    obtain ⟨s1, res⟩ := r
    simp only at h
    cases res <;> try exact h
    simp only
    split <;> exact h

theorem unregister_chg (s : BB) (c : Nat) (clear : Bool) (order : List String → List String) :
    Chg (if clear then s.remapRange c else []) s.storage (s.unregister c clear order).1.storage := by
  have h := unregisterAll_chg s c clear order
  unfold unregister
  generalize (if clear then s.remapRange c else []) = T at h ⊢
  generalize s.unregisterAll c clear order = r at h
  obtain ⟨s1, res⟩ := r
  simp only at h
  cases res <;> try exact h
  simp only
  split <;> exact h

/-! #### every operation changes the storage only by `put` / `del` on its targets -/

theorem step_chg (s : BB) (op : BOp) : Chg (s.targets op) s.storage (s.step op).1.storage := by
  cases op with
  | new ns => exact .refl _
  | register c name acc req remap => exact .of_eq (register_storage s c name acc req remap)
  | unregisterKey c name clear => exact (unregisterKey_chg s c name clear true).1
  | unregisterAll c clear => exact unregisterAll_chg s c clear id
  | unregister c clear => exact unregister_chg s c clear id
  | setattr c name v => exact (setattr_chg s c name v).1
  | getattr c name => exact .of_eq (getattr_sc s c name).1
  | set c name v ow => exact (set_chg s c name v ow).1
  | get c name => exact .of_eq (get_sc s c name).1
  | exists_ c name => exact .of_eq (exists_sc s c name).1
  | unset c name => exact (unset_chg s c name).1
  | dotGet c path => exact .of_eq (dotGet_sc s c path).1
  | dotSet c path v => exact (dotSet_chg s c path v).1
  | verify c => exact .of_eq (verify_sc s c id).1
  | sset name v => exact sset_chg s name v
  | sunset name => exact sunset_chg s name
  | streamOn n => exact .of_eq (by simp only [step, streamOn]; split <;> rfl)
  | streamOff => exact .refl _
  | streamClear => exact .of_eq (by simp only [step, streamClear]; split <;> rfl)

end BB

/-- operations that never change the storage -/
def BOp.isReadOnly : BOp → Bool
| .new _ | .register .. | .getattr .. | .get .. | .exists_ .. | .dotGet .. | .verify _
| .streamOn _ | .streamOff | .streamClear => true
| _ => false

/-- `NoTouch s post loc`: walking through `post` from `s`, `loc` is not a target of any operation in the state
    in which that operation is executed -/
def NoTouch (s : BB) : List BOp → String → Prop
| [], _ => True
| op :: rest, loc => loc ∉ BB.targets s op ∧ NoTouch (s.step op).1 rest loc

instance NoTouch.dec : (s : BB) → (post : List BOp) → (loc : String) → Decidable (NoTouch s post loc)
| _, [], _ => isTrue trivial
| s, op :: rest, loc =>
  have := NoTouch.dec (s.step op).1 rest loc
  inferInstanceAs (Decidable (_ ∧ _))

theorem BB.runOps_cons (op : BOp) (post : List BOp) (s : BB) :
    BB.runOps (op :: post) s = BB.runOps post (s.step op).1 := rfl

/-! ### the theorems -/

/-- FRAME: an operation leaves every location outside its targets alone -/
theorem C06_frame (s : BB) (op : BOp) (loc : String) (h : loc ∉ BB.targets s op) :
    AL.get loc (s.step op).1.storage = AL.get loc s.storage :=
  (BB.step_chg s op).frame loc h

/-- the read-only entry points leave the whole storage alone -/
theorem C06_reads_frame (s : BB) (op : BOp) (h : op.isReadOnly = true) :
    (s.step op).1.storage = s.storage := by
  cases op with
  | new ns => rfl
  | register c name acc req remap => exact BB.register_storage s c name acc req remap
  | getattr c name => exact (BB.getattr_sc s c name).1
  | get c name => exact (BB.get_sc s c name).1
  | exists_ c name => exact (BB.exists_sc s c name).1
  | dotGet c path => exact (BB.dotGet_sc s c path).1
  | verify c => exact (BB.verify_sc s c id).1
  | streamOn n => simp only [BB.step, BB.streamOn]; split <;> rfl
  | streamOff => rfl
  | streamClear => simp only [BB.step, BB.streamClear]; split <;> rfl
  | _ => simp [BOp.isReadOnly] at h

/-- every operation preserves the duplicate-free invariant of the storage -/
theorem C06_step_NoDup (s : BB) (op : BOp) (hnd : AL.NoDup s.storage) : AL.NoDup (s.step op).1.storage :=
  (BB.step_chg s op).noDup hnd

theorem C06_history_NoDup (s : BB) (post : List BOp) (hnd : AL.NoDup s.storage) :
    AL.NoDup (BB.runOps post s).storage := by
  induction post generalizing s with
  | nil => exact hnd
  | cons op rest ih => rw [BB.runOps_cons]; exact ih _ (C06_step_NoDup s op hnd)

/-- HISTORY: a location not targeted along a history keeps its content -/
theorem C06_history_most_recent (s : BB) (post : List BOp) (loc : String)
    (hpost : NoTouch s post loc) : AL.get loc (BB.runOps post s).storage = AL.get loc s.storage := by
  induction post generalizing s with
  | nil => rfl
  | cons op rest ih =>
    rw [BB.runOps_cons, ih _ hpost.2, C06_frame s op loc hpost.1]

/-- read-your-writes across a whole history: after `setattr` through any client, any history that never targets the
    written location, and a reader whose client record in the final state resolves its name to that location,
    the read returns exactly the written value -/
theorem C06_history_read_your_writes (s : BB) (c₁ c₂ : Nat) (cl₁ cl₂ : Client) (name₁ name₂ : String) (v : Val)
    (loc : String) (post : List BOp)
    (h₁ : s.client? c₁ = some cl₁)
    (hw : BB.canWrite cl₁ (absNameS cl₁.ns name₁) = true)
    (hr₁ : AL.get (absNameS cl₁.ns name₁) cl₁.remap = some loc)
    (hpost : NoTouch (s.setattr c₁ name₁ v).1 post loc)
    (h₂ : (BB.runOps post (s.setattr c₁ name₁ v).1).client? c₂ = some cl₂)
    (hrd : BB.canRead cl₂ (absNameS cl₂.ns name₂) = true)
    (hr₂ : AL.get (absNameS cl₂.ns name₂) cl₂.remap = some loc) :
    ((BB.runOps post (s.setattr c₁ name₁ v).1).getattr c₂ name₂).2 = .val v := by
  obtain ⟨_, hst⟩ := C06_setattr_refines s c₁ cl₁ name₁ v loc h₁ hw hr₁
  obtain ⟨_, hres⟩ := C06_getattr_refines _ c₂ cl₂ name₂ loc h₂ hrd hr₂
  rw [hres, C06_history_most_recent _ post loc hpost, hst, AL.get_put_same]

/-- the same through `get` (nested spelling) and `exists_` -/
theorem C06_history_read_your_writes_get (s : BB) (c₁ c₂ : Nat) (cl₁ cl₂ : Client) (name₁ name₂ : String) (v : Val)
    (loc : String) (post : List BOp)
    (h₁ : s.client? c₁ = some cl₁)
    (hw : BB.canWrite cl₁ (absNameS cl₁.ns name₁) = true)
    (hr₁ : AL.get (absNameS cl₁.ns name₁) cl₁.remap = some loc)
    (hpost : NoTouch (s.setattr c₁ name₁ v).1 post loc)
    (h₂ : (BB.runOps post (s.setattr c₁ name₁ v).1).client? c₂ = some cl₂)
    (hrd : BB.canRead cl₂ (absNameS cl₂.ns (splitName name₂).1) = true)
    (hr₂ : AL.get (absNameS cl₂.ns (splitName name₂).1) cl₂.remap = some loc) :
    ((BB.runOps post (s.setattr c₁ name₁ v).1).get c₂ name₂).2 =
      (if (splitName name₂).2.isEmpty || (splitName name₂).2 == [""] then .val v
       else (match v.getPath (splitName name₂).2 with | some x => .val x | none => .keyError)) := by
  obtain ⟨_, hst⟩ := C06_setattr_refines s c₁ cl₁ name₁ v loc h₁ hw hr₁
  obtain ⟨_, hres⟩ := C06_get_refines _ c₂ cl₂ name₂ loc h₂ hrd hr₂
  rw [hres, C06_history_most_recent _ post loc hpost, hst, AL.get_put_same]
  rfl

/-- after `unset` and a history that never targets the location, every read reports the key as absent -/
theorem C06_history_unset_then_read (s : BB) (c₁ c₂ : Nat) (cl₁ cl₂ : Client) (name₁ name₂ : String)
    (loc : String) (post : List BOp)
    (hnd : AL.NoDup s.storage)
    (h₁ : s.client? c₁ = some cl₁)
    (hr₁ : AL.get (absNameS cl₁.ns name₁) cl₁.remap = some loc)
    (hpost : NoTouch (s.unset c₁ name₁).1 post loc)
    (h₂ : (BB.runOps post (s.unset c₁ name₁).1).client? c₂ = some cl₂)
    (hrd : BB.canRead cl₂ (absNameS cl₂.ns name₂) = true)
    (hr₂ : AL.get (absNameS cl₂.ns name₂) cl₂.remap = some loc) :
    ((BB.runOps post (s.unset c₁ name₁).1).getattr c₂ name₂).2 = .keyError ∧
    ∀ name₃, (splitName name₃).1 = name₂ →
      ((BB.runOps post (s.unset c₁ name₁).1).get c₂ name₃).2 = .keyError ∧
      ((BB.runOps post (s.unset c₁ name₁).1).exists_ c₂ name₃).2 = .bool false := by
  obtain ⟨_, hst⟩ := C06_unset_refines s c₁ cl₁ name₁ loc h₁ hr₁
  have hnone : AL.get loc (BB.runOps post (s.unset c₁ name₁).1).storage = none := by
    rw [C06_history_most_recent _ post loc hpost, hst]; exact AL.get_del_same loc _ hnd
  refine ⟨?_, ?_⟩
  · obtain ⟨_, hres⟩ := C06_getattr_refines _ c₂ cl₂ name₂ loc h₂ hrd hr₂
    rw [hres, hnone]
  · intro name₃ hk
    subst hk
    obtain ⟨_, _, hres⟩ := BB.get_spec _ c₂ cl₂ name₃ loc h₂ hrd hr₂
    rw [hnone] at hres
    refine ⟨hres, ?_⟩
    rw [(BB.exists_spec _ c₂ name₃).2, hres]

/-! ### `set`: the resolution it really uses

  `BB.set` resolves the key part `key` of the absolute name for the permission / overwrite checks, but its plain
  branch then calls `setattr c key`, which absolutises `key` AGAIN against the client namespace.  For a client with
  an absolute namespace (every client made by `newClient`) the second step is the identity and the target is the
  single location `key` resolves to (`BB.targets_set_abs`); `BB.setTargets` follows the model exactly, so that the
  frame theorem needs no hypothesis about the namespace (see `C06cEx.sOdd` for a state where the two differ). -/

theorem Names.splitDots_abs (l : List Char) (h : l.head? = some Names.sep) :
    ∃ hd tl, Names.splitDots l = (Names.sep :: hd) :: tl := by
  cases l with
  | nil => simp at h
  | cons x xs =>
    simp only [List.head?_cons, Option.some.injEq] at h
    subst h
    simp only [Names.splitDots, List.foldr_cons]
    have hne : (Names.sep == '.') = false := by decide
    simp only [hne, Bool.false_eq_true, if_false]
    split
    · exact ⟨[], [], rfl⟩
    · exact ⟨_, _, rfl⟩

theorem isAbsS_splitName_fst (n : String) (h : IsAbsS n) : IsAbsS (splitName n).1 := by
  obtain ⟨hd, tl, he⟩ := Names.splitDots_abs n.toList h
  simp only [splitName, he, List.map_cons, IsAbsS, String.toList_ofList, List.head?_cons]

theorem BB.targets_set_abs (s : BB) (c : Nat) (cl : Client) (name : String) (v : Val) (ow : Bool)
    (h : s.client? c = some cl) (hns : IsAbsS cl.ns) :
    s.targets (.set c name v ow) =
      (match AL.get (splitName (absNameS cl.ns name)).1 cl.remap with | some loc => [loc] | none => []) := by
  have habs : absNameS cl.ns (splitName (absNameS cl.ns name)).1 = (splitName (absNameS cl.ns name)).1 :=
    absNameS_of_abs _ _ (isAbsS_splitName_fst _ (isAbsS_absNameS _ _ hns))
  simp only [BB.targets, BB.setTargets, h, BB.resolveName, habs]
  cases AL.get (splitName (absNameS cl.ns name)).1 cl.remap with
  | none => rfl
  | some loc => simp

/-! ### non-vacuity: concrete histories -/

namespace C06cEx

open C06Ex (isVal isBool isKeyError)
open C06bEx (eq_some_getD)

/-- three clients in three namespaces; client 1 reads `/b/m` and client 2 writes `/c/w`, both remapped onto
    client 0's location `/a/k`; client 0 also owns `/a/other` and the nested key `/a/arm/angle` -/
def pre : List BOp :=
  [ .new "a", .new "b", .new "c",
    .register 0 "k" (some .write) false none,
    .register 1 "m" (some .read) false (some "/a/k"),
    .register 2 "w" (some .write) false (some "/a/k"),
    .register 0 "other" (some .write) false none,
    .register 0 "arm/angle" (some .write) false none,
    .setattr 0 "other" (.int 0) ]

def s₀ : BB := BB.runOps pre
/-- the state right after the write `client0.k = 5` -/
def sW : BB := (s₀.setattr 0 "k" (.int 5)).1
/-- the state right after `client2.unset("w")` -/
def sU : BB := (sW.unset 2 "w").1

/-- an interleaving of registrations, reads through the remapped key, writes to OTHER locations (attribute, `set`,
    dotted, static), an unregistration that clears another location, stream switches, a new client -/
def post : List BOp :=
  [ .register 1 "z" (some .write) true none,
    .streamOn 3,
    .setattr 1 "z" (.int 1),
    .getattr 1 "m",
    .set 0 "other" (.obj [("x", .int 2)]) true,
    .set 0 "other.x" (.int 3) true,
    .dotSet 0 ["arm", "angle"] (.int 4),
    .dotGet 0 ["arm", "angle"],
    .exists_ 2 "w",
    .sset "free/slot" (.int 6),
    .sunset "/free/slot",
    .streamClear,
    .verify 1,
    .unregisterKey 0 "other" true,
    .new "d",
    .register 3 "k2" (some .read) false (some "/a/k"),
    .get 3 "k2",
    .unset 1 "z",
    .streamOff ]

/-- the targets of some of these operations, in `sW` -/
example : sW.targets (.setattr 2 "w" (.int 9)) = ["/a/k"] := by decide
example : sW.targets (.set 0 "other.x" (.int 3) true) = ["/a/other"] := by decide
example : sW.targets (.dotSet 0 ["arm", "angle"] (.int 4)) = ["/a/arm/angle"] := by decide
example : sW.targets (.sset "free/slot.f" (.int 6)) = ["/free/slot"] := by decide
example : sW.targets (.unregister 1 true) = ["/a/k"] := by decide
example : sW.targets (.unregister 1 false) = [] := by decide

/-- the history never targets the written location … -/
example : NoTouch sW post "/a/k" := by decide +kernel

/-- … although it really does change other locations (so the operations in it are not no-ops) -/
def sF : BB := BB.runOps post sW
example : isVal (sF.get 0 "arm/angle").2 (.int 4) = true := by decide +kernel
example : (AL.get "/a/other" sW.storage).isSome = true ∧ (AL.get "/a/other" sF.storage).isNone = true := by
  decide +kernel
example : (sF.storage.map (·.1)) = ["/a/k", "/a/arm/angle"] := by decide +kernel
example : sF.clients.length = 4 := by decide +kernel

/-- the readers' client records in the FINAL state (client 3 did not exist when the write happened) -/
def clF1 : Client := (sF.client? 1).getD { ns := "" }
def clF3 : Client := (sF.client? 3).getD { ns := "" }
theorem hclF1 : sF.client? 1 = some clF1 := eq_some_getD (by decide +kernel) _
theorem hclF3 : sF.client? 3 = some clF3 := eq_some_getD (by decide +kernel) _
def clW0 : Client := (s₀.client? 0).getD { ns := "" }
theorem hclW0 : s₀.client? 0 = some clW0 := eq_some_getD (by decide +kernel) _

/-- the hypotheses of `C06_history_read_your_writes` hold: writer and readers live in different namespaces and
    reach the shared location through different keys -/
example : clW0.ns = "/a" ∧ clF1.ns = "/b" ∧ clF3.ns = "/d" ∧
    BB.canWrite clW0 (absNameS clW0.ns "k") = true ∧ AL.get (absNameS clW0.ns "k") clW0.remap = some "/a/k" ∧
    BB.canRead clF1 (absNameS clF1.ns "m") = true ∧ AL.get (absNameS clF1.ns "m") clF1.remap = some "/a/k" ∧
    BB.canRead clF3 (absNameS clF3.ns "k2") = true ∧ AL.get (absNameS clF3.ns "k2") clF3.remap = some "/a/k" ∧
    AL.NoDup s₀.storage := by
  decide +kernel

/-- the history theorem instantiated: both readers see the value written before the history -/
example : (sF.getattr 1 "m").2 = .val (.int 5) :=
  C06_history_read_your_writes s₀ 0 1 clW0 clF1 "k" "m" (.int 5) "/a/k" post hclW0
    (by decide +kernel) (by decide +kernel) (by decide +kernel) hclF1 (by decide +kernel) (by decide +kernel)

example : (sF.getattr 3 "k2").2 = .val (.int 5) :=
  C06_history_read_your_writes s₀ 0 3 clW0 clF3 "k" "k2" (.int 5) "/a/k" post hclW0
    (by decide +kernel) (by decide +kernel) (by decide +kernel) hclF3 (by decide +kernel) (by decide +kernel)

example : AL.get "/a/k" sF.storage = AL.get "/a/k" sW.storage :=
  C06_history_most_recent sW post "/a/k" (by decide +kernel)

example : AL.NoDup sF.storage :=
  C06_history_NoDup sW post (C06_step_NoDup s₀ (.setattr 0 "k" (.int 5)) (by decide +kernel))

/-- and directly, by evaluation -/
example : isVal (sF.getattr 1 "m").2 (.int 5) = true := by decide +kernel

/-- NEGATIVE: a history that writes the same location through client 2's remapped key `/c/w` touches it … -/
def postBad : List BOp :=
  [ .getattr 1 "m", .streamOn 2, .setattr 2 "w" (.int 9), .getattr 1 "m" ]

example : ¬ NoTouch sW postBad "/a/k" := by decide
/-- … and the reader indeed sees the later write -/
example : isVal ((BB.runOps postBad sW).getattr 1 "m").2 (.int 9) = true := by decide
/-- so does a clearing unregistration of a client that maps a key there (sound over-approximation: the location
    is not actually cleared here because other clients still hold it) -/
example : ¬ NoTouch sW [.unregister 2 true] "/a/k" := by decide
example : NoTouch sW [.unregister 2 false] "/a/k" := by decide

/-- the unset variant: `client2.unset("w")`, the same history, then the readers report the key absent -/
def sFU : BB := BB.runOps post sU
def clU1 : Client := (sFU.client? 1).getD { ns := "" }
theorem hclU1 : sFU.client? 1 = some clU1 := eq_some_getD (by decide +kernel) _
def clW2 : Client := (sW.client? 2).getD { ns := "" }
theorem hclW2 : sW.client? 2 = some clW2 := eq_some_getD (by decide +kernel) _

example : NoTouch sU post "/a/k" := by decide +kernel

example : (sFU.getattr 1 "m").2 = .keyError ∧ (sFU.exists_ 1 "m").2 = .bool false := by
  have h := C06_history_unset_then_read sW 2 1 clW2 clU1 "w" "m" "/a/k" post (by decide +kernel) hclW2
    (by decide +kernel) (by decide +kernel) hclU1 (by decide +kernel) (by decide +kernel)
  exact ⟨h.1, (h.2 "m" (by decide +kernel)).2⟩

/-- the model finding behind `setTargets`: for a client whose namespace is NOT absolute (no such client is ever
    made by `newClient`, so this state is unreachable) `set` checks `a/k ↦ L1` but writes `a/a/k ↦ L2` -/
def sOdd : BB :=
  { clients := [{ ns := "a", write := ["a/k", "a/a/k"], remap := [("a/k", "L1"), ("a/a/k", "L2")] }] }

example : sOdd.targets (.set 0 "k" (.int 1) true) = ["L2"] := by decide
example : (sOdd.set 0 "k" (.int 1) true).1.storage.map (·.1) = ["L2"] := by decide

end C06cEx
