/-
  C13 — subtree surgery by id between ticks (prune / insert / replace).

  * refusals: `C13_root_refused`, `C13_unknown_id`, `C13_decorator_child_refused` (direct, `_root`, `_anywhere`),
    `C13_insert_non_composite`; success exactly under a composite: `C13_prune_succeeds`, `C13_prune_done_present`
  * effect at the parent: `C13_prune_direct` (+ `_seq/_sel/_par`), `C13_removed_interrupted`, `C13_insert_position`
  * structure of the edited tree: `C13_structure_prune`, `C13_structure_insert`
  * the state invariant survives: `C13_edit_keeps_good` (remove_child, direct), `C13_prune_keeps_good`,
    `C13_insert_keeps_good(_direct)`, `C13_replace_keeps_good(_direct)` — all at any depth
  * the punchline: `C13_tickable` (+ `_insert`, `_replace`): no internal error on the next tick
  * the historical defect (removing the child a memory composite waits on) and the documented RuntimeError of a
    `SuccessOnSelected` Parallel are checked by `decide` on concrete scenarios at the end.

  Technique: one generic lifting of a local edit through `atParent` / `atNode` (`C13.atParent_lift`,
  `C13.atNode_lift`) for any relation closed under the tree constructors (`C13.Lift`), instantiated with
  `Pres` (invariant preservation), `leavesSafe`, `PruneR` and `InsR` (id bookkeeping).
-/
import PyTreesProofs.Lemmas.NoInternal
import PyTreesProofs.Lemmas.Stop
import PyTreesModel.Edit
set_option linter.unusedVariables false
set_option linter.unusedSimpArgs false
open Node

namespace Node

/-- the ids of every node of the tree, pre-order -/
def ids (n : Node) : List Nat := (nodes n).map Node.id
def idsL (cs : List Node) : List Nat := (nodesL cs).map Node.id
/-- ids are unique in the whole tree -/
def DistinctIds (n : Node) : Prop := (ids n).Nodup

end Node

namespace C13

/-! ### ids -/

theorem ids_leaf (i s k l) : ids (leaf i s k l) = [i] := by simp [ids, nodes, Node.id]
theorem ids_seq (i m s c cs) : ids (seq i m s c cs) = i :: idsL cs := by simp [ids, idsL, nodes, Node.id]
theorem ids_sel (i m s c cs) : ids (sel i m s c cs) = i :: idsL cs := by simp [ids, idsL, nodes, Node.id]
theorem ids_par (i p s c cs) : ids (par i p s c cs) = i :: idsL cs := by simp [ids, idsL, nodes, Node.id]
theorem ids_dec (i k s c) : ids (dec i k s c) = i :: ids c := by simp [ids, nodes, Node.id]
theorem idsL_nil : idsL [] = [] := by simp [idsL, nodesL]
theorem idsL_cons (c cs) : idsL (c :: cs) = ids c ++ idsL cs := by simp [idsL, ids, nodesL]

theorem id_mem_ids (n : Node) : n.id ∈ ids n := List.mem_map.mpr ⟨n, self_mem_nodes n, rfl⟩

theorem ids_mem_idsL : ∀ {cs : List Node} {c : Node} {x : Nat}, c ∈ cs → x ∈ ids c → x ∈ idsL cs
| [], _, _, h, _ => by simp at h
| d :: cs, c, x, h, hx => by
    simp only [List.mem_cons] at h
    simp only [idsL_cons, List.mem_append]
    rcases h with rfl | h
    · exact Or.inl hx
    · exact Or.inr (ids_mem_idsL h hx)

theorem child_id_mem_idsL {cs : List Node} {c : Node} (h : c ∈ cs) : c.id ∈ idsL cs :=
  ids_mem_idsL h (id_mem_ids c)

theorem mem_idsL {cs : List Node} {x : Nat} : x ∈ idsL cs ↔ ∃ c ∈ cs, x ∈ ids c := by
  induction cs with
  | nil => simp [idsL_nil]
  | cons c cs ih => simp [idsL_cons, ih]

theorem any_false_of_not_mem {cs : List Node} {target : Nat} (h : target ∉ idsL cs) :
    cs.any (fun c => c.id = target) = false := by
  simp only [List.any_eq_false, decide_eq_true_eq]
  intro c hc e
  exact h (e ▸ child_id_mem_idsL hc)

/-! ### unknown ids -/

mutual
theorem atParent_none (target : Nat) (f) : ∀ n : Node, target ∉ ids n → atParent target f n = none
| leaf _ _ _ _, _ => by simp [atParent]
| seq i m s cur cs, h => by
    simp only [ids_seq, List.mem_cons, not_or] at h
    simp [atParent, any_false_of_not_mem h.2, atParentL_none target f cs h.2]
| sel i m s cur cs, h => by
    simp only [ids_sel, List.mem_cons, not_or] at h
    simp [atParent, any_false_of_not_mem h.2, atParentL_none target f cs h.2]
| par i p s cur cs, h => by
    simp only [ids_par, List.mem_cons, not_or] at h
    simp [atParent, any_false_of_not_mem h.2, atParentL_none target f cs h.2]
| dec i k s c, h => by
    simp only [ids_dec, List.mem_cons, not_or] at h
    have hc : c.id ≠ target := fun e => h.2 (e ▸ id_mem_ids c)
    simp [atParent, hc, atParent_none target f c h.2]
theorem atParentL_none (target : Nat) (f) : ∀ cs : List Node, target ∉ idsL cs → atParentL target f cs = none
| [], _ => by simp [atParentL]
| c :: cs, h => by
    simp only [idsL_cons, List.mem_append, not_or] at h
    simp [atParentL, atParent_none target f c h.1, atParentL_none target f cs h.2]
end

mutual
theorem atNode_none (target : Nat) (f) : ∀ n : Node, target ∉ ids n → atNode target f n = none
| leaf i _ _ _, h => by
    simp only [ids_leaf, List.mem_singleton] at h
    simp [atNode, Ne.symm h]
| seq i m s cur cs, h => by
    simp only [ids_seq, List.mem_cons, not_or] at h
    simp [atNode, Ne.symm h.1, atNodeL_none target f cs h.2]
| sel i m s cur cs, h => by
    simp only [ids_sel, List.mem_cons, not_or] at h
    simp [atNode, Ne.symm h.1, atNodeL_none target f cs h.2]
| par i p s cur cs, h => by
    simp only [ids_par, List.mem_cons, not_or] at h
    simp [atNode, Ne.symm h.1, atNodeL_none target f cs h.2]
| dec i k s c, h => by
    simp only [ids_dec, List.mem_cons, not_or] at h
    simp [atNode, Ne.symm h.1, atNode_none target f c h.2]
theorem atNodeL_none (target : Nat) (f) : ∀ cs : List Node, target ∉ idsL cs → atNodeL target f cs = none
| [], _ => by simp [atNodeL]
| c :: cs, h => by
    simp only [idsL_cons, List.mem_append, not_or] at h
    simp [atNodeL, atNode_none target f c h.1, atNodeL_none target f cs h.2]
end

end C13

/-- **C13 (root)**: the root can neither be pruned nor replaced -/
theorem C13_root_refused (n sub : Node) :
    prune n n.id = .runtimeError ∧ replace n n.id sub = .runtimeError := by
  simp [prune, replace]

/-- **C13 (unknown id)**: an id that does not occur in the tree reports `False` -/
theorem C13_unknown_id (n sub : Node) (target : Nat) (idx : Int) (h : target ∉ ids n) :
    prune n target = .notFound ∧ replace n target sub = .notFound ∧ Node.insert n target idx sub = .notFound := by
  have hid : n.id ≠ target := fun e => h (e ▸ C13.id_mem_ids n)
  refine ⟨?_, ?_, ?_⟩
  · simp [prune, hid, C13.atParent_none target _ n h]
  · simp [replace, hid, C13.atParent_none target _ n h]
  · simp [Node.insert, C13.atNode_none target _ n h]

/-! ### decorators and non-composites -/

/-- **C13 (decorator child, direct case)**: the child of a decorator is refused, whatever the edit -/
theorem C13_decorator_child_refused (i : Nat) (k : DecKind) (s : Status) (c : Node) (target : Nat)
    (f : Option Nat → List Node → Option (Option Nat × List Node × List Ev)) (h : c.id = target) :
    atParent target f (dec i k s c) = some .runtimeError := by
  simp [atParent, h]

/-- the same at the level of the tree API, for a decorator root -/
theorem C13_decorator_child_refused_root (i : Nat) (k : DecKind) (s : Status) (c sub : Node) (hi : i ≠ c.id) :
    prune (dec i k s c) c.id = .runtimeError ∧ replace (dec i k s c) c.id sub = .runtimeError := by
  simp [prune, replace, Node.id, hi, atParent]

/-- **C13 (insert under a non-composite)**: TypeError -/
theorem C13_insert_non_composite (i : Nat) (s : Status) (k : LeafKind) (l : List LEv) (dk : DecKind) (c sub : Node)
    (idx : Int) :
    Node.insert (leaf i s k l) i idx sub = .typeError ∧ Node.insert (dec i dk s c) i idx sub = .typeError := by
  simp [Node.insert, atNode]

namespace C13

/-! ### `remove_child` -/

theorem findIdx_split {p : Node → Bool} : ∀ {cs : List Node} {j : Nat}, cs.findIdx? p = some j →
    ∃ a c b, cs = a ++ c :: b ∧ a.length = j ∧ p c = true ∧ ∀ x ∈ a, p x = false
| [], j, h => by simp at h
| d :: cs, j, h => by
    rw [List.findIdx?_cons] at h
    by_cases hd : p d = true
    · simp only [hd, ↓reduceIte, Option.some.injEq] at h
      subst h
      exact ⟨[], d, cs, rfl, rfl, hd, by simp⟩
    · simp only [hd, Bool.false_eq_true, ↓reduceIte, Option.map_eq_some_iff] at h
      obtain ⟨j', hj', rfl⟩ := h
      obtain ⟨a, c, b, rfl, rfl, hc, ha⟩ := findIdx_split hj'
      refine ⟨d :: a, c, b, rfl, rfl, hc, ?_⟩
      intro x hx
      simp only [List.mem_cons] at hx
      rcases hx with rfl | hx
      · simpa using hd
      · exact ha x hx

theorem removeChild_spec {cur : Option Nat} {cs : List Node} {target : Nat} {cur' : Option Nat} {cs' : List Node}
    {tr : List Ev} {j : Nat} (h : removeChild cur cs target = some (cur', cs', tr, j)) :
    ∃ a c b, cs = a ++ c :: b ∧ j = a.length ∧ c.id = target ∧ (∀ x ∈ a, x.id ≠ target) ∧
      cs' = a ++ b ∧ cur' = (if cur = some target then none else cur) ∧
      tr = (if c.status = .running then (stopInv c).2 else []) := by
  unfold removeChild at h
  cases hf : cs.findIdx? (fun c => c.id = target) with
  | none => simp [hf] at h
  | some i =>
    obtain ⟨a, c, b, rfl, rfl, hc, ha⟩ := findIdx_split hf
    simp only [hf] at h
    have hget : (a ++ c :: b)[a.length]? = some c := by simp
    have her : (a ++ c :: b).eraseIdx a.length = a ++ b := by
      rw [List.eraseIdx_append_of_length_le (Nat.le_refl _)]; simp
    simp only [hget, her, Option.some.injEq, Prod.mk.injEq] at h
    obtain ⟨rfl, rfl, rfl, rfl⟩ := h
    refine ⟨a, c, b, rfl, rfl, by simpa using hc, ?_, rfl, rfl, rfl⟩
    intro x hx
    simpa using ha x hx

theorem removeChild_some (cur : Option Nat) (cs : List Node) (target : Nat) (hex : ∃ c ∈ cs, c.id = target) :
    ∃ cur' cs' tr j, removeChild cur cs target = some (cur', cs', tr, j) := by
  unfold removeChild
  cases hf : cs.findIdx? (fun c => c.id = target) with
  | none =>
    rw [List.findIdx?_eq_none_iff] at hf
    obtain ⟨c, hc, hid⟩ := hex
    have := hf c hc
    simp [hid] at this
  | some i =>
    obtain ⟨a, c, b, rfl, rfl, hc, ha⟩ := findIdx_split hf
    have hget : (a ++ c :: b)[a.length]? = some c := by simp
    simp only [hget]
    exact ⟨_, _, _, _, rfl⟩

theorem any_true_of_mem {cs : List Node} {target : Nat} (hex : ∃ c ∈ cs, c.id = target) :
    cs.any (fun c => c.id = target) = true := by
  simp only [List.any_eq_true, decide_eq_true_eq]; exact hex

/-- index form of the decomposition -/
theorem split_index (a : List Node) (c : Node) (b : List Node) :
    (a ++ c :: b)[a.length]? = some c ∧ (a ++ c :: b).eraseIdx a.length = a ++ b ∧
    (∀ k x, k < a.length → (a ++ c :: b)[k]? = some x → x ∈ a) := by
  refine ⟨by simp, ?_, ?_⟩
  · rw [List.eraseIdx_append_of_length_le (Nat.le_refl _)]; simp
  · intro k x hk hx
    rw [List.getElem?_append_left hk] at hx
    exact List.mem_of_getElem? hx

theorem prune_seq_direct {i : Nat} {m : Bool} {s : Status} {cur : Option Nat} {cs : List Node} {target : Nat}
    {cur' : Option Nat} {cs' : List Node} {tr : List Ev} {j : Nat} (hi : i ≠ target)
    (hex : ∃ c ∈ cs, c.id = target) (hr : removeChild cur cs target = some (cur', cs', tr, j)) :
    prune (seq i m s cur cs) target = .done (seq i m s cur' cs') tr := by
  have hid : (seq i m s cur cs).id ≠ target := hi
  simp only [prune, if_neg hid, atParent, any_true_of_mem hex, ↓reduceIte, hr, Option.map_some]

theorem prune_sel_direct {i : Nat} {m : Bool} {s : Status} {cur : Option Nat} {cs : List Node} {target : Nat}
    {cur' : Option Nat} {cs' : List Node} {tr : List Ev} {j : Nat} (hi : i ≠ target)
    (hex : ∃ c ∈ cs, c.id = target) (hr : removeChild cur cs target = some (cur', cs', tr, j)) :
    prune (sel i m s cur cs) target = .done (sel i m s cur' cs') tr := by
  have hid : (sel i m s cur cs).id ≠ target := hi
  simp only [prune, if_neg hid, atParent, any_true_of_mem hex, ↓reduceIte, hr, Option.map_some]

theorem prune_par_direct {i : Nat} {p : Policy} {s : Status} {cur : Option Nat} {cs : List Node} {target : Nat}
    {cur' : Option Nat} {cs' : List Node} {tr : List Ev} {j : Nat} (hi : i ≠ target)
    (hex : ∃ c ∈ cs, c.id = target) (hr : removeChild cur cs target = some (cur', cs', tr, j)) :
    prune (par i p s cur cs) target = .done (par i p s cur' cs') tr := by
  have hid : (par i p s cur cs).id ≠ target := hi
  simp only [prune, if_neg hid, atParent, any_true_of_mem hex, ↓reduceIte, hr, Option.map_some]

end C13

/-- **C13 (prune, effect at the parent)**: `remove_child` removes the first child with the id; the parent
    forgets the child if it was the remembered one; a RUNNING removed child is interrupted -/
theorem C13_prune_direct (cur : Option Nat) (cs : List Node) (target : Nat) (cur' : Option Nat) (cs' : List Node)
    (tr : List Ev) (j : Nat) (h : removeChild cur cs target = some (cur', cs', tr, j)) :
    ∃ c, cs[j]? = some c ∧ c.id = target ∧ cs' = cs.eraseIdx j ∧
      cur' = (if cur = some target then none else cur) ∧
      tr = (if c.status = .running then (stopInv c).2 else []) := by
  obtain ⟨a, c, b, rfl, rfl, hid, _, rfl, rfl, rfl⟩ := C13.removeChild_spec h
  obtain ⟨h1, h2, _⟩ := C13.split_index a c b
  exact ⟨c, h1, hid, h2.symm, rfl, rfl⟩

/-- the interrupted subtree is INVALID everywhere and each of its leaves that was not INVALID (in particular
    every RUNNING leaf) received exactly one `terminate(INVALID)` (`StopRel`) -/
theorem C13_removed_interrupted (c : Node) (hwf : wf c = true) :
    allInv (stopInv c).1 = true ∧ (∀ m ∈ nodes (stopInv c).1, m.status = .invalid) ∧
    Zip2 StopRel (leafLogs c) (leafLogs (stopInv c).1) :=
  ⟨stopInv_allInv c hwf, fun m hm => allInv_of_mem_nodes _ m (stopInv_allInv c hwf) hm, stopInv_leafLogs c hwf⟩

/-- **C13 (prune, composite root)**: pruning a direct child of a Sequence root -/
theorem C13_prune_direct_seq (i : Nat) (m : Bool) (s : Status) (cur : Option Nat) (cs : List Node) (target : Nat)
    (hex : ∃ c ∈ cs, c.id = target) (hi : i ≠ target) :
    ∃ j c, cs[j]? = some c ∧ c.id = target ∧ (∀ k x, k < j → cs[k]? = some x → x.id ≠ target) ∧
      prune (seq i m s cur cs) target =
        .done (seq i m s (if cur = some target then none else cur) (cs.eraseIdx j))
          (if c.status = .running then (stopInv c).2 else []) := by
  obtain ⟨cur', cs', tr, j, hr⟩ := C13.removeChild_some cur cs target hex
  obtain ⟨a, c, b, rfl, rfl, hid, ha, rfl, rfl, rfl⟩ := C13.removeChild_spec hr
  obtain ⟨h1, h2, h3⟩ := C13.split_index a c b
  refine ⟨a.length, c, h1, hid, fun k x hk hx => ha x (h3 k x hk hx), ?_⟩
  rw [h2]; exact C13.prune_seq_direct hi hex hr

theorem C13_prune_direct_sel (i : Nat) (m : Bool) (s : Status) (cur : Option Nat) (cs : List Node) (target : Nat)
    (hex : ∃ c ∈ cs, c.id = target) (hi : i ≠ target) :
    ∃ j c, cs[j]? = some c ∧ c.id = target ∧ (∀ k x, k < j → cs[k]? = some x → x.id ≠ target) ∧
      prune (sel i m s cur cs) target =
        .done (sel i m s (if cur = some target then none else cur) (cs.eraseIdx j))
          (if c.status = .running then (stopInv c).2 else []) := by
  obtain ⟨cur', cs', tr, j, hr⟩ := C13.removeChild_some cur cs target hex
  obtain ⟨a, c, b, rfl, rfl, hid, ha, rfl, rfl, rfl⟩ := C13.removeChild_spec hr
  obtain ⟨h1, h2, h3⟩ := C13.split_index a c b
  refine ⟨a.length, c, h1, hid, fun k x hk hx => ha x (h3 k x hk hx), ?_⟩
  rw [h2]; exact C13.prune_sel_direct hi hex hr

theorem C13_prune_direct_par (i : Nat) (p : Policy) (s : Status) (cur : Option Nat) (cs : List Node) (target : Nat)
    (hex : ∃ c ∈ cs, c.id = target) (hi : i ≠ target) :
    ∃ j c, cs[j]? = some c ∧ c.id = target ∧ (∀ k x, k < j → cs[k]? = some x → x.id ≠ target) ∧
      prune (par i p s cur cs) target =
        .done (par i p s (if cur = some target then none else cur) (cs.eraseIdx j))
          (if c.status = .running then (stopInv c).2 else []) := by
  obtain ⟨cur', cs', tr, j, hr⟩ := C13.removeChild_some cur cs target hex
  obtain ⟨a, c, b, rfl, rfl, hid, ha, rfl, rfl, rfl⟩ := C13.removeChild_spec hr
  obtain ⟨h1, h2, h3⟩ := C13.split_index a c b
  refine ⟨a.length, c, h1, hid, fun k x hk hx => ha x (h3 k x hk hx), ?_⟩
  rw [h2]; exact C13.prune_par_direct hi hex hr

namespace C13

/-! ### lifting a local edit through the tree -/

theorem mem_nodesL_of_mem : ∀ {cs : List Node} {c m : Node}, c ∈ cs → m ∈ nodes c → m ∈ nodesL cs
| [], _, _, h, _ => by simp at h
| d :: cs, c, m, h, hm => by
    simp only [List.mem_cons] at h
    simp only [nodesL, List.mem_append]
    rcases h with rfl | h
    · exact Or.inl hm
    · exact Or.inr (mem_nodesL_of_mem h hm)

theorem mem_nodesL_self {cs : List Node} {c : Node} (h : c ∈ cs) : c ∈ nodesL cs :=
  mem_nodesL_of_mem h (self_mem_nodes c)

/-- closure conditions of a relation between a tree and the edited tree -/
structure Lift (R : Node → Node → List Ev → Prop) (RL : List Node → List Node → List Ev → Prop) : Prop where
  head : ∀ c c' cs tr, R c c' tr → RL (c :: cs) (c' :: cs) tr
  tail : ∀ c cs cs' tr, RL cs cs' tr → RL (c :: cs) (c :: cs') tr
  seq : ∀ i m s cur cs cs' tr, RL cs cs' tr → R (seq i m s cur cs) (seq i m s cur cs') tr
  sel : ∀ i m s cur cs cs' tr, RL cs cs' tr → R (sel i m s cur cs) (sel i m s cur cs') tr
  par : ∀ i p s cur cs cs' tr, RL cs cs' tr → R (par i p s cur cs) (par i p s cur cs') tr
  dec : ∀ i k s c c' tr, R c c' tr → R (dec i k s c) (dec i k s c') tr

theorem atParentL_inr_not_done (target : Nat) (f) : ∀ (cs : List Node) (r : EditRes),
    atParentL target f cs = some (.inr r) → ∀ n tr, r ≠ .done n tr
| [], r, h => by simp [atParentL] at h
| c :: cs, r, h => by
    simp only [atParentL] at h
    split at h
    · simp at h
    · rename_i r' hnd heq
      simp only [Option.some.injEq, Sum.inr.injEq] at h
      subst h
      intro n tr e
      subst e
      exact hnd _ _ rfl
    · split at h
      · simp at h
      · exact atParentL_inr_not_done target f cs r h

theorem atNodeL_inr_not_done (target : Nat) (f) : ∀ (cs : List Node) (r : EditRes),
    atNodeL target f cs = some (.inr r) → ∀ n tr, r ≠ .done n tr
| [], r, h => by simp [atNodeL] at h
| c :: cs, r, h => by
    simp only [atNodeL] at h
    split at h
    · simp at h
    · rename_i r' hnd heq
      simp only [Option.some.injEq, Sum.inr.injEq] at h
      subst h
      intro n tr e
      subst e
      exact hnd _ _ rfl
    · split at h
      · simp at h
      · exact atNodeL_inr_not_done target f cs r h

mutual
theorem atParent_lift {R : Node → Node → List Ev → Prop} {RL : List Node → List Node → List Ev → Prop}
    (L : Lift R RL) (K : Node → Prop) (target : Nat)
    (f : Option Nat → List Node → Option (Option Nat × List Node × List Ev))
    (hf : ∀ cur cs cur' cs' tr, (∀ c ∈ cs, K c) → f cur cs = some (cur', cs', tr) →
      (∀ i m s, R (seq i m s cur cs) (seq i m s cur' cs') tr) ∧
      (∀ i m s, R (sel i m s cur cs) (sel i m s cur' cs') tr) ∧
      (∀ i p s, R (par i p s cur cs) (par i p s cur' cs') tr)) :
    ∀ (n n' : Node) (tr : List Ev), (∀ m ∈ nodes n, K m) → atParent target f n = some (.done n' tr) → R n n' tr
| leaf _ _ _ _, n', tr, _, h => by simp [atParent] at h
| seq i m s cur cs, n', tr, hK, h => by
    have hKc : ∀ c ∈ cs, K c := fun c hc => hK c (by simp [nodes, mem_nodesL_self hc])
    have hKL : ∀ m ∈ nodesL cs, K m := fun m hm => hK m (by simp [nodes, hm])
    simp only [atParent] at h
    split at h
    · cases hfc : f cur cs with
      | none => simp [hfc] at h
      | some r =>
        obtain ⟨cur', cs', tr'⟩ := r
        simp only [hfc, Option.some.injEq, EditRes.done.injEq] at h
        obtain ⟨rfl, rfl⟩ := h
        exact (hf _ _ _ _ _ hKc hfc).1 i m s
    · cases hl : atParentL target f cs with
      | none => simp [hl] at h
      | some r =>
        cases r with
        | inl p =>
          obtain ⟨cs', tr'⟩ := p
          simp only [hl, Option.some.injEq, EditRes.done.injEq] at h
          obtain ⟨rfl, rfl⟩ := h
          exact L.seq _ _ _ _ _ _ _ (atParentL_lift L K target f hf cs cs' tr' hKL hl)
        | inr r =>
          simp only [hl, Option.some.injEq] at h
          exact absurd h (atParentL_inr_not_done target f cs r hl n' tr)
| sel i m s cur cs, n', tr, hK, h => by
    have hKc : ∀ c ∈ cs, K c := fun c hc => hK c (by simp [nodes, mem_nodesL_self hc])
    have hKL : ∀ m ∈ nodesL cs, K m := fun m hm => hK m (by simp [nodes, hm])
    simp only [atParent] at h
    split at h
    · cases hfc : f cur cs with
      | none => simp [hfc] at h
      | some r =>
        obtain ⟨cur', cs', tr'⟩ := r
        simp only [hfc, Option.some.injEq, EditRes.done.injEq] at h
        obtain ⟨rfl, rfl⟩ := h
        exact (hf _ _ _ _ _ hKc hfc).2.1 i m s
    · cases hl : atParentL target f cs with
      | none => simp [hl] at h
      | some r =>
        cases r with
        | inl p =>
          obtain ⟨cs', tr'⟩ := p
          simp only [hl, Option.some.injEq, EditRes.done.injEq] at h
          obtain ⟨rfl, rfl⟩ := h
          exact L.sel _ _ _ _ _ _ _ (atParentL_lift L K target f hf cs cs' tr' hKL hl)
        | inr r =>
          simp only [hl, Option.some.injEq] at h
          exact absurd h (atParentL_inr_not_done target f cs r hl n' tr)
| par i p s cur cs, n', tr, hK, h => by
    have hKc : ∀ c ∈ cs, K c := fun c hc => hK c (by simp [nodes, mem_nodesL_self hc])
    have hKL : ∀ m ∈ nodesL cs, K m := fun m hm => hK m (by simp [nodes, hm])
    simp only [atParent] at h
    split at h
    · cases hfc : f cur cs with
      | none => simp [hfc] at h
      | some r =>
        obtain ⟨cur', cs', tr'⟩ := r
        simp only [hfc, Option.some.injEq, EditRes.done.injEq] at h
        obtain ⟨rfl, rfl⟩ := h
        exact (hf _ _ _ _ _ hKc hfc).2.2 i p s
    · cases hl : atParentL target f cs with
      | none => simp [hl] at h
      | some r =>
        cases r with
        | inl q =>
          obtain ⟨cs', tr'⟩ := q
          simp only [hl, Option.some.injEq, EditRes.done.injEq] at h
          obtain ⟨rfl, rfl⟩ := h
          exact L.par _ _ _ _ _ _ _ (atParentL_lift L K target f hf cs cs' tr' hKL hl)
        | inr r =>
          simp only [hl, Option.some.injEq] at h
          exact absurd h (atParentL_inr_not_done target f cs r hl n' tr)
| dec i k s c, n', tr, hK, h => by
    have hKc : ∀ m ∈ nodes c, K m := fun m hm => hK m (by simp [nodes, hm])
    simp only [atParent] at h
    split at h
    · simp at h
    · split at h
      · rename_i c' tr' hc
        simp only [Option.some.injEq, EditRes.done.injEq] at h
        obtain ⟨rfl, rfl⟩ := h
        exact L.dec _ _ _ _ _ _ (atParent_lift L K target f hf c c' tr' hKc hc)
      · rename_i hnd
        exact absurd h (hnd n' tr)
theorem atParentL_lift {R : Node → Node → List Ev → Prop} {RL : List Node → List Node → List Ev → Prop}
    (L : Lift R RL) (K : Node → Prop) (target : Nat)
    (f : Option Nat → List Node → Option (Option Nat × List Node × List Ev))
    (hf : ∀ cur cs cur' cs' tr, (∀ c ∈ cs, K c) → f cur cs = some (cur', cs', tr) →
      (∀ i m s, R (seq i m s cur cs) (seq i m s cur' cs') tr) ∧
      (∀ i m s, R (sel i m s cur cs) (sel i m s cur' cs') tr) ∧
      (∀ i p s, R (par i p s cur cs) (par i p s cur' cs') tr)) :
    ∀ (cs cs' : List Node) (tr : List Ev), (∀ m ∈ nodesL cs, K m) →
      atParentL target f cs = some (.inl (cs', tr)) → RL cs cs' tr
| [], cs', tr, _, h => by simp [atParentL] at h
| c :: cs, cs', tr, hK, h => by
    have hK1 : ∀ m ∈ nodes c, K m := fun m hm => hK m (by simp [nodesL, hm])
    have hK2 : ∀ m ∈ nodesL cs, K m := fun m hm => hK m (by simp [nodesL, hm])
    simp only [atParentL] at h
    split at h
    · rename_i c' tr' hc
      simp only [Option.some.injEq, Sum.inl.injEq, Prod.mk.injEq] at h
      obtain ⟨rfl, rfl⟩ := h
      exact L.head _ _ _ _ (atParent_lift L K target f hf c c' tr' hK1 hc)
    · simp at h
    · split at h
      · rename_i cs'' tr' hl
        simp only [Option.some.injEq, Sum.inl.injEq, Prod.mk.injEq] at h
        obtain ⟨rfl, rfl⟩ := h
        exact L.tail _ _ _ _ (atParentL_lift L K target f hf cs cs'' tr' hK2 hl)
      · rename_i hnd
        exact absurd h (hnd cs' tr)
end

mutual
theorem atNode_lift {R : Node → Node → List Ev → Prop} {RL : List Node → List Node → List Ev → Prop}
    (L : Lift R RL) (K : Node → Prop) (target : Nat) (f : Node → EditRes)
    (hf : ∀ p p' tr, K p → p.id = target → f p = .done p' tr → R p p' tr) :
    ∀ (n n' : Node) (tr : List Ev), (∀ m ∈ nodes n, K m) → atNode target f n = some (.done n' tr) → R n n' tr
| leaf i s k l, n', tr, hK, h => by
    simp only [atNode] at h
    split at h
    · rename_i hi
      simp only [Option.some.injEq] at h
      exact hf _ _ _ (hK _ (self_mem_nodes _)) hi h
    · simp at h
| seq i m s cur cs, n', tr, hK, h => by
    have hKL : ∀ m ∈ nodesL cs, K m := fun m hm => hK m (by simp [nodes, hm])
    simp only [atNode] at h
    split at h
    · rename_i hi
      simp only [Option.some.injEq] at h
      exact hf _ _ _ (hK _ (self_mem_nodes _)) hi h
    · cases hl : atNodeL target f cs with
      | none => simp [hl] at h
      | some r =>
        cases r with
        | inl q =>
          obtain ⟨cs', tr'⟩ := q
          simp only [hl, Option.some.injEq, EditRes.done.injEq] at h
          obtain ⟨rfl, rfl⟩ := h
          exact L.seq _ _ _ _ _ _ _ (atNodeL_lift L K target f hf cs cs' tr' hKL hl)
        | inr r =>
          simp only [hl, Option.some.injEq] at h
          exact absurd h (atNodeL_inr_not_done target f cs r hl n' tr)
| sel i m s cur cs, n', tr, hK, h => by
    have hKL : ∀ m ∈ nodesL cs, K m := fun m hm => hK m (by simp [nodes, hm])
    simp only [atNode] at h
    split at h
    · rename_i hi
      simp only [Option.some.injEq] at h
      exact hf _ _ _ (hK _ (self_mem_nodes _)) hi h
    · cases hl : atNodeL target f cs with
      | none => simp [hl] at h
      | some r =>
        cases r with
        | inl q =>
          obtain ⟨cs', tr'⟩ := q
          simp only [hl, Option.some.injEq, EditRes.done.injEq] at h
          obtain ⟨rfl, rfl⟩ := h
          exact L.sel _ _ _ _ _ _ _ (atNodeL_lift L K target f hf cs cs' tr' hKL hl)
        | inr r =>
          simp only [hl, Option.some.injEq] at h
          exact absurd h (atNodeL_inr_not_done target f cs r hl n' tr)
| par i p s cur cs, n', tr, hK, h => by
    have hKL : ∀ m ∈ nodesL cs, K m := fun m hm => hK m (by simp [nodes, hm])
    simp only [atNode] at h
    split at h
    · rename_i hi
      simp only [Option.some.injEq] at h
      exact hf _ _ _ (hK _ (self_mem_nodes _)) hi h
    · cases hl : atNodeL target f cs with
      | none => simp [hl] at h
      | some r =>
        cases r with
        | inl q =>
          obtain ⟨cs', tr'⟩ := q
          simp only [hl, Option.some.injEq, EditRes.done.injEq] at h
          obtain ⟨rfl, rfl⟩ := h
          exact L.par _ _ _ _ _ _ _ (atNodeL_lift L K target f hf cs cs' tr' hKL hl)
        | inr r =>
          simp only [hl, Option.some.injEq] at h
          exact absurd h (atNodeL_inr_not_done target f cs r hl n' tr)
| dec i k s c, n', tr, hK, h => by
    have hKc : ∀ m ∈ nodes c, K m := fun m hm => hK m (by simp [nodes, hm])
    simp only [atNode] at h
    split at h
    · rename_i hi
      simp only [Option.some.injEq] at h
      exact hf _ _ _ (hK _ (self_mem_nodes _)) hi h
    · split at h
      · rename_i c' tr' hc
        simp only [Option.some.injEq, EditRes.done.injEq] at h
        obtain ⟨rfl, rfl⟩ := h
        exact L.dec _ _ _ _ _ _ (atNode_lift L K target f hf c c' tr' hKc hc)
      · rename_i hnd
        exact absurd h (hnd n' tr)
theorem atNodeL_lift {R : Node → Node → List Ev → Prop} {RL : List Node → List Node → List Ev → Prop}
    (L : Lift R RL) (K : Node → Prop) (target : Nat) (f : Node → EditRes)
    (hf : ∀ p p' tr, K p → p.id = target → f p = .done p' tr → R p p' tr) :
    ∀ (cs cs' : List Node) (tr : List Ev), (∀ m ∈ nodesL cs, K m) →
      atNodeL target f cs = some (.inl (cs', tr)) → RL cs cs' tr
| [], cs', tr, _, h => by simp [atNodeL] at h
| c :: cs, cs', tr, hK, h => by
    have hK1 : ∀ m ∈ nodes c, K m := fun m hm => hK m (by simp [nodesL, hm])
    have hK2 : ∀ m ∈ nodesL cs, K m := fun m hm => hK m (by simp [nodesL, hm])
    simp only [atNodeL] at h
    split at h
    · rename_i c' tr' hc
      simp only [Option.some.injEq, Sum.inl.injEq, Prod.mk.injEq] at h
      obtain ⟨rfl, rfl⟩ := h
      exact L.head _ _ _ _ (atNode_lift L K target f hf c c' tr' hK1 hc)
    · simp at h
    · split at h
      · rename_i cs'' tr' hl
        simp only [Option.some.injEq, Sum.inl.injEq, Prod.mk.injEq] at h
        obtain ⟨rfl, rfl⟩ := h
        exact L.tail _ _ _ _ (atNodeL_lift L K target f hf cs cs'' tr' hK2 hl)
      · rename_i hnd
        exact absurd h (hnd cs' tr)
end

end C13

namespace C13

/-! ### what an edit preserves -/

/-- relation between a node and the node after an edit somewhere below it -/
structure Pres (n n' : Node) : Prop where
  hid : n'.id = n.id
  hstatus : n'.status = n.status
  hnoRun : noRun n = true → noRun n' = true
  hallInv : allInv n = true → allInv n' = true
  hwf : wf n = true → wf n' = true
  hok : leavesOK n = true → leavesOK n' = true

/-- relation between the children (and remembered child) of a composite before and after a direct edit -/
structure EditL (cur : Option Nat) (cs : List Node) (cur' : Option Nat) (cs' : List Node) : Prop where
  hnoRun : noRunL cs = true → noRunL cs' = true
  hallInv : allInvL cs = true → allInvL cs' = true
  hwf : wfL cs = true → wfL cs' = true
  hok : leavesOKL cs = true → leavesOKL cs' = true
  hnodup : (cs.map Node.id).Nodup → (cs'.map Node.id).Nodup
  honlyCur : (cs.map Node.id).Nodup → onlyCur cur cs = true → onlyCur cur' cs' = true
  hcurOK : (cs.map Node.id).Nodup → curOK cur cs = true → curOK cur' cs' = true
  hcurNone : cur.isNone = true → cur'.isNone = true

/-- children lists that differ by an edit inside one child -/
structure PresL (cs cs' : List Node) : Prop where
  hids : cs'.map Node.id = cs.map Node.id
  hnoRun : noRunL cs = true → noRunL cs' = true
  hallInv : allInvL cs = true → allInvL cs' = true
  hwf : wfL cs = true → wfL cs' = true
  hok : leavesOKL cs = true → leavesOKL cs' = true
  honlyCur : ∀ cur, onlyCur cur cs = true → onlyCur cur cs' = true
  hcurOK : ∀ cur, curOK cur cs = true → curOK cur cs' = true

theorem EditL.toSeq {cur cs cur' cs'} (E : EditL cur cs cur' cs') (i : Nat) (m : Bool) (s : Status) :
    Pres (seq i m s cur cs) (seq i m s cur' cs') where
  hid := rfl
  hstatus := rfl
  hnoRun := by simp only [noRun, Bool.and_eq_true]; exact fun ⟨a, b⟩ => ⟨a, E.hnoRun b⟩
  hallInv := by simp only [allInv, Bool.and_eq_true]; exact fun ⟨a, b⟩ => ⟨a, E.hallInv b⟩
  hwf := by
    simp only [wf, Bool.and_eq_true, Bool.or_eq_true, decide_eq_true_eq]
    rintro ⟨⟨⟨⟨⟨h1, h2⟩, h3⟩, h4⟩, h5⟩, h6⟩
    refine ⟨⟨⟨⟨⟨E.hwf h1, h2.imp id E.hnoRun⟩, E.honlyCur h4 h3⟩, E.hnodup h4⟩, h5.imp id ?_⟩, E.hcurOK h4 h6⟩
    rintro ⟨a, b⟩; exact ⟨E.hallInv a, E.hcurNone b⟩
  hok := by simp only [leavesOK]; exact E.hok

theorem EditL.toSel {cur cs cur' cs'} (E : EditL cur cs cur' cs') (i : Nat) (m : Bool) (s : Status) :
    Pres (sel i m s cur cs) (sel i m s cur' cs') where
  hid := rfl
  hstatus := rfl
  hnoRun := by simp only [noRun, Bool.and_eq_true]; exact fun ⟨a, b⟩ => ⟨a, E.hnoRun b⟩
  hallInv := by simp only [allInv, Bool.and_eq_true]; exact fun ⟨a, b⟩ => ⟨a, E.hallInv b⟩
  hwf := by
    simp only [wf, Bool.and_eq_true, Bool.or_eq_true, decide_eq_true_eq]
    rintro ⟨⟨⟨⟨⟨h1, h2⟩, h3⟩, h4⟩, h5⟩, h6⟩
    refine ⟨⟨⟨⟨⟨E.hwf h1, h2.imp id E.hnoRun⟩, E.honlyCur h4 h3⟩, E.hnodup h4⟩, h5.imp id ?_⟩, E.hcurOK h4 h6⟩
    rintro ⟨a, b⟩; exact ⟨E.hallInv a, E.hcurNone b⟩
  hok := by simp only [leavesOK]; exact E.hok

theorem EditL.toPar {cur cs cur' cs'} (E : EditL cur cs cur' cs') (i : Nat) (p : Policy) (s : Status) :
    Pres (par i p s cur cs) (par i p s cur' cs') where
  hid := rfl
  hstatus := rfl
  hnoRun := by simp only [noRun, Bool.and_eq_true]; exact fun ⟨a, b⟩ => ⟨a, E.hnoRun b⟩
  hallInv := by simp only [allInv, Bool.and_eq_true]; exact fun ⟨a, b⟩ => ⟨a, E.hallInv b⟩
  hwf := by
    simp only [wf, Bool.and_eq_true, Bool.or_eq_true, decide_eq_true_eq]
    rintro ⟨⟨⟨⟨h1, h2⟩, h4⟩, h5⟩, h6⟩
    refine ⟨⟨⟨⟨E.hwf h1, h2.imp id E.hnoRun⟩, E.hnodup h4⟩, h5.imp id ?_⟩, E.hcurOK h4 h6⟩
    rintro ⟨a, b⟩; exact ⟨E.hallInv a, E.hcurNone b⟩
  hok := by simp only [leavesOK]; exact E.hok

theorem EditL.trans {c1 l1 c2 l2 c3 l3} (A : EditL c1 l1 c2 l2) (B : EditL c2 l2 c3 l3) : EditL c1 l1 c3 l3 where
  hnoRun h := B.hnoRun (A.hnoRun h)
  hallInv h := B.hallInv (A.hallInv h)
  hwf h := B.hwf (A.hwf h)
  hok h := B.hok (A.hok h)
  hnodup h := B.hnodup (A.hnodup h)
  honlyCur h g := B.honlyCur (A.hnodup h) (A.honlyCur h g)
  hcurOK h g := B.hcurOK (A.hnodup h) (A.hcurOK h g)
  hcurNone h := B.hcurNone (A.hcurNone h)

theorem PresL.toEditL {cs cs'} (P : PresL cs cs') (cur : Option Nat) : EditL cur cs cur cs' where
  hnoRun := P.hnoRun
  hallInv := P.hallInv
  hwf := P.hwf
  hok := P.hok
  hnodup h := by rw [P.hids]; exact h
  honlyCur _ := P.honlyCur cur
  hcurOK _ := P.hcurOK cur
  hcurNone h := h

theorem PresL.head {c c' : Node} (P : Pres c c') (cs : List Node) : PresL (c :: cs) (c' :: cs) where
  hids := by simp [P.hid]
  hnoRun := by simp only [noRunL, Bool.and_eq_true]; exact fun ⟨a, b⟩ => ⟨P.hnoRun a, b⟩
  hallInv := by simp only [allInvL, Bool.and_eq_true]; exact fun ⟨a, b⟩ => ⟨P.hallInv a, b⟩
  hwf := by simp only [wfL, Bool.and_eq_true]; exact fun ⟨a, b⟩ => ⟨P.hwf a, b⟩
  hok := by simp only [leavesOKL, Bool.and_eq_true]; exact fun ⟨a, b⟩ => ⟨P.hok a, b⟩
  honlyCur cur := by
    simp only [onlyCur, Bool.and_eq_true, Bool.or_eq_true, P.hid]
    exact fun ⟨a, b⟩ => ⟨a.imp P.hnoRun id, b⟩
  hcurOK cur := by
    cases cur with
    | none => simp [curOK]
    | some x => simp only [curOK, List.any_cons, P.hid, P.hstatus]; exact id

theorem PresL.tail {cs cs' : List Node} (P : PresL cs cs') (c : Node) : PresL (c :: cs) (c :: cs') where
  hids := by simp [P.hids]
  hnoRun := by simp only [noRunL, Bool.and_eq_true]; exact fun ⟨a, b⟩ => ⟨a, P.hnoRun b⟩
  hallInv := by simp only [allInvL, Bool.and_eq_true]; exact fun ⟨a, b⟩ => ⟨a, P.hallInv b⟩
  hwf := by simp only [wfL, Bool.and_eq_true]; exact fun ⟨a, b⟩ => ⟨a, P.hwf b⟩
  hok := by simp only [leavesOKL, Bool.and_eq_true]; exact fun ⟨a, b⟩ => ⟨a, P.hok b⟩
  honlyCur cur := by
    simp only [onlyCur, Bool.and_eq_true]
    exact fun ⟨a, b⟩ => ⟨a, P.honlyCur cur b⟩
  hcurOK cur := by
    cases cur with
    | none => simp [curOK]
    | some x =>
      have := P.hcurOK (some x)
      simp only [curOK] at this
      simp only [curOK, List.any_cons, Bool.or_eq_true]
      exact fun h => h.imp id this

theorem Pres.dec {c c' : Node} (P : Pres c c') (i : Nat) (k : DecKind) (s : Status) :
    Pres (dec i k s c) (dec i k s c') where
  hid := rfl
  hstatus := rfl
  hnoRun := by simp only [noRun, Bool.and_eq_true]; exact fun ⟨a, b⟩ => ⟨a, P.hnoRun b⟩
  hallInv := by simp only [allInv, Bool.and_eq_true]; exact fun ⟨a, b⟩ => ⟨a, P.hallInv b⟩
  hwf := by
    simp only [wf, Bool.and_eq_true, Bool.or_eq_true]
    rintro ⟨⟨⟨h1, h2⟩, h3⟩, h4⟩
    exact ⟨⟨⟨P.hwf h1, h2.imp id P.hnoRun⟩, h3⟩, h4.imp id P.hallInv⟩
  hok := by simp only [leavesOK]; exact P.hok

theorem presLift : Lift (fun n n' _ => Pres n n') (fun cs cs' _ => PresL cs cs') where
  head c c' cs _ P := PresL.head P cs
  tail c cs cs' _ P := PresL.tail P c
  seq i m s cur cs cs' _ P := (P.toEditL cur).toSeq i m s
  sel i m s cur cs cs' _ P := (P.toEditL cur).toSel i m s
  par i p s cur cs cs' _ P := (P.toEditL cur).toPar i p s
  dec i k s c c' _ P := P.dec i k s

/-- leaf sanity (`leavesSafe`) is a separate relation: it is not part of `Good` -/
theorem safeLift : Lift (fun n n' _ => leavesSafe n = true → leavesSafe n' = true)
    (fun cs cs' _ => leavesSafeL cs = true → leavesSafeL cs' = true) where
  head c c' cs _ P := by simp only [leavesSafeL, Bool.and_eq_true]; exact fun ⟨a, b⟩ => ⟨P a, b⟩
  tail c cs cs' _ P := by simp only [leavesSafeL, Bool.and_eq_true]; exact fun ⟨a, b⟩ => ⟨a, P b⟩
  seq i m s cur cs cs' _ P := by simpa only [leavesSafe] using P
  sel i m s cur cs cs' _ P := by simpa only [leavesSafe] using P
  par i p s cur cs cs' _ P := by simpa only [leavesSafe] using P
  dec i k s c c' _ P := by simpa only [leavesSafe] using P

end C13

namespace C13

/-! ### the direct edits -/

theorem nodup_remove {a : List Node} {c : Node} {b : List Node} (h : ((a ++ c :: b).map Node.id).Nodup) :
    ((a ++ b).map Node.id).Nodup ∧ ∀ x ∈ a ++ b, x.id ≠ c.id := by
  simp only [List.map_append, List.map_cons, List.nodup_append, List.nodup_cons, List.mem_map, List.mem_cons,
    List.mem_append] at h ⊢
  obtain ⟨h1, ⟨h2, h3⟩, h4⟩ := h
  refine ⟨⟨h1, h3, fun x hx y hy => h4 x hx y (Or.inr hy)⟩, ?_⟩
  rintro x (hx | hx) e
  · exact h4 x.id ⟨x, hx, rfl⟩ c.id (Or.inl rfl) e
  · exact h2 ⟨x, hx, e⟩

/-- removing the child `c` (remembered child forgotten if it was `c`) -/
theorem editL_remove (cur : Option Nat) (a : List Node) (c : Node) (b : List Node) (target : Nat)
    (hid : c.id = target) : EditL cur (a ++ c :: b) (if cur = some target then none else cur) (a ++ b) where
  hnoRun := by simp only [noRunL_append, noRunL, Bool.and_eq_true]; exact fun ⟨x, _, z⟩ => ⟨x, z⟩
  hallInv := by simp only [allInvL_append, allInvL, Bool.and_eq_true]; exact fun ⟨x, _, z⟩ => ⟨x, z⟩
  hwf := by simp only [wfL_append, wfL, Bool.and_eq_true]; exact fun ⟨x, _, z⟩ => ⟨x, z⟩
  hok := by simp only [leavesOKL_append, leavesOKL, Bool.and_eq_true]; exact fun ⟨x, _, z⟩ => ⟨x, z⟩
  hnodup h := (nodup_remove h).1
  honlyCur hnd h := by
    rw [onlyCur_iff] at h ⊢
    intro x hx
    have hx' : x ∈ a ++ c :: b := by
      simp only [List.mem_append, List.mem_cons] at hx ⊢
      rcases hx with hx | hx
      · exact Or.inl hx
      · exact Or.inr (Or.inr hx)
    have hne : x.id ≠ target := hid ▸ (nodup_remove hnd).2 x hx
    rcases h x hx' with h1 | h1
    · exact Or.inl h1
    · right
      have : cur ≠ some target := by rw [h1]; simpa using hne
      simp [h1, hne]
  hcurOK hnd h := by
    rw [curOK_iff] at h ⊢
    intro y hy
    by_cases hc : cur = some target
    · simp [hc] at hy
    · simp only [hc, ↓reduceIte] at hy
      obtain ⟨x, hx, hxy, hxs⟩ := h y hy
      refine ⟨x, ?_, hxy, hxs⟩
      simp only [List.mem_append, List.mem_cons] at hx ⊢
      rcases hx with hx | rfl | hx
      · exact Or.inl hx
      · exact absurd (by rw [hy, ← hxy, hid]) hc
      · exact Or.inr hx
  hcurNone := by cases cur <;> simp

/-- inserting an all-INVALID, well-formed subtree with a new id among the children -/
theorem editL_insert (cur : Option Nat) (a b : List Node) (x : Node) (hwf : wf x = true) (hinv : allInv x = true)
    (hok : leavesOK x = true) (hnew : x.id ∉ (a ++ b).map Node.id) : EditL cur (a ++ b) cur (a ++ x :: b) where
  hnoRun := by
    simp only [noRunL_append, noRunL, Bool.and_eq_true]; exact fun ⟨p, q⟩ => ⟨p, allInv_noRun x hinv, q⟩
  hallInv := by simp only [allInvL_append, allInvL, Bool.and_eq_true]; exact fun ⟨p, q⟩ => ⟨p, hinv, q⟩
  hwf := by simp only [wfL_append, wfL, Bool.and_eq_true]; exact fun ⟨p, q⟩ => ⟨p, hwf, q⟩
  hok := by simp only [leavesOKL_append, leavesOKL, Bool.and_eq_true]; exact fun ⟨p, q⟩ => ⟨p, hok, q⟩
  hnodup h := by
    simp only [List.map_append, List.map_cons, List.nodup_append, List.nodup_cons, List.mem_map, List.mem_cons,
      List.mem_append, not_or, not_exists, not_and] at h hnew ⊢
    obtain ⟨h1, h2, h3⟩ := h
    refine ⟨h1, ⟨fun y hy e => hnew.2 y hy e, h2⟩, ?_⟩
    rintro p ⟨y, hy, rfl⟩ q (rfl | hq) e
    · exact hnew.1 y hy e
    · exact h3 _ ⟨y, hy, rfl⟩ q hq e
  honlyCur _ h := by
    simp only [onlyCur_append, onlyCur, Bool.and_eq_true, Bool.or_eq_true] at h ⊢
    exact ⟨h.1, Or.inl (allInv_noRun x hinv), h.2⟩
  hcurOK _ h := by
    rw [curOK_iff] at h ⊢
    intro y hy
    obtain ⟨z, hz, h1, h2⟩ := h y hy
    refine ⟨z, ?_, h1, h2⟩
    simp only [List.mem_append, List.mem_cons] at hz ⊢
    rcases hz with hz | hz
    · exact Or.inl hz
    · exact Or.inr (Or.inr hz)
  hcurNone h := h

/-- Python's `list.insert`: position `k` with the clamping rule -/
theorem listInsert_spec (cs : List Node) (idx : Int) (x : Node) :
    ∃ k : Nat, k ≤ cs.length ∧ listInsert cs idx x = cs.take k ++ x :: cs.drop k ∧
      (k : Int) = if idx < 0 then max 0 ((cs.length : Int) + idx) else min idx cs.length := by
  unfold listInsert
  refine ⟨_, ?_, rfl, ?_⟩
  · split <;> split <;> omega
  · split <;> split <;> omega

theorem editL_listInsert (cur : Option Nat) (cs : List Node) (idx : Int) (x : Node) (hwf : wf x = true)
    (hinv : allInv x = true) (hok : leavesOK x = true) (hnew : x.id ∉ cs.map Node.id) :
    EditL cur cs cur (listInsert cs idx x) := by
  obtain ⟨k, _, hk, _⟩ := listInsert_spec cs idx x
  rw [hk]
  have := editL_insert cur (cs.take k) (cs.drop k) x hwf hinv hok (by rw [List.take_append_drop]; exact hnew)
  rwa [List.take_append_drop] at this

theorem safe_remove {a : List Node} {c : Node} {b : List Node} (h : leavesSafeL (a ++ c :: b) = true) :
    leavesSafeL (a ++ b) = true := by
  simp only [leavesSafeL_append, leavesSafeL, Bool.and_eq_true] at h ⊢
  exact ⟨h.1, h.2.2⟩

theorem safe_listInsert (cs : List Node) (idx : Int) (x : Node) (hx : leavesSafe x = true)
    (h : leavesSafeL cs = true) : leavesSafeL (listInsert cs idx x) = true := by
  obtain ⟨k, _, hk, _⟩ := listInsert_spec cs idx x
  rw [hk]
  rw [← List.take_append_drop k cs] at h
  simp only [leavesSafeL_append, leavesSafeL, Bool.and_eq_true] at h ⊢
  exact ⟨h.1, hx, h.2⟩

end C13

namespace C13

theorem Pres.good {n n' : Node} (P : Pres n n') (hg : Good n) : Good n' := ⟨P.hwf hg.1, P.hok hg.2⟩

/-- `prune` is `atParent` with an edit function that is `remove_child` -/
theorem prune_done {n n' : Node} {target : Nat} {tr : List Ev} (h : prune n target = .done n' tr) :
    n.id ≠ target ∧ ∃ f : Option Nat → List Node → Option (Option Nat × List Node × List Ev),
      (∀ cur cs cur' cs' tr', f cur cs = some (cur', cs', tr') →
        ∃ j, removeChild cur cs target = some (cur', cs', tr', j)) ∧
      atParent target f n = some (.done n' tr) := by
  unfold prune at h
  split at h
  · simp at h
  · rename_i hne
    split at h
    rotate_left
    · simp at h
    rename_i r hat
    subst h
    refine ⟨hne, _, ?_, hat⟩
    · intro cur cs cur' cs' tr' hr
      simp only [Option.map_eq_some_iff] at hr
      obtain ⟨⟨a, b, c, j⟩, h1, h2⟩ := hr
      simp only [Prod.mk.injEq] at h2
      obtain ⟨rfl, rfl, rfl⟩ := h2
      exact ⟨j, h1⟩

/-- `replace` is `atParent` with `remove_child` followed by `insert` at the same index -/
theorem replace_done {n n' sub : Node} {target : Nat} {tr : List Ev} (h : replace n target sub = .done n' tr) :
    n.id ≠ target ∧ ∃ f : Option Nat → List Node → Option (Option Nat × List Node × List Ev),
      (∀ cur cs cur' cs' tr', f cur cs = some (cur', cs', tr') →
        ∃ j l, removeChild cur cs target = some (cur', l, tr', j) ∧ cs' = listInsert l j sub) ∧
      atParent target f n = some (.done n' tr) := by
  unfold replace at h
  split at h
  · simp at h
  · rename_i hne
    split at h
    rotate_left
    · simp at h
    rename_i r hat
    subst h
    refine ⟨hne, _, ?_, hat⟩
    · intro cur cs cur' cs' tr' hr
      simp only [Option.map_eq_some_iff] at hr
      obtain ⟨⟨a, b, c, j⟩, h1, h2⟩ := hr
      simp only [Prod.mk.injEq] at h2
      obtain ⟨rfl, rfl, rfl⟩ := h2
      exact ⟨j, b, h1, rfl⟩

theorem removeChild_editL {cur : Option Nat} {cs : List Node} {target : Nat} {cur' : Option Nat} {cs' : List Node}
    {tr : List Ev} {j : Nat} (h : removeChild cur cs target = some (cur', cs', tr, j)) : EditL cur cs cur' cs' := by
  obtain ⟨a, c, b, rfl, rfl, hid, _, rfl, rfl, rfl⟩ := removeChild_spec h
  exact editL_remove cur a c b target hid

theorem removeChild_safe {cur : Option Nat} {cs : List Node} {target : Nat} {cur' : Option Nat} {cs' : List Node}
    {tr : List Ev} {j : Nat} (h : removeChild cur cs target = some (cur', cs', tr, j))
    (hs : leavesSafeL cs = true) : leavesSafeL cs' = true := by
  obtain ⟨a, c, b, rfl, rfl, hid, _, rfl, rfl, rfl⟩ := removeChild_spec h
  exact safe_remove hs

/-- what `prune` preserves, at any depth -/
theorem prune_pres {n n' : Node} {target : Nat} {tr : List Ev} (h : prune n target = .done n' tr) :
    Pres n n' ∧ (leavesSafe n = true → leavesSafe n' = true) := by
  obtain ⟨_, f, hf, ha⟩ := prune_done h
  constructor
  · refine atParent_lift presLift (fun _ => True) target f ?_ n n' tr (fun _ _ => trivial) ha
    intro cur cs cur' cs' tr' _ hfc
    obtain ⟨j, hr⟩ := hf _ _ _ _ _ hfc
    have E := removeChild_editL hr
    exact ⟨E.toSeq, E.toSel, E.toPar⟩
  · refine atParent_lift safeLift (fun _ => True) target f ?_ n n' tr (fun _ _ => trivial) ha
    intro cur cs cur' cs' tr' _ hfc
    obtain ⟨j, hr⟩ := hf _ _ _ _ _ hfc
    have E := removeChild_safe hr
    simp only [leavesSafe]
    exact ⟨fun _ _ _ => E, fun _ _ _ => E, fun _ _ _ => E⟩

end C13

/-- **C13 (edits keep the state invariant, direct case)**: `remove_child` on the children of a good composite
    keeps the composite good, so every theorem about ticks applies to the edited tree -/
theorem C13_edit_keeps_good (i : Nat) (m : Bool) (p : Policy) (s : Status) (cur : Option Nat) (cs : List Node)
    (target : Nat) (cur' : Option Nat) (cs' : List Node) (tr : List Ev) (j : Nat)
    (h : removeChild cur cs target = some (cur', cs', tr, j)) :
    (Good (seq i m s cur cs) → Good (seq i m s cur' cs')) ∧
    (Good (sel i m s cur cs) → Good (sel i m s cur' cs')) ∧
    (Good (par i p s cur cs) → Good (par i p s cur' cs')) :=
  have E := C13.removeChild_editL h
  ⟨(E.toSeq i m s).good, (E.toSel i m s).good, (E.toPar i p s).good⟩

/-- **C13 (prune keeps the state invariant)**, at any depth; the pruned tree also keeps its root id and status
    and its leaf sanity -/
theorem C13_prune_keeps_good (n n' : Node) (target : Nat) (tr : List Ev) (hg : Good n)
    (hp : prune n target = .done n' tr) :
    Good n' ∧ n'.id = n.id ∧ n'.status = n.status ∧ (leavesSafe n = true → leavesSafe n' = true) :=
  have P := C13.prune_pres hp
  ⟨P.1.good hg, P.1.hid, P.1.hstatus, P.2⟩

/-- **C13 (insert keeps the state invariant, direct case)**: a fresh subtree whose root id differs from its new
    siblings' ids -/
theorem C13_insert_keeps_good_direct (i : Nat) (m : Bool) (p : Policy) (s : Status) (cur : Option Nat)
    (cs : List Node) (idx : Int) (sub : Node) (hf : isFresh sub = true) (hnew : sub.id ∉ cs.map Node.id) :
    (Good (seq i m s cur cs) → Good (seq i m s cur (listInsert cs idx sub))) ∧
    (Good (sel i m s cur cs) → Good (sel i m s cur (listInsert cs idx sub))) ∧
    (Good (par i p s cur cs) → Good (par i p s cur (listInsert cs idx sub))) :=
  have F := fresh_facts sub hf
  have E := C13.editL_listInsert cur cs idx sub F.1 F.2.1 F.2.2 hnew
  ⟨(E.toSeq i m s).good, (E.toSel i m s).good, (E.toPar i p s).good⟩

/-- **C13 (replace keeps the state invariant, direct case)**: `remove_child` then `insert` at the same index -/
theorem C13_replace_keeps_good_direct (i : Nat) (m : Bool) (p : Policy) (s : Status) (cur : Option Nat)
    (cs : List Node) (target : Nat) (cur' : Option Nat) (cs' : List Node) (tr : List Ev) (j : Nat) (sub : Node)
    (hf : isFresh sub = true) (h : removeChild cur cs target = some (cur', cs', tr, j))
    (hnew : sub.id ∉ cs'.map Node.id) :
    (Good (seq i m s cur cs) → Good (seq i m s cur' (listInsert cs' j sub))) ∧
    (Good (sel i m s cur cs) → Good (sel i m s cur' (listInsert cs' j sub))) ∧
    (Good (par i p s cur cs) → Good (par i p s cur' (listInsert cs' j sub))) :=
  have F := fresh_facts sub hf
  have E := (C13.removeChild_editL h).trans (C13.editL_listInsert cur' cs' j sub F.1 F.2.1 F.2.2 hnew)
  ⟨(E.toSeq i m s).good, (E.toSel i m s).good, (E.toPar i p s).good⟩

/-- **C13 (the edited tree stays tickable)**: after a successful prune — even of the child a composite with memory
    was waiting on — the next tick raises no internal error (and the model's fuel suffices) -/
theorem C13_tickable (n n' : Node) (tr : List Ev) (target : Nat) (e : Env) (w : Store) (he : ValidEnv e)
    (hw : WOK w) (hg : Good n) (hs : leavesSafe n = true) (hp : prune n target = .done n' tr) :
    tick e w n' ≠ .error .internal ∧ tick e w n' ≠ .error .fuel := by
  obtain ⟨g, _, _, s⟩ := C13_prune_keeps_good n n' target tr hg hp
  exact ⟨tick_no_internal e he w n' hw g (s hs), tick_no_fuel e w n'⟩

/-! ### non-vacuity and the historical defect (removing the child a memory composite is waiting on) -/

namespace C13

def view (n : Node) : List (Nat × Status) := (nodes n).map (fun m => (m.id, m.status))

def curOf : Node → Option Nat
| seq _ _ _ c _ => c | sel _ _ _ c _ => c | par _ _ _ c _ => c | _ => none

def enters (tr : List Ev) : List Nat := tr.filterMap (fun ev => match ev with | .enter i => some i | _ => none)

/-- tick with `e1`, prune `target`, tick with `e2`.  Result: the tree after the prune (ids and statuses, remembered
    child of the root), the events of the prune, and the outcome of the second tick (tree view, status of the root,
    events), and its error if any -/
def scenario (e1 e2 : Env) (n : Node) (target : Nat) :
    Option (List (Nat × Status) × Option Nat × List Ev × Option (List (Nat × Status) × Option Nat × List Ev) × Option Err) :=
  match tick e1 Store.empty n with
  | .ok (n1, w1, _) =>
    match prune n1 target with
    | .done n2 tr =>
      some (view n2, curOf n2, tr,
        match tick e2 w1 n2 with
        | .ok (n3, _, tr3) => (some (view n3, curOf n3, tr3), none)
        | .error err => (none, some err))
    | _ => none
  | .error _ => none

def probe (i : Nat) : Node := .leaf i .invalid .probe []

def memSeq : Node := .seq 1 true .invalid none [probe 2, probe 3, probe 4]
def memSel : Node := .sel 1 true .invalid none [probe 2, probe 3, probe 4]
def selPar : Node := .par 1 (.onSelected [3] false) .invalid none [probe 2, probe 3, probe 4]

/-- 2 succeeds, everything else keeps running -/
def envS : Env := { outcome := fun i => if i = 2 then .success else .running, guard := fun _ => true, now := 0 }
/-- 2 fails, everything else keeps running -/
def envF : Env := { outcome := fun i => if i = 2 then .failure else .running, guard := fun _ => true, now := 0 }

end C13

namespace C13

/-- the state after one tick (the tree itself if the tick failed) -/
def after (e : Env) (n : Node) : Node :=
  match tick e Store.empty n with
  | .ok (n1, _, _) => n1
  | .error _ => n

def isDone : EditRes → Bool
| .done _ _ => true
| _ => false

end C13

section Examples
open C13

-- memory Sequence [2, 3, 4]: 2 SUCCESS, 3 RUNNING; prune 3.  The prune succeeds, interrupts 3, the Sequence stays
-- RUNNING and remembers nothing; the next tick raises no error and resumes at 4 (2 is not ticked again).
example : (scenario envS envS memSeq 3).map (fun r => (r.1, r.2.1, r.2.2.1)) =
    some ([(1, .running), (2, .success), (4, .invalid)], none, [.term 3 .invalid]) := by decide
example : (scenario envS envS memSeq 3).map (fun r => r.2.2.2.1) =
    some (some ([(1, .running), (2, .success), (4, .running)], some 4,
      [.enter 1, .enter 4, .init 4, .upd 4 .running, .yld 4 .running, .yld 1 .running])) := by decide
example : (scenario envS envS memSeq 3).map (fun r => r.2.2.2.2) = some none := by decide
example : (scenario envS envS memSeq 3).map (fun r => r.2.2.2.1.map (fun x => enters x.2.2)) =
    some (some [1, 4]) := by decide

-- memory Selector [2, 3, 4]: 2 FAILURE, 3 RUNNING; prune 3.  The Selector stays RUNNING, remembers nothing, and the
-- next tick raises no error and re-evaluates the priorities (2 fails again, 4 is selected).
example : (scenario envF envF memSel 3).map (fun r => (r.1, r.2.1, r.2.2.1)) =
    some ([(1, .running), (2, .failure), (4, .invalid)], none, [.term 3 .invalid]) := by decide
example : (scenario envF envF memSel 3).map (fun r => r.2.2.2.1) =
    some (some ([(1, .running), (2, .failure), (4, .running)], some 4,
      [.enter 1, .enter 2, .init 2, .upd 2 .failure, .term 2 .failure, .yld 2 .failure,
       .enter 4, .init 4, .upd 4 .running, .yld 4 .running, .yld 1 .running])) := by decide
example : (scenario envF envF memSel 3).map (fun r => r.2.2.2.2) = some none := by decide

-- SuccessOnSelected([3]) Parallel: pruning the selected child makes the next tick raise the documented RuntimeError
example : (scenario envS envS selPar 3).map (fun r => (r.1, r.2.1, r.2.2.1)) =
    some ([(1, .running), (2, .success), (4, .running)], some 4, [.term 3 .invalid]) := by decide
example : (scenario envS envS selPar 3).map (fun r => r.2.2.2.2) = some (some .policy) := by decide
-- … pruning another child does not
example : (scenario envS envS selPar 2).map (fun r => (r.2.2.1, r.2.2.2.2)) = some ([], none) := by decide

-- the hypotheses of `C13_tickable` / `C13_prune_keeps_good` are satisfiable on these states
example : isFresh memSeq = true ∧ wf (after envS memSeq) = true ∧ leavesOK (after envS memSeq) = true ∧
    leavesSafe (after envS memSeq) = true ∧ isDone (prune (after envS memSeq) 3) = true := by decide
example : wf (after envF memSel) = true ∧ leavesOK (after envF memSel) = true ∧
    leavesSafe (after envF memSel) = true ∧ isDone (prune (after envF memSel) 3) = true := by decide
example : ValidEnv envS := by intro i; simp only [envS]; split <;> simp

-- root, unknown id, decorator child, insert under a leaf, nested decorator child
example : isDone (prune memSeq 1) = false ∧ isDone (prune memSeq 9) = false := by decide
example : (match prune (.seq 1 false .invalid none [.dec 2 .inverter .invalid (probe 3)]) 3 with
    | .runtimeError => true | _ => false) = true := by decide
example : (match Node.insert (.seq 1 false .invalid none [.dec 2 .inverter .invalid (probe 3)]) 3 0 (probe 7) with
    | .typeError => true | _ => false) = true := by decide
-- insert at position 1 / at the end (negative and overshooting indices are clamped as by `list.insert`)
example : (match Node.insert memSeq 1 1 (probe 7) with | .done n _ => ids n | _ => []) = [1, 2, 7, 3, 4] := by decide
example : (match Node.insert memSeq 1 (-1) (probe 7) with | .done n _ => ids n | _ => []) = [1, 2, 3, 7, 4] := by decide
example : (match Node.insert memSeq 1 99 (probe 7) with | .done n _ => ids n | _ => []) = [1, 2, 3, 4, 7] := by decide
example : (match Node.insert memSeq 1 (-99) (probe 7) with | .done n _ => ids n | _ => []) = [1, 7, 2, 3, 4] := by decide
example : (match replace (after envS memSeq) 3 (probe 7) with | .done n tr => (view n, curOf n, tr) | _ => ([], none, [])) =
    ([(1, .running), (2, .success), (7, .invalid), (4, .invalid)], none, [.term 3 .invalid]) := by decide

end Examples

/-! ### tree-level liftings: structure of the edited tree -/

namespace C13

mutual
theorem nodes_trans : ∀ (n m x : Node), m ∈ nodes n → x ∈ nodes m → x ∈ nodes n
| leaf _ _ _ _, m, x, hm, hx => by
    simp only [nodes, List.mem_singleton] at hm; subst hm; exact hx
| seq i mm s c cs, m, x, hm, hx => by
    simp only [nodes, List.mem_cons] at hm
    rcases hm with rfl | hm
    · exact hx
    · simp only [nodes, List.mem_cons]; exact Or.inr (nodesL_trans cs m x hm hx)
| sel i mm s c cs, m, x, hm, hx => by
    simp only [nodes, List.mem_cons] at hm
    rcases hm with rfl | hm
    · exact hx
    · simp only [nodes, List.mem_cons]; exact Or.inr (nodesL_trans cs m x hm hx)
| par i p s c cs, m, x, hm, hx => by
    simp only [nodes, List.mem_cons] at hm
    rcases hm with rfl | hm
    · exact hx
    · simp only [nodes, List.mem_cons]; exact Or.inr (nodesL_trans cs m x hm hx)
| dec i k s c, m, x, hm, hx => by
    simp only [nodes, List.mem_cons] at hm
    rcases hm with rfl | hm
    · exact hx
    · simp only [nodes, List.mem_cons]; exact Or.inr (nodes_trans c m x hm hx)
theorem nodesL_trans : ∀ (cs : List Node) (m x : Node), m ∈ nodesL cs → x ∈ nodes m → x ∈ nodesL cs
| [], m, x, hm, _ => by simp [nodesL] at hm
| c :: cs, m, x, hm, hx => by
    simp only [nodesL, List.mem_append] at hm ⊢
    rcases hm with hm | hm
    · exact Or.inl (nodes_trans c m x hm hx)
    · exact Or.inr (nodesL_trans cs m x hm hx)
end

theorem ids_eq (n : Node) : ids n = n.id :: (ids n).tail := by
  cases n <;> simp [ids_leaf, ids_seq, ids_sel, ids_par, ids_dec, Node.id]

theorem mem_ids_of_mem_nodes {n m : Node} (h : m ∈ nodes n) : m.id ∈ ids n := List.mem_map.mpr ⟨m, h, rfl⟩
theorem mem_idsL_of_mem_nodesL {cs : List Node} {m : Node} (h : m ∈ nodesL cs) : m.id ∈ idsL cs :=
  List.mem_map.mpr ⟨m, h, rfl⟩

theorem idsL_append (a b : List Node) : idsL (a ++ b) = idsL a ++ idsL b := by
  induction a with
  | nil => simp [idsL_nil]
  | cons c a ih => simp [idsL_cons, ih]

theorem child_mem_nodes {n c : Node} (h : c ∈ n.children) : c ∈ nodes n := by
  cases n with
  | leaf i s k l => simp [children] at h
  | seq i m s cur cs => simp only [children] at h; simp [nodes, mem_nodesL_self h]
  | sel i m s cur cs => simp only [children] at h; simp [nodes, mem_nodesL_self h]
  | par i p s cur cs => simp only [children] at h; simp [nodes, mem_nodesL_self h]
  | dec i k s d =>
    simp only [children, List.mem_singleton] at h; subst h
    simp [nodes, self_mem_nodes]

/-- the child of a decorator found in a tree is a proper descendant of the root -/
theorem dec_child_in_tail {y : Node} {i : Nat} {k : DecKind} {s : Status} {c : Node}
    (h : dec i k s c ∈ nodes y) : c.id ∈ (ids y).tail := by
  have hc : c ∈ nodes (dec i k s c) := by simp [nodes, self_mem_nodes]
  cases y with
  | leaf i' s' k' l' => simp [nodes] at h
  | seq i' m' s' cur cs =>
    simp only [nodes, List.mem_cons, reduceCtorEq, false_or] at h
    simpa [ids_seq] using mem_idsL_of_mem_nodesL (nodesL_trans cs _ c h hc)
  | sel i' m' s' cur cs =>
    simp only [nodes, List.mem_cons, reduceCtorEq, false_or] at h
    simpa [ids_sel] using mem_idsL_of_mem_nodesL (nodesL_trans cs _ c h hc)
  | par i' p' s' cur cs =>
    simp only [nodes, List.mem_cons, reduceCtorEq, false_or] at h
    simpa [ids_par] using mem_idsL_of_mem_nodesL (nodesL_trans cs _ c h hc)
  | dec i' k' s' c' =>
    simp only [ids_dec, List.tail_cons]
    simp only [nodes, List.mem_cons] at h
    rcases h with h | h
    · simp only [dec.injEq] at h
      obtain ⟨_, _, _, rfl⟩ := h
      exact id_mem_ids c
    · exact mem_ids_of_mem_nodes (nodes_trans c' _ c h hc)

/-! #### the child of a decorator anywhere in the tree -/

mutual
theorem atParent_dec_refused (target : Nat) (f) : ∀ n : Node, (ids n).Nodup →
    (∃ i k s c, dec i k s c ∈ nodes n ∧ c.id = target) → atParent target f n = some .runtimeError
| leaf _ _ _ _, _, h => by
    obtain ⟨i, k, s, c, hm, _⟩ := h
    simp [nodes] at hm
| seq i' m' s' cur cs, hnd, h => by
    obtain ⟨i, k, s, c, hm, hid⟩ := h
    simp only [nodes, List.mem_cons, reduceCtorEq, false_or] at hm
    simp only [ids_seq, List.nodup_cons] at hnd
    obtain ⟨h1, h2⟩ := atParentL_dec_refused target f cs hnd.2 ⟨i, k, s, c, hm, hid⟩
    simp [atParent, h1, h2]
| sel i' m' s' cur cs, hnd, h => by
    obtain ⟨i, k, s, c, hm, hid⟩ := h
    simp only [nodes, List.mem_cons, reduceCtorEq, false_or] at hm
    simp only [ids_sel, List.nodup_cons] at hnd
    obtain ⟨h1, h2⟩ := atParentL_dec_refused target f cs hnd.2 ⟨i, k, s, c, hm, hid⟩
    simp [atParent, h1, h2]
| par i' p' s' cur cs, hnd, h => by
    obtain ⟨i, k, s, c, hm, hid⟩ := h
    simp only [nodes, List.mem_cons, reduceCtorEq, false_or] at hm
    simp only [ids_par, List.nodup_cons] at hnd
    obtain ⟨h1, h2⟩ := atParentL_dec_refused target f cs hnd.2 ⟨i, k, s, c, hm, hid⟩
    simp [atParent, h1, h2]
| dec i' k' s' c', hnd, h => by
    obtain ⟨i, k, s, c, hm, hid⟩ := h
    simp only [ids_dec, List.nodup_cons] at hnd
    simp only [nodes, List.mem_cons] at hm
    rcases hm with hm | hm
    · simp only [dec.injEq] at hm
      obtain ⟨_, _, _, rfl⟩ := hm
      simp [atParent, hid]
    · have ht := dec_child_in_tail hm
      have hne : c'.id ≠ target := by
        intro e
        have h3 := hnd.2
        rw [ids_eq c', List.nodup_cons] at h3
        exact h3.1 (e ▸ hid ▸ ht)
      have ih := atParent_dec_refused target f c' hnd.2 ⟨i, k, s, c, hm, hid⟩
      simp [atParent, hne, ih]
theorem atParentL_dec_refused (target : Nat) (f) : ∀ cs : List Node, (idsL cs).Nodup →
    (∃ i k s c, dec i k s c ∈ nodesL cs ∧ c.id = target) →
    atParentL target f cs = some (.inr .runtimeError) ∧ cs.any (fun c => c.id = target) = false
| [], _, h => by
    obtain ⟨i, k, s, c, hm, _⟩ := h
    simp [nodesL] at hm
| y :: rest, hnd, h => by
    obtain ⟨i, k, s, c, hm, hid⟩ := h
    simp only [idsL_cons, List.nodup_append] at hnd
    obtain ⟨hn1, hn2, hdis⟩ := hnd
    simp only [nodesL, List.mem_append] at hm
    rcases hm with hm | hm
    · have ht := dec_child_in_tail hm
      have ht' : target ∈ ids y := by rw [ids_eq y]; exact List.mem_cons_of_mem _ (hid ▸ ht)
      have hne : y.id ≠ target := by
        intro e
        rw [ids_eq y, List.nodup_cons] at hn1
        exact hn1.1 (e ▸ hid ▸ ht)
      have ih := atParent_dec_refused target f y hn1 ⟨i, k, s, c, hm, hid⟩
      refine ⟨by simp [atParentL, ih], ?_⟩
      simp only [List.any_cons, Bool.or_eq_false_iff, decide_eq_false_iff_not]
      refine ⟨hne, any_false_of_not_mem ?_⟩
      intro hin
      exact hdis target ht' target hin rfl
    · have hc : c ∈ nodes (dec i k s c) := by simp [nodes, self_mem_nodes]
      have ht : target ∈ idsL rest := hid ▸ mem_idsL_of_mem_nodesL (nodesL_trans rest _ c hm hc)
      have hny : target ∉ ids y := fun hin => hdis target hin target ht rfl
      obtain ⟨ih1, ih2⟩ := atParentL_dec_refused target f rest hn2 ⟨i, k, s, c, hm, hid⟩
      refine ⟨by simp [atParentL, atParent_none target f y hny, ih1], ?_⟩
      simp only [List.any_cons, Bool.or_eq_false_iff, decide_eq_false_iff_not]
      exact ⟨fun e => hny (e ▸ id_mem_ids y), ih2⟩
end

end C13

/-- **C13 (decorator child, anywhere)**: with tree-wide distinct ids, the child of a decorator sitting anywhere in
    the tree can neither be pruned nor replaced -/
theorem C13_decorator_child_refused_anywhere (n sub : Node) (i : Nat) (k : DecKind) (s : Status) (c : Node)
    (hd : DistinctIds n) (hm : dec i k s c ∈ nodes n) :
    prune n c.id = .runtimeError ∧ replace n c.id sub = .runtimeError := by
  have hne : n.id ≠ c.id := by
    intro e
    have ht := C13.dec_child_in_tail hm
    unfold DistinctIds at hd
    rw [C13.ids_eq n, List.nodup_cons] at hd
    exact hd.1 (e ▸ ht)
  constructor
  · simp [prune, hne, C13.atParent_dec_refused c.id _ n hd ⟨i, k, s, c, hm, rfl⟩]
  · simp [replace, hne, C13.atParent_dec_refused c.id _ n hd ⟨i, k, s, c, hm, rfl⟩]

namespace C13

/-! #### prune: the ids only shrink and the target disappears -/

/-- `(ids n).tail` are the ids of the proper descendants -/
def PruneR (target : Nat) (n n' : Node) (_ : List Ev) : Prop :=
  n'.id = n.id ∧ (∀ x ∈ (ids n').tail, x ∈ (ids n).tail) ∧ target ∈ (ids n).tail ∧
  ((ids n).tail.Nodup → target ∉ (ids n').tail)

def PruneRL (target : Nat) (cs cs' : List Node) (_ : List Ev) : Prop :=
  (∀ x ∈ idsL cs', x ∈ idsL cs) ∧ target ∈ idsL cs ∧ ((idsL cs).Nodup → target ∉ idsL cs')

theorem pruneLift (target : Nat) : Lift (PruneR target) (PruneRL target) where
  head c c' cs _ P := by
    obtain ⟨p1, p2, p3, p4⟩ := P
    have e := ids_eq c
    have e' := ids_eq c'
    rw [p1] at e'
    generalize (ids c).tail = t at *
    generalize (ids c').tail = t' at *
    simp only [PruneRL, idsL_cons, e, e', List.mem_append, List.mem_cons, List.nodup_append, List.nodup_cons]
    refine ⟨?_, Or.inl (Or.inr p3), ?_⟩
    · rintro x ((rfl | hx) | hx)
      · exact Or.inl (Or.inl rfl)
      · exact Or.inl (Or.inr (p2 x hx))
      · exact Or.inr hx
    · rintro ⟨⟨h1, h2⟩, _, h4⟩ ((rfl | hx) | hx)
      · exact h1 p3
      · exact p4 h2 hx
      · exact h4 target (Or.inr p3) target hx rfl
  tail c cs cs' _ P := by
    obtain ⟨p2, p3, p4⟩ := P
    simp only [PruneRL, idsL_cons, List.mem_append, List.nodup_append]
    refine ⟨?_, Or.inr p3, ?_⟩
    · rintro x (hx | hx)
      · exact Or.inl hx
      · exact Or.inr (p2 x hx)
    · rintro ⟨_, h2, h3⟩ (hx | hx)
      · exact h3 target hx target p3 rfl
      · exact p4 h2 hx
  seq i m s cur cs cs' _ P := by simpa [PruneR, PruneRL, ids_seq, Node.id] using P
  sel i m s cur cs cs' _ P := by simpa [PruneR, PruneRL, ids_sel, Node.id] using P
  par i p s cur cs cs' _ P := by simpa [PruneR, PruneRL, ids_par, Node.id] using P
  dec i k s c c' _ P := by
    obtain ⟨p1, p2, p3, p4⟩ := P
    have e := ids_eq c
    have e' := ids_eq c'
    rw [p1] at e'
    generalize (ids c).tail = t at *
    generalize (ids c').tail = t' at *
    simp only [PruneR, ids_dec, List.tail_cons, e, e', List.mem_cons, List.nodup_cons, Node.id, true_and]
    refine ⟨?_, Or.inr p3, ?_⟩
    · rintro x (rfl | hx)
      · exact Or.inl rfl
      · exact Or.inr (p2 x hx)
    · rintro ⟨h1, h2⟩ (rfl | hx)
      · exact h1 p3
      · exact p4 h2 hx

theorem pruneR_direct (target : Nat) (a : List Node) (c : Node) (b : List Node) (hid : c.id = target) :
    PruneRL target (a ++ c :: b) (a ++ b) [] := by
  simp only [PruneRL, idsL_append, idsL_cons, List.mem_append, List.nodup_append]
  have hc : target ∈ ids c := hid ▸ id_mem_ids c
  refine ⟨?_, Or.inr (Or.inl hc), ?_⟩
  · rintro x (hx | hx)
    · exact Or.inl hx
    · exact Or.inr (Or.inr hx)
  · rintro ⟨_, ⟨_, _, h3⟩, h4⟩ (hx | hx)
    · exact h4 target hx target (Or.inl hc) rfl
    · exact h3 target hc target hx rfl

end C13

/-- **C13 (structure after a prune)**: the ids of the pruned tree are ids of the original tree, the root is
    unchanged, and — ids being distinct — the target id no longer occurs: the removed subtree is not part of
    the tree any more, hence never ticked again (a tick only enters nodes of the tree) -/
theorem C13_structure_prune (n n' : Node) (target : Nat) (tr : List Ev) (hd : DistinctIds n)
    (hp : prune n target = .done n' tr) :
    (∀ x, x ∈ ids n' → x ∈ ids n) ∧ target ∉ ids n' ∧ n'.id = n.id := by
  obtain ⟨_, f, hf, ha⟩ := C13.prune_done hp
  have R : C13.PruneR target n n' tr := by
    refine C13.atParent_lift (C13.pruneLift target) (fun _ => True) target f ?_ n n' tr (fun _ _ => trivial) ha
    intro cur cs cur' cs' tr' _ hfc
    obtain ⟨j, hr⟩ := hf _ _ _ _ _ hfc
    obtain ⟨a, c, b, rfl, rfl, hid, _, rfl, rfl, rfl⟩ := C13.removeChild_spec hr
    have D := C13.pruneR_direct target a c b hid
    simp only [C13.PruneR, C13.ids_seq, C13.ids_sel, C13.ids_par, List.tail_cons, Node.id, true_and]
    exact ⟨fun _ _ _ => D, fun _ _ _ => D, fun _ _ _ => D⟩
  obtain ⟨r1, r2, r3, r4⟩ := R
  unfold DistinctIds at hd
  have e := C13.ids_eq n
  have e' := C13.ids_eq n'
  rw [r1] at e'
  generalize (ids n).tail = t at *
  generalize (ids n').tail = t' at *
  rw [e] at hd
  rw [List.nodup_cons] at hd
  rw [e, e']
  refine ⟨?_, ?_, r1⟩
  · intro x hx
    simp only [List.mem_cons] at hx ⊢
    exact hx.imp id (r2 x)
  · simp only [List.mem_cons, not_or]
    exact ⟨fun e2 => hd.1 (e2 ▸ r3), r4 hd.2⟩

namespace C13

/-! #### insert -/

/-- `insert` is `atNode` with an edit function that is `list.insert` on the children of a composite -/
theorem insert_done {n n' sub : Node} {parent : Nat} {idx : Int} {tr : List Ev}
    (h : Node.insert n parent idx sub = .done n' tr) :
    ∃ f : Node → EditRes,
      (∀ p p' tr', f p = .done p' tr' → tr' = [] ∧
        ((∃ i m s cur cs, p = seq i m s cur cs ∧ p' = seq i m s cur (listInsert cs idx sub)) ∨
         (∃ i m s cur cs, p = sel i m s cur cs ∧ p' = sel i m s cur (listInsert cs idx sub)) ∨
         (∃ i pl s cur cs, p = par i pl s cur cs ∧ p' = par i pl s cur (listInsert cs idx sub)))) ∧
      atNode parent f n = some (.done n' tr) := by
  unfold Node.insert at h
  split at h
  rotate_left
  · simp at h
  rename_i r hat
  subst h
  refine ⟨_, ?_, hat⟩
  intro p p' tr' hp
  cases p with
  | leaf i s k l => simp at hp
  | dec i k s c => simp at hp
  | seq i m s cur cs =>
    simp only [EditRes.done.injEq] at hp
    obtain ⟨rfl, rfl⟩ := hp
    exact ⟨rfl, Or.inl ⟨_, _, _, _, _, rfl, rfl⟩⟩
  | sel i m s cur cs =>
    simp only [EditRes.done.injEq] at hp
    obtain ⟨rfl, rfl⟩ := hp
    exact ⟨rfl, Or.inr (Or.inl ⟨_, _, _, _, _, rfl, rfl⟩)⟩
  | par i pl s cur cs =>
    simp only [EditRes.done.injEq] at hp
    obtain ⟨rfl, rfl⟩ := hp
    exact ⟨rfl, Or.inr (Or.inr ⟨_, _, _, _, _, rfl, rfl⟩)⟩

theorem mem_idsL_listInsert (cs : List Node) (idx : Int) (sub : Node) (x : Nat) :
    x ∈ idsL (listInsert cs idx sub) ↔ x ∈ idsL cs ∨ x ∈ ids sub := by
  obtain ⟨k, _, hk, _⟩ := listInsert_spec cs idx sub
  rw [hk]
  have e : idsL cs = idsL (cs.take k) ++ idsL (cs.drop k) := by rw [← idsL_append, List.take_append_drop]
  rw [e]
  simp only [idsL_append, idsL_cons, List.mem_append]
  constructor
  · rintro (h | h | h)
    · exact Or.inl (Or.inl h)
    · exact Or.inr h
    · exact Or.inl (Or.inr h)
  · rintro ((h | h) | h)
    · exact Or.inl h
    · exact Or.inr (Or.inr h)
    · exact Or.inr (Or.inl h)

def InsR (sub : Node) (n n' : Node) (tr : List Ev) : Prop :=
  tr = [] ∧ n'.id = n.id ∧ ∀ x, x ∈ (ids n').tail ↔ (x ∈ (ids n).tail ∨ x ∈ ids sub)
def InsRL (sub : Node) (cs cs' : List Node) (tr : List Ev) : Prop :=
  tr = [] ∧ ∀ x, x ∈ idsL cs' ↔ (x ∈ idsL cs ∨ x ∈ ids sub)

theorem insLift (sub : Node) : Lift (InsR sub) (InsRL sub) where
  head c c' cs _ P := by
    obtain ⟨p0, p1, p2⟩ := P
    have e := ids_eq c
    have e' := ids_eq c'
    rw [p1] at e'
    generalize (ids c).tail = t at *
    generalize (ids c').tail = t' at *
    refine ⟨p0, fun x => ?_⟩
    simp only [idsL_cons, e, e', List.mem_append, List.mem_cons, p2 x]
    constructor
    · rintro ((h | h | h) | h)
      · exact Or.inl (Or.inl (Or.inl h))
      · exact Or.inl (Or.inl (Or.inr h))
      · exact Or.inr h
      · exact Or.inl (Or.inr h)
    · rintro (((h | h) | h) | h)
      · exact Or.inl (Or.inl h)
      · exact Or.inl (Or.inr (Or.inl h))
      · exact Or.inr h
      · exact Or.inl (Or.inr (Or.inr h))
  tail c cs cs' _ P := by
    obtain ⟨p0, p2⟩ := P
    refine ⟨p0, fun x => ?_⟩
    simp only [idsL_cons, List.mem_append, p2 x]
    constructor
    · rintro (h | h | h)
      · exact Or.inl (Or.inl h)
      · exact Or.inl (Or.inr h)
      · exact Or.inr h
    · rintro ((h | h) | h)
      · exact Or.inl h
      · exact Or.inr (Or.inl h)
      · exact Or.inr (Or.inr h)
  seq i m s cur cs cs' _ P := by simpa [InsR, InsRL, ids_seq, Node.id] using P
  sel i m s cur cs cs' _ P := by simpa [InsR, InsRL, ids_sel, Node.id] using P
  par i p s cur cs cs' _ P := by simpa [InsR, InsRL, ids_par, Node.id] using P
  dec i k s c c' _ P := by
    obtain ⟨p0, p1, p2⟩ := P
    have e := ids_eq c
    have e' := ids_eq c'
    rw [p1] at e'
    generalize (ids c).tail = t at *
    generalize (ids c').tail = t' at *
    refine ⟨p0, rfl, fun x => ?_⟩
    simp only [ids_dec, List.tail_cons, e, e', List.mem_cons, p2 x]
    constructor
    · rintro (h | h | h)
      · exact Or.inl (Or.inl h)
      · exact Or.inl (Or.inr h)
      · exact Or.inr h
    · rintro ((h | h) | h)
      · exact Or.inl h
      · exact Or.inr (Or.inl h)
      · exact Or.inr (Or.inr h)

end C13

/-- **C13 (structure after an insert)**: no events, and the ids of the new tree are exactly those of the old tree
    and of the inserted subtree -/
theorem C13_structure_insert (n n' sub : Node) (parent : Nat) (idx : Int) (tr : List Ev)
    (h : Node.insert n parent idx sub = .done n' tr) :
    tr = [] ∧ ∀ x, x ∈ ids n' ↔ (x ∈ ids n ∨ x ∈ ids sub) := by
  obtain ⟨f, hf, ha⟩ := C13.insert_done h
  have R : C13.InsR sub n n' tr := by
    refine C13.atNode_lift (C13.insLift sub) (fun _ => True) parent f ?_ n n' tr (fun _ _ => trivial) ha
    intro p p' tr' _ _ hp
    obtain ⟨rfl, hc⟩ := hf p p' tr' hp
    rcases hc with ⟨i, m, s, cur, cs, rfl, rfl⟩ | ⟨i, m, s, cur, cs, rfl, rfl⟩ | ⟨i, m, s, cur, cs, rfl, rfl⟩
    · exact ⟨rfl, rfl, fun x => by simpa [C13.ids_seq] using C13.mem_idsL_listInsert cs idx sub x⟩
    · exact ⟨rfl, rfl, fun x => by simpa [C13.ids_sel] using C13.mem_idsL_listInsert cs idx sub x⟩
    · exact ⟨rfl, rfl, fun x => by simpa [C13.ids_par] using C13.mem_idsL_listInsert cs idx sub x⟩
  obtain ⟨r0, r1, r2⟩ := R
  refine ⟨r0, fun x => ?_⟩
  have e := C13.ids_eq n
  have e' := C13.ids_eq n'
  rw [r1] at e'
  rw [e, e']
  simp only [List.mem_cons, r2 x]
  constructor
  · rintro (h | h | h)
    · exact Or.inl (Or.inl h)
    · exact Or.inl (Or.inr h)
    · exact Or.inr h
  · rintro ((h | h) | h)
    · exact Or.inl h
    · exact Or.inr (Or.inl h)
    · exact Or.inr (Or.inr h)

/-- the position rule of the insertion: Python's `list.insert` -/
theorem C13_insert_position (cs : List Node) (idx : Int) (sub : Node) :
    ∃ k : Nat, k ≤ cs.length ∧ listInsert cs idx sub = cs.take k ++ sub :: cs.drop k ∧
      (k : Int) = if idx < 0 then max 0 ((cs.length : Int) + idx) else min idx cs.length :=
  C13.listInsert_spec cs idx sub

/-- **C13 (insert keeps the state invariant)**, at any depth: a fresh subtree whose root id differs from the ids
    of its new siblings -/
theorem C13_insert_keeps_good (n n' sub : Node) (parent : Nat) (idx : Int) (tr : List Ev) (hg : Good n)
    (hfr : isFresh sub = true)
    (hnew : ∀ p ∈ nodes n, p.id = parent → sub.id ∉ p.children.map Node.id)
    (h : Node.insert n parent idx sub = .done n' tr) :
    Good n' ∧ n'.id = n.id ∧ n'.status = n.status ∧
    (leavesSafe n = true → leavesSafe sub = true → leavesSafe n' = true) := by
  obtain ⟨f, hf, ha⟩ := C13.insert_done h
  have F := fresh_facts sub hfr
  have P : C13.Pres n n' := by
    refine C13.atNode_lift C13.presLift (fun p => p.id = parent → sub.id ∉ p.children.map Node.id) parent f ?_
      n n' tr hnew ha
    intro p p' tr' hK hid hp
    obtain ⟨_, hc⟩ := hf p p' tr' hp
    have hK' := hK hid
    rcases hc with ⟨i, m, s, cur, cs, rfl, rfl⟩ | ⟨i, m, s, cur, cs, rfl, rfl⟩ | ⟨i, m, s, cur, cs, rfl, rfl⟩
    · exact (C13.editL_listInsert cur cs idx sub F.1 F.2.1 F.2.2 hK').toSeq i m s
    · exact (C13.editL_listInsert cur cs idx sub F.1 F.2.1 F.2.2 hK').toSel i m s
    · exact (C13.editL_listInsert cur cs idx sub F.1 F.2.1 F.2.2 hK').toPar i m s
  refine ⟨P.good hg, P.hid, P.hstatus, fun hs hsub => ?_⟩
  refine C13.atNode_lift C13.safeLift (fun _ => True) parent f ?_ n n' tr (fun _ _ => trivial) ha hs
  intro p p' tr' _ _ hp
  obtain ⟨_, hc⟩ := hf p p' tr' hp
  rcases hc with ⟨i, m, s, cur, cs, rfl, rfl⟩ | ⟨i, m, s, cur, cs, rfl, rfl⟩ | ⟨i, m, s, cur, cs, rfl, rfl⟩ <;>
    (simp only [leavesSafe]; exact C13.safe_listInsert cs idx sub hsub)

/-- a subtree whose root id does not occur in the tree satisfies the side condition of `C13_insert_keeps_good` -/
theorem C13_new_id_ok (n sub : Node) (parent : Nat) (h : sub.id ∉ ids n) :
    ∀ p ∈ nodes n, p.id = parent → sub.id ∉ p.children.map Node.id := by
  intro p hp _ hin
  obtain ⟨c, hc, hid⟩ := List.mem_map.mp hin
  exact h (hid ▸ C13.mem_ids_of_mem_nodes (C13.nodes_trans n p c hp (C13.child_mem_nodes hc)))

/-- **C13 (replace keeps the state invariant)**, at any depth: a fresh subtree whose root id is new in the tree -/
theorem C13_replace_keeps_good (n n' sub : Node) (target : Nat) (tr : List Ev) (hg : Good n)
    (hfr : isFresh sub = true) (hnew : sub.id ∉ ids n) (h : replace n target sub = .done n' tr) :
    Good n' ∧ n'.id = n.id ∧ n'.status = n.status ∧
    (leavesSafe n = true → leavesSafe sub = true → leavesSafe n' = true) := by
  obtain ⟨_, f, hf, ha⟩ := C13.replace_done h
  have F := fresh_facts sub hfr
  have hK : ∀ m ∈ nodes n, m.id ≠ sub.id := fun m hm e => hnew (e ▸ C13.mem_ids_of_mem_nodes hm)
  have P : C13.Pres n n' := by
    refine C13.atParent_lift C13.presLift (fun m => m.id ≠ sub.id) target f ?_ n n' tr hK ha
    intro cur cs cur' cs' tr' hKc hfc
    obtain ⟨j, l, hr, rfl⟩ := hf _ _ _ _ _ hfc
    have hl : sub.id ∉ l.map Node.id := by
      obtain ⟨a, c, b, rfl, rfl, _, _, rfl, _, _⟩ := C13.removeChild_spec hr
      intro hin
      obtain ⟨x, hx, hid⟩ := List.mem_map.mp hin
      refine hKc x ?_ hid
      simp only [List.mem_append, List.mem_cons] at hx ⊢
      exact hx.imp id (fun h => Or.inr h)
    have E := (C13.removeChild_editL hr).trans (C13.editL_listInsert cur' l j sub F.1 F.2.1 F.2.2 hl)
    exact ⟨E.toSeq, E.toSel, E.toPar⟩
  refine ⟨P.good hg, P.hid, P.hstatus, fun hs hsub => ?_⟩
  refine C13.atParent_lift C13.safeLift (fun _ => True) target f ?_ n n' tr (fun _ _ => trivial) ha hs
  intro cur cs cur' cs' tr' _ hfc
  obtain ⟨j, l, hr, rfl⟩ := hf _ _ _ _ _ hfc
  have E : leavesSafeL cs = true → leavesSafeL (listInsert l j sub) = true :=
    fun h => C13.safe_listInsert l j sub hsub (C13.removeChild_safe hr h)
  simp only [leavesSafe]
  exact ⟨fun _ _ _ => E, fun _ _ _ => E, fun _ _ _ => E⟩

/-- **C13 (tickable after insert / replace)**: the next tick of the edited tree raises no internal error -/
theorem C13_tickable_insert (n n' sub : Node) (parent : Nat) (idx : Int) (tr : List Ev) (e : Env) (w : Store)
    (he : ValidEnv e) (hw : WOK w) (hg : Good n) (hs : leavesSafe n = true) (hfr : isFresh sub = true)
    (hss : leavesSafe sub = true) (hnew : sub.id ∉ ids n) (h : Node.insert n parent idx sub = .done n' tr) :
    tick e w n' ≠ .error .internal ∧ tick e w n' ≠ .error .fuel := by
  obtain ⟨g, _, _, s⟩ := C13_insert_keeps_good n n' sub parent idx tr hg hfr (C13_new_id_ok n sub parent hnew) h
  exact ⟨tick_no_internal e he w n' hw g (s hs hss), tick_no_fuel e w n'⟩

theorem C13_tickable_replace (n n' sub : Node) (target : Nat) (tr : List Ev) (e : Env) (w : Store)
    (he : ValidEnv e) (hw : WOK w) (hg : Good n) (hs : leavesSafe n = true) (hfr : isFresh sub = true)
    (hss : leavesSafe sub = true) (hnew : sub.id ∉ ids n) (h : replace n target sub = .done n' tr) :
    tick e w n' ≠ .error .internal ∧ tick e w n' ≠ .error .fuel := by
  obtain ⟨g, _, _, s⟩ := C13_replace_keeps_good n n' sub target tr hg hfr hnew h
  exact ⟨tick_no_internal e he w n' hw g (s hs hss), tick_no_fuel e w n'⟩

/-! ### "exactly when": a child of a composite anywhere in the tree can be pruned / replaced -/

namespace C13

def isComposite : Node → Bool
| seq _ _ _ _ _ => true | sel _ _ _ _ _ => true | par _ _ _ _ _ => true | _ => false

/-- a child of a node found in a tree is a proper descendant of the root -/
theorem child_in_tail {y p c : Node} (hc : c ∈ p.children) (hp : p ∈ nodes y) : c.id ∈ (ids y).tail := by
  have hcn : c ∈ nodes p := child_mem_nodes hc
  cases y with
  | leaf i s k l =>
    simp only [nodes, List.mem_singleton] at hp; subst hp; simp [children] at hc
  | seq i m s cur cs =>
    simp only [nodes, List.mem_cons] at hp
    simp only [ids_seq, List.tail_cons]
    rcases hp with rfl | hp
    · exact child_id_mem_idsL hc
    · exact mem_idsL_of_mem_nodesL (nodesL_trans cs p c hp hcn)
  | sel i m s cur cs =>
    simp only [nodes, List.mem_cons] at hp
    simp only [ids_sel, List.tail_cons]
    rcases hp with rfl | hp
    · exact child_id_mem_idsL hc
    · exact mem_idsL_of_mem_nodesL (nodesL_trans cs p c hp hcn)
  | par i pl s cur cs =>
    simp only [nodes, List.mem_cons] at hp
    simp only [ids_par, List.tail_cons]
    rcases hp with rfl | hp
    · exact child_id_mem_idsL hc
    · exact mem_idsL_of_mem_nodesL (nodesL_trans cs p c hp hcn)
  | dec i k s d =>
    simp only [nodes, List.mem_cons] at hp
    simp only [ids_dec, List.tail_cons]
    rcases hp with rfl | hp
    · simp only [children, List.mem_singleton] at hc; subst hc; exact id_mem_ids c
    · exact mem_ids_of_mem_nodes (nodes_trans d p c hp hcn)

mutual
theorem atParent_found (target : Nat) (f : Option Nat → List Node → Option (Option Nat × List Node × List Ev))
    (hf : ∀ cur cs, (∃ c ∈ cs, c.id = target) → (f cur cs).isSome = true) : ∀ n : Node, (ids n).Nodup →
    (∃ p ∈ nodes n, isComposite p = true ∧ ∃ c ∈ p.children, c.id = target) →
    ∃ n' tr, atParent target f n = some (.done n' tr)
| leaf _ _ _ _, _, h => by
    obtain ⟨p, hp, hcomp, _⟩ := h
    simp only [nodes, List.mem_singleton] at hp; subst hp; simp [isComposite] at hcomp
| seq i m s cur cs, hnd, h => by
    obtain ⟨p, hp, hcomp, c, hc, hid⟩ := h
    simp only [ids_seq, List.nodup_cons] at hnd
    simp only [atParent]
    split
    · rename_i hany
      simp only [List.any_eq_true, decide_eq_true_eq] at hany
      have := hf cur cs hany
      cases hfc : f cur cs with
      | none => simp [hfc] at this
      | some r => exact ⟨_, _, rfl⟩
    · rename_i hany
      simp only [nodes, List.mem_cons] at hp
      rcases hp with rfl | hp
      · exact absurd (any_true_of_mem ⟨c, hc, hid⟩) hany
      · obtain ⟨cs', tr, hl⟩ := atParentL_found target f hf cs hnd.2 ⟨p, hp, hcomp, c, hc, hid⟩
        exact ⟨_, _, by rw [hl]⟩
| sel i m s cur cs, hnd, h => by
    obtain ⟨p, hp, hcomp, c, hc, hid⟩ := h
    simp only [ids_sel, List.nodup_cons] at hnd
    simp only [atParent]
    split
    · rename_i hany
      simp only [List.any_eq_true, decide_eq_true_eq] at hany
      have := hf cur cs hany
      cases hfc : f cur cs with
      | none => simp [hfc] at this
      | some r => exact ⟨_, _, rfl⟩
    · rename_i hany
      simp only [nodes, List.mem_cons] at hp
      rcases hp with rfl | hp
      · exact absurd (any_true_of_mem ⟨c, hc, hid⟩) hany
      · obtain ⟨cs', tr, hl⟩ := atParentL_found target f hf cs hnd.2 ⟨p, hp, hcomp, c, hc, hid⟩
        exact ⟨_, _, by rw [hl]⟩
| par i pl s cur cs, hnd, h => by
    obtain ⟨p, hp, hcomp, c, hc, hid⟩ := h
    simp only [ids_par, List.nodup_cons] at hnd
    simp only [atParent]
    split
    · rename_i hany
      simp only [List.any_eq_true, decide_eq_true_eq] at hany
      have := hf cur cs hany
      cases hfc : f cur cs with
      | none => simp [hfc] at this
      | some r => exact ⟨_, _, rfl⟩
    · rename_i hany
      simp only [nodes, List.mem_cons] at hp
      rcases hp with rfl | hp
      · exact absurd (any_true_of_mem ⟨c, hc, hid⟩) hany
      · obtain ⟨cs', tr, hl⟩ := atParentL_found target f hf cs hnd.2 ⟨p, hp, hcomp, c, hc, hid⟩
        exact ⟨_, _, by rw [hl]⟩
| dec i k s d, hnd, h => by
    obtain ⟨p, hp, hcomp, c, hc, hid⟩ := h
    simp only [ids_dec, List.nodup_cons] at hnd
    simp only [nodes, List.mem_cons] at hp
    rcases hp with rfl | hp
    · simp [isComposite] at hcomp
    · have ht := child_in_tail hc hp
      have hne : d.id ≠ target := by
        intro e
        have h3 := hnd.2
        rw [ids_eq d, List.nodup_cons] at h3
        exact h3.1 (e ▸ hid ▸ ht)
      obtain ⟨d', tr, ih⟩ := atParent_found target f hf d hnd.2 ⟨p, hp, hcomp, c, hc, hid⟩
      exact ⟨dec i k s d', tr, by simp only [atParent, hne, ↓reduceIte, ih]⟩
theorem atParentL_found (target : Nat) (f : Option Nat → List Node → Option (Option Nat × List Node × List Ev))
    (hf : ∀ cur cs, (∃ c ∈ cs, c.id = target) → (f cur cs).isSome = true) : ∀ cs : List Node, (idsL cs).Nodup →
    (∃ p ∈ nodesL cs, isComposite p = true ∧ ∃ c ∈ p.children, c.id = target) →
    ∃ cs' tr, atParentL target f cs = some (.inl (cs', tr))
| [], _, h => by
    obtain ⟨p, hp, _⟩ := h
    simp [nodesL] at hp
| y :: rest, hnd, h => by
    obtain ⟨p, hp, hcomp, c, hc, hid⟩ := h
    simp only [idsL_cons, List.nodup_append] at hnd
    obtain ⟨hn1, hn2, hdis⟩ := hnd
    simp only [nodesL, List.mem_append] at hp
    rcases hp with hp | hp
    · obtain ⟨y', tr, ih⟩ := atParent_found target f hf y hn1 ⟨p, hp, hcomp, c, hc, hid⟩
      exact ⟨y' :: rest, tr, by simp only [atParentL, ih]⟩
    · have ht : target ∈ idsL rest :=
        hid ▸ mem_idsL_of_mem_nodesL (nodesL_trans rest p c hp (child_mem_nodes hc))
      have hny : target ∉ ids y := fun hin => hdis target hin target ht rfl
      obtain ⟨cs', tr, ih⟩ := atParentL_found target f hf rest hn2 ⟨p, hp, hcomp, c, hc, hid⟩
      exact ⟨y :: cs', tr, by simp only [atParentL, atParent_none target f y hny, ih]⟩
end

end C13

/-- **C13 (success, anywhere)**: with tree-wide distinct ids, the id of a child of a composite sitting anywhere in
    the tree can be pruned and replaced -/
theorem C13_prune_succeeds (n sub p c : Node) (hd : DistinctIds n) (hp : p ∈ nodes n)
    (hcomp : C13.isComposite p = true) (hc : c ∈ p.children) :
    (∃ n' tr, prune n c.id = .done n' tr) ∧ (∃ n' tr, replace n c.id sub = .done n' tr) := by
  have hne : n.id ≠ c.id := by
    intro e
    have ht := C13.child_in_tail hc hp
    unfold DistinctIds at hd
    rw [C13.ids_eq n, List.nodup_cons] at hd
    exact hd.1 (e ▸ ht)
  constructor
  · obtain ⟨n', tr, h⟩ := C13.atParent_found c.id
      (fun cur cs => (removeChild cur cs c.id).map (fun (c, l, tr, _) => (c, l, tr)))
      (fun cur cs hex => by
        obtain ⟨_, _, _, _, hr⟩ := C13.removeChild_some cur cs c.id hex
        simp [hr]) n hd ⟨p, hp, hcomp, c, hc, rfl⟩
    exact ⟨n', tr, by simp only [prune, if_neg hne, h]⟩
  · obtain ⟨n', tr, h⟩ := C13.atParent_found c.id
      (fun cur cs => (removeChild cur cs c.id).map (fun (c, l, tr, i) => (c, listInsert l i sub, tr)))
      (fun cur cs hex => by
        obtain ⟨_, _, _, _, hr⟩ := C13.removeChild_some cur cs c.id hex
        simp [hr]) n hd ⟨p, hp, hcomp, c, hc, rfl⟩
    exact ⟨n', tr, by simp only [replace, if_neg hne, h]⟩

/-- **C13 (success only under a composite)**: a successful prune / replace means the id is the id of a proper
    descendant of the root -/
theorem C13_prune_done_present (n n' : Node) (target : Nat) (tr : List Ev) (hp : prune n target = .done n' tr) :
    n.id ≠ target ∧ target ∈ (ids n).tail := by
  obtain ⟨hne, f, hf, ha⟩ := C13.prune_done hp
  refine ⟨hne, ?_⟩
  have R : C13.PruneR target n n' tr := by
    refine C13.atParent_lift (C13.pruneLift target) (fun _ => True) target f ?_ n n' tr (fun _ _ => trivial) ha
    intro cur cs cur' cs' tr' _ hfc
    obtain ⟨j, hr⟩ := hf _ _ _ _ _ hfc
    obtain ⟨a, c, b, rfl, rfl, hid, _, rfl, rfl, rfl⟩ := C13.removeChild_spec hr
    have D := C13.pruneR_direct target a c b hid
    simp only [C13.PruneR, C13.ids_seq, C13.ids_sel, C13.ids_par, List.tail_cons, Node.id, true_and]
    exact ⟨fun _ _ _ => D, fun _ _ _ => D, fun _ _ _ => D⟩
  exact R.2.2.1

section Examples2
open C13

/-- a nested tree: Sequence 1 [Inverter 2 (Selector 3 [4, 5]), Parallel 6 [7]] -/
def C13.nested : Node :=
  .seq 1 false .invalid none
    [.dec 2 .inverter .invalid (.sel 3 false .invalid none [probe 4, probe 5]),
     .par 6 (.onAll false) .invalid none [probe 7]]

example : DistinctIds nested := by unfold DistinctIds; decide
example : isFresh nested = true := by decide
-- the child of the nested decorator is refused; a grandchild below it can be pruned; so can a child of the Parallel
example : (match prune nested 3 with | .runtimeError => true | _ => false) = true := by decide
example : (match replace nested 3 (probe 9) with | .runtimeError => true | _ => false) = true := by decide
example : (match prune nested 4 with | .done n _ => ids n | _ => []) = [1, 2, 3, 5, 6, 7] := by decide
example : (match prune nested 7 with | .done n _ => ids n | _ => []) = [1, 2, 3, 4, 5, 6] := by decide
example : (match replace nested 5 (probe 9) with | .done n _ => ids n | _ => []) = [1, 2, 3, 4, 9, 6, 7] := by decide
example : (match Node.insert nested 3 1 (probe 9) with | .done n _ => ids n | _ => []) = [1, 2, 3, 4, 9, 5, 6, 7] := by
  decide
-- hypotheses of `C13_prune_succeeds` / `C13_decorator_child_refused_anywhere`
example : (.sel 3 false .invalid none [probe 4, probe 5]) ∈ nodes nested ∧
    (.dec 2 .inverter .invalid (.sel 3 false .invalid none [probe 4, probe 5])) ∈ nodes nested := by
  simp [nested, nodes, nodesL, probe]
example : (9 : Nat) ∉ ids nested := by decide
-- a RUNNING subtree below a decorator is interrupted when its parent composite loses it
example : (match prune (after envS nested) 4 with | .done n tr => (view n, tr) | _ => ([], [])) =
    ([(1, .running), (2, .running), (3, .running), (5, .invalid), (6, .invalid), (7, .invalid)],
     [.term 4 .invalid]) := by decide

end Examples2
