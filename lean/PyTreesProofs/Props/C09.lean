/-
  C09 — decorators that tick their child: the child is ticked exactly once before the decision, the resulting
  status is the documented function of the child's status (`decUpdate`), StatusToBlackboard publishes, Count
  counts what occurred, and a decorator that finishes while its child is RUNNING interrupts the child.
-/
import PyTreesProofs.Lemmas.NoInternal
import PyTreesProofs.Lemmas.Stop
set_option linter.unusedVariables false
set_option linter.unusedSimpArgs false
open Node

/-- the decorator ticks its child on this tick: everything except an EternalGuard whose condition is false and a
    completed (latched) OneShot -/
def ticksChild (e : Env) : DecKind → Bool
| .guard g => e.guard g
| .oneShot _ (some _) => false
| _ => true

namespace Node

/-! ### traces of `stop(INVALID)` contain only `terminate` events -/

mutual
theorem stopInv_term : ∀ n : Node, ∀ ev ∈ (stopInv n).2, ∃ j s, ev = Ev.term j s
| leaf i _ k log => by simp [stopInv]
| seq i m _ _ cs => by simpa [stopInv] using stopInvNonInvalid_term cs
| sel i m _ _ cs => by simpa [stopInv] using stopInvNonInvalid_term cs
| par i p _ _ cs => by
    intro ev hev
    simp only [stopInv, List.mem_append] at hev
    rcases hev with hev | hev
    · exact (stopInvPar_term cs).1 ev hev
    · exact (stopInvPar_term cs).2 ev hev
| dec i k _ c => by simpa [stopInv] using stopInv_term c
theorem stopInvNonInvalid_term : ∀ cs : List Node, ∀ ev ∈ (stopInvNonInvalid cs).2, ∃ j s, ev = Ev.term j s
| [] => by simp [stopInvNonInvalid]
| c :: cs => by
    intro ev hev
    simp only [stopInvNonInvalid, List.mem_append] at hev
    rcases hev with hev | hev
    · split at hev
      · exact stopInv_term c ev hev
      · simp at hev
    · exact stopInvNonInvalid_term cs ev hev
theorem stopInvPar_term : ∀ cs : List Node,
    (∀ ev ∈ (stopInvPar cs).2.1, ∃ j s, ev = Ev.term j s) ∧ (∀ ev ∈ (stopInvPar cs).2.2, ∃ j s, ev = Ev.term j s)
| [] => by simp [stopInvPar]
| c :: cs => by
    obtain ⟨ih1, ih2⟩ := stopInvPar_term cs
    simp only [stopInvPar]
    split
    · refine ⟨?_, ih2⟩
      intro ev hev
      simp only [List.mem_append] at hev
      rcases hev with hev | hev
      · exact stopInv_term c ev hev
      · exact ih1 ev hev
    · split
      · refine ⟨ih1, ?_⟩
        intro ev hev
        simp only [List.mem_append] at hev
        rcases hev with hev | hev
        · exact stopInv_term c ev hev
        · exact ih2 ev hev
      · exact ⟨ih1, ih2⟩
end

theorem mem_of_mem_ite_nil {α} {P : Prop} [Decidable P] {l : List α} {x : α} (h : x ∈ (if P then l else [])) :
    x ∈ l := by
  split at h
  · exact h
  · simp at h

theorem stopInv_no_enter (n : Node) : ∀ ev ∈ (stopInv n).2, ∀ j, ev ≠ Ev.enter j := by
  intro ev hev j e
  obtain ⟨a, b, h⟩ := stopInv_term n ev hev
  rw [h] at e; cases e

/-! ### the exact shape of `Decorator.tick` -/

/-- only `Timeout` cancels its child, and then it fails: a cancelling `update()` never answers INVALID -/
theorem decUpdate_cancel_failure (e : Env) (k : DecKind) (cs : Status)
    (h : (decUpdate e k cs).2.2 = true) : (decUpdate e k cs).2.1 = .failure := by
  cases k <;> simp only [decUpdate] at h ⊢ <;> first
    | (split at h <;> first | (split at h <;> simp_all) | simp_all)
    | (split <;> simp_all)
    | simp_all


/-- everything `decRun` does, as equations -/
theorem decRun_shape (t : Tick) (e : Env) (w : Store) (i : Nat) (k : DecKind) (st : Status) (c n' : Node)
    (w' : Store) (tr : List Ev) (h : decRun t e w i k st c = .ok (n', w', tr)) :
    ∃ c1 w1 trc, t w c = .ok (c1, w1, trc) ∧
      decPublish (if st ≠ .running then decInit e k else k) c1.status w1 = .ok w' ∧
      n' = dec i
        (if (decUpdate e (if st ≠ .running then decInit e k else k) c1.status).2.1 ≠ .running then
           decTerminate (decUpdate e (if st ≠ .running then decInit e k else k) c1.status).2.1
             (decUpdate e (if st ≠ .running then decInit e k else k) c1.status).1
         else (decUpdate e (if st ≠ .running then decInit e k else k) c1.status).1)
        (decUpdate e (if st ≠ .running then decInit e k else k) c1.status).2.1
        (if (decUpdate e (if st ≠ .running then decInit e k else k) c1.status).2.2 = true ∨
            ((decUpdate e (if st ≠ .running then decInit e k else k) c1.status).2.1 ≠ .running ∧
              ((decUpdate e (if st ≠ .running then decInit e k else k) c1.status).2.1 = .invalid ∨ c1.status = .running))
         then (stopInv c1).1 else c1) ∧
      tr = [.enter i] ++ trc ++
        ((if (decUpdate e (if st ≠ .running then decInit e k else k) c1.status).2.2 = true ∨
            ((decUpdate e (if st ≠ .running then decInit e k else k) c1.status).2.1 ≠ .running ∧
              ((decUpdate e (if st ≠ .running then decInit e k else k) c1.status).2.1 = .invalid ∨ c1.status = .running))
          then (stopInv c1).2 else []) ++
         [.yld i (decUpdate e (if st ≠ .running then decInit e k else k) c1.status).2.1]) := by
  simp only [decRun, bind, Except.bind] at h
  cases htc : t w c with
  | error err => simp [htc] at h
  | ok v =>
    obtain ⟨c1, w1, trc⟩ := v
    simp only [htc] at h
    refine ⟨c1, w1, trc, rfl, ?_⟩
    generalize (if st ≠ .running then decInit e k else k) = k0 at h ⊢
    cases hp : decPublish k0 c1.status w1 with
    | error err => simp [hp] at h
    | ok w2 =>
      simp only [hp] at h
      have hcf := decUpdate_cancel_failure e k0 c1.status
      generalize decUpdate e k0 c1.status = u at h hcf ⊢
      obtain ⟨k1, ns, cancel⟩ := u
      simp only at h hcf ⊢
      cases cancel with
      | true =>
        have hnf : ns = .failure := hcf rfl
        subst hnf
        simp only [↓reduceIte, stopInv_status, reduceCtorEq, false_or] at h
        split at h
        · rename_i hns
          simp only [pure, Except.pure, Except.ok.injEq, Prod.mk.injEq] at h
          obtain ⟨rfl, rfl, rfl⟩ := h
          simp [hns]
        · rename_i hns
          simp only [pure, Except.pure, Except.ok.injEq, Prod.mk.injEq] at h
          obtain ⟨rfl, rfl, rfl⟩ := h
          simp [hns]
      | false =>
        simp only [Bool.false_eq_true, ↓reduceIte, false_or] at h ⊢
        split at h
        · rename_i hns
          by_cases hr : ns = .invalid ∨ c1.status = .running
          · simp only [hr, ↓reduceIte, pure, Except.pure, Except.ok.injEq, Prod.mk.injEq] at h
            obtain ⟨rfl, rfl, rfl⟩ := h
            simp [hns, hr]
          · simp only [hr, ↓reduceIte, pure, Except.pure, Except.ok.injEq, Prod.mk.injEq] at h
            obtain ⟨rfl, rfl, rfl⟩ := h
            simp [hns, hr]
        · rename_i hns
          simp only [pure, Except.pure, Except.ok.injEq, Prod.mk.injEq] at h
          obtain ⟨rfl, rfl, rfl⟩ := h
          simp [hns]

/-- a decorator that ticks its child runs `Decorator.tick` -/
theorem tickF_dec_ticks (e : Env) (f : Nat) (w : Store) (i : Nat) (k : DecKind) (st : Status) (c : Node)
    (hk : ticksChild e k = true) :
    tickF (f+1) e w (dec i k st c) = decRun (tickF f e) e w i k st c := by
  cases k with
  | guard g => simp only [ticksChild] at hk; simp [tickF, hk]
  | oneShot b fin =>
    cases fin with
    | none => simp [tickF]
    | some s => simp [ticksChild] at hk
  | _ => simp [tickF]

end Node

/-! ### 1. the general shape of a decorator tick -/

/-- **C09**: a decorator that ticks its child ticks it exactly once (the child's whole tick trace `trc` occurs once,
    right after the decorator's own `enter` and before the decision; what follows contains no `enter` event) and
    its resulting status is `decUpdate` of the child's status *after* that tick. -/
theorem C09_tick_shape (e : Env) (f : Nat) (w : Store) (i : Nat) (k : DecKind) (st : Status) (c n' : Node)
    (w' : Store) (tr : List Ev) (hk : ticksChild e k = true)
    (h : tickF (f+1) e w (dec i k st c) = .ok (n', w', tr)) :
    ∃ c1 w1 trc k0, k0 = (if st ≠ .running then decInit e k else k) ∧ tickF f e w c = .ok (c1, w1, trc) ∧
      decPublish k0 c1.status w1 = .ok w' ∧ n'.status = (decUpdate e k0 c1.status).2.1 ∧ n'.id = i ∧
      ∃ rest, tr = [.enter i] ++ trc ++ rest ∧ (∀ ev ∈ rest, ∀ j, ev ≠ .enter j) := by
  rw [tickF_dec_ticks e f w i k st c hk] at h
  obtain ⟨c1, w1, trc, h1, h2, h3, h4⟩ := decRun_shape _ e w i k st c n' w' tr h
  refine ⟨c1, w1, trc, _, rfl, h1, h2, by rw [h3]; rfl, by rw [h3]; rfl, _, h4, ?_⟩
  intro ev hev j
  simp only [List.mem_append, List.mem_singleton] at hev
  rcases hev with hev | hev
  · exact stopInv_no_enter c1 ev (mem_of_mem_ite_nil hev) j
  · rw [hev]; simp

/-- the complete result of such a tick: new decorator state, status, child and trace -/
theorem C09_tick_result (e : Env) (f : Nat) (w : Store) (i : Nat) (k : DecKind) (st : Status) (c n' : Node)
    (w' : Store) (tr : List Ev) (hk : ticksChild e k = true)
    (h : tickF (f+1) e w (dec i k st c) = .ok (n', w', tr)) :
    ∃ c1 w1 trc k0 k1 ns cancel, k0 = (if st ≠ .running then decInit e k else k) ∧
      tickF f e w c = .ok (c1, w1, trc) ∧ decUpdate e k0 c1.status = (k1, ns, cancel) ∧
      decPublish k0 c1.status w1 = .ok w' ∧
      n' = dec i (if ns ≠ .running then decTerminate ns k1 else k1) ns
        (if cancel = true ∨ (ns ≠ .running ∧ (ns = .invalid ∨ c1.status = .running)) then (stopInv c1).1 else c1) ∧
      tr = [.enter i] ++ trc ++
        ((if cancel = true ∨ (ns ≠ .running ∧ (ns = .invalid ∨ c1.status = .running)) then (stopInv c1).2 else []) ++ [.yld i ns]) := by
  rw [tickF_dec_ticks e f w i k st c hk] at h
  obtain ⟨c1, w1, trc, h1, h2, h3, h4⟩ := decRun_shape _ e w i k st c n' w' tr h
  exact ⟨c1, w1, trc, _, _, _, _, rfl, h1, rfl, h2, h3, h4⟩

/-- **C09 (last sentence)**: when the decorator finishes (its new status is not RUNNING) while the child it just
    ticked is still RUNNING, the child is interrupted: it is replaced by `stop(INVALID)` of itself and the
    `terminate(INVALID)` events of that stop are in the trace, before the decorator yields. -/
theorem C09_interrupts_child (e : Env) (f : Nat) (w : Store) (i : Nat) (k : DecKind) (st : Status) (c n' : Node)
    (w' : Store) (tr : List Ev) (hk : ticksChild e k = true)
    (h : tickF (f+1) e w (dec i k st c) = .ok (n', w', tr)) (hfin : n'.status ≠ .running) :
    ∃ c1 w1 trc, tickF f e w c = .ok (c1, w1, trc) ∧
      (c1.status = .running →
        n'.children = [(stopInv c1).1] ∧ tr = [.enter i] ++ trc ++ (stopInv c1).2 ++ [.yld i n'.status]) := by
  obtain ⟨c1, w1, trc, k0, k1, ns, cancel, _, h1, _, _, h3, h4⟩ := C09_tick_result e f w i k st c n' w' tr hk h
  refine ⟨c1, w1, trc, h1, ?_⟩
  intro hr
  subst h3
  simp only [status] at hfin
  have hc : cancel = true ∨ (ns ≠ .running ∧ (ns = .invalid ∨ c1.status = .running)) := Or.inr ⟨hfin, Or.inr hr⟩
  rw [if_pos hc] at h4
  refine ⟨?_, ?_⟩
  · simp only [children]; rw [if_pos hc]
  · rw [h4]; simp [status]

/-! ### 2. the documented status table -/

theorem C09_inverter (e : Env) (s : Status) :
    (decUpdate e .inverter s).2.1 = (match s with | .success => .failure | .failure => .success | x => x) := by
  cases s <;> rfl

theorem C09_runningIsFailure (e : Env) (s : Status) :
    (decUpdate e .runningIsFailure s).2.1 = if s = .running then .failure else s := rfl

theorem C09_runningIsSuccess (e : Env) (s : Status) :
    (decUpdate e .runningIsSuccess s).2.1 = if s = .running then .success else s := rfl

theorem C09_failureIsSuccess (e : Env) (s : Status) :
    (decUpdate e .failureIsSuccess s).2.1 = if s = .failure then .success else s := rfl

theorem C09_failureIsRunning (e : Env) (s : Status) :
    (decUpdate e .failureIsRunning s).2.1 = if s = .failure then .running else s := rfl

theorem C09_successIsFailure (e : Env) (s : Status) :
    (decUpdate e .successIsFailure s).2.1 = if s = .success then .failure else s := rfl

theorem C09_successIsRunning (e : Env) (s : Status) :
    (decUpdate e .successIsRunning s).2.1 = if s = .success then .running else s := rfl

theorem C09_mirror (e : Env) (k : DecKind) (s : Status)
    (hk : k = .passThrough ∨ (∃ t r su f i, k = .count t r su f i) ∨ (∃ key p, k = .statusToBB key p)) :
    (decUpdate e k s).2.1 = s := by
  rcases hk with rfl | ⟨t, r, su, f, i, rfl⟩ | ⟨key, p, rfl⟩ <;> rfl

/-- only Timeout's update interrupts the child itself -/
theorem C09_no_cancel (e : Env) (k : DecKind) (s : Status) (hk : ∀ d fin, k ≠ .timeout d fin) :
    (decUpdate e k s).2.2 = false := by
  cases k with
  | timeout d fin => exact absurd rfl (hk d fin)
  | retry n f => cases s <;> simp only [decUpdate] <;> (try split) <;> rfl
  | repeat_ n f => cases s <;> simp only [decUpdate] <;> (try split) <;> rfl
  | _ => rfl

/-! ### 3. StatusToBlackboard publishes -/

theorem C09_publish (key : String) (s : Status) (w : Store) :
    decPublish (.statusToBB key []) s w = .ok (w.set key (.status s)) ∧
    (w.set key (.status s)) key = some (.status s) := by
  constructor
  · rfl
  · simp [Store.set]

theorem C09_publish_nested (key a : String) (p : List String) (s : Status) (w : Store) (v v' : Val)
    (hw : w key = some v) (hs : v.setPath (a :: p) (.status s) = some v') :
    decPublish (.statusToBB key (a :: p)) s w = .ok (w.set key v') ∧ (w.set key v') key = some v' := by
  constructor
  · simp only [decPublish, hw, hs]; rfl
  · simp [Store.set]

/-- the other decorators leave the blackboard alone -/
theorem C09_publish_other (k : DecKind) (s : Status) (w : Store) (hk : ∀ key p, k ≠ .statusToBB key p) :
    decPublish k s w = .ok w := by
  cases k with
  | statusToBB key p => exact absurd rfl (hk key p)
  | _ => rfl

/-- through the tick: after a StatusToBlackboard (plain key) tick the blackboard holds the child's new status -/
theorem C09_publish_tick (e : Env) (f : Nat) (w : Store) (i : Nat) (key : String) (st : Status) (c n' : Node)
    (w' : Store) (tr : List Ev) (h : tickF (f+1) e w (dec i (.statusToBB key []) st c) = .ok (n', w', tr)) :
    ∃ c1 w1 trc, tickF f e w c = .ok (c1, w1, trc) ∧ w' = w1.set key (.status c1.status) ∧
      w' key = some (.status c1.status) ∧ n'.status = c1.status := by
  obtain ⟨c1, w1, trc, k0, hk0, h1, h2, h3, _⟩ := C09_tick_shape e f w i _ st c n' w' tr rfl h
  have hk : k0 = .statusToBB key [] := by rw [hk0]; split <;> rfl
  subst hk
  refine ⟨c1, w1, trc, h1, ?_, ?_, by rw [h3]; rfl⟩
  · have := (C09_publish key c1.status w1).1
    rw [this] at h2; cases h2; rfl
  · have := (C09_publish key c1.status w1).1
    rw [this] at h2; cases h2; simp [Store.set]

/-! ### 4. Count -/

/-- a tick on which the child completes with `cs` (`ns = cs ≠ RUNNING`, so `terminate(cs)` runs as well) -/
theorem C09_count_tick_done (e : Env) (t r su f i : Nat) (cs : Status) (hcs : cs ≠ .running) (hci : cs ≠ .invalid) :
    decTerminate cs (decUpdate e (.count t r su f i) cs).1 =
      .count (t+1) (r + if cs = .running then 1 else 0) (su + if cs = .success then 1 else 0)
        (f + if cs = .failure then 1 else 0) i := by
  cases cs <;> simp_all [decUpdate, decTerminate]

/-- a tick on which the child stays RUNNING -/
theorem C09_count_tick_running (e : Env) (t r su f i : Nat) :
    (decUpdate e (.count t r su f i) .running).1 = .count (t+1) (r+1) su f i := rfl

/-- the interrupt counter -/
theorem C09_count_interrupt (t r su f i : Nat) :
    decTerminate .invalid (.count t r su f i) = .count t r su f (i+1) := rfl

/-- initialise() does not touch the counters -/
theorem C09_count_init (e : Env) (t r su f i : Nat) : decInit e (.count t r su f i) = .count t r su f i := rfl

/-- **C09 (Count)**: after a tick the counters are the old ones plus what occurred on this tick: one more tick, one
    more running / success / failure according to the child's status after its tick, which is also the
    decorator's status. (`c1.status = INVALID` cannot happen for trees satisfying the invariant, see
    `C09_count_tick_good`; the model then counts an interrupt.) -/
theorem C09_count_tick (e : Env) (f' : Nat) (w : Store) (j t r su f i : Nat) (st st' : Status) (c c' : Node)
    (k' : DecKind) (w' : Store) (tr : List Ev)
    (h : tickF (f'+1) e w (dec j (.count t r su f i) st c) = .ok (dec j k' st' c', w', tr)) :
    ∃ c1 w1 trc, tickF f' e w c = .ok (c1, w1, trc) ∧ st' = c1.status ∧
      k' = .count (t+1) (r + if c1.status = .running then 1 else 0) (su + if c1.status = .success then 1 else 0)
        (f + if c1.status = .failure then 1 else 0) (i + if c1.status = .invalid then 1 else 0) := by
  obtain ⟨c1, w1, trc, k0, k1, ns, cancel, hk0, h1, hu, _, h3, _⟩ :=
    C09_tick_result e f' w j _ st c _ w' tr rfl h
  have hk : k0 = .count t r su f i := by rw [hk0]; split <;> rfl
  subst hk
  simp only [decUpdate, Prod.mk.injEq] at hu
  obtain ⟨rfl, rfl, rfl⟩ := hu
  simp only [dec.injEq, true_and] at h3
  obtain ⟨rfl, rfl, _⟩ := h3
  refine ⟨c1, w1, trc, h1, rfl, ?_⟩
  cases hs : c1.status <;> simp [decTerminate]

theorem C09_count_tick_good (e : Env) (f' : Nat) (w : Store) (j t r su f i : Nat) (st st' : Status) (c c' : Node)
    (k' : DecKind) (w' : Store) (tr : List Ev) (hg : Good c) (hw : WOK w) (he : ValidEnv e)
    (h : tickF (f'+1) e w (dec j (.count t r su f i) st c) = .ok (dec j k' st' c', w', tr)) :
    ∃ c1 w1 trc, tickF f' e w c = .ok (c1, w1, trc) ∧ st' = c1.status ∧
      k' = .count (t+1) (r + if c1.status = .running then 1 else 0) (su + if c1.status = .success then 1 else 0)
        (f + if c1.status = .failure then 1 else 0) i := by
  obtain ⟨c1, w1, trc, h1, h2, h3⟩ := C09_count_tick e f' w j t r su f i st st' c c' k' w' tr h
  have hni := (tickF_good e he f' w c c1 w1 trc hw hg h1).2.1
  refine ⟨c1, w1, trc, h1, h2, ?_⟩
  rw [h3]; simp [hni]

/-! ### 5. nothing is left RUNNING below a finished decorator -/

/-- **C09**: whenever a decorator finishes with SUCCESS or FAILURE nothing below it is left RUNNING -/
theorem C09_no_strand (e : Env) (f : Nat) (w : Store) (i : Nat) (k : DecKind) (st : Status) (c n' : Node)
    (w' : Store) (tr : List Ev) (hg : Good (dec i k st c)) (hw : WOK w) (he : ValidEnv e)
    (h : tickF (f+1) e w (dec i k st c) = .ok (n', w', tr)) (hfin : n'.status ≠ .running) :
    ∀ x ∈ nodes n', x.status ≠ .running := by
  have hg' := (tickF_good e he (f+1) w _ n' w' tr hw hg h).1
  exact fun x hx => noRun_of_mem_nodes n' x (wf_noRun hg'.1 hfin) hx

/-! ### 6. non-vacuity -/

def C09_env (o : Status) : Env := { outcome := fun _ => o, guard := fun _ => true, now := 0 }

def C09_ris : Node := .dec 1 .runningIsSuccess .invalid (.leaf 2 .invalid .probe [])
def C09_cnt : Node := .dec 1 (.count 0 0 0 0 0) .invalid (.leaf 2 .invalid .probe [])
def C09_stb : Node := .dec 1 (.statusToBB "/st" []) .invalid (.leaf 2 .invalid .probe [])

def C09_kind : Node → Option DecKind
| .dec _ k _ _ => some k
| _ => none

example : isFresh C09_ris = true := by decide
example : ticksChild (C09_env .running) .runningIsSuccess = true := by decide
/-- RunningIsSuccess over a probe returning RUNNING: SUCCESS, and the child got terminate(INVALID) -/
example : (tick (C09_env .running) Store.empty C09_ris).toOption.map
      (fun r => (nodes r.1).map (fun m => (m.id, m.status))) = some [(1, .success), (2, .invalid)] := by decide
example : (tick (C09_env .running) Store.empty C09_ris).toOption.map (fun r => leafLogs r.1) =
    some [(2, .invalid, [.init, .upd .running, .term .invalid])] := by decide
example : (tick (C09_env .running) Store.empty C09_ris).toOption.map (fun r => r.2.2) =
    some [.enter 1, .enter 2, .init 2, .upd 2 .running, .yld 2 .running, .term 2 .invalid, .yld 1 .success] := by
  decide
/-- Count after three ticks RUNNING, RUNNING, SUCCESS: 3 ticks, 2 running, 1 success, 0 failures, 0 interrupts -/
example : (run [.tick (C09_env .running), .tick (C09_env .running), .tick (C09_env .success)] C09_cnt
      Store.empty).toOption.map (fun r => (C09_kind r.1, r.1.status)) =
    some (some (.count 3 2 1 0 0), .success) := by decide
/-- ... and an interrupt while RUNNING is counted as such -/
example : (run [.tick (C09_env .running), .tick (C09_env .failure), .tick (C09_env .running), .stop] C09_cnt
      Store.empty).toOption.map (fun r => (C09_kind r.1, r.1.status)) =
    some (some (.count 3 2 0 1 1), .invalid) := by decide
/-- StatusToBlackboard publishes the child's status -/
example : (tick (C09_env .failure) Store.empty C09_stb).toOption.map
      (fun r => (r.1.status, (r.2.1 "/st").map (fun v => v == Val.status .failure))) =
    some (.failure, some true) := by decide
