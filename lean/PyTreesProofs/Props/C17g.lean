/-
  C17g — bridge between `SuccessEveryN` / `TickCounter` callbacks GENERATED from /repo's current source
  (PyTreesGen/C17.lean) and the hand-written model (`Node.leafUpdate`, `Node.leafInit`).
-/
import PyTreesModel.Tree
import PyTreesModel.Names
import PyTreesGen.C17

open Node

theorem Py.fmod_eq_zero_iff (a b : Int) : Int.fmod a b = 0 ↔ a % b = 0 := by
  constructor
  · intro h
    have := Int.fmod_def a b
    have hd : b ∣ a := by
      have h2 : a = b * a.fdiv b := by omega
      exact ⟨_, h2⟩
    exact Int.emod_eq_zero_of_dvd hd
  · intro h
    have hd : b ∣ a := Int.dvd_of_emod_eq_zero h
    exact Int.fmod_eq_zero_of_dvd hd

/-- `SuccessEveryN.update` for every counter and every non-zero period (period 0 is a ZeroDivisionError in the code and
    `Err.internal` in the model) -/
theorem C17_gen_everyN (i : Nat) (e : Env) (w : Store) (n c : Int) (h : n ≠ 0) :
    leafUpdate i e w (.successEveryN n c) =
      .ok (.successEveryN n (Gen.SuccessEveryN_update c n).1, (Gen.SuccessEveryN_update c n).2, w) := by
  simp only [leafUpdate, h, if_false, Gen.SuccessEveryN_update, Py.mod, pure, Except.pure]
  by_cases hz : (c + 1) % n = 0
  · have := (Py.fmod_eq_zero_iff (c + 1) n).2 hz
    simp [hz, this]
  · have : ¬ Int.fmod (c + 1) n = 0 := fun h' => hz ((Py.fmod_eq_zero_iff (c + 1) n).1 h')
    simp [hz, this]

theorem C17_gen_tickcounter_update (i : Nat) (e : Env) (w : Store) (d : Int) (c : Status) (n : Int) :
    leafUpdate i e w (.tickCounter d c n) =
      .ok (.tickCounter d c (Gen.TickCounter_update c n d).1, (Gen.TickCounter_update c n d).2, w) := by
  simp only [leafUpdate, Gen.TickCounter_update, pure, Except.pure]
  by_cases h : n + 1 ≤ d <;> simp [h]

theorem C17_gen_tickcounter_initialise (e : Env) (d : Int) (c : Status) (n : Int) :
    leafInit e (.tickCounter d c n) = .tickCounter d c Gen.TickCounter_initialise := rfl

theorem C17_gen_timer_update (i : Nat) (e : Env) (w : Store) (d fin : Int) :
    leafUpdate i e w (.timer d fin) = .ok (.timer d fin, Gen.Timer_update fin e.now, w) := by
  simp only [leafUpdate, Gen.Timer_update, pure, Except.pure]
  by_cases h : e.now > fin <;> simp [h]

theorem C17_gen_timer_initialise (e : Env) (d fin : Int) :
    leafInit e (.timer d fin) = .timer d (Gen.Timer_initialise d e.now) := rfl


/-! ### `Blackboard.key` / `Blackboard.key_with_attributes` (the name → key, attribute-path split used when the
    blackboard-checking behaviours and the idioms register their keys) against the model's `splitName` -/

theorem Py.split1_dot (l : List Char) : Py.split1 l '.' = Names.splitDots l := rfl

theorem splitDots_ne_nil (l : List Char) : Names.splitDots l ≠ [] := by
  induction l with
  | nil => simp [Names.splitDots]
  | cons c cs ih =>
    simp only [Names.splitDots, List.foldr_cons] at ih ⊢
    split
    · simp
    · split <;> simp

theorem C17_gen_blackboard_key (name : String) :
    (splitName name).1 = String.ofList (Gen.Blackboard_key name.toList) := by
  simp only [splitName, Gen.Blackboard_key, Py.split1_dot, Py.item0]
  cases h : Names.splitDots name.toList with
  | nil => exact absurd h (splitDots_ne_nil _)
  | cons k p => simp

theorem C17_gen_blackboard_key_with_attributes (name : String) :
    (Gen.Blackboard_key_with_attributes name.toList).1 = (splitName name).1.toList ∧
    (Gen.Blackboard_key_with_attributes name.toList).2
      = ['.'].intercalate ((splitName name).2.map String.toList) := by
  simp only [splitName, Gen.Blackboard_key_with_attributes, Py.split1_dot, Py.item0, Py.join, Py.dropL]
  cases h : Names.splitDots name.toList with
  | nil => exact absurd h (splitDots_ne_nil _)
  | cons k p => simp [Function.comp_def]
