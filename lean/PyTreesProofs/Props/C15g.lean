/-
  C15g — bridge between `Blackboard.absolute_name` / `Blackboard.relative_name` GENERATED from /repo's current source
  (PyTreesGen/C15.lean) and the hand-written model (`Names.absName`, `Names.relName`), for ALL strings.
-/
import PyTreesModel.Names
import PyTreesGen.C15

set_option linter.unusedSimpArgs false

namespace Py

theorem startswith_sep (s : List Char) : startswith s ['/'] = decide (s.head? = some '/') := by
  cases s with
  | nil => rfl
  | cons c t =>
    simp only [startswith, List.isPrefixOf, List.head?_cons, Option.some.injEq]
    by_cases h : c = '/' <;> simp [h]
    exact fun h' => h h'.symm

theorem endswith_sep (s : List Char) : endswith s ['/'] = decide (s.getLast? = some '/') := by
  unfold endswith List.isSuffixOf
  rw [← List.head?_reverse]
  have := startswith_sep s.reverse
  simpa [startswith] using this

theorem contains_sep (c : Char) : (['/'] : List Char).contains c = (c == '/') := by
  cases h : (c == '/') <;> simp [List.contains, List.elem, h]

theorem strip_sep (s : List Char) : strip s ['/'] = Names.strip s := by
  unfold strip Names.strip Names.stripR Names.stripL Names.sep
  simp only [contains_sep]

theorem sliceFrom_length (s p : List Char) : sliceFrom s (p.length : Int) = s.drop p.length := by
  simp [sliceFrom]

end Py

/-! The two bridge proofs are written to survive harmless restructurings of the Python functions: everything is
reduced to the four atoms "key is absolute", "namespace ends with the separator", "namespace + '/' is a prefix of the
key", "namespace is a prefix of the key", and every combination is closed by `simp`. -/

theorem C15_gen_absolute_name (ns key : List Char) : Gen.absolute_name ns key = Names.absName ns key := by
  unfold Gen.absolute_name Names.absName Names.norm
  (try simp only [Py.startswith_sep, Py.endswith_sep, Py.strip_sep])
  by_cases hk : key.head? = some '/' <;> by_cases hn : ns.getLast? = some '/' <;>
    simp [Py.startswith_sep, Py.endswith_sep, Py.strip_sep, Names.sep, hk, hn]

theorem C15_gen_relative_name (ns key : List Char) :
    Gen.relative_name ns key = (match Names.relName ns key with | some r => .ok r | none => .error .keyError) := by
  unfold Gen.relative_name Names.relName Names.norm
  (try simp only [Py.startswith_sep, Py.endswith_sep, Py.sliceFrom_length])
  by_cases hk : key.head? = some '/' <;> by_cases hn : ns.getLast? = some '/' <;>
  by_cases hp1 : (ns ++ ['/']).isPrefixOf key = true <;> by_cases hp2 : ns.isPrefixOf key = true <;>
    simp [Py.startswith, Names.sep, hk, hn, hp1, hp2]
