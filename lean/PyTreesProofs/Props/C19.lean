/-
  C19 — tip() identifies a live behaviour on the active path.

  Proved for every node of every reachable state (root interrupts only, as the property quantifies).
  The stronger clause (sequence/selector trees over leaves: the tip is the last childless behaviour ticked) is
  `C19_last_leaf`.
-/
import PyTreesProofs.Lemmas.Stop
set_option linter.unusedVariables false
set_option linter.unusedSimpArgs false
open Node

namespace Node

/-- with pairwise distinct sibling ids, looking the current child up by id finds that child -/
theorem tipOf_eq : ∀ (cs : List Node) (x : Node), x ∈ cs → (cs.map Node.id).Nodup → tipOf x.id cs = tip x
| [], x, hx, _ => by simp at hx
| c :: cs, x, hx, hnd => by
    simp only [List.map_cons, List.nodup_cons, List.mem_map, not_exists, not_and] at hnd
    simp only [List.mem_cons] at hx
    simp only [tipOf]
    rcases hx with rfl | hx
    · simp
    · have : c.id ≠ x.id := fun e => hnd.1 x hx e.symm
      simp only [this, ↓reduceIte]
      exact tipOf_eq cs x hx hnd.2

theorem mem_nodesL_of_mem : ∀ (cs : List Node) (x m : Node), x ∈ cs → m ∈ nodes x → m ∈ nodesL cs
| [], x, m, hx, _ => by simp at hx
| c :: cs, x, m, hx, hm => by
    simp only [List.mem_cons] at hx
    simp only [nodesL, List.mem_append]
    rcases hx with rfl | hx
    · exact Or.inl hm
    · exact Or.inr (mem_nodesL_of_mem cs x m hx hm)

/-- the common argument for the three composites -/
theorem composite_tip (n : Node) (i : Nat) (s : Status) (cur : Option Nat) (cs : List Node)
    (hst : n.status = s) (hid : n.id = i)
    (htip : tip n = match cur with | some c => tipOf c cs | none => if s ≠ .invalid then some i else none)
    (hnodes : ∀ x ∈ cs, ∀ m ∈ nodes x, m ∈ nodes n) (hwl : wfL cs = true)
    (hnd : (cs.map Node.id).Nodup) (hinv : s ≠ .invalid ∨ (allInvL cs = true ∧ cur.isNone = true))
    (hcur : curOK cur cs = true)
    (ih : ∀ x ∈ cs, (tip x = none ↔ x.status = .invalid) ∧
        (∀ t, tip x = some t → ∃ m ∈ nodes x, m.id = t ∧ m.status ≠ .invalid)) :
    (tip n = none ↔ n.status = .invalid) ∧ (∀ t, tip n = some t → ∃ m ∈ nodes n, m.id = t ∧ m.status ≠ .invalid) := by
  rw [htip, hst]
  cases cur with
  | none =>
    by_cases hs : s = .invalid
    · simp [hs]
    · simp only [ne_eq, hs, not_false_eq_true, ↓reduceIte, reduceCtorEq, false_iff, Option.some.injEq]
      exact ⟨trivial, fun t ht => ⟨n, self_mem_nodes n, by rw [hid]; exact ht, by rw [hst]; exact hs⟩⟩
  | some c =>
    have hs : s ≠ .invalid := by
      rcases hinv with h1 | h1
      · exact h1
      · simp at h1
    rw [curOK_iff] at hcur
    obtain ⟨x, hx, rfl, hxs⟩ := hcur c rfl
    simp only [tipOf_eq cs x hx hnd]
    obtain ⟨i1, i2⟩ := ih x hx
    refine ⟨⟨fun e => absurd (i1.mp e) hxs, fun e => absurd e hs⟩, ?_⟩
    intro t ht
    obtain ⟨m, hm, e1, e2⟩ := i2 t ht
    exact ⟨m, hnodes x hx m hm, e1, e2⟩

mutual
/-- tip() is None exactly for INVALID behaviours; otherwise it names a behaviour of the subtree that is not INVALID -/
theorem tip_spec : ∀ n : Node, wf n = true →
    (tip n = none ↔ n.status = .invalid) ∧ (∀ t, tip n = some t → ∃ m ∈ nodes n, m.id = t ∧ m.status ≠ .invalid)
| leaf i s k l, _ => by
    have hst : (leaf i s k l).status = s := rfl
    have htip : tip (leaf i s k l) = if s ≠ .invalid then some i else none := by simp only [tip]
    rw [htip, hst]
    by_cases hs : s = .invalid
    · simp [hs]
    · simp only [ne_eq, hs, not_false_eq_true, ↓reduceIte, reduceCtorEq, false_iff, Option.some.injEq]
      exact ⟨trivial, fun t ht => ⟨leaf i s k l, self_mem_nodes _, by simpa [id] using ht, by rw [hst]; exact hs⟩⟩
| seq i mm s cur cs, h => by
    simp only [wf, Bool.and_eq_true, decide_eq_true_eq, Bool.or_eq_true, bne_iff_ne] at h
    obtain ⟨⟨⟨⟨⟨hwl, _⟩, _⟩, hnd⟩, hinv⟩, hcur⟩ := h
    exact composite_tip (seq i mm s cur cs) i s cur cs rfl rfl (by cases cur <;> simp [tip])
      (fun x hx m hm => by simp [nodes, mem_nodesL_of_mem cs x m hx hm]) hwl hnd hinv hcur
      (tipL_spec cs hwl)
| sel i mm s cur cs, h => by
    simp only [wf, Bool.and_eq_true, decide_eq_true_eq, Bool.or_eq_true, bne_iff_ne] at h
    obtain ⟨⟨⟨⟨⟨hwl, _⟩, _⟩, hnd⟩, hinv⟩, hcur⟩ := h
    exact composite_tip (sel i mm s cur cs) i s cur cs rfl rfl (by cases cur <;> simp [tip])
      (fun x hx m hm => by simp [nodes, mem_nodesL_of_mem cs x m hx hm]) hwl hnd hinv hcur
      (tipL_spec cs hwl)
| par i p s cur cs, h => by
    simp only [wf, Bool.and_eq_true, decide_eq_true_eq, Bool.or_eq_true, bne_iff_ne] at h
    obtain ⟨⟨⟨⟨hwl, _⟩, hnd⟩, hinv⟩, hcur⟩ := h
    exact composite_tip (par i p s cur cs) i s cur cs rfl rfl (by cases cur <;> simp [tip])
      (fun x hx m hm => by simp [nodes, mem_nodesL_of_mem cs x m hx hm]) hwl hnd hinv hcur
      (tipL_spec cs hwl)
| dec i k s c, h => by
    simp only [wf, Bool.and_eq_true, Bool.or_eq_true, bne_iff_ne] at h
    obtain ⟨⟨⟨hwc, _⟩, _⟩, hinv⟩ := h
    obtain ⟨ih1, ih2⟩ := tip_spec c hwc
    have hst : (dec i k s c).status = s := rfl
    have htip : tip (dec i k s c) =
        if c.status ≠ .invalid then tip c else if s ≠ .invalid then some i else none := by simp only [tip]
    rw [htip, hst]
    by_cases hc : c.status = .invalid
    · by_cases hs : s = .invalid
      · simp [hc, hs]
      · simp only [hc, ne_eq, not_true_eq_false, ↓reduceIte, hs, not_false_eq_true, reduceCtorEq, false_iff,
          Option.some.injEq]
        exact ⟨trivial, fun t ht => ⟨dec i k s c, self_mem_nodes _, by simpa [id] using ht, by rw [hst]; exact hs⟩⟩
    · have hs : s ≠ .invalid := by
        intro e; rcases hinv with h1 | h1
        · exact h1 e
        · exact hc (allInv_status h1)
      simp only [ne_eq, hc, not_false_eq_true, ↓reduceIte]
      refine ⟨⟨fun e => absurd (ih1.mp e) hc, fun e => absurd e hs⟩, ?_⟩
      intro t ht
      obtain ⟨m, hm, e1, e2⟩ := ih2 t ht
      exact ⟨m, by simp [nodes, hm], e1, e2⟩
theorem tipL_spec : ∀ cs : List Node, wfL cs = true → ∀ x ∈ cs,
    (tip x = none ↔ x.status = .invalid) ∧ (∀ t, tip x = some t → ∃ m ∈ nodes x, m.id = t ∧ m.status ≠ .invalid)
| [], _, x, hx => by simp at hx
| c :: cs, h, x, hx => by
    simp only [wfL, Bool.and_eq_true] at h
    simp only [List.mem_cons] at hx
    rcases hx with rfl | hx
    · exact tip_spec x h.1
    · exact tipL_spec cs h.2 x hx
end

end Node

/-- **C19 (first clause)**: for every behaviour of every reachable state, tip() is None exactly when its status is
    INVALID. -/
theorem C19_none_iff (ops : List Op) (n n' : Node) (w' : Store) (hf : isFresh n = true)
    (hops : ∀ op ∈ ops, ValidOp op) (h : run ops n Store.empty = .ok (n', w')) :
    ∀ m ∈ nodes n', (tip m = none ↔ m.status = .invalid) := by
  intro m hm
  have hg := (reachable_good ops n n' w' hf hops h).1
  exact (tip_spec m (wf_of_mem_nodes n' m hg.1 hm)).1

/-- **C19 (second clause)**: otherwise tip() names a behaviour inside that subtree whose own status is not INVALID. -/
theorem C19_live (ops : List Op) (n n' : Node) (w' : Store) (hf : isFresh n = true)
    (hops : ∀ op ∈ ops, ValidOp op) (h : run ops n Store.empty = .ok (n', w')) :
    ∀ m ∈ nodes n', ∀ t, tip m = some t → ∃ x ∈ nodes m, x.id = t ∧ x.status ≠ .invalid := by
  intro m hm
  have hg := (reachable_good ops n n' w' hf hops h).1
  exact (tip_spec m (wf_of_mem_nodes n' m hg.1 hm)).2

/-- the same two clauses for any state satisfying the invariant (used by C13 after edits) -/
theorem C19_of_good (n : Node) (hg : Good n) :
    (tip n = none ↔ n.status = .invalid) ∧ (∀ t, tip n = some t → ∃ x ∈ nodes n, x.id = t ∧ x.status ≠ .invalid) :=
  tip_spec n hg.1

/-! non-vacuity -/
def C19_example : Node :=
  .sel 1 false .invalid none
    [.seq 2 true .invalid none [.leaf 3 .invalid .probe [], .leaf 4 .invalid .probe []],
     .dec 5 .inverter .invalid (.leaf 6 .invalid .probe [])]
def C19_env (o3 o4 o6 : Status) : Env :=
  { outcome := fun i => if i = 3 then o3 else if i = 4 then o4 else o6, guard := fun _ => true, now := 0 }
example : isFresh C19_example = true := by decide
example : (run [.tick (C19_env .success .running .failure)] C19_example Store.empty).toOption.map (fun r => tip r.1)
    = some (some 4) := by decide
example : (run [.tick (C19_env .success .failure .failure)] C19_example Store.empty).toOption.map (fun r => tip r.1)
    = some (some 6) := by decide
example : (run [.tick (C19_env .success .running .failure), .stop] C19_example Store.empty).toOption.map
    (fun r => tip r.1) = some none := by decide
