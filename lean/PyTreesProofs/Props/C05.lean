/-
  C05 — Parallel.

  "Each tick of a Parallel ticks every child exactly once in order, except that under a synchronising policy children
  that already succeeded in the current round are skipped; the result is FAILURE if any child has failed, otherwise
  SUCCESS when the policy's criterion holds, otherwise RUNNING.  When it completes every child still RUNNING is
  interrupted, on fresh entry all children are reset to INVALID, and a SuccessOnSelected policy whose selection is
  empty or names a non-child is rejected with RuntimeError at setup and at tick."

   1. validation          C05_validate_tick, C05_validate_setup, C05_setup_ok, C05_validPolicy_iff
   2. the sweep           C05_sweep_iff (parLoop = the relation `Swept`), C05_sweep_ticks_all, C05_sweep_ids,
                          C05_sweep_indexed, C05_sweep_no_sync
   3. the result          C05_result_failure / _all / _one / _selected, C05_result
   4. a whole tick        C05_tick_shape, C05_result_partial, C05_result_children_partial
   5. completion / entry  C05_cleanup, C05_cleanup_keeps, C05_entry_reset
   6. finding K2          C05_empty, C05_empty_one_counterexample: an EMPTY Parallel returns SUCCESS before the policy is
                          consulted; for SuccessOnOne this contradicts the stated criterion, which is why the result
                          theorems of 4 carry the hypothesis "at least one child" and are named `_partial`
   7. reachable states    C05_good, C05_completed_no_running
-/
import PyTreesProofs.Lemmas.NoInternal
import PyTreesProofs.Lemmas.Run
import PyTreesModel.Manager
set_option linter.unusedVariables false
set_option linter.unusedSimpArgs false
open Node

namespace Node

theorem tickF_par_eq (f : Nat) (e : Env) (w : Store) (i : Nat) (p : Policy) (st : Status) (cur : Option Nat)
    (cs : List Node) :
    tickF (f+1) e w (par i p st cur cs) =
      if validPolicy p cs = false then .error .policy
      else
        if (if st ≠ .running then stopInvNonInvalid cs else (cs, [])).1.isEmpty then
          .ok (par i p .success none (if st ≠ .running then stopInvNonInvalid cs else (cs, [])).1, w,
            [.enter i] ++ (if st ≠ .running then stopInvNonInvalid cs else (cs, [])).2 ++ [.yld i .success])
        else parRun (tickF f e) w i p (if st ≠ .running then stopInvNonInvalid cs else (cs, [])).1
          (if st ≠ .running then stopInvNonInvalid cs else (cs, [])).2 := by
  cases hv : validPolicy p cs with
  | false => simp [tickF, hv, bind, Except.bind, throw, throwThe, MonadExceptOf.throw]
  | true =>
    simp only [tickF, hv, bind, Except.bind, pure, Except.pure]
    simp


/-! ### the sweep as a relation -/

/-- one Parallel sweep over the children, left to right, threading the blackboard storage:
    a child is *skipped* (carried over untouched, no event, storage unchanged) exactly when the policy
    synchronises and the child already has SUCCESS; every other child is ticked exactly once. -/
inductive Swept (t : Tick) (sync : Bool) : Store → List Node → List Node → Store → List Ev → Prop
| nil (w : Store) : Swept t sync w [] [] w []
| skip {w w' : Store} {c : Node} {cs cs' : List Node} {tr : List Ev} :
    sync = true → c.status = .success → Swept t sync w cs cs' w' tr →
    Swept t sync w (c :: cs) (c :: cs') w' tr
| tick {w w1 w' : Store} {c c' : Node} {cs cs' : List Node} {tr tr' : List Ev} :
    ¬ (sync = true ∧ c.status = .success) → t w c = .ok (c', w1, tr) → Swept t sync w1 cs cs' w' tr' →
    Swept t sync w (c :: cs) (c' :: cs') w' (tr ++ tr')

theorem parLoop_swept (t : Tick) (sync : Bool) :
    ∀ (cs : List Node) (w : Store) (cs' : List Node) (w' : Store) (tr : List Ev),
      parLoop t sync w cs = .ok (cs', w', tr) → Swept t sync w cs cs' w' tr := by
  intro cs
  induction cs with
  | nil =>
    intro w cs' w' tr h
    simp [parLoop, pure, Except.pure] at h; obtain ⟨rfl, rfl, rfl⟩ := h
    exact Swept.nil _
  | cons c cs ih =>
    intro w cs' w' tr h
    simp only [parLoop, bind, Except.bind] at h
    split at h
    · rename_i hskip
      simp only [Bool.and_eq_true, decide_eq_true_eq] at hskip
      cases hl : parLoop t sync w cs with
      | error e => simp [hl] at h
      | ok v2 =>
        obtain ⟨cs2, w2, tr2⟩ := v2
        simp only [hl, pure, Except.pure, Except.ok.injEq, Prod.mk.injEq] at h
        obtain ⟨rfl, rfl, rfl⟩ := h
        exact Swept.skip hskip.1 hskip.2 (ih w cs2 w2 tr2 hl)
    · rename_i hskip
      simp only [Bool.and_eq_true, decide_eq_true_eq] at hskip
      cases htc : t w c with
      | error e => simp [htc] at h
      | ok v =>
        obtain ⟨c', w1, trc⟩ := v
        simp only [htc] at h
        cases hl : parLoop t sync w1 cs with
        | error e => simp [hl] at h
        | ok v2 =>
          obtain ⟨cs2, w2, tr2⟩ := v2
          simp only [hl, pure, Except.pure, Except.ok.injEq, Prod.mk.injEq] at h
          obtain ⟨rfl, rfl, rfl⟩ := h
          exact Swept.tick hskip htc (ih w1 cs2 w2 tr2 hl)

theorem swept_parLoop (t : Tick) (sync : Bool) {w : Store} {cs cs' : List Node} {w' : Store} {tr : List Ev}
    (h : Swept t sync w cs cs' w' tr) : parLoop t sync w cs = .ok (cs', w', tr) := by
  induction h with
  | nil w => simp [parLoop, pure, Except.pure]
  | skip hs hc _ ih =>
    simp only [hs] at ih ⊢
    simp [parLoop, bind, Except.bind, hc, ih, pure, Except.pure]
  | @tick w w1 w' c c' cs cs' tr tr' hn ht _ ih =>
    have hcond : (sync && decide (c.status = .success)) = false := by
      cases sync <;> simp_all
    simp [parLoop, bind, Except.bind, hcond, ht, ih, pure, Except.pure]


theorem swept_length {t : Tick} {sync : Bool} {w : Store} {cs cs' : List Node} {w' : Store} {tr : List Ev}
    (h : Swept t sync w cs cs' w' tr) : cs'.length = cs.length := by
  induction h with
  | nil w => rfl
  | skip _ _ _ ih => simp [ih]
  | tick _ _ _ ih => simp [ih]

theorem swept_skipped {t : Tick} {sync : Bool} {w : Store} {cs cs' : List Node} {w' : Store} {tr : List Ev}
    (h : Swept t sync w cs cs' w' tr) :
    ∀ k (hk : k < cs.length), (sync = true ∧ cs[k].status = .success → cs'[k]? = some cs[k]) := by
  induction h with
  | nil w => intro k hk; simp at hk
  | skip hs hc _ ih =>
    intro k hk hsk
    cases k with
    | zero => simp
    | succ k =>
      simp only [List.length_cons, Nat.add_lt_add_iff_right] at hk
      simp only [List.getElem_cons_succ] at hsk
      simpa using ih k hk hsk
  | tick hn ht _ ih =>
    intro k hk hsk
    cases k with
    | zero => simp only [List.getElem_cons_zero] at hsk; exact absurd hsk hn
    | succ k =>
      simp only [List.length_cons, Nat.add_lt_add_iff_right] at hk
      simp only [List.getElem_cons_succ] at hsk
      simpa using ih k hk hsk

theorem swept_ids {t : Tick} (ht : ∀ w c c' w1 tr, t w c = .ok (c', w1, tr) → c'.id = c.id)
    {sync : Bool} {w : Store} {cs cs' : List Node} {w' : Store} {tr : List Ev}
    (h : Swept t sync w cs cs' w' tr) : cs'.map Node.id = cs.map Node.id := by
  induction h with
  | nil w => rfl
  | skip _ _ _ ih => simp [ih]
  | tick _ htc _ ih => simp [ih, ht _ _ _ _ _ htc]

/-- position-by-position reading of a sweep: `ws` are the successive storages (`ws[k]` is what child `k` sees,
    `ws[k+1]` what it leaves), `trs` the per-child traces. -/
theorem swept_indexed {t : Tick} {sync : Bool} {w : Store} {cs cs' : List Node} {w' : Store} {tr : List Ev}
    (h : Swept t sync w cs cs' w' tr) :
    ∃ (ws : List Store) (trs : List (List Ev)),
      ws.length = cs.length + 1 ∧ trs.length = cs.length ∧ cs'.length = cs.length ∧
      ws[0]? = some w ∧ ws[cs.length]? = some w' ∧ tr = trs.flatten ∧
      ∀ k, k < cs.length → ∃ c c' wk wk1 trk,
        cs[k]? = some c ∧ cs'[k]? = some c' ∧ ws[k]? = some wk ∧ ws[k+1]? = some wk1 ∧ trs[k]? = some trk ∧
        (if sync = true ∧ c.status = .success then c' = c ∧ wk1 = wk ∧ trk = []
         else t wk c = .ok (c', wk1, trk)) := by
  induction h with
  | nil w => exact ⟨[w], [], by simp⟩
  | @skip w w' c cs cs' tr hs hc _ ih =>
    obtain ⟨ws, trs, h1, h2, h3, h4, h5, h6, h7⟩ := ih
    refine ⟨w :: ws, [] :: trs, by simp [h1], by simp [h2], by simp [h3], by simp, by simpa using h5,
      by simpa using h6, ?_⟩
    intro k hk
    cases k with
    | zero => exact ⟨c, c, w, w, [], by simp, by simp, by simp, by simpa using h4, by simp, by simp [hs, hc]⟩
    | succ k =>
      simp only [List.length_cons, Nat.add_lt_add_iff_right] at hk
      obtain ⟨a, a', wk, wk1, trk, g1, g2, g3, g4, g5, g6⟩ := h7 k hk
      exact ⟨a, a', wk, wk1, trk, by simpa using g1, by simpa using g2, by simpa using g3, by simpa using g4,
        by simpa using g5, g6⟩
  | @tick w w1 w' c c' cs cs' tr tr' hn ht _ ih =>
    obtain ⟨ws, trs, h1, h2, h3, h4, h5, h6, h7⟩ := ih
    refine ⟨w :: ws, tr :: trs, by simp [h1], by simp [h2], by simp [h3], by simp, by simpa using h5,
      by simp [h6], ?_⟩
    intro k hk
    cases k with
    | zero =>
      exact ⟨c, c', w, w1, tr, by simp, by simp, by simp, by simpa using h4, by simp, by simp only [hn, ↓reduceIte]; exact ht⟩
    | succ k =>
      simp only [List.length_cons, Nat.add_lt_add_iff_right] at hk
      obtain ⟨a, a', wk, wk1, trk, g1, g2, g3, g4, g5, g6⟩ := h7 k hk
      exact ⟨a, a', wk, wk1, trk, by simpa using g1, by simpa using g2, by simpa using g3, by simpa using g4,
        by simpa using g5, g6⟩

/-! ### the policy criterion -/

/-- the success criterion of a policy, evaluated on the children after the sweep -/
def parCriterion (p : Policy) (cs : List Node) : Bool :=
  match p with
  | .onAll _ => cs.all (fun c => c.status = .success)
  | .onOne => cs.any (fun c => c.status = .success)
  | .onSelected ids _ => ids.all (fun j => statusOfId j cs = some .success)

theorem find_failure_none {cs : List Node} (h : ∀ c ∈ cs, c.status ≠ .failure) :
    cs.find? (fun c => c.status = .failure) = none := by
  rw [List.find?_eq_none]; intro c hc; simpa using h c hc

end Node

/-! ## 1. policy validation -/

/-- an invalid policy configuration is rejected with RuntimeError before anything else happens: the tick returns
    the error, hence no new tree, no new storage and no event. -/
theorem C05_validate_tick (f : Nat) (e : Env) (w : Store) (i : Nat) (p : Policy) (st : Status) (cur : Option Nat)
    (cs : List Node) (h : validPolicy p cs = false) :
    tickF (f+1) e w (par i p st cur cs) = .error .policy := by
  rw [tickF_par_eq]; simp [h]

/-- the same through the public entry point `tick` -/
theorem C05_validate_tick' (e : Env) (w : Store) (i : Nat) (p : Policy) (st : Status) (cur : Option Nat)
    (cs : List Node) (h : validPolicy p cs = false) :
    tick e w (par i p st cur cs) = .error .policy := by
  unfold tick; exact C05_validate_tick _ e w i p st cur cs h

/-- `setup()`: once the children are set up, an invalid policy configuration raises RuntimeError -/
theorem C05_validate_setup (i : Nat) (p : Policy) (st : Status) (cur : Option Nat) (cs cs' : List Node)
    (h : validPolicy p cs' = false) (hs : Mgr.setupL cs = .ok cs') :
    Mgr.setupNode (par i p st cur cs) = .error .policy := by
  simp [Mgr.setupNode, hs, h, bind, Except.bind, throw, throwThe, MonadExceptOf.throw]

/-- … and a `setup()` that returns has validated the policy -/
theorem C05_setup_ok (i : Nat) (p : Policy) (st : Status) (cur : Option Nat) (cs : List Node) (n' : Node)
    (h : Mgr.setupNode (par i p st cur cs) = .ok n') :
    ∃ cs', Mgr.setupL cs = .ok cs' ∧ n' = par i p st cur cs' ∧ validPolicy p cs' = true := by
  simp only [Mgr.setupNode, bind, Except.bind] at h
  cases hl : Mgr.setupL cs with
  | error e => simp [hl] at h
  | ok cs' =>
    simp only [hl] at h
    cases hv : validPolicy p cs' with
    | false => simp [hv, throw, throwThe, MonadExceptOf.throw] at h
    | true =>
      simp [hv, pure, Except.pure] at h
      exact ⟨cs', rfl, h.symm, hv⟩

/-- what `validate_policy_configuration` checks: SuccessOnSelected needs a non-empty selection of children -/
theorem C05_validPolicy_iff (ids : List Nat) (sync : Bool) (cs : List Node) :
    validPolicy (.onSelected ids sync) cs = true ↔ ids ≠ [] ∧ ∀ j ∈ ids, ∃ c ∈ cs, c.id = j := by
  simp [validPolicy, List.all_eq_true, List.any_eq_true]

theorem C05_validPolicy_onAll (s : Bool) (cs : List Node) : validPolicy (.onAll s) cs = true := rfl
theorem C05_validPolicy_onOne (cs : List Node) : validPolicy .onOne cs = true := rfl

/-! ## 2. the sweep -/

/-- the executable sweep is exactly the relation `Swept` -/
theorem C05_sweep_iff (t : Tick) (sync : Bool) (w : Store) (cs cs' : List Node) (w' : Store) (tr : List Ev) :
    parLoop t sync w cs = .ok (cs', w', tr) ↔ Swept t sync w cs cs' w' tr :=
  ⟨parLoop_swept t sync cs w cs' w' tr, swept_parLoop t sync⟩

/-- every child keeps its position; a child skipped by a synchronising policy is carried over untouched -/
theorem C05_sweep_ticks_all (t : Tick) (sync : Bool) (w : Store) (cs cs' : List Node) (w' : Store) (tr : List Ev)
    (h : parLoop t sync w cs = .ok (cs', w', tr)) :
    cs'.length = cs.length ∧
    ∀ k (hk : k < cs.length), (sync = true ∧ cs[k].status = .success → cs'[k]? = some cs[k]) :=
  have hs := parLoop_swept t sync cs w cs' w' tr h
  ⟨swept_length hs, swept_skipped hs⟩

/-- with an id-preserving child tick (as `tickF` is, `tickF_good`) the sweep preserves the ids, in order -/
theorem C05_sweep_ids (t : Tick) (ht : ∀ w c c' w1 tr, t w c = .ok (c', w1, tr) → c'.id = c.id)
    (sync : Bool) (w : Store) (cs cs' : List Node) (w' : Store) (tr : List Ev)
    (h : parLoop t sync w cs = .ok (cs', w', tr)) : cs'.map Node.id = cs.map Node.id :=
  swept_ids ht (parLoop_swept t sync cs w cs' w' tr h)

/-- **every child exactly once, in order**: there are successive storages `ws` (`ws[0] = w`, `ws[n] = w'`) and
    per-child traces `trs` (whose concatenation is the trace of the sweep) such that position `k` of the result is
    the child tick applied to child `k` on storage `ws[k]`, leaving `ws[k+1]` — except that a SUCCESS child of a
    synchronising policy is left as it is, with no event and no storage change. -/
theorem C05_sweep_indexed (t : Tick) (sync : Bool) (w : Store) (cs cs' : List Node) (w' : Store) (tr : List Ev)
    (h : parLoop t sync w cs = .ok (cs', w', tr)) :
    ∃ (ws : List Store) (trs : List (List Ev)),
      ws.length = cs.length + 1 ∧ trs.length = cs.length ∧ cs'.length = cs.length ∧
      ws[0]? = some w ∧ ws[cs.length]? = some w' ∧ tr = trs.flatten ∧
      ∀ k, k < cs.length → ∃ c c' wk wk1 trk,
        cs[k]? = some c ∧ cs'[k]? = some c' ∧ ws[k]? = some wk ∧ ws[k+1]? = some wk1 ∧ trs[k]? = some trk ∧
        (if sync = true ∧ c.status = .success then c' = c ∧ wk1 = wk ∧ trk = []
         else t wk c = .ok (c', wk1, trk)) :=
  swept_indexed (parLoop_swept t sync cs w cs' w' tr h)

/-- without synchronisation nothing is skipped: every child is ticked exactly once, in order -/
theorem C05_sweep_no_sync (t : Tick) (w : Store) (cs cs' : List Node) (w' : Store) (tr : List Ev)
    (h : parLoop t false w cs = .ok (cs', w', tr)) :
    ∃ (ws : List Store) (trs : List (List Ev)),
      ws.length = cs.length + 1 ∧ trs.length = cs.length ∧ cs'.length = cs.length ∧
      ws[0]? = some w ∧ ws[cs.length]? = some w' ∧ tr = trs.flatten ∧
      ∀ k, k < cs.length → ∃ c c' wk wk1 trk,
        cs[k]? = some c ∧ cs'[k]? = some c' ∧ ws[k]? = some wk ∧ ws[k+1]? = some wk1 ∧ trs[k]? = some trk ∧
        t wk c = .ok (c', wk1, trk) := by
  obtain ⟨ws, trs, h1, h2, h3, h4, h5, h6, h7⟩ := C05_sweep_indexed t false w cs cs' w' tr h
  refine ⟨ws, trs, h1, h2, h3, h4, h5, h6, ?_⟩
  intro k hk
  obtain ⟨c, c', wk, wk1, trk, g1, g2, g3, g4, g5, g6⟩ := h7 k hk
  exact ⟨c, c', wk, wk1, trk, g1, g2, g3, g4, g5, by simpa using g6⟩

/-! ## 3. the result -/

theorem C05_result_failure (p : Policy) (cs : List Node) (h : ∃ c ∈ cs, c.status = .failure) :
    (parResult p cs).1 = .failure := by
  obtain ⟨c, hc, hf⟩ := h
  have : (cs.find? (fun c => c.status = .failure)).isSome = true := by
    rw [List.find?_isSome]; exact ⟨c, hc, by simpa using hf⟩
  cases hfind : cs.find? (fun c => c.status = .failure) with
  | none => simp [hfind] at this
  | some x => simp [parResult, hfind]

theorem C05_result_all (s : Bool) (cs : List Node) (h : ∀ c ∈ cs, c.status ≠ .failure) :
    (parResult (.onAll s) cs).1 = (if cs.all (fun c => c.status = .success) then .success else .running) := by
  simp only [parResult, find_failure_none h]
  split <;> rfl

theorem C05_result_one (cs : List Node) (h : ∀ c ∈ cs, c.status ≠ .failure) :
    (parResult .onOne cs).1 = (if cs.any (fun c => c.status = .success) then .success else .running) := by
  simp only [parResult, find_failure_none h]
  cases hs : (cs.filter (fun c => c.status = .success)).getLast? with
  | some x =>
    have hm := List.mem_of_getLast? hs
    simp only [List.mem_filter, decide_eq_true_eq] at hm
    have : cs.any (fun c => c.status = .success) = true := by
      rw [List.any_eq_true]; exact ⟨x, hm.1, by simpa using hm.2⟩
    simp [this]
  | none =>
    rw [List.getLast?_eq_none_iff, List.filter_eq_nil_iff] at hs
    have : cs.any (fun c => c.status = .success) = false := by
      rw [List.any_eq_false]; exact hs
    simp [this]

theorem C05_result_selected (ids : List Nat) (s : Bool) (cs : List Node) (h : ∀ c ∈ cs, c.status ≠ .failure) :
    (parResult (.onSelected ids s) cs).1 =
      (if ids.all (fun j => statusOfId j cs = some .success) then .success else .running) := by
  simp only [parResult, find_failure_none h]
  split <;> rfl

/-- the three policies at once -/
theorem C05_result (p : Policy) (cs : List Node) :
    (parResult p cs).1 =
      if cs.any (fun c => c.status = .failure) then .failure
      else if parCriterion p cs then .success else .running := by
  by_cases hf : ∃ c ∈ cs, c.status = .failure
  · have : cs.any (fun c => c.status = .failure) = true := by
      rw [List.any_eq_true]; obtain ⟨c, hc, h⟩ := hf; exact ⟨c, hc, by simpa using h⟩
    rw [C05_result_failure p cs hf, this]; rfl
  · have hnf : ∀ c ∈ cs, c.status ≠ .failure := fun c hc h => hf ⟨c, hc, h⟩
    have : cs.any (fun c => c.status = .failure) = false := by
      rw [List.any_eq_false]; intro c hc; simpa using hnf c hc
    rw [this]
    cases p with
    | onAll s => simpa [parCriterion] using C05_result_all s cs hnf
    | onOne => simpa [parCriterion] using C05_result_one cs hnf
    | onSelected ids s => simpa [parCriterion] using C05_result_selected ids s cs hnf

/-! ## 4. one tick of a Parallel -/

/-- shape of a tick of a Parallel with a valid policy and at least one child: (entry reset when not RUNNING,) one
    sweep over the children, status from `parResult`, RUNNING children interrupted when it completes. -/
theorem C05_tick_shape (f : Nat) (e : Env) (w : Store) (i : Nat) (p : Policy) (st : Status) (cur : Option Nat)
    (cs : List Node) (n' : Node) (w' : Store) (tr : List Ev) (hv : validPolicy p cs = true) :
    let cs0 := if st ≠ .running then (stopInvNonInvalid cs).1 else cs
    cs0 ≠ [] → tickF (f+1) e w (par i p st cur cs) = .ok (n', w', tr) →
    ∃ cs1 trL, parLoop (tickF f e) p.sync w cs0 = .ok (cs1, w', trL) ∧ n'.status = (parResult p cs1).1 ∧
      n'.children = (if (parResult p cs1).1 ≠ .running then (stopRunning cs1).1 else cs1) := by
  intro cs0 hne h
  have hcs0 : (if st ≠ .running then stopInvNonInvalid cs else (cs, [])).1 = cs0 := by
    simp only [cs0]; split <;> rfl
  rw [tickF_par_eq] at h
  simp only [hv, Bool.true_eq_false, ↓reduceIte, hcs0] at h
  have hemp : cs0.isEmpty = false := by
    cases hc : cs0 with
    | nil => exact absurd hc hne
    | cons a l => rfl
  simp only [hemp, Bool.false_eq_true, ↓reduceIte] at h
  generalize (if st ≠ .running then stopInvNonInvalid cs else (cs, [])).2 = trR at h
  simp only [parRun, bind, Except.bind] at h
  cases hl : parLoop (tickF f e) p.sync w cs0 with
  | error er => simp [hl] at h
  | ok v =>
    obtain ⟨cs1, w1, trl⟩ := v
    simp only [hl] at h
    split at h
    · rename_i hns
      simp only [pure, Except.pure, Except.ok.injEq, Prod.mk.injEq] at h
      obtain ⟨rfl, rfl, _⟩ := h
      exact ⟨cs1, trl, rfl, rfl, by rw [if_pos hns]; rfl⟩
    · rename_i hns
      simp only [pure, Except.pure, Except.ok.injEq, Prod.mk.injEq] at h
      obtain ⟨rfl, rfl, _⟩ := h
      exact ⟨cs1, trl, rfl, rfl, by rw [if_neg hns]; rfl⟩

/-- **the result of a tick** of a Parallel with at least one child: FAILURE if any child has failed, otherwise
    SUCCESS when the policy's criterion holds, otherwise RUNNING (`cs1` = the children right after the sweep).

    PARTIAL.  The FULL statement of the property is the same conclusion for *every* Parallel, including the one
    without children.  The hypothesis `cs0 ≠ []` is exactly the excluded case: an empty Parallel returns SUCCESS
    before the policy is consulted (`C05_empty`), which for SuccessOnOne contradicts the stated criterion "at least
    one child has SUCCESS" (`C05_empty_one_counterexample`, finding K2).  For SuccessOnAll and SuccessOnSelected the
    empty case is consistent (SuccessOnSelected is rejected at validation; "all of no children" holds). -/
theorem C05_result_partial (f : Nat) (e : Env) (w : Store) (i : Nat) (p : Policy) (st : Status) (cur : Option Nat)
    (cs : List Node) (n' : Node) (w' : Store) (tr : List Ev) (hv : validPolicy p cs = true) :
    let cs0 := if st ≠ .running then (stopInvNonInvalid cs).1 else cs
    cs0 ≠ [] → tickF (f+1) e w (par i p st cur cs) = .ok (n', w', tr) →
    ∃ cs1 trL, parLoop (tickF f e) p.sync w cs0 = .ok (cs1, w', trL) ∧
      n'.status = (if cs1.any (fun c => c.status = .failure) then .failure
                   else if parCriterion p cs1 then .success else .running) := by
  intro cs0 hne h
  obtain ⟨cs1, trL, h1, h2, _⟩ := C05_tick_shape f e w i p st cur cs n' w' tr hv hne h
  exact ⟨cs1, trL, h1, by rw [h2, C05_result]⟩

/-! ## 5. completion and entry -/

/-- when the Parallel completes every child still RUNNING is interrupted: nothing RUNNING is left below it -/
theorem C05_cleanup (cs1 : List Node) (h : wfL cs1 = true) : noRunL (stopRunning cs1).1 = true :=
  (stopRunning_spec cs1 h).2.1

/-- … and the children that were not RUNNING keep their result -/
theorem C05_cleanup_keeps (cs1 : List Node) (h : wfL cs1 = true) :
    ∀ x ∈ cs1, x.status ≠ .running → x ∈ (stopRunning cs1).1 :=
  (stopRunning_spec cs1 h).2.2.2

/-- on fresh entry (status ≠ RUNNING) all children, with everything below them, are reset to INVALID -/
theorem C05_entry_reset (cs : List Node) (h : wfL cs = true) : allInvL (stopInvNonInvalid cs).1 = true :=
  stopInvNonInvalid_allInvL cs h

/-! ## 6. finding K2: the empty Parallel -/

/-- an EMPTY Parallel returns SUCCESS before the policy is consulted -/
theorem C05_empty (f : Nat) (e : Env) (w : Store) (i : Nat) (p : Policy) (st : Status) (cur : Option Nat)
    (hv : validPolicy p [] = true) :
    ∃ tr, tickF (f+1) e w (par i p st cur []) = .ok (par i p .success none [], w, tr) := by
  rw [tickF_par_eq]
  have : (if st ≠ .running then stopInvNonInvalid [] else (([] : List Node), ([] : List Ev))) = ([], []) := by
    split <;> simp [stopInvNonInvalid]
  simp only [hv, this, Bool.true_eq_false, ↓reduceIte, List.isEmpty_nil]
  exact ⟨_, rfl⟩

/-- for SuccessOnOne the stated criterion ("at least one child has SUCCESS") is false there -/
theorem C05_empty_one_counterexample :
    ∃ n' w' tr, tick ⟨fun _ => .running, fun _ => true, 0⟩ Store.empty (par 1 .onOne .invalid none []) = .ok (n', w', tr) ∧
      n'.status = .success ∧ ¬ (∃ c ∈ n'.children, c.status = .success) := by
  obtain ⟨tr, h⟩ := C05_empty (height (par 1 .onOne .invalid none [])) ⟨fun _ => .running, fun _ => true, 0⟩
    Store.empty 1 .onOne .invalid none rfl
  exact ⟨_, _, tr, h, rfl, by simp [children]⟩

/-! ## 7. reachable states -/

/-- every reachable state satisfies the state invariant -/
theorem C05_good (ops : List Op) (n n' : Node) (w' : Store) (hf : isFresh n = true)
    (hops : ∀ op ∈ ops, ValidOp op) (h : run ops n Store.empty = .ok (n', w')) : Good n' :=
  (reachable_good ops n n' w' hf hops h).1

/-- in every reachable state a Parallel that is not RUNNING (SUCCESS, FAILURE, or INVALID) has no RUNNING
    behaviour anywhere below it -/
theorem C05_completed_no_running (ops : List Op) (n n' : Node) (w' : Store) (hf : isFresh n = true)
    (hops : ∀ op ∈ ops, ValidOp op) (h : run ops n Store.empty = .ok (n', w')) :
    ∀ i p st cur cs, par i p st cur cs ∈ nodes n' → st ≠ .running → noRunL cs = true := by
  intro i p st cur cs hm hs
  have hw := wf_of_mem_nodes n' _ (C05_good ops n n' w' hf hops h).1 hm
  simp only [wf, Bool.and_eq_true, Bool.or_eq_true, beq_iff_eq] at hw
  rcases hw.1.1.1.2 with h1 | h1
  · exact absurd h1 hs
  · exact h1

/-! ### the same in terms of the children the Parallel is left with -/

namespace Node

theorem stopRunning_any (s : Status) (h1 : s ≠ .running) (h2 : s ≠ .invalid) : ∀ cs : List Node,
    (stopRunning cs).1.any (fun c => c.status = s) = cs.any (fun c => c.status = s)
| [] => by simp [stopRunning]
| c :: cs => by
    simp only [stopRunning, List.any_cons, stopRunning_any s h1 h2 cs]
    split
    · rename_i hr; simp [stopInv_status, hr, Ne.symm h1, Ne.symm h2]
    · rfl

theorem stopRunning_all (s : Status) (h1 : s ≠ .running) (h2 : s ≠ .invalid) : ∀ cs : List Node,
    (stopRunning cs).1.all (fun c => c.status = s) = cs.all (fun c => c.status = s)
| [] => by simp [stopRunning]
| c :: cs => by
    simp only [stopRunning, List.all_cons, stopRunning_all s h1 h2 cs]
    split
    · rename_i hr; simp [stopInv_status, hr, Ne.symm h1, Ne.symm h2]
    · rfl

theorem stopRunning_statusOfId (j : Nat) : ∀ cs : List Node,
    (statusOfId j (stopRunning cs).1 = some .success ↔ statusOfId j cs = some .success)
| [] => by simp [stopRunning]
| c :: cs => by
    have ih := stopRunning_statusOfId j cs
    simp only [statusOfId] at ih
    by_cases hr : c.status = .running
    · by_cases hj : c.id = j
      · simp [stopRunning, statusOfId, List.find?_cons, hr, stopInv_id, stopInv_status, hj]
      · simpa [stopRunning, statusOfId, List.find?_cons, hr, stopInv_id, hj] using ih
    · by_cases hj : c.id = j
      · simp [stopRunning, statusOfId, List.find?_cons, hr, hj]
      · simpa [stopRunning, statusOfId, List.find?_cons, hr, hj] using ih

theorem parCriterion_stopRunning (p : Policy) (cs : List Node) :
    parCriterion p (stopRunning cs).1 = parCriterion p cs := by
  cases p with
  | onAll s => exact stopRunning_all .success (by simp) (by simp) cs
  | onOne => exact stopRunning_any .success (by simp) (by simp) cs
  | onSelected ids s =>
    simp only [parCriterion]
    rw [Bool.eq_iff_iff]
    simp only [List.all_eq_true, decide_eq_true_eq]
    exact ⟨fun h j hj => (stopRunning_statusOfId j cs).mp (h j hj),
      fun h j hj => (stopRunning_statusOfId j cs).mpr (h j hj)⟩

end Node

/-- the result of the tick read off the tree the tick returns: FAILURE if a child has FAILURE, otherwise SUCCESS when
    the criterion holds of the children, otherwise RUNNING (PARTIAL for the same reason as `C05_result_partial`:
    the empty Parallel is excluded). -/
theorem C05_result_children_partial (f : Nat) (e : Env) (w : Store) (i : Nat) (p : Policy) (st : Status)
    (cur : Option Nat) (cs : List Node) (n' : Node) (w' : Store) (tr : List Ev) (hv : validPolicy p cs = true) :
    let cs0 := if st ≠ .running then (stopInvNonInvalid cs).1 else cs
    cs0 ≠ [] → tickF (f+1) e w (par i p st cur cs) = .ok (n', w', tr) →
    n'.status = (if n'.children.any (fun c => c.status = .failure) then .failure
                 else if parCriterion p n'.children then .success else .running) := by
  intro cs0 hne h
  obtain ⟨cs1, trL, h1, h2, h3⟩ := C05_tick_shape f e w i p st cur cs n' w' tr hv hne h
  by_cases hr : (parResult p cs1).1 ≠ .running
  · rw [if_pos hr] at h3
    rw [h2, h3, C05_result, stopRunning_any .failure (by simp) (by simp), parCriterion_stopRunning]
  · rw [if_neg hr] at h3
    rw [h2, h3, C05_result]

/-! ## 8. non-vacuity: concrete executions -/

namespace C05ex

def enters (tr : List Ev) : List Nat := tr.filterMap (fun e => match e with | .enter i => some i | _ => none)

def probes3 : List Node := [.leaf 2 .invalid .probe [], .leaf 3 .invalid .probe [], .leaf 4 .invalid .probe []]

/-- a synchronised SuccessOnAll Parallel over three probes -/
def parSync : Node := .par 1 (.onAll true) .invalid none probes3
/-- the same without synchronisation -/
def parNoSync : Node := .par 1 (.onAll false) .invalid none probes3
/-- SuccessOnSelected with a valid selection -/
def parSel : Node := .par 1 (.onSelected [3] false) .invalid none probes3
/-- SuccessOnSelected naming a non-child / selecting nothing -/
def parBad : Node := .par 1 (.onSelected [3, 9] false) .invalid none probes3
def parBadEmpty : Node := .par 1 (.onSelected [] true) .invalid none probes3
def parOne : Node := .par 1 .onOne .invalid none probes3

/-- probe 2 succeeds, the others keep running -/
def env1 : Env := { outcome := fun i => if i = 2 then .success else .running, guard := fun _ => true, now := 0 }
/-- everything succeeds -/
def env2 : Env := { outcome := fun _ => .success, guard := fun _ => true, now := 0 }
/-- probe 3 fails, the others keep running -/
def env3 : Env := { outcome := fun i => if i = 3 then .failure else .running, guard := fun _ => true, now := 0 }

def statuses (n : Node) : List (Nat × Status) := (nodes n).map (fun m => (m.id, m.status))

/-- two ticks in a row -/
def tick2 (e e' : Env) (n : Node) : Res := (tick e Store.empty n).bind (fun r => tick e' r.2.1 r.1)

example : isFresh parSync = true ∧ ValidEnv env1 ∧ ValidEnv env2 ∧ ValidEnv env3 := by
  refine ⟨by decide, ?_, ?_, ?_⟩ <;> intro i <;> simp only [env1, env2, env3] <;> (try split) <;> simp

-- first tick: fresh entry, every child ticked once, in order; RUNNING because 3 and 4 are
example : (tick env1 Store.empty parSync).toOption.map (fun r => (statuses r.1, enters r.2.2)) =
    some ([(1, .running), (2, .success), (3, .running), (4, .running)], [1, 2, 3, 4]) := by decide
-- second tick, synchronised: the SUCCESS child 2 is skipped (no `enter 2`), 3 and 4 are ticked
example : (tick2 env1 env1 parSync).toOption.map (fun r => (statuses r.1, enters r.2.2)) =
    some ([(1, .running), (2, .success), (3, .running), (4, .running)], [1, 3, 4]) := by decide
-- … and when they succeed the criterion "all children have SUCCESS" holds
example : (tick2 env1 env2 parSync).toOption.map (fun r => (statuses r.1, enters r.2.2)) =
    some ([(1, .success), (2, .success), (3, .success), (4, .success)], [1, 3, 4]) := by decide
-- second tick, not synchronised: every child is ticked again
example : (tick2 env1 env1 parNoSync).toOption.map (fun r => (statuses r.1, enters r.2.2)) =
    some ([(1, .running), (2, .success), (3, .running), (4, .running)], [1, 2, 3, 4]) := by decide
-- a failing child: FAILURE, every child was still ticked, the RUNNING ones are interrupted afterwards
example : (tick env3 Store.empty parSync).toOption.map (fun r => (statuses r.1, r.2.2)) =
    some ([(1, .failure), (2, .invalid), (3, .failure), (4, .invalid)],
      [.enter 1, .enter 2, .init 2, .upd 2 .running, .yld 2 .running,
       .enter 3, .init 3, .upd 3 .failure, .term 3 .failure, .yld 3 .failure,
       .enter 4, .init 4, .upd 4 .running, .yld 4 .running,
       .term 2 .invalid, .term 4 .invalid, .yld 1 .failure]) := by decide
-- SuccessOnOne: one SUCCESS child suffices, the others are interrupted
example : (tick env1 Store.empty parOne).toOption.map (fun r => statuses r.1) =
    some [(1, .success), (2, .success), (3, .invalid), (4, .invalid)] := by decide
-- after completion the next tick is a fresh entry: all children are reset and ticked again
example : (tick2 env3 env1 parSync).toOption.map (fun r => (statuses r.1, enters r.2.2)) =
    some ([(1, .running), (2, .success), (3, .running), (4, .running)], [1, 2, 3, 4]) := by decide

-- SuccessOnSelected with a valid selection
example : validPolicy (.onSelected [3] false) probes3 = true := by decide
example : (tick env1 Store.empty parSel).toOption.map (fun r => statuses r.1) =
    some [(1, .running), (2, .success), (3, .running), (4, .running)] := by decide
example : (tick2 env1 env2 parSel).toOption.map (fun r => statuses r.1) =
    some [(1, .success), (2, .success), (3, .success), (4, .success)] := by decide
example : (tick2 env1 env3 parSel).toOption.map (fun r => statuses r.1) =
    some [(1, .failure), (2, .invalid), (3, .failure), (4, .invalid)] := by decide

-- invalid selections are rejected with RuntimeError, at tick and at setup
example : validPolicy (.onSelected [3, 9] false) probes3 = false := by decide
example : tick env1 Store.empty parBad = .error .policy := C05_validate_tick' _ _ _ _ _ _ _ (by decide)
example : tick env1 Store.empty parBadEmpty = .error .policy := C05_validate_tick' _ _ _ _ _ _ _ (by decide)
example : Mgr.setupNode parBad = .error .policy :=
  C05_validate_setup _ _ _ _ probes3 probes3 (by decide) rfl
example : Mgr.setupNode parBadEmpty = .error .policy :=
  C05_validate_setup _ _ _ _ probes3 probes3 (by decide) rfl
example : (Mgr.setupNode parSel).toOption.isSome = true := by decide

-- the hypotheses of `C05_tick_shape` / `C05_result_partial` hold on these states
example : validPolicy (.onAll true) probes3 = true ∧
    (if Status.invalid ≠ .running then (stopInvNonInvalid probes3).1 else probes3) ≠ [] ∧
    (tickF (height parSync + 1) env1 Store.empty parSync).toOption.isSome = true := by decide
-- … and of `C05_completed_no_running`
example : (run [.tick env3, .tick env1, .stop, .tick env2] parSync Store.empty).toOption.map (fun r => statuses r.1) =
    some [(1, .success), (2, .success), (3, .success), (4, .success)] := by decide

end C05ex
