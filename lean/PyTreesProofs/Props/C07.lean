/-
  C07 (access control of the blackboard).

  "A client can read a key only if it has registered that key (with any access level) and can create, overwrite,
  modify through a nested name, or remove a key's value only if it registered the key with write or
  exclusive-write access.  Every other attempt raises an exception - AttributeError for attribute-style, get, set,
  exists and dotted access - and leaves the whole store exactly as it was."

  A denied operation may only append an ACCESS_DENIED record to the activity stream: `BB.SameStore`.
  Known finding K6: the clause about *removal* is false of the code (`Client.unset` performs no access check);
  `C07_unset_readonly_counterexample` is the machine-checked witness, `C07_unset_partial` the part that holds.
-/
import PyTreesModel.BlackboardOps

/-- same storage, metadata, client objects and registry: only the activity stream may differ -/
def BB.SameStore (a b : BB) : Prop :=
  a.storage = b.storage ∧ a.metadata = b.metadata ∧ a.clients = b.clients ∧ a.registry = b.registry

namespace BB

theorem SameStore.refl (s : BB) : s.SameStore s := ⟨rfl, rfl, rfl, rfl⟩

theorem SameStore.trans {a b c : BB} (h₁ : a.SameStore b) (h₂ : b.SameStore c) : a.SameStore c := by
  obtain ⟨a1, a2, a3, a4⟩ := h₁
  obtain ⟨b1, b2, b3, b4⟩ := h₂
  exact ⟨a1.trans b1, a2.trans b2, a3.trans b3, a4.trans b4⟩

theorem push_sameStore (s : BB) (it : Item) : (s.push it).SameStore s := by
  unfold push SameStore
  split <;> simp

/-- `getattr` never touches anything but the activity stream -/
theorem getattr_sameStore (s : BB) (c : Nat) (name : String) : (s.getattr c name).1.SameStore s := by
  unfold getattr
  split
  · exact SameStore.refl s
  · simp only []
    split
    · split
      · exact SameStore.refl s
      · exact push_sameStore s _
    · split
      · exact SameStore.refl s
      · split
        · exact push_sameStore s _
        · exact push_sameStore s _

/-- `get` returns the state produced by its `getattr` -/
theorem get_fst (s : BB) (c : Nat) (name : String) :
    (s.get c name).1 = (s.getattr c (splitName name).1).1 := by
  unfold get
  simp only []
  split
  · split
    · simp_all
    · split <;> simp_all
  · rfl

theorem get_sameStore (s : BB) (c : Nat) (name : String) : (s.get c name).1.SameStore s := by
  rw [get_fst]; exact getattr_sameStore s c _

/-- `exists_` returns the state produced by its `get` -/
theorem exists_fst (s : BB) (c : Nat) (name : String) : (s.exists_ c name).1 = (s.get c name).1 := by
  unfold exists_
  split <;> simp_all

theorem exists_sameStore (s : BB) (c : Nat) (name : String) : (s.exists_ c name).1.SameStore s := by
  rw [exists_fst]; exact get_sameStore s c name

/-- the denied branch of `getattr` -/
theorem getattr_denied_eq {s : BB} {c : Nat} {cl : Client} (h : s.client? c = some cl) (name : String)
    (hr : canRead cl (absNameS cl.ns name) = false) (hn : absNameS cl.ns name ∉ cl.namespaces) :
    s.getattr c name = (s.push ⟨absNameS cl.ns name, c, .accessDenied, none, none⟩, .attrError) := by
  unfold canRead at hr
  simp only [Bool.or_eq_false_iff, decide_eq_false_iff_not] at hr
  obtain ⟨⟨h1, h2⟩, h3⟩ := hr
  unfold getattr
  simp [h, h1, h2, h3, hn]

/-- the denied branch of `setattr` -/
theorem setattr_denied_eq {s : BB} {c : Nat} {cl : Client} (h : s.client? c = some cl) (name : String) (v : Val)
    (hw : canWrite cl (absNameS cl.ns name) = false) :
    s.setattr c name v = (s.push ⟨absNameS cl.ns name, c, .accessDenied, none, none⟩, .attrError) := by
  unfold setattr
  simp [h, hw]

/-- the denied branch of `set` -/
theorem set_denied_eq {s : BB} {c : Nat} {cl : Client} (h : s.client? c = some cl) (name : String) (v : Val)
    (ow : Bool) (hw : canWrite cl (splitName (absNameS cl.ns name)).1 = false) :
    s.set c name v ow =
      (s.push ⟨(splitName (absNameS cl.ns name)).1, c, .accessDenied, none, none⟩, .attrError) := by
  unfold set
  simp [h, hw]

end BB

/-- a denied operation may only append to the activity stream (root-level name of `BB.push_sameStore`) -/
theorem push_sameStore (s : BB) (it : Item) : (s.push it).SameStore s := BB.push_sameStore s it

/-! ### the property -/

section
variable {s : BB} {c : Nat} {cl : Client}

/-- 1. attribute-style write without write access: AttributeError, store untouched -/
theorem C07_setattr_denied (h : s.client? c = some cl) (name : String) (v : Val)
    (hw : BB.canWrite cl (absNameS cl.ns name) = false) :
    (s.setattr c name v).2 = .attrError ∧ (s.setattr c name v).1.SameStore s := by
  rw [BB.setattr_denied_eq h name v hw]
  exact ⟨rfl, BB.push_sameStore s _⟩

/-- 2. attribute-style read of an unregistered key (not a namespace either): AttributeError, store untouched -/
theorem C07_getattr_denied (h : s.client? c = some cl) (name : String)
    (hr : BB.canRead cl (absNameS cl.ns name) = false) (hn : absNameS cl.ns name ∉ cl.namespaces) :
    (s.getattr c name).2 = .attrError ∧ (s.getattr c name).1.SameStore s := by
  rw [BB.getattr_denied_eq h name hr hn]
  exact ⟨rfl, BB.push_sameStore s _⟩

/-- 3. `get` (any nesting depth) of an unregistered key -/
theorem C07_get_denied (h : s.client? c = some cl) (name : String)
    (hr : BB.canRead cl (absNameS cl.ns (splitName name).1) = false)
    (hn : absNameS cl.ns (splitName name).1 ∉ cl.namespaces) :
    (s.get c name).2 = .attrError ∧ (s.get c name).1.SameStore s := by
  refine ⟨?_, BB.get_sameStore s c name⟩
  unfold BB.get
  simp only []
  rw [BB.getattr_denied_eq h _ hr hn]

/-- 4. `exists` of an unregistered key -/
theorem C07_exists_denied (h : s.client? c = some cl) (name : String)
    (hr : BB.canRead cl (absNameS cl.ns (splitName name).1) = false)
    (hn : absNameS cl.ns (splitName name).1 ∉ cl.namespaces) :
    (s.exists_ c name).2 = .attrError ∧ (s.exists_ c name).1.SameStore s := by
  refine ⟨?_, BB.exists_sameStore s c name⟩
  have hg := (C07_get_denied h name hr hn).1
  unfold BB.exists_
  split <;> simp_all

/-- 5. `set` without write access, whatever the nesting depth and the overwrite flag -/
theorem C07_set_denied (h : s.client? c = some cl) (name : String) (v : Val) (ow : Bool)
    (hw : BB.canWrite cl (splitName (absNameS cl.ns name)).1 = false) :
    (s.set c name v ow).2 = .attrError ∧ (s.set c name v ow).1.SameStore s := by
  rw [BB.set_denied_eq h name v ow hw]
  exact ⟨rfl, BB.push_sameStore s _⟩

/-- 6. `unset` of a key the client holds no registration for: KeyError and no change at all -/
theorem C07_unset_unregistered (h : s.client? c = some cl) (name : String)
    (hm : AL.get (absNameS cl.ns name) cl.remap = none) :
    (s.unset c name).2 = .keyError ∧ (s.unset c name).1 = s := by
  unfold BB.unset
  simp [h, hm]

/-- 7. attribute-style writes change the storage only with write access -/
theorem C07_setattr_changes_only_with_write (h : s.client? c = some cl) (name : String) (v : Val)
    (hc : (s.setattr c name v).1.storage ≠ s.storage) :
    BB.canWrite cl (absNameS cl.ns name) = true := by
  cases hw : BB.canWrite cl (absNameS cl.ns name) with
  | true => rfl
  | false => exact absurd (C07_setattr_denied h name v hw).2.1 hc

/-- 8. `set` changes the storage only with write access -/
theorem C07_set_changes_only_with_write (h : s.client? c = some cl) (name : String) (v : Val) (ow : Bool)
    (hc : (s.set c name v ow).1.storage ≠ s.storage) :
    BB.canWrite cl (splitName (absNameS cl.ns name)).1 = true := by
  cases hw : BB.canWrite cl (splitName (absNameS cl.ns name)).1 with
  | true => rfl
  | false => exact absurd (C07_set_denied h name v ow hw).2.1 hc

end

/-- 9. reads never change the store: for every client index (valid or not) and every key, permitted or not -/
theorem C07_reads_never_change_store (s : BB) (c : Nat) (name : String) :
    (s.getattr c name).1.SameStore s ∧ (s.get c name).1.SameStore s ∧ (s.exists_ c name).1.SameStore s :=
  ⟨BB.getattr_sameStore s c name, BB.get_sameStore s c name, BB.exists_sameStore s c name⟩

/-- the part of the removal clause that does hold: `unset` is refused for keys the client has no registration for -/
theorem C07_unset_partial {s : BB} {c : Nat} {cl : Client} (h : s.client? c = some cl) (name : String)
    (hm : AL.get (absNameS cl.ns name) cl.remap = none) :
    (s.unset c name).2 = .keyError ∧ (s.unset c name).1 = s :=
  C07_unset_unregistered h name hm

/-! ### K6: a read-only client removes a value -/

namespace C07

/-- client 0 registers `k` for writing and writes it; client 1 registers `k` read-only -/
def ops : List BOp :=
  [.new "", .register 0 "k" (some .write) false none, .setattr 0 "k" (.int 1),
   .new "", .register 1 "k" (some .read) false none]

def witness : BB := BB.runOps ops

/-- client 1 as it stands in `witness` -/
def reader : Client :=
  { ns := "/", read := ["/k"], remap := [("/k", "/k")], namespaces := ["/"] }

/-- `Res` has no `DecidableEq`; a Boolean recogniser for `.bool true` -/
def isTrue : Res → Bool
| .bool true => true
| _ => false

theorem isTrue_eq {r : Res} (h : isTrue r = true) : r = .bool true := by
  unfold isTrue at h
  split at h
  · rfl
  · cases h

def isAttrError : Res → Bool
| .attrError => true
| _ => false

def isKeyError : Res → Bool
| .keyError => true
| _ => false

end C07

/-- 10. K6: a client holding only READ access unsets the key and the value is gone -/
theorem C07_unset_readonly_counterexample :
    ∃ (s : BB) (c : Nat) (cl : Client) (name : String),
      s.client? c = some cl ∧ BB.canWrite cl (absNameS cl.ns name) = false ∧
      (s.unset c name).2 = .bool true ∧ (s.unset c name).1.storage ≠ s.storage := by
  refine ⟨C07.witness, 1, (C07.witness.clients[1]?).getD { ns := "" }, "k", ?_, ?_, ?_, ?_⟩
  · have hs : (C07.witness.clients[1]?).isSome = true := by decide +kernel
    unfold BB.client?
    cases hc : C07.witness.clients[1]? with
    | none => rw [hc] at hs; cases hs
    | some x => rfl
  · decide +kernel
  · apply C07.isTrue_eq
    decide +kernel
  · intro hEq
    have hl := congrArg List.length hEq
    revert hl
    decide +kernel

/-! ### non-vacuity -/

-- the witness state: the reader really is client 1, it may read but not write `/k`, and `/k` holds a value
example : (C07.witness.client? 1).map (·.read) = some ["/k"] := by decide +kernel
example : (C07.witness.client? 1).map (·.write) = some [] := by decide +kernel
example : (C07.witness.client? 1).map (·.remap) = some [("/k", "/k")] := by decide +kernel
example : C07.witness.storage.length = 1 := by decide +kernel
example : BB.canRead C07.reader (absNameS C07.reader.ns "k") = true := by decide +kernel
example : BB.canWrite C07.reader (absNameS C07.reader.ns "k") = false := by decide +kernel
-- hypotheses of 1/5: the reader's writes are refused …
example : C07.isAttrError (C07.witness.setattr 1 "k" (.int 2)).2 = true := by decide +kernel
example : C07.isAttrError (C07.witness.set 1 "k.a.b" (.int 2) true).2 = true := by decide +kernel
-- … while the writer's are not (the theorems do not hold for trivial reasons)
example : C07.isAttrError (C07.witness.setattr 0 "k" (.int 2)).2 = false := by decide +kernel
-- hypotheses of 2/3/4: a key nobody registered, which is not a namespace of the client either
example : BB.canRead C07.reader (absNameS C07.reader.ns "other") = false := by decide +kernel
example : decide (absNameS C07.reader.ns "other" ∈ C07.reader.namespaces) = false := by decide +kernel
example : C07.isAttrError (C07.witness.get 1 "other.x").2 = true := by decide +kernel
example : C07.isAttrError (C07.witness.exists_ 1 "other").2 = true := by decide +kernel
-- hypothesis of 6: no registration
example : AL.get (absNameS C07.reader.ns "other") C07.reader.remap = none := by decide +kernel
example : C07.isKeyError (C07.witness.unset 1 "other").2 = true := by decide +kernel
