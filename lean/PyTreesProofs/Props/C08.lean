/-
  C08 — a storage location that has an exclusive writer has exactly one client with any kind of write access:
  conflicting WRITE / EXCLUSIVE_WRITE registrations are rejected with AttributeError (whatever namespace or remapping
  names the location), a rejected or invalid registration changes nothing, and the lock is released when its holder
  unregisters.  (The lock invariant is lost in the corners K4 / K5 of C14; the preservation theorems carry the same
  excluding hypotheses.)
-/
import PyTreesProofs.Props.C14
set_option linter.unusedVariables false
set_option linter.unusedSimpArgs false

/-! ### 1. a rejected or invalid registration changes nothing -/

/-- the whole state (the client's read / write / exclusive / required / remappings / namespaces, the metadata, the
    registry, the storage, the activity stream) is literally unchanged -/
theorem C08_rejected_frame (s : BB) (c : Nat) (name : String) (acc : Option Access) (req : Bool)
    (remapTo : Option String)
    (h : (s.register c name acc req remapTo).2 = .attrError ∨ (s.register c name acc req remapTo).2 = .typeError) :
    (s.register c name acc req remapTo).1 = s := by
  unfold BB.register at h ⊢
  cases hc : s.client? c with
  | none => rfl
  | some cl =>
    simp only [hc] at h ⊢
    cases acc with
    | none => rfl
    | some a =>
      cases a with
      | read => simp at h
      | write =>
        simp only at h ⊢
        cases hw : BB.writeConflict s (remapTo.getD (absNameS cl.ns name)) with
        | true => simp
        | false => simp [hw] at h
      | exclusive =>
        simp only at h ⊢
        cases hw : BB.exclConflict s (remapTo.getD (absNameS cl.ns name)) with
        | true => simp
        | false => simp [hw] at h

/-- a bad access argument: TypeError and nothing changes -/
theorem C08_bad_access (s : BB) (c : Nat) (cl : Client) (name : String) (req : Bool) (remapTo : Option String)
    (hc : s.client? c = some cl) : s.register c name none req remapTo = (s, .typeError) := by
  simp [BB.register, hc]

/-! ### 2. conflicting registrations are rejected -/

theorem C08_write_rejected (s : BB) (c : Nat) (cl : Client) (name : String) (req : Bool) (remapTo : Option String)
    (hc : s.client? c = some cl)
    (hex : ∃ u rest, (BB.metaOf s (remapTo.getD (absNameS cl.ns name))).excl = u :: rest ∧ u ∈ s.registry) :
    s.register c name (some .write) req remapTo = (s, .attrError) := by
  obtain ⟨u, rest, he, hu⟩ := hex
  have hw : BB.writeConflict s (remapTo.getD (absNameS cl.ns name)) = true := by
    unfold BB.writeConflict
    unfold BB.metaOf at he
    cases hg : AL.get (remapTo.getD (absNameS cl.ns name)) s.metadata with
    | none => simp [hg] at he
    | some m =>
      simp only [hg, Option.getD_some] at he
      simp [he, hu]
  simp [BB.register, hc, hw]

theorem C08_exclusive_rejected (s : BB) (c : Nat) (cl : Client) (name : String) (req : Bool)
    (remapTo : Option String) (hc : s.client? c = some cl)
    (hne : (BB.metaOf s (remapTo.getD (absNameS cl.ns name))).write ≠ [] ∨
           (BB.metaOf s (remapTo.getD (absNameS cl.ns name))).excl ≠ [])
    (hreg : ∀ u, u ∈ (BB.metaOf s (remapTo.getD (absNameS cl.ns name))).write ∨
                 u ∈ (BB.metaOf s (remapTo.getD (absNameS cl.ns name))).excl → u ∈ s.registry) :
    s.register c name (some .exclusive) req remapTo = (s, .attrError) := by
  have hx : BB.exclConflict s (remapTo.getD (absNameS cl.ns name)) = true := by
    unfold BB.exclConflict
    unfold BB.metaOf at hne hreg
    cases hg : AL.get (remapTo.getD (absNameS cl.ns name)) s.metadata with
    | none => simp [hg] at hne
    | some m =>
      simp only [hg, Option.getD_some] at hne hreg
      simp only [Bool.and_eq_true, Bool.not_eq_true', List.all_eq_true, List.mem_append, List.mem_filter,
        decide_eq_true_eq]
      constructor
      · cases hw : m.write with
        | cons a l => simp
        | nil =>
          rw [hw] at hne
          cases he : m.excl with
          | nil => simp [he] at hne
          | cons a l => simp
      · rintro u (hu | ⟨hu, _⟩)
        · exact hreg u (Or.inl hu)
        · exact hreg u (Or.inr hu)
  simp [BB.register, hc, hx]

theorem C08_accepted_no_conflict (s : BB) (c : Nat) (cl : Client) (name : String) (req : Bool)
    (remapTo : Option String) (hc : s.client? c = some cl) :
    ((s.register c name (some .write) req remapTo).2 = .ok →
      BB.writeConflict s (remapTo.getD (absNameS cl.ns name)) = false) ∧
    ((s.register c name (some .exclusive) req remapTo).2 = .ok →
      BB.exclConflict s (remapTo.getD (absNameS cl.ns name)) = false) := by
  constructor
  · intro h
    cases hw : BB.writeConflict s (remapTo.getD (absNameS cl.ns name)) with
    | false => rfl
    | true => simp [BB.register, hc, hw] at h
  · intro h
    cases hw : BB.exclConflict s (remapTo.getD (absNameS cl.ns name)) with
    | false => rfl
    | true => simp [BB.register, hc, hw] at h

/-! ### 4. non-vacuity: a concrete conflict, under two spellings of the location, and the release -/

namespace C08

/-- client 0 (root namespace) holds "/L" exclusively through its key "k" remapped to "/L"; client 1 lives in the
    namespace "/robot" -/
def held : BB := BB.runOps [.new "", .new "robot", .register 0 "k" (some .exclusive) false (some "/L")]

/-- ... and client 0 has unregistered its key again -/
def released : BB := BB.runOps [.unregisterKey 0 "k" false] held

end C08

-- the hypotheses of `C08_write_rejected` / `C08_exclusive_rejected` hold in `held`
example : (C08.held.client? 1).map (·.ns) = some "/robot" := by decide +kernel
example : ∃ u rest, (BB.metaOf C08.held "/L").excl = u :: rest ∧ u ∈ C08.held.registry :=
  ⟨0, [], by decide +kernel, by decide +kernel⟩
example : (BB.metaOf C08.held "/L").excl ≠ [] ∧
    ∀ u ∈ (BB.metaOf C08.held "/L").write ++ (BB.metaOf C08.held "/L").excl, u ∈ C08.held.registry := by
  decide +kernel
-- client 1 names the location absolutely, or remaps an unrelated key of its own namespace onto it: both rejected
example : C14.isAttrError (C08.held.register 1 "/L" (some .write) false none).2 = true := by decide +kernel
example : C14.isAttrError (C08.held.register 1 "mine" (some .write) false (some "/L")).2 = true := by decide +kernel
example : C14.isAttrError (C08.held.register 1 "/L" (some .exclusive) true none).2 = true := by decide +kernel
example : C14.isAttrError (C08.held.register 1 "mine" (some .exclusive) false (some "/L")).2 = true := by
  decide +kernel
-- the holder itself is not exempt
example : C14.isAttrError (C08.held.register 0 "k" (some .write) false (some "/L")).2 = true := by decide +kernel
-- ... and the state is unchanged (by the frame theorem)
example : (C08.held.register 1 "mine" (some .write) false (some "/L")).1 = C08.held :=
  C08_rejected_frame _ _ _ _ _ _ (Or.inl (C14.isAttrError_eq (by decide +kernel)))
-- READ access is never refused
example : C14.isOk (C08.held.register 1 "mine" (some .read) false (some "/L")).2 = true := by decide +kernel
-- a different location under the same relative name is no conflict ("/robot/L" is not "/L")
example : C14.isOk (C08.held.register 1 "L" (some .write) false none).2 = true := by decide +kernel
-- after the holder unregisters the key the lock is released
example : AL.has "/L" C08.released.metadata = false := by decide +kernel
example : C14.isOk (C08.released.register 1 "/L" (some .write) false none).2 = true := by decide +kernel
example : C14.isOk (C08.released.register 1 "mine" (some .exclusive) false (some "/L")).2 = true := by
  decide +kernel

/-! ### 3. the lock invariant -/

/-- a location with an exclusive holder has exactly one client with any kind of write access -/
def ExclInv (s : BB) : Prop :=
  ∀ loc c cl, s.client? c = some cl → usesAs cl .exclusive loc →
    ∀ c' cl', s.client? c' = some cl' → (usesAs cl' .write loc ∨ usesAs cl' .exclusive loc) → c' = c

/-- every client that has registrations is in the registry -/
def RegOK (s : BB) : Prop := ∀ c cl lvl loc, s.client? c = some cl → usesAs cl lvl loc → c ∈ s.registry

namespace C08
open C14

theorem metaOf_some (s : BB) (loc : String) (m : Meta) (h : AL.get loc s.metadata = some m) : BB.metaOf s loc = m := by
  simp [BB.metaOf, h]

theorem metaOf_none (s : BB) (loc : String) (h : AL.get loc s.metadata = none) : BB.metaOf s loc = {} := by
  simp [BB.metaOf, h]

/-- an exclusive holder makes the WRITE check fire -/
theorem writeConflict_of_holder (s : BB) (loc : String) (hm : Mirror s) (hr : RegOK s) (c1 : Nat) (cl1 : Client)
    (h1 : s.client? c1 = some cl1) (hu : usesAs cl1 .exclusive loc) : BB.writeConflict s loc = true := by
  have hmem : c1 ∈ (BB.metaOf s loc).excl := (hm.2.2.1 loc c1).2 ⟨cl1, h1, hu⟩
  unfold BB.writeConflict
  cases hg : AL.get loc s.metadata with
  | none => rw [metaOf_none s loc hg] at hmem; simp at hmem
  | some m =>
    have hmo := metaOf_some s loc m hg
    rw [hmo] at hmem
    simp only
    cases he : m.excl with
    | nil => rw [he] at hmem; cases hmem
    | cons u rest =>
      simp only [decide_eq_true_eq]
      have hu' : u ∈ (BB.metaOf s loc).excl := by rw [hmo, he]; simp
      obtain ⟨clu, hcu, huu⟩ := (hm.2.2.1 loc u).1 hu'
      exact hr u clu .exclusive loc hcu huu

/-- any writer or holder makes the EXCLUSIVE_WRITE check fire -/
theorem exclConflict_of_writer (s : BB) (loc : String) (hm : Mirror s) (hr : RegOK s) (c1 : Nat) (cl1 : Client)
    (h1 : s.client? c1 = some cl1) (hu : usesAs cl1 .write loc ∨ usesAs cl1 .exclusive loc) :
    BB.exclConflict s loc = true := by
  have hmem : c1 ∈ (BB.metaOf s loc).write ∨ c1 ∈ (BB.metaOf s loc).excl := by
    rcases hu with hu | hu
    · exact Or.inl ((hm.2.1 loc c1).2 ⟨cl1, h1, hu⟩)
    · exact Or.inr ((hm.2.2.1 loc c1).2 ⟨cl1, h1, hu⟩)
  unfold BB.exclConflict
  cases hg : AL.get loc s.metadata with
  | none => rw [metaOf_none s loc hg] at hmem; simp at hmem
  | some m =>
    have hmo := metaOf_some s loc m hg
    rw [hmo] at hmem
    simp only [Bool.and_eq_true, Bool.not_eq_true', List.all_eq_true, List.mem_append, List.mem_filter,
      decide_eq_true_eq]
    constructor
    · have hin : c1 ∈ m.write ++ m.excl.filter (fun x => decide (x ∉ m.write)) := by
        by_cases hw : c1 ∈ m.write
        · exact List.mem_append_left _ hw
        · rcases hmem with h | h
          · exact absurd h hw
          · exact List.mem_append_right _ (List.mem_filter.2 ⟨h, by simpa using hw⟩)
      cases hl : m.write ++ m.excl.filter (fun x => decide (x ∉ m.write)) with
      | nil => rw [hl] at hin; cases hin
      | cons a l => rfl
    · rintro u (huw | ⟨hue, _⟩)
      · have hu' : u ∈ (BB.metaOf s loc).write := by rw [hmo]; exact huw
        obtain ⟨clu, hcu, huu⟩ := (hm.2.1 loc u).1 hu'
        exact hr u clu .write loc hcu huu
      · have hu' : u ∈ (BB.metaOf s loc).excl := by rw [hmo]; exact hue
        obtain ⟨clu, hcu, huu⟩ := (hm.2.2.1 loc u).1 hu'
        exact hr u clu .exclusive loc hcu huu

/-- removing registrations cannot break the lock invariant -/
theorem exclInv_of_sub (s s' : BB)
    (hsub : ∀ c0 cl0' lvl l, s'.client? c0 = some cl0' → usesAs cl0' lvl l →
      ∃ cl0, s.client? c0 = some cl0 ∧ usesAs cl0 lvl l)
    (h : ExclInv s) : ExclInv s' := by
  intro loc c1 cl1' h1 hu1 c2 cl2' h2 hu2
  obtain ⟨cl1, h1o, hs1⟩ := hsub c1 cl1' _ _ h1 hu1
  rcases hu2 with hu2 | hu2
  · obtain ⟨cl2, h2o, hs2⟩ := hsub c2 cl2' _ _ h2 hu2
    exact h loc c1 cl1 h1o hs1 c2 cl2 h2o (Or.inl hs2)
  · obtain ⟨cl2, h2o, hs2⟩ := hsub c2 cl2' _ _ h2 hu2
    exact h loc c1 cl1 h1o hs1 c2 cl2 h2o (Or.inr hs2)

theorem usesAs_unregClient_sub (cl : Client) (key : String) (upd : Bool) (lvl : Access) (l : String)
    (h : usesAs (unregClient cl key upd) lvl l) : usesAs cl lvl l := by
  simp only [usesAs_iff, mem_kset_unregClient, remap_unregClient] at h ⊢
  obtain ⟨k, ⟨hk, hks⟩, hg⟩ := h
  rw [AL.get_del_other key k cl.remap hk] at hg
  exact ⟨k, hks, hg⟩

end C08

open C14 C08 in
/-- `_partial`: carries the excluding hypothesis `NoRemapChange` (finding K4). -/
theorem C08_register_keeps_lock_partial (s : BB) (c : Nat) (cl : Client) (name : String) (acc : Access) (req : Bool)
    (remapTo : Option String) (hinv : BB.Inv s) (hex : ExclInv s) (hreg : RegOK s) (hc : s.client? c = some cl)
    (hnr : NoRemapChange cl (absNameS cl.ns name) (remapTo.getD (absNameS cl.ns name)))
    (hok : (s.register c name (some acc) req remapTo).2 = .ok) :
    ExclInv (s.register c name (some acc) req remapTo).1 := by
  obtain ⟨hm, hnd, hk1, hk2, hk3⟩ := hinv
  rw [register_eq s c cl name acc req remapTo hc] at hok ⊢
  generalize absNameS cl.ns name = key at *
  generalize remapTo.getD key = loc at *
  by_cases hconf : conflict s loc acc = true
  · simp [hconf] at hok
  rw [if_neg hconf]
  simp only
  generalize hm1 : regMeta (BB.metaOf s loc) c acc = m1
  generalize hcl2 : regClient cl key loc acc req = cl2
  generalize hs0 : ({ s with metadata := AL.put loc m1 s.metadata } : BB) = s0
  have hc0 : s0.client? c = some cl := by subst hs0; exact hc
  have hcl' : ∀ c0, (s0.setClient c cl2).client? c0 = if c0 = c then some cl2 else s.client? c0 := by
    intro c0
    rw [client?_setClient s0 c cl cl2 hc0 c0]
    subst hs0; rfl
  have hk1c : ∀ k, (∃ lvl, k ∈ kset cl lvl) → (AL.get k cl.remap).isSome :=
    fun k hk => hk1 c cl hc k ((kmem_iff cl k).2 hk)
  have huse : ∀ lvl l, usesAs cl2 lvl l ↔ usesAs cl lvl l ∨ (lvl = acc ∧ l = loc) := by
    intro lvl l; subst hcl2; exact usesAs_regClient cl key loc acc req hk1c hnr lvl l
  -- every new-state usage is an old-state usage or the new registration
  have hnew : ∀ c0 cl0' lvl l, (s0.setClient c cl2).client? c0 = some cl0' → usesAs cl0' lvl l →
      (∃ cl0, s.client? c0 = some cl0 ∧ usesAs cl0 lvl l) ∨ (c0 = c ∧ lvl = acc ∧ l = loc) := by
    intro c0 cl0' lvl l h0 hu
    rw [hcl' c0] at h0
    by_cases hcc : c0 = c
    · subst hcc
      simp only [if_true, Option.some.injEq] at h0
      subst h0
      rcases (huse lvl l).1 hu with hu | ⟨h1, h2⟩
      · exact Or.inl ⟨cl, hc, hu⟩
      · exact Or.inr ⟨rfl, h1, h2⟩
    · simp only [hcc, if_false] at h0
      exact Or.inl ⟨cl0', h0, hu⟩
  intro l c1 cl1 h1 hu1 c2 cl2' h2 hu2
  rcases hnew c1 cl1 .exclusive l h1 hu1 with ⟨cl1o, h1o, hu1o⟩ | ⟨rfl, hacc, rfl⟩
  · -- the holder is an old one
    have hold2 : (∃ cl0, s.client? c2 = some cl0 ∧ (usesAs cl0 .write l ∨ usesAs cl0 .exclusive l)) ∨
        (c2 = c ∧ (acc = .write ∨ acc = .exclusive) ∧ l = loc) := by
      rcases hu2 with hu2 | hu2
      · rcases hnew c2 cl2' .write l h2 hu2 with ⟨cl0, h0, hu0⟩ | ⟨e1, e2, e3⟩
        · exact Or.inl ⟨cl0, h0, Or.inl hu0⟩
        · exact Or.inr ⟨e1, Or.inl e2.symm, e3⟩
      · rcases hnew c2 cl2' .exclusive l h2 hu2 with ⟨cl0, h0, hu0⟩ | ⟨e1, e2, e3⟩
        · exact Or.inl ⟨cl0, h0, Or.inr hu0⟩
        · exact Or.inr ⟨e1, Or.inr e2.symm, e3⟩
    rcases hold2 with ⟨cl0, h0, hu0⟩ | ⟨_, hacc, rfl⟩
    · exact hex l c1 cl1o h1o hu1o c2 cl0 h0 hu0
    · -- the new registration would have been rejected
      exfalso
      apply hconf
      rcases hacc with rfl | rfl
      · exact writeConflict_of_holder s l hm hreg c1 cl1o h1o hu1o
      · exact exclConflict_of_writer s l hm hreg c1 cl1o h1o (Or.inr hu1o)
  · -- the holder is the new EXCLUSIVE registration: nobody else may have had write access
    subst hacc
    have hold2 : (∃ cl0, s.client? c2 = some cl0 ∧ (usesAs cl0 .write l ∨ usesAs cl0 .exclusive l)) ∨ c2 = c1 := by
      rcases hu2 with hu2 | hu2
      · rcases hnew c2 cl2' .write l h2 hu2 with ⟨cl0, h0, hu0⟩ | ⟨e1, _, _⟩
        · exact Or.inl ⟨cl0, h0, Or.inl hu0⟩
        · exact Or.inr e1
      · rcases hnew c2 cl2' .exclusive l h2 hu2 with ⟨cl0, h0, hu0⟩ | ⟨e1, _, _⟩
        · exact Or.inl ⟨cl0, h0, Or.inr hu0⟩
        · exact Or.inr e1
    rcases hold2 with ⟨cl0, h0, hu0⟩ | e
    · exfalso
      apply hconf
      exact exclConflict_of_writer s l hm hreg c2 cl0 h0 hu0
    · exact e

open C14 C08 in
/-- `unregister_key` only removes registrations, so it keeps the lock invariant (no hypotheses needed) -/
theorem C08_unregisterKey_keeps_lock (s : BB) (c : Nat) (name : String) (clear upd : Bool) (hex : ExclInv s) :
    ExclInv (s.unregisterKey c name clear upd).1 := by
  cases hc : s.client? c with
  | none => simp only [BB.unregisterKey, hc]; exact hex
  | some cl =>
    cases hg : AL.get (absNameS cl.ns name) cl.remap with
    | none => simp only [BB.unregisterKey, hc, hg]; exact hex
    | some loc =>
      cases hmd : AL.get loc s.metadata with
      | none =>
        simp only [BB.unregisterKey, hc, hg, hmd]
        refine exclInv_of_sub s _ ?_ hex
        intro c0 cl0' lvl l h0 hu
        rw [client?_setClient s c cl _ hc c0] at h0
        by_cases hcc : c0 = c
        · subst hcc
          simp only [if_true, Option.some.injEq] at h0
          subst h0
          refine ⟨cl, hc, ?_⟩
          obtain ⟨k, hk, hgk⟩ := hu
          refine ⟨k, ?_, hgk⟩
          cases lvl <;> exact ((SetL.mem_discard _ _ _).1 hk).2
        · simp only [hcc, if_false] at h0
          exact ⟨cl0', h0, hu⟩
      | some m =>
        rw [unregisterKey_eq s c cl name clear upd loc m hc hg hmd]
        refine exclInv_of_sub s _ ?_ hex
        intro c0 cl0' lvl l h0 hu
        have hc0 : (unregState s loc (unregMeta m c) clear).client? c = some cl := by
          unfold BB.client?; rw [clients_unregState]; exact hc
        rw [client?_setClient _ c cl _ hc0 c0] at h0
        by_cases hcc : c0 = c
        · subst hcc
          simp only [if_true, Option.some.injEq] at h0
          subst h0
          exact ⟨cl, hc, usesAs_unregClient_sub cl _ upd lvl l hu⟩
        · simp only [hcc, if_false] at h0
          have : s.client? c0 = some cl0' := by
            unfold BB.client? at h0 ⊢; rw [clients_unregState] at h0; exact h0
          exact ⟨cl0', this, hu⟩

open C14 C08 in
/-- the lock is released when its holder unregisters the key (K5 excluded by `NoSelfAlias`): afterwards nobody has
    any write access to the location, the lock invariant still holds, and neither conflict test fires any more -/
theorem C08_release (s : BB) (c : Nat) (cl : Client) (name : String) (clear upd : Bool) (loc : String)
    (hinv : BB.Inv s) (hex : ExclInv s) (hc : s.client? c = some cl)
    (hg : AL.get (absNameS cl.ns name) cl.remap = some loc) (hns : NoSelfAlias cl (absNameS cl.ns name) loc)
    (hhold : usesAs cl .exclusive loc) :
    ExclInv (s.unregisterKey c name clear upd).1 ∧
    (¬ ∃ c' cl', (s.unregisterKey c name clear upd).1.client? c' = some cl' ∧
        (usesAs cl' .write loc ∨ usesAs cl' .exclusive loc)) ∧
    BB.writeConflict (s.unregisterKey c name clear upd).1 loc = false ∧
    BB.exclConflict (s.unregisterKey c name clear upd).1 loc = false := by
  have hinv' := C14_unregisterKey_mirror_partial s c cl name clear upd loc hinv hc hg hns
  have hex' := C08_unregisterKey_keeps_lock s c name clear upd hex
  have hmd := metadata_of_remap s c cl _ loc hinv hc hg
  have hnobody : ¬ ∃ c' cl', (s.unregisterKey c name clear upd).1.client? c' = some cl' ∧
      (usesAs cl' .write loc ∨ usesAs cl' .exclusive loc) := by
    rintro ⟨c', cl', h0, hu⟩
    rw [unregisterKey_eq s c cl name clear upd loc _ hc hg hmd] at h0
    simp only at h0
    have hc0 : (unregState s loc (unregMeta (BB.metaOf s loc) c) clear).client? c = some cl := by
      unfold BB.client?; rw [clients_unregState]; exact hc
    rw [client?_setClient _ c cl _ hc0 c'] at h0
    by_cases hcc : c' = c
    · subst hcc
      simp only [if_true, Option.some.injEq] at h0
      subst h0
      rcases hu with hu | hu
      · exact ((usesAs_unregClient cl _ loc upd hg hns _ loc).1 hu).2 rfl
      · exact ((usesAs_unregClient cl _ loc upd hg hns _ loc).1 hu).2 rfl
    · simp only [hcc, if_false] at h0
      have h0' : s.client? c' = some cl' := by
        unfold BB.client? at h0 ⊢; rw [clients_unregState] at h0; exact h0
      exact hcc (hex loc c cl hc hhold c' cl' h0' hu)
  refine ⟨hex', hnobody, ?_, ?_⟩
  · -- no exclusive holder is recorded any more
    generalize (s.unregisterKey c name clear upd).1 = s' at *
    have he : (BB.metaOf s' loc).excl = [] := by
      cases hx : (BB.metaOf s' loc).excl with
      | nil => rfl
      | cons u rest =>
        exfalso
        have hu : u ∈ (BB.metaOf s' loc).excl := by rw [hx]; simp
        obtain ⟨clu, hcu, huu⟩ := (hinv'.1.2.2.1 loc u).1 hu
        exact hnobody ⟨u, clu, hcu, Or.inr huu⟩
    unfold BB.writeConflict
    cases hgm : AL.get loc s'.metadata with
    | none => rfl
    | some m =>
      rw [metaOf_some s' loc m hgm] at he
      simp [he]
  · generalize (s.unregisterKey c name clear upd).1 = s' at *
    have he : (BB.metaOf s' loc).excl = [] := by
      cases hx : (BB.metaOf s' loc).excl with
      | nil => rfl
      | cons u rest =>
        exfalso
        have hu : u ∈ (BB.metaOf s' loc).excl := by rw [hx]; simp
        obtain ⟨clu, hcu, huu⟩ := (hinv'.1.2.2.1 loc u).1 hu
        exact hnobody ⟨u, clu, hcu, Or.inr huu⟩
    have hw : (BB.metaOf s' loc).write = [] := by
      cases hx : (BB.metaOf s' loc).write with
      | nil => rfl
      | cons u rest =>
        exfalso
        have hu : u ∈ (BB.metaOf s' loc).write := by rw [hx]; simp
        obtain ⟨clu, hcu, huu⟩ := (hinv'.1.2.1 loc u).1 hu
        exact hnobody ⟨u, clu, hcu, Or.inl huu⟩
    unfold BB.exclConflict
    cases hgm : AL.get loc s'.metadata with
    | none => rfl
    | some m =>
      rw [metaOf_some s' loc m hgm] at he hw
      simp [he, hw]

/-! ### histories: the lock invariant holds after every history that avoids the two corners K4 / K5 -/

namespace C08
open C14

/-- every client object is still in the registry (true as long as nobody calls `unregister`) -/
def AllReg (s : BB) : Prop := ∀ c, c < s.clients.length → c ∈ s.registry

theorem lt_of_client? (s : BB) (c : Nat) (cl : Client) (h : s.client? c = some cl) : c < s.clients.length := by
  unfold BB.client? at h
  apply Classical.byContradiction
  intro hn
  rw [List.getElem?_eq_none (by omega)] at h
  cases h

theorem regOK_of_allReg (s : BB) (h : AllReg s) : RegOK s :=
  fun c cl _ _ hc _ => h c (lt_of_client? s c cl hc)

theorem push_frame' (s : BB) (it : Item) :
    (s.push it).registry = s.registry ∧ (s.push it).clients = s.clients := by
  unfold BB.push
  split <;> exact ⟨rfl, rfl⟩

theorem setattr_frame' (s : BB) (c : Nat) (name : String) (v : Val) :
    (s.setattr c name v).1.registry = s.registry ∧ (s.setattr c name v).1.clients = s.clients := by
  unfold BB.setattr
  split
  · exact ⟨rfl, rfl⟩
  · simp only
    split
    · exact push_frame' _ _
    · split
      · exact ⟨rfl, rfl⟩
      · split <;> exact push_frame' _ _

theorem register_frame' (s : BB) (c : Nat) (name : String) (acc : Option Access) (req : Bool)
    (remapTo : Option String) :
    (s.register c name acc req remapTo).1.registry = s.registry ∧
    (s.register c name acc req remapTo).1.clients.length = s.clients.length := by
  cases hc : s.client? c with
  | none => simp [BB.register, hc]
  | some cl =>
    cases acc with
    | none => simp [BB.register, hc]
    | some a =>
      rw [register_eq s c cl name a req remapTo hc]
      split
      · exact ⟨rfl, rfl⟩
      · simp [BB.setClient]

theorem unregisterKey_frame' (s : BB) (c : Nat) (name : String) (clear upd : Bool) :
    (s.unregisterKey c name clear upd).1.registry = s.registry ∧
    (s.unregisterKey c name clear upd).1.clients.length = s.clients.length := by
  cases hc : s.client? c with
  | none => simp [BB.unregisterKey, hc]
  | some cl =>
    cases hg : AL.get (absNameS cl.ns name) cl.remap with
    | none => simp [BB.unregisterKey, hc, hg]
    | some loc =>
      cases hmd : AL.get loc s.metadata with
      | none => simp [BB.unregisterKey, hc, hg, hmd, BB.setClient]
      | some m =>
        rw [unregisterKey_eq s c cl name clear upd loc m hc hg hmd]
        simp only [BB.setClient, List.length_set, clients_unregState, and_true]
        unfold unregState
        split <;> rfl

theorem step_allReg (s : BB) (op : BOp) (h : AllReg s) (hok : opOK s op = true) : AllReg (s.step op).1 := by
  cases op <;> simp only [opOK, Bool.false_eq_true] at hok
  case new ns =>
    intro c hlt
    simp only [BB.step, BB.newClient, List.length_append, List.length_singleton] at hlt ⊢
    rw [SetL.mem_add]
    by_cases hc : c < s.clients.length
    · exact Or.inr (h c hc)
    · exact Or.inl (by omega)
  case setattr c name v =>
    intro c0 hlt
    simp only [BB.step] at hlt ⊢
    rw [(setattr_frame' s c name v).2] at hlt
    rw [(setattr_frame' s c name v).1]
    exact h c0 hlt
  case register c name acc req remapTo =>
    intro c0 hlt
    simp only [BB.step] at hlt ⊢
    rw [(register_frame' s c name acc req remapTo).2] at hlt
    rw [(register_frame' s c name acc req remapTo).1]
    exact h c0 hlt
  case unregisterKey c name clear =>
    intro c0 hlt
    simp only [BB.step] at hlt ⊢
    rw [(unregisterKey_frame' s c name clear true).2] at hlt
    rw [(unregisterKey_frame' s c name clear true).1]
    exact h c0 hlt

theorem exclInv_empty : ExclInv {} := by
  intro loc c cl hc
  simp [BB.client?] at hc

theorem allReg_empty : AllReg {} := by
  intro c hlt
  simp at hlt

theorem step_exclInv (s : BB) (op : BOp) (hinv : BB.Inv s) (hex : ExclInv s) (hall : AllReg s)
    (hok : opOK s op = true) : ExclInv (s.step op).1 := by
  cases op <;> simp only [opOK, Bool.false_eq_true] at hok
  case new ns =>
    refine exclInv_of_sub s _ ?_ hex
    intro c0 cl0' lvl l h0 hu
    simp only [BB.step] at h0
    unfold BB.client? at h0 ⊢
    simp only [BB.newClient] at h0
    by_cases hlt : c0 < s.clients.length
    · rw [List.getElem?_append_left hlt] at h0
      exact ⟨cl0', h0, hu⟩
    · rw [List.getElem?_append_right (by omega)] at h0
      exfalso
      cases hi : c0 - s.clients.length with
      | zero =>
        rw [hi] at h0; simp at h0
        subst h0
        exact usesAs_fresh _ _ _ hu
      | succ n => rw [hi] at h0; simp at h0
  case setattr c name v =>
    refine exclInv_of_sub s _ ?_ hex
    intro c0 cl0' lvl l h0 hu
    simp only [BB.step] at h0
    unfold BB.client? at h0 ⊢
    rw [(setattr_frame' s c name v).2] at h0
    exact ⟨cl0', h0, hu⟩
  case register c name acc req remapTo =>
    simp only [BB.step]
    cases hc : s.client? c with
    | none => simp only [BB.register, hc]; exact hex
    | some cl =>
      simp only [hc] at hok
      cases acc with
      | none => simp only [BB.register, hc]; exact hex
      | some a =>
        by_cases hconf : conflict s (remapTo.getD (absNameS cl.ns name)) a = true
        · rw [register_eq s c cl name a req remapTo hc, if_pos hconf]; exact hex
        · apply C08_register_keeps_lock_partial s c cl name a req remapTo hinv hex (regOK_of_allReg s hall) hc
            (noRemapChangeB_spec hok)
          rw [register_eq s c cl name a req remapTo hc, if_neg hconf]
  case unregisterKey c name clear =>
    exact C08_unregisterKey_keeps_lock s c name clear true hex

end C08

open C14 C08 in
/-- every history of client creations, registrations, single-key unregistrations and writes that stays out of the
    corners K4 (`NoRemapChange`) and K5 (`NoSelfAlias`) — `C14.histOK` checks exactly these two hypotheses at each
    call — ends in a state in which every exclusively held location has exactly one client with write access -/
theorem C08_history_lock_partial (ops : List BOp) :
    ∀ s : BB, BB.Inv s → ExclInv s → AllReg s → histOK s ops = true →
      ExclInv (BB.runOps ops s) ∧ BB.Inv (BB.runOps ops s) ∧ RegOK (BB.runOps ops s) := by
  induction ops with
  | nil => intro s h1 h2 h3 _; exact ⟨h2, h1, regOK_of_allReg s h3⟩
  | cons op ops ih =>
    intro s h1 h2 h3 hok
    simp only [histOK, Bool.and_eq_true] at hok
    exact ih _ (step_inv s op h1 hok.1) (step_exclInv s op h1 h2 h3 hok.1) (step_allReg s op h3 hok.1) hok.2

/-! ### K5 breaks the lock -/

namespace C08

def usedBy (s : BB) (c : Nat) (lvl : Access) (loc : String) : Bool :=
  (s.client? c).any (fun cl => C14.usesAsB cl lvl loc)

theorem usedBy_spec {s : BB} {c : Nat} {lvl : Access} {loc : String} (h : usedBy s c lvl loc = true) :
    ∃ cl, s.client? c = some cl ∧ usesAs cl lvl loc := by
  unfold usedBy at h
  cases hc : s.client? c with
  | none => simp [hc] at h
  | some cl =>
    simp only [hc, Option.any_some] at h
    exact ⟨cl, rfl, (C14.usesAsB_iff cl lvl loc).1 h⟩

/-- the K5 history of C14 followed by a second client's (accepted!) WRITE registration on the held location -/
def k5lock : List BOp :=
  C14.k5ops ++ [.new "other", .register 1 "x" (some .write) false (some "/L")]

end C08

/-- K5: client 0 aliases two keys onto "/L" (one of them EXCLUSIVE), unregisters the other one, and thereby loses
    its lock although it still holds "/k1" exclusively: client 1 is then accepted as a second writer of "/L" -/
theorem C08_alias_breaks_lock_counterexample : ∃ ops, ¬ ExclInv (BB.runOps ops) := by
  refine ⟨C08.k5lock, fun h => ?_⟩
  obtain ⟨cl0, h0, hu0⟩ := C08.usedBy_spec (s := BB.runOps C08.k5lock) (c := 0) (lvl := .exclusive) (loc := "/L")
    (by decide +kernel)
  obtain ⟨cl1, h1, hu1⟩ := C08.usedBy_spec (s := BB.runOps C08.k5lock) (c := 1) (lvl := .write) (loc := "/L")
    (by decide +kernel)
  have := h "/L" 0 cl0 h0 hu0 1 cl1 h1 (Or.inl hu1)
  cases this

/-- the last call of that history was accepted -/
example : C14.isOk ((BB.runOps (C08.k5lock.take 5)).register 1 "x" (some .write) false (some "/L")).2 = true := by
  decide +kernel
/-- and the history is excluded by the K5 check at its fourth call -/
example : C14.histOK {} C08.k5lock = false := by decide +kernel
example : C14.histOK {} (C08.k5lock.take 3) = true := by decide +kernel

/-! ### non-vacuity of the lock invariant -/

namespace C08

/-- `held` (client 0 holds "/L" exclusively) satisfies all hypotheses of item 3 -/
theorem held_ok : ExclInv held ∧ BB.Inv held ∧ RegOK held :=
  C08_history_lock_partial _ {} C14.inv_empty exclInv_empty allReg_empty (by decide +kernel)

/-- a richer state: client 0 holds "/L" exclusively, client 1 reads it, clients 1 and 2 both write "/shared" -/
def rich : BB := BB.runOps
  [.new "", .new "robot", .new "arm", .register 0 "k" (some .exclusive) false (some "/L"),
   .register 1 "/L" (some .read) false none, .register 1 "s" (some .write) false (some "/shared"),
   .register 2 "/shared" (some .write) true none, .setattr 0 "k" (.int 1)]

theorem rich_ok : ExclInv rich ∧ BB.Inv rich ∧ RegOK rich :=
  C08_history_lock_partial _ {} C14.inv_empty exclInv_empty allReg_empty (by decide +kernel)

end C08

-- the hypotheses of `C08_release` in `rich`: client 0 holds "/L" through "k", no other key of it maps there
example : C08.usedBy C08.rich 0 .exclusive "/L" = true := by decide +kernel
example : (C08.rich.client? 0).all (fun cl => AL.get (absNameS cl.ns "k") cl.remap == some "/L" &&
    C14.noSelfAliasB cl (absNameS cl.ns "k") "/L") = true := by decide +kernel
-- in `rich` a third writer of "/shared" is accepted, an exclusive claim on it is refused, any writer of "/L" is refused
example : C14.isOk (C08.rich.register 0 "/shared" (some .write) false none).2 = true := by decide +kernel
example : C14.isAttrError (C08.rich.register 0 "/shared" (some .exclusive) false none).2 = true := by decide +kernel
example : C14.isAttrError (C08.rich.register 2 "/L" (some .write) false none).2 = true := by decide +kernel
example : C14.isAttrError (C08.rich.register 1 "mine" (some .exclusive) false (some "/L")).2 = true := by
  decide +kernel
-- after client 0 releases "/L" (client 1 still reads it), client 2 may take it exclusively
example : C14.isOk ((C08.rich.unregisterKey 0 "k" false).1.register 2 "/L" (some .exclusive) false none).2 = true := by
  decide +kernel
