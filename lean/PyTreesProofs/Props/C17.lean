/-
  C17 — the stock (ready-made) behaviours return the documented status.

  "The ready-made blackboard behaviours return the documented status for every blackboard content: existence and
   value checks succeed exactly when the (possibly nested) variable exists, respectively satisfies the comparison,
   and otherwise fail - or stay RUNNING in their wait-for variants; the multi-value check combines the individual
   results with the given logical operator and publishes them; Set writes the value (failing instead when overwrite
   is disabled and a value exists), Unset removes it and always succeeds, and BlackboardToStatus returns the stored
   status, round-tripping StatusToBlackboard. TickCounter is RUNNING for exactly its duration in ticks and then
   returns its completion status, restarting on re-entry; StatusQueue replays its queue and then its eventual
   status or cycles; SuccessEveryN succeeds on exactly every n-th tick; Timer stays RUNNING until the first tick
   strictly after its duration has elapsed since entry."

  Single-update statements are about `leafUpdate i e w k = .ok (k', o, w')` (new own state, returned status, new
  storage).  Histories of updates are expressed with `iterUpd` / `iterOut`: the own state after, and the statuses
  returned by, the first `j` consecutive `update()` calls, the `t`-th call (0-based) seeing the arbitrary environment
  `es t` and storage `ws t`.  `C17_leafTick_init` connects both to `leafTick` (hence to `tick` on a leaf):
  `initialise()` runs exactly when the leaf was not RUNNING.
-/
import PyTreesProofs.Lemmas.NoInternal
import PyTreesProofs.Lemmas.Run
set_option linter.unusedVariables false
set_option linter.unusedSimpArgs false
open Node

/-! ### storage helpers -/

/-- a missing key gives `none` (KeyError) whatever the nested attribute path is -/
theorem Store.getPath_none_of_missing_key {w : Store} {key : String} (p : List String) (h : w key = none) :
    w.getPath key p = none := by
  simp [Store.getPath, h]

/-- a missing nested attribute gives `none` as well -/
theorem Store.getPath_none_of_missing_attr {w : Store} {key : String} {v : Val} (p : List String)
    (h : w key = some v) (hp : v.getPath p = none) : w.getPath key p = none := by
  simp [Store.getPath, h, hp]

theorem Store.getPath_of_key {w : Store} {key : String} {v : Val} (p : List String) (h : w key = some v) :
    w.getPath key p = v.getPath p := by
  simp [Store.getPath, h]

/-- the un-nested variable: `getPath key []` is the stored value -/
theorem Store.getPath_nil (w : Store) (key : String) : w.getPath key [] = w key := by
  simp only [Store.getPath]
  cases w key <;> simp [Val.getPath]

theorem Store.set_get (w : Store) (key : String) (v : Val) : (w.set key v) key = some v := by
  simp [Store.set]

theorem Store.set_get_ne (w : Store) {key k' : String} (v : Val) (h : k' ≠ key) : (w.set key v) k' = w k' := by
  simp [Store.set, h]

theorem Store.unset_get (w : Store) (key : String) : (w.unset key) key = none := by
  simp [Store.unset]

theorem Store.unset_get_ne (w : Store) {key k' : String} (h : k' ≠ key) : (w.unset key) k' = w k' := by
  simp [Store.unset, h]

/-! ### 1. CheckBlackboardVariableExists / WaitForBlackboardVariable -/

/-- **C17**: the existence check succeeds exactly when the (possibly nested) variable exists, otherwise FAILURE;
    the storage is untouched. -/
theorem C17_exists (i : Nat) (e : Env) (w : Store) (key : String) (p : List String) :
    leafUpdate i e w (.checkExists key p)
      = .ok (.checkExists key p, (if (w.getPath key p).isSome then .success else .failure), w) := rfl

/-- **C17**: the wait-for variant stays RUNNING instead of failing. -/
theorem C17_wait (i : Nat) (e : Env) (w : Store) (key : String) (p : List String) :
    leafUpdate i e w (.waitFor key p)
      = .ok (.waitFor key p, (if (w.getPath key p).isSome then .success else .running), w) := rfl

/-- a missing key makes the existence check fail and the wait-for variant keep RUNNING -/
theorem C17_exists_missing_key (i : Nat) (e : Env) (w : Store) (key : String) (p : List String) (h : w key = none) :
    leafUpdate i e w (.checkExists key p) = .ok (.checkExists key p, .failure, w) ∧
    leafUpdate i e w (.waitFor key p) = .ok (.waitFor key p, .running, w) := by
  simp [C17_exists, C17_wait, Store.getPath_none_of_missing_key p h]

/-! ### 2. CheckBlackboardVariableValue / WaitForBlackboardVariableValue -/

/-- **C17**: value check — missing variable ⇒ FAILURE; otherwise SUCCESS exactly when the comparison holds. -/
theorem C17_value (i : Nat) (e : Env) (w : Store) (c : Check) :
    (w.getPath c.key c.path = none → leafUpdate i e w (.checkValue c) = .ok (.checkValue c, .failure, w)) ∧
    (∀ v r, w.getPath c.key c.path = some v → cmpVals c.op v c.value = .ok r →
      leafUpdate i e w (.checkValue c) = .ok (.checkValue c, (if r then .success else .failure), w)) := by
  refine ⟨fun h => ?_, fun v r h hc => ?_⟩
  · simp [leafUpdate, h, pure, Except.pure]
  · simp [leafUpdate, h, hc, bind, Except.bind, pure, Except.pure]

/-- **C17**: wait-for-value — RUNNING in place of FAILURE. -/
theorem C17_wait_value (i : Nat) (e : Env) (w : Store) (c : Check) :
    (w.getPath c.key c.path = none → leafUpdate i e w (.waitValue c) = .ok (.waitValue c, .running, w)) ∧
    (∀ v r, w.getPath c.key c.path = some v → cmpVals c.op v c.value = .ok r →
      leafUpdate i e w (.waitValue c) = .ok (.waitValue c, (if r then .success else .running), w)) := by
  refine ⟨fun h => ?_, fun v r h hc => ?_⟩
  · simp [leafUpdate, h, pure, Except.pure]
  · simp [leafUpdate, h, hc, bind, Except.bind, pure, Except.pure]

/-- an ill-typed comparison (ordering of non-integers) escapes as that error from both variants -/
theorem C17_value_error (i : Nat) (e : Env) (w : Store) (c : Check) (v : Val) (er : Err)
    (h : w.getPath c.key c.path = some v) (hc : cmpVals c.op v c.value = .error er) :
    leafUpdate i e w (.checkValue c) = .error er ∧ leafUpdate i e w (.waitValue c) = .error er := by
  simp [leafUpdate, h, hc, bind, Except.bind]

theorem Val.beq_int (x y : Int) : Val.beq (.int x) (.int y) = (x == y) := by
  simp [Val.beq]

/-- **C17**: the comparison table on integers -/
theorem C17_cmp_int (op : CmpOp) (x y : Int) :
    cmpVals op (.int x) (.int y) = .ok (match op with
      | .eq => x == y | .ne => x != y | .lt => decide (x < y) | .le => decide (x ≤ y)
      | .gt => decide (x > y) | .ge => decide (x ≥ y)) := by
  cases op <;> simp [cmpVals, pure, Except.pure, BEq.beq, Val.beq, bne, Val.num?]

/-- equality / inequality never raise, whatever the value shapes; they are `Val.beq` -/
theorem C17_cmp_eq (a b : Val) :
    cmpVals .eq a b = .ok (Val.beq a b) ∧ cmpVals .ne a b = .ok (!Val.beq a b) := ⟨rfl, rfl⟩

/-! ### 3. CheckBlackboardVariableValues -/

namespace Node

theorem evalChecks_some : ∀ (w : Store) (cs : List Check) (rs : List Bool), evalChecks w cs = .ok (some rs) →
    rs.length = cs.length ∧ ∀ (k : Nat) (h : k < cs.length) (h' : k < rs.length),
      ∃ v, w.getPath cs[k].key cs[k].path = some v ∧ cmpVals cs[k].op v cs[k].value = .ok rs[k]
| w, [], rs, h => by
    simp only [evalChecks, pure, Except.pure, Except.ok.injEq, Option.some.injEq] at h
    subst h
    exact ⟨rfl, fun k h => by simp at h⟩
| w, c :: cs, rs, h => by
    simp only [evalChecks] at h
    cases hg : w.getPath c.key c.path with
    | none => simp [hg, pure, Except.pure] at h
    | some v =>
      simp only [hg, bind, Except.bind] at h
      cases hc : cmpVals c.op v c.value with
      | error er => simp [hc] at h
      | ok r =>
        simp only [hc] at h
        cases hr : evalChecks w cs with
        | error er => simp [hr] at h
        | ok o =>
          cases o with
          | none => simp [hr, pure, Except.pure] at h
          | some rs' =>
            simp only [hr, pure, Except.pure, Except.ok.injEq, Option.some.injEq] at h
            subst h
            obtain ⟨hl, hk⟩ := evalChecks_some w cs rs' hr
            refine ⟨by simp [hl], ?_⟩
            intro k h1 h2
            cases k with
            | zero => exact ⟨v, by simpa using hg, by simpa using hc⟩
            | succ k =>
              simp only [List.length_cons, Nat.add_lt_add_iff_right] at h1 h2
              simpa using hk k h1 h2

theorem evalChecks_none : ∀ (w : Store) (cs : List Check), evalChecks w cs = .ok none →
    ∃ c ∈ cs, w.getPath c.key c.path = none
| w, [], h => by simp [evalChecks, pure, Except.pure] at h
| w, c :: cs, h => by
    simp only [evalChecks] at h
    cases hg : w.getPath c.key c.path with
    | none => exact ⟨c, by simp, hg⟩
    | some v =>
      simp only [hg, bind, Except.bind] at h
      cases hc : cmpVals c.op v c.value with
      | error er => simp [hc] at h
      | ok r =>
        simp only [hc] at h
        cases hr : evalChecks w cs with
        | error er => simp [hr] at h
        | ok o =>
          cases o with
          | some rs' => simp [hr, pure, Except.pure] at h
          | none =>
            obtain ⟨c', hm, hn⟩ := evalChecks_none w cs hr
            exact ⟨c', by simp [hm], hn⟩

/-- converse: when every variable exists and every comparison is well-typed, the results are the comparisons -/
theorem evalChecks_of_all : ∀ (w : Store) (cs : List Check) (rs : List Bool), rs.length = cs.length →
    (∀ (k : Nat) (h : k < cs.length) (h' : k < rs.length),
      ∃ v, w.getPath cs[k].key cs[k].path = some v ∧ cmpVals cs[k].op v cs[k].value = .ok rs[k]) →
    evalChecks w cs = .ok (some rs)
| w, [], rs, hl, _ => by
    have : rs = [] := by simpa using hl
    subst this; rfl
| w, c :: cs, [], hl, _ => by simp at hl
| w, c :: cs, r :: rs, hl, hk => by
    obtain ⟨v, hg, hc⟩ := hk 0 (by simp) (by simp)
    simp only [List.getElem_cons_zero] at hg hc
    have ih := evalChecks_of_all w cs rs (by simpa using hl) (fun k h h' => by
      have := hk (k+1) (by simpa using h) (by simpa using h')
      simp only [List.getElem_cons_succ] at this
      exact this)
    simp [evalChecks, hg, hc, ih, bind, Except.bind, pure, Except.pure]

theorem publishResults_other : ∀ (ks : List String) (rs : List Bool) (w : Store) (key : String), key ∉ ks →
    publishResults w ks rs key = w key
| [], rs, w, key, _ => by simp [publishResults]
| k :: ks, [], w, key, _ => by simp [publishResults]
| k :: ks, r :: rs, w, key, h => by
    simp only [List.mem_cons, not_or] at h
    simp only [publishResults]
    rw [publishResults_other ks rs _ key h.2, Store.set_get_ne _ _ h.1]

theorem publishResults_get : ∀ (ks : List String) (rs : List Bool) (w : Store), ks.Nodup →
    ∀ (k : Nat) (h : k < ks.length) (h' : k < rs.length), publishResults w ks rs ks[k] = some (.bool rs[k])
| [], rs, w, _, k, h, _ => by simp at h
| x :: ks, [], w, _, k, _, h' => by simp at h'
| x :: ks, r :: rs, w, hnd, k, h, h' => by
    simp only [List.nodup_cons] at hnd
    simp only [publishResults]
    cases k with
    | zero =>
      simp only [List.getElem_cons_zero]
      rw [publishResults_other ks rs _ x hnd.1, Store.set_get]
    | succ k =>
      simp only [List.getElem_cons_succ]
      exact publishResults_get ks rs _ hnd.2 k (by simpa using h) (by simpa using h')

end Node

/-- **C17**: multi-value check — some variable missing ⇒ FAILURE and nothing is published. -/
theorem C17_values_missing (i : Nat) (e : Env) (w : Store) (cs : List Check) (op : LogicOp)
    (res : Option (List String)) (h : evalChecks w cs = .ok none) :
    leafUpdate i e w (.checkValues cs op res) = .ok (.checkValues cs op res, .failure, w) := by
  simp [leafUpdate, h, bind, Except.bind, pure, Except.pure]

/-- **C17**: multi-value check — all variables present: the individual results are combined with the logical
    operator and published under the result keys (when publishing was requested). -/
theorem C17_values (i : Nat) (e : Env) (w : Store) (cs : List Check) (op : LogicOp)
    (res : Option (List String)) (rs : List Bool) (h : evalChecks w cs = .ok (some rs)) :
    leafUpdate i e w (.checkValues cs op res)
      = .ok (.checkValues cs op res, (if reduceLogic op rs then .success else .failure),
             (match res with | some ks => publishResults w ks rs | none => w)) := by
  cases res <;> simp [leafUpdate, h, bind, Except.bind, pure, Except.pure]

/-- an ill-typed comparison inside the list escapes -/
theorem C17_values_error (i : Nat) (e : Env) (w : Store) (cs : List Check) (op : LogicOp)
    (res : Option (List String)) (er : Err) (h : evalChecks w cs = .error er) :
    leafUpdate i e w (.checkValues cs op res) = .error er := by
  simp [leafUpdate, h, bind, Except.bind]

/-- **C17**: meaning of the individual results: one per check, each the comparison of the stored value. -/
theorem C17_evalChecks (w : Store) (cs : List Check) (rs : List Bool) (h : evalChecks w cs = .ok (some rs)) :
    rs.length = cs.length ∧ ∀ (k : Nat) (h : k < cs.length) (h' : k < rs.length),
      ∃ v, w.getPath cs[k].key cs[k].path = some v ∧ cmpVals cs[k].op v cs[k].value = .ok rs[k] :=
  evalChecks_some w cs rs h

/-- **C17**: `none` is returned only when one of the variables is missing. -/
theorem C17_evalChecks_none (w : Store) (cs : List Check) (h : evalChecks w cs = .ok none) :
    ∃ c ∈ cs, w.getPath c.key c.path = none :=
  evalChecks_none w cs h

/-- **C17**: conversely all variables present and comparable ⇒ exactly these results. -/
theorem C17_evalChecks_complete (w : Store) (cs : List Check) (rs : List Bool) (hl : rs.length = cs.length)
    (hk : ∀ (k : Nat) (h : k < cs.length) (h' : k < rs.length),
      ∃ v, w.getPath cs[k].key cs[k].path = some v ∧ cmpVals cs[k].op v cs[k].value = .ok rs[k]) :
    evalChecks w cs = .ok (some rs) :=
  evalChecks_of_all w cs rs hl hk

/-- **C17**: the logical operator folds the results from the left (`functools.reduce`). -/
theorem C17_reduceLogic (op : LogicOp) (a b : Bool) (rs : List Bool) :
    reduceLogic op [a, b] = op.apply a b ∧
    reduceLogic op (a :: b :: rs) = reduceLogic op (op.apply a b :: rs) ∧
    LogicOp.and.apply a b = (a && b) ∧ LogicOp.or.apply a b = (a || b) ∧ LogicOp.xor.apply a b = (a != b) :=
  ⟨rfl, rfl, rfl, rfl, rfl⟩

/-- **C17**: publishing: for pairwise distinct result keys, key `k` holds the `k`-th result afterwards and every
    other key is untouched. -/
theorem C17_publish (w : Store) (ks : List String) (rs : List Bool) (hnd : ks.Nodup) (hl : ks.length = rs.length) :
    (∀ (k : Nat) (h : k < ks.length) (h' : k < rs.length), publishResults w ks rs ks[k] = some (.bool rs[k])) ∧
    (∀ key, key ∉ ks → publishResults w ks rs key = w key) :=
  ⟨publishResults_get ks rs w hnd, fun key h => publishResults_other ks rs w key h⟩

/-! ### 4. SetBlackboardVariable -/

/-- **C17**: overwrite disabled and a value exists ⇒ FAILURE, storage unchanged. -/
theorem C17_set_blocked (i : Nat) (e : Env) (w : Store) (key : String) (p : List String) (v : Val)
    (h : (w key).isSome) :
    leafUpdate i e w (.setVar key p v false) = .ok (.setVar key p v false, .failure, w) := by
  simp [leafUpdate, h, pure, Except.pure]

/-- **C17**: otherwise the (un-nested) value is written and the behaviour succeeds. -/
theorem C17_set (i : Nat) (e : Env) (w : Store) (key : String) (v : Val) (ow : Bool)
    (h : ow = true ∨ w key = none) :
    leafUpdate i e w (.setVar key [] v ow) = .ok (.setVar key [] v ow, .success, w.set key v) ∧
    (w.set key v) key = some v ∧ (w.set key v).getPath key [] = some v ∧
    (∀ k', k' ≠ key → (w.set key v) k' = w k') := by
  refine ⟨?_, Store.set_get w key v, by rw [Store.getPath_nil, Store.set_get], fun k' hk => Store.set_get_ne w v hk⟩
  rcases h with h | h
  · simp [leafUpdate, h, pure, Except.pure]
  · simp [leafUpdate, h, pure, Except.pure]

/-- **C17**: nested name `key.p`: the attribute is set inside the stored object; if the attribute path cannot be
    followed the behaviour fails and nothing changes; a nested name on a missing key raises KeyError. -/
theorem C17_set_nested (i : Nat) (e : Env) (w : Store) (key : String) (p : List String) (v : Val) (hp : p ≠ []) :
    (∀ old new, w key = some old → old.setPath p v = some new →
      leafUpdate i e w (.setVar key p v true) = .ok (.setVar key p v true, .success, w.set key new)) ∧
    (∀ old, w key = some old → old.setPath p v = none →
      leafUpdate i e w (.setVar key p v true) = .ok (.setVar key p v true, .failure, w)) ∧
    (∀ ow, w key = none → leafUpdate i e w (.setVar key p v ow) = .error .key) := by
  cases p with
  | nil => exact absurd rfl hp
  | cons a p =>
    refine ⟨fun old new h1 h2 => ?_, fun old h1 h2 => ?_, fun ow h1 => ?_⟩
    · simp [leafUpdate, h1, h2, pure, Except.pure]
    · simp [leafUpdate, h1, h2, pure, Except.pure]
    · simp [leafUpdate, h1, throw, throwThe, MonadExceptOf.throw]

/-! ### 5. UnsetBlackboardVariable -/

/-- **C17**: Unset removes the variable and always succeeds. -/
theorem C17_unset (i : Nat) (e : Env) (w : Store) (key : String) :
    leafUpdate i e w (.unsetVar key) = .ok (.unsetVar key, .success, w.unset key) ∧
    (w.unset key) key = none ∧ (∀ k', k' ≠ key → (w.unset key) k' = w k') :=
  ⟨rfl, Store.unset_get w key, fun k' hk => Store.unset_get_ne w hk⟩

/-- … so the existence check fails right afterwards -/
theorem C17_unset_then_exists (i : Nat) (e : Env) (w : Store) (key : String) (p : List String) :
    leafUpdate i e (w.unset key) (.checkExists key p) = .ok (.checkExists key p, .failure, w.unset key) := by
  simp [C17_exists, Store.getPath_none_of_missing_key p (Store.unset_get w key)]

/-! ### 6. BlackboardToStatus / StatusToBlackboard -/

/-- **C17**: BlackboardToStatus returns the stored status (KeyError when missing, TypeError on a non-status). -/
theorem C17_bbToStatus (i : Nat) (e : Env) (w : Store) (key : String) (p : List String) :
    (∀ s, w.getPath key p = some (.status s) →
      leafUpdate i e w (.bbToStatus key p) = .ok (.bbToStatus key p, s, w)) ∧
    (w.getPath key p = none → leafUpdate i e w (.bbToStatus key p) = .error .key) := by
  refine ⟨fun s h => ?_, fun h => ?_⟩
  · simp [leafUpdate, h, pure, Except.pure]
  · simp [leafUpdate, h, throw, throwThe, MonadExceptOf.throw]

/-- **C17**: BlackboardToStatus after StatusToBlackboard returns the decorated child's status. -/
theorem C17_roundtrip (i : Nat) (e : Env) (w w1 : Store) (key : String) (s : Status)
    (h : decPublish (.statusToBB key []) s w = .ok w1) :
    leafUpdate i e w1 (.bbToStatus key []) = .ok (.bbToStatus key [], s, w1) := by
  simp only [decPublish, pure, Except.pure, Except.ok.injEq] at h
  subst h
  exact (C17_bbToStatus i e _ key []).1 s (by rw [Store.getPath_nil, Store.set_get])

/-! ### histories of updates -/

namespace Node

/-- own state after one `update()` (unchanged if it raises) -/
def leafStep (i : Nat) (e : Env) (w : Store) (k : LeafKind) : LeafKind :=
  match leafUpdate i e w k with
  | .ok r => r.1
  | .error _ => k

/-- status returned by one `update()` (INVALID as a placeholder if it raises) -/
def leafOut (i : Nat) (e : Env) (w : Store) (k : LeafKind) : Status :=
  match leafUpdate i e w k with
  | .ok r => r.2.1
  | .error _ => .invalid

/-- own state after the first `j` consecutive `update()` calls; call number `t` (0-based) sees `es t`, `ws t` -/
def iterUpd (i : Nat) (es : Nat → Env) (ws : Nat → Store) : Nat → LeafKind → LeafKind
| 0, k => k
| j+1, k => leafStep i (es j) (ws j) (iterUpd i es ws j k)

/-- the statuses returned by the first `j` consecutive `update()` calls -/
def iterOut (i : Nat) (es : Nat → Env) (ws : Nat → Store) : Nat → LeafKind → List Status
| 0, _ => []
| j+1, k => iterOut i es ws j k ++ [leafOut i (es j) (ws j) (iterUpd i es ws j k)]

theorem leafStep_of_ok {i : Nat} {e : Env} {w w' : Store} {k k' : LeafKind} {o : Status}
    (h : leafUpdate i e w k = .ok (k', o, w')) : leafStep i e w k = k' ∧ leafOut i e w k = o := by
  simp [leafStep, leafOut, h]

theorem iterOut_length (i : Nat) (es : Nat → Env) (ws : Nat → Store) (k : LeafKind) :
    ∀ j, (iterOut i es ws j k).length = j
| 0 => rfl
| j+1 => by simp [iterOut, iterOut_length i es ws k j]

theorem succ_mod_cases (j L : Nat) (hL : 0 < L) :
    (j % L + 1 < L ∧ (j + 1) % L = j % L + 1) ∨ (j % L + 1 = L ∧ (j + 1) % L = 0) := by
  have hlt := Nat.mod_lt j hL
  have hdm := Nat.div_add_mod j L
  by_cases h : j % L + 1 < L
  · left
    refine ⟨h, ?_⟩
    have : j + 1 = L * (j / L) + (j % L + 1) := by omega
    rw [this, Nat.mul_add_mod, Nat.mod_eq_of_lt h]
  · right
    have h1 : j % L + 1 = L := by omega
    refine ⟨h1, ?_⟩
    have : j + 1 = L * (j / L + 1) := by rw [Nat.mul_add, Nat.mul_one]; omega
    rw [this, Nat.mul_mod_right]

end Node

/-! ### 7. TickCounter -/

/-- **C17**: one update of TickCounter: count, then RUNNING while the count is within the duration. -/
theorem C17_tickcounter_update (i : Nat) (e : Env) (w : Store) (d : Int) (c : Status) (n : Int) :
    leafUpdate i e w (.tickCounter d c n)
      = .ok (.tickCounter d c (n+1), (if n + 1 ≤ d then .running else c), w) := rfl

/-- **C17**: `initialise()` restarts the counter. -/
theorem C17_tickcounter_init (e : Env) (d : Int) (c : Status) (n : Int) :
    leafInit e (.tickCounter d c n) = .tickCounter d c 0 := rfl

/-- **C17**: after `initialise()` and `j` updates the counter is `j`, and update number `j+1` returns RUNNING
    exactly when `j+1 ≤ duration`, else the completion status — whatever the environment and storage. -/
theorem C17_tickcounter_round (i : Nat) (es : Nat → Env) (ws : Nat → Store) (e0 : Env) (d : Int) (c : Status)
    (n : Int) (j : Nat) :
    iterUpd i es ws j (leafInit e0 (.tickCounter d c n)) = .tickCounter d c (j : Int) ∧
    ∀ e w, leafUpdate i e w (iterUpd i es ws j (leafInit e0 (.tickCounter d c n)))
      = .ok (.tickCounter d c ((j + 1 : Nat) : Int), (if ((j + 1 : Nat) : Int) ≤ d then .running else c), w) := by
  have key : ∀ j : Nat, iterUpd i es ws j (leafInit e0 (.tickCounter d c n)) = .tickCounter d c (j : Int) := by
    intro j
    induction j with
    | zero => rfl
    | succ j ih =>
      simp only [iterUpd, ih, leafStep, leafUpdate, pure, Except.pure]
      congr 1
  refine ⟨key j, fun e w => ?_⟩
  rw [key j, C17_tickcounter_update]
  have : ((j : Int) + 1) = ((j + 1 : Nat) : Int) := by omega
  rw [this]

/-- **C17**: TickCounter with duration `D` ticks: RUNNING on updates `1 … D`, the completion status on update
    `D+1` (counted from entry). -/
theorem C17_tickcounter_duration (i : Nat) (es : Nat → Env) (ws : Nat → Store) (e0 : Env) (D : Nat) (c : Status)
    (n : Int) :
    (∀ j, j < D → leafOut i (es j) (ws j) (iterUpd i es ws j (leafInit e0 (.tickCounter D c n))) = .running) ∧
    leafOut i (es D) (ws D) (iterUpd i es ws D (leafInit e0 (.tickCounter D c n))) = c ∧
    iterOut i es ws (D + 1) (leafInit e0 (.tickCounter D c n)) = List.replicate D .running ++ [c] := by
  have hout : ∀ j, leafOut i (es j) (ws j) (iterUpd i es ws j (leafInit e0 (.tickCounter D c n)))
      = if j + 1 ≤ D then .running else c := by
    intro j
    have h := (C17_tickcounter_round i es ws e0 D c n j).2 (es j) (ws j)
    rw [(leafStep_of_ok h).2]
    by_cases hj : j + 1 ≤ D
    · have : ((j + 1 : Nat) : Int) ≤ (D : Int) := by omega
      rw [if_pos hj, if_pos this]
    · have : ¬ ((j + 1 : Nat) : Int) ≤ (D : Int) := by omega
      rw [if_neg hj, if_neg this]
  have hrun : ∀ m, m ≤ D → iterOut i es ws m (leafInit e0 (.tickCounter D c n)) = List.replicate m .running := by
    intro m
    induction m with
    | zero => intro _; rfl
    | succ m ih =>
      intro hm
      have h1 : m + 1 ≤ D := hm
      simp only [iterOut, ih (by omega), hout m, h1, ↓reduceIte]
      rw [List.replicate_succ']
  refine ⟨fun j hj => ?_, ?_, ?_⟩
  · rw [hout j]; simp [Nat.succ_le_of_lt hj]
  · rw [hout D, if_neg (Nat.not_succ_le_self D)]
  · simp only [iterOut, hrun D (Nat.le_refl D), hout D]
    rw [if_neg (Nat.not_succ_le_self D)]

/-! ### 8. StatusQueue -/

/-- **C17**: one update of StatusQueue: pop the next status; when the working copy is exhausted return the
    eventual status forever, or — without one — restart from the full queue (cycle). -/
theorem C17_queue_update (i : Nat) (e : Env) (w : Store) (q : List Status) (ev : Option Status) :
    (∀ s rest, leafUpdate i e w (.statusQueue q ev (s :: rest)) = .ok (.statusQueue q ev rest, s, w)) ∧
    (∀ s, leafUpdate i e w (.statusQueue q (some s) []) = .ok (.statusQueue q (some s) [], s, w)) ∧
    (∀ s rest, q = s :: rest → leafUpdate i e w (.statusQueue q none []) = .ok (.statusQueue q none rest, s, w)) := by
  refine ⟨fun s rest => rfl, fun s => rfl, fun s rest h => ?_⟩
  subst h; rfl

/-- **C17**: `initialise()` does not reset a StatusQueue. -/
theorem C17_queue_init (e : Env) (q : List Status) (ev : Option Status) (cur : List Status) :
    leafInit e (.statusQueue q ev cur) = .statusQueue q ev cur := rfl

namespace Node

theorem queue_drop (i : Nat) (es : Nat → Env) (ws : Nat → Store) (q : List Status) (ev : Option Status)
    (cur0 : List Status) : ∀ j, j ≤ cur0.length →
    iterUpd i es ws j (.statusQueue q ev cur0) = .statusQueue q ev (cur0.drop j) ∧
    iterOut i es ws j (.statusQueue q ev cur0) = cur0.take j
| 0, _ => by simp [iterUpd, iterOut]
| j+1, h => by
    obtain ⟨ih1, ih2⟩ := queue_drop i es ws q ev cur0 j (by omega)
    have hj : j < cur0.length := by omega
    have hd : cur0.drop j = cur0[j] :: cur0.drop (j+1) := List.drop_eq_getElem_cons hj
    have hu : leafUpdate i (es j) (ws j) (.statusQueue q ev (cur0.drop j))
        = .ok (.statusQueue q ev (cur0.drop (j+1)), cur0[j], ws j) := by rw [hd]; rfl
    obtain ⟨h1, h2⟩ := leafStep_of_ok hu
    refine ⟨by simp only [iterUpd, ih1, h1], ?_⟩
    simp only [iterOut, ih2, ih1, h2]
    rw [List.take_succ_eq_append_getElem hj]

end Node

/-- **C17**: replay: starting with the working copy `pre ++ post`, after `pre.length` updates the working copy is
    `post` and the statuses returned were exactly `pre`. -/
theorem C17_queue_replay (i : Nat) (es : Nat → Env) (ws : Nat → Store) (q : List Status) (ev : Option Status)
    (pre post : List Status) :
    iterUpd i es ws pre.length (.statusQueue q ev (pre ++ post)) = .statusQueue q ev post ∧
    iterOut i es ws pre.length (.statusQueue q ev (pre ++ post)) = pre := by
  have h := queue_drop i es ws q ev (pre ++ post) pre.length (by simp)
  simpa using h

/-- **C17**: a fresh StatusQueue (working copy = queue) returns `q[k]` on its `k`-th update (0-based), and the
    whole queue over the first `q.length` updates. -/
theorem C17_queue_kth (i : Nat) (es : Nat → Env) (ws : Nat → Store) (q : List Status) (ev : Option Status) :
    (∀ (k : Nat) (h : k < q.length),
      leafOut i (es k) (ws k) (iterUpd i es ws k (.statusQueue q ev q)) = q[k]) ∧
    iterOut i es ws q.length (.statusQueue q ev q) = q ∧
    iterUpd i es ws q.length (.statusQueue q ev q) = .statusQueue q ev [] := by
  refine ⟨fun k h => ?_, ?_, ?_⟩
  · have h1 := (queue_drop i es ws q ev q k (by omega)).1
    rw [h1, List.drop_eq_getElem_cons h]
    rfl
  · simpa using (queue_drop i es ws q ev q q.length (Nat.le_refl _)).2
  · simpa using (queue_drop i es ws q ev q q.length (Nat.le_refl _)).1

/-- **C17**: … and then the eventual status on every later update. -/
theorem C17_queue_eventually (i : Nat) (es : Nat → Env) (ws : Nat → Store) (q : List Status) (s : Status) (m : Nat) :
    iterUpd i es ws (q.length + m) (.statusQueue q (some s) q) = .statusQueue q (some s) [] ∧
    leafOut i (es (q.length + m)) (ws (q.length + m)) (iterUpd i es ws (q.length + m) (.statusQueue q (some s) q))
      = s := by
  have key : ∀ m, iterUpd i es ws (q.length + m) (.statusQueue q (some s) q) = .statusQueue q (some s) [] := by
    intro m
    induction m with
    | zero => exact (C17_queue_kth i es ws q (some s)).2.2
    | succ m ih =>
      rw [← Nat.add_assoc]
      simp only [iterUpd, ih]
      rfl
  refine ⟨key m, ?_⟩
  rw [key m]; rfl

/-- **C17**: … or, without an eventual status, the queue cycles: update number `j` (0-based) returns
    `q[j % q.length]`. -/
theorem C17_queue_cycle (i : Nat) (es : Nat → Env) (ws : Nat → Store) (q : List Status) (hq : q ≠ []) (j : Nat) :
    leafOut i (es j) (ws j) (iterUpd i es ws j (.statusQueue q none q))
      = q[j % q.length]'(Nat.mod_lt j (List.length_pos_iff.mpr hq)) := by
  have hL : 0 < q.length := List.length_pos_iff.mpr hq
  -- invariant: the working copy is the queue from position `j % L` on, or empty at a multiple of `L`
  have inv : ∀ j, ∃ cur, iterUpd i es ws j (.statusQueue q none q) = .statusQueue q none cur ∧
      (cur = q.drop (j % q.length) ∨ (cur = [] ∧ j % q.length = 0)) := by
    intro j
    induction j with
    | zero => exact ⟨q, rfl, Or.inl (by simp)⟩
    | succ j ih =>
      obtain ⟨cur, hc, hcur⟩ := ih
      have hlt := Nat.mod_lt j hL
      -- in both cases the update pops `q[j % L]` and leaves `q.drop (j % L + 1)`
      have hu : leafUpdate i (es j) (ws j) (.statusQueue q none cur)
          = .ok (.statusQueue q none (q.drop (j % q.length + 1)), q[j % q.length], ws j) := by
        rcases hcur with h | ⟨h, h0⟩
        · rw [h, List.drop_eq_getElem_cons hlt]; rfl
        · subst h
          cases q with
          | nil => exact absurd rfl hq
          | cons s rest => simp only [h0]; rfl
      refine ⟨q.drop (j % q.length + 1), ?_, ?_⟩
      · simp only [iterUpd, hc, (leafStep_of_ok hu).1]
      · rcases succ_mod_cases j q.length hL with ⟨_, h2⟩ | ⟨h1, h2⟩
        · left; rw [h2]
        · right; exact ⟨by rw [h1]; simp, h2⟩
  obtain ⟨cur, hc, hcur⟩ := inv j
  have hlt := Nat.mod_lt j hL
  rw [hc]
  rcases hcur with h | ⟨h, h0⟩
  · rw [h]
    have hu : leafUpdate i (es j) (ws j) (.statusQueue q none (q.drop (j % q.length)))
        = .ok (.statusQueue q none (q.drop (j % q.length + 1)), q[j % q.length], ws j) := by
      rw [List.drop_eq_getElem_cons hlt]; rfl
    exact (leafStep_of_ok hu).2
  · subst h
    cases q with
    | nil => exact absurd rfl hq
    | cons s rest => simp only [h0]; rfl

/-! ### 9. SuccessEveryN -/

/-- **C17**: one update of SuccessEveryN: count, SUCCESS exactly when the count is a multiple of `n`. -/
theorem C17_everyN (i : Nat) (e : Env) (w : Store) (n c : Int) (hn : n ≠ 0) :
    leafUpdate i e w (.successEveryN n c)
      = .ok (.successEveryN n (c+1), (if (c+1) % n = 0 then .success else .failure), w) := by
  simp [leafUpdate, hn, pure, Except.pure]

/-- **C17**: `initialise()` does not reset the count. -/
theorem C17_everyN_init (e : Env) (n c : Int) : leafInit e (.successEveryN n c) = .successEveryN n c := rfl

/-- **C17**: starting from count 0, after `j` updates the count is `j` (entries and exits in between do not
    matter), and update number `k = j+1` returns SUCCESS exactly when `n ∣ k`. -/
theorem C17_everyN_round (i : Nat) (es : Nat → Env) (ws : Nat → Store) (n : Int) (hn : n ≠ 0) (j : Nat) :
    iterUpd i es ws j (.successEveryN n 0) = .successEveryN n (j : Int) ∧
    (∀ e w, leafUpdate i e w (iterUpd i es ws j (.successEveryN n 0))
      = .ok (.successEveryN n ((j + 1 : Nat) : Int),
             (if ((j + 1 : Nat) : Int) % n = 0 then .success else .failure), w)) ∧
    (leafOut i (es j) (ws j) (iterUpd i es ws j (.successEveryN n 0)) = .success ↔ n ∣ ((j + 1 : Nat) : Int)) := by
  have key : ∀ j : Nat, iterUpd i es ws j (.successEveryN n 0) = .successEveryN n (j : Int) := by
    intro j
    induction j with
    | zero => rfl
    | succ j ih =>
      have hu := C17_everyN i (es j) (ws j) n (j : Int) hn
      simp only [iterUpd, ih, (leafStep_of_ok hu).1]
      congr 1
  have hcast : ((j : Int) + 1) = ((j + 1 : Nat) : Int) := by omega
  have hupd : ∀ e w, leafUpdate i e w (iterUpd i es ws j (.successEveryN n 0))
      = .ok (.successEveryN n ((j + 1 : Nat) : Int),
             (if ((j + 1 : Nat) : Int) % n = 0 then .success else .failure), w) := by
    intro e w
    rw [key j, C17_everyN i e w n j hn, hcast]
  refine ⟨key j, hupd, ?_⟩
  rw [(leafStep_of_ok (hupd (es j) (ws j))).2, Int.dvd_iff_emod_eq_zero]
  by_cases h : ((j + 1 : Nat) : Int) % n = 0 <;> simp [h]

/-! ### 10. Timer -/

/-- **C17**: Timer: `initialise()` records entry time + duration; RUNNING on every tick with
    `now ≤ entry + duration`, SUCCESS on the first tick strictly after. -/
theorem C17_timer (i : Nat) (e : Env) (w : Store) (d fin : Int) :
    leafInit e (.timer d fin) = .timer d (e.now + d) ∧
    leafUpdate i e w (.timer d fin) = .ok (.timer d fin, (if e.now > fin then .success else .running), w) :=
  ⟨rfl, rfl⟩

/-- **C17**: entered at clock reading `e0.now`: however many updates happened since, the update at clock reading
    `e.now` returns SUCCESS iff `e.now > e0.now + d`, else RUNNING. -/
theorem C17_timer_round (i : Nat) (es : Nat → Env) (ws : Nat → Store) (e0 : Env) (d fin : Int) (j : Nat) :
    iterUpd i es ws j (leafInit e0 (.timer d fin)) = .timer d (e0.now + d) ∧
    ∀ e w, leafUpdate i e w (iterUpd i es ws j (leafInit e0 (.timer d fin)))
      = .ok (.timer d (e0.now + d), (if e.now > e0.now + d then .success else .running), w) := by
  have key : ∀ j : Nat, iterUpd i es ws j (leafInit e0 (.timer d fin)) = .timer d (e0.now + d) := by
    intro j
    induction j with
    | zero => rfl
    | succ j ih => simp only [iterUpd, ih]; rfl
  exact ⟨key j, fun e w => by rw [key j]; rfl⟩

/-! ### 11. how a tick uses the callbacks -/

/-- **C17**: `Behaviour.tick` of a leaf: `initialise()` runs exactly when the leaf was not RUNNING — i.e. on first
    entry, after completion and after an interruption (an interrupted leaf is INVALID) — then one `update()`;
    the leaf's new status is what `update()` returned. -/
theorem C17_leafTick_init (e : Env) (w : Store) (i : Nat) (st : Status) (k : LeafKind) (log : List LEv)
    (n' : Node) (w' : Store) (tr : List Ev) (h : leafTick e w i st k log = .ok (n', w', tr)) :
    ∃ k1 o, leafUpdate i e w (if st ≠ .running then leafInit e k else k) = .ok (k1, o, w') ∧
      (∃ log', n' = leaf i o k1 log') ∧ n'.status = o ∧
      tr = [.enter i] ++ (if st ≠ .running then [Ev.init i] else []) ++ [.upd i o]
             ++ (if o ≠ .running then [Ev.term i o] else []) ++ [.yld i o] := by
  unfold leafTick at h
  generalize (if st ≠ .running then leafInit e k else k) = k0 at h ⊢
  generalize (if st ≠ .running then log ++ [LEv.init] else log) = log1 at h
  generalize (if st ≠ .running then [Ev.init i] else []) = ev1 at h ⊢
  simp only [bind, Except.bind] at h
  cases hu : leafUpdate i e w k0 with
  | error er => simp [hu] at h
  | ok v =>
    obtain ⟨k1, o, w1⟩ := v
    simp only [hu, pure, Except.pure, Except.ok.injEq, Prod.mk.injEq] at h
    obtain ⟨rfl, rfl, rfl⟩ := h
    exact ⟨k1, o, rfl, ⟨_, rfl⟩, rfl, rfl⟩

/-- conversely a successful `update()` makes the tick succeed with that status and storage; an error escapes -/
theorem C17_leafTick_of_update (e : Env) (w : Store) (i : Nat) (st : Status) (k : LeafKind) (log : List LEv) :
    (∀ k1 o w', leafUpdate i e w (if st ≠ .running then leafInit e k else k) = .ok (k1, o, w') →
      ∃ log' tr, leafTick e w i st k log = .ok (leaf i o k1 log', w', tr)) ∧
    (∀ er, leafUpdate i e w (if st ≠ .running then leafInit e k else k) = .error er →
      leafTick e w i st k log = .error er) := by
  unfold leafTick
  generalize (if st ≠ .running then leafInit e k else k) = k0
  refine ⟨fun k1 o w' hu => ?_, fun er hu => ?_⟩
  · simp only [bind, Except.bind, hu, pure, Except.pure]
    exact ⟨_, _, rfl⟩
  · simp only [bind, Except.bind, hu]

/-- ticking a leaf node is `leafTick` -/
theorem C17_tick_leaf (e : Env) (w : Store) (i : Nat) (st : Status) (k : LeafKind) (log : List LEv) :
    tick e w (leaf i st k log) = leafTick e w i st k log := rfl

/-! ### 12. non-vacuity: the hypotheses are satisfiable on concrete stores / leaves / trees -/

namespace C17

def env (t : Int) : Env := { outcome := fun _ => .success, guard := fun _ => true, now := t }

/-- `/x = 3`, `/o = Obj(a = Obj(b = 7))`, `/st = RUNNING` -/
def store : Store :=
  ((Store.empty.set "x" (.int 3)).set "o" (.obj [("a", .obj [("b", .int 7)])])).set "st" (.status .running)

def cx (op : CmpOp) (v : Int) : Check := { key := "x", path := [], op := op, value := .int v }
def cob (op : CmpOp) (v : Int) : Check := { key := "o", path := ["a", "b"], op := op, value := .int v }

/-- status returned by one update -/
def out (w : Store) (k : LeafKind) : Option Status := (leafUpdate 0 (env 0) w k).toOption.map (·.2.1)
/-- is `key.p` equal to `v` after one update? -/
def after (w : Store) (k : LeafKind) (key : String) (p : List String) (v : Val) : Option Bool :=
  (leafUpdate 0 (env 0) w k).toOption.map (fun r => match r.2.2.getPath key p with | some x => x == v | none => false)
def gone (w : Store) (k : LeafKind) (key : String) : Option Bool :=
  (leafUpdate 0 (env 0) w k).toOption.map (fun r => (r.2.2 key).isNone)

end C17

open C17 in
example : (store.getPath "o" ["a", "b"]).isSome = true ∧ (store.getPath "o" ["a", "c"]).isSome = false ∧
    store "y" = none := by decide
-- exists / wait (C17_exists, C17_wait): nested present, nested missing, key missing
open C17 in
example : out store (.checkExists "o" ["a", "b"]) = some .success ∧ out store (.checkExists "o" ["a", "c"]) = some .failure
    ∧ out store (.checkExists "y" []) = some .failure ∧ out store (.waitFor "y" []) = some .running
    ∧ out store (.waitFor "x" []) = some .success := by decide
-- value checks (C17_value, C17_wait_value, C17_value_error)
open C17 in
example : (store.getPath (cob .gt 5).key (cob .gt 5).path).map (· == .int 7) = some true ∧
    (cmpVals (cob .gt 5).op (.int 7) (cob .gt 5).value).toOption = some true := by decide
open C17 in
example : out store (.checkValue (cob .gt 5)) = some .success ∧ out store (.checkValue (cx .eq 4)) = some .failure
    ∧ out store (.waitValue (cx .eq 4)) = some .running ∧ out store (.waitValue (cx .ne 4)) = some .success
    ∧ out store (.checkValue { key := "y", path := [], op := .eq, value := .int 0 }) = some .failure
    ∧ out store (.checkValue { key := "st", path := [], op := .lt, value := .int 0 }) = none := by decide
-- multi-value check (C17_values_missing, C17_values, C17_publish)
open C17 in
example : (evalChecks store [cx .eq 3, cob .lt 5]).toOption = some (some [true, false]) ∧
    (evalChecks store [cx .eq 3, { key := "y", path := [], op := .eq, value := .int 0 }]).toOption = some none := by
  decide
open C17 in
example : out store (.checkValues [cx .eq 3, cob .lt 5] .and (some ["r1", "r2"])) = some .failure ∧
    out store (.checkValues [cx .eq 3, cob .lt 5] .or none) = some .success ∧
    out store (.checkValues [cx .eq 3, cob .lt 5] .xor none) = some .success ∧
    after store (.checkValues [cx .eq 3, cob .lt 5] .and (some ["r1", "r2"])) "r1" [] (.bool true) = some true ∧
    after store (.checkValues [cx .eq 3, cob .lt 5] .and (some ["r1", "r2"])) "r2" [] (.bool false) = some true ∧
    ["r1", "r2"].Nodup := by decide
-- set / unset (C17_set_blocked, C17_set, C17_set_nested, C17_unset)
open C17 in
example : (store "x").isSome = true ∧ out store (.setVar "x" [] (.int 9) false) = some .failure ∧
    after store (.setVar "x" [] (.int 9) false) "x" [] (.int 3) = some true ∧
    out store (.setVar "x" [] (.int 9) true) = some .success ∧
    after store (.setVar "x" [] (.int 9) true) "x" [] (.int 9) = some true ∧
    out store (.setVar "y" [] (.int 9) false) = some .success ∧
    after store (.setVar "y" [] (.int 9) false) "y" [] (.int 9) = some true := by decide
open C17 in
example : out store (.setVar "o" ["a", "b"] (.int 8) true) = some .success ∧
    after store (.setVar "o" ["a", "b"] (.int 8) true) "o" ["a", "b"] (.int 8) = some true ∧
    out store (.setVar "o" ["z", "b"] (.int 8) true) = some .failure ∧
    out store (.setVar "y" ["a"] (.int 8) true) = none := by decide
open C17 in
example : out store (.unsetVar "x") = some .success ∧ gone store (.unsetVar "x") "x" = some true ∧
    out store (.unsetVar "y") = some .success := by decide
-- StatusToBlackboard then BlackboardToStatus (C17_roundtrip, C17_bbToStatus)
open C17 in
example : ((decPublish (.statusToBB "k" []) .failure store).toOption.bind (fun w1 => out w1 (.bbToStatus "k" [])))
    = some .failure ∧ out store (.bbToStatus "st" []) = some .running ∧ out store (.bbToStatus "y" []) = none ∧
    out store (.bbToStatus "x" []) = none := by decide

/-! histories on whole trees: the leaves under the real `tick`, re-entered through `run` -/
namespace C17
def probeStatus (r : Except Err (Node × Store)) : Option Status := r.toOption.map (·.1.status)
def ticks (ts : List Int) : List Op := ts.map (fun t => Op.tick (env t))
end C17

-- TickCounter(duration 2, completion SUCCESS): R R S, then restarts: R R S
open C17 in
example : (List.range 7).map (fun j => probeStatus (run (ticks (List.replicate j 0)) (.leaf 1 .invalid (.tickCounter 2 .success 0) []) Store.empty))
    = [some .invalid, some .running, some .running, some .success, some .running, some .running, some .success] := by
  decide
-- … and an interruption (stop) restarts it as well: R, stop, R R S
open C17 in
example : probeStatus (run [.tick (env 0), .stop, .tick (env 0), .tick (env 0)] (.leaf 1 .invalid (.tickCounter 2 .success 0) []) Store.empty)
    = some .running ∧
    probeStatus (run [.tick (env 0), .stop, .tick (env 0), .tick (env 0), .tick (env 0)] (.leaf 1 .invalid (.tickCounter 2 .success 0) []) Store.empty)
    = some .success := by decide
-- StatusQueue [F, R] eventually S: F R S S;  without eventually: F R F R (cycles)
open C17 in
example : (List.range 5).map (fun j => probeStatus (run (ticks (List.replicate j 0)) (.leaf 1 .invalid (.statusQueue [.failure, .running] (some .success) [.failure, .running]) []) Store.empty))
    = [some .invalid, some .failure, some .running, some .success, some .success] := by decide
open C17 in
example : (List.range 5).map (fun j => probeStatus (run (ticks (List.replicate j 0)) (.leaf 1 .invalid (.statusQueue [.failure, .running] none [.failure, .running]) []) Store.empty))
    = [some .invalid, some .failure, some .running, some .failure, some .running] := by decide
-- SuccessEveryN 3: F F S F F S
open C17 in
example : (List.range 7).map (fun j => probeStatus (run (ticks (List.replicate j 0)) (.leaf 1 .invalid (.successEveryN 3 0) []) Store.empty))
    = [some .invalid, some .failure, some .failure, some .success, some .failure, some .failure, some .success] := by
  decide
-- Timer(duration 5) entered at t = 10: RUNNING at 10, 12, 15 (= entry + duration), SUCCESS at 16
open C17 in
example : [[10], [10, 12], [10, 12, 15], [10, 12, 15, 16]].map (fun ts => probeStatus (run (ticks ts) (.leaf 1 .invalid (.timer 5 0) []) Store.empty))
    = [some .running, some .running, some .running, some .success] := by decide
-- the abstract histories agree: `iterOut`
open C17 in
example : iterOut 0 (fun _ => env 0) (fun _ => Store.empty) 4 (leafInit (env 0) (.tickCounter 2 .failure 17))
    = [.running, .running, .failure, .failure] ∧
    iterOut 0 (fun _ => env 0) (fun _ => Store.empty) 5 (.statusQueue [.failure, .running] none [.failure, .running])
    = [.failure, .running, .failure, .running, .failure] ∧
    iterOut 0 (fun _ => env 0) (fun _ => Store.empty) 6 (.successEveryN 3 0)
    = [.failure, .failure, .success, .failure, .failure, .success] := by decide
