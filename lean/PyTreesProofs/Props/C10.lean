/-
  C10 — the stateful decorators: Retry, Repeat, Condition, Timeout, EternalGuard, OneShot.

  The per-tick behaviour is stated on `decInit` / `decUpdate` / `decTerminate` (which `C09_tick_shape` /
  `C09_tick_result` connect to the tick), the round behaviour on `decFold` (successive updates while the decorator
  stays RUNNING), and the parts that bypass `Decorator.tick` (guard false, latched one-shot) on `tickF` itself.
-/
import PyTreesProofs.Lemmas.NoInternal
import PyTreesProofs.Lemmas.Stop
import PyTreesProofs.Props.C09
set_option linter.unusedVariables false
set_option linter.unusedSimpArgs false
open Node

/-- successive `update()`s of one decorator within a round (no initialise / terminate in between): the final
    decorator state and the statuses it reported, for the given child statuses -/
def decFold (e : Env) : DecKind → List Status → DecKind × List Status
| k, [] => (k, [])
| k, cs :: rest => ((decFold e (decUpdate e k cs).1 rest).1, (decUpdate e k cs).2.1 :: (decFold e (decUpdate e k cs).1 rest).2)

/-- number of child results equal to `s` -/
def occ (s : Status) (os : List Status) : Nat := (os.filter (fun x => decide (x = s))).length

theorem occ_nil (s : Status) : occ s [] = 0 := rfl
theorem occ_cons (s x : Status) (os : List Status) : occ s (x :: os) = (if x = s then 1 else 0) + occ s os := by
  simp only [occ, List.filter_cons]
  by_cases h : x = s <;> simp [h] <;> omega

/-! ### 1. Retry -/

theorem C10_retry_update (e : Env) (n : Int) (f : Nat) (cs : Status) :
    decUpdate e (.retry n f) cs =
      match cs with
      | .failure => (.retry n (f+1), (if ((f+1 : Nat) : Int) < n then .running else .failure), false)
      | .running => (.retry n f, .running, false)
      | _ => (.retry n f, .success, false) := by
  cases cs <;> simp only [decUpdate] <;> (try split) <;> rfl

/-- counting restarts when the decorator is (re-)entered (`k0 = decInit e k` in `C09_tick_shape` whenever the
    decorator was not RUNNING) -/
theorem C10_retry_reset (e : Env) (n : Int) (f : Nat) : decInit e (.retry n f) = .retry n 0 := rfl

/-- the failure counter after a run of child results is the old one plus the number of child failures -/
theorem C10_retry_round_count (e : Env) (n : Int) : ∀ (os : List Status) (f : Nat),
    (decFold e (.retry n f) os).1 = .retry n (f + occ .failure os)
| [], f => by simp [decFold, occ_nil]
| cs :: os, f => by
    simp only [decFold, C10_retry_update, occ_cons]
    cases cs <;> simp only [C10_retry_round_count e n os, reduceCtorEq, ↓reduceIte] <;> congr 1 <;> omega

/-- a child FAILURE when the counter is `f` yields RUNNING iff `f + 1 < n`, else FAILURE -/
theorem C10_retry_failure (e : Env) (n : Int) (f : Nat) :
    (decUpdate e (.retry n f) .failure).2.1 = if ((f + 1 : Nat) : Int) < n then .running else .failure := by
  simp only [C10_retry_update]

/-- **C10 (Retry)**: within a round (counter 0 on entry) the `j`-th child failure yields RUNNING for `j < n` and
    FAILURE otherwise (in particular for `j = n`) -/
theorem C10_retry_round (e : Env) (n : Int) (os : List Status) (j : Nat) (hj : occ .failure os + 1 = j) :
    (decUpdate e (decFold e (.retry n 0) os).1 .failure).2.1 = if (j : Int) < n then .running else .failure := by
  rw [C10_retry_round_count, C10_retry_failure]
  have : 0 + occ .failure os + 1 = j := by omega
  rw [this]

/-- as long as the child only fails / runs and fewer than `n` failures have occurred, every tick reports RUNNING -/
theorem C10_retry_round_running (e : Env) (n : Int) : ∀ (os : List Status) (f : Nat),
    (∀ s ∈ os, s = .failure ∨ s = .running) → ((f + occ .failure os : Nat) : Int) < n →
    ∀ s ∈ (decFold e (.retry n f) os).2, s = .running
| [], f, _, _ => by simp [decFold]
| cs :: os, f, hos, hlt => by
    have hcs := hos cs (by simp)
    have hos' : ∀ s ∈ os, s = .failure ∨ s = .running := fun s hs => hos s (by simp [hs])
    rw [occ_cons] at hlt
    intro s hs
    simp only [decFold, List.mem_cons] at hs
    rcases hcs with rfl | rfl
    · simp only [C10_retry_update, ↓reduceIte] at hs hlt
      have h1 : ((f + 1 : Nat) : Int) < n := by omega
      have h2 : ((f + 1 + occ .failure os : Nat) : Int) < n := by omega
      rcases hs with hs | hs
      · rw [hs, if_pos h1]
      · exact C10_retry_round_running e n os (f+1) hos' h2 s hs
    · simp only [C10_retry_update, reduceCtorEq, ↓reduceIte, Nat.zero_add] at hs hlt
      rcases hs with hs | hs
      · exact hs
      · exact C10_retry_round_running e n os f hos' hlt s hs

/-- a child SUCCESS makes Retry succeed -/
theorem C10_retry_success (e : Env) (n : Int) (f : Nat) : (decUpdate e (.retry n f) .success).2.1 = .success := rfl

/-! ### 2. Repeat -/

theorem C10_repeat_update (e : Env) (n : Int) (s : Nat) (cs : Status) :
    decUpdate e (.repeat_ n s) cs =
      match cs with
      | .failure => (.repeat_ n s, .failure, false)
      | .success => (.repeat_ n (s+1), (if ((s+1 : Nat) : Int) = n then .success else .running), false)
      | _ => (.repeat_ n s, .running, false) := by
  cases cs <;> simp only [decUpdate] <;> (try split) <;> rfl

theorem C10_repeat_reset (e : Env) (n : Int) (s : Nat) : decInit e (.repeat_ n s) = .repeat_ n 0 := rfl

/-- the success counter after a run of child results is the old one plus the number of child successes -/
theorem C10_repeat_round_count (e : Env) (n : Int) : ∀ (os : List Status) (s : Nat),
    (decFold e (.repeat_ n s) os).1 = .repeat_ n (s + occ .success os)
| [], s => by simp [decFold, occ_nil]
| cs :: os, s => by
    simp only [decFold, C10_repeat_update, occ_cons]
    cases cs <;> simp only [C10_repeat_round_count e n os, reduceCtorEq, ↓reduceIte] <;> congr 1 <;> omega

theorem C10_repeat_success (e : Env) (n : Int) (s : Nat) :
    (decUpdate e (.repeat_ n s) .success).2.1 = if ((s + 1 : Nat) : Int) = n then .success else .running := by
  simp only [C10_repeat_update]

/-- failing at once on a child failure -/
theorem C10_repeat_failure (e : Env) (n : Int) (s : Nat) : (decUpdate e (.repeat_ n s) .failure).2.1 = .failure := rfl

/-- **C10 (Repeat)**: within a round the `j`-th child success yields SUCCESS iff `j = n`, RUNNING otherwise -/
theorem C10_repeat_round (e : Env) (n : Int) (os : List Status) (j : Nat) (hj : occ .success os + 1 = j) :
    (decUpdate e (decFold e (.repeat_ n 0) os).1 .success).2.1 = if (j : Int) = n then .success else .running := by
  rw [C10_repeat_round_count, C10_repeat_success]
  have : 0 + occ .success os + 1 = j := by omega
  rw [this]

/-- with `n = -1` Repeat never succeeds: every child success yields RUNNING -/
theorem C10_repeat_forever (e : Env) (os : List Status) :
    (decUpdate e (decFold e (.repeat_ (-1) 0) os).1 .success).2.1 = .running := by
  rw [C10_repeat_round e (-1) os _ rfl]
  have : ¬ (((occ .success os + 1 : Nat) : Int) = -1) := by omega
  rw [if_neg this]

/-- until the `n`-th success (and without failures) every tick reports RUNNING -/
theorem C10_repeat_round_running (e : Env) (n : Int) : ∀ (os : List Status) (s : Nat),
    (∀ x ∈ os, x = .success ∨ x = .running) → ((s + occ .success os : Nat) : Int) < n →
    ∀ x ∈ (decFold e (.repeat_ n s) os).2, x = .running
| [], s, _, _ => by simp [decFold]
| cs :: os, s, hos, hlt => by
    have hcs := hos cs (by simp)
    have hos' : ∀ x ∈ os, x = .success ∨ x = .running := fun x hx => hos x (by simp [hx])
    rw [occ_cons] at hlt
    intro x hx
    simp only [decFold, List.mem_cons] at hx
    rcases hcs with rfl | rfl
    · simp only [C10_repeat_update, ↓reduceIte] at hx hlt
      have h1 : ¬ (((s + 1 : Nat) : Int) = n) := by omega
      have h2 : ((s + 1 + occ .success os : Nat) : Int) < n := by omega
      rcases hx with hx | hx
      · rw [hx, if_neg h1]
      · exact C10_repeat_round_running e n os (s+1) hos' h2 x hx
    · simp only [C10_repeat_update, reduceCtorEq, ↓reduceIte, Nat.zero_add] at hx hlt
      rcases hx with hx | hx
      · exact hx
      · exact C10_repeat_round_running e n os s hos' hlt x hx

/-! ### 3. Condition -/

/-- SUCCESS exactly when the child's status equals the awaited one, RUNNING otherwise (never FAILURE) -/
theorem C10_condition (e : Env) (a cs : Status) :
    (decUpdate e (.condition a) cs).2.1 = if cs = a then .success else .running := rfl

theorem C10_condition_iff (e : Env) (a cs : Status) :
    ((decUpdate e (.condition a) cs).2.1 = .success ↔ cs = a) ∧
    ((decUpdate e (.condition a) cs).2.1 = .running ↔ cs ≠ a) := by
  rw [C10_condition]; by_cases h : cs = a <;> simp [h]

/-! ### 4. Timeout -/

theorem C10_timeout_init (e : Env) (d fin : Int) : decInit e (.timeout d fin) = .timeout d (e.now + d) := rfl

/-- FAILURE and the child is cancelled exactly when the child is still RUNNING at a clock reading strictly later than
    the deadline; otherwise the child is mirrored (also on a late tick on which the child completes) -/
theorem C10_timeout_update (e : Env) (d fin : Int) (cs : Status) :
    decUpdate e (.timeout d fin) cs =
      if cs = .running ∧ e.now > fin then (.timeout d fin, .failure, true) else (.timeout d fin, cs, false) := rfl

theorem C10_timeout_cancel_iff (e : Env) (d fin : Int) (cs : Status) :
    (decUpdate e (.timeout d fin) cs).2.2 = true ↔ (cs = .running ∧ e.now > fin) := by
  rw [C10_timeout_update]; split <;> simp_all

/-- the deadline in force on a tick: set on entry (`now + duration`), kept while RUNNING -/
theorem C10_timeout_deadline (e : Env) (d fin0 : Int) (st : Status) :
    (if st ≠ .running then decInit e (.timeout d fin0) else .timeout d fin0) =
      .timeout d (if st ≠ .running then e.now + d else fin0) := by
  split <;> rfl

/-- **C10 (Timeout)**: through the tick. If after its tick the child is still RUNNING and the clock is past the deadline,
    the Timeout is FAILURE, the child has been interrupted (`stop(INVALID)`, hence all-INVALID for trees satisfying
    the invariant) and its terminate events are in the trace. -/
theorem C10_timeout_cancels (e : Env) (f : Nat) (w : Store) (i : Nat) (d fin0 fin : Int) (st : Status)
    (c n' c1 : Node) (w' w1 : Store) (tr trc : List Ev)
    (hfin : fin = if st ≠ .running then e.now + d else fin0)
    (h : tickF (f+1) e w (dec i (.timeout d fin0) st c) = .ok (n', w', tr))
    (hc : tickF f e w c = .ok (c1, w1, trc)) (hr : c1.status = .running) (hlate : e.now > fin) :
    n'.status = .failure ∧ n'.children = [(stopInv c1).1] ∧ w' = w1 ∧
    tr = [.enter i] ++ trc ++ (stopInv c1).2 ++ [.yld i .failure] ∧
    (Good c → WOK w → ValidEnv e → allInv (stopInv c1).1 = true) := by
  obtain ⟨c1', w1', trc', k0, k1, ns, cancel, hk0, h1, hu, hp, h3, h4⟩ :=
    C09_tick_result e f w i _ st c n' w' tr rfl h
  rw [hc] at h1
  simp only [Except.ok.injEq, Prod.mk.injEq] at h1
  obtain ⟨rfl, rfl, rfl⟩ := h1
  rw [C10_timeout_deadline, ← hfin] at hk0
  subst hk0
  rw [C10_timeout_update, if_pos ⟨hr, hlate⟩] at hu
  simp only [Prod.mk.injEq] at hu
  obtain ⟨rfl, rfl, rfl⟩ := hu
  simp only [true_or, ↓reduceIte] at h3 h4
  subst h3 h4
  refine ⟨rfl, rfl, ?_, by simp, ?_⟩
  · simpa [decPublish, pure, Except.pure] using hp.symm
  · intro hg hw he
    exact stopInv_allInv c1 (tickF_good e he f w c c1 w1 trc hw hg hc).1.1

/-- ... and otherwise (child completed, or not yet past the deadline) the Timeout mirrors the child and leaves it
    alone. `hv`: the child's tick answered a status (it always does under `ValidEnv`, `tickF_good`); a child answering
    INVALID would make the Timeout answer INVALID too and `Decorator.stop(INVALID)` stop the child once more. -/
theorem C10_timeout_mirrors (e : Env) (f : Nat) (w : Store) (i : Nat) (d fin0 fin : Int) (st : Status)
    (c n' c1 : Node) (w' w1 : Store) (tr trc : List Ev)
    (hfin : fin = if st ≠ .running then e.now + d else fin0)
    (h : tickF (f+1) e w (dec i (.timeout d fin0) st c) = .ok (n', w', tr))
    (hc : tickF f e w c = .ok (c1, w1, trc)) (hno : ¬ (c1.status = .running ∧ e.now > fin))
    (hv : c1.status ≠ .invalid) :
    n'.status = c1.status ∧ n'.children = [c1] ∧ w' = w1 ∧ tr = [.enter i] ++ trc ++ [.yld i c1.status] := by
  obtain ⟨c1', w1', trc', k0, k1, ns, cancel, hk0, h1, hu, hp, h3, h4⟩ :=
    C09_tick_result e f w i _ st c n' w' tr rfl h
  rw [hc] at h1
  simp only [Except.ok.injEq, Prod.mk.injEq] at h1
  obtain ⟨rfl, rfl, rfl⟩ := h1
  rw [C10_timeout_deadline, ← hfin] at hk0
  subst hk0
  rw [C10_timeout_update, if_neg hno] at hu
  simp only [Prod.mk.injEq] at hu
  obtain ⟨rfl, rfl, rfl⟩ := hu
  have hcond : ¬ (false = true ∨ (c1.status ≠ .running ∧ (c1.status = .invalid ∨ c1.status = .running))) := by
    intro hh; rcases hh with hh | ⟨hh1, hh2 | hh2⟩
    · cases hh
    · exact hv hh2
    · exact hh1 hh2
  rw [if_neg hcond] at h3 h4
  subst h3 h4
  refine ⟨rfl, rfl, ?_, by simp⟩
  simpa [decPublish, pure, Except.pure] using hp.symm

/-! ### 5. EternalGuard -/

/-- **C10 (EternalGuard, condition false)**: fails without ticking the child, interrupting it if RUNNING; the
    blackboard is untouched -/
theorem C10_guard_false (e : Env) (f : Nat) (w : Store) (i g : Nat) (st : Status) (c : Node)
    (hg : e.guard g = false) :
    tickF (f+1) e w (dec i (.guard g) st c) =
      .ok (dec i (.guard g) .failure (if c.status = .running then (stopInv c).1 else c), w,
           [.enter i] ++ (if c.status = .running then (stopInv c).2 else []) ++ [.yld i .failure]) := by
  simp only [tickF, hg, Bool.false_eq_true, ↓reduceIte, decBounce, decTerminate, pure, Except.pure]
  split <;> rfl

/-- ... so the trace contains no `enter` event other than the guard's own: the child is not ticked -/
theorem C10_guard_false_no_enter (e : Env) (f : Nat) (w : Store) (i g : Nat) (st : Status) (c n' : Node)
    (w' : Store) (tr : List Ev) (hg : e.guard g = false)
    (h : tickF (f+1) e w (dec i (.guard g) st c) = .ok (n', w', tr)) :
    ∀ ev ∈ tr, ∀ j, ev = .enter j → j = i := by
  rw [C10_guard_false e f w i g st c hg] at h
  simp only [Except.ok.injEq, Prod.mk.injEq] at h
  obtain ⟨_, _, rfl⟩ := h
  intro ev hev j hj
  simp only [List.mem_append, List.mem_singleton] at hev
  rcases hev with (hev | hev) | hev
  · rw [hev] at hj; cases hj; rfl
  · exact absurd hj (stopInv_no_enter c ev (mem_of_mem_ite_nil hev) j)
  · rw [hev] at hj; cases hj

/-- **C10 (EternalGuard, condition true)**: an ordinary decorator tick mirroring the child. The condition is a
    component of the `Env` of each tick, i.e. it is evaluated anew before every tick. -/
theorem C10_guard_true (e : Env) (f : Nat) (w : Store) (i g : Nat) (st : Status) (c : Node) (cs : Status)
    (hg : e.guard g = true) :
    tickF (f+1) e w (dec i (.guard g) st c) = decRun (tickF f e) e w i (.guard g) st c ∧
    (decUpdate e (.guard g) cs).2.1 = cs := by
  constructor
  · simp [tickF, hg]
  · rfl

/-! ### 6. OneShot -/

/-- **C10 (OneShot, latched)**: returns the latched status without ticking the child (interrupting it if RUNNING) -/
theorem C10_oneshot_latched (e : Env) (f : Nat) (w : Store) (i : Nat) (b : Bool) (s st : Status) (c : Node) :
    tickF (f+1) e w (dec i (.oneShot b (some s)) st c) =
      .ok (dec i (.oneShot b (some s)) s (if c.status = .running then (stopInv c).1 else c), w,
           [.enter i] ++ (if c.status = .running then (stopInv c).2 else []) ++ [.yld i s]) := by
  simp only [tickF, decBounce, decTerminate, pure, Except.pure, Option.isNone_some, Bool.false_and,
    Bool.false_eq_true, ↓reduceIte]
  split <;> rfl

theorem C10_oneshot_latched_no_enter (e : Env) (f : Nat) (w : Store) (i : Nat) (b : Bool) (s st : Status)
    (c n' : Node) (w' : Store) (tr : List Ev)
    (h : tickF (f+1) e w (dec i (.oneShot b (some s)) st c) = .ok (n', w', tr)) :
    ∀ ev ∈ tr, ∀ j, ev = .enter j → j = i := by
  rw [C10_oneshot_latched] at h
  simp only [Except.ok.injEq, Prod.mk.injEq] at h
  obtain ⟨_, _, rfl⟩ := h
  intro ev hev j hj
  simp only [List.mem_append, List.mem_singleton] at hev
  rcases hev with (hev | hev) | hev
  · rw [hev] at hj; cases hj; rfl
  · exact absurd hj (stopInv_no_enter c ev (mem_of_mem_ite_nil hev) j)
  · rw [hev] at hj; cases hj

/-- the latch is set by `terminate(s)` exactly for the statuses covered by the policy -/
theorem C10_oneshot_latches (b : Bool) (s : Status) :
    (decTerminate s (.oneShot b none) = .oneShot b (some s) ↔ (s = .success ∨ (b = true ∧ s = .failure))) ∧
    (¬ (s = .success ∨ (b = true ∧ s = .failure)) → decTerminate s (.oneShot b none) = .oneShot b none) := by
  cases s <;> cases b <;> simp [decTerminate]

/-- interruption neither sets nor clears the latch -/
theorem C10_oneshot_stop_keeps (b : Bool) (fin : Option Status) :
    decTerminate .invalid (.oneShot b fin) = .oneShot b fin := by
  cases fin <;> cases b <;> simp [decTerminate]

/-- nothing ever clears the latch -/
theorem C10_oneshot_latch_stable (e : Env) (b : Bool) (x s cs : Status) (fin : Option Status) :
    decTerminate s (.oneShot b (some x)) = .oneShot b (some x) ∧
    decInit e (.oneShot b fin) = .oneShot b fin ∧
    (decUpdate e (.oneShot b fin) cs).1 = .oneShot b fin := by
  refine ⟨by simp [decTerminate], rfl, rfl⟩

/-- an unlatched OneShot mirrors its child -/
theorem C10_oneshot_mirrors (e : Env) (b : Bool) (cs : Status) : (decUpdate e (.oneShot b none) cs).2.1 = cs := rfl

/-- **C10 (OneShot, unlatched)** through the tick: the child is ticked, its status mirrored, and the latch is set
    exactly when the child completed with a status covered by the policy -/
theorem C10_oneshot_tick (e : Env) (f : Nat) (w : Store) (i : Nat) (b : Bool) (st : Status) (c n' : Node)
    (w' : Store) (tr : List Ev) (h : tickF (f+1) e w (dec i (.oneShot b none) st c) = .ok (n', w', tr)) :
    ∃ c1 w1 trc c', tickF f e w c = .ok (c1, w1, trc) ∧
      n' = dec i (if c1.status = .success ∨ (b = true ∧ c1.status = .failure) then .oneShot b (some c1.status)
                  else .oneShot b none) c1.status c' := by
  obtain ⟨c1, w1, trc, k0, k1, ns, cancel, hk0, h1, hu, hp, h3, h4⟩ :=
    C09_tick_result e f w i _ st c n' w' tr rfl h
  have hk : k0 = .oneShot b none := by rw [hk0]; split <;> rfl
  subst hk
  simp only [decUpdate, Prod.mk.injEq] at hu
  obtain ⟨rfl, rfl, rfl⟩ := hu
  refine ⟨c1, w1, trc, (if false = true ∨ (c1.status ≠ .running ∧ (c1.status = .invalid ∨ c1.status = .running))
    then (stopInv c1).1 else c1), h1, ?_⟩
  rw [h3]
  congr 1
  cases hs : c1.status <;> cases b <;> simp [decTerminate]

/-- the latched status of a OneShot root -/
def latched : Node → Option Status
| .dec _ (.oneShot _ fin) _ _ => fin
| _ => none

/-- one history step on a latched OneShot root keeps it latched on the same status, and a tick returns that status -/
theorem C10_oneshot_step (i : Nat) (b : Bool) (s st : Status) (c : Node) (w : Store) (op : Op) (n' : Node)
    (w' : Store) (tr : List Ev) (h : step (dec i (.oneShot b (some s)) st c) w op = .ok (n', w', tr)) :
    (∃ st' c', n' = dec i (.oneShot b (some s)) st' c') ∧ (∀ e, op = .tick e → n'.status = s) := by
  cases op with
  | tick e =>
    simp only [step, tick, C10_oneshot_latched, Except.ok.injEq, Prod.mk.injEq] at h
    obtain ⟨rfl, _, _⟩ := h
    exact ⟨⟨_, _, rfl⟩, fun _ _ => rfl⟩
  | stop =>
    simp only [step, stopInv, C10_oneshot_stop_keeps, Except.ok.injEq, Prod.mk.injEq] at h
    obtain ⟨rfl, _, _⟩ := h
    exact ⟨⟨_, _, rfl⟩, fun _ hh => by cases hh⟩
  | poke k v =>
    cases v with
    | some v =>
      simp only [step, Except.ok.injEq, Prod.mk.injEq] at h
      obtain ⟨rfl, _, _⟩ := h
      exact ⟨⟨_, _, rfl⟩, fun _ hh => by cases hh⟩
    | none =>
      simp only [step, Except.ok.injEq, Prod.mk.injEq] at h
      obtain ⟨rfl, _, _⟩ := h
      exact ⟨⟨_, _, rfl⟩, fun _ hh => by cases hh⟩

/-- **C10 (OneShot, forever)**: once latched, the root stays latched on the same status through any history of
    ticks, interruptions and blackboard writes -/
theorem C10_oneshot_forever (i : Nat) (b : Bool) (s : Status) : ∀ (ops : List Op) (st : Status) (c : Node)
    (w : Store) (n' : Node) (w' : Store),
    run ops (dec i (.oneShot b (some s)) st c) w = .ok (n', w') → ∃ st' c', n' = dec i (.oneShot b (some s)) st' c'
| [], st, c, w, n', w', h => by
    simp only [run, Except.ok.injEq, Prod.mk.injEq] at h
    exact ⟨st, c, h.1.symm⟩
| op :: ops, st, c, w, n', w', h => by
    simp only [run] at h
    cases hs : step (dec i (.oneShot b (some s)) st c) w op with
    | error err => simp [hs] at h
    | ok v =>
      obtain ⟨n1, w1, tr⟩ := v
      simp only [hs] at h
      obtain ⟨⟨st1, c1, rfl⟩, _⟩ := C10_oneshot_step i b s st c w op n1 w1 tr hs
      exact C10_oneshot_forever i b s ops st1 c1 w1 n' w' h

/-- ... in terms of `latched`, and every tick of the history after latching reports the latched status -/
theorem C10_oneshot_forever_latched (i : Nat) (b : Bool) (s st : Status) (c : Node) (ops : List Op) (w : Store)
    (n' : Node) (w' : Store) (h : run ops (dec i (.oneShot b (some s)) st c) w = .ok (n', w')) :
    latched n' = some s ∧
    ∀ e n'' w'' tr, step n' w' (.tick e) = .ok (n'', w'', tr) → n''.status = s ∧ latched n'' = some s := by
  obtain ⟨st', c', rfl⟩ := C10_oneshot_forever i b s ops st c w n' w' h
  refine ⟨rfl, ?_⟩
  intro e n'' w'' tr hs
  obtain ⟨⟨st2, c2, rfl⟩, h2⟩ := C10_oneshot_step i b s st' c' w' (.tick e) n'' w'' tr hs
  exact ⟨h2 e rfl, rfl⟩

/-! ### 7. non-vacuity -/

def C10_env (o : Status) (t : Int) : Env := { outcome := fun _ => o, guard := fun _ => false, now := t }

def C10_retry : Node := .dec 1 (.retry 2 0) .invalid (.leaf 2 .invalid .probe [])
def C10_timeout : Node := .dec 1 (.timeout 1 0) .invalid (.leaf 2 .invalid .probe [])
def C10_oneshot : Node := .dec 1 (.oneShot false none) .invalid (.leaf 2 .invalid .probe [])
def C10_guard : Node := .dec 1 (.guard 7) .invalid (.leaf 2 .invalid .probe [])

def C10_view (r : Except Err (Node × Store)) : Option (Option DecKind × List (Nat × Status)) :=
  r.toOption.map (fun r => (C09_kind r.1, (nodes r.1).map (fun m => (m.id, m.status))))

example : isFresh C10_retry = true := by decide
/-- Retry 2 over a failing probe: tick 1 RUNNING, tick 2 FAILURE, re-entry restarts (RUNNING again) -/
example : C10_view (run [.tick (C10_env .failure 0)] C10_retry Store.empty) =
    some (some (.retry 2 1), [(1, .running), (2, .failure)]) := by decide
example : C10_view (run [.tick (C10_env .failure 0), .tick (C10_env .failure 0)] C10_retry Store.empty) =
    some (some (.retry 2 2), [(1, .failure), (2, .failure)]) := by decide
example : C10_view (run [.tick (C10_env .failure 0), .tick (C10_env .failure 0), .tick (C10_env .failure 0)]
    C10_retry Store.empty) = some (some (.retry 2 1), [(1, .running), (2, .failure)]) := by decide
example : (decFold (C10_env .failure 0) (.retry 2 0) [.failure, .failure]).2 = [.running, .failure] := by decide
example : (decFold (C10_env .failure 0) (.repeat_ 2 0) [.success, .running, .success]).2 =
    [.running, .running, .success] := by decide
example : occ .failure [.failure, .running] + 1 = 2 := by decide

/-- Timeout duration 1 entered at t=0 over a RUNNING probe: t=0,1 RUNNING, t=2 FAILURE with the child interrupted -/
example : C10_view (run [.tick (C10_env .running 0)] C10_timeout Store.empty) =
    some (some (.timeout 1 1), [(1, .running), (2, .running)]) := by decide
example : C10_view (run [.tick (C10_env .running 0), .tick (C10_env .running 1)] C10_timeout Store.empty) =
    some (some (.timeout 1 1), [(1, .running), (2, .running)]) := by decide
example : C10_view (run [.tick (C10_env .running 0), .tick (C10_env .running 1), .tick (C10_env .running 2)]
    C10_timeout Store.empty) = some (some (.timeout 1 1), [(1, .failure), (2, .invalid)]) := by decide
example : (run [.tick (C10_env .running 0), .tick (C10_env .running 1), .tick (C10_env .running 2)]
    C10_timeout Store.empty).toOption.map (fun r => leafLogs r.1) =
    some [(2, .invalid, [.init, .upd .running, .upd .running, .upd .running, .term .invalid])] := by decide
/-- a late tick on which the child completes mirrors it -/
example : C10_view (run [.tick (C10_env .running 0), .tick (C10_env .success 5)] C10_timeout Store.empty) =
    some (some (.timeout 1 1), [(1, .success), (2, .success)]) := by decide

/-- OneShot latched by a SUCCESS, across a stop, and not ticking the child afterwards -/
example : C10_view (run [.tick (C10_env .success 0)] C10_oneshot Store.empty) =
    some (some (.oneShot false (some .success)), [(1, .success), (2, .success)]) := by decide
example : C10_view (run [.tick (C10_env .success 0), .stop, .tick (C10_env .failure 1)] C10_oneshot Store.empty) =
    some (some (.oneShot false (some .success)), [(1, .success), (2, .invalid)]) := by decide
example : (run [.tick (C10_env .success 0), .stop, .tick (C10_env .failure 1)] C10_oneshot Store.empty).toOption.map
    (fun r => leafLogs r.1) = some [(2, .invalid, [.init, .upd .success, .term .success, .term .invalid])] := by
  decide
/-- a FAILURE does not latch a SUCCESS-only OneShot -/
example : C10_view (run [.tick (C10_env .failure 0)] C10_oneshot Store.empty) =
    some (some (.oneShot false none), [(1, .failure), (2, .failure)]) := by decide

/-- EternalGuard with a false condition: FAILURE, child never entered -/
example : (tick (C10_env .success 0) Store.empty C10_guard).toOption.map (fun r => r.2.2) =
    some [.enter 1, .yld 1 .failure] := by decide
