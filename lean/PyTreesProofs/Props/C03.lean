/-
  C03 — Sequence.

  "A Sequence ticks its children in order, starting at the first child (on fresh entry, or always when configured
  without memory) or at the child that was RUNNING on the previous tick (with memory), and stops at the first child
  that does not return SUCCESS, adopting that child's status; it returns SUCCESS exactly when every child returned
  SUCCESS, and an empty sequence succeeds.  On fresh entry all its children are reset to INVALID, children after the
  stopping point are not ticked in that tick (and, without memory, are interrupted if they were RUNNING), and children
  skipped thanks to memory are not re-ticked and keep their SUCCESS."

  Quantification: the loop theorems hold for an ARBITRARY child tick function `t`; the tick theorems hold for every
  fuel, environment, blackboard, and every sequence node (no invariant is assumed unless stated).
-/
import PyTreesProofs.Lemmas.NoInternal
import PyTreesProofs.Lemmas.Stop
set_option linter.unusedVariables false
set_option linter.unusedSimpArgs false
open Node

/-- **an empty sequence succeeds** (the hypothesis excludes only the state "RUNNING with memory and a remembered
    child" which an empty sequence cannot be in). -/
theorem C03_empty (f : Nat) (e : Env) (w : Store) (i : Nat) (m : Bool) (st : Status) (cur : Option Nat)
    (h : st ≠ .running ∨ cur = none) :
    ∃ tr, tickF (f+1) e w (seq i m st cur []) = .ok (seq i m .success none [], w, tr) := by
  by_cases hs : st = .running
  · have hc : cur = none := by
      rcases h with h | h
      · exact absurd hs h
      · exact h
    subst hc; subst hs
    cases m <;>
      simp [tickF, seqEntry, splitAtNonSuccess, bind, Except.bind, pure, Except.pure]
  · simp [tickF, seqEntry, hs, stopInvNonInvalid, bind, Except.bind, pure, Except.pure]

/-- **ticks in order and halts at the first child that does not return SUCCESS**: the children ticked before it all
    returned SUCCESS, and the children after it (`rest`) are literally the untouched suffix of the input. -/
theorem C03_loop_halts (t : Tick) :
    ∀ (cs : List Node) (w : Store) (done : List Node) (c' : Node) (rest : List Node) (w' : Store) (tr : List Ev),
      seqLoop t w cs = .ok (done, some (c', rest), w', tr) →
      (∀ x ∈ done, x.status = .success) ∧ c'.status ≠ .success ∧
      ∃ pre, cs = pre ++ rest ∧ pre.length = done.length + 1 := by
  intro cs
  induction cs with
  | nil => intro w done c' rest w' tr h; simp [seqLoop, pure, Except.pure] at h
  | cons c cs ih =>
    intro w done c' rest w' tr h
    simp only [seqLoop, bind, Except.bind] at h
    cases htc : t w c with
    | error e => simp [htc] at h
    | ok v =>
      obtain ⟨c1, w1, trc⟩ := v
      simp only [htc] at h
      by_cases hs : c1.status = .success
      · simp only [hs, ne_eq, not_true_eq_false, ↓reduceIte] at h
        cases hl : seqLoop t w1 cs with
        | error e => simp [hl] at h
        | ok v2 =>
          obtain ⟨done2, r2, w2, tr2⟩ := v2
          simp only [hl, pure, Except.pure, Except.ok.injEq, Prod.mk.injEq] at h
          obtain ⟨rfl, rfl, rfl, rfl⟩ := h
          obtain ⟨i1, i2, pre, i3, i4⟩ := ih w1 done2 c' rest w2 tr2 hl
          refine ⟨?_, i2, c :: pre, by simp [i3], by simp [i4]⟩
          intro x hx; simp only [List.mem_cons] at hx
          rcases hx with rfl | hx
          · exact hs
          · exact i1 x hx
      · simp only [hs, ne_eq, not_false_eq_true, ↓reduceIte, pure, Except.pure, Except.ok.injEq, Prod.mk.injEq,
          Option.some.injEq] at h
        obtain ⟨rfl, ⟨rfl, rfl⟩, rfl, rfl⟩ := h
        exact ⟨by simp, hs, [c], by simp, by simp⟩

/-- **the loop runs to the end only if every child returned SUCCESS** (and then every child was ticked). -/
theorem C03_loop_completes (t : Tick) :
    ∀ (cs : List Node) (w : Store) (done : List Node) (w' : Store) (tr : List Ev),
      seqLoop t w cs = .ok (done, none, w', tr) →
      (∀ x ∈ done, x.status = .success) ∧ done.length = cs.length := by
  intro cs
  induction cs with
  | nil =>
    intro w done w' tr h
    simp [seqLoop, pure, Except.pure] at h; obtain ⟨rfl, rfl, rfl⟩ := h; simp
  | cons c cs ih =>
    intro w done w' tr h
    simp only [seqLoop, bind, Except.bind] at h
    cases htc : t w c with
    | error e => simp [htc] at h
    | ok v =>
      obtain ⟨c1, w1, trc⟩ := v
      simp only [htc] at h
      by_cases hs : c1.status = .success
      · simp only [hs, ne_eq, not_true_eq_false, ↓reduceIte] at h
        cases hl : seqLoop t w1 cs with
        | error e => simp [hl] at h
        | ok v2 =>
          obtain ⟨done2, r2, w2, tr2⟩ := v2
          simp only [hl, pure, Except.pure, Except.ok.injEq, Prod.mk.injEq] at h
          obtain ⟨rfl, rfl, rfl, rfl⟩ := h
          obtain ⟨i1, i2⟩ := ih w1 done2 w2 tr2 hl
          refine ⟨?_, by simp [i2]⟩
          intro x hx; simp only [List.mem_cons] at hx
          rcases hx with rfl | hx
          · exact hs
          · exact i1 x hx
      · simp [hs, pure, Except.pure] at h

/-- **the children ticked are a contiguous block from the start, each once, in order** (for any child tick function
    that keeps ids). -/
theorem C03_loop_order (t : Tick) (ht : ∀ w c c' w' tr, t w c = .ok (c', w', tr) → c'.id = c.id) :
    ∀ (cs : List Node) (w : Store) (done : List Node) (r : Option (Node × List Node)) (w' : Store) (tr : List Ev),
      seqLoop t w cs = .ok (done, r, w', tr) →
      (done.map Node.id ++ (match r with | some (c', _) => [c'.id] | none => [])) =
        (cs.map Node.id).take (done.length + (match r with | some _ => 1 | none => 0)) := by
  intro cs
  induction cs with
  | nil =>
    intro w done r w' tr h
    simp [seqLoop, pure, Except.pure] at h; obtain ⟨rfl, rfl, rfl, rfl⟩ := h; simp
  | cons c cs ih =>
    intro w done r w' tr h
    simp only [seqLoop, bind, Except.bind] at h
    cases htc : t w c with
    | error e => simp [htc] at h
    | ok v =>
      obtain ⟨c1, w1, trc⟩ := v
      have hid := ht w c c1 w1 trc htc
      simp only [htc] at h
      by_cases hs : c1.status = .success
      · simp only [hs, ne_eq, not_true_eq_false, ↓reduceIte] at h
        cases hl : seqLoop t w1 cs with
        | error e => simp [hl] at h
        | ok v2 =>
          obtain ⟨done2, r2, w2, tr2⟩ := v2
          simp only [hl, pure, Except.pure, Except.ok.injEq, Prod.mk.injEq] at h
          obtain ⟨rfl, rfl, rfl, rfl⟩ := h
          have := ih w1 done2 r2 w2 tr2 hl
          cases r2 with
          | none =>
            simp only [List.append_nil, Nat.add_zero] at this
            simp only [List.map_cons, List.length_cons, List.append_nil, Nat.add_zero, hid, List.take_succ_cons,
              ← this]
          | some p =>
            simp only at this
            simp only [List.map_cons, List.length_cons, List.cons_append, hid]
            rw [show done2.length + 1 + 1 = (done2.length + 1) + 1 by omega, List.take_succ_cons, ← this]
      · simp only [hs, ne_eq, not_false_eq_true, ↓reduceIte, pure, Except.pure, Except.ok.injEq, Prod.mk.injEq] at h
        obtain ⟨rfl, rfl, rfl, rfl⟩ := h
        simp [hid]

/-- **fresh entry** (the sequence was not RUNNING): the tick starts at the first child, after every child that is not
    INVALID has been reset with stop(INVALID). -/
theorem C03_entry_fresh (st : Status) (m : Bool) (cur : Option Nat) (cs : List Node) (h : st ≠ .running) :
    seqEntry st m cur cs = .ok ([], (stopInvNonInvalid cs).1, (stopInvNonInvalid cs).2) := by
  simp [seqEntry, h, pure, Except.pure]

/-- … and after that reset **all children (and everything below them) are INVALID**. -/
theorem C03_entry_reset_all_invalid (cs : List Node) (h : wfL cs = true) :
    allInvL (stopInvNonInvalid cs).1 = true :=
  stopInvNonInvalid_allInvL cs h

/-- **with memory the tick resumes at the remembered (RUNNING) child**: the children are split, unchanged and without
    any reset event, into those before the remembered child and those from it on. -/
theorem C03_entry_memory (c : Nat) (cs a b : List Node) (trR : List Ev)
    (h : seqEntry .running true (some c) cs = .ok (a, b, trR)) :
    cs = a ++ b ∧ trR = [] ∧ (∀ x ∈ a, x.id ≠ c) ∧ ∃ x rest, b = x :: rest ∧ x.id = c := by
  simp only [seqEntry, ne_eq, not_true_eq_false, ↓reduceIte] at h
  cases hsp : splitAtId c cs with
  | none => simp [hsp, throw, throwThe, MonadExceptOf.throw] at h
  | some p =>
    obtain ⟨a', b'⟩ := p
    simp only [hsp, pure, Except.pure, Except.ok.injEq, Prod.mk.injEq] at h
    obtain ⟨rfl, rfl, rfl⟩ := h
    obtain ⟨e1, e2, e3⟩ := splitAtId_spec c cs _ _ hsp
    exact ⟨e1, rfl, e2, e3⟩

/-- **without memory a RUNNING sequence starts again at the first child**, nothing is reset on entry. -/
theorem C03_entry_no_memory (st : Status) (cur : Option Nat) (cs : List Node) (h : st = .running) :
    seqEntry st false cur cs = .ok ([], cs, []) := by
  simp [seqEntry, h, pure, Except.pure]

/-- **shape of one tick of a non-empty sequence**: entry, then the loop over the children from the starting point;
    the sequence adopts the status of the child it stopped at (SUCCESS if it stopped at none); the children skipped by
    memory (`before`) are carried over untouched; the children after the stopping point are carried over untouched
    with memory and are stop(INVALID)-ed (those that are not INVALID) without memory. -/
theorem C03_tick_shape (f : Nat) (e : Env) (w : Store) (i : Nat) (m : Bool) (st : Status) (cur : Option Nat)
    (cs : List Node) (n' : Node) (w' : Store) (tr : List Ev) (hne : cs ≠ [])
    (h : tickF (f+1) e w (seq i m st cur cs) = .ok (n', w', tr)) :
    ∃ before rest trR done r trL,
      seqEntry st m cur cs = .ok (before, rest, trR) ∧
      seqLoop (tickF f e) w rest = .ok (done, r, w', trL) ∧
      n'.id = i ∧
      (match r with
       | none => n'.status = .success ∧ n'.children = before ++ done ∧
                 tr = [.enter i] ++ trR ++ trL ++ [.yld i .success]
       | some (c', untouched) =>
           n'.status = c'.status ∧
           n'.children = before ++ done ++ c' :: (if m then untouched else (stopInvNonInvalid untouched).1) ∧
           tr = [.enter i] ++ trR ++ trL ++ (if m then [] else (stopInvNonInvalid untouched).2) ++
                [.yld i c'.status]) := by
  simp only [tickF, bind, Except.bind] at h
  cases he : seqEntry st m cur cs with
  | error x => simp [he] at h
  | ok v =>
    obtain ⟨before, rest, trR⟩ := v
    have hemp : cs.isEmpty = false := by cases cs with
      | nil => exact absurd rfl hne
      | cons a b => rfl
    simp only [he, hemp, Bool.false_eq_true, ↓reduceIte, seqRun, bind, Except.bind] at h
    cases hl : seqLoop (tickF f e) w rest with
    | error x => simp [hl] at h
    | ok v2 =>
      obtain ⟨done, r, w1, trL⟩ := v2
      simp only [hl] at h
      cases r with
      | none =>
        simp only [pure, Except.pure, Except.ok.injEq, Prod.mk.injEq] at h
        obtain ⟨rfl, rfl, rfl⟩ := h
        exact ⟨before, rest, trR, done, none, trL, rfl, hl, by simp [Node.id], by simp [status, children]⟩
      | some p =>
        obtain ⟨c', untouched⟩ := p
        cases m with
        | true =>
          simp only [↓reduceIte, pure, Except.pure, Except.ok.injEq, Prod.mk.injEq] at h
          obtain ⟨rfl, rfl, rfl⟩ := h
          exact ⟨before, rest, trR, done, some (c', untouched), trL, rfl, hl, by simp [Node.id],
            by simp [status, children]⟩
        | false =>
          simp only [Bool.false_eq_true, ↓reduceIte, pure, Except.pure, Except.ok.injEq, Prod.mk.injEq] at h
          obtain ⟨rfl, rfl, rfl⟩ := h
          exact ⟨before, rest, trR, done, some (c', untouched), trL, rfl, hl, by simp [Node.id],
            by simp [status, children]⟩

/-- **SUCCESS exactly when every child returned SUCCESS** — on fresh entry or without memory (every child is then
    ticked or killed in this tick, so "every child of the result is SUCCESS" is "every child returned SUCCESS"). -/
theorem C03_success_iff (f : Nat) (e : Env) (w : Store) (i : Nat) (m : Bool) (st : Status) (cur : Option Nat)
    (cs : List Node) (n' : Node) (w' : Store) (tr : List Ev) (hm : st ≠ .running ∨ m = false) (hne : cs ≠ [])
    (h : tickF (f+1) e w (seq i m st cur cs) = .ok (n', w', tr)) :
    (n'.status = .success ↔ ∀ c ∈ n'.children, c.status = .success) := by
  obtain ⟨before, rest, trR, done, r, trL, he, hl, _, hr⟩ := C03_tick_shape f e w i m st cur cs n' w' tr hne h
  have hb : before = [] := by
    by_cases hs : st = .running
    · have hmf : m = false := by
        rcases hm with hm | hm
        · exact absurd hs hm
        · exact hm
      subst hmf
      rw [C03_entry_no_memory st cur cs hs] at he
      simp only [Except.ok.injEq, Prod.mk.injEq] at he; exact he.1.symm
    · rw [C03_entry_fresh st m cur cs hs] at he
      simp only [Except.ok.injEq, Prod.mk.injEq] at he; exact he.1.symm
  subst hb
  cases r with
  | none =>
    simp only at hr
    obtain ⟨h1, h2, _⟩ := hr
    obtain ⟨d1, _⟩ := C03_loop_completes _ rest w done w' trL hl
    rw [h1, h2]; simpa using d1
  | some p =>
    obtain ⟨c', untouched⟩ := p
    simp only at hr
    obtain ⟨h1, h2, _⟩ := hr
    obtain ⟨_, d2, _⟩ := C03_loop_halts _ rest w done c' untouched w' trL hl
    rw [h1, h2]
    constructor
    · intro hs; exact absurd hs d2
    · intro hall; exact hall c' (by simp)

/-- **without memory the children after the stopping point are interrupted**: the tail that `C03_tick_shape` places
    after the stopping child when `m = false` is `(stopInvNonInvalid untouched).1`, and every node of it (the
    children and everything below them, in particular any that was RUNNING) is INVALID. -/
theorem C03_tail_interrupted (untouched : List Node) (h : wfL untouched = true) :
    allInvL (stopInvNonInvalid untouched).1 = true :=
  stopInvNonInvalid_allInvL untouched h

/-- the same, stated on the tick of a well-formed memoryless sequence: whenever the result is not SUCCESS the
    children are `done ++ c' :: tail` with `done` all SUCCESS, `c'` the child whose (non-SUCCESS) status is adopted,
    and every node of `tail` INVALID. -/
theorem C03_tail_interrupted_tick (f : Nat) (e : Env) (w : Store) (i : Nat) (st : Status) (cur : Option Nat)
    (cs : List Node) (n' : Node) (w' : Store) (tr : List Ev) (hw : wfL cs = true) (hne : cs ≠ [])
    (h : tickF (f+1) e w (seq i false st cur cs) = .ok (n', w', tr)) (hns : n'.status ≠ .success) :
    ∃ done c' tail, n'.children = done ++ c' :: tail ∧ (∀ x ∈ done, x.status = .success) ∧
      n'.status = c'.status ∧ allInvL tail = true := by
  obtain ⟨before, rest, trR, done, r, trL, he, hl, _, hr⟩ := C03_tick_shape f e w i false st cur cs n' w' tr hne h
  have hb : before = [] ∧ wfL rest = true := by
    by_cases hs : st = .running
    · rw [C03_entry_no_memory st cur cs hs] at he
      simp only [Except.ok.injEq, Prod.mk.injEq] at he
      obtain ⟨rfl, rfl, _⟩ := he; exact ⟨rfl, hw⟩
    · rw [C03_entry_fresh st false cur cs hs] at he
      simp only [Except.ok.injEq, Prod.mk.injEq] at he
      obtain ⟨rfl, rfl, _⟩ := he; exact ⟨rfl, stopInvNonInvalid_wfL cs hw⟩
  obtain ⟨rfl, hwr⟩ := hb
  cases r with
  | none => simp only at hr; exact absurd hr.1 hns
  | some p =>
    obtain ⟨c', untouched⟩ := p
    simp only [Bool.false_eq_true, ↓reduceIte, List.nil_append] at hr
    obtain ⟨h1, h2, _⟩ := hr
    obtain ⟨d1, _, pre, hpre, _⟩ := C03_loop_halts _ rest w done c' untouched w' trL hl
    rw [hpre, wfL_append] at hwr
    exact ⟨done, c', _, h2, d1, h1, stopInvNonInvalid_allInvL untouched hwr.2⟩

/-- **children skipped thanks to memory are not re-ticked and are kept as they are**: they appear unchanged as a
    prefix of the children after the tick (the loop, hence every child tick of this tick, runs over `b` only). -/
theorem C03_memory_skip_kept (f : Nat) (e : Env) (w : Store) (i c : Nat) (cs a b : List Node) (trR : List Ev)
    (n' : Node) (w' : Store) (tr : List Ev)
    (he : seqEntry .running true (some c) cs = .ok (a, b, trR))
    (h : tickF (f+1) e w (seq i true .running (some c) cs) = .ok (n', w', tr)) :
    ∃ done r trL l, seqLoop (tickF f e) w b = .ok (done, r, w', trL) ∧ n'.children = a ++ l ∧
      tr = [.enter i] ++ trL ++ [.yld i n'.status] := by
  obtain ⟨e1, e2, _, x, rest', e3, _⟩ := C03_entry_memory c cs a b trR he
  have hne : cs ≠ [] := by rw [e1, e3]; simp
  obtain ⟨before, rest, trR', done, r, trL, he', hl, _, hr⟩ :=
    C03_tick_shape f e w i true .running (some c) cs n' w' tr hne h
  rw [he] at he'
  simp only [Except.ok.injEq, Prod.mk.injEq] at he'
  obtain ⟨rfl, rfl, rfl⟩ := he'
  subst e2
  cases r with
  | none =>
    simp only at hr
    exact ⟨done, none, trL, done, hl, hr.2.1, by rw [hr.1, hr.2.2]; simp⟩
  | some p =>
    obtain ⟨c', untouched⟩ := p
    simp only [↓reduceIte] at hr
    exact ⟨done, some (c', untouched), trL, done ++ c' :: untouched, hl, by rw [hr.2.1]; simp,
      by rw [hr.1, hr.2.2]; simp⟩

/-! ### non-vacuity: a 3-child memory sequence over probe leaves -/

def C03_example : Node :=
  .seq 1 true .invalid none [.leaf 2 .invalid .probe [], .leaf 3 .invalid .probe [], .leaf 4 .invalid .probe []]

def C03_env (o2 o3 o4 : Status) : Env :=
  { outcome := fun i => if i = 2 then o2 else if i = 3 then o3 else o4, guard := fun _ => true, now := 0 }

/-- statuses (pre-order) and trace of the last of a series of ticks -/
def C03_view : List Env → Node → Store → Option (List (Nat × Status) × List Ev)
| [], _, _ => none
| [e], n, w => match tick e w n with
    | .ok (n', _, tr) => some ((nodes n').map (fun m => (m.id, m.status)), tr)
    | .error _ => none
| e :: es, n, w => match tick e w n with
    | .ok (n', w', _) => C03_view es n' w'
    | .error _ => none

example : isFresh C03_example = true := by decide
example : wfL C03_example.children = true := by decide
-- tick 1: (S, R, _): child 4 is not ticked
example : C03_view [C03_env .success .running .failure] C03_example Store.empty =
    some ([(1, .running), (2, .success), (3, .running), (4, .invalid)],
      [.enter 1, .enter 2, .init 2, .upd 2 .success, .term 2 .success, .yld 2 .success,
       .enter 3, .init 3, .upd 3 .running, .yld 3 .running, .yld 1 .running]) := by decide
-- tick 2 resumes at child 3: no `enter 2`, child 2 keeps its SUCCESS (although its probe would now fail)
example : C03_view [C03_env .success .running .failure, C03_env .failure .success .running] C03_example Store.empty =
    some ([(1, .running), (2, .success), (3, .success), (4, .running)],
      [.enter 1, .enter 3, .upd 3 .success, .term 3 .success, .yld 3 .success,
       .enter 4, .init 4, .upd 4 .running, .yld 4 .running, .yld 1 .running]) := by decide
-- FAILURE, then re-entry: the children are reset (here the new tick starts from child 2 again and child 4, which
-- showed FAILURE, is INVALID)
example : C03_view [C03_env .success .success .failure] C03_example Store.empty =
    some ([(1, .failure), (2, .success), (3, .success), (4, .failure)],
      [.enter 1, .enter 2, .init 2, .upd 2 .success, .term 2 .success, .yld 2 .success,
       .enter 3, .init 3, .upd 3 .success, .term 3 .success, .yld 3 .success,
       .enter 4, .init 4, .upd 4 .failure, .term 4 .failure, .yld 4 .failure, .yld 1 .failure]) := by decide
example : C03_view [C03_env .success .success .failure, C03_env .running .success .success] C03_example Store.empty =
    some ([(1, .running), (2, .running), (3, .invalid), (4, .invalid)],
      [.enter 1, .term 2 .invalid, .term 3 .invalid, .term 4 .invalid,
       .enter 2, .init 2, .upd 2 .running, .yld 2 .running, .yld 1 .running]) := by decide
-- the hypotheses of the entry theorems are satisfiable
example : seqEntry .running true (some 3)
    [.leaf 2 .success .probe [], .leaf 3 .running .probe [], .leaf 4 .invalid .probe []] =
    .ok ([.leaf 2 .success .probe []], [.leaf 3 .running .probe [], .leaf 4 .invalid .probe []], []) := by rfl
-- without memory a RUNNING tail is interrupted when an earlier child stops the sequence
def C03_example_nomem : Node :=
  .seq 1 false .invalid none [.leaf 2 .invalid .probe [], .leaf 3 .invalid .probe []]
example : C03_view [C03_env .success .running .failure, C03_env .running .running .failure] C03_example_nomem
    Store.empty =
    some ([(1, .running), (2, .running), (3, .invalid)],
      [.enter 1, .enter 2, .init 2, .upd 2 .running, .yld 2 .running, .term 3 .invalid, .yld 1 .running]) := by decide
