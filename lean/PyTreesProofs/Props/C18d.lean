/-
  C18d — the idiom CONSTRUCTORS: closing the gap the two whole-idiom developments (C18b, C18c) left open.

  C18b / C18c prove the history theorems `C18_pickup_history`, `C18_eo_history`, `C18_eo_history_exclusive` for every
  instance satisfying the side conditions `C18b.PickUpOK` / `C18c.EitherOrOK`, and show that the trees built by
  `Idioms.renumber (Idioms.pickUp tasks)` / `Idioms.renumber (Idioms.eitherOr conds subtrees ns)` are instances
  (`C18_pickup_isPickUp`, `C18_eo_isEitherOr`).  What was missing: "the ids `Idioms.renumber` assigns are pairwise
  distinct" (a clause of both side conditions, so far only checked by `decide` on concrete instances) and "renumbering a
  blackboard-free subtree keeps it blackboard-free".  Both are proved here in general, so the history theorems apply to
  EVERY idiom the constructors build; no hypothesis about ids remains.

  Theorems (all top level):
   1. `renum_ids` (= `C18_renum_ids`): `Idioms.renum k n` numbers the nodes `k, k+1, …, k + size n - 1` in pre-order
      (the order of `Node.nodes`) and returns `k + size n` as the next free id (`C18d.size` = number of nodes,
      `C18d.size_eq_length`).  Corollaries: `C18_renumber_ids` (ids of `renumber n` are `1 … #nodes`),
      `C18_renumber_ids_nodup`, `C18_renumber_nodup_nodes` (the hypothesis `hu` of `C03_memory_skipped_not_reticked` /
      `C04_memory_skipped_not_reticked`, for `n = renumber m`), `C18_renumber_skel_ids_nodup` (the form `PickUpOK` /
      `EitherOrOK` use), and `C18_renumber_isFresh`: a constructor-built tree (everything INVALID, nothing remembered,
      sane parameters, ids arbitrary — `C18d.freshModIds`) is `isFresh` after renumbering (the hypothesis `hf` of the
      same two theorems and of `reachable_good`).
   2. `C18_pickup_ok`: blackboard-free tasks + pairwise distinct flags ⇒ `PickUpOK` for exactly the slots / clearing ids
      / root id that `C18_pickup_isPickUp` exhibits.  `C18_pickup_constructor_history`: the conclusion of
      `C18_pickup_history` for every task list, every store, every history that does not poke the flags.
   3. `C18_eo_ok`, `C18_eo_constructor_history`, `C18_eo_constructor_history_exclusive`,
      `C18_eo_constructor_history_two` (two options: `Exclusive` is automatic).  The flag keys `ns/1 … ns/n` are pairwise
      distinct by `C18.eoKeys_nodup` (decimal representation is injective), so that is no hypothesis.

  Hypotheses that remain, and why:
   * pick_up: the flags `rootKey (slug name ++ "_done")` must be pairwise distinct.  This is a real condition on the
     task NAMES: `slug` identifies "Task A" and "task_a", and `rootKey` identifies "/a" and "a" (kernel-checked below).
   * either_or: equal lengths, at least two options, and no condition reads one of the flag keys `ns/(i+1)`.
   * both: the task subtrees are blackboard-free (`C18b.noBB`) — the frame condition of C18b.
-/
import PyTreesProofs.Props.C18c
set_option linter.unusedVariables false
set_option linter.unusedSimpArgs false
open Node

namespace C18d
open C18b C18c

/-! ## 1. `renum` numbers consecutively, in pre-order -/

mutual
/-- number of nodes of a tree -/
def size : Node → Nat
| leaf _ _ _ _ => 1
| seq _ _ _ _ cs => sizeL cs + 1
| sel _ _ _ _ cs => sizeL cs + 1
| par _ _ _ _ cs => sizeL cs + 1
| dec _ _ _ c => size c + 1
def sizeL : List Node → Nat
| [] => 0
| c :: cs => size c + sizeL cs
end

mutual
theorem size_eq_length : ∀ n : Node, size n = (nodes n).length
| leaf _ _ _ _ => by simp [size, nodes]
| seq _ _ _ _ cs => by simp [size, nodes, sizeL_eq_length cs]
| sel _ _ _ _ cs => by simp [size, nodes, sizeL_eq_length cs]
| par _ _ _ _ cs => by simp [size, nodes, sizeL_eq_length cs]
| dec _ _ _ c => by simp [size, nodes, size_eq_length c]
theorem sizeL_eq_length : ∀ cs : List Node, sizeL cs = (nodesL cs).length
| [] => by simp [sizeL, nodesL]
| c :: cs => by simp [sizeL, nodesL, size_eq_length c, sizeL_eq_length cs]
end

theorem range'_cons (k m : Nat) : k :: List.range' (k + 1) m = List.range' k (m + 1) := by
  simp [List.range'_succ]

theorem range'_app (k a b : Nat) : List.range' k a ++ List.range' (k + a) b = List.range' k (a + b) := by
  simp [List.range'_append (s := k) (m := a) (n := b) (step := 1)]

mutual
theorem renum_spec : ∀ (n : Node) (k : Nat),
    (nodes (Idioms.renum k n).1).map Node.id = List.range' k (size n) ∧ (Idioms.renum k n).2.1 = k + size n
| leaf i s kd l, k => by simp [Idioms.renum, nodes, size, Node.id]
| seq i m s c cs, k => by
    obtain ⟨h1, h2⟩ := renumL_spec cs (k + 1)
    simp only [Idioms.renum, nodes, size, List.map_cons, Node.id, h1, h2]
    exact ⟨range'_cons k _, by omega⟩
| sel i m s c cs, k => by
    obtain ⟨h1, h2⟩ := renumL_spec cs (k + 1)
    simp only [Idioms.renum, nodes, size, List.map_cons, Node.id, h1, h2]
    exact ⟨range'_cons k _, by omega⟩
| par i p s c cs, k => by
    obtain ⟨h1, h2⟩ := renumL_spec cs (k + 1)
    simp only [Idioms.renum, nodes, size, List.map_cons, Node.id, h1, h2]
    exact ⟨range'_cons k _, by omega⟩
| dec i kd s c, k => by
    obtain ⟨h1, h2⟩ := renum_spec c (k + 1)
    simp only [Idioms.renum, nodes, size, List.map_cons, Node.id, h1, h2]
    exact ⟨range'_cons k _, by omega⟩
theorem renumL_spec : ∀ (cs : List Node) (k : Nat),
    (nodesL (Idioms.renumL k cs).1).map Node.id = List.range' k (sizeL cs) ∧ (Idioms.renumL k cs).2.1 = k + sizeL cs
| [], k => by simp [Idioms.renumL, nodesL, sizeL]
| c :: cs, k => by
    obtain ⟨h1, h2⟩ := renum_spec c k
    obtain ⟨h3, h4⟩ := renumL_spec cs (Idioms.renum k c).2.1
    simp only [Idioms.renumL, nodesL, sizeL, List.map_append, h1, h3, h4]
    rw [h2]
    exact ⟨range'_app k _ _, by omega⟩
end

/-! ### renumbering keeps a subtree blackboard-free -/

mutual
theorem renum_noBB : ∀ (n : Node) (k : Nat), noBB (Idioms.renum k n).1 = noBB n
| leaf i s kd l, k => by simp [Idioms.renum, noBB_leaf]
| seq i m s c cs, k => by simp [Idioms.renum, noBB_seq, renumL_noBB cs]
| sel i m s c cs, k => by simp [Idioms.renum, noBB_sel, renumL_noBB cs]
| par i p s c cs, k => by simp [Idioms.renum, noBB_par, renumL_noBB cs]
| dec i kd s c, k => by
    simp only [Idioms.renum, noBB_dec, renum_noBB c]
    cases kd <;> rfl
theorem renumL_noBB : ∀ (cs : List Node) (k : Nat), noBBL (Idioms.renumL k cs).1 = noBBL cs
| [], k => by simp [Idioms.renumL]
| c :: cs, k => by simp [Idioms.renumL, noBBL_cons, renum_noBB c, renumL_noBB cs]
end

/-! ### renumbering a constructor-built tree gives a fresh tree -/

mutual
/-- `isFresh` without the "sibling ids pairwise distinct" clause: what a tree built by the constructors (all ids 0)
    satisfies before renumbering -/
def freshModIds : Node → Bool
| leaf _ s k log => s == .invalid && log.isEmpty && leafOK k
| seq _ _ s cur cs => s == .invalid && cur.isNone && freshModIdsL cs
| sel _ _ s cur cs => s == .invalid && cur.isNone && freshModIdsL cs
| par _ _ s cur cs => s == .invalid && cur.isNone && freshModIdsL cs
| dec _ k s c => s == .invalid && decOK k && freshModIds c
def freshModIdsL : List Node → Bool
| [] => true
| c :: cs => freshModIds c && freshModIdsL cs
end

theorem head_id_nodes (c : Node) : ∃ l, (nodes c).map Node.id = c.id :: l := by
  cases c <;> simp [nodes, Node.id]

/-- the ids of the children are a sublist of the ids of all nodes below -/
theorem childIds_sublist : ∀ cs : List Node, (cs.map Node.id).Sublist ((nodesL cs).map Node.id)
| [] => by simp [nodesL]
| c :: cs => by
    obtain ⟨l, hl⟩ := head_id_nodes c
    simp only [nodesL, List.map_cons, List.map_append, hl, List.cons_append]
    exact List.Sublist.cons_cons _ ((childIds_sublist cs).trans (List.sublist_append_right _ _))

theorem renumL_childIds_nodup (cs : List Node) (k : Nat) : (((Idioms.renumL k cs).1).map Node.id).Nodup := by
  have h := (renumL_spec cs k).1
  exact ((childIds_sublist _).nodup (h ▸ List.nodup_range'))

mutual
theorem renum_isFresh : ∀ (n : Node) (k : Nat), freshModIds n = true → isFresh (Idioms.renum k n).1 = true
| leaf i s kd l, k, h => by simpa [Idioms.renum, isFresh, freshModIds] using h
| seq i m s c cs, k, h => by
    simp only [freshModIds, Bool.and_eq_true] at h
    simp only [Idioms.renum, isFresh, Bool.and_eq_true, decide_eq_true_eq]
    exact ⟨⟨h.1, renumL_isFresh cs _ h.2⟩, renumL_childIds_nodup cs _⟩
| sel i m s c cs, k, h => by
    simp only [freshModIds, Bool.and_eq_true] at h
    simp only [Idioms.renum, isFresh, Bool.and_eq_true, decide_eq_true_eq]
    exact ⟨⟨h.1, renumL_isFresh cs _ h.2⟩, renumL_childIds_nodup cs _⟩
| par i p s c cs, k, h => by
    simp only [freshModIds, Bool.and_eq_true] at h
    simp only [Idioms.renum, isFresh, Bool.and_eq_true, decide_eq_true_eq]
    exact ⟨⟨h.1, renumL_isFresh cs _ h.2⟩, renumL_childIds_nodup cs _⟩
| dec i kd s c, k, h => by
    simp only [freshModIds, Bool.and_eq_true] at h
    simp only [Idioms.renum, isFresh, Bool.and_eq_true]
    refine ⟨⟨h.1.1, ?_⟩, renum_isFresh c _ h.2⟩
    have := h.1.2
    cases kd <;> first | exact this | rfl
theorem renumL_isFresh : ∀ (cs : List Node) (k : Nat), freshModIdsL cs = true → isFreshL (Idioms.renumL k cs).1 = true
| [], k, _ => by simp [Idioms.renumL, isFreshL]
| c :: cs, k, h => by
    simp only [freshModIdsL, Bool.and_eq_true] at h
    simp only [Idioms.renumL, isFreshL, Bool.and_eq_true]
    exact ⟨renum_isFresh c _ h.1, renumL_isFresh cs _ h.2⟩
end

end C18d

/-- **1. renumbering assigns consecutive ids in pre-order**: the ids of `(renum k n).1`, listed in the order of
    `Node.nodes`, are `k, k+1, …, k + size n - 1`, and the next free id returned is `k + size n`. -/
theorem renum_ids (k : Nat) (n : Node) :
    (nodes (Idioms.renum k n).1).map Node.id = List.range' k (C18d.size n) ∧
    (Idioms.renum k n).2.1 = k + C18d.size n := C18d.renum_spec n k

/-- the same under a `C18_` name (for the audit script) -/
theorem C18_renum_ids (k : Nat) (n : Node) :
    (nodes (Idioms.renum k n).1).map Node.id = List.range' k (C18d.size n) ∧
    (Idioms.renum k n).2.1 = k + C18d.size n := renum_ids k n

/-- the ids of a renumbered tree are `1, 2, …, #nodes`, in pre-order -/
theorem C18_renumber_ids (n : Node) :
    (nodes (Idioms.renumber n)).map Node.id = List.range' 1 (nodes n).length := by
  rw [← C18d.size_eq_length]; exact (renum_ids 1 n).1

/-- **the ids `Idioms.renumber` assigns are pairwise distinct**, for every tree -/
theorem C18_renumber_ids_nodup (n : Node) : ((nodes (Idioms.renumber n)).map Node.id).Nodup := by
  rw [C18_renumber_ids]; exact List.nodup_range'

/-- the globally-distinct-ids hypothesis `hu` of `C03_memory_skipped_not_reticked` / `C04_memory_skipped_not_reticked`
    holds for every renumbered tree -/
theorem C18_renumber_nodup_nodes (n m : Node) (h : n = Idioms.renumber m) : ((nodes n).map Node.id).Nodup := by
  subst h; exact C18_renumber_ids_nodup m

/-- the same for the id list of the skeleton (the form `PickUpOK` / `EitherOrOK` use) -/
theorem C18_renumber_skel_ids_nodup (n : Node) : (skel (Idioms.renumber n)).ids.Nodup := by
  rw [← nodes_ids]; exact C18_renumber_ids_nodup n

/-- a constructor-built tree (everything INVALID, nothing remembered, empty logs, sane parameters; ids arbitrary, e.g.
    all 0) is `isFresh` once renumbered: the hypothesis `hf` of `reachable_good` and of the C03b / C04b theorems -/
theorem C18_renumber_isFresh (m : Node) (h : C18d.freshModIds m = true) : isFresh (Idioms.renumber m) = true :=
  C18d.renum_isFresh m 1 h

namespace C18d
open C18b C18c

/-! ## 2./3. the side conditions of the two idioms, for the constructors -/

/-- the outside world does not write or remove the listed blackboard keys -/
def PokesAvoid (keys : List String) : Op → Prop
| .poke k _ => k ∉ keys
| _ => True

/-- the slots of the renumbered `pick_up_where_you_left_off` idiom (root id 1), as in `C18_pickup_isPickUp` -/
abbrev puSlots (tasks : List (String × Node)) : List Slot := (slotsOf 2 tasks).1
/-- the ids of its clearing leaves -/
abbrev puClearIds (tasks : List (String × Node)) : List Nat := List.range' (slotsOf 2 tasks).2 tasks.length
/-- its flags, as `Idioms.pickUp` computes them (`C18.puFlag`) -/
abbrev puFlags (tasks : List (String × Node)) : List String :=
  tasks.map (fun p => Idioms.rootKey (Idioms.slug p.1 ++ "_done"))

theorem puSlots_flags (tasks : List (String × Node)) : (puSlots tasks).map Slot.flag = puFlags tasks :=
  slotsOf_flags tasks 2

theorem slotsOf_noBB : ∀ (ts : List (String × Node)) (k : Nat), (∀ t ∈ ts, noBB t.2 = true) →
    ∀ sl ∈ (slotsOf k ts).1, noBB sl.task = true
| [], k, _, sl, h => by simp [slotsOf] at h
| (nm, t) :: ts, k, hbb, sl, h => by
    simp only [slotsOf, List.mem_cons] at h
    rcases h with rfl | h
    · simp only [renum_noBB]; exact hbb (nm, t) (by simp)
    · exact slotsOf_noBB ts _ (fun t ht => hbb t (by simp [ht])) sl h

theorem slotsOf_length (ts : List (String × Node)) (k : Nat) : (slotsOf k ts).1.length = ts.length := by
  have := congrArg List.length (slotsOf_flags ts k)
  simpa using this

theorem pu_opOK (tasks : List (String × Node)) (op : Op) (h : PokesAvoid (puFlags tasks) op) :
    C18b.OpOK (puSlots tasks) op := by
  cases op with
  | poke k v =>
    intro sl hsl heq
    apply h
    rw [← puSlots_flags, heq]
    exact List.mem_map_of_mem hsl
  | tick e => trivial
  | stop => trivial

/-- the options of the renumbered `either_or` idiom (root 1, XOR leaf 2, chooser 3), as in `C18_eo_isEitherOr` -/
abbrev eoOpts (conds : List Check) (subtrees : List Node) (ns : String) : List Opt :=
  (optsOf 4 ((C18.eoKeys conds.length ns).zip subtrees)).1

theorem optsOf_noBB : ∀ (ps : List (String × Node)) (k : Nat), (∀ p ∈ ps, noBB p.2 = true) →
    ∀ o ∈ (optsOf k ps).1, noBB o.task = true
| [], k, _, o, h => by simp [optsOf] at h
| (fl, t) :: ps, k, hbb, o, h => by
    simp only [optsOf, List.mem_cons] at h
    rcases h with rfl | h
    · simp only [renum_noBB]; exact hbb (fl, t) (by simp)
    · exact optsOf_noBB ps _ (fun p hp => hbb p (by simp [hp])) o h

theorem eo_opOK (conds : List Check) (subtrees : List Node) (ns : String) (hlen : conds.length = subtrees.length)
    (op : Op) (h : PokesAvoid (C18.eoKeys conds.length ns) op) : C18c.OpOK (eoOpts conds subtrees ns) op := by
  cases op with
  | poke k v =>
    intro o ho heq
    apply h
    rw [← (C18_eo_isEitherOr conds subtrees ns hlen).2.1, heq]
    exact List.mem_map_of_mem ho
  | tick e => trivial
  | stop => trivial

end C18d

/-! ## 2. pick_up_where_you_left_off -/

/-- **2a.** For EVERY task list with blackboard-free tasks and pairwise distinct flags, the renumbered idiom satisfies
    the side conditions `PickUpOK` — for exactly the slots, clearing ids and root id of `C18_pickup_isPickUp`.
    (`C18d.puFlags tasks` is `tasks.map (fun p => C18.puFlag p.1)`.) -/
theorem C18_pickup_ok (tasks : List (String × Node)) (hbb : ∀ t ∈ tasks, C18b.noBB t.2 = true)
    (hflags : (C18d.puFlags tasks).Nodup) :
    C18b.PickUpOK (C18b.slotsOf 2 tasks).1 (List.range' (C18b.slotsOf 2 tasks).2 tasks.length) 1 := by
  obtain ⟨hp, hfl, _, _⟩ := C18_pickup_isPickUp tasks
  refine ⟨C18d.slotsOf_noBB tasks 2 hbb, by rw [hfl]; exact hflags, ?_, ?_⟩
  · rw [← (C18b.isPickUp_iff_skel _ _ _ _).mp hp]
    exact C18_renumber_skel_ids_nodup _
  · rw [List.length_range', C18d.slotsOf_length]

/-- **2b. the history statement for the constructor**: no hypothesis about ids, shape or invariant remains.  For every
    task list (blackboard-free tasks, distinct flags), every initial blackboard `w` and every history `ops` of ticks
    (arbitrary environments), root interrupts and pokes of variables other than the flags, from the freshly built
    idiom: the state reached is an instance satisfying the invariant, and for EVERY next tick from it
    * no task whose flag is set is entered — however often the idiom was interrupted;
    * tasks run strictly in order;
    * root not SUCCESS ⇒ set flags stay set and nothing but flags changes on the blackboard;
    * root SUCCESS ⇒ every slot node is SUCCESS and all flags are removed: the next round starts afresh. -/
theorem C18_pickup_constructor_history (tasks : List (String × Node))
    (hbb : ∀ t ∈ tasks, C18b.noBB t.2 = true) (hflags : (C18d.puFlags tasks).Nodup)
    (ops : List Op) (w : Store) (hops : ∀ op ∈ ops, C18d.PokesAvoid (C18d.puFlags tasks) op)
    (n1 : Node) (w1 : Store) (hrun : run ops (Idioms.renumber (Idioms.pickUp tasks)) w = .ok (n1, w1)) :
    C18b.IsPickUp (C18d.puSlots tasks) (C18d.puClearIds tasks) 1 n1 ∧ C18b.PUInv (C18d.puSlots tasks) w1 n1 ∧
    ∀ (e : Env) (n2 : Node) (w2 : Store) (tr : List Ev), tick e w1 n1 = .ok (n2, w2, tr) →
      C18b.IsPickUp (C18d.puSlots tasks) (C18d.puClearIds tasks) 1 n2 ∧ C18b.PUInv (C18d.puSlots tasks) w2 n2 ∧
      (∀ sl ∈ C18d.puSlots tasks, C18b.flagOn w1 sl.flag → ∀ ev ∈ tr, ev ≠ .enter sl.task.id) ∧
      (n2.status ≠ .success →
        (∀ a sl b, C18d.puSlots tasks = a ++ sl :: b → Ev.enter sl.task.id ∈ tr → ∀ y ∈ a, C18b.flagOn w2 y.flag) ∧
        (∀ sl ∈ C18d.puSlots tasks, C18b.flagOn w1 sl.flag → C18b.flagOn w2 sl.flag) ∧
        (∀ k, k ∉ C18d.puFlags tasks → w2 k = w1 k)) ∧
      (n2.status = .success →
        (∀ sl ∈ C18d.puSlots tasks, w2 sl.flag = none) ∧ (∀ c ∈ n2.children, c.status = .success) ∧
        (∀ k, k ∉ C18d.puFlags tasks → w2 k = w1 k)) := by
  have h := C18_pickup_history (C18d.puSlots tasks) (C18d.puClearIds tasks) 1 (C18_pickup_ok tasks hbb hflags) ops
    (Idioms.renumber (Idioms.pickUp tasks)) w (C18_pickup_isPickUp tasks).1 (C18_pickup_isPickUp_inv tasks w)
    (fun op hop => C18d.pu_opOK tasks op (hops op hop)) n1 w1 hrun
  rw [C18d.puSlots_flags] at h
  exact h

/-! ## 3. either_or -/

/-- **3a.** For ALL condition / subtree lists of equal length ≥ 2 with blackboard-free subtrees whose conditions do not
    read the flag keys `ns/(i+1)`, the renumbered idiom satisfies the side conditions `EitherOrOK` — for exactly the
    options and ids of `C18_eo_isEitherOr`.  (Distinct flag keys: `C18.eoKeys_nodup`; distinct ids: part 1.) -/
theorem C18_eo_ok (conds : List Check) (subtrees : List Node) (ns : String)
    (hlen : conds.length = subtrees.length) (h2 : 2 ≤ subtrees.length)
    (hbb : ∀ t ∈ subtrees, C18b.noBB t = true)
    (hkeys : ∀ c ∈ conds, ∀ i, i < conds.length → c.key ≠ ns ++ "/" ++ toString (i + 1)) :
    C18c.EitherOrOK conds (C18c.optsOf 4 ((C18.eoKeys conds.length ns).zip subtrees)).1 1 2 3 := by
  obtain ⟨hp, hfl, hnd, hl, _, _, _⟩ := C18_eo_isEitherOr conds subtrees ns hlen
  refine ⟨?_, hnd, hl, by omega, ?_, ?_⟩
  · apply C18d.optsOf_noBB
    intro p hp
    exact hbb p.2 (List.of_mem_zip hp).2
  · rw [← (C18c.isEitherOr_iff_skel _ _ _ _ _ _).mp hp]
    exact C18_renumber_skel_ids_nodup _
  · intro c hc hmem
    rw [hfl] at hmem
    simp only [C18.eoKeys, List.mem_map, List.mem_range] at hmem
    obtain ⟨i, hi, heq⟩ := hmem
    exact hkeys c hc i hi heq.symm

/-- **3b. the history statement for the constructor** (conclusion of `C18_eo_history`, root 1, XOR leaf 2): after ANY
    history of ticks, interrupts and pokes of ANY variable from the freshly built idiom and any blackboard, the next
    tick is of one of the two kinds:
    * idiom not RUNNING: the XOR leaf (2) is evaluated; a missing condition variable or an even number of true
      conditions ⇒ FAILURE, no subtree ticked; exactly condition `j` true ⇒ exactly subtree `j` ticked and mirrored; the
      flags are rewritten to the verdicts and nothing else changes;
    * idiom RUNNING at option `oj`: the XOR leaf is NOT re-evaluated, the blackboard is untouched, `oj`'s guard is not
      re-entered, a subtree is entered only if it is `oj`'s or its flag is set. -/
theorem C18_eo_constructor_history (conds : List Check) (subtrees : List Node) (ns : String)
    (hlen : conds.length = subtrees.length) (h2 : 2 ≤ subtrees.length)
    (hbb : ∀ t ∈ subtrees, C18b.noBB t = true)
    (hkeys : ∀ c ∈ conds, ∀ i, i < conds.length → c.key ≠ ns ++ "/" ++ toString (i + 1))
    (ops : List Op) (w : Store) (n1 : Node) (w1 : Store)
    (hrun : run ops (Idioms.renumber (Idioms.eitherOr conds subtrees ns)) w = .ok (n1, w1)) :
    C18c.IsEitherOr conds (C18d.eoOpts conds subtrees ns) 1 2 3 n1 ∧ C18c.EOInv (C18d.eoOpts conds subtrees ns) n1 ∧
    ∀ (e : Env) (n2 : Node) (w2 : Store) (tr : List Ev), tick e w1 n1 = .ok (n2, w2, tr) →
      C18c.IsEitherOr conds (C18d.eoOpts conds subtrees ns) 1 2 3 n2 ∧ C18c.EOInv (C18d.eoOpts conds subtrees ns) n2 ∧
      (n1.status ≠ .running → Ev.enter 2 ∈ tr ∧
        (evalChecks w1 conds = .ok none →
          w2 = w1 ∧ n2.status = .failure ∧ ∀ o ∈ C18d.eoOpts conds subtrees ns, Ev.enter o.task.id ∉ tr) ∧
        (∀ rs, evalChecks w1 conds = .ok (some rs) →
          (∀ i (hi : i < (C18d.eoOpts conds subtrees ns).length) (hr : i < rs.length),
            w2 (C18d.eoOpts conds subtrees ns)[i].flag = some (.bool rs[i])) ∧
          (∀ k, k ∉ C18.eoKeys conds.length ns → w2 k = w1 k) ∧
          ((rs.filter id).length % 2 = 0 →
            n2.status = .failure ∧ ∀ o ∈ C18d.eoOpts conds subtrees ns, Ev.enter o.task.id ∉ tr) ∧
          (∀ j (hj : j < (C18d.eoOpts conds subtrees ns).length), (∀ i (hi : i < rs.length), rs[i] = true ↔ i = j) →
            Ev.enter (C18d.eoOpts conds subtrees ns)[j].task.id ∈ tr ∧
            (∀ o ∈ C18d.eoOpts conds subtrees ns, Ev.enter o.task.id ∈ tr → o = (C18d.eoOpts conds subtrees ns)[j]) ∧
            ∃ st t0, skel t0 = skel (C18d.eoOpts conds subtrees ns)[j].task ∧ C18c.TaskTick e w2 tr st t0 ∧
              n2.status = (if st = .invalid then .failure else st)))) ∧
      (n1.status = .running → ∃ oj ∈ C18d.eoOpts conds subtrees ns, C18c.chosenId n1 = some oj.oid ∧
        w2 = w1 ∧ Ev.enter 2 ∉ tr ∧ Ev.enter oj.gid ∉ tr ∧
        (∀ o ∈ C18d.eoOpts conds subtrees ns, Ev.enter o.task.id ∈ tr → o = oj ∨ C18b.flagOn w1 o.flag)) := by
  obtain ⟨hp, hfl, _, _, _, hinv, _⟩ := C18_eo_isEitherOr conds subtrees ns hlen
  have h := C18_eo_history conds (C18d.eoOpts conds subtrees ns) 1 2 3 (C18_eo_ok conds subtrees ns hlen h2 hbb hkeys)
    ops _ w hp hinv n1 w1 hrun
  rw [hfl] at h
  exact h

/-- **3c. "does not switch subtree while the chosen one is RUNNING", for the constructor** (conclusion of
    `C18_eo_history_exclusive`): `Exclusive` conditions, histories that do not poke the flag keys (the condition
    variables may be poked at will): a RUNNING idiom re-ticks only the chosen subtree, mirrors it, and stays there. -/
theorem C18_eo_constructor_history_exclusive (conds : List Check) (subtrees : List Node) (ns : String)
    (hlen : conds.length = subtrees.length) (h2 : 2 ≤ subtrees.length)
    (hbb : ∀ t ∈ subtrees, C18b.noBB t = true)
    (hkeys : ∀ c ∈ conds, ∀ i, i < conds.length → c.key ≠ ns ++ "/" ++ toString (i + 1))
    (hex : C18c.Exclusive conds)
    (ops : List Op) (w : Store) (hops : ∀ op ∈ ops, C18d.PokesAvoid (C18.eoKeys conds.length ns) op)
    (n1 : Node) (w1 : Store)
    (hrun : run ops (Idioms.renumber (Idioms.eitherOr conds subtrees ns)) w = .ok (n1, w1)) :
    C18c.IsEitherOr conds (C18d.eoOpts conds subtrees ns) 1 2 3 n1 ∧ C18c.EOInv (C18d.eoOpts conds subtrees ns) n1 ∧
    C18c.Sole (C18d.eoOpts conds subtrees ns) w1 n1 ∧
    ∀ (e : Env) (n2 : Node) (w2 : Store) (tr : List Ev), tick e w1 n1 = .ok (n2, w2, tr) →
      C18c.Sole (C18d.eoOpts conds subtrees ns) w2 n2 ∧
      (n1.status = .running → ∃ oj ∈ C18d.eoOpts conds subtrees ns, C18c.chosenId n1 = some oj.oid ∧
        w2 = w1 ∧ Ev.enter 2 ∉ tr ∧ Ev.enter oj.gid ∉ tr ∧
        Ev.enter oj.task.id ∈ tr ∧ (∀ o ∈ C18d.eoOpts conds subtrees ns, Ev.enter o.task.id ∈ tr → o = oj) ∧
        (∃ st t0, skel t0 = skel oj.task ∧ C18c.TaskTick e w2 tr st t0 ∧
          n2.status = (if st = .invalid then .failure else st)) ∧
        (n2.status = .running → C18c.chosenId n2 = some oj.oid)) := by
  obtain ⟨hp, _, _, _, _, hinv, hsole⟩ := C18_eo_isEitherOr conds subtrees ns hlen
  exact C18_eo_history_exclusive conds (C18d.eoOpts conds subtrees ns) 1 2 3
    (C18_eo_ok conds subtrees ns hlen h2 hbb hkeys) hex ops _ w hp hinv (hsole w)
    (fun op hop => C18d.eo_opOK conds subtrees ns hlen op (hops op hop)) n1 w1 hrun

/-- **3d. two options** (the documented use of `either_or`): `Exclusive` is automatic, so 3c holds with no hypothesis
    on the conditions beyond "they do not read the flag keys". -/
theorem C18_eo_constructor_history_two (conds : List Check) (subtrees : List Node) (ns : String)
    (hlen : conds.length = subtrees.length) (h2 : subtrees.length = 2)
    (hbb : ∀ t ∈ subtrees, C18b.noBB t = true)
    (hkeys : ∀ c ∈ conds, ∀ i, i < conds.length → c.key ≠ ns ++ "/" ++ toString (i + 1))
    (ops : List Op) (w : Store) (hops : ∀ op ∈ ops, C18d.PokesAvoid (C18.eoKeys conds.length ns) op)
    (n1 : Node) (w1 : Store)
    (hrun : run ops (Idioms.renumber (Idioms.eitherOr conds subtrees ns)) w = .ok (n1, w1)) :
    C18c.IsEitherOr conds (C18d.eoOpts conds subtrees ns) 1 2 3 n1 ∧ C18c.EOInv (C18d.eoOpts conds subtrees ns) n1 ∧
    C18c.Sole (C18d.eoOpts conds subtrees ns) w1 n1 ∧
    ∀ (e : Env) (n2 : Node) (w2 : Store) (tr : List Ev), tick e w1 n1 = .ok (n2, w2, tr) →
      C18c.Sole (C18d.eoOpts conds subtrees ns) w2 n2 ∧
      (n1.status = .running → ∃ oj ∈ C18d.eoOpts conds subtrees ns, C18c.chosenId n1 = some oj.oid ∧
        w2 = w1 ∧ Ev.enter 2 ∉ tr ∧ Ev.enter oj.gid ∉ tr ∧
        Ev.enter oj.task.id ∈ tr ∧ (∀ o ∈ C18d.eoOpts conds subtrees ns, Ev.enter o.task.id ∈ tr → o = oj) ∧
        (∃ st t0, skel t0 = skel oj.task ∧ C18c.TaskTick e w2 tr st t0 ∧
          n2.status = (if st = .invalid then .failure else st)) ∧
        (n2.status = .running → C18c.chosenId n2 = some oj.oid)) :=
  C18_eo_constructor_history_exclusive conds subtrees ns hlen (by omega) hbb hkeys
    (C18c.exclusive_of_two conds (by omega)) ops w hops n1 w1 hrun

/-! ## non-vacuity: the concrete idioms of C18 / C18b / C18c (`C18.pu`, `C18.eo2`, `C18.eo3`) -/

namespace C18d
open C18

def puTasks : List (String × Node) := [("Task A", probe), ("Task B", probe)]
/-- a task list with a composite task (a Sequence over a counter and a probe) and a decorated one -/
def puTasks3 : List (String × Node) :=
  [("Scan", seq 0 false .invalid none [leaf 0 .invalid (.tickCounter 1 .success 0) [], probe]),
   ("Dock Now", dec 0 (.guard 0) .invalid probe), ("Charge", probe)]
def eoConds2 : List Check := [isTrue "/a", isTrue "/b"]
def eoConds3 : List Check := [isTrue "/a", isTrue "/b", isTrue "/c"]

end C18d
open C18 C18d

-- 1. consecutive ids, concretely (by the theorem, and recomputed by the kernel)
example : (nodes pu).map Node.id = List.range' 1 13 := C18_renumber_ids _
example : (nodes pu).map Node.id = [1, 2, 3, 4, 5, 6, 7, 8, 9, 10, 11, 12, 13] := by decide
example : (nodes (Idioms.renumber (Idioms.pickUp puTasks3))).map Node.id = List.range' 1 22 := by decide
example : size (Idioms.pickUp puTasks3) = 22 ∧ (Idioms.renum 1 (Idioms.pickUp puTasks3)).2.1 = 23 := by decide
example : ((nodes eo3).map Node.id).Nodup := C18_renumber_nodup_nodes eo3 _ rfl
-- the constructors build trees that are fresh up to ids; renumbering makes them fresh
example : freshModIds (Idioms.pickUp puTasks3) = true ∧ isFresh (Idioms.pickUp puTasks3) = false := by decide
example : isFresh (Idioms.renumber (Idioms.pickUp puTasks3)) = true := C18_renumber_isFresh _ (by decide)
example : isFresh eo3 = true := C18_renumber_isFresh _ (by decide)
-- renumbering rewrites the guard id of an EternalGuard and keeps the subtree blackboard-free
example : (Idioms.renum 7 (dec 0 (.guard 0) .invalid probe)).1 = dec 7 (.guard 7) .invalid (leaf 8 .invalid .probe []) :=
  rfl
example : ∀ t ∈ puTasks3, C18b.noBB t.2 = true := by decide

-- 2. pick_up: the hypotheses hold for the two-task idiom `C18.pu` and for the three-task one
example : puFlags puTasks = ["/task_a_done", "/task_b_done"] := by decide +kernel
example : puFlags puTasks3 = ["/scan_done", "/dock_now_done", "/charge_done"] := by decide +kernel
example : C18b.PickUpOK (puSlots puTasks) (puClearIds puTasks) 1 := C18_pickup_ok _ (by decide) (by decide +kernel)
example : C18b.PickUpOK (puSlots puTasks3) (puClearIds puTasks3) 1 := C18_pickup_ok _ (by decide) (by decide +kernel)
example : (puSlots puTasks3).map (fun sl => (sl.sid, sl.gid, sl.wid, sl.task.id, sl.setid)) =
    [(2, 3, 4, 5, 8), (9, 10, 11, 12, 14), (15, 16, 17, 18, 19)] ∧ puClearIds puTasks3 = [20, 21, 22] := by decide
-- the flag hypothesis is a real condition on the task names: `slug` and `rootKey` are not injective
example : Idioms.rootKey (Idioms.slug "Task A" ++ "_done") = Idioms.rootKey (Idioms.slug "task_a" ++ "_done") := by
  decide +kernel
example : Idioms.rootKey (Idioms.slug "/a" ++ "_done") = Idioms.rootKey (Idioms.slug "a" ++ "_done") := by
  decide +kernel
example : ¬ (puFlags [("Task A", probe), ("task_a", probe)]).Nodup := by decide +kernel
-- histories of `C18.pu` (ticks, an interrupt, a poke of a foreign variable) satisfy the hypotheses of 2b …
example : ∀ op ∈ [Op.tick eA, .stop, .poke "/other" (some (.int 3)), .tick eA], PokesAvoid (puFlags puTasks) op := by
  intro op h
  simp only [List.mem_cons, List.not_mem_nil, or_false] at h
  rcases h with rfl | rfl | rfl | rfl <;> first | trivial | (show "/other" ∉ puFlags puTasks; decide +kernel)
example : ¬ PokesAvoid (puFlags puTasks) (.poke "/task_a_done" none) := by
  show ¬ ("/task_a_done" ∉ puFlags puTasks); decide +kernel
example : (run [Op.tick eA, .stop, .poke "/other" (some (.int 3)), .tick eA] pu Store.empty).toOption.map
    (fun r => (r.1.status, r.2 "/task_a_done" == some (.bool true), (r.2 "/task_b_done").isSome)) =
    some (.running, true, false) := by decide +kernel
-- … so 2b applies to them, with no side condition left
example (ops : List Op) (hops : ∀ op ∈ ops, PokesAvoid (puFlags puTasks) op) (w : Store) (n1 : Node) (w1 : Store)
    (h : run ops pu w = .ok (n1, w1)) : C18b.IsPickUp (puSlots puTasks) (puClearIds puTasks) 1 n1 ∧
      C18b.PUInv (puSlots puTasks) w1 n1 :=
  let r := C18_pickup_constructor_history puTasks (by decide) (by decide +kernel) ops w hops n1 w1 h
  ⟨r.1, r.2.1⟩

-- 3. either_or: the hypotheses hold for `C18.eo2` and `C18.eo3`
example : C18c.EitherOrOK eoConds2 (eoOpts eoConds2 [probe, probe] "/eo") 1 2 3 :=
  C18_eo_ok _ _ _ rfl (by decide) (by decide) (by decide)
example : C18c.EitherOrOK eoConds3 (eoOpts eoConds3 [probe, probe, probe] "/eo") 1 2 3 :=
  C18_eo_ok _ _ _ rfl (by decide) (by decide) (by decide)
example : (eoOpts eoConds3 [probe, probe, probe] "/eo").map (fun o => (o.oid, o.gid, o.task.id)) =
    [(4, 5, 6), (7, 8, 9), (10, 11, 12)] := by decide
-- a condition that reads a flag key violates the hypothesis
example : ¬ (∀ c ∈ [isTrue "/a", isTrue "/eo/2"], ∀ i, i < 2 → c.key ≠ "/eo" ++ "/" ++ toString (i + 1)) := by decide
example : (run [setB "/a" false, setB "/b" true, .tick eR, setB "/a" true, setB "/b" false] eo2 Store.empty).toOption.map
    (fun r => (r.1.status, C18c.chosenId r.1)) = some (.running, some 7) := by decide +kernel
example (ops : List Op) (hops : ∀ op ∈ ops, PokesAvoid (eoKeys 2 "/eo") op) (w : Store) (n1 : Node) (w1 : Store)
    (h : run ops eo2 w = .ok (n1, w1)) : C18c.Sole (eoOpts eoConds2 [probe, probe] "/eo") w1 n1 :=
  (C18_eo_constructor_history_two eoConds2 [probe, probe] "/eo" rfl rfl (by decide) (by decide) ops w hops n1 w1 h).2.2.1
example (ops : List Op) (w : Store) (n1 : Node) (w1 : Store) (h : run ops eo3 w = .ok (n1, w1)) :
    C18c.EOInv (eoOpts eoConds3 [probe, probe, probe] "/eo") n1 :=
  (C18_eo_constructor_history eoConds3 [probe, probe, probe] "/eo" rfl (by decide) (by decide) (by decide)
    ops w n1 w1 h).2.1
