/-
  C18c — either_or: the WHOLE idiom, any number n ≥ 2 of options, arbitrary blackboard-free option subtrees, one whole
  tick and whole histories:
  "either_or ticks exactly the subtree whose condition holds when exactly one condition holds, fails when none or
  several hold, and does not switch subtree while the chosen one is RUNNING".

  What the code does (and what is proved): the check folds XOR over the verdicts, so it passes iff the NUMBER of true
  conditions is ODD (KNOWN FINDING K3, `C18_xor_parity` / `C18_eo_several_odd_passes` in C18.lean), and the memoryless
  chooser then picks the FIRST option whose flag is set.  The theorems state the model's behaviour (parity) and derive
  the property-shaped corollaries for "exactly one", "none", "an even number"; "fails when several hold" is FALSE for
  3, 5, … (kernel-checked on the three-option instance at the end of this file).

  An instance is described structurally, in ANY runtime state (ids, statuses, remembered children arbitrary):
    `Opt` (flag, ids of the option Sequence and of its guard leaf, subtree), `optNode`, `IsOpt`,
    `IsEitherOr conds opts rid xid sid n`: memory Sequence `rid` [XOR leaf `xid` publishing the flags, memoryless
    Selector `sid` over the option nodes]; both are properties of the skeleton (`isOpt_iff_skel`, `isEitherOr_iff_skel`),
    hence kept by ticks, interrupts and pokes.
    `EitherOrOK`: blackboard-free subtrees (`C18b.noBB`), pairwise distinct flags, one condition per option, ≥ 2 options,
    pairwise distinct ids, and the conditions do not read the flags.
    `C18b.flagOn w k`: the guard passes (`True`, or the integer 1 that `Val.beq`, as Python, identifies with `True`; the
    XOR leaf only ever writes booleans).
    `EOInv opts n` (state invariant, no blackboard involved): every option that is RUNNING remembers its subtree; a root
    that is not RUNNING has no RUNNING option; a RUNNING root remembers the chooser, the chooser is RUNNING and remembers
    an option `oj` (`chosenId`), `oj` is RUNNING and no other option is.
    `TaskTick e w tr st t0`: the subtree `t0` was ticked (store `w`, untouched), its trace is part of `tr`, it returned `st`.

  Theorems (all top level):
   1. `C18_eo_tick_fresh`: a tick of an idiom that is not RUNNING, all condition variables present
      (`evalChecks w conds = some rs`): flag `i` := `rs[i]`, nothing else written; (a) EVEN count ⇒ FAILURE, only root and
      XOR leaf entered; (b) ODD count ⇒ every entered subtree has its flag `True`, options are tried in order, a later
      subtree only after every earlier flagged one returned FAILURE, the root returns what the last tried subtree returned.
      Corollaries `C18_eo_exactly_one` (exactly subtree `j` ticked, status mirrored), `C18_eo_none_or_two`,
      `C18_eo_first_true` (general odd case: the FIRST true condition's subtree is entered, no earlier one),
      `C18_eo_tick_missing` (a condition variable missing ⇒ FAILURE, nothing written, no subtree),
      `C18_eo_truth_stable` (publishing the flags does not change the conditions' verdict).
   2. `C18_eo_tick_running`: a tick of a RUNNING idiom, NO hypothesis on the blackboard: the XOR leaf is not re-entered,
      the store is untouched, the guard of the chosen option `oj` is not re-entered; the memoryless chooser re-ticks the
      guards of the other options it reaches, which read the FLAGS; a subtree is entered only if it is `oj`'s or its flag
      is set; when no other flag is set, ONLY `oj`'s subtree is ticked, mirrored, and the idiom stays at `oj`.
   3. `C18_eo_inv_fresh`, `C18_eo_inv_step`, `C18_eo_inv_run` (the invariant over ticks / interrupts / pokes of ANY
      variable), `C18_eo_history` (after any history the next tick is as in 1 or 2), and — with the ghost invariant
      `Sole` (while RUNNING at `oj` no other flag is set) and `Exclusive` conditions (never an odd number ≥ 3 at a time;
      automatic for two options: `C18c.exclusive_of_two`) — `C18_eo_sole_tick/_step/_run` and
      `C18_eo_history_exclusive`: after any history that does not poke the flags (condition variables may be poked at
      will), a RUNNING idiom re-ticks only the chosen subtree and does not switch.
      For non-`Exclusive` conditions (K3: three flags set) the RUNNING idiom CAN switch back to an earlier flagged option
      whose subtree had failed: kernel-checked example at the end; this is why 2 carries the "no other flag" hypothesis.
   4. `C18_eo_isEitherOr`: for ALL condition / subtree lists of equal length, `Idioms.renumber (Idioms.eitherOr …)` is an
      instance over the explicit options `C18c.optsOf 4 (keys zip subtrees)` and satisfies `EOInv` and `Sole`.
  1 needs `EOInv` (counterexample on an unreachable state at the end).  Not proved here: that `Idioms.renumber` yields
  pairwise distinct ids for every subtree list (part of `EitherOrOK`; checked by `decide` on the concrete instances).
-/
import PyTreesProofs.Props.C18b
set_option linter.unusedVariables false
set_option linter.unusedSimpArgs false
open Node

namespace C18c
open C18b

/-! ## 1. structural description -/

/-- one option of the idiom: its flag, the ids of the option Sequence and of its guard leaf, the subtree -/
structure Opt where
  flag : String
  oid : Nat
  gid : Nat
  task : Node

/-- the option Sequence in an arbitrary runtime state; `t` is the subtree in its current state -/
def optNode (o : Opt) (ost : Status) (ocur : Option Nat) (gst : Status) (glog : List LEv) (t : Node) : Node :=
  seq o.oid true ost ocur
    [leaf o.gid gst (.checkValue { key := o.flag, path := [], op := .eq, value := .bool true }) glog, t]

def IsOpt (o : Opt) (n : Node) : Prop :=
  ∃ ost ocur gst glog t, n = optNode o ost ocur gst glog t ∧ skel t = skel o.task

def optSkel (o : Opt) : Skel :=
  .seq o.oid true [.leaf o.gid (.checkValue { key := o.flag, path := [], op := .eq, value := .bool true }), skel o.task]

/-- `n` is an instance of `either_or` over the conditions and options, in any runtime state -/
def IsEitherOr (conds : List Check) (opts : List Opt) (rid xid sid : Nat) (n : Node) : Prop :=
  ∃ rst rcur xst xlog sst scur os,
    n = seq rid true rst rcur
      [leaf xid xst (.checkValues conds .xor (some (opts.map Opt.flag))) xlog, sel sid false sst scur os] ∧
    AllRel IsOpt opts os

def eoSkel (conds : List Check) (opts : List Opt) (rid xid sid : Nat) : Skel :=
  .seq rid true [.leaf xid (.checkValues conds .xor (some (opts.map Opt.flag))), .sel sid false (opts.map optSkel)]

theorem shape_eq_checkValues {k : LeafKind} {cs : List Check} {op : LogicOp} {res : Option (List String)}
    (h : k.shape = .checkValues cs op res) : k = .checkValues cs op res := by
  cases k <;> simp only [LeafKind.shape, LeafShape.checkValues.injEq, reduceCtorEq] at h
  obtain ⟨rfl, rfl, rfl⟩ := h; rfl

theorem isOpt_iff_skel (o : Opt) (n : Node) : IsOpt o n ↔ skel n = optSkel o := by
  constructor
  · rintro ⟨ost, ocur, gst, glog, t, rfl, ht⟩
    simp [optNode, optSkel, skel, LeafKind.shape, ht]
  · intro h
    obtain ⟨ost, ocur, cs, rfl, hcs⟩ := skel_eq_seq h
    obtain ⟨g, cs1, rfl, hg, hcs1⟩ := skelL_eq_cons hcs
    obtain ⟨t, cs2, rfl, ht, hcs2⟩ := skelL_eq_cons hcs1
    obtain rfl := skelL_eq_nil hcs2
    obtain ⟨gst, gk, glog, rfl, hgk⟩ := skel_eq_leaf hg
    obtain rfl := shape_eq_checkValue hgk
    exact ⟨ost, ocur, gst, glog, t, rfl, ht⟩

theorem optsAre_iff (os : List Opt) (ns : List Node) : AllRel IsOpt os ns ↔ skelL ns = os.map optSkel :=
  allRel_iff_skelL IsOpt optSkel isOpt_iff_skel os ns

theorem isEitherOr_iff_skel (conds : List Check) (opts : List Opt) (rid xid sid : Nat) (n : Node) :
    IsEitherOr conds opts rid xid sid n ↔ skel n = eoSkel conds opts rid xid sid := by
  constructor
  · rintro ⟨rst, rcur, xst, xlog, sst, scur, os, rfl, hos⟩
    rw [optsAre_iff] at hos
    simp [eoSkel, skel, LeafKind.shape, hos]
  · intro h
    obtain ⟨rst, rcur, cs, rfl, hcs⟩ := skel_eq_seq h
    obtain ⟨x, cs1, rfl, hx, hcs1⟩ := skelL_eq_cons hcs
    obtain ⟨s, cs2, rfl, hs, hcs2⟩ := skelL_eq_cons hcs1
    obtain rfl := skelL_eq_nil hcs2
    obtain ⟨xst, xk, xlog, rfl, hxk⟩ := skel_eq_leaf hx
    obtain rfl := shape_eq_checkValues hxk
    obtain ⟨sst, scur, os, rfl, hos⟩ := skel_eq_sel hs
    exact ⟨rst, rcur, xst, xlog, sst, scur, os, rfl, (optsAre_iff _ _).mpr hos⟩

theorem isEitherOr_of_skel {conds : List Check} {opts : List Opt} {rid xid sid : Nat} {n n' : Node}
    (h : IsEitherOr conds opts rid xid sid n) (hs : skel n' = skel n) : IsEitherOr conds opts rid xid sid n' := by
  rw [isEitherOr_iff_skel] at h ⊢; rw [hs, h]

theorem isOpt_of_skel {o : Opt} {n n' : Node} (h : IsOpt o n) (hs : skel n' = skel n) : IsOpt o n' := by
  rw [isOpt_iff_skel] at h ⊢; rw [hs, h]

theorem isOpt_id {o : Opt} {c : Node} (h : IsOpt o c) : c.id = o.oid := by
  obtain ⟨_, _, _, _, _, rfl, _⟩ := h; rfl

theorem optsAre_append {s1 s2 : List Opt} {n1 n2 : List Node} (h1 : AllRel IsOpt s1 n1) (h2 : AllRel IsOpt s2 n2) :
    AllRel IsOpt (s1 ++ s2) (n1 ++ n2) := by
  rw [optsAre_iff] at h1 h2 ⊢
  rw [skelL_append, List.map_append, h1, h2]

/-! ### ids -/

theorem optSkel_ids (o : Opt) : (optSkel o).ids = o.oid :: o.gid :: (skel o.task).ids := by
  simp [optSkel, Skel.ids, Skel.idsL]

theorem mem_idsL_opts : ∀ (os : List Opt) (x : Nat),
    x ∈ Skel.idsL (os.map optSkel) ↔ ∃ o ∈ os, x ∈ (optSkel o).ids
| [], x => by simp [Skel.idsL]
| s :: os, x => by simp [Skel.idsL, mem_idsL_opts os x]

theorem opt_ids_unique : ∀ (os : List Opt), (Skel.idsL (os.map optSkel)).Nodup →
    ∀ a ∈ os, ∀ b ∈ os, ∀ x, x ∈ (optSkel a).ids → x ∈ (optSkel b).ids → a = b
| [], _, a, ha, _, _, _, _, _ => by simp at ha
| s :: os, hnd, a, ha, b, hb, x, hxa, hxb => by
    simp only [List.map_cons, Skel.idsL, List.nodup_append] at hnd
    obtain ⟨_, h2, h3⟩ := hnd
    simp only [List.mem_cons] at ha hb
    rcases ha with rfl | ha <;> rcases hb with rfl | hb
    · rfl
    · exact absurd rfl (h3 x hxa x ((mem_idsL_opts os x).mpr ⟨b, hb, hxb⟩))
    · exact absurd rfl (h3 x hxb x ((mem_idsL_opts os x).mpr ⟨a, ha, hxa⟩))
    · exact opt_ids_unique os h2 a ha b hb x hxa hxb

theorem opt_ids_nodup : ∀ (os : List Opt), (Skel.idsL (os.map optSkel)).Nodup →
    ∀ a ∈ os, (optSkel a).ids.Nodup
| [], _, a, ha => by simp at ha
| s :: os, hnd, a, ha => by
    simp only [List.map_cons, Skel.idsL, List.nodup_append] at hnd
    simp only [List.mem_cons] at ha
    rcases ha with rfl | ha
    · exact hnd.1
    · exact opt_ids_nodup os hnd.2.1 a ha

theorem task_id_mem_opt (o : Opt) : o.task.id ∈ (optSkel o).ids := by
  rw [optSkel_ids]; simp [id_mem_ids o.task]

theorem oid_mem_opt (o : Opt) : o.oid ∈ (optSkel o).ids := by rw [optSkel_ids]; simp
theorem gid_mem_opt (o : Opt) : o.gid ∈ (optSkel o).ids := by rw [optSkel_ids]; simp

theorem opt_id_facts (o : Opt) (h : (optSkel o).ids.Nodup) :
    o.task.id ≠ o.oid ∧ o.task.id ≠ o.gid ∧ o.gid ≠ o.oid ∧ o.gid ∉ (skel o.task).ids ∧ o.oid ∉ (skel o.task).ids := by
  rw [optSkel_ids] at h
  simp only [List.nodup_cons, List.mem_cons, not_or] at h
  have hm := id_mem_ids o.task
  refine ⟨?_, ?_, fun heq => h.1.1 heq.symm, h.2.1, h.1.2⟩
  · intro heq; rw [heq] at hm; exact h.1.2 hm
  · intro heq; rw [heq] at hm; exact h.2.1 hm

/-- an option in a sane state: when RUNNING it remembers its subtree (the guard never returns RUNNING) -/
def optOK : Node → Bool
| seq _ _ st cur [_, t] => st != .running || cur == some t.id
| _ => true

theorem optOK_optNode (o : Opt) (ost ocur gst glog t) :
    optOK (optNode o ost ocur gst glog t) = true ↔ (ost = .running → ocur = some t.id) := by
  simp only [optNode, optOK, Bool.or_eq_true, bne_iff_ne, ne_eq, beq_iff_eq]
  constructor
  · intro h hr
    rcases h with h | h
    · exact absurd hr h
    · exact h
  · intro h
    by_cases hr : ost = .running
    · exact Or.inr (h hr)
    · exact Or.inl hr

/-- "the subtree `t0` is ticked in store `w`, leaves it alone, its trace is part of `tr`, and it returns `st`" -/
def TaskTick (e : Env) (w : Store) (tr : List Ev) (st : Status) (t0 : Node) : Prop :=
  ∃ f' t' trt, tickF f' e w t0 = .ok (t', w, trt) ∧ (∀ ev ∈ trt, ev ∈ tr) ∧ st = t'.status

theorem TaskTick.enter {e : Env} {w : Store} {tr : List Ev} {st : Status} {t0 : Node}
    (h : TaskTick e w tr st t0) : Ev.enter t0.id ∈ tr := by
  obtain ⟨f', t', trt, ht, hsub, _⟩ := h
  exact hsub _ (tickF_enter_self e f' w t0 t' w trt ht)

theorem TaskTick.mono {e : Env} {w : Store} {tr tr2 : List Ev} {st : Status} {t0 : Node}
    (h : TaskTick e w tr st t0) (hsub : ∀ ev ∈ tr, ev ∈ tr2) : TaskTick e w tr2 st t0 := by
  obtain ⟨f', t', trt, ht, hs, hst⟩ := h
  exact ⟨f', t', trt, ht, fun ev hev => hsub ev (hs ev hev), hst⟩

end C18c

namespace C18c
open C18b

/-! ## 2. one option, one tick -/

/-- the Sequence loop over the single subtree -/
theorem taskLoop (f : Nat) (e : Env) (w : Store) (t0 : Node) (hnb : noBB t0 = true) (d2 : List Node)
    (r : Option (Node × List Node)) (w' : Store) (tr2 : List Ev)
    (h : seqLoop (tickF f e) w [t0] = .ok (d2, r, w', tr2)) :
    ∃ c2 trt, tickF f e w t0 = .ok (c2, w, trt) ∧ w' = w ∧ (∀ ev ∈ trt, ev ∈ tr2) ∧ (∀ ev ∈ tr2, ev ∈ trt) ∧
      ((c2.status ≠ .success ∧ d2 = [] ∧ r = some (c2, [])) ∨ (c2.status = .success ∧ d2 = [c2] ∧ r = none)) := by
  obtain ⟨c1, w1, tr1, hT, hcase⟩ := seqLoop_cons_inv _ _ _ _ _ _ _ _ h
  obtain rfl := tickF_noBB_store e f w t0 c1 w1 tr1 hnb hT
  rcases hcase with ⟨hns, h1, h2, h3, h4⟩ | ⟨hs, d, tr3, hl, h1, h2⟩
  · subst h1 h2 h3 h4
    exact ⟨c1, _, hT, rfl, fun _ h => h, fun _ h => h, Or.inl ⟨hns, rfl, rfl⟩⟩
  · simp only [seqLoop, pure, Except.pure, Except.ok.injEq, Prod.mk.injEq] at hl
    obtain ⟨h5, h6, h7, h8⟩ := hl
    subst h1 h2 h5 h6 h7 h8
    exact ⟨c1, _, hT, rfl, fun _ h => by simp [h], fun _ h => by simpa using h, Or.inr ⟨hs, rfl, rfl⟩⟩

/-- **one option, one tick** (explicit form), for an option in a sane state -/
theorem opt_tick (o : Opt) (ost : Status) (ocur : Option Nat) (gst : Status) (glog : List LEv) (t : Node)
    (ht : skel t = skel o.task) (hnb : noBB o.task = true) (hnd : (optSkel o).ids.Nodup)
    (f : Nat) (e : Env) (w : Store) (n' : Node) (w' : Store) (tr : List Ev)
    (hok : ost = .running → ocur = some t.id)
    (h : tickF f e w (optNode o ost ocur gst glog t) = .ok (n', w', tr)) :
    w' = w ∧ optOK n' = true ∧ Ev.enter o.oid ∈ tr ∧
    (ost = .running → TaskTick e w tr n'.status t ∧ Ev.enter o.gid ∉ tr) ∧
    (ost ≠ .running → Ev.enter o.gid ∈ tr ∧
      (¬ flagOn w o.flag → n'.status = .failure ∧ ∀ j, Ev.enter j ∈ tr → j = o.oid ∨ j = o.gid) ∧
      (flagOn w o.flag → ∃ t0, skel t0 = skel o.task ∧ TaskTick e w tr n'.status t0)) := by
  obtain ⟨hto, htg, hgo, hgt, hot⟩ := opt_id_facts o hnd
  have hnbt : noBB t = true := by rw [noBB_of_skel ht]; exact hnb
  have hself := tickF_enter_self e f w _ n' w' tr h
  simp only [optNode, Node.id] at hself
  unfold optNode at h
  obtain ⟨f', before, rest, trR, done, r, trl, rfl, hen, hl, hent, hsub, hshape⟩ :=
    root_tick_inv f e w o.oid ost ocur _ n' w' tr (by simp) h
  have hidt : t.id = o.task.id := id_of_skel ht
  by_cases hst : ost = .running
  · have hc := hok hst
    subst hst; subst hc
    have hgne : (leaf o.gid gst (.checkValue { key := o.flag, path := [], op := .eq, value := .bool true }) glog).id
        ≠ t.id := by rw [hidt]; exact fun h => htg h.symm
    simp only [seqEntry, splitAtId, hgne, ne_eq, not_true_eq_false, ↓reduceIte, pure, Except.pure,
      Option.map, Except.ok.injEq, Prod.mk.injEq] at hen
    obtain ⟨rfl, rfl, rfl⟩ := hen
    obtain ⟨c2, trt, hT, hw, hs1, hs2, hcase⟩ := taskLoop f' e w t hnbt done r w' trl hl
    subst w'
    have hTT : ∀ st, st = c2.status → TaskTick e w tr st t :=
      fun st hst => ⟨f', c2, trt, hT, fun ev hev => hsub ev (hs1 ev hev), hst⟩
    have hng : Ev.enter o.gid ∉ tr := by
      intro hin
      rcases hent _ hin with h1 | h1
      · exact hgo h1
      · have := tickF_enters e f' w t c2 w trt hT _ (hs2 _ h1)
        rw [ht] at this; exact hgt this
    refine ⟨rfl, ?_, hself, fun _ => ⟨?_, hng⟩, fun hne => absurd rfl hne⟩
    · rcases hcase with ⟨hns, rfl, rfl⟩ | ⟨hs, rfl, rfl⟩
      · rcases hshape with ⟨h1, _⟩ | ⟨c', u, h1, rfl⟩
        · cases h1
        · simp only [Option.some.injEq, Prod.mk.injEq] at h1
          obtain ⟨rfl, rfl⟩ := h1
          simp [optOK]
      · rcases hshape with ⟨_, rfl⟩ | ⟨c', u, h1, _⟩
        · simp [optOK]
        · cases h1
    · rcases hcase with ⟨hns, rfl, rfl⟩ | ⟨hs, rfl, rfl⟩
      · rcases hshape with ⟨h1, _⟩ | ⟨c', u, h1, rfl⟩
        · cases h1
        · simp only [Option.some.injEq, Prod.mk.injEq] at h1
          obtain ⟨rfl, rfl⟩ := h1
          exact hTT _ rfl
      · rcases hshape with ⟨_, rfl⟩ | ⟨c', u, h1, _⟩
        · exact hTT _ hs.symm
        · cases h1
  · have hsplit : ∃ gst' glog', (stopInvNonInvalid
        [leaf o.gid gst (.checkValue { key := o.flag, path := [], op := .eq, value := .bool true }) glog, t]).1 =
        [leaf o.gid gst' (.checkValue { key := o.flag, path := [], op := .eq, value := .bool true }) glog',
         if ¬ t.status = .invalid then (stopInv t).1 else t] := by
      have hls : ∀ x, (leaf o.gid x (.checkValue { key := o.flag, path := [], op := .eq, value := .bool true })
          glog).status = x := fun _ => rfl
      by_cases h1 : t.status = .invalid <;> by_cases h2 : gst = .invalid <;>
        simp [stopInvNonInvalid, stopInv, hls, h1, h2]
    obtain ⟨gst', glog', hsp⟩ := hsplit
    simp only [seqEntry, ne_eq, hst, not_false_eq_true, ↓reduceIte, pure, Except.pure, hsp, Except.ok.injEq,
      Prod.mk.injEq] at hen
    obtain ⟨rfl, rfl, rfl⟩ := hen
    generalize ht0 : (if ¬ t.status = .invalid then (stopInv t).1 else t) = t0 at hl
    have hsk0 : skel t0 = skel o.task := by
      rw [← ht0]
      split
      · rw [stopInv_skel]; exact ht
      · exact ht
    have hnb0 : noBB t0 = true := by rw [noBB_of_skel hsk0]; exact hnb
    obtain ⟨c1, w1, tr1, hG, hcase⟩ := seqLoop_cons_inv _ _ _ _ _ _ _ _ hl
    obtain ⟨f2, rfl⟩ : ∃ f2, f' = f2 + 1 := by
      cases f' with
      | zero => simp [tickF] at hG
      | succ f2 => exact ⟨f2, rfl⟩
    obtain ⟨og, l', trg, hgtk, hiff, hor⟩ := guard_tick e w o.gid gst' glog' o.flag
    simp only [tickF, hgtk, Except.ok.injEq, Prod.mk.injEq] at hG
    obtain ⟨rfl, rfl, rfl⟩ := hG
    have hGe := leafTick_enters e w o.gid gst' _ glog' _ w trg hgtk
    have hGs : Ev.enter o.gid ∈ trg := by
      have := tickF_enter_self e (f2 + 1) w
        (leaf o.gid gst' (.checkValue { key := o.flag, path := [], op := .eq, value := .bool true }) glog') _ w trg
        (by simp only [tickF]; exact hgtk)
      simpa [Node.id] using this
    refine ⟨?_, ?_, hself, fun h1 => absurd h1 hst, fun _ => ⟨?_, ?_, ?_⟩⟩
    · rcases hcase with ⟨_, _, _, rfl, _⟩ | ⟨_, d2, tr2, hl2, _, _⟩
      · rfl
      · obtain ⟨_, _, _, hw, _⟩ := taskLoop (f2 + 1) e w t0 hnb0 d2 r w' tr2 hl2
        exact hw
    · rcases hcase with ⟨hns, rfl, rfl, rfl, rfl⟩ | ⟨hs, d2, tr2, hl2, rfl, rfl⟩
      · rcases hshape with ⟨h1, _⟩ | ⟨c', u, h1, rfl⟩
        · cases h1
        · simp only [Option.some.injEq, Prod.mk.injEq] at h1
          obtain ⟨rfl, rfl⟩ := h1
          simp only [Node.status] at hns
          have : og = .failure := by rcases hor with h | h; exact absurd h hns; exact h
          subst this
          simp [optOK, Node.status]
      · obtain ⟨c2, trt, hT, _, hs1, hs2, hc2⟩ := taskLoop (f2 + 1) e w t0 hnb0 d2 r w' tr2 hl2
        rcases hc2 with ⟨hns, rfl, rfl⟩ | ⟨hs2', rfl, rfl⟩
        · rcases hshape with ⟨h1, _⟩ | ⟨c', u, h1, rfl⟩
          · cases h1
          · simp only [Option.some.injEq, Prod.mk.injEq] at h1
            obtain ⟨rfl, rfl⟩ := h1
            simp [optOK]
        · rcases hshape with ⟨_, rfl⟩ | ⟨c', u, h1, _⟩
          · simp [optOK]
          · cases h1
    · apply hsub
      rcases hcase with ⟨_, _, _, _, rfl⟩ | ⟨_, d2, tr2, _, _, rfl⟩
      · exact hGs
      · simp [hGs]
    · intro hoff
      have hof : og = .failure := by
        rcases hor with h1 | h1
        · exact absurd (hiff.mp h1) hoff
        · exact h1
      subst hof
      rcases hcase with ⟨hns, rfl, rfl, rfl, rfl⟩ | ⟨hs, _⟩
      · rcases hshape with ⟨h1, _⟩ | ⟨c', u, h1, rfl⟩
        · cases h1
        · simp only [Option.some.injEq, Prod.mk.injEq] at h1
          obtain ⟨rfl, rfl⟩ := h1
          refine ⟨rfl, ?_⟩
          intro j hj
          rcases hent j hj with h1 | h1
          · exact Or.inl h1
          · right; simpa using hGe j h1
      · simp [Node.status] at hs
    · intro hon
      have hos : og = .success := hiff.mpr hon
      subst hos
      rcases hcase with ⟨hns, _⟩ | ⟨hs, d2, tr2, hl2, rfl, rfl⟩
      · simp [Node.status] at hns
      · obtain ⟨c2, trt, hT, _, hs1, hs2, hc2⟩ := taskLoop (f2 + 1) e w t0 hnb0 d2 r w' tr2 hl2
        refine ⟨t0, hsk0, f2 + 1, c2, trt, hT, fun ev hev => hsub ev (by simp [hs1 ev hev]), ?_⟩
        rcases hc2 with ⟨hns, rfl, rfl⟩ | ⟨hs2', rfl, rfl⟩
        · rcases hshape with ⟨h1, _⟩ | ⟨c', u, h1, rfl⟩
          · cases h1
          · simp only [Option.some.injEq, Prod.mk.injEq] at h1
            obtain ⟨rfl, rfl⟩ := h1
            rfl
        · rcases hshape with ⟨_, rfl⟩ | ⟨c', u, h1, _⟩
          · exact hs2'.symm
          · cases h1

end C18c

namespace C18c
open C18b

/-- the subtree of the option will be ticked: the option is RUNNING (it resumes at the subtree) or its flag is set -/
def Elig (w : Store) (o : Opt) (c : Node) : Prop := c.status = .running ∨ flagOn w o.flag

/-- **one option, one tick**, for a node that is the option in a sane state -/
theorem opt_tick_node (o : Opt) (c : Node) (hc : IsOpt o c) (hnb : noBB o.task = true) (hnd : (optSkel o).ids.Nodup)
    (hokc : optOK c = true) (f : Nat) (e : Env) (w : Store) (c' : Node) (w' : Store) (tr : List Ev)
    (h : tickF f e w c = .ok (c', w', tr)) :
    w' = w ∧ optOK c' = true ∧ IsOpt o c' ∧ Enters (optSkel o).ids tr ∧ Ev.enter o.oid ∈ tr ∧
    (Elig w o c → ∃ t0, skel t0 = skel o.task ∧ TaskTick e w tr c'.status t0) ∧
    (¬ Elig w o c → c'.status = .failure ∧ Ev.enter o.task.id ∉ tr) ∧
    (c.status = .running → Ev.enter o.gid ∉ tr) ∧ (c.status ≠ .running → Ev.enter o.gid ∈ tr) := by
  have hsk := tickF_skel e f w c c' w' tr h
  have hen := tickF_enters e f w c c' w' tr h
  rw [(isOpt_iff_skel o c).mp hc] at hen
  obtain ⟨ost, ocur, gst, glog, t, rfl, ht⟩ := hc
  obtain ⟨h1, h2, h3, h4, h5⟩ := opt_tick o ost ocur gst glog t ht hnb hnd f e w c' w' tr
    ((optOK_optNode o ost ocur gst glog t).mp hokc) h
  obtain ⟨hto, htg, _⟩ := opt_id_facts o hnd
  have hst : (optNode o ost ocur gst glog t).status = ost := rfl
  refine ⟨h1, h2, isOpt_of_skel ⟨ost, ocur, gst, glog, t, rfl, ht⟩ hsk, hen, h3, ?_, ?_, ?_, ?_⟩
  · intro hel
    by_cases hr : ost = .running
    · exact ⟨t, ht, (h4 hr).1⟩
    · rcases hel with hel | hel
      · exact absurd hel hr
      · exact (h5 hr).2.2 hel
  · intro hel
    simp only [Elig, hst, not_or] at hel
    obtain ⟨hf, hent⟩ := (h5 hel.1).2.1 hel.2
    refine ⟨hf, ?_⟩
    intro hin
    rcases hent _ hin with h | h
    · exact hto h
    · exact htg h
  · intro hr; exact (h4 hr).2
  · intro hr; exact (h5 hr).1

/-- one step of the Selector loop -/
theorem selLoop_cons_inv (T : Tick) (w : Store) (c : Node) (cs done : List Node) (r : Option (Node × List Node))
    (w' : Store) (tr : List Ev) (h : selLoop T w (c :: cs) = .ok (done, r, w', tr)) :
    ∃ c1 w1 tr1, T w c = .ok (c1, w1, tr1) ∧
      (((c1.status = .running ∨ c1.status = .success) ∧ done = [] ∧ r = some (c1, cs) ∧ w' = w1 ∧ tr = tr1) ∨
       (¬ (c1.status = .running ∨ c1.status = .success) ∧
          ∃ d2 tr2, selLoop T w1 cs = .ok (d2, r, w', tr2) ∧ done = c1 :: d2 ∧ tr = tr1 ++ tr2)) := by
  simp only [selLoop, bind, Except.bind] at h
  cases htc : T w c with
  | error err => simp [htc] at h
  | ok v =>
    obtain ⟨c1, w1, tr1⟩ := v
    simp only [htc] at h
    refine ⟨c1, w1, tr1, rfl, ?_⟩
    by_cases hs : c1.status = .running ∨ c1.status = .success
    · left
      simp only [hs, ↓reduceIte, pure, Except.pure, Except.ok.injEq, Prod.mk.injEq] at h
      obtain ⟨h1, h2, h3, h4⟩ := h
      exact ⟨hs, h1.symm, h2.symm, h3.symm, h4.symm⟩
    · right
      simp only [hs, ↓reduceIte] at h
      cases hl : selLoop T w1 cs with
      | error err => simp [hl] at h
      | ok v =>
        obtain ⟨d2, r2, w2, tr2⟩ := v
        simp only [hl, pure, Except.pure, Except.ok.injEq, Prod.mk.injEq] at h
        obtain ⟨h1, h2, h3, h4⟩ := h
        subst h1 h2 h3 h4
        exact ⟨hs, d2, tr2, rfl, rfl, rfl⟩

theorem head_not_in_tail (o : Opt) (os : List Opt) (hnd : (Skel.idsL ((o :: os).map optSkel)).Nodup) : o ∉ os := by
  intro hin
  simp only [List.map_cons, Skel.idsL, List.nodup_append] at hnd
  exact hnd.2.2 _ (oid_mem_opt o) _ ((mem_idsL_opts os _).mpr ⟨o, hin, oid_mem_opt o⟩) rfl

theorem isOpt_unique {opts : List Opt} (hnd : (Skel.idsL (opts.map optSkel)).Nodup) {o o' : Opt} {c : Node}
    (ho : o ∈ opts) (ho' : o' ∈ opts) (h : IsOpt o c) (h' : IsOpt o' c) : o = o' := by
  have : o.oid = o'.oid := by rw [← isOpt_id h, ← isOpt_id h']
  exact opt_ids_unique opts hnd o ho o' ho' o.oid (oid_mem_opt o) (by rw [this]; exact oid_mem_opt o')

theorem tail_nodup (o : Opt) (os : List Opt) (hnd : (Skel.idsL ((o :: os).map optSkel)).Nodup) :
    (Skel.idsL (os.map optSkel)).Nodup := by
  simp only [List.map_cons, Skel.idsL, List.nodup_append] at hnd
  exact hnd.2.1

/-- ids of the head option do not occur in the ids of the later options -/
theorem head_ids_disjoint (o : Opt) (os : List Opt) (hnd : (Skel.idsL ((o :: os).map optSkel)).Nodup)
    (x : Nat) (hx : x ∈ (optSkel o).ids) : x ∉ Skel.idsL (os.map optSkel) := by
  intro hin
  simp only [List.map_cons, Skel.idsL, List.nodup_append] at hnd
  exact hnd.2.2 _ hx _ hin rfl

end C18c

namespace C18c
open C18b

theorem not_in_head_trace (o : Opt) (os : List Opt) (hnd : (Skel.idsL ((o :: os).map optSkel)).Nodup)
    (tr1 : List Ev) (hen : Enters (optSkel o).ids tr1) (x : Opt) (hx : x ∈ os) (y : Nat)
    (hy : y ∈ (optSkel x).ids) : Ev.enter y ∉ tr1 := by
  intro hin
  exact head_ids_disjoint o os hnd y (hen y hin) ((mem_idsL_opts os y).mpr ⟨x, hx, hy⟩)

theorem not_in_tail_trace (o : Opt) (os : List Opt) (hnd : (Skel.idsL ((o :: os).map optSkel)).Nodup)
    (tr2 : List Ev) (hen : Enters (Skel.idsL (os.map optSkel)) tr2) (y : Nat)
    (hy : y ∈ (optSkel o).ids) : Ev.enter y ∉ tr2 := by
  intro hin
  exact head_ids_disjoint o os hnd y hy (hen y hin)

/-- **the chooser's loop over the options** (options in sane states, any statuses): the store is untouched; the options
    that were ticked and did not stop the loop (`done`) returned FAILURE/INVALID; the subtree of an option is entered
    only if the option is eligible (`Elig`: RUNNING, or flag set), its guard only if it was not RUNNING; every eligible
    option up to and including the stopper had its subtree ticked; nothing after the stopper is entered. -/
theorem optsLoop (f : Nat) (e : Env) : ∀ (opts : List Opt) (ns : List Node) (w : Store) (done : List Node)
    (r : Option (Node × List Node)) (w' : Store) (tr : List Ev),
    AllRel IsOpt opts ns → (∀ o ∈ opts, noBB o.task = true) → (Skel.idsL (opts.map optSkel)).Nodup →
    (∀ c ∈ ns, optOK c = true) → selLoop (tickF f e) w ns = .ok (done, r, w', tr) →
    w' = w ∧
    (∀ d ∈ done, optOK d = true ∧ d.status ≠ .running ∧ d.status ≠ .success) ∧
    (∀ o ∈ opts, Ev.enter o.task.id ∈ tr → ∃ c ∈ ns, IsOpt o c ∧ Elig w o c) ∧
    (∀ o ∈ opts, Ev.enter o.gid ∈ tr → ∃ c ∈ ns, IsOpt o c ∧ c.status ≠ .running) ∧
    ∃ o1 o2 n1 n2, opts = o1 ++ o2 ∧ ns = n1 ++ n2 ∧ AllRel IsOpt o1 n1 ∧ AllRel IsOpt o1 done ∧ AllRel IsOpt o2 n2 ∧
      (∀ o ∈ o1, ∀ c ∈ n1, IsOpt o c →
        (Elig w o c → ∃ d ∈ done, IsOpt o d ∧ ∃ t0, skel t0 = skel o.task ∧ TaskTick e w tr d.status t0) ∧
        (c.status ≠ .running → Ev.enter o.gid ∈ tr)) ∧
      ((r = none ∧ o2 = []) ∨
       (∃ c' u o b c0, r = some (c', u) ∧ o2 = o :: b ∧ n2 = c0 :: u ∧ IsOpt o c0 ∧ IsOpt o c' ∧ optOK c' = true ∧
          (c'.status = .running ∨ c'.status = .success) ∧ Elig w o c0 ∧
          (∃ t0, skel t0 = skel o.task ∧ TaskTick e w tr c'.status t0) ∧
          (c0.status = .running → Ev.enter o.gid ∉ tr) ∧ (c0.status ≠ .running → Ev.enter o.gid ∈ tr) ∧
          (∀ x ∈ b, Ev.enter x.task.id ∉ tr ∧ Ev.enter x.gid ∉ tr ∧ Ev.enter x.oid ∉ tr)))
| [], [], w, done, r, w', tr, _, _, _, _, h => by
    simp only [selLoop, pure, Except.pure, Except.ok.injEq, Prod.mk.injEq] at h
    obtain ⟨h1, h2, h3, h4⟩ := h
    subst h1 h2 h3 h4
    refine ⟨rfl, by simp, by simp, by simp, [], [], [], [], rfl, rfl, by simp [AllRel], by simp [AllRel],
      by simp [AllRel], by simp, Or.inl ⟨rfl, rfl⟩⟩
| [], _ :: _, _, _, _, _, _, h, _, _, _, _ => by simp [AllRel] at h
| _ :: _, [], _, _, _, _, _, h, _, _, _, _ => by simp [AllRel] at h
| o :: os, c :: cs, w, done, r, w', tr, hrel, hnb, hnd, hok, h => by
    simp only [AllRel] at hrel
    obtain ⟨hc, hrel'⟩ := hrel
    have hndo : (optSkel o).ids.Nodup := opt_ids_nodup (o :: os) hnd o (by simp)
    have hnd' := tail_nodup o os hnd
    obtain ⟨c1, w1, tr1, hT, hcase⟩ := selLoop_cons_inv _ _ _ _ _ _ _ _ h
    obtain ⟨hw1, hok1, hc1, hen1, hoid1, hE1, hE2, hG1, hG2⟩ :=
      opt_tick_node o c hc (hnb o (by simp)) hndo (hok c (by simp)) f e w c1 w1 tr1 hT
    subst w1
    -- facts about the head option's trace
    have hA1 : ∀ o' ∈ o :: os, Ev.enter o'.task.id ∈ tr1 → ∃ c_ ∈ c :: cs, IsOpt o' c_ ∧ Elig w o' c_ := by
      intro o' ho' hin
      simp only [List.mem_cons] at ho'
      rcases ho' with rfl | ho'
      · by_cases hel : Elig w o' c
        · exact ⟨c, by simp, hc, hel⟩
        · exact absurd hin (hE2 hel).2
      · exact absurd hin (not_in_head_trace o os hnd tr1 hen1 o' ho' _ (task_id_mem_opt o'))
    have hA1' : ∀ o' ∈ o :: os, Ev.enter o'.gid ∈ tr1 → ∃ c_ ∈ c :: cs, IsOpt o' c_ ∧ c_.status ≠ .running := by
      intro o' ho' hin
      simp only [List.mem_cons] at ho'
      rcases ho' with rfl | ho'
      · by_cases hr : c.status = .running
        · exact absurd hin (hG1 hr)
        · exact ⟨c, by simp, hc, hr⟩
      · exact absurd hin (not_in_head_trace o os hnd tr1 hen1 o' ho' _ (gid_mem_opt o'))
    rcases hcase with ⟨hs, hd, hr, hw, htr⟩ | ⟨hs, d2, tr2, hl2, hd, htr⟩
    · subst hd hr
      subst w'
      subst tr
      refine ⟨rfl, by simp, hA1, hA1', [], o :: os, [], c :: cs, rfl, rfl, by simp [AllRel], by simp [AllRel],
        by simp only [AllRel]; exact ⟨hc, hrel'⟩, by simp, Or.inr ?_⟩
      have hel : Elig w o c := by
        by_cases hel : Elig w o c
        · exact hel
        · have := (hE2 hel).1
          rw [this] at hs
          simp at hs
      refine ⟨c1, cs, o, os, c, rfl, rfl, rfl, hc, hc1, hok1, hs, hel, hE1 hel, hG1, hG2, ?_⟩
      intro x hx
      exact ⟨not_in_head_trace o os hnd tr1 hen1 x hx _ (task_id_mem_opt x),
        not_in_head_trace o os hnd tr1 hen1 x hx _ (gid_mem_opt x),
        not_in_head_trace o os hnd tr1 hen1 x hx _ (oid_mem_opt x)⟩
    · subst hd htr
      obtain ⟨hw', hdone, hA, hA', o1, o2, n1, n2, hos, hcs, hr1, hr2, hr3, hB, hC⟩ :=
        optsLoop f e os cs w d2 r w' tr2 hrel' (fun x hx => hnb x (by simp [hx])) hnd'
          (fun x hx => hok x (by simp [hx])) hl2
      have hen2 : Enters (Skel.idsL (os.map optSkel)) tr2 := by
        have := selLoop_enters (tickF f e) (fun w c c' w' tr h => tickF_enters e f w c c' w' tr h) cs w d2 r w' tr2 hl2
        rwa [(optsAre_iff os cs).mp hrel'] at this
      have hsub1 : ∀ ev ∈ tr1, ev ∈ tr1 ++ tr2 := fun ev hev => List.mem_append_left _ hev
      have hsub2 : ∀ ev ∈ tr2, ev ∈ tr1 ++ tr2 := fun ev hev => List.mem_append_right _ hev
      have ho1 : ∀ x ∈ o1, x ∈ os := fun x hx => by rw [hos]; exact List.mem_append_left _ hx
      have ho2 : ∀ x ∈ o2, x ∈ os := fun x hx => by rw [hos]; exact List.mem_append_right _ hx
      refine ⟨hw', ?_, ?_, ?_, o :: o1, o2, c :: n1, n2, by simp [hos], by simp [hcs],
        by simp only [AllRel]; exact ⟨hc, hr1⟩, by simp only [AllRel]; exact ⟨hc1, hr2⟩, hr3, ?_, ?_⟩
      · intro d hd
        simp only [List.mem_cons] at hd
        rcases hd with rfl | hd
        · exact ⟨hok1, fun h => hs (Or.inl h), fun h => hs (Or.inr h)⟩
        · exact hdone d hd
      · intro o' ho' hin
        simp only [List.mem_append] at hin
        rcases hin with hin | hin
        · exact hA1 o' ho' hin
        · simp only [List.mem_cons] at ho'
          rcases ho' with rfl | ho'
          · exact absurd hin (not_in_tail_trace o' os hnd tr2 hen2 _ (task_id_mem_opt o'))
          · obtain ⟨c_, hc_, h1, h2⟩ := hA o' ho' hin
            exact ⟨c_, by simp [hc_], h1, h2⟩
      · intro o' ho' hin
        simp only [List.mem_append] at hin
        rcases hin with hin | hin
        · exact hA1' o' ho' hin
        · simp only [List.mem_cons] at ho'
          rcases ho' with rfl | ho'
          · exact absurd hin (not_in_tail_trace o' os hnd tr2 hen2 _ (gid_mem_opt o'))
          · obtain ⟨c_, hc_, h1, h2⟩ := hA' o' ho' hin
            exact ⟨c_, by simp [hc_], h1, h2⟩
      · intro o_ ho_ c_ hc_ hoc
        simp only [List.mem_cons] at ho_ hc_
        rcases ho_ with rfl | ho_ <;> rcases hc_ with rfl | hc_
        · refine ⟨fun hel => ?_, fun hr => hsub1 _ (hG2 hr)⟩
          obtain ⟨t0, ht0, hTT⟩ := hE1 hel
          exact ⟨c1, by simp, hc1, t0, ht0, hTT.mono hsub1⟩
        · exfalso
          obtain ⟨x, hx, hxc⟩ := allRel_mem_right IsOpt o1 n1 hr1 c_ hc_
          have := isOpt_unique hnd (by simp) (by simp [ho1 x hx]) hoc hxc
          subst this
          exact head_not_in_tail o_ os hnd (ho1 _ hx)
        · exfalso
          have := isOpt_unique hnd (by simp [ho1 o_ ho_]) (by simp) hoc hc
          subst this
          exact head_not_in_tail o_ os hnd (ho1 _ ho_)
        · obtain ⟨h1, h2⟩ := hB o_ ho_ c_ hc_ hoc
          refine ⟨fun hel => ?_, fun hr => hsub2 _ (h2 hr)⟩
          obtain ⟨d, hd, hod, t0, ht0, hTT⟩ := h1 hel
          exact ⟨d, by simp [hd], hod, t0, ht0, hTT.mono hsub2⟩
      · rcases hC with ⟨h1, h2⟩ | ⟨c', u, os_, b, c0, h1, h2, h3, h4, h5, h6, h7, h8, ⟨t0, ht0, hTT⟩, h10, h10', h11⟩
        · exact Or.inl ⟨h1, h2⟩
        · right
          have hos_ : os_ ∈ os := ho2 _ (by rw [h2]; simp)
          refine ⟨c', u, os_, b, c0, h1, h2, h3, h4, h5, h6, h7, h8, ⟨t0, ht0, hTT.mono hsub2⟩, ?_, ?_, ?_⟩
          · intro hr hin
            simp only [List.mem_append] at hin
            rcases hin with hin | hin
            · exact not_in_head_trace o os hnd tr1 hen1 os_ hos_ _ (gid_mem_opt os_) hin
            · exact h10 hr hin
          · intro hr; exact hsub2 _ (h10' hr)
          · intro x hx
            have hxos : x ∈ os := ho2 _ (by rw [h2]; simp [hx])
            obtain ⟨g1, g2, g3⟩ := h11 x hx
            refine ⟨?_, ?_, ?_⟩ <;> intro hin <;> simp only [List.mem_append] at hin <;> rcases hin with hin | hin
            · exact not_in_head_trace o os hnd tr1 hen1 x hxos _ (task_id_mem_opt x) hin
            · exact g1 hin
            · exact not_in_head_trace o os hnd tr1 hen1 x hxos _ (gid_mem_opt x) hin
            · exact g2 hin
            · exact not_in_head_trace o os hnd tr1 hen1 x hxos _ (oid_mem_opt x) hin
            · exact g3 hin

end C18c

namespace C18c
open C18b

/-! ## 3. the chooser (memoryless Selector over the options) -/

/-- anatomy of a tick of a memoryless Selector with children -/
theorem sel_tick_inv (f : Nat) (e : Env) (w : Store) (sid : Nat) (sst : Status) (scur : Option Nat) (os : List Node)
    (n' : Node) (w' : Store) (tr : List Ev) (hne : os ≠ [])
    (h : tickF f e w (sel sid false sst scur os) = .ok (n', w', tr)) :
    ∃ f' failed r trl, f = f' + 1 ∧ selLoop (tickF f' e) w os = .ok (failed, r, w', trl) ∧
      (∀ j, Ev.enter j ∈ tr → j = sid ∨ Ev.enter j ∈ trl) ∧ (∀ ev ∈ trl, ev ∈ tr) ∧ Ev.enter sid ∈ tr ∧
      ((r = none ∧ n' = sel sid false .failure (lastId? failed) failed) ∨
       (∃ c' u tail, r = some (c', u) ∧ n' = sel sid false c'.status (some c'.id) (failed ++ c' :: tail) ∧
          ((tail = u ∧ (if sst ≠ .running then os.head?.map Node.id else scur) = some c'.id) ∨
           tail = (stopInvNonInvalid u).1))) := by
  cases f with
  | zero => simp [tickF] at h
  | succ f =>
    have hemp : os.isEmpty = false := by cases os <;> simp_all
    simp only [tickF, hemp, Bool.false_eq_true, ↓reduceIte, selEntry, bind, Except.bind, pure, Except.pure,
      selRun] at h
    cases hl : selLoop (tickF f e) w os with
    | error err => simp [hl] at h
    | ok v =>
      obtain ⟨failed, r, w1, trl⟩ := v
      simp only [hl] at h
      cases r with
      | none =>
        simp only [Except.ok.injEq, Prod.mk.injEq] at h
        obtain ⟨h1, h2, h3⟩ := h
        subst h1 h2 h3
        refine ⟨f, failed, none, trl, rfl, hl, ?_, ?_, by simp, Or.inl ⟨rfl, by simp⟩⟩
        · intro j hj
          simp only [List.mem_append, List.mem_cons, Ev.enter.injEq, reduceCtorEq, or_false, List.not_mem_nil,
            false_or] at hj
          rcases hj with hj | hj
          · exact Or.inl hj
          · exact Or.inr hj
        · intro ev hev; simp [hev]
      | some p =>
        obtain ⟨c', u⟩ := p
        simp only at h
        by_cases hcur : (if sst ≠ .running then os.head?.map Node.id else scur) = some c'.id
        · simp only [hcur, ↓reduceIte, Except.ok.injEq, Prod.mk.injEq] at h
          obtain ⟨h1, h2, h3⟩ := h
          subst h1 h2 h3
          refine ⟨f, failed, _, trl, rfl, hl, ?_, ?_, by simp, Or.inr ⟨c', u, u, rfl, by simp, Or.inl ⟨rfl, hcur⟩⟩⟩
          · intro j hj
            simp only [List.mem_append, List.mem_cons, Ev.enter.injEq, reduceCtorEq, or_false, List.not_mem_nil,
              false_or] at hj
            rcases hj with hj | hj
            · exact Or.inl hj
            · exact Or.inr hj
          · intro ev hev; simp [hev]
        · simp only [hcur, ↓reduceIte, Except.ok.injEq, Prod.mk.injEq] at h
          obtain ⟨h1, h2, h3⟩ := h
          subst h1 h2 h3
          refine ⟨f, failed, _, trl, rfl, hl, ?_, ?_, by simp,
            Or.inr ⟨c', u, (stopInvNonInvalid u).1, rfl, by simp, Or.inr rfl⟩⟩
          · intro j hj
            simp only [List.mem_append, List.mem_cons, Ev.enter.injEq, reduceCtorEq, or_false, List.not_mem_nil,
              false_or] at hj
            rcases hj with (hj | hj) | hj
            · exact Or.inl hj
            · exact Or.inr hj
            · exact (stopInvNonInvalid_noEnter u j hj).elim
          · intro ev hev; simp [hev]

theorem optOK_stopInv (c : Node) : optOK (stopInv c).1 = true := by
  cases c with
  | seq i m s cur cs =>
    simp only [stopInv]
    match (stopInvNonInvalid cs).1 with
    | [] => simp [optOK]
    | [a] => simp [optOK]
    | [a, b] => simp [optOK]
    | a :: b :: c :: rest => simp [optOK]
  | _ => simp [stopInv, optOK]

theorem stopInvNonInvalid_facts : ∀ (cs : List Node), (∀ c ∈ cs, optOK c = true) →
    ∀ c ∈ (stopInvNonInvalid cs).1, optOK c = true ∧ c.status = .invalid
| [], _, c, hc => by simp [stopInvNonInvalid] at hc
| a :: cs, h, c, hc => by
    simp only [stopInvNonInvalid, List.mem_cons] at hc
    rcases hc with rfl | hc
    · split
      · exact ⟨optOK_stopInv a, stopInv_status a⟩
      · rename_i hs
        simp only [ne_eq, Decidable.not_not] at hs
        exact ⟨h a (by simp), hs⟩
    · exact stopInvNonInvalid_facts cs (fun x hx => h x (by simp [hx])) c hc

theorem optsAre_ids : ∀ (opts : List Opt) (ns : List Node), AllRel IsOpt opts ns → ns.map Node.id = opts.map Opt.oid
| [], [], _ => rfl
| [], _ :: _, h => by simp [AllRel] at h
| _ :: _, [], h => by simp [AllRel] at h
| o :: os, c :: cs, h => by
    simp only [AllRel] at h
    simp [isOpt_id h.1, optsAre_ids os cs h.2]

theorem oids_nodup : ∀ (opts : List Opt), (Skel.idsL (opts.map optSkel)).Nodup → (opts.map Opt.oid).Nodup
| [], _ => by simp
| o :: os, h => by
    simp only [List.map_cons, List.nodup_cons, List.mem_map, not_exists, not_and]
    refine ⟨?_, oids_nodup os (tail_nodup o os h)⟩
    intro x hx heq
    exact head_ids_disjoint o os h o.oid (oid_mem_opt o) ((mem_idsL_opts os _).mpr ⟨x, hx, by rw [← heq]; exact oid_mem_opt x⟩)

theorem nodes_ids_nodup {opts : List Opt} {ns : List Node} (hrel : AllRel IsOpt opts ns)
    (hnd : (Skel.idsL (opts.map optSkel)).Nodup) : (ns.map Node.id).Nodup := by
  rw [optsAre_ids opts ns hrel]; exact oids_nodup opts hnd

end C18c

namespace C18c
open C18b

/-- **one tick of the chooser** over options in sane states, in which a RUNNING option is the one the chooser
    remembers (`hP`).  The store is untouched; `done` are the options ticked before the selected one (all returned
    FAILURE/INVALID); either every option failed, or option `o` (node `c0` before, `c'` after) was selected. -/
theorem chooser_tick (opts : List Opt) (sid : Nat) (sst : Status) (scur : Option Nat) (os : List Node)
    (hrel : AllRel IsOpt opts os) (hne : opts ≠ []) (hnb : ∀ o ∈ opts, noBB o.task = true)
    (hnd : (Skel.idsL (opts.map optSkel)).Nodup) (hsid : sid ∉ Skel.idsL (opts.map optSkel))
    (hok : ∀ c ∈ os, optOK c = true)
    (hP : ∀ c ∈ os, c.status = .running → sst = .running ∧ scur = some c.id)
    (f : Nat) (e : Env) (w : Store) (S' : Node) (w' : Store) (tr : List Ev)
    (h : tickF f e w (sel sid false sst scur os) = .ok (S', w', tr)) :
    w' = w ∧ Ev.enter sid ∈ tr ∧
    (∀ j, Ev.enter j ∈ tr → j = sid ∨ j ∈ Skel.idsL (opts.map optSkel)) ∧
    (∀ o ∈ opts, Ev.enter o.task.id ∈ tr → ∃ c ∈ os, IsOpt o c ∧ Elig w o c) ∧
    (∀ o ∈ opts, Ev.enter o.gid ∈ tr → ∃ c ∈ os, IsOpt o c ∧ c.status ≠ .running) ∧
    ∃ sst' scur' os', S' = sel sid false sst' scur' os' ∧ AllRel IsOpt opts os' ∧ (∀ c ∈ os', optOK c = true) ∧
      ∃ o1 o2 n1 n2 done, opts = o1 ++ o2 ∧ os = n1 ++ n2 ∧ AllRel IsOpt o1 n1 ∧ AllRel IsOpt o1 done ∧
        AllRel IsOpt o2 n2 ∧ (∀ d ∈ done, d.status ≠ .running ∧ d.status ≠ .success) ∧
        (∀ o ∈ o1, ∀ c ∈ n1, IsOpt o c →
          (Elig w o c → ∃ d ∈ done, IsOpt o d ∧ ∃ t0, skel t0 = skel o.task ∧ TaskTick e w tr d.status t0) ∧
          (c.status ≠ .running → Ev.enter o.gid ∈ tr)) ∧
        ((sst' = .failure ∧ o2 = [] ∧ os' = done) ∨
         (∃ c' tail o b c0 u, o2 = o :: b ∧ n2 = c0 :: u ∧ os' = done ++ c' :: tail ∧ sst' = c'.status ∧
            scur' = some o.oid ∧ IsOpt o c0 ∧ IsOpt o c' ∧ (c'.status = .running ∨ c'.status = .success) ∧
            Elig w o c0 ∧ (∃ t0, skel t0 = skel o.task ∧ TaskTick e w tr c'.status t0) ∧
            (c0.status = .running → Ev.enter o.gid ∉ tr) ∧ (c0.status ≠ .running → Ev.enter o.gid ∈ tr) ∧
            (∀ x ∈ b, Ev.enter x.task.id ∉ tr ∧ Ev.enter x.gid ∉ tr ∧ Ev.enter x.oid ∉ tr) ∧
            (∀ d ∈ tail, d.status ≠ .running))) := by
  have hosne : os ≠ [] := by
    intro h0; subst h0
    exact hne (allRel_nil_right IsOpt opts hrel)
  have hskS := tickF_skel e f w _ S' w' tr h
  obtain ⟨f', failed, r, trl, rfl, hl, hent, hsub, hself, hshape⟩ :=
    sel_tick_inv f e w sid sst scur os S' w' tr hosne h
  obtain ⟨hw', hdone, hA, hA', o1, o2, n1, n2, hos, hcs, hr1, hr2, hr3, hB, hC⟩ :=
    optsLoop f' e opts os w failed r w' trl hrel hnb hnd hok hl
  have henl : Enters (Skel.idsL (opts.map optSkel)) trl := by
    have := selLoop_enters (tickF f' e) (fun w c c' w' tr h => tickF_enters e f' w c c' w' tr h) os w failed r w' trl hl
    rwa [(optsAre_iff opts os).mp hrel] at this
  -- an `enter` of an option id in the chooser's trace is in the loop's trace
  have hin_l : ∀ j, j ∈ Skel.idsL (opts.map optSkel) → Ev.enter j ∈ tr → Ev.enter j ∈ trl := by
    intro j hj hin
    rcases hent j hin with h1 | h1
    · subst h1; exact absurd hj hsid
    · exact h1
  have hmem : ∀ o ∈ opts, ∀ y ∈ (optSkel o).ids, y ∈ Skel.idsL (opts.map optSkel) :=
    fun o ho y hy => (mem_idsL_opts opts y).mpr ⟨o, ho, hy⟩
  have hidn := nodes_ids_nodup hrel hnd
  refine ⟨hw', hself, ?_, ?_, ?_, ?_⟩
  · intro j hj
    rcases hent j hj with h1 | h1
    · exact Or.inl h1
    · exact Or.inr (henl j h1)
  · intro o ho hin
    exact hA o ho (hin_l _ (hmem o ho _ (task_id_mem_opt o)) hin)
  · intro o ho hin
    exact hA' o ho (hin_l _ (hmem o ho _ (gid_mem_opt o)) hin)
  · have hB' : ∀ o ∈ o1, ∀ c ∈ n1, IsOpt o c →
        (Elig w o c → ∃ d ∈ failed, IsOpt o d ∧ ∃ t0, skel t0 = skel o.task ∧ TaskTick e w tr d.status t0) ∧
        (c.status ≠ .running → Ev.enter o.gid ∈ tr) := by
      intro o ho c hc hoc
      obtain ⟨h1, h2⟩ := hB o ho c hc hoc
      refine ⟨fun hel => ?_, fun hr => hsub _ (h2 hr)⟩
      obtain ⟨d, hd, hod, t0, ht0, hTT⟩ := h1 hel
      exact ⟨d, hd, hod, t0, ht0, hTT.mono hsub⟩
    rcases hshape with ⟨rfl, rfl⟩ | ⟨c', u, tail, rfl, rfl, htail⟩
    · rcases hC with ⟨_, ho2⟩ | ⟨c', u, o, b, c0, h1, _⟩
      · have hrel' : AllRel IsOpt opts failed := by
          rw [optsAre_iff]
          simp only [skel, Skel.sel.injEq, true_and] at hskS
          rw [hskS]; exact (optsAre_iff opts os).mp hrel
        exact ⟨.failure, _, failed, rfl, hrel', fun c hc => (hdone c hc).1, o1, o2, n1, n2, failed, hos, hcs, hr1, hr2,
          hr3, fun d hd => (hdone d hd).2, hB', Or.inl ⟨rfl, ho2, rfl⟩⟩
      · cases h1
    · rcases hC with ⟨h1, _⟩ | ⟨c'', u', o, b, c0, h1, ho2, hn2, hoc0, hoc', hokc', hst', hel, ⟨t0, ht0, hTT⟩, hg1, hg2, hb⟩
      · cases h1
      · simp only [Option.some.injEq, Prod.mk.injEq] at h1
        obtain ⟨rfl, rfl⟩ := h1
        have hrel' : AllRel IsOpt opts (failed ++ c' :: tail) := by
          rw [optsAre_iff]
          simp only [skel, Skel.sel.injEq, true_and] at hskS
          rw [hskS]; exact (optsAre_iff opts os).mp hrel
        have hoin : o ∈ opts := by rw [hos, ho2]; simp
        have hbin : ∀ x ∈ b, x ∈ opts := fun x hx => by rw [hos, ho2]; simp [hx]
        have huin : ∀ d ∈ u, d ∈ os := fun d hd => by rw [hcs, hn2]; simp [hd]
        have htailf : ∀ d ∈ tail, optOK d = true ∧ d.status ≠ .running := by
          intro d hd
          rcases htail with ⟨rfl, hcur⟩ | rfl
          · refine ⟨hok d (huin d hd), ?_⟩
            intro hrun
            obtain ⟨hs, hsc⟩ := hP d (huin d hd) hrun
            simp only [hs, ne_eq, not_true_eq_false, ↓reduceIte, hsc, Option.some.injEq] at hcur
            have hid : d.id = c0.id := by rw [hcur, isOpt_id hoc', isOpt_id hoc0]
            rw [hcs, hn2, List.map_append, List.map_cons, List.nodup_append] at hidn
            have := hidn.2.1
            simp only [List.nodup_cons, List.mem_map, not_exists, not_and] at this
            exact this.1 d hd hid
          · obtain ⟨g1, g2⟩ := stopInvNonInvalid_facts u (fun x hx => hok x (huin x hx)) d hd
            exact ⟨g1, by rw [g2]; simp⟩
        refine ⟨c'.status, some c'.id, failed ++ c' :: tail, rfl, hrel', ?_, o1, o2, n1, n2, failed, hos, hcs, hr1, hr2,
          hr3, fun d hd => (hdone d hd).2, hB', Or.inr ⟨c', tail, o, b, c0, u, ho2, hn2, rfl, rfl,
            by rw [isOpt_id hoc'], hoc0, hoc', hst', hel, ⟨t0, ht0, hTT.mono hsub⟩, ?_, fun hr => hsub _ (hg2 hr), ?_,
            fun d hd => (htailf d hd).2⟩⟩
        · intro c hc
          simp only [List.mem_append, List.mem_cons] at hc
          rcases hc with hc | rfl | hc
          · exact (hdone c hc).1
          · exact hokc'
          · exact (htailf c hc).1
        · intro hr hin
          exact hg1 hr (hin_l _ (hmem o hoin _ (gid_mem_opt o)) hin)
        · intro x hx
          obtain ⟨g1, g2, g3⟩ := hb x hx
          exact ⟨fun hin => g1 (hin_l _ (hmem x (hbin x hx) _ (task_id_mem_opt x)) hin),
            fun hin => g2 (hin_l _ (hmem x (hbin x hx) _ (gid_mem_opt x)) hin),
            fun hin => g3 (hin_l _ (hmem x (hbin x hx) _ (oid_mem_opt x)) hin)⟩

end C18c

namespace C18c
open C18b

/-- option-level eligibility: `act` is the option the chooser is RUNNING at (if any); the subtree of `o` will be ticked
    when the chooser reaches it iff `o` is that option or its flag is set -/
def EligO (act : Option Opt) (w : Store) (o : Opt) : Prop := act = some o ∨ flagOn w o.flag

/-- **one tick of the chooser, in terms of the options**.  `act` = the option that is RUNNING (none: no option is). -/
theorem chooser_tick_act (opts : List Opt) (sid : Nat) (sst : Status) (scur : Option Nat) (os : List Node)
    (hrel : AllRel IsOpt opts os) (hne : opts ≠ []) (hnb : ∀ o ∈ opts, noBB o.task = true)
    (hnd : (Skel.idsL (opts.map optSkel)).Nodup) (hsid : sid ∉ Skel.idsL (opts.map optSkel))
    (hok : ∀ c ∈ os, optOK c = true) (act : Option Opt)
    (hact : ∀ o ∈ opts, ∀ c ∈ os, IsOpt o c → (c.status = .running ↔ act = some o))
    (hP : ∀ oj, act = some oj → sst = .running ∧ scur = some oj.oid)
    (f : Nat) (e : Env) (w : Store) (S' : Node) (w' : Store) (tr : List Ev)
    (h : tickF f e w (sel sid false sst scur os) = .ok (S', w', tr)) :
    w' = w ∧ Ev.enter sid ∈ tr ∧
    (∀ j, Ev.enter j ∈ tr → j = sid ∨ j ∈ Skel.idsL (opts.map optSkel)) ∧
    (∀ o ∈ opts, Ev.enter o.task.id ∈ tr → EligO act w o) ∧
    (∀ o ∈ opts, Ev.enter o.gid ∈ tr → act ≠ some o) ∧
    ∃ sst' scur' os', S' = sel sid false sst' scur' os' ∧ AllRel IsOpt opts os' ∧ (∀ c ∈ os', optOK c = true) ∧
      ∃ o1 o2, opts = o1 ++ o2 ∧
        (∀ o ∈ o1,
          (EligO act w o → ∃ st t0, st ≠ .running ∧ st ≠ .success ∧ skel t0 = skel o.task ∧ TaskTick e w tr st t0) ∧
          (act ≠ some o → Ev.enter o.gid ∈ tr)) ∧
        ((sst' = .failure ∧ o2 = [] ∧ ∀ d ∈ os', d.status ≠ .running) ∨
         (∃ o b c', o2 = o :: b ∧ c' ∈ os' ∧ IsOpt o c' ∧ sst' = c'.status ∧ scur' = some o.oid ∧
            (sst' = .running ∨ sst' = .success) ∧ EligO act w o ∧
            (∃ t0, skel t0 = skel o.task ∧ TaskTick e w tr sst' t0) ∧
            (act ≠ some o → Ev.enter o.gid ∈ tr) ∧ (act = some o → Ev.enter o.gid ∉ tr) ∧
            (∀ x ∈ b, Ev.enter x.task.id ∉ tr ∧ Ev.enter x.gid ∉ tr ∧ Ev.enter x.oid ∉ tr) ∧
            (∀ d ∈ os', d.status = .running → d = c'))) := by
  have hP' : ∀ c ∈ os, c.status = .running → sst = .running ∧ scur = some c.id := by
    intro c hc hr
    obtain ⟨o, ho, hoc⟩ := allRel_mem_right IsOpt opts os hrel c hc
    obtain ⟨h1, h2⟩ := hP o ((hact o ho c hc hoc).mp hr)
    exact ⟨h1, by rw [h2, isOpt_id hoc]⟩
  obtain ⟨hw', hself, hen, hA, hA', sst', scur', os', rfl, hrel', hok', o1, o2, n1, n2, done, hos, hcs, hr1, hr2, hr3,
    hdone, hB, hC⟩ := chooser_tick opts sid sst scur os hrel hne hnb hnd hsid hok hP' f e w S' w' tr h
  have hn1 : ∀ c ∈ n1, c ∈ os := fun c hc => by rw [hcs]; exact List.mem_append_left _ hc
  have ho1 : ∀ o ∈ o1, o ∈ opts := fun o ho => by rw [hos]; exact List.mem_append_left _ ho
  have helig : ∀ o ∈ opts, ∀ c ∈ os, IsOpt o c → (Elig w o c ↔ EligO act w o) := by
    intro o ho c hc hoc
    simp only [Elig, EligO, hact o ho c hc hoc]
  refine ⟨hw', hself, hen, ?_, ?_, sst', scur', os', rfl, hrel', hok', o1, o2, hos, ?_, ?_⟩
  · intro o ho hin
    obtain ⟨c, hc, hoc, hel⟩ := hA o ho hin
    exact (helig o ho c hc hoc).mp hel
  · intro o ho hin
    obtain ⟨c, hc, hoc, hr⟩ := hA' o ho hin
    intro ha
    exact hr ((hact o ho c hc hoc).mpr ha)
  · intro o ho
    obtain ⟨c, hc, hoc⟩ := allRel_mem_left IsOpt o1 n1 hr1 o ho
    obtain ⟨h1, h2⟩ := hB o ho c hc hoc
    refine ⟨fun hel => ?_, fun ha => h2 (fun hr => ha ((hact o (ho1 o ho) c (hn1 c hc) hoc).mp hr))⟩
    obtain ⟨d, hd, hod, t0, ht0, hTT⟩ := h1 ((helig o (ho1 o ho) c (hn1 c hc) hoc).mpr hel)
    exact ⟨d.status, t0, (hdone d hd).1, (hdone d hd).2, ht0, hTT⟩
  · rcases hC with ⟨h1, h2, h3⟩ | ⟨c', tail, o, b, c0, u, ho2, hn2, hos', hst', hcur', hoc0, hoc', hrs, hel, hTT, hg1, hg2,
      hb, htl⟩
    · left
      exact ⟨h1, h2, fun d hd => by rw [h3] at hd; exact (hdone d hd).1⟩
    · right
      have hoin : o ∈ opts := by rw [hos, ho2]; simp
      have hc0in : c0 ∈ os := by rw [hcs, hn2]; simp
      refine ⟨o, b, c', ho2, by rw [hos']; simp, hoc', hst', hcur', by rw [hst']; exact hrs,
        (helig o hoin c0 hc0in hoc0).mp hel, by rw [hst']; exact hTT,
        fun ha => hg2 (fun hr => ha ((hact o hoin c0 hc0in hoc0).mp hr)),
        fun ha => hg1 ((hact o hoin c0 hc0in hoc0).mpr ha), hb, ?_⟩
      intro d hd hr
      rw [hos'] at hd
      simp only [List.mem_append, List.mem_cons] at hd
      rcases hd with hd | hd | hd
      · exact absurd hr (hdone d hd).1
      · exact hd
      · exact absurd hr (htl d hd)

end C18c

namespace C18c
open C18b

/-! ## 4. the whole idiom -/

/-- side conditions of an instance: blackboard-free subtrees, pairwise distinct flags, one condition per option, at
    least two options, pairwise distinct ids (root, XOR leaf, chooser, option nodes, subtree-internal nodes), and the
    conditions do not read the idiom's own flags -/
def EitherOrOK (conds : List Check) (opts : List Opt) (rid xid sid : Nat) : Prop :=
  (∀ o ∈ opts, noBB o.task = true) ∧ (opts.map Opt.flag).Nodup ∧ conds.length = opts.length ∧ 2 ≤ opts.length ∧
  (eoSkel conds opts rid xid sid).ids.Nodup ∧ (∀ c ∈ conds, c.key ∉ opts.map Opt.flag)

theorem eoSkel_ids (conds : List Check) (opts : List Opt) (rid xid sid : Nat) :
    (eoSkel conds opts rid xid sid).ids = rid :: xid :: sid :: Skel.idsL (opts.map optSkel) := by
  simp [eoSkel, Skel.ids, Skel.idsL]

theorem EitherOrOK.ids {conds : List Check} {opts : List Opt} {rid xid sid : Nat}
    (h : EitherOrOK conds opts rid xid sid) :
    (Skel.idsL (opts.map optSkel)).Nodup ∧ sid ∉ Skel.idsL (opts.map optSkel) ∧
    xid ∉ Skel.idsL (opts.map optSkel) ∧ rid ∉ Skel.idsL (opts.map optSkel) ∧ xid ≠ sid ∧ rid ≠ xid ∧ rid ≠ sid := by
  have h5 := h.2.2.2.2.1
  rw [eoSkel_ids] at h5
  simp only [List.nodup_cons, List.mem_cons, not_or] at h5
  exact ⟨h5.2.2.2, h5.2.2.1, h5.2.1.2, h5.1.2.2, h5.2.1.1, h5.1.1, h5.1.2.1⟩

theorem EitherOrOK.ne {conds : List Check} {opts : List Opt} {rid xid sid : Nat}
    (h : EitherOrOK conds opts rid xid sid) : opts ≠ [] := by
  intro h0
  have := h.2.2.2.1
  rw [h0] at this
  simp at this

/-- **the state invariant** of an instance: every option is sane; when the root is not RUNNING no option is; when the
    root is RUNNING it remembers the chooser, the chooser is RUNNING and remembers an option `oj`, that option is RUNNING
    and no other option is.  True of a fresh instance, kept by ticks, interrupts and pokes. -/
def EOInv (opts : List Opt) : Node → Prop
| seq _ _ rst rcur [_, sel sid _ sst scur os] =>
    (∀ c ∈ os, optOK c = true) ∧
    (rst ≠ .running → ∀ c ∈ os, c.status ≠ .running) ∧
    (rst = .running → rcur = some sid ∧ sst = .running ∧
       ∃ oj ∈ opts, scur = some oj.oid ∧ (∃ c ∈ os, IsOpt oj c ∧ c.status = .running) ∧
         ∀ c ∈ os, c.status = .running → c.id = oj.oid)
| _ => True

/-- the id of the option the chooser remembers -/
def chosenId : Node → Option Nat
| seq _ _ _ _ [_, sel _ _ _ scur _] => scur
| _ => none

/-- what a tick of the chooser did, in terms of the options (`act`: the option that was RUNNING, if any; `st'`: the
    status the chooser — and hence the root — returned) -/
def ChooserOut (opts : List Opt) (sid : Nat) (e : Env) (act : Option Opt) (w : Store) (st' : Status) (tr : List Ev)
    (ch' : Option Nat) : Prop :=
  Ev.enter sid ∈ tr ∧
  (∀ o ∈ opts, Ev.enter o.task.id ∈ tr → EligO act w o) ∧
  (∀ o ∈ opts, Ev.enter o.gid ∈ tr → act ≠ some o) ∧
  ∃ o1 o2, opts = o1 ++ o2 ∧
    (∀ o ∈ o1,
      (EligO act w o → ∃ st t0, st ≠ .running ∧ st ≠ .success ∧ skel t0 = skel o.task ∧ TaskTick e w tr st t0) ∧
      (act ≠ some o → Ev.enter o.gid ∈ tr)) ∧
    ((st' = .failure ∧ o2 = []) ∨
     (∃ o b, o2 = o :: b ∧ (st' = .running ∨ st' = .success) ∧ ch' = some o.oid ∧ EligO act w o ∧
        (∃ t0, skel t0 = skel o.task ∧ TaskTick e w tr st' t0) ∧
        (act ≠ some o → Ev.enter o.gid ∈ tr) ∧ (act = some o → Ev.enter o.gid ∉ tr) ∧
        (∀ x ∈ b, Ev.enter x.task.id ∉ tr ∧ Ev.enter x.gid ∉ tr ∧ Ev.enter x.oid ∉ tr)))

/-- the XOR leaf, one tick -/
theorem xor_tick (e : Env) (w : Store) (x : Nat) (xs : Status) (xl : List LEv) (conds : List Check)
    (keys : List String) (X' : Node) (w1 : Store) (trx : List Ev)
    (h : leafTick e w x xs (.checkValues conds .xor (some keys)) xl = .ok (X', w1, trx)) :
    Enters [x] trx ∧ Ev.enter x ∈ trx ∧
    ((evalChecks w conds = .ok none ∧ w1 = w ∧ X'.status = .failure) ∨
     (∃ rs, evalChecks w conds = .ok (some rs) ∧ w1 = publishResults w keys rs ∧
        X'.status = if reduceLogic .xor rs then .success else .failure)) := by
  have hen := leafTick_enters e w x xs _ xl X' w1 trx h
  have hself : Ev.enter x ∈ trx := by
    have := tickF_enter_self e 1 w (leaf x xs (.checkValues conds .xor (some keys)) xl) X' w1 trx
      (by simp only [tickF]; exact h)
    simpa [Node.id] using this
  refine ⟨hen, hself, ?_⟩
  simp only [leafTick, leafInit, ite_self, bind, Except.bind] at h
  cases hev : evalChecks w conds with
  | error err => simp [leafUpdate, hev, bind, Except.bind] at h
  | ok v =>
    cases v with
    | none =>
      rw [C18_eo_flags_missing x e w conds keys hev] at h
      simp only [pure, Except.pure, Except.ok.injEq, Prod.mk.injEq] at h
      obtain ⟨h1, h2, _⟩ := h
      subst h1 h2
      exact Or.inl ⟨rfl, rfl, rfl⟩
    | some rs =>
      rw [C18_eo_flags_written x e w conds keys rs hev] at h
      simp only [pure, Except.pure, Except.ok.injEq, Prod.mk.injEq] at h
      obtain ⟨h1, h2, _⟩ := h
      subst h1 h2
      exact Or.inr ⟨rs, rfl, rfl, rfl⟩

theorem evalChecks_length (w : Store) : ∀ (cs : List Check) (rs : List Bool), evalChecks w cs = .ok (some rs) →
    rs.length = cs.length
| [], rs, h => by
    simp only [evalChecks, pure, Except.pure, Except.ok.injEq, Option.some.injEq] at h
    subst h; rfl
| c :: cs, rs, h => by
    simp only [evalChecks] at h
    split at h
    · simp [pure, Except.pure] at h
    · simp only [bind, Except.bind] at h
      split at h
      · simp at h
      · rename_i r hr
        cases hcs : evalChecks w cs with
        | error err => simp [hcs] at h
        | ok v =>
          cases v with
          | none => simp [hcs, pure, Except.pure] at h
          | some rs' =>
            simp only [hcs, pure, Except.pure, Except.ok.injEq, Option.some.injEq] at h
            subst h
            simp [evalChecks_length w cs rs' hcs]

/-- the conditions' verdict only depends on the variables they read -/
theorem evalChecks_congr (w w2 : Store) : ∀ (cs : List Check), (∀ c ∈ cs, w2 c.key = w c.key) →
    evalChecks w2 cs = evalChecks w cs
| [], _ => rfl
| c :: cs, h => by
    have h1 : w2.getPath c.key c.path = w.getPath c.key c.path := by
      simp only [Store.getPath, h c (by simp)]
    simp only [evalChecks, h1, evalChecks_congr w w2 cs (fun x hx => h x (by simp [hx]))]

/-- the chooser after the entry reset of the root (root not RUNNING) -/
theorem chooser_reset (opts : List Opt) (sid : Nat) (sst : Status) (scur : Option Nat) (os : List Node)
    (hrel : AllRel IsOpt opts os) (hok : ∀ c ∈ os, optOK c = true) (hnr : ∀ c ∈ os, c.status ≠ .running) :
    ∃ sst0 scur0 os0,
      (if ¬ (sel sid false sst scur os).status = .invalid then (stopInv (sel sid false sst scur os)).1
        else sel sid false sst scur os) = sel sid false sst0 scur0 os0 ∧
      AllRel IsOpt opts os0 ∧ (∀ c ∈ os0, optOK c = true) ∧ (∀ c ∈ os0, c.status ≠ .running) := by
  split
  · refine ⟨.invalid, none, (stopInvNonInvalid os).1, by simp [stopInv], ?_, ?_, ?_⟩
    · rw [optsAre_iff, stopInvNonInvalid_skelL]; exact (optsAre_iff opts os).mp hrel
    · exact fun c hc => (stopInvNonInvalid_facts os hok c hc).1
    · intro c hc
      rw [(stopInvNonInvalid_facts os hok c hc).2]; simp
  · exact ⟨sst, scur, os, rfl, hrel, hok, hnr⟩

end C18c

namespace C18c
open C18b

/-- the Sequence loop over a single child -/
theorem seqLoop_single (T : Tick) (w : Store) (c : Node) (done : List Node) (r : Option (Node × List Node))
    (w' : Store) (trl : List Ev) (h : seqLoop T w [c] = .ok (done, r, w', trl)) :
    ∃ c1 tr1, T w c = .ok (c1, w', tr1) ∧ (∀ ev ∈ tr1, ev ∈ trl) ∧ (∀ ev ∈ trl, ev ∈ tr1) ∧
      ((c1.status ≠ .success ∧ done = [] ∧ r = some (c1, [])) ∨ (c1.status = .success ∧ done = [c1] ∧ r = none)) := by
  obtain ⟨c1, w1, tr1, hT, hcase⟩ := seqLoop_cons_inv _ _ _ _ _ _ _ _ h
  rcases hcase with ⟨hns, h1, h2, h3, h4⟩ | ⟨hs, d, tr3, hl, h1, h2⟩
  · subst h1 h2 h3 h4
    exact ⟨c1, _, hT, fun _ h => h, fun _ h => h, Or.inl ⟨hns, rfl, rfl⟩⟩
  · simp only [seqLoop, pure, Except.pure, Except.ok.injEq, Prod.mk.injEq] at hl
    obtain ⟨h5, h6, h7, h8⟩ := hl
    subst h1 h2 h5 h6 h7 h8
    exact ⟨c1, _, hT, fun _ h => by simp [h], fun _ h => by simpa using h, Or.inr ⟨hs, rfl, rfl⟩⟩

/-- from the chooser's tick to the root: the invariant of the new state and the option-level account of the tick -/
theorem root_finish (opts : List Opt) (sid : Nat) (sst : Status) (scur : Option Nat) (os : List Node)
    (hrel : AllRel IsOpt opts os) (hne : opts ≠ []) (hnb : ∀ o ∈ opts, noBB o.task = true)
    (hnd : (Skel.idsL (opts.map optSkel)).Nodup) (hsid : sid ∉ Skel.idsL (opts.map optSkel))
    (hok : ∀ c ∈ os, optOK c = true) (act : Option Opt)
    (hact : ∀ o ∈ opts, ∀ c ∈ os, IsOpt o c → (c.status = .running ↔ act = some o))
    (hP : ∀ oj, act = some oj → sst = .running ∧ scur = some oj.oid)
    (f : Nat) (e : Env) (w : Store) (S' : Node) (w' : Store) (trS : List Ev)
    (h : tickF f e w (sel sid false sst scur os) = .ok (S', w', trS))
    (rid : Nat) (X' : Node) (st' : Status) (cur' : Option Nat) (tr : List Ev)
    (hst : st' = S'.status) (hcur : st' ≠ .success → cur' = some sid)
    (hin : ∀ j ∈ Skel.idsL (opts.map optSkel), Ev.enter j ∈ tr → Ev.enter j ∈ trS)
    (hsub : ∀ ev ∈ trS, ev ∈ tr) :
    w' = w ∧ EOInv opts (seq rid true st' cur' [X', S']) ∧
    ChooserOut opts sid e act w st' tr (chosenId (seq rid true st' cur' [X', S'])) := by
  obtain ⟨hw', hself, hen, hA, hA', sst', scur', os', rfl, hrel', hok', o1, o2, hos, hB, hC⟩ :=
    chooser_tick_act opts sid sst scur os hrel hne hnb hnd hsid hok act hact hP f e w S' w' trS h
  have hmem : ∀ o ∈ opts, ∀ y ∈ (optSkel o).ids, y ∈ Skel.idsL (opts.map optSkel) :=
    fun o ho y hy => (mem_idsL_opts opts y).mpr ⟨o, ho, hy⟩
  simp only [Node.status] at hst
  subst hst
  refine ⟨hw', ?_, hsub _ hself, ?_, ?_, o1, o2, hos, ?_, ?_⟩
  · simp only [EOInv]
    refine ⟨hok', ?_, ?_⟩
    · intro hnr c hc hr
      rcases hC with ⟨_, _, h3⟩ | ⟨o, b, c', _, _, _, hst', _, _, _, _, _, _, _, hall⟩
      · exact h3 c hc hr
      · have := hall c hc hr
        subst this
        exact hnr (by rw [hst']; exact hr)
    · intro hr
      rcases hC with ⟨h1, _, _⟩ | ⟨o, b, c', ho2, hc', hoc', hst', hcur', _, _, _, _, _, _, hall⟩
      · rw [h1] at hr; cases hr
      · refine ⟨hcur (by rw [hr]; simp), hr, o, by rw [hos, ho2]; simp, hcur', ⟨c', hc', hoc', by rw [← hst']; exact hr⟩, ?_⟩
        intro c hc hrc
        rw [hall c hc hrc, isOpt_id hoc']
  · intro o ho hin'
    exact hA o ho (hin _ (hmem o ho _ (task_id_mem_opt o)) hin')
  · intro o ho hin'
    exact hA' o ho (hin _ (hmem o ho _ (gid_mem_opt o)) hin')
  · intro o ho
    obtain ⟨h1, h2⟩ := hB o ho
    refine ⟨fun hel => ?_, fun ha => hsub _ (h2 ha)⟩
    obtain ⟨st, t0, g1, g2, g3, hTT⟩ := h1 hel
    exact ⟨st, t0, g1, g2, g3, hTT.mono hsub⟩
  · rcases hC with ⟨h1, h2, _⟩ | ⟨o, b, c', ho2, hc', hoc', hst', hcur', hrs, hel, ⟨t0, ht0, hTT⟩, hg2, hg1, hb, hall⟩
    · exact Or.inl ⟨h1, h2⟩
    · right
      have hoin : o ∈ opts := by rw [hos, ho2]; simp
      have hbin : ∀ x ∈ b, x ∈ opts := fun x hx => by rw [hos, ho2]; simp [hx]
      refine ⟨o, b, ho2, hrs, hcur', hel, ⟨t0, ht0, hTT.mono hsub⟩, fun ha => hsub _ (hg2 ha),
        fun ha hin' => hg1 ha (hin _ (hmem o hoin _ (gid_mem_opt o)) hin'), ?_⟩
      intro x hx
      obtain ⟨g1, g2, g3⟩ := hb x hx
      exact ⟨fun hin' => g1 (hin _ (hmem x (hbin x hx) _ (task_id_mem_opt x)) hin'),
        fun hin' => g2 (hin _ (hmem x (hbin x hx) _ (gid_mem_opt x)) hin'),
        fun hin' => g3 (hin _ (hmem x (hbin x hx) _ (oid_mem_opt x)) hin')⟩

end C18c

namespace C18c
open C18b

/-- the entry reset of the root on its two children -/
theorem entry_split (xid : Nat) (xst : Status) (K : LeafKind) (xlog : List LEv) (S : Node) :
    ∃ xst' xlog', (stopInvNonInvalid [leaf xid xst K xlog, S]).1 =
      [leaf xid xst' K xlog', if ¬ S.status = .invalid then (stopInv S).1 else S] := by
  have hls : ∀ x, (leaf xid x K xlog).status = x := fun _ => rfl
  by_cases h1 : S.status = .invalid <;> by_cases h2 : xst = .invalid <;>
    simp [stopInvNonInvalid, stopInv, hls, h1, h2]

/-- only the root and the XOR leaf were entered -/
def OnlyRX (rid xid : Nat) (tr : List Ev) : Prop := ∀ j, Ev.enter j ∈ tr → j = rid ∨ j = xid

/-- what a tick of the idiom that starts afresh (root not RUNNING) does -/
def FreshOut (conds : List Check) (opts : List Opt) (rid xid sid : Nat) (e : Env) (w : Store) (st' : Status)
    (w' : Store) (tr : List Ev) (ch' : Option Nat) : Prop :=
  (evalChecks w conds = .ok none ∧ w' = w ∧ st' = .failure ∧ OnlyRX rid xid tr) ∨
  (∃ rs, evalChecks w conds = .ok (some rs) ∧ w' = publishResults w (opts.map Opt.flag) rs ∧
     ((reduceLogic .xor rs = false ∧ st' = .failure ∧ OnlyRX rid xid tr) ∨
      (reduceLogic .xor rs = true ∧ ChooserOut opts sid e none w' st' tr ch')))

/-- **anatomy of one tick of the idiom** in a state satisfying the invariant -/
theorem eo_tick (conds : List Check) (opts : List Opt) (rid xid sid : Nat) (hok : EitherOrOK conds opts rid xid sid)
    (rst : Status) (rcur : Option Nat) (xst : Status) (xlog : List LEv) (sst : Status) (scur : Option Nat)
    (os : List Node) (hrel : AllRel IsOpt opts os)
    (hinv : EOInv opts (seq rid true rst rcur
      [leaf xid xst (.checkValues conds .xor (some (opts.map Opt.flag))) xlog, sel sid false sst scur os]))
    (f : Nat) (e : Env) (w : Store) (n' : Node) (w' : Store) (tr : List Ev)
    (h : tickF f e w (seq rid true rst rcur
      [leaf xid xst (.checkValues conds .xor (some (opts.map Opt.flag))) xlog, sel sid false sst scur os]) =
        .ok (n', w', tr)) :
    EOInv opts n' ∧ Ev.enter rid ∈ tr ∧
    (rst = .running → ∃ oj ∈ opts, scur = some oj.oid ∧ w' = w ∧ Ev.enter xid ∉ tr ∧
        ChooserOut opts sid e (some oj) w n'.status tr (chosenId n')) ∧
    (rst ≠ .running → Ev.enter xid ∈ tr ∧ FreshOut conds opts rid xid sid e w n'.status w' tr (chosenId n')) := by
  obtain ⟨hnd, hsid, hxid, hrid, hxs, hrx, hrs⟩ := hok.ids
  have hne := hok.ne
  have hnb := hok.1
  have hself : Ev.enter rid ∈ tr := by
    have := tickF_enter_self e f w _ n' w' tr h
    simpa [Node.id] using this
  obtain ⟨f', before, rest, trR, done, r, trl, rfl, hen, hl, hent, hsub, hshape⟩ :=
    root_tick_inv f e w rid rst rcur _ n' w' tr (by simp) h
  simp only [EOInv] at hinv
  obtain ⟨hI1, hI2, hI3⟩ := hinv
  have hidn := nodes_ids_nodup hrel hnd
  have hin_l : ∀ j ∈ Skel.idsL (opts.map optSkel), Ev.enter j ∈ tr → Ev.enter j ∈ trl := by
    intro j hj hin
    rcases hent j hin with h1 | h1
    · subst h1; exact absurd hj hrid
    · exact h1
  by_cases hst : rst = .running
  · obtain ⟨hrc, hss, oj, hoj, hsc, ⟨cj, hcj, hocj, hrj⟩, hall⟩ := hI3 hst
    subst hst; subst hrc
    simp only [seqEntry, splitAtId, Node.id, hxs, ne_eq, not_true_eq_false, ↓reduceIte, pure, Except.pure,
      Option.map, Except.ok.injEq, Prod.mk.injEq] at hen
    obtain ⟨rfl, rfl, rfl⟩ := hen
    obtain ⟨S1, trS, hT, hs1, hs2, hcase⟩ := seqLoop_single _ _ _ _ _ _ _ hl
    have hact : ∀ o ∈ opts, ∀ c ∈ os, IsOpt o c → (c.status = .running ↔ some oj = some o) := by
      intro o ho c hc hoc
      constructor
      · intro hr
        have h1 := hall c hc hr
        rw [isOpt_id hoc] at h1
        rw [opt_ids_unique opts hnd o ho oj hoj o.oid (oid_mem_opt o) (by rw [h1]; exact oid_mem_opt oj)]
      · intro ho'
        simp only [Option.some.injEq] at ho'
        subst ho'
        have : c = cj := C18.eq_of_id_eq os hidn c hc cj hcj (by rw [isOpt_id hoc, isOpt_id hocj])
        rw [this]; exact hrj
    have hP : ∀ o, some oj = some o → sst = .running ∧ scur = some o.oid := by
      intro o ho; simp only [Option.some.injEq] at ho; subst ho; exact ⟨hss, hsc⟩
    have hS1id : S1.id = sid := id_of_skel (tickF_skel e f' w _ S1 w' trS hT)
    have hnx : Ev.enter xid ∉ tr := by
      intro hin
      rcases hent _ hin with h1 | h1
      · exact hrx h1.symm
      · have := tickF_enters e f' w _ S1 w' trS hT _ (hs2 _ h1)
        simp only [skel, Skel.ids, (optsAre_iff opts os).mp hrel, List.mem_cons] at this
        rcases this with h2 | h2
        · exact hxs h2
        · exact hxid h2
    have hfin : ∀ (X' : Node) (st' : Status) (cur' : Option Nat), st' = S1.status → (st' ≠ .success → cur' = some sid) →
        w' = w ∧ EOInv opts (seq rid true st' cur' [X', S1]) ∧
        ChooserOut opts sid e (some oj) w st' tr (chosenId (seq rid true st' cur' [X', S1])) :=
      fun X' st' cur' h1 h2 => root_finish opts sid sst scur os hrel hne hnb hnd hsid hI1 (some oj) hact hP f' e w S1 w'
        trS hT rid X' st' cur' tr h1 h2 (fun j hj hin => hs2 _ (hin_l j hj hin)) (fun ev hev => hsub _ (hs1 _ hev))
    have hmain : ∃ X' st' cur', n' = seq rid true st' cur' [X', S1] ∧ st' = S1.status ∧
        (st' ≠ .success → cur' = some sid) := by
      rcases hcase with ⟨hns, rfl, rfl⟩ | ⟨hs, rfl, rfl⟩
      · rcases hshape with ⟨h1, _⟩ | ⟨c', u, h1, rfl⟩
        · cases h1
        · simp only [Option.some.injEq, Prod.mk.injEq] at h1
          obtain ⟨rfl, rfl⟩ := h1
          exact ⟨(leaf xid xst (.checkValues conds .xor (some (opts.map Opt.flag))) xlog), S1.status, some S1.id, by simp, rfl, fun _ => by rw [hS1id]⟩
      · rcases hshape with ⟨_, rfl⟩ | ⟨c', u, h1, _⟩
        · exact ⟨(leaf xid xst (.checkValues conds .xor (some (opts.map Opt.flag))) xlog), .success, lastId? ([(leaf xid xst (.checkValues conds .xor (some (opts.map Opt.flag))) xlog)] ++ [S1]), by simp, hs.symm, fun h => absurd rfl h⟩
        · cases h1
    obtain ⟨X', st', cur', rfl, h1, h2⟩ := hmain
    obtain ⟨g1, g2, g3⟩ := hfin X' st' cur' h1 h2
    exact ⟨g2, hself, fun _ => ⟨oj, hoj, hsc, g1, hnx, g3⟩, fun hne' => absurd rfl hne'⟩
  · have hnr := hI2 hst
    obtain ⟨sst0, scur0, os0, hS0, hrel0, hok0, hnr0⟩ := chooser_reset opts sid sst scur os hrel hI1 hnr
    obtain ⟨xst', xlog', hsp⟩ := entry_split xid xst (.checkValues conds .xor (some (opts.map Opt.flag))) xlog
      (sel sid false sst scur os)
    rw [hS0] at hsp
    simp only [seqEntry, ne_eq, hst, not_false_eq_true, ↓reduceIte, pure, Except.pure, hsp, Except.ok.injEq,
      Prod.mk.injEq] at hen
    obtain ⟨rfl, rfl, rfl⟩ := hen
    obtain ⟨X1, w1, trx, hX, hcase⟩ := seqLoop_cons_inv _ _ _ _ _ _ _ _ hl
    obtain ⟨f2, rfl⟩ : ∃ f2, f' = f2 + 1 := by
      cases f' with
      | zero => simp [tickF] at hX
      | succ f2 => exact ⟨f2, rfl⟩
    simp only [tickF] at hX
    obtain ⟨henx, hselfx, hxor⟩ := xor_tick e w xid xst' xlog' conds _ X1 w1 trx hX
    rcases hcase with ⟨hns, h1, h2, h3, h4⟩ | ⟨hs, d2, tr2, hl2, h1, h2⟩
    · -- the XOR check failed
      subst h1 h2
      subst w'
      subst trl
      rcases hshape with ⟨h1, _⟩ | ⟨c', u, h1, rfl⟩
      · cases h1
      · simp only [Option.some.injEq, Prod.mk.injEq] at h1
        obtain ⟨rfl, rfl⟩ := h1
        have hfail : X1.status = .failure := by
          rcases hxor with ⟨_, _, h⟩ | ⟨rs, _, _, h⟩
          · exact h
          · cases hb : reduceLogic .xor rs
            · rw [h, hb]; simp
            · rw [h, hb] at hns; simp at hns
        have hrx' : OnlyRX rid xid tr := by
          intro j hj
          rcases hent j hj with h | h
          · exact Or.inl h
          · right; simpa using henx j h
        refine ⟨?_, hself, fun h => absurd h hst, fun _ => ⟨hsub _ hselfx, ?_⟩⟩
        · simp only [List.nil_append, EOInv]
          exact ⟨hok0, fun _ => hnr0, fun hr => by rw [hfail] at hr; cases hr⟩
        · rcases hxor with ⟨h1, h2, h3⟩ | ⟨rs, h1, h2, h3⟩
          · exact Or.inl ⟨h1, h2, hfail, hrx'⟩
          · refine Or.inr ⟨rs, h1, h2, Or.inl ⟨?_, hfail, hrx'⟩⟩
            cases hb : reduceLogic .xor rs
            · rfl
            · rw [h3, hb] at hns; simp at hns
    · -- the XOR check passed
      subst h1 h2
      obtain ⟨rs, hev, hw1, hX1s⟩ : ∃ rs, evalChecks w conds = .ok (some rs) ∧
          w1 = publishResults w (opts.map Opt.flag) rs ∧
          X1.status = if reduceLogic .xor rs then .success else .failure := by
        rcases hxor with ⟨_, _, h⟩ | h
        · rw [h] at hs; cases hs
        · exact h
      have hb : reduceLogic .xor rs = true := by
        cases hb : reduceLogic .xor rs
        · rw [hX1s, hb] at hs; simp at hs
        · rfl
      obtain ⟨S1, trS, hT, hs1, hs2, hcase2⟩ := seqLoop_single _ _ _ _ _ _ _ hl2
      have hact : ∀ o ∈ opts, ∀ c ∈ os0, IsOpt o c → (c.status = .running ↔ (none : Option Opt) = some o) :=
        fun o ho c hc hoc => ⟨fun hr => absurd hr (hnr0 c hc), fun h => by cases h⟩
      have hP : ∀ o, (none : Option Opt) = some o → sst0 = .running ∧ scur0 = some o.oid := fun o h => by cases h
      have hS1id : S1.id = sid := id_of_skel (tickF_skel e (f2 + 1) w1 _ S1 w' trS hT)
      have hin2 : ∀ j ∈ Skel.idsL (opts.map optSkel), Ev.enter j ∈ tr → Ev.enter j ∈ trS := by
        intro j hj hin
        have := hin_l j hj hin
        simp only [List.mem_append] at this
        rcases this with h1 | h1
        · have : j = xid := by simpa using henx j h1
          subst this; exact absurd hj hxid
        · exact hs2 _ h1
      have hfin : ∀ (X' : Node) (st' : Status) (cur' : Option Nat), st' = S1.status →
          (st' ≠ .success → cur' = some sid) →
          w' = w1 ∧ EOInv opts (seq rid true st' cur' [X', S1]) ∧
          ChooserOut opts sid e none w1 st' tr (chosenId (seq rid true st' cur' [X', S1])) :=
        fun X' st' cur' h1 h2 => root_finish opts sid sst0 scur0 os0 hrel0 hne hnb hnd hsid hok0 none hact hP (f2 + 1) e
          w1 S1 w' trS hT rid X' st' cur' tr h1 h2 hin2 (fun ev hev => hsub _ (List.mem_append_right _ (hs1 _ hev)))
      have hmain : ∃ st' cur', n' = seq rid true st' cur' [X1, S1] ∧ st' = S1.status ∧
          (st' ≠ .success → cur' = some sid) := by
        rcases hcase2 with ⟨hns, rfl, rfl⟩ | ⟨hs', rfl, rfl⟩
        · rcases hshape with ⟨h1, _⟩ | ⟨c', u, h1, rfl⟩
          · cases h1
          · simp only [Option.some.injEq, Prod.mk.injEq] at h1
            obtain ⟨rfl, rfl⟩ := h1
            exact ⟨S1.status, some S1.id, by simp, rfl, fun _ => by rw [hS1id]⟩
        · rcases hshape with ⟨_, rfl⟩ | ⟨c', u, h1, _⟩
          · exact ⟨.success, lastId? ([] ++ [X1, S1]), by simp, hs'.symm, fun h => absurd rfl h⟩
          · cases h1
      obtain ⟨st', cur', rfl, h1, h2⟩ := hmain
      obtain ⟨g1, g2, g3⟩ := hfin X1 st' cur' h1 h2
      refine ⟨g2, hself, fun h => absurd h hst, fun _ => ⟨hsub _ (List.mem_append_left _ hselfx), ?_⟩⟩
      subst g1
      exact Or.inr ⟨rs, hev, hw1, Or.inr ⟨hb, g3⟩⟩

end C18c

namespace C18c
open C18b

theorem isEitherOr_status {conds : List Check} {opts : List Opt} {rid xid sid : Nat} {n : Node}
    (hp : IsEitherOr conds opts rid xid sid n) : ∃ rst rcur xst xlog sst scur os,
      n = seq rid true rst rcur
        [leaf xid xst (.checkValues conds .xor (some (opts.map Opt.flag))) xlog, sel sid false sst scur os] ∧
      AllRel IsOpt opts os ∧ n.status = rst ∧ chosenId n = scur := by
  obtain ⟨rst, rcur, xst, xlog, sst, scur, os, rfl, hos⟩ := hp
  exact ⟨rst, rcur, xst, xlog, sst, scur, os, rfl, hos, rfl, rfl⟩

/-- one tick of an instance that is not RUNNING -/
theorem fresh_core (conds : List Check) (opts : List Opt) (rid xid sid : Nat) (n : Node)
    (hp : IsEitherOr conds opts rid xid sid n) (hok : EitherOrOK conds opts rid xid sid) (hinv : EOInv opts n)
    (hst : n.status ≠ .running) (f : Nat) (e : Env) (w : Store) (n' : Node) (w' : Store) (tr : List Ev)
    (h : tickF f e w n = .ok (n', w', tr)) :
    IsEitherOr conds opts rid xid sid n' ∧ EOInv opts n' ∧ Ev.enter rid ∈ tr ∧ Ev.enter xid ∈ tr ∧
    FreshOut conds opts rid xid sid e w n'.status w' tr (chosenId n') := by
  have hp' := isEitherOr_of_skel hp (tickF_skel e f w n n' w' tr h)
  obtain ⟨rst, rcur, xst, xlog, sst, scur, os, rfl, hos, hs, _⟩ := isEitherOr_status hp
  obtain ⟨h1, h2, _, h4⟩ := eo_tick conds opts rid xid sid hok rst rcur xst xlog sst scur os hos hinv f e w n' w' tr h
  have hst' : rst ≠ .running := by rw [← hs]; exact hst
  exact ⟨hp', h1, h2, (h4 hst').1, (h4 hst').2⟩

/-- one tick of an instance that is RUNNING -/
theorem running_core (conds : List Check) (opts : List Opt) (rid xid sid : Nat) (n : Node)
    (hp : IsEitherOr conds opts rid xid sid n) (hok : EitherOrOK conds opts rid xid sid) (hinv : EOInv opts n)
    (hst : n.status = .running) (f : Nat) (e : Env) (w : Store) (n' : Node) (w' : Store) (tr : List Ev)
    (h : tickF f e w n = .ok (n', w', tr)) :
    IsEitherOr conds opts rid xid sid n' ∧ EOInv opts n' ∧ Ev.enter rid ∈ tr ∧
    ∃ oj ∈ opts, chosenId n = some oj.oid ∧ w' = w ∧ Ev.enter xid ∉ tr ∧
      ChooserOut opts sid e (some oj) w n'.status tr (chosenId n') := by
  have hp' := isEitherOr_of_skel hp (tickF_skel e f w n n' w' tr h)
  obtain ⟨rst, rcur, xst, xlog, sst, scur, os, rfl, hos, hs, hch⟩ := isEitherOr_status hp
  obtain ⟨h1, h2, h3, _⟩ := eo_tick conds opts rid xid sid hok rst rcur xst xlog sst scur os hos hinv f e w n' w' tr h
  have hst' : rst = .running := by rw [← hs]; exact hst
  obtain ⟨oj, hoj, g1, g2, g3, g4⟩ := h3 hst'
  exact ⟨hp', h1, h2, oj, hoj, by rw [hch, g1], g2, g3, g4⟩

/-! ### the flags after the XOR leaf has published -/

theorem flags_after (conds : List Check) (opts : List Opt) (rid xid sid : Nat)
    (hok : EitherOrOK conds opts rid xid sid) (w : Store) (rs : List Bool)
    (hev : evalChecks w conds = .ok (some rs)) :
    rs.length = opts.length ∧
    (∀ i (hi : i < opts.length) (hr : i < rs.length),
      (publishResults w (opts.map Opt.flag) rs) opts[i].flag = some (.bool rs[i])) ∧
    (∀ k, k ∉ opts.map Opt.flag → (publishResults w (opts.map Opt.flag) rs) k = w k) := by
  have hlen : rs.length = opts.length := by rw [evalChecks_length w conds rs hev, hok.2.2.1]
  refine ⟨hlen, ?_, fun k hk => C18.publishResults_not_mem _ rs w k hk⟩
  intro i hi hr
  have := C18.publishResults_get (opts.map Opt.flag) rs w hok.2.1 (by simp [hlen]) i (by simpa using hi) hr
  simpa using this

theorem flagOn_bool (w : Store) (k : String) (b : Bool) (h : w k = some (.bool b)) : flagOn w k ↔ b = true := by
  simp [flagOn, h]

/-- after publishing, "the guard passes" means exactly "the flag holds `True`" -/
theorem flagOn_after (opts : List Opt) (w' : Store) (rs : List Bool) (hlen : rs.length = opts.length)
    (hfl : ∀ i (hi : i < opts.length) (hr : i < rs.length), w' opts[i].flag = some (.bool rs[i]))
    (o : Opt) (ho : o ∈ opts) : flagOn w' o.flag ↔ w' o.flag = some (.bool true) := by
  obtain ⟨i, hi, rfl⟩ := List.getElem_of_mem ho
  have := hfl i hi (by omega)
  rw [flagOn_bool w' _ _ this, this]
  simp

theorem task_not_root (conds : List Check) (opts : List Opt) (rid xid sid : Nat)
    (hok : EitherOrOK conds opts rid xid sid) (o : Opt) (ho : o ∈ opts) : o.task.id ≠ rid ∧ o.task.id ≠ xid := by
  obtain ⟨_, _, hxid, hrid, _⟩ := hok.ids
  have hm : o.task.id ∈ Skel.idsL (opts.map optSkel) := (mem_idsL_opts opts _).mpr ⟨o, ho, task_id_mem_opt o⟩
  exact ⟨fun h => hrid (h ▸ hm), fun h => hxid (h ▸ hm)⟩

end C18c

/-- **1. one tick of the idiom that starts afresh** (root not RUNNING; state satisfying the invariant `EOInv`, e.g. the
    fresh idiom or any state a history reaches), all condition variables present: `evalChecks w conds = some rs`.
    The XOR leaf is evaluated; afterwards flag `i` holds `rs[i]` and no other variable has changed.
    (a) an EVEN number of conditions hold (none, two, four, …): the root FAILS and nothing but the root and the XOR leaf
        is entered — no subtree is ticked;
    (b) an ODD number hold (the code folds XOR, so 3, 5, … also pass: KNOWN FINDING K3): every subtree that is entered
        has its flag `True`; the options split as `o1 ++ o2` where the options of `o1` were all tried and did not
        succeed — the guard of each was ticked and, if its flag is `True`, its subtree was ticked and returned
        FAILURE (or INVALID) — and either all options were tried (`o2 = []`, the root FAILS), or the head `o` of `o2` has
        its flag `True`, its subtree was ticked and returned the status (RUNNING / SUCCESS) the root returns, and
        nothing of the later options `b` was entered.  So subtrees are entered in option order, a later one only after
        every earlier flagged one returned FAILURE. -/
theorem C18_eo_tick_fresh (conds : List Check) (opts : List C18c.Opt) (rid xid sid : Nat) (n : Node)
    (hp : C18c.IsEitherOr conds opts rid xid sid n) (hok : C18c.EitherOrOK conds opts rid xid sid)
    (hinv : C18c.EOInv opts n) (hst : n.status ≠ .running) (f : Nat) (e : Env) (w : Store) (rs : List Bool)
    (hev : evalChecks w conds = .ok (some rs)) (n' : Node) (w' : Store) (tr : List Ev)
    (h : tickF f e w n = .ok (n', w', tr)) :
    C18c.IsEitherOr conds opts rid xid sid n' ∧ C18c.EOInv opts n' ∧
    rs.length = opts.length ∧ Ev.enter xid ∈ tr ∧
    (∀ i (hi : i < opts.length) (hr : i < rs.length), w' opts[i].flag = some (.bool rs[i])) ∧
    (∀ k, k ∉ opts.map C18c.Opt.flag → w' k = w k) ∧
    ((rs.filter id).length % 2 = 0 →
      n'.status = .failure ∧ (∀ j, Ev.enter j ∈ tr → j = rid ∨ j = xid) ∧ ∀ o ∈ opts, Ev.enter o.task.id ∉ tr) ∧
    ((rs.filter id).length % 2 = 1 →
      (∀ o ∈ opts, Ev.enter o.task.id ∈ tr → w' o.flag = some (.bool true)) ∧
      ∃ o1 o2, opts = o1 ++ o2 ∧
        (∀ o ∈ o1, Ev.enter o.gid ∈ tr ∧
          (w' o.flag = some (.bool true) → ∃ st t0, st ≠ .running ∧ st ≠ .success ∧ skel t0 = skel o.task ∧
            C18c.TaskTick e w' tr st t0)) ∧
        ((n'.status = .failure ∧ o2 = []) ∨
         (∃ o b, o2 = o :: b ∧ (n'.status = .running ∨ n'.status = .success) ∧ C18c.chosenId n' = some o.oid ∧
            w' o.flag = some (.bool true) ∧ Ev.enter o.gid ∈ tr ∧
            (∃ t0, skel t0 = skel o.task ∧ C18c.TaskTick e w' tr n'.status t0) ∧
            (∀ x ∈ b, Ev.enter x.task.id ∉ tr ∧ Ev.enter x.gid ∉ tr ∧ Ev.enter x.oid ∉ tr)))) := by
  obtain ⟨hp', hinv', _, hx, hout⟩ := C18c.fresh_core conds opts rid xid sid n hp hok hinv hst f e w n' w' tr h
  obtain ⟨hlen, hfl, hoth⟩ := C18c.flags_after conds opts rid xid sid hok w rs hev
  have hpar := C18_xor_parity rs
  rcases hout with ⟨h1, _⟩ | ⟨rs', h1, hw', hcase⟩
  · rw [h1] at hev; cases hev
  · rw [h1] at hev
    simp only [Except.ok.injEq, Option.some.injEq] at hev
    subst hev
    subst hw'
    refine ⟨hp', hinv', hlen, hx, hfl, hoth, ?_, ?_⟩
    · intro heven
      rcases hcase with ⟨_, hf, hrx⟩ | ⟨hb, _⟩
      · refine ⟨hf, hrx, ?_⟩
        intro o ho hin
        obtain ⟨g1, g2⟩ := C18c.task_not_root conds opts rid xid sid hok o ho
        rcases hrx _ hin with h | h
        · exact g1 h
        · exact g2 h
      · rw [hpar] at hb; simp at hb; omega
    · intro hodd
      rcases hcase with ⟨hb, _⟩ | ⟨_, _, hA, _, o1, o2, hos, hB, hC⟩
      · rw [hpar] at hb; simp at hb; omega
      · have hflag := C18c.flagOn_after opts _ rs' hlen hfl
        have ho1 : ∀ o ∈ o1, o ∈ opts := fun o ho => by rw [hos]; exact List.mem_append_left _ ho
        refine ⟨?_, o1, o2, hos, ?_, ?_⟩
        · intro o ho hin
          rcases hA o ho hin with h | h
          · cases h
          · exact (hflag o ho).mp h
        · intro o ho
          obtain ⟨g1, g2⟩ := hB o ho
          exact ⟨g2 (by simp), fun hfo => g1 (Or.inr ((hflag o (ho1 o ho)).mpr hfo))⟩
        · rcases hC with hC | ⟨o, b, ho2, hrs, hch, hel, hTT, hg, _, hb⟩
          · exact Or.inl hC
          · right
            have hoin : o ∈ opts := by rw [hos, ho2]; simp
            refine ⟨o, b, ho2, hrs, hch, ?_, hg (by simp), hTT, hb⟩
            rcases hel with h | h
            · cases h
            · exact (hflag o hoin).mp h

namespace C18c

theorem filter_none : ∀ (rs : List Bool), (∀ i (hi : i < rs.length), rs[i] = false) → rs.filter _root_.id = []
| [], _ => rfl
| r :: rs, h => by
    have h0 : r = false := h 0 (by simp)
    subst h0
    simp only [List.filter, _root_.id]
    exact filter_none rs (fun i hi => by
      have := h (i + 1) (by simpa using hi)
      simpa using this)

/-- "exactly one condition holds", index form ⇒ the count is 1 -/
theorem filter_one : ∀ (rs : List Bool) (j : Nat), j < rs.length →
    (∀ i (hi : i < rs.length), rs[i] = true ↔ i = j) → (rs.filter _root_.id).length = 1
| [], j, hj, _ => by simp at hj
| r :: rs, 0, _, h => by
    have h0 : r = true := (h 0 (by simp)).mpr rfl
    subst h0
    have : rs.filter _root_.id = [] := filter_none rs (fun i hi => by
      have := h (i + 1) (by simpa using hi)
      simp only [List.getElem_cons_succ, Nat.add_eq_zero_iff, Nat.succ_ne_self, and_false, iff_false,
        Bool.not_eq_true] at this
      exact this)
    simp [List.filter, this]
| r :: rs, j + 1, hj, h => by
    have h0 : r = false := by
      have := h 0 (by simp)
      simp only [List.getElem_cons_zero] at this
      cases r
      · rfl
      · exact absurd (this.mp rfl) (by omega)
    subst h0
    simp only [List.filter, _root_.id]
    exact filter_one rs j (by simpa using hj) (fun i hi => by
      have := h (i + 1) (by simpa using hi)
      simpa using this)

theorem status_mirror (st : Status) (h1 : st ≠ .running) (h2 : st ≠ .success) :
    Status.failure = (if st = .invalid then .failure else st) := by
  cases st <;> simp_all

end C18c

/-- **corollary, "exactly one condition holds"** (condition `j` and no other): exactly the subtree of option `j` is
    ticked — it is entered, no other option's subtree is — and the root returns the status that subtree returned
    (SUCCESS / FAILURE / RUNNING mirrored; a subtree returning INVALID counts as a failure). -/
theorem C18_eo_exactly_one (conds : List Check) (opts : List C18c.Opt) (rid xid sid : Nat) (n : Node)
    (hp : C18c.IsEitherOr conds opts rid xid sid n) (hok : C18c.EitherOrOK conds opts rid xid sid)
    (hinv : C18c.EOInv opts n) (hst : n.status ≠ .running) (f : Nat) (e : Env) (w : Store) (rs : List Bool)
    (hev : evalChecks w conds = .ok (some rs)) (j : Nat) (hj : j < opts.length)
    (hone : ∀ i (hi : i < rs.length), rs[i] = true ↔ i = j)
    (n' : Node) (w' : Store) (tr : List Ev) (h : tickF f e w n = .ok (n', w', tr)) :
    Ev.enter opts[j].task.id ∈ tr ∧ (∀ o ∈ opts, Ev.enter o.task.id ∈ tr → o = opts[j]) ∧
    (∃ st t0, skel t0 = skel opts[j].task ∧ C18c.TaskTick e w' tr st t0 ∧
      n'.status = (if st = .invalid then .failure else st)) ∧
    (n'.status = .running → C18c.chosenId n' = some opts[j].oid) := by
  obtain ⟨_, _, hlen, _, hfl, _, _, hb⟩ :=
    C18_eo_tick_fresh conds opts rid xid sid n hp hok hinv hst f e w rs hev n' w' tr h
  have hjr : j < rs.length := by omega
  have hcnt := C18c.filter_one rs j hjr hone
  obtain ⟨hA, o1, o2, hos, hB, hC⟩ := hb (by rw [hcnt])
  have hsole : ∀ o ∈ opts, w' o.flag = some (.bool true) → o = opts[j] := by
    intro o ho hf
    obtain ⟨i, hi, rfl⟩ := List.getElem_of_mem ho
    have := hfl i hi (by omega)
    rw [this] at hf
    simp only [Option.some.injEq, Val.bool.injEq] at hf
    have := (hone i (by omega)).mp hf
    subst this; rfl
  have hjf : w' opts[j].flag = some (.bool true) := by
    rw [hfl j hj hjr, (hone j hjr).mpr rfl]
  have hmain : ∃ st t0, skel t0 = skel opts[j].task ∧ C18c.TaskTick e w' tr st t0 ∧
      n'.status = (if st = .invalid then .failure else st) ∧
      (n'.status = .running → C18c.chosenId n' = some opts[j].oid) := by
    rcases hC with ⟨hf, ho2⟩ | ⟨o, b, ho2, hrs, hch, hfo, _, ⟨t0, ht0, hTT⟩, _⟩
    · have hall : ∀ x ∈ opts, x ∈ o1 := fun x hx => by rw [hos, ho2, List.append_nil] at hx; exact hx
      have : opts[j] ∈ o1 := hall _ (List.getElem_mem hj)
      obtain ⟨st, t0, g1, g2, g3, g4⟩ := (hB _ this).2 hjf
      exact ⟨st, t0, g3, g4, by rw [hf]; exact C18c.status_mirror st g1 g2, fun hr => by rw [hf] at hr; cases hr⟩
    · have hoin : o ∈ opts := by rw [hos, ho2]; simp
      have := hsole o hoin hfo
      subst this
      refine ⟨n'.status, t0, ht0, hTT, ?_, fun _ => hch⟩
      rcases hrs with h | h <;> rw [h] <;> simp
  obtain ⟨st, t0, ht0, hTT, hst', hch⟩ := hmain
  refine ⟨?_, fun o ho hin => hsole o ho (hA o ho hin), ⟨st, t0, ht0, hTT, hst'⟩, hch⟩
  have := hTT.enter
  rwa [id_of_skel ht0] at this

/-- **corollary, "no condition or exactly two conditions hold"**: the idiom FAILS and no subtree is ticked (nothing but
    the root and the XOR leaf is entered).  The same holds for every even number of true conditions
    (`C18_eo_tick_fresh` (a)); it does NOT hold for three (K3, `C18_eo_three_counterexample`). -/
theorem C18_eo_none_or_two (conds : List Check) (opts : List C18c.Opt) (rid xid sid : Nat) (n : Node)
    (hp : C18c.IsEitherOr conds opts rid xid sid n) (hok : C18c.EitherOrOK conds opts rid xid sid)
    (hinv : C18c.EOInv opts n) (hst : n.status ≠ .running) (f : Nat) (e : Env) (w : Store) (rs : List Bool)
    (hev : evalChecks w conds = .ok (some rs))
    (hcnt : (rs.filter id).length = 0 ∨ (rs.filter id).length = 2)
    (n' : Node) (w' : Store) (tr : List Ev) (h : tickF f e w n = .ok (n', w', tr)) :
    n'.status = .failure ∧ (∀ j, Ev.enter j ∈ tr → j = rid ∨ j = xid) ∧ (∀ o ∈ opts, Ev.enter o.task.id ∉ tr) := by
  obtain ⟨_, _, _, _, _, _, ha, _⟩ :=
    C18_eo_tick_fresh conds opts rid xid sid n hp hok hinv hst f e w rs hev n' w' tr h
  exact ha (by rcases hcnt with h | h <;> rw [h])

/-- a condition variable is missing (`evalChecks` returns `none`): the XOR leaf FAILS, nothing is published, the root
    FAILS and no subtree is ticked -/
theorem C18_eo_tick_missing (conds : List Check) (opts : List C18c.Opt) (rid xid sid : Nat) (n : Node)
    (hp : C18c.IsEitherOr conds opts rid xid sid n) (hok : C18c.EitherOrOK conds opts rid xid sid)
    (hinv : C18c.EOInv opts n) (hst : n.status ≠ .running) (f : Nat) (e : Env) (w : Store)
    (hev : evalChecks w conds = .ok none)
    (n' : Node) (w' : Store) (tr : List Ev) (h : tickF f e w n = .ok (n', w', tr)) :
    w' = w ∧ n'.status = .failure ∧ (∀ j, Ev.enter j ∈ tr → j = rid ∨ j = xid) ∧
    (∀ o ∈ opts, Ev.enter o.task.id ∉ tr) ∧ C18c.EOInv opts n' := by
  obtain ⟨_, hinv', _, _, hout⟩ := C18c.fresh_core conds opts rid xid sid n hp hok hinv hst f e w n' w' tr h
  rcases hout with ⟨_, h2, h3, h4⟩ | ⟨rs, h1, _⟩
  · refine ⟨h2, h3, h4, ?_, hinv'⟩
    intro o ho hin
    obtain ⟨g1, g2⟩ := C18c.task_not_root conds opts rid xid sid hok o ho
    rcases h4 _ hin with h | h
    · exact g1 h
    · exact g2 h
  · rw [h1] at hev; cases hev

/-- **2. one tick of the idiom while it is RUNNING** (state satisfying the invariant: the root remembers the chooser,
    the chooser is RUNNING at option `oj`, option `oj` is RUNNING at its subtree, no other option is RUNNING) —
    WHATEVER the conditions evaluate to now (there is no hypothesis on `w`):
    * the XOR leaf is not re-evaluated (`enter xid` is not in the trace) and the blackboard is untouched, in particular
      the flags keep the verdict of the last evaluation;
    * the guard of `oj` is not re-entered: the memory Sequence `oj` resumes at its subtree;
    * the memoryless chooser re-ticks the options from the first one: the guard of every option other than `oj` that it
      reaches is re-entered and reads the FLAG (not the condition); a subtree is entered only if it is `oj`'s or its flag
      is set; the exact account is as in `C18_eo_tick_fresh` (b), with "eligible" = "is `oj` or flag set";
    * hence, when no other flag is set (exactly one condition held at the last evaluation), ONLY the subtree of `oj`
      is ticked, the root mirrors its status, and if the idiom is still RUNNING it is still at `oj`:
      **the idiom does not switch subtree while the chosen one is RUNNING**. -/
theorem C18_eo_tick_running (conds : List Check) (opts : List C18c.Opt) (rid xid sid : Nat) (n : Node)
    (hp : C18c.IsEitherOr conds opts rid xid sid n) (hok : C18c.EitherOrOK conds opts rid xid sid)
    (hinv : C18c.EOInv opts n) (hst : n.status = .running) (f : Nat) (e : Env) (w : Store)
    (n' : Node) (w' : Store) (tr : List Ev) (h : tickF f e w n = .ok (n', w', tr)) :
    C18c.IsEitherOr conds opts rid xid sid n' ∧ C18c.EOInv opts n' ∧
    ∃ oj ∈ opts, C18c.chosenId n = some oj.oid ∧
      w' = w ∧ Ev.enter xid ∉ tr ∧ Ev.enter oj.gid ∉ tr ∧
      (∀ o ∈ opts, Ev.enter o.task.id ∈ tr → o = oj ∨ C18b.flagOn w o.flag) ∧
      (∀ o ∈ opts, Ev.enter o.gid ∈ tr → o ≠ oj) ∧
      (∃ o1 o2, opts = o1 ++ o2 ∧
        (∀ o ∈ o1, (o ≠ oj → Ev.enter o.gid ∈ tr) ∧
          ((o = oj ∨ C18b.flagOn w o.flag) → ∃ st t0, st ≠ .running ∧ st ≠ .success ∧ skel t0 = skel o.task ∧
            C18c.TaskTick e w tr st t0)) ∧
        ((n'.status = .failure ∧ o2 = []) ∨
         (∃ o b, o2 = o :: b ∧ (n'.status = .running ∨ n'.status = .success) ∧ C18c.chosenId n' = some o.oid ∧
            (o = oj ∨ C18b.flagOn w o.flag) ∧ (o ≠ oj → Ev.enter o.gid ∈ tr) ∧
            (∃ t0, skel t0 = skel o.task ∧ C18c.TaskTick e w tr n'.status t0) ∧
            (∀ x ∈ b, Ev.enter x.task.id ∉ tr ∧ Ev.enter x.gid ∉ tr ∧ Ev.enter x.oid ∉ tr)))) ∧
      ((∀ o ∈ opts, o ≠ oj → ¬ C18b.flagOn w o.flag) →
        Ev.enter oj.task.id ∈ tr ∧ (∀ o ∈ opts, Ev.enter o.task.id ∈ tr → o = oj) ∧
        (∃ st t0, skel t0 = skel oj.task ∧ C18c.TaskTick e w tr st t0 ∧
          n'.status = (if st = .invalid then .failure else st)) ∧
        (n'.status = .running → C18c.chosenId n' = some oj.oid)) := by
  obtain ⟨hp', hinv', _, oj, hoj, hch, hw, hnx, hout⟩ :=
    C18c.running_core conds opts rid xid sid n hp hok hinv hst f e w n' w' tr h
  obtain ⟨_, hA, hA', o1, o2, hos, hB, hC⟩ := hout
  have hel : ∀ o, C18c.EligO (some oj) w o ↔ (o = oj ∨ C18b.flagOn w o.flag) := by
    intro o
    simp only [C18c.EligO, Option.some.injEq]
    constructor
    · rintro (h | h)
      · exact Or.inl h.symm
      · exact Or.inr h
    · rintro (h | h)
      · exact Or.inl h.symm
      · exact Or.inr h
  have hne : ∀ o, (some oj ≠ some o) ↔ o ≠ oj := by
    intro o
    simp only [ne_eq, Option.some.injEq]
    exact ⟨fun h h' => h h'.symm, fun h h' => h h'.symm⟩
  have hgen : ∀ o ∈ opts, Ev.enter o.task.id ∈ tr → o = oj ∨ C18b.flagOn w o.flag :=
    fun o ho hin => (hel o).mp (hA o ho hin)
  refine ⟨hp', hinv', oj, hoj, hch, hw, hnx, fun hin => hA' oj hoj hin rfl, hgen,
    fun o ho hin => (hne o).mp (hA' o ho hin), ⟨o1, o2, hos, ?_, ?_⟩, ?_⟩
  · intro o ho
    obtain ⟨g1, g2⟩ := hB o ho
    exact ⟨fun h => g2 ((hne o).mpr h), fun h => g1 ((hel o).mpr h)⟩
  · rcases hC with hC | ⟨o, b, ho2, hrs, hch', helo, hTT, hg, _, hb⟩
    · exact Or.inl hC
    · exact Or.inr ⟨o, b, ho2, hrs, hch', (hel o).mp helo, fun h => hg ((hne o).mpr h), hTT, hb⟩
  · intro hsole
    have honly : ∀ o ∈ opts, Ev.enter o.task.id ∈ tr → o = oj := by
      intro o ho hin
      rcases hgen o ho hin with h | h
      · exact h
      · exact Classical.byContradiction (fun hne' => hsole o ho hne' h)
    have hmain : ∃ st t0, skel t0 = skel oj.task ∧ C18c.TaskTick e w tr st t0 ∧
        n'.status = (if st = .invalid then .failure else st) ∧
        (n'.status = .running → C18c.chosenId n' = some oj.oid) := by
      rcases hC with ⟨hf, ho2⟩ | ⟨o, b, ho2, hrs, hch', helo, ⟨t0, ht0, hTT⟩, _⟩
      · have hall : ∀ x ∈ opts, x ∈ o1 := fun x hx => by rw [hos, ho2, List.append_nil] at hx; exact hx
        obtain ⟨st, t0, g1, g2, g3, g4⟩ := (hB oj (hall oj hoj)).1 (Or.inl rfl)
        exact ⟨st, t0, g3, g4, by rw [hf]; exact C18c.status_mirror st g1 g2, fun hr => by rw [hf] at hr; cases hr⟩
      · have hoin : o ∈ opts := by rw [hos, ho2]; simp
        have : o = oj := by
          rcases (hel o).mp helo with h | h
          · exact h
          · exact Classical.byContradiction (fun hne' => hsole o hoin hne' h)
        subst this
        refine ⟨n'.status, t0, ht0, hTT, ?_, fun _ => hch'⟩
        rcases hrs with h | h <;> rw [h] <;> simp
    obtain ⟨st, t0, ht0, hTT, hst', hch''⟩ := hmain
    refine ⟨?_, honly, ⟨st, t0, ht0, hTT, hst'⟩, hch''⟩
    have := hTT.enter
    rwa [id_of_skel ht0] at this

namespace C18c
open C18b

/-! ## 5. the invariant is kept by ticks, interrupts and pokes -/

theorem chooser_reset2 (opts : List Opt) (sid : Nat) (sst : Status) (scur : Option Nat) (os : List Node)
    (hrel : AllRel IsOpt opts os) (hok : ∀ c ∈ os, optOK c = true)
    (hnr : sst = .invalid → ∀ c ∈ os, c.status ≠ .running) :
    ∃ sst0 scur0 os0,
      (if ¬ (sel sid false sst scur os).status = .invalid then (stopInv (sel sid false sst scur os)).1
        else sel sid false sst scur os) = sel sid false sst0 scur0 os0 ∧
      sst0 ≠ .running ∧ AllRel IsOpt opts os0 ∧ (∀ c ∈ os0, optOK c = true) ∧ (∀ c ∈ os0, c.status ≠ .running) := by
  split
  · refine ⟨.invalid, none, (stopInvNonInvalid os).1, by simp [stopInv], by simp, ?_, ?_, ?_⟩
    · rw [optsAre_iff, stopInvNonInvalid_skelL]; exact (optsAre_iff opts os).mp hrel
    · exact fun c hc => (stopInvNonInvalid_facts os hok c hc).1
    · intro c hc
      rw [(stopInvNonInvalid_facts os hok c hc).2]; simp
  · rename_i hs
    have hs' : sst = .invalid := by simpa [Node.status] using hs
    exact ⟨sst, scur, os, rfl, by rw [hs']; simp, hrel, hok, hnr hs'⟩

theorem eoInv_stop (conds : List Check) (opts : List Opt) (rid xid sid : Nat) (n : Node)
    (hp : IsEitherOr conds opts rid xid sid n) (hinv : EOInv opts n) : EOInv opts (stopInv n).1 := by
  obtain ⟨rst, rcur, xst, xlog, sst, scur, os, rfl, hos⟩ := hp
  simp only [EOInv] at hinv
  obtain ⟨hI1, hI2, hI3⟩ := hinv
  have hnr : sst = .invalid → ∀ c ∈ os, c.status ≠ .running := by
    intro hs
    by_cases hr : rst = .running
    · have := (hI3 hr).2.1
      rw [hs] at this; cases this
    · exact hI2 hr
  obtain ⟨sst0, scur0, os0, hS0, _, hrel0, hok0, hnr0⟩ := chooser_reset2 opts sid sst scur os hos hI1 hnr
  obtain ⟨xst', xlog', hsp⟩ := entry_split xid xst (.checkValues conds .xor (some (opts.map Opt.flag))) xlog
    (sel sid false sst scur os)
  rw [hS0] at hsp
  simp only [stopInv, hsp, EOInv]
  exact ⟨hok0, fun _ => hnr0, fun hr => by cases hr⟩

/-- operations of a history that respect the idiom: the outside world does not write or remove the idiom's own flags
    (it may change the CONDITION variables at any time) -/
def OpOK (opts : List Opt) : Op → Prop
| .poke k _ => ∀ o ∈ opts, k ≠ o.flag
| _ => True

end C18c

/-- a fresh instance (or any instance that is not RUNNING, whose options are sane and not RUNNING) satisfies the
    invariant -/
theorem C18_eo_inv_fresh (conds : List Check) (opts : List C18c.Opt) (rid xid sid : Nat) (n : Node)
    (hp : C18c.IsEitherOr conds opts rid xid sid n) (hst : n.status ≠ .running)
    (hcs : ∀ S ∈ n.children, ∀ c ∈ S.children, C18c.optOK c = true ∧ c.status ≠ .running) : C18c.EOInv opts n := by
  obtain ⟨rst, rcur, xst, xlog, sst, scur, os, rfl, hos⟩ := hp
  simp only [C18c.EOInv]
  have h1 : ∀ c ∈ os, C18c.optOK c = true ∧ c.status ≠ .running :=
    fun c hc => hcs (sel sid false sst scur os) (by simp [Node.children]) c (by simpa [Node.children] using hc)
  exact ⟨fun c hc => (h1 c hc).1, fun _ c hc => (h1 c hc).2, fun hr => absurd hr hst⟩

/-- **3a. the invariant is preserved by every operation of a history**: ticks with any environment, root interrupts
    and blackboard pokes (of ANY variable: the state invariant does not mention the blackboard), and so is being an
    instance of the idiom. -/
theorem C18_eo_inv_step (conds : List Check) (opts : List C18c.Opt) (rid xid sid : Nat) (n : Node) (w : Store)
    (hp : C18c.IsEitherOr conds opts rid xid sid n) (hok : C18c.EitherOrOK conds opts rid xid sid)
    (hinv : C18c.EOInv opts n) (op : Op) (n' : Node) (w' : Store) (tr : List Ev)
    (h : step n w op = .ok (n', w', tr)) : C18c.IsEitherOr conds opts rid xid sid n' ∧ C18c.EOInv opts n' := by
  refine ⟨C18c.isEitherOr_of_skel hp (step_skel n w op n' w' tr h), ?_⟩
  cases op with
  | tick e =>
    simp only [step, tick] at h
    by_cases hst : n.status = .running
    · exact (C18c.running_core conds opts rid xid sid n hp hok hinv hst _ e w n' w' tr h).2.1
    · exact (C18c.fresh_core conds opts rid xid sid n hp hok hinv hst _ e w n' w' tr h).2.1
  | stop =>
    simp only [step, Except.ok.injEq, Prod.mk.injEq] at h
    obtain ⟨rfl, _, _⟩ := h
    exact C18c.eoInv_stop conds opts rid xid sid n hp hinv
  | poke k v =>
    cases v with
    | some v =>
      simp only [step, Except.ok.injEq, Prod.mk.injEq] at h
      obtain ⟨rfl, _, _⟩ := h
      exact hinv
    | none =>
      simp only [step, Except.ok.injEq, Prod.mk.injEq] at h
      obtain ⟨rfl, _, _⟩ := h
      exact hinv

/-- … hence by every history -/
theorem C18_eo_inv_run (conds : List Check) (opts : List C18c.Opt) (rid xid sid : Nat)
    (hok : C18c.EitherOrOK conds opts rid xid sid) : ∀ (ops : List Op) (n : Node) (w : Store),
    C18c.IsEitherOr conds opts rid xid sid n → C18c.EOInv opts n →
    ∀ (n' : Node) (w' : Store), run ops n w = .ok (n', w') →
    C18c.IsEitherOr conds opts rid xid sid n' ∧ C18c.EOInv opts n'
| [], n, w, hp, hinv, n', w', h => by
    simp only [run, Except.ok.injEq, Prod.mk.injEq] at h
    obtain ⟨rfl, rfl⟩ := h
    exact ⟨hp, hinv⟩
| op :: ops, n, w, hp, hinv, n', w', h => by
    simp only [run] at h
    cases hs : step n w op with
    | error err => simp [hs] at h
    | ok v =>
      obtain ⟨n1, w1, tr⟩ := v
      simp only [hs] at h
      obtain ⟨hp1, hinv1⟩ := C18_eo_inv_step conds opts rid xid sid n w hp hok hinv op n1 w1 tr hs
      exact C18_eo_inv_run conds opts rid xid sid hok ops n1 w1 hp1 hinv1 n' w' h

namespace C18c
open C18b

/-- ghost invariant "the choice is unambiguous": while the idiom is RUNNING at option `oj`, no other flag is set
    (exactly one condition held when the XOR leaf was last evaluated) -/
def Sole (opts : List Opt) (w : Store) (n : Node) : Prop :=
  n.status = .running → ∀ oj ∈ opts, chosenId n = some oj.oid → ∀ o ∈ opts, o ≠ oj → ¬ flagOn w o.flag

/-- the conditions never hold three (five, …) at a time: whenever an odd number of them hold, exactly one does.
    Always true for two conditions (`exclusive_of_two`); for more it is what the caller of `either_or` must ensure for
    the idiom to behave as documented (KNOWN FINDING K3). -/
def Exclusive (conds : List Check) : Prop :=
  ∀ w rs, evalChecks w conds = .ok (some rs) → (rs.filter _root_.id).length % 2 = 1 →
    (rs.filter _root_.id).length = 1

theorem exclusive_of_two (conds : List Check) (h : conds.length = 2) : Exclusive conds := by
  intro w rs hev hodd
  have h1 := evalChecks_length w conds rs hev
  have h2 := List.length_filter_le _root_.id rs
  omega

/-- the count is 1 ⇒ "exactly one condition holds", index form -/
theorem one_of_filter : ∀ (rs : List Bool), (rs.filter _root_.id).length = 1 →
    ∃ j, j < rs.length ∧ ∀ i (hi : i < rs.length), rs[i] = true ↔ i = j
| [], h => by simp at h
| true :: rs, h => by
    simp only [List.filter, _root_.id, List.length_cons, Nat.add_eq_right, List.length_eq_zero_iff] at h
    rw [List.filter_eq_nil_iff] at h
    refine ⟨0, by simp, ?_⟩
    intro i hi
    cases i with
    | zero => simp
    | succ i =>
      simp only [List.getElem_cons_succ, Nat.add_eq_zero_iff, Nat.succ_ne_self, and_false, iff_false]
      exact h _ (List.getElem_mem _)
| false :: rs, h => by
    simp only [List.filter, _root_.id] at h
    obtain ⟨j, hj, hall⟩ := one_of_filter rs h
    refine ⟨j + 1, by simpa using hj, ?_⟩
    intro i hi
    cases i with
    | zero => simp
    | succ i =>
      simp only [List.getElem_cons_succ, Nat.add_right_cancel_iff]
      exact hall i (by simpa using hi)

theorem oid_inj {opts : List Opt} (hnd : (Skel.idsL (opts.map optSkel)).Nodup) {a b : Opt} (ha : a ∈ opts)
    (hb : b ∈ opts) (h : a.oid = b.oid) : a = b :=
  opt_ids_unique opts hnd a ha b hb a.oid (oid_mem_opt a) (by rw [h]; exact oid_mem_opt b)

end C18c

/-- **3b. the ghost invariant `Sole` is kept by every tick** when the conditions are `Exclusive` -/
theorem C18_eo_sole_tick (conds : List Check) (opts : List C18c.Opt) (rid xid sid : Nat) (n : Node)
    (hp : C18c.IsEitherOr conds opts rid xid sid n) (hok : C18c.EitherOrOK conds opts rid xid sid)
    (hex : C18c.Exclusive conds) (hinv : C18c.EOInv opts n) (f : Nat) (e : Env) (w : Store)
    (hsole : C18c.Sole opts w n) (n' : Node) (w' : Store) (tr : List Ev) (h : tickF f e w n = .ok (n', w', tr)) :
    C18c.Sole opts w' n' := by
  have hnd := hok.ids.1
  intro hr' oj' hoj' hch' o ho hne
  by_cases hst : n.status = .running
  · obtain ⟨_, _, oj, hoj, hch, hw, _, _, _, _, _, hs⟩ :=
      C18_eo_tick_running conds opts rid xid sid n hp hok hinv hst f e w n' w' tr h
    have hso := hsole hst oj hoj hch
    have := (hs hso).2.2.2 hr'
    rw [hch'] at this
    simp only [Option.some.injEq] at this
    have := C18c.oid_inj hnd hoj' hoj this
    subst this
    rw [hw]
    exact hso o ho hne
  · obtain ⟨_, _, _, _, hout⟩ := C18c.fresh_core conds opts rid xid sid n hp hok hinv hst f e w n' w' tr h
    rcases hout with ⟨_, _, hf, _⟩ | ⟨rs, hev, _, hcase⟩
    · rw [hf] at hr'; cases hr'
    · rcases hcase with ⟨_, hf, _⟩ | ⟨hb, _⟩
      · rw [hf] at hr'; cases hr'
      · have hodd : (rs.filter _root_.id).length % 2 = 1 := by
          rw [C18_xor_parity] at hb; simpa using hb
        have hone := hex w rs hev hodd
        obtain ⟨j, hj, hall⟩ := C18c.one_of_filter rs hone
        obtain ⟨_, _, hlen, _, hfl, _⟩ :=
          C18_eo_tick_fresh conds opts rid xid sid n hp hok hinv hst f e w rs hev n' w' tr h
        have hjo : j < opts.length := by omega
        obtain ⟨_, _, _, hch⟩ :=
          C18_eo_exactly_one conds opts rid xid sid n hp hok hinv hst f e w rs hev j hjo hall n' w' tr h
        have := hch hr'
        rw [hch'] at this
        simp only [Option.some.injEq] at this
        have hoj := C18c.oid_inj hnd hoj' (List.getElem_mem hjo) this
        obtain ⟨i, hi, rfl⟩ := List.getElem_of_mem ho
        have hir : i < rs.length := by omega
        have hij : i ≠ j := by
          intro hij; subst hij; exact hne hoj.symm
        have hri : rs[i] = false := by
          cases hb' : rs[i]
          · rfl
          · exact absurd ((hall i hir).mp hb') hij
        rw [C18c.flagOn_bool w' _ _ (hfl i hi hir), hri]
        simp

/-- … by every operation of a history that does not poke the idiom's flags … -/
theorem C18_eo_sole_step (conds : List Check) (opts : List C18c.Opt) (rid xid sid : Nat) (n : Node) (w : Store)
    (hp : C18c.IsEitherOr conds opts rid xid sid n) (hok : C18c.EitherOrOK conds opts rid xid sid)
    (hex : C18c.Exclusive conds) (hinv : C18c.EOInv opts n) (hsole : C18c.Sole opts w n)
    (op : Op) (hop : C18c.OpOK opts op) (n' : Node) (w' : Store) (tr : List Ev)
    (h : step n w op = .ok (n', w', tr)) : C18c.Sole opts w' n' := by
  cases op with
  | tick e =>
    simp only [step, tick] at h
    exact C18_eo_sole_tick conds opts rid xid sid n hp hok hex hinv _ e w hsole n' w' tr h
  | stop =>
    simp only [step, Except.ok.injEq, Prod.mk.injEq] at h
    obtain ⟨rfl, _, _⟩ := h
    intro hr
    rw [stopInv_status] at hr; cases hr
  | poke k v =>
    cases v with
    | some v =>
      simp only [step, Except.ok.injEq, Prod.mk.injEq] at h
      obtain ⟨rfl, rfl, _⟩ := h
      intro hr oj hoj hch o ho hne hf
      exact hsole hr oj hoj hch o ho hne
        ((C18b.flagOn_set_other w k o.flag v (fun heq => hop o ho heq.symm)).mp hf)
    | none =>
      simp only [step, Except.ok.injEq, Prod.mk.injEq] at h
      obtain ⟨rfl, rfl, _⟩ := h
      intro hr oj hoj hch o ho hne hf
      exact hsole hr oj hoj hch o ho hne
        ((C18b.flagOn_unset_other w k o.flag (fun heq => hop o ho heq.symm)).mp hf)

/-- … hence by every such history -/
theorem C18_eo_sole_run (conds : List Check) (opts : List C18c.Opt) (rid xid sid : Nat)
    (hok : C18c.EitherOrOK conds opts rid xid sid) (hex : C18c.Exclusive conds) : ∀ (ops : List Op) (n : Node)
    (w : Store), C18c.IsEitherOr conds opts rid xid sid n → C18c.EOInv opts n → C18c.Sole opts w n →
    (∀ op ∈ ops, C18c.OpOK opts op) → ∀ (n' : Node) (w' : Store), run ops n w = .ok (n', w') →
    C18c.IsEitherOr conds opts rid xid sid n' ∧ C18c.EOInv opts n' ∧ C18c.Sole opts w' n'
| [], n, w, hp, hinv, hsole, _, n', w', h => by
    simp only [run, Except.ok.injEq, Prod.mk.injEq] at h
    obtain ⟨rfl, rfl⟩ := h
    exact ⟨hp, hinv, hsole⟩
| op :: ops, n, w, hp, hinv, hsole, hops, n', w', h => by
    simp only [run] at h
    cases hs : step n w op with
    | error err => simp [hs] at h
    | ok v =>
      obtain ⟨n1, w1, tr⟩ := v
      simp only [hs] at h
      obtain ⟨hp1, hinv1⟩ := C18_eo_inv_step conds opts rid xid sid n w hp hok hinv op n1 w1 tr hs
      have hsole1 := C18_eo_sole_step conds opts rid xid sid n w hp hok hex hinv hsole op (hops op (by simp)) n1 w1 tr hs
      exact C18_eo_sole_run conds opts rid xid sid hok hex ops n1 w1 hp1 hinv1 hsole1
        (fun o ho => hops o (by simp [ho])) n' w' h

/-- **3c. the history statement.**  After ANY history of ticks (arbitrary environments), root interrupts and blackboard
    pokes (of any variable — in particular of the condition variables), starting from an instance that satisfies the
    invariant (e.g. the fresh idiom), the state reached is an instance satisfying the invariant, and EVERY next tick
    from it is of one of the two kinds of 1 and 2 (so `C18_eo_tick_fresh`, `C18_eo_exactly_one`, `C18_eo_none_or_two`,
    `C18_eo_tick_missing`, `C18_eo_tick_running` apply to it); spelled out:
    * idiom not RUNNING: the XOR leaf is evaluated; a missing condition variable, or an even number of true conditions
      ⇒ FAILURE and no subtree is ticked; exactly condition `j` true ⇒ exactly subtree `j` is ticked and mirrored; the
      flags are rewritten to the verdicts and nothing else changes on the blackboard;
    * idiom RUNNING at option `oj`: the XOR leaf is NOT re-evaluated, the blackboard is untouched, the guard of `oj` is
      not re-entered, and a subtree is entered only if it is `oj`'s or its flag is set. -/
theorem C18_eo_history (conds : List Check) (opts : List C18c.Opt) (rid xid sid : Nat)
    (hok : C18c.EitherOrOK conds opts rid xid sid) (ops : List Op) (n : Node) (w : Store)
    (hp : C18c.IsEitherOr conds opts rid xid sid n) (hinv : C18c.EOInv opts n)
    (n1 : Node) (w1 : Store) (hrun : run ops n w = .ok (n1, w1)) :
    C18c.IsEitherOr conds opts rid xid sid n1 ∧ C18c.EOInv opts n1 ∧
    ∀ (e : Env) (n2 : Node) (w2 : Store) (tr : List Ev), tick e w1 n1 = .ok (n2, w2, tr) →
      C18c.IsEitherOr conds opts rid xid sid n2 ∧ C18c.EOInv opts n2 ∧
      (n1.status ≠ .running → Ev.enter xid ∈ tr ∧
        (evalChecks w1 conds = .ok none →
          w2 = w1 ∧ n2.status = .failure ∧ ∀ o ∈ opts, Ev.enter o.task.id ∉ tr) ∧
        (∀ rs, evalChecks w1 conds = .ok (some rs) →
          (∀ i (hi : i < opts.length) (hr : i < rs.length), w2 opts[i].flag = some (.bool rs[i])) ∧
          (∀ k, k ∉ opts.map C18c.Opt.flag → w2 k = w1 k) ∧
          ((rs.filter id).length % 2 = 0 → n2.status = .failure ∧ ∀ o ∈ opts, Ev.enter o.task.id ∉ tr) ∧
          (∀ j (hj : j < opts.length), (∀ i (hi : i < rs.length), rs[i] = true ↔ i = j) →
            Ev.enter opts[j].task.id ∈ tr ∧ (∀ o ∈ opts, Ev.enter o.task.id ∈ tr → o = opts[j]) ∧
            ∃ st t0, skel t0 = skel opts[j].task ∧ C18c.TaskTick e w2 tr st t0 ∧
              n2.status = (if st = .invalid then .failure else st)))) ∧
      (n1.status = .running → ∃ oj ∈ opts, C18c.chosenId n1 = some oj.oid ∧
        w2 = w1 ∧ Ev.enter xid ∉ tr ∧ Ev.enter oj.gid ∉ tr ∧
        (∀ o ∈ opts, Ev.enter o.task.id ∈ tr → o = oj ∨ C18b.flagOn w1 o.flag)) := by
  obtain ⟨hp1, hinv1⟩ := C18_eo_inv_run conds opts rid xid sid hok ops n w hp hinv n1 w1 hrun
  refine ⟨hp1, hinv1, ?_⟩
  intro e n2 w2 tr ht
  have ht' : tickF (height n1 + 1) e w1 n1 = .ok (n2, w2, tr) := ht
  obtain ⟨hp2, hinv2⟩ := C18_eo_inv_step conds opts rid xid sid n1 w1 hp1 hok hinv1 (.tick e) n2 w2 tr ht
  refine ⟨hp2, hinv2, ?_, ?_⟩
  · intro hst
    obtain ⟨_, _, _, hx, _⟩ := C18c.fresh_core conds opts rid xid sid n1 hp1 hok hinv1 hst _ e w1 n2 w2 tr ht'
    refine ⟨hx, ?_, ?_⟩
    · intro hev
      obtain ⟨g1, g2, _, g4, _⟩ := C18_eo_tick_missing conds opts rid xid sid n1 hp1 hok hinv1 hst _ e w1 hev n2 w2 tr ht'
      exact ⟨g1, g2, g4⟩
    · intro rs hev
      obtain ⟨_, _, _, _, hfl, hoth, ha, _⟩ :=
        C18_eo_tick_fresh conds opts rid xid sid n1 hp1 hok hinv1 hst _ e w1 rs hev n2 w2 tr ht'
      refine ⟨hfl, hoth, fun heven => ⟨(ha heven).1, (ha heven).2.2⟩, ?_⟩
      intro j hj hone
      obtain ⟨g1, g2, g3, _⟩ :=
        C18_eo_exactly_one conds opts rid xid sid n1 hp1 hok hinv1 hst _ e w1 rs hev j hj hone n2 w2 tr ht'
      exact ⟨g1, g2, g3⟩
  · intro hst
    obtain ⟨_, _, oj, hoj, hch, hw, hnx, hng, hgen, _⟩ :=
      C18_eo_tick_running conds opts rid xid sid n1 hp1 hok hinv1 hst _ e w1 n2 w2 tr ht'
    exact ⟨oj, hoj, hch, hw, hnx, hng, hgen⟩

/-- **3d. "does not switch subtree while the chosen one is RUNNING", over histories.**  When the conditions are
    `Exclusive` (never an odd number ≥ 3 of them at a time — automatic for two options, `C18c.exclusive_of_two`) and the
    outside world does not poke the idiom's own flags (it may poke the CONDITION variables as it likes), then after any
    history the ghost invariant `Sole` holds, and a tick of a RUNNING idiom — whatever the conditions evaluate to now —
    does not re-evaluate the XOR leaf, leaves the blackboard alone, does not re-enter the guard of the chosen option
    `oj`, ticks the subtree of `oj` and NO other subtree, mirrors its status, and if still RUNNING afterwards is still at
    `oj`. -/
theorem C18_eo_history_exclusive (conds : List Check) (opts : List C18c.Opt) (rid xid sid : Nat)
    (hok : C18c.EitherOrOK conds opts rid xid sid) (hex : C18c.Exclusive conds) (ops : List Op) (n : Node) (w : Store)
    (hp : C18c.IsEitherOr conds opts rid xid sid n) (hinv : C18c.EOInv opts n) (hsole : C18c.Sole opts w n)
    (hops : ∀ op ∈ ops, C18c.OpOK opts op) (n1 : Node) (w1 : Store) (hrun : run ops n w = .ok (n1, w1)) :
    C18c.IsEitherOr conds opts rid xid sid n1 ∧ C18c.EOInv opts n1 ∧ C18c.Sole opts w1 n1 ∧
    ∀ (e : Env) (n2 : Node) (w2 : Store) (tr : List Ev), tick e w1 n1 = .ok (n2, w2, tr) →
      C18c.Sole opts w2 n2 ∧
      (n1.status = .running → ∃ oj ∈ opts, C18c.chosenId n1 = some oj.oid ∧
        w2 = w1 ∧ Ev.enter xid ∉ tr ∧ Ev.enter oj.gid ∉ tr ∧
        Ev.enter oj.task.id ∈ tr ∧ (∀ o ∈ opts, Ev.enter o.task.id ∈ tr → o = oj) ∧
        (∃ st t0, skel t0 = skel oj.task ∧ C18c.TaskTick e w2 tr st t0 ∧
          n2.status = (if st = .invalid then .failure else st)) ∧
        (n2.status = .running → C18c.chosenId n2 = some oj.oid)) := by
  obtain ⟨hp1, hinv1, hsole1⟩ :=
    C18_eo_sole_run conds opts rid xid sid hok hex ops n w hp hinv hsole hops n1 w1 hrun
  refine ⟨hp1, hinv1, hsole1, ?_⟩
  intro e n2 w2 tr ht
  have ht' : tickF (height n1 + 1) e w1 n1 = .ok (n2, w2, tr) := ht
  refine ⟨C18_eo_sole_tick conds opts rid xid sid n1 hp1 hok hex hinv1 _ e w1 hsole1 n2 w2 tr ht', ?_⟩
  intro hst
  obtain ⟨_, _, oj, hoj, hch, hw, hnx, hng, _, _, _, hs⟩ :=
    C18_eo_tick_running conds opts rid xid sid n1 hp1 hok hinv1 hst _ e w1 n2 w2 tr ht'
  obtain ⟨g1, g2, g3, g4⟩ := hs (hsole1 hst oj hoj hch)
  subst hw
  exact ⟨oj, hoj, hch, rfl, hnx, hng, g1, g2, g3, g4⟩

/-- a state that is not RUNNING satisfies `Sole` with any blackboard (so the fresh idiom does) -/
theorem C18_eo_sole_fresh (opts : List C18c.Opt) (w : Store) (n : Node) (hst : n.status ≠ .running) :
    C18c.Sole opts w n := fun h => absurd h hst

namespace C18c
open C18b

/-! ## 6. connection to the constructor `Idioms.eitherOr` + `Idioms.renumber` -/

/-- the option node of a freshly built idiom -/
def freshOpt (o : Opt) : Node := optNode o .invalid none .invalid [] o.task

/-- the options of the renumbered idiom, the first one starting at id `k`; also the first id after them -/
def optsOf : Nat → List (String × Node) → List Opt × Nat
| k, [] => ([], k)
| k, (fl, t) :: ts =>
    let r := Idioms.renum (k + 2) t
    let rest := optsOf r.2.1 ts
    ({ flag := fl, oid := k, gid := k + 1, task := r.1 } :: rest.1, rest.2)

theorem renum_option (k : Nat) (fl : String) (t : Node) :
    (Idioms.renum k (C18.eoOption fl t)).1 =
      freshOpt { flag := fl, oid := k, gid := k + 1, task := (Idioms.renum (k + 2) t).1 } ∧
    (Idioms.renum k (C18.eoOption fl t)).2.1 = (Idioms.renum (k + 2) t).2.1 := by
  simp [C18.eoOption, Idioms.renum, Idioms.renumL, freshOpt, optNode, C18.flagCheck]

theorem renumL_options : ∀ (ps : List (String × Node)) (k : Nat),
    (Idioms.renumL k (ps.map (fun p => C18.eoOption p.1 p.2))).1 = (optsOf k ps).1.map freshOpt
| [], k => by simp [optsOf, Idioms.renumL]
| (fl, t) :: ps, k => by
    simp only [List.map_cons, renumL_cons, (renum_option k fl t).1, (renum_option k fl t).2,
      renumL_options ps _, optsOf]

theorem optsOf_flags : ∀ (ps : List (String × Node)) (k : Nat), (optsOf k ps).1.map Opt.flag = ps.map Prod.fst
| [], k => by simp [optsOf]
| (fl, t) :: ps, k => by simp [optsOf, optsOf_flags ps]

theorem optsOf_length : ∀ (ps : List (String × Node)) (k : Nat), (optsOf k ps).1.length = ps.length
| [], k => by simp [optsOf]
| (fl, t) :: ps, k => by simp [optsOf, optsOf_length ps]

end C18c

/-- **4. connection to the constructor**, for ALL lists of conditions and subtrees of equal length: the tree built by
    `Idioms.eitherOr` and numbered by `Idioms.renumber` is an instance of the idiom — root id 1, XOR leaf id 2, chooser
    id 3 — over the options `optsOf 4 (keys zip subtrees)` (option `i`: flag `ns/(i+1)`, the subtree renumbered,
    consecutive pre-order ids); the flags are the keys the XOR leaf publishes, pairwise distinct, one per condition; the
    fresh idiom satisfies the state invariant `EOInv` and, with any blackboard, the ghost invariant `Sole`. -/
theorem C18_eo_isEitherOr (conds : List Check) (subtrees : List Node) (ns : String)
    (hlen : conds.length = subtrees.length) :
    C18c.IsEitherOr conds (C18c.optsOf 4 ((C18.eoKeys conds.length ns).zip subtrees)).1 1 2 3
      (Idioms.renumber (Idioms.eitherOr conds subtrees ns)) ∧
    (C18c.optsOf 4 ((C18.eoKeys conds.length ns).zip subtrees)).1.map C18c.Opt.flag = C18.eoKeys conds.length ns ∧
    ((C18c.optsOf 4 ((C18.eoKeys conds.length ns).zip subtrees)).1.map C18c.Opt.flag).Nodup ∧
    conds.length = (C18c.optsOf 4 ((C18.eoKeys conds.length ns).zip subtrees)).1.length ∧
    (Idioms.renumber (Idioms.eitherOr conds subtrees ns)).status = .invalid ∧
    C18c.EOInv (C18c.optsOf 4 ((C18.eoKeys conds.length ns).zip subtrees)).1
      (Idioms.renumber (Idioms.eitherOr conds subtrees ns)) ∧
    ∀ w, C18c.Sole (C18c.optsOf 4 ((C18.eoKeys conds.length ns).zip subtrees)).1 w
      (Idioms.renumber (Idioms.eitherOr conds subtrees ns)) := by
  have hkl := C18.eoKeys_length conds.length ns
  have hfl : (C18c.optsOf 4 ((C18.eoKeys conds.length ns).zip subtrees)).1.map C18c.Opt.flag =
      C18.eoKeys conds.length ns := by
    rw [C18c.optsOf_flags]
    exact List.map_fst_zip (by rw [hkl, hlen]; exact Nat.le_refl _)
  have hshape : Idioms.renumber (Idioms.eitherOr conds subtrees ns) =
      seq 1 true .invalid none
        [leaf 2 .invalid (.checkValues conds .xor (some (C18.eoKeys conds.length ns))) [],
         sel 3 false .invalid none
           ((C18c.optsOf 4 ((C18.eoKeys conds.length ns).zip subtrees)).1.map C18c.freshOpt)] := by
    rw [C18_eo_shape]
    simp only [Idioms.renumber, Idioms.renum, Idioms.renumL]
    rw [C18c.renumL_options]
  have hp : C18c.IsEitherOr conds (C18c.optsOf 4 ((C18.eoKeys conds.length ns).zip subtrees)).1 1 2 3
      (Idioms.renumber (Idioms.eitherOr conds subtrees ns)) := by
    rw [hshape]
    refine ⟨.invalid, none, .invalid, [], .invalid, none, _, by rw [hfl], ?_⟩
    exact C18b.allRel_map _ _ (fun o => ⟨_, _, _, _, _, rfl, rfl⟩) _
  have hst : (Idioms.renumber (Idioms.eitherOr conds subtrees ns)).status = .invalid := by rw [hshape]; rfl
  refine ⟨hp, hfl, by rw [hfl]; exact C18.eoKeys_nodup _ _, ?_, hst, ?_,
    fun w => C18_eo_sole_fresh _ w _ (by rw [hst]; simp)⟩
  · rw [C18c.optsOf_length, List.length_zip, hkl, hlen]; simp
  · apply C18_eo_inv_fresh conds _ 1 2 3 _ hp (by rw [hst]; simp)
    rw [hshape]
    intro S hS c hc
    simp only [Node.children, List.mem_cons, List.not_mem_nil, or_false] at hS
    rcases hS with rfl | rfl
    · simp [Node.children] at hc
    · simp only [Node.children, List.mem_map] at hc
      obtain ⟨o, _, rfl⟩ := hc
      exact ⟨rfl, by simp [C18c.freshOpt, C18c.optNode, Node.status]⟩

/-- **1b, "the first condition that holds wins"** (general odd case, K3 included): when an odd number of conditions hold
    and `j` is the index of the FIRST one, the subtree of option `j` is entered and no subtree of an earlier option is.
    (Later flagged options can be entered too, but only after option `j`'s subtree returned FAILURE:
    `C18_eo_tick_fresh` (b).) -/
theorem C18_eo_first_true (conds : List Check) (opts : List C18c.Opt) (rid xid sid : Nat) (n : Node)
    (hp : C18c.IsEitherOr conds opts rid xid sid n) (hok : C18c.EitherOrOK conds opts rid xid sid)
    (hinv : C18c.EOInv opts n) (hst : n.status ≠ .running) (f : Nat) (e : Env) (w : Store) (rs : List Bool)
    (hev : evalChecks w conds = .ok (some rs)) (hodd : (rs.filter id).length % 2 = 1)
    (j : Nat) (hj : j < opts.length) (hjr : j < rs.length) (hjt : rs[j] = true)
    (hfirst : ∀ i (hi : i < rs.length), i < j → rs[i] = false)
    (n' : Node) (w' : Store) (tr : List Ev) (h : tickF f e w n = .ok (n', w', tr)) :
    Ev.enter opts[j].task.id ∈ tr ∧ ∀ i (hi : i < opts.length), i < j → Ev.enter opts[i].task.id ∉ tr := by
  obtain ⟨_, _, hlen, _, hfl, _, _, hb⟩ :=
    C18_eo_tick_fresh conds opts rid xid sid n hp hok hinv hst f e w rs hev n' w' tr h
  obtain ⟨hA, o1, o2, hos, hB, hC⟩ := hb hodd
  have hjf : w' opts[j].flag = some (.bool true) := by rw [hfl j hj hjr, hjt]
  constructor
  · have hent : ∀ st t0, skel t0 = skel opts[j].task → C18c.TaskTick e w' tr st t0 → Ev.enter opts[j].task.id ∈ tr := by
      intro st t0 ht0 hTT
      have := hTT.enter
      rwa [id_of_skel ht0] at this
    by_cases hlt : j < o1.length
    · have hmem : opts[j] ∈ o1 := by
        have : opts[j] = o1[j] := by
          subst hos; exact List.getElem_append_left hlt
        rw [this]; exact List.getElem_mem hlt
      obtain ⟨st, t0, _, _, g3, g4⟩ := (hB _ hmem).2 hjf
      exact hent st t0 g3 g4
    · rcases hC with ⟨_, ho2⟩ | ⟨o, b, ho2, _, _, hfo, _, ⟨t0, ht0, hTT⟩, _⟩
      · exfalso
        subst hos; subst ho2
        simp only [List.append_nil] at hj
        exact hlt hj
      · have hi : o1.length < opts.length := by rw [hos, ho2]; simp
        have hoi : opts[o1.length] = o := by
          subst hos; subst ho2; simp
        by_cases heq : j = o1.length
        · subst heq
          rw [hoi]
          have := hTT.enter
          rwa [id_of_skel ht0] at this
        · exfalso
          have hlt' : o1.length < j := by omega
          have hir : o1.length < rs.length := by omega
          have h1 := hfl o1.length hi hir
          rw [hoi, hfo, hfirst o1.length hir hlt'] at h1
          simp at h1
  · intro i hi hij hin
    have h1 := hA _ (List.getElem_mem hi) hin
    have hir : i < rs.length := by omega
    rw [hfl i hi hir, hfirst i hir hij] at h1
    simp at h1

/-- the conditions do not read the flags, so after the XOR leaf has published them the conditions still evaluate as
    they did: the verdict the idiom acted on is the verdict of the blackboard it leaves behind -/
theorem C18_eo_truth_stable (conds : List Check) (opts : List C18c.Opt) (rid xid sid : Nat) (n : Node)
    (hp : C18c.IsEitherOr conds opts rid xid sid n) (hok : C18c.EitherOrOK conds opts rid xid sid)
    (hinv : C18c.EOInv opts n) (hst : n.status ≠ .running) (f : Nat) (e : Env) (w : Store) (rs : List Bool)
    (hev : evalChecks w conds = .ok (some rs)) (n' : Node) (w' : Store) (tr : List Ev)
    (h : tickF f e w n = .ok (n', w', tr)) : evalChecks w' conds = .ok (some rs) := by
  obtain ⟨_, _, _, _, _, hoth, _⟩ :=
    C18_eo_tick_fresh conds opts rid xid sid n hp hok hinv hst f e w rs hev n' w' tr h
  rw [C18c.evalChecks_congr w w' conds (fun c hc => hoth c.key (hok.2.2.2.2.2 c hc)), hev]

/-! ## 7. non-vacuity: concrete two- and three-option instances -/

namespace C18c

def isTrue (k : String) : Check := { key := k, path := [], op := .eq, value := .bool true }
def setB (k : String) (b : Bool) : Op := .poke k (some (.bool b))
def exEnv (f : Nat → Status) : Env := { outcome := f, guard := fun _ => true, now := 0 }
def eR : Env := exEnv (fun _ => .running)
def eS : Env := exEnv (fun _ => .success)
def eF : Env := exEnv (fun _ => .failure)

/-- a Sequence subtree: a counter (one RUNNING tick, then SUCCESS) followed by a probe -/
def seqSub (i : Nat) : Node :=
  seq i true .invalid none [leaf (i + 1) .invalid (.tickCounter 1 .success 0) [], leaf (i + 2) .invalid .probe []]

/-- two options; ids as `Idioms.renumber` assigns them:
    1 root; 2 XOR; 3 chooser [4 [5 guard, 6 probe], 7 [8 guard, 9 Sequence [10 counter, 11 probe]]] -/
def ex2Opts : List Opt :=
  [{ flag := "/eo/1", oid := 4, gid := 5, task := leaf 6 .invalid .probe [] },
   { flag := "/eo/2", oid := 7, gid := 8, task := seqSub 9 }]
def ex2Conds : List Check := [isTrue "/a", isTrue "/b"]
def ex2Tree : Node :=
  seq 1 true .invalid none
    [leaf 2 .invalid (.checkValues ex2Conds .xor (some (ex2Opts.map Opt.flag))) [],
     sel 3 false .invalid none (ex2Opts.map freshOpt)]

/-- three options: 1 root; 2 XOR; 3 chooser [4 [5, 6 probe], 7 [8, 9 Sequence [10, 11]], 12 [13, 14 probe]] -/
def ex3Opts : List Opt :=
  ex2Opts ++ [{ flag := "/eo/3", oid := 12, gid := 13, task := leaf 14 .invalid .probe [] }]
def ex3Conds : List Check := [isTrue "/a", isTrue "/b", isTrue "/c"]
def ex3Tree : Node :=
  seq 1 true .invalid none
    [leaf 2 .invalid (.checkValues ex3Conds .xor (some (ex3Opts.map Opt.flag))) [],
     sel 3 false .invalid none (ex3Opts.map freshOpt)]

theorem ex2_isEitherOr : IsEitherOr ex2Conds ex2Opts 1 2 3 ex2Tree :=
  ⟨.invalid, none, .invalid, [], .invalid, none, _, rfl, C18b.allRel_map _ _ (fun o => ⟨_, _, _, _, _, rfl, rfl⟩) _⟩
theorem ex3_isEitherOr : IsEitherOr ex3Conds ex3Opts 1 2 3 ex3Tree :=
  ⟨.invalid, none, .invalid, [], .invalid, none, _, rfl, C18b.allRel_map _ _ (fun o => ⟨_, _, _, _, _, rfl, rfl⟩) _⟩

/-- what the examples look at: root status after the history, then for one more tick: root status, whether the XOR
    leaf (2) / subtree 1 (6) / subtree 2 (9) / subtree 3 (14) were entered, the guards entered -/
def probeTick (ops : List Op) (e : Env) (t : Node) : Option (Status × Status × List Nat) :=
  match run ops t Store.empty with
  | .ok (n1, w1) =>
    (match tick e w1 n1 with
     | .ok (n2, _, tr) =>
        some (n1.status, n2.status, tr.filterMap (fun ev => match ev with | .enter i => some i | _ => none))
     | .error _ => none)
  | .error _ => none

def truth (w : Store) (conds : List Check) : Option (List Bool) :=
  match evalChecks w conds with | .ok (some rs) => some rs | _ => none

end C18c
open C18c

example : (eoSkel ex2Conds ex2Opts 1 2 3).ids = [1, 2, 3, 4, 5, 6, 7, 8, 9, 10, 11] := by decide
theorem C18c.ex2_ok : EitherOrOK ex2Conds ex2Opts 1 2 3 :=
  ⟨by decide, by decide, by decide, by decide, by decide, by decide⟩
theorem C18c.ex3_ok : EitherOrOK ex3Conds ex3Opts 1 2 3 :=
  ⟨by decide, by decide, by decide, by decide, by decide, by decide⟩
theorem C18c.ex2_inv : EOInv ex2Opts ex2Tree :=
  C18_eo_inv_fresh ex2Conds ex2Opts 1 2 3 ex2Tree ex2_isEitherOr (by decide) (by decide)
theorem C18c.ex3_inv : EOInv ex3Opts ex3Tree :=
  C18_eo_inv_fresh ex3Conds ex3Opts 1 2 3 ex3Tree ex3_isEitherOr (by decide) (by decide)
/-- two conditions are always `Exclusive` -/
example : Exclusive ex2Conds := exclusive_of_two _ rfl

/-- every state reached from the fresh two-option idiom is an instance satisfying the invariants, whatever the history
    (pokes of the condition variables included) -/
example (ops : List Op) (hops : ∀ op ∈ ops, OpOK ex2Opts op) (n1 : Node) (w1 : Store)
    (h : run ops ex2Tree Store.empty = .ok (n1, w1)) :
    IsEitherOr ex2Conds ex2Opts 1 2 3 n1 ∧ EOInv ex2Opts n1 ∧ Sole ex2Opts w1 n1 :=
  (C18_eo_history_exclusive ex2Conds ex2Opts 1 2 3 ex2_ok (exclusive_of_two _ rfl) ops ex2Tree Store.empty
    ex2_isEitherOr ex2_inv (C18_eo_sole_fresh _ _ _ (by decide)) hops n1 w1 h).1 |> fun h1 =>
  ⟨h1, (C18_eo_history_exclusive ex2Conds ex2Opts 1 2 3 ex2_ok (exclusive_of_two _ rfl) ops ex2Tree Store.empty
    ex2_isEitherOr ex2_inv (C18_eo_sole_fresh _ _ _ (by decide)) hops n1 w1 h).2.1,
   (C18_eo_history_exclusive ex2Conds ex2Opts 1 2 3 ex2_ok (exclusive_of_two _ rfl) ops ex2Tree Store.empty
    ex2_isEitherOr ex2_inv (C18_eo_sole_fresh _ _ _ (by decide)) hops n1 w1 h).2.2.1⟩

-- `OpOK`: pokes of the condition variables are allowed, pokes of the flags are not
example : OpOK ex2Opts (setB "/a" false) := by simp [OpOK, setB, ex2Opts]
example : ¬ OpOK ex2Opts (.poke "/eo/1" none) := by simp [OpOK, ex2Opts]

-- the hypothesis `evalChecks w conds = some rs` of 1 on concrete blackboards
example : truth ((Store.empty.set "/a" (.bool true)).set "/b" (.bool false)) ex2Conds = some [true, false] := by decide
example : truth (Store.empty.set "/a" (.bool true)) ex2Conds = none := by decide  -- "/b" missing

/-! ### two options -/
-- exactly condition 2 holds: exactly subtree 2 (the Sequence 9, its counter 10) is ticked, status mirrored (RUNNING)
example : probeTick [setB "/a" false, setB "/b" true] eR ex2Tree =
    some (.invalid, .running, [1, 2, 3, 4, 5, 7, 8, 9, 10]) := by decide
-- none / both: FAILURE, only the root and the XOR leaf are entered
example : probeTick [setB "/a" false, setB "/b" false] eR ex2Tree = some (.invalid, .failure, [1, 2]) := by decide
example : probeTick [setB "/a" true, setB "/b" true] eR ex2Tree = some (.invalid, .failure, [1, 2]) := by decide
-- a missing condition variable: FAILURE, no subtree
example : probeTick [setB "/a" true] eR ex2Tree = some (.invalid, .failure, [1, 2]) := by decide
/-- **the condition variable is flipped by a poke while the chosen subtree is RUNNING**: condition 2 held, subtree 2 is
    RUNNING; then `/a := True, /b := False` — now condition 1 holds and condition 2 does not; the next tick does NOT
    re-evaluate the XOR leaf (2), re-enters the guard of option 1 (5: it reads the FLAG, still False), does not re-enter
    the guard of option 2 (8) and ticks the SAME subtree (9; its counter has finished, so now its probe 11) -/
example : probeTick [setB "/a" false, setB "/b" true, .tick eR, setB "/a" true, setB "/b" false] eR ex2Tree =
    some (.running, .running, [1, 3, 4, 5, 7, 9, 10, 11]) := by decide
-- the conditions at that moment really are the other way round
example : (match run [setB "/a" false, setB "/b" true, .tick eR, setB "/a" true, setB "/b" false] ex2Tree Store.empty with
    | .ok (_, w1) => truth w1 ex2Conds | .error _ => none) = some [true, false] := by decide
-- and the flags still carry the verdict of the last evaluation
example : (match run [setB "/a" false, setB "/b" true, .tick eR, setB "/a" true, setB "/b" false] ex2Tree Store.empty with
    | .ok (_, w1) => some (w1 "/eo/1" == some (.bool false), w1 "/eo/2" == some (.bool true)) | .error _ => none) =
    some (true, true) := by decide
-- once the chosen subtree has completed, the next entry re-evaluates the conditions and runs subtree 1 (6)
example : probeTick [setB "/a" false, setB "/b" true, .tick eR, setB "/a" true, setB "/b" false, .tick eS] eR ex2Tree =
    some (.success, .running, [1, 2, 3, 4, 5, 6]) := by decide
-- an interrupt also ends the commitment
example : probeTick [setB "/a" false, setB "/b" true, .tick eR, setB "/a" true, setB "/b" false, .stop] eR ex2Tree =
    some (.invalid, .running, [1, 2, 3, 4, 5, 6]) := by decide

/-! ### three options -/
-- exactly condition 2 (the Sequence subtree): only that subtree
example : probeTick [setB "/a" false, setB "/b" true, setB "/c" false] eR ex3Tree =
    some (.invalid, .running, [1, 2, 3, 4, 5, 7, 8, 9, 10]) := by decide
-- two of three: FAILURE, no subtree
example : probeTick [setB "/a" true, setB "/b" false, setB "/c" true] eR ex3Tree = some (.invalid, .failure, [1, 2]) := by
  decide
/-- **K3 at the level of the whole idiom**: all three conditions hold, yet the idiom does not fail: the check passes
    (odd) and the FIRST option's subtree (6) is ticked … -/
example : probeTick [setB "/a" true, setB "/b" true, setB "/c" true] eR ex3Tree =
    some (.invalid, .running, [1, 2, 3, 4, 5, 6]) := by decide
/-- … and when that subtree FAILS the chooser goes on to the next flagged option (9) within the same tick
    (`C18_eo_tick_fresh` (b): a later subtree only after the earlier flagged ones returned FAILURE) -/
example : probeTick [setB "/a" true, setB "/b" true, setB "/c" true]
      (exEnv (fun i => if i = 6 then .failure else .running)) ex3Tree =
    some (.invalid, .running, [1, 2, 3, 4, 5, 6, 7, 8, 9, 10]) := by decide
/-- K3, RUNNING case: with three flags set and the idiom RUNNING at option 2 (after option 1's subtree failed), the next
    tick re-ticks option 1's subtree (6) first — its flag is set — and SWITCHES to it when it now returns RUNNING: this
    is why `C18_eo_tick_running` states "only `oj`'s subtree" under the hypothesis that no other flag is set, and
    `C18_eo_history_exclusive` assumes `Exclusive` conditions. -/
example : probeTick [setB "/a" true, setB "/b" true, setB "/c" true,
      .tick (exEnv (fun i => if i = 6 then .failure else .running))] eR ex3Tree =
    some (.running, .running, [1, 3, 4, 5, 6]) := by decide
/-- the three-condition list of this example is NOT `Exclusive` -/
example : ¬ Exclusive ex3Conds := by
  intro h
  have := h (((Store.empty.set "/a" (.bool true)).set "/b" (.bool true)).set "/c" (.bool true)) [true, true, true]
    rfl (by decide)
  simp at this

/-! ### why 1 needs the invariant `EOInv`

  `IsEitherOr` allows ANY runtime state, also states no history can reach; `EOInv` (true initially, kept by every
  operation: `C18_eo_inv_step`) excludes them. -/
namespace C18c
/-- an UNREACHABLE state: nothing is RUNNING except option 2, which claims to be RUNNING at its subtree -/
def exBad : Node :=
  seq 1 true .invalid none
    [leaf 2 .invalid (.checkValues ex2Conds .xor (some (ex2Opts.map Opt.flag))) [],
     sel 3 false .invalid none
       [freshOpt { flag := "/eo/1", oid := 4, gid := 5, task := leaf 6 .invalid .probe [] },
        optNode { flag := "/eo/2", oid := 7, gid := 8, task := seqSub 9 } .running (some 9) .invalid [] (seqSub 9)]]
end C18c
example : IsEitherOr ex2Conds ex2Opts 1 2 3 exBad :=
  ⟨.invalid, none, .invalid, [], .invalid, none, _, rfl, ⟨⟨_, _, _, _, _, rfl, rfl⟩, ⟨_, _, _, _, _, rfl, rfl⟩, trivial⟩⟩
/-- without the invariant "exactly one ⇒ only that subtree" fails: only condition 1 holds, subtree 1 (6) fails, and the
    chooser then resumes the stale option 2 at its subtree (9) although flag 2 is False -/
example : (match tick eF ((Store.empty.set "/a" (.bool true)).set "/b" (.bool false)) exBad with
    | .ok (_, w', tr) => some (w' "/eo/2" == some (.bool false), tr.contains (.enter 6), tr.contains (.enter 9))
    | .error _ => none) = some (true, true, true) := by decide

/-! ### the builder instance of 4 -/
-- the options `optsOf` computes for the two-option idiom of C18 (`C18.eo2`): ids of option / guard / subtree
example : ((optsOf 4 (["/eo/1", "/eo/2"].zip [C18.probe, C18.probe])).1.map (fun o => (o.oid, o.gid, o.task.id)),
    (optsOf 4 (["/eo/1", "/eo/2"].zip [C18.probe, C18.probe])).2) = ([(4, 5, 6), (7, 8, 9)], 10) := by decide
example : IsEitherOr [C18.isTrue "/a", C18.isTrue "/b"]
    (optsOf 4 ((C18.eoKeys 2 "/eo").zip [C18.probe, C18.probe])).1 1 2 3 C18.eo2 :=
  (C18_eo_isEitherOr [C18.isTrue "/a", C18.isTrue "/b"] [C18.probe, C18.probe] "/eo" rfl).1
open C18c
/-! ### the hypotheses of 1 / 2 on concrete non-trivial states -/
-- "exactly condition `j` holds" (hypothesis `hone` of `C18_eo_exactly_one`) for the verdict [False, True], j = 1
example : ∀ i (hi : i < [false, true].length), [false, true][i] = true ↔ i = 1 := by decide
example : ([false, true].filter id).length = 1 := by decide
-- a reached RUNNING state (hypothesis of `C18_eo_tick_running`): the chooser remembers option 2 (id 7)
example : (match run [setB "/a" false, setB "/b" true, .tick eR] ex2Tree Store.empty with
    | .ok (n1, _) => some (n1.status, chosenId n1) | .error _ => none) = some (.running, some 7) := by decide
/-- `C18_eo_history_exclusive` applied to that history: whatever the next environment, the next tick does not enter the
    XOR leaf (2) nor the guard of the chosen option, and leaves the blackboard alone -/
example (n1 : Node) (w1 : Store)
    (h : run [setB "/a" false, setB "/b" true, .tick eR, setB "/a" true, setB "/b" false] ex2Tree Store.empty =
      .ok (n1, w1)) (hr : n1.status = .running) (e : Env) (n2 : Node) (w2 : Store) (tr : List Ev)
    (ht : tick e w1 n1 = .ok (n2, w2, tr)) :
    ∃ oj ∈ ex2Opts, chosenId n1 = some oj.oid ∧ w2 = w1 ∧ Ev.enter 2 ∉ tr ∧ Ev.enter oj.gid ∉ tr ∧
      Ev.enter oj.task.id ∈ tr ∧ (∀ o ∈ ex2Opts, Ev.enter o.task.id ∈ tr → o = oj) := by
  have hops : ∀ op ∈ [setB "/a" false, setB "/b" true, Op.tick eR, setB "/a" true, setB "/b" false],
      OpOK ex2Opts op := by
    intro op hop
    simp only [List.mem_cons, List.not_mem_nil, or_false] at hop
    rcases hop with rfl | rfl | rfl | rfl | rfl <;> simp [OpOK, setB, ex2Opts]
  obtain ⟨_, _, _, hnext⟩ := C18_eo_history_exclusive ex2Conds ex2Opts 1 2 3 ex2_ok (exclusive_of_two _ rfl) _ ex2Tree
    Store.empty ex2_isEitherOr ex2_inv (C18_eo_sole_fresh _ _ _ (by decide)) hops n1 w1 h
  obtain ⟨oj, hoj, g1, g2, g3, g4, g5, g6, _⟩ := (hnext e n2 w2 tr ht).2 hr
  exact ⟨oj, hoj, g1, g2, g3, g4, g5, g6⟩
