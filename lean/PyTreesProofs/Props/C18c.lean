import PyTreesProofs.Props.C18b
set_option linter.unusedVariables false
set_option linter.unusedSimpArgs false
open Node

namespace C18c
open C18b

/-! ## 1. structural description -/

/-- one option of the idiom: its flag, the ids of the option Sequence and of its guard leaf, the subtree -/
structure Opt where
  flag : String
  oid : Nat
  gid : Nat
  task : Node

/-- the option Sequence in an arbitrary runtime state; `t` is the subtree in its current state -/
def optNode (o : Opt) (ost : Status) (ocur : Option Nat) (gst : Status) (glog : List LEv) (t : Node) : Node :=
  seq o.oid true ost ocur
    [leaf o.gid gst (.checkValue { key := o.flag, path := [], op := .eq, value := .bool true }) glog, t]

def IsOpt (o : Opt) (n : Node) : Prop :=
  ∃ ost ocur gst glog t, n = optNode o ost ocur gst glog t ∧ skel t = skel o.task

def optSkel (o : Opt) : Skel :=
  .seq o.oid true [.leaf o.gid (.checkValue { key := o.flag, path := [], op := .eq, value := .bool true }), skel o.task]

/-- `n` is an instance of `either_or` over the conditions and options, in any runtime state -/
def IsEitherOr (conds : List Check) (opts : List Opt) (rid xid sid : Nat) (n : Node) : Prop :=
  ∃ rst rcur xst xlog sst scur os,
    n = seq rid true rst rcur
      [leaf xid xst (.checkValues conds .xor (some (opts.map Opt.flag))) xlog, sel sid false sst scur os] ∧
    AllRel IsOpt opts os

def eoSkel (conds : List Check) (opts : List Opt) (rid xid sid : Nat) : Skel :=
  .seq rid true [.leaf xid (.checkValues conds .xor (some (opts.map Opt.flag))), .sel sid false (opts.map optSkel)]

theorem shape_eq_checkValues {k : LeafKind} {cs : List Check} {op : LogicOp} {res : Option (List String)}
    (h : k.shape = .checkValues cs op res) : k = .checkValues cs op res := by
  cases k <;> simp only [LeafKind.shape, LeafShape.checkValues.injEq, reduceCtorEq] at h
  obtain ⟨rfl, rfl, rfl⟩ := h; rfl

theorem isOpt_iff_skel (o : Opt) (n : Node) : IsOpt o n ↔ skel n = optSkel o := by
  constructor
  · rintro ⟨ost, ocur, gst, glog, t, rfl, ht⟩
    simp [optNode, optSkel, skel, LeafKind.shape, ht]
  · intro h
    obtain ⟨ost, ocur, cs, rfl, hcs⟩ := skel_eq_seq h
    obtain ⟨g, cs1, rfl, hg, hcs1⟩ := skelL_eq_cons hcs
    obtain ⟨t, cs2, rfl, ht, hcs2⟩ := skelL_eq_cons hcs1
    obtain rfl := skelL_eq_nil hcs2
    obtain ⟨gst, gk, glog, rfl, hgk⟩ := skel_eq_leaf hg
    obtain rfl := shape_eq_checkValue hgk
    exact ⟨ost, ocur, gst, glog, t, rfl, ht⟩

theorem optsAre_iff (os : List Opt) (ns : List Node) : AllRel IsOpt os ns ↔ skelL ns = os.map optSkel :=
  allRel_iff_skelL IsOpt optSkel isOpt_iff_skel os ns

theorem isEitherOr_iff_skel (conds : List Check) (opts : List Opt) (rid xid sid : Nat) (n : Node) :
    IsEitherOr conds opts rid xid sid n ↔ skel n = eoSkel conds opts rid xid sid := by
  constructor
  · rintro ⟨rst, rcur, xst, xlog, sst, scur, os, rfl, hos⟩
    rw [optsAre_iff] at hos
    simp [eoSkel, skel, LeafKind.shape, hos]
  · intro h
    obtain ⟨rst, rcur, cs, rfl, hcs⟩ := skel_eq_seq h
    obtain ⟨x, cs1, rfl, hx, hcs1⟩ := skelL_eq_cons hcs
    obtain ⟨s, cs2, rfl, hs, hcs2⟩ := skelL_eq_cons hcs1
    obtain rfl := skelL_eq_nil hcs2
    obtain ⟨xst, xk, xlog, rfl, hxk⟩ := skel_eq_leaf hx
    obtain rfl := shape_eq_checkValues hxk
    obtain ⟨sst, scur, os, rfl, hos⟩ := skel_eq_sel hs
    exact ⟨rst, rcur, xst, xlog, sst, scur, os, rfl, (optsAre_iff _ _).mpr hos⟩

theorem isEitherOr_of_skel {conds : List Check} {opts : List Opt} {rid xid sid : Nat} {n n' : Node}
    (h : IsEitherOr conds opts rid xid sid n) (hs : skel n' = skel n) : IsEitherOr conds opts rid xid sid n' := by
  rw [isEitherOr_iff_skel] at h ⊢; rw [hs, h]

theorem isOpt_of_skel {o : Opt} {n n' : Node} (h : IsOpt o n) (hs : skel n' = skel n) : IsOpt o n' := by
  rw [isOpt_iff_skel] at h ⊢; rw [hs, h]

theorem isOpt_id {o : Opt} {c : Node} (h : IsOpt o c) : c.id = o.oid := by
  obtain ⟨_, _, _, _, _, rfl, _⟩ := h; rfl

theorem optsAre_append {s1 s2 : List Opt} {n1 n2 : List Node} (h1 : AllRel IsOpt s1 n1) (h2 : AllRel IsOpt s2 n2) :
    AllRel IsOpt (s1 ++ s2) (n1 ++ n2) := by
  rw [optsAre_iff] at h1 h2 ⊢
  rw [skelL_append, List.map_append, h1, h2]

/-! ### ids -/

theorem optSkel_ids (o : Opt) : (optSkel o).ids = o.oid :: o.gid :: (skel o.task).ids := by
  simp [optSkel, Skel.ids, Skel.idsL]

theorem mem_idsL_opts : ∀ (os : List Opt) (x : Nat),
    x ∈ Skel.idsL (os.map optSkel) ↔ ∃ o ∈ os, x ∈ (optSkel o).ids
| [], x => by simp [Skel.idsL]
| s :: os, x => by simp [Skel.idsL, mem_idsL_opts os x]

theorem opt_ids_unique : ∀ (os : List Opt), (Skel.idsL (os.map optSkel)).Nodup →
    ∀ a ∈ os, ∀ b ∈ os, ∀ x, x ∈ (optSkel a).ids → x ∈ (optSkel b).ids → a = b
| [], _, a, ha, _, _, _, _, _ => by simp at ha
| s :: os, hnd, a, ha, b, hb, x, hxa, hxb => by
    simp only [List.map_cons, Skel.idsL, List.nodup_append] at hnd
    obtain ⟨_, h2, h3⟩ := hnd
    simp only [List.mem_cons] at ha hb
    rcases ha with rfl | ha <;> rcases hb with rfl | hb
    · rfl
    · exact absurd rfl (h3 x hxa x ((mem_idsL_opts os x).mpr ⟨b, hb, hxb⟩))
    · exact absurd rfl (h3 x hxb x ((mem_idsL_opts os x).mpr ⟨a, ha, hxa⟩))
    · exact opt_ids_unique os h2 a ha b hb x hxa hxb

theorem opt_ids_nodup : ∀ (os : List Opt), (Skel.idsL (os.map optSkel)).Nodup →
    ∀ a ∈ os, (optSkel a).ids.Nodup
| [], _, a, ha => by simp at ha
| s :: os, hnd, a, ha => by
    simp only [List.map_cons, Skel.idsL, List.nodup_append] at hnd
    simp only [List.mem_cons] at ha
    rcases ha with rfl | ha
    · exact hnd.1
    · exact opt_ids_nodup os hnd.2.1 a ha

theorem task_id_mem_opt (o : Opt) : o.task.id ∈ (optSkel o).ids := by
  rw [optSkel_ids]; simp [id_mem_ids o.task]

theorem oid_mem_opt (o : Opt) : o.oid ∈ (optSkel o).ids := by rw [optSkel_ids]; simp
theorem gid_mem_opt (o : Opt) : o.gid ∈ (optSkel o).ids := by rw [optSkel_ids]; simp

theorem opt_id_facts (o : Opt) (h : (optSkel o).ids.Nodup) :
    o.task.id ≠ o.oid ∧ o.task.id ≠ o.gid ∧ o.gid ≠ o.oid ∧ o.gid ∉ (skel o.task).ids ∧ o.oid ∉ (skel o.task).ids := by
  rw [optSkel_ids] at h
  simp only [List.nodup_cons, List.mem_cons, not_or] at h
  have hm := id_mem_ids o.task
  refine ⟨?_, ?_, fun heq => h.1.1 heq.symm, h.2.1, h.1.2⟩
  · intro heq; rw [heq] at hm; exact h.1.2 hm
  · intro heq; rw [heq] at hm; exact h.2.1 hm

/-- an option in a sane state: when RUNNING it remembers its subtree (the guard never returns RUNNING) -/
def optOK : Node → Bool
| seq _ _ st cur [_, t] => st != .running || cur == some t.id
| _ => true

theorem optOK_optNode (o : Opt) (ost ocur gst glog t) :
    optOK (optNode o ost ocur gst glog t) = true ↔ (ost = .running → ocur = some t.id) := by
  simp only [optNode, optOK, Bool.or_eq_true, bne_iff_ne, ne_eq, beq_iff_eq]
  constructor
  · intro h hr
    rcases h with h | h
    · exact absurd hr h
    · exact h
  · intro h
    by_cases hr : ost = .running
    · exact Or.inr (h hr)
    · exact Or.inl hr

/-- "the subtree `t0` is ticked in store `w`, leaves it alone, its trace is part of `tr`, and it returns `st`" -/
def TaskTick (e : Env) (w : Store) (tr : List Ev) (st : Status) (t0 : Node) : Prop :=
  ∃ f' t' trt, tickF f' e w t0 = .ok (t', w, trt) ∧ (∀ ev ∈ trt, ev ∈ tr) ∧ st = t'.status

theorem TaskTick.enter {e : Env} {w : Store} {tr : List Ev} {st : Status} {t0 : Node}
    (h : TaskTick e w tr st t0) : Ev.enter t0.id ∈ tr := by
  obtain ⟨f', t', trt, ht, hsub, _⟩ := h
  exact hsub _ (tickF_enter_self e f' w t0 t' w trt ht)

theorem TaskTick.mono {e : Env} {w : Store} {tr tr2 : List Ev} {st : Status} {t0 : Node}
    (h : TaskTick e w tr st t0) (hsub : ∀ ev ∈ tr, ev ∈ tr2) : TaskTick e w tr2 st t0 := by
  obtain ⟨f', t', trt, ht, hs, hst⟩ := h
  exact ⟨f', t', trt, ht, fun ev hev => hsub ev (hs ev hev), hst⟩

end C18c
