/-
  C19, last clause — "In trees made of sequences and selectors over leaves, tip() is the last childless
  behaviour that was ticked in the most recent tick."
-/
import PyTreesProofs.Props.C19
import PyTreesProofs.Lemmas.NoInternal
set_option linter.unusedVariables false
set_option linter.unusedSimpArgs false
open Node

mutual
/-- only sequences / selectors (any memory flag) over leaves; an EMPTY composite is childless and allowed -/
def seqSelOnly : Node → Bool
| leaf _ _ _ _ => true
| seq _ _ _ _ cs => seqSelOnlyL cs
| sel _ _ _ _ cs => seqSelOnlyL cs
| par _ _ _ _ _ => false
| dec _ _ _ _ => false
def seqSelOnlyL : List Node → Bool
| [] => true
| c :: cs => seqSelOnly c && seqSelOnlyL cs
end

def childless : Node → Bool
| leaf .. => true
| seq _ _ _ _ cs => cs.isEmpty
| sel _ _ _ _ cs => cs.isEmpty
| par _ _ _ _ cs => cs.isEmpty
| dec .. => false

/-- the id of the last childless behaviour of the tree `n` that yielded in the trace `tr` -/
def lastChildlessYield (n : Node) (tr : List Ev) : Option Nat :=
  (tr.filterMap (fun ev => match ev with
    | .yld i _ => if (nodes n).any (fun m => m.id == i && childless m) then some i else none
    | _ => none)).getLast?

namespace C19b

/-! ### the extra hypothesis: a RUNNING memory sequence still remembers its current child -/

mutual
/-- every RUNNING sequence with memory remembers a current child (true of every state reached by ticks and
    interrupts; only removing the current child of a running memory sequence by an edit breaks it) -/
def curKept : Node → Bool
| leaf _ _ _ _ => true
| seq _ m s cur cs => (!m || s != .running || cur.isSome) && curKeptL cs
| sel _ _ _ _ cs => curKeptL cs
| par _ _ _ _ cs => curKeptL cs
| dec _ _ _ c => curKept c
def curKeptL : List Node → Bool
| [] => true
| c :: cs => curKept c && curKeptL cs
end

/-! ### ids of a subtree -/

def ids (n : Node) : List Nat := (nodes n).map Node.id
def idsL (cs : List Node) : List Nat := (nodesL cs).map Node.id

@[simp] theorem ids_leaf (i s k l) : ids (leaf i s k l) = [i] := by simp [ids, nodes, Node.id]
@[simp] theorem ids_seq (i m s c cs) : ids (seq i m s c cs) = i :: idsL cs := by simp [ids, idsL, nodes, Node.id]
@[simp] theorem ids_sel (i m s c cs) : ids (sel i m s c cs) = i :: idsL cs := by simp [ids, idsL, nodes, Node.id]
@[simp] theorem ids_par (i p s c cs) : ids (par i p s c cs) = i :: idsL cs := by simp [ids, idsL, nodes, Node.id]
@[simp] theorem ids_dec (i k s c) : ids (dec i k s c) = i :: ids c := by simp [ids, nodes, Node.id]
@[simp] theorem idsL_nil : idsL [] = [] := by simp [idsL, nodesL]
@[simp] theorem idsL_cons (c cs) : idsL (c :: cs) = ids c ++ idsL cs := by simp [ids, idsL, nodesL]
@[simp] theorem idsL_append : ∀ (a b : List Node), idsL (a ++ b) = idsL a ++ idsL b
| [], b => by simp
| c :: a, b => by simp [idsL_append a b]

theorem id_mem_ids (n : Node) : n.id ∈ ids n := by
  simp only [ids, List.mem_map]; exact ⟨n, self_mem_nodes n, rfl⟩

theorem mem_idsL_of_mem : ∀ (cs : List Node) (x : Node) (j : Nat), x ∈ cs → j ∈ ids x → j ∈ idsL cs
| [], x, j, hx, _ => by simp at hx
| c :: cs, x, j, hx, hj => by
    simp only [List.mem_cons] at hx
    simp only [idsL_cons, List.mem_append]
    rcases hx with rfl | hx
    · exact Or.inl hj
    · exact Or.inr (mem_idsL_of_mem cs x j hx hj)

mutual
theorem stopInv_ids : ∀ n : Node, ids (stopInv n).1 = ids n
| leaf _ _ _ _ => by simp [stopInv]
| seq _ _ _ _ cs => by simp [stopInv, stopInvNonInvalid_idsL cs]
| sel _ _ _ _ cs => by simp [stopInv, stopInvNonInvalid_idsL cs]
| par _ _ _ _ cs => by simp [stopInv, stopInvPar_idsL cs]
| dec _ _ _ c => by simp [stopInv, stopInv_ids c]
theorem stopInvNonInvalid_idsL : ∀ cs : List Node, idsL (stopInvNonInvalid cs).1 = idsL cs
| [] => by simp [stopInvNonInvalid]
| c :: cs => by
    simp only [stopInvNonInvalid, idsL_cons, stopInvNonInvalid_idsL cs]
    split <;> simp [stopInv_ids c]
theorem stopInvPar_idsL : ∀ cs : List Node, idsL (stopInvPar cs).1 = idsL cs
| [] => by simp [stopInvPar]
| c :: cs => by
    have ih := stopInvPar_idsL cs
    simp only [stopInvPar]
    split
    · simp [stopInv_ids c, ih]
    · split <;> simp [stopInv_ids c, ih]
end

theorem stopInvAll_idsL : ∀ cs : List Node, idsL (stopInvAll cs).1 = idsL cs
| [] => by simp [stopInvAll]
| c :: cs => by simp [stopInvAll, stopInv_ids c, stopInvAll_idsL cs]

/-! ### `seqSelOnly` / `curKept`: list forms and preservation by stop -/

theorem ssoL_append : ∀ (a b : List Node), seqSelOnlyL (a ++ b) = (seqSelOnlyL a && seqSelOnlyL b)
| [], b => by simp [seqSelOnlyL]
| c :: a, b => by simp [seqSelOnlyL, ssoL_append a b, Bool.and_assoc]

theorem curKeptL_append : ∀ (a b : List Node), curKeptL (a ++ b) = (curKeptL a && curKeptL b)
| [], b => by simp [curKeptL]
| c :: a, b => by simp [curKeptL, curKeptL_append a b, Bool.and_assoc]

mutual
theorem stopInv_sso : ∀ n : Node, seqSelOnly (stopInv n).1 = seqSelOnly n
| leaf _ _ _ _ => by simp [stopInv, seqSelOnly]
| seq _ _ _ _ cs => by simp [stopInv, seqSelOnly, stopInvNonInvalid_ssoL cs]
| sel _ _ _ _ cs => by simp [stopInv, seqSelOnly, stopInvNonInvalid_ssoL cs]
| par _ _ _ _ cs => by simp [stopInv, seqSelOnly]
| dec _ _ _ c => by simp [stopInv, seqSelOnly]
theorem stopInvNonInvalid_ssoL : ∀ cs : List Node, seqSelOnlyL (stopInvNonInvalid cs).1 = seqSelOnlyL cs
| [] => by simp [stopInvNonInvalid]
| c :: cs => by
    simp only [stopInvNonInvalid, seqSelOnlyL, stopInvNonInvalid_ssoL cs]
    split <;> simp [stopInv_sso c]
end

theorem stopInvAll_ssoL : ∀ cs : List Node, seqSelOnlyL (stopInvAll cs).1 = seqSelOnlyL cs
| [] => by simp [stopInvAll]
| c :: cs => by simp [stopInvAll, seqSelOnlyL, stopInv_sso c, stopInvAll_ssoL cs]

mutual
theorem stopInv_curKept : ∀ n : Node, curKept n = true → curKept (stopInv n).1 = true
| leaf _ _ _ _, _ => by simp [stopInv, curKept]
| seq _ _ _ _ cs, h => by
    simp only [curKept, Bool.and_eq_true] at h
    simp [stopInv, curKept, stopInvNonInvalid_curKeptL cs h.2]
| sel _ _ _ _ cs, h => by
    simp only [curKept] at h
    simp [stopInv, curKept, stopInvNonInvalid_curKeptL cs h]
| par _ _ _ _ cs, h => by
    simp only [curKept] at h
    simp [stopInv, curKept, stopInvPar_curKeptL cs h]
| dec _ _ _ c, h => by
    simp only [curKept] at h
    simp [stopInv, curKept, stopInv_curKept c h]
theorem stopInvNonInvalid_curKeptL : ∀ cs : List Node, curKeptL cs = true → curKeptL (stopInvNonInvalid cs).1 = true
| [], _ => by simp [stopInvNonInvalid, curKeptL]
| c :: cs, h => by
    simp only [curKeptL, Bool.and_eq_true] at h
    simp only [stopInvNonInvalid, curKeptL, Bool.and_eq_true]
    refine ⟨?_, stopInvNonInvalid_curKeptL cs h.2⟩
    split
    · exact stopInv_curKept c h.1
    · exact h.1
theorem stopInvPar_curKeptL : ∀ cs : List Node, curKeptL cs = true → curKeptL (stopInvPar cs).1 = true
| [], _ => by simp [stopInvPar, curKeptL]
| c :: cs, h => by
    simp only [curKeptL, Bool.and_eq_true] at h
    have ih := stopInvPar_curKeptL cs h.2
    simp only [stopInvPar]
    split
    · simp [curKeptL, stopInv_curKept c h.1, ih]
    · split
      · simp [curKeptL, stopInv_curKept c h.1, ih]
      · simp [curKeptL, ih, h.1]
end

theorem stopInvAll_curKeptL : ∀ cs : List Node, curKeptL cs = true → curKeptL (stopInvAll cs).1 = true
| [], _ => by simp [stopInvAll, curKeptL]
| c :: cs, h => by
    simp only [curKeptL, Bool.and_eq_true] at h
    simp [stopInvAll, curKeptL, stopInv_curKept c h.1, stopInvAll_curKeptL cs h.2]

/-! ### traces: stop traces contain no yield -/

def NoYld (tr : List Ev) : Prop := ∀ i s, Ev.yld i s ∉ tr

theorem NoYld.nil : NoYld [] := by intro i s h; simp at h
theorem NoYld.append {a b : List Ev} (ha : NoYld a) (hb : NoYld b) : NoYld (a ++ b) := by
  intro i s h; simp only [List.mem_append] at h
  rcases h with h | h
  · exact ha i s h
  · exact hb i s h

mutual
theorem stopInv_noYld : ∀ n : Node, NoYld (stopInv n).2
| leaf _ _ _ _ => by intro i s h; simp [stopInv] at h
| seq _ _ _ _ cs => by simpa [stopInv] using stopInvNonInvalid_noYld cs
| sel _ _ _ _ cs => by simpa [stopInv] using stopInvNonInvalid_noYld cs
| par _ _ _ _ cs => by
    have := stopInvPar_noYld cs
    simp only [stopInv]; exact NoYld.append this.1 this.2
| dec _ _ _ c => by simpa [stopInv] using stopInv_noYld c
theorem stopInvNonInvalid_noYld : ∀ cs : List Node, NoYld (stopInvNonInvalid cs).2
| [] => by simp [stopInvNonInvalid, NoYld.nil]
| c :: cs => by
    simp only [stopInvNonInvalid]
    apply NoYld.append
    · split
      · exact stopInv_noYld c
      · exact NoYld.nil
    · exact stopInvNonInvalid_noYld cs
theorem stopInvPar_noYld : ∀ cs : List Node, NoYld (stopInvPar cs).2.1 ∧ NoYld (stopInvPar cs).2.2
| [] => by simp [stopInvPar, NoYld.nil]
| c :: cs => by
    have ih := stopInvPar_noYld cs
    simp only [stopInvPar]
    split
    · exact ⟨NoYld.append (stopInv_noYld c) ih.1, ih.2⟩
    · split
      · exact ⟨ih.1, NoYld.append (stopInv_noYld c) ih.2⟩
      · exact ih
end

theorem stopInvAll_noYld : ∀ cs : List Node, NoYld (stopInvAll cs).2
| [] => by simp [stopInvAll, NoYld.nil]
| c :: cs => by
    simp only [stopInvAll]
    exact NoYld.append (stopInv_noYld c) (stopInvAll_noYld cs)

/-! ### the childless-yield filter -/

/-- ids `i` with `p i` yielded in the trace, in order -/
def yl (p : Nat → Bool) (tr : List Ev) : List Nat :=
  tr.filterMap (fun ev => match ev with
    | .yld i _ => if p i then some i else none
    | _ => none)

/-- childless lookup in the tree `n` -/
def cl (n : Node) (i : Nat) : Bool := (nodes n).any (fun m => m.id == i && childless m)

theorem lastChildlessYield_eq (n : Node) (tr : List Ev) : lastChildlessYield n tr = (yl (cl n) tr).getLast? := rfl

@[simp] theorem yl_nil (p) : yl p [] = [] := rfl
@[simp] theorem yl_append (p) (a b : List Ev) : yl p (a ++ b) = yl p a ++ yl p b := by simp [yl]
@[simp] theorem yl_enter (p i tr) : yl p (.enter i :: tr) = yl p tr := by simp [yl]
@[simp] theorem yl_init (p i tr) : yl p (.init i :: tr) = yl p tr := by simp [yl]
@[simp] theorem yl_upd (p i s tr) : yl p (.upd i s :: tr) = yl p tr := by simp [yl]
@[simp] theorem yl_term (p i s tr) : yl p (.term i s :: tr) = yl p tr := by simp [yl]
theorem yl_yld (p i s tr) : yl p (.yld i s :: tr) = if p i then i :: yl p tr else yl p tr := by
  by_cases h : p i = true <;> simp [yl, List.filterMap_cons, h]

theorem yl_of_noYld (p) : ∀ (tr : List Ev), NoYld tr → yl p tr = []
| [], _ => rfl
| ev :: tr, h => by
    have ht : NoYld tr := fun i s hm => h i s (List.mem_cons_of_mem _ hm)
    cases ev with
    | yld i s => exact absurd List.mem_cons_self (h i s)
    | enter i => simp [yl_of_noYld p tr ht]
    | init i => simp [yl_of_noYld p tr ht]
    | upd i s => simp [yl_of_noYld p tr ht]
    | term i s => simp [yl_of_noYld p tr ht]

theorem yl_congr (p q : Nat → Bool) : ∀ (tr : List Ev), (∀ i s, Ev.yld i s ∈ tr → p i = q i) → yl p tr = yl q tr
| [], _ => rfl
| ev :: tr, h => by
    have ih := yl_congr p q tr (fun i s hm => h i s (List.mem_cons_of_mem _ hm))
    cases ev with
    | yld i s => simp only [yl_yld, h i s List.mem_cons_self, ih]
    | enter i => simpa using ih
    | init i => simpa using ih
    | upd i s => simpa using ih
    | term i s => simpa using ih

theorem cl_iff (n : Node) (i : Nat) : cl n i = true ↔ ∃ m ∈ nodes n, m.id = i ∧ childless m = true := by
  simp [cl, List.any_eq_true]

theorem nodup_map_inj {α β} (f : α → β) : ∀ (l : List α) (a b : α), (l.map f).Nodup → a ∈ l → b ∈ l → f a = f b → a = b
| [], a, b, _, ha, _, _ => by simp at ha
| c :: l, a, b, hnd, ha, hb, hab => by
    simp only [List.map_cons, List.nodup_cons, List.mem_map, not_exists, not_and] at hnd
    simp only [List.mem_cons] at ha hb
    rcases ha with rfl | ha <;> rcases hb with rfl | hb
    · rfl
    · exact absurd hab.symm (hnd.1 b hb)
    · exact absurd hab (hnd.1 a ha)
    · exact nodup_map_inj f l a b hnd.2 ha hb hab

/-- with distinct ids the childless lookup of an id of a subtree can be done in that subtree -/
theorem cl_sub (n x : Node) (hsub : ∀ m ∈ nodes x, m ∈ nodes n) (hnd : (ids n).Nodup) (j : Nat) (hj : j ∈ ids x) :
    cl n j = cl x j := by
  rw [Bool.eq_iff_iff, cl_iff, cl_iff]
  simp only [ids, List.mem_map] at hj
  obtain ⟨m', hm', hid'⟩ := hj
  constructor
  · rintro ⟨m, hm, hid, hc⟩
    have : m = m' := nodup_map_inj Node.id (nodes n) m m' hnd hm (hsub m' hm') (hid.trans hid'.symm)
    subst this
    exact ⟨m, hm', hid, hc⟩
  · rintro ⟨m, hm, hid, hc⟩
    exact ⟨m, hsub m hm, hid, hc⟩

theorem cl_root (n : Node) (hnd : (ids n).Nodup) : cl n n.id = childless n := by
  rw [Bool.eq_iff_iff, cl_iff]
  constructor
  · rintro ⟨m, hm, hid, hc⟩
    have : m = n := nodup_map_inj Node.id (nodes n) m n hnd hm (self_mem_nodes n) hid
    subst this; exact hc
  · intro hc; exact ⟨n, self_mem_nodes n, rfl, hc⟩

/-! ### the child loops: trace decomposition -/

/-- per-child facts (the induction hypothesis, packaged) -/
structure PC (c c' : Node) (trc : List Ev) : Prop where
  hids : ids c' = ids c
  hsso : seqSelOnly c' = true
  hkept : curKept c' = true
  hgood : Good c'
  hlive : c'.status ≠ .invalid
  hyld : ∀ i s, Ev.yld i s ∈ trc → i ∈ ids c'
  hlast : (ids c).Nodup → (yl (cl c') trc).getLast? = tip c'

def TickC (t : Tick) : Prop :=
  ∀ w c c' w' tr, WOK w → Good c → seqSelOnly c = true → curKept c = true → t w c = .ok (c', w', tr) → PC c c' tr

/-- what a child loop over `cs` guarantees: `tk` = the children ticked (in order), `aft` = the untouched rest,
    `tr` = the concatenation of the traces of the ticked children -/
structure LoopPost (cs tk aft : List Node) (tr : List Ev) : Prop where
  hids : idsL tk ++ idsL aft = idsL cs
  hsso : seqSelOnlyL tk = true
  hkept : curKeptL tk = true
  hgood : ∀ x ∈ tk, Good x ∧ x.status ≠ .invalid
  hyld : ∀ i s, Ev.yld i s ∈ tr → ∃ x ∈ tk, i ∈ ids x
  hlast : (idsL cs).Nodup → ∀ p : Nat → Bool, (∀ x ∈ tk, ∀ j ∈ ids x, p j = cl x j) →
      (yl p tr).getLast? = tk.getLast?.bind tip

theorem LoopPost.none (cs : List Node) : LoopPost cs [] cs [] where
  hids := by simp
  hsso := by simp [seqSelOnlyL]
  hkept := by simp [curKeptL]
  hgood := by intro x hx; simp at hx
  hyld := by intro i s h; simp at h
  hlast := by intro _ p _; simp

theorem tip_some_of_live {x : Node} (hg : Good x) (hl : x.status ≠ .invalid) : ∃ t, tip x = some t := by
  cases ht : tip x with
  | none => exact absurd ((tip_spec x hg.1).1.mp ht) hl
  | some t => exact ⟨t, rfl⟩

theorem LoopPost.cons {c c' : Node} {trc : List Ev} {cs tk aft : List Node} {tr : List Ev}
    (hpc : PC c c' trc) (hp : LoopPost cs tk aft tr) : LoopPost (c :: cs) (c' :: tk) aft (trc ++ tr) where
  hids := by simp [hpc.hids, ← hp.hids, List.append_assoc]
  hsso := by simp [seqSelOnlyL, hpc.hsso, hp.hsso]
  hkept := by simp [curKeptL, hpc.hkept, hp.hkept]
  hgood := by
    intro x hx; simp only [List.mem_cons] at hx
    rcases hx with rfl | hx
    · exact ⟨hpc.hgood, hpc.hlive⟩
    · exact hp.hgood x hx
  hyld := by
    intro i s h; simp only [List.mem_append] at h
    rcases h with h | h
    · exact ⟨c', by simp, hpc.hyld i s h⟩
    · obtain ⟨x, hx, hi⟩ := hp.hyld i s h
      exact ⟨x, by simp [hx], hi⟩
  hlast := by
    intro hnd p hpp
    simp only [idsL_cons] at hnd
    have hnd1 := (List.nodup_append.mp hnd).1
    have hnd2 := (List.nodup_append.mp hnd).2.1
    have hA : (yl p trc).getLast? = tip c' := by
      rw [yl_congr p (cl c') trc (fun i s hi => hpp c' (by simp) i (hpc.hyld i s hi))]
      exact hpc.hlast hnd1
    have hB := hp.hlast hnd2 p (fun x hx j hj => hpp x (by simp [hx]) j hj)
    rw [yl_append, List.getLast?_append, hA, hB]
    cases tk with
    | nil => simp
    | cons d ds =>
      rw [List.getLast?_cons_cons]
      cases hl : (d :: ds).getLast? with
      | none => simp at hl
      | some l =>
        obtain ⟨hg, hlv⟩ := hp.hgood l (List.mem_of_getLast? hl)
        obtain ⟨t, ht⟩ := tip_some_of_live hg hlv
        simp [ht]

/-- the children ticked by a loop that returned `(done, r)` -/
def ticked (done : List Node) (r : Option (Node × List Node)) : List Node :=
  match r with
  | some (c', _) => done ++ [c']
  | none => done

/-- the children a loop left untouched -/
def after (r : Option (Node × List Node)) : List Node :=
  match r with
  | some (_, rest) => rest
  | none => []

theorem ticked_cons (c : Node) (done : List Node) (r) : ticked (c :: done) r = c :: ticked done r := by
  cases r with
  | none => rfl
  | some p => rfl

/-- trace decomposition of the Sequence loop -/
theorem seqLoop_tr (t : Tick) (ht : TickOK t) (hc : TickC t) :
    ∀ (cs : List Node) (w : Store) (done : List Node) (r : Option (Node × List Node)) (w' : Store) (tr : List Ev),
      WOK w → GoodL cs → seqSelOnlyL cs = true → curKeptL cs = true → seqLoop t w cs = .ok (done, r, w', tr) →
      LoopPost cs (ticked done r) (after r) tr := by
  intro cs
  induction cs with
  | nil =>
    intro w done r w' tr hw _ _ _ h
    simp [seqLoop, pure, Except.pure] at h; obtain ⟨rfl, rfl, rfl, rfl⟩ := h
    exact LoopPost.none []
  | cons c cs ih =>
    intro w done r w' tr hw hg hs hk h
    rw [GoodL_cons] at hg
    simp only [seqSelOnlyL, Bool.and_eq_true] at hs
    simp only [curKeptL, Bool.and_eq_true] at hk
    simp only [seqLoop, bind, Except.bind] at h
    cases htc : t w c with
    | error e => simp [htc] at h
    | ok v =>
      obtain ⟨c', w1, trc⟩ := v
      obtain ⟨_, _, _, hw1⟩ := ht w c c' w1 trc hw hg.1 htc
      have hpc := hc w c c' w1 trc hw hg.1 hs.1 hk.1 htc
      simp only [htc] at h
      by_cases hst : c'.status = .success
      · simp only [hst, ne_eq, not_true_eq_false, ↓reduceIte] at h
        cases hl : seqLoop t w1 cs with
        | error e => simp [hl] at h
        | ok v2 =>
          obtain ⟨done2, r2, w2, tr2⟩ := v2
          simp only [hl, pure, Except.pure, Except.ok.injEq, Prod.mk.injEq] at h
          obtain ⟨rfl, rfl, rfl, rfl⟩ := h
          rw [ticked_cons]
          exact LoopPost.cons hpc (ih w1 done2 r2 w2 tr2 hw1 hg.2 hs.2 hk.2 hl)
      · simp only [ne_eq, hst, not_false_eq_true, ↓reduceIte, pure, Except.pure, Except.ok.injEq, Prod.mk.injEq] at h
        obtain ⟨rfl, rfl, rfl, rfl⟩ := h
        simpa [ticked, after] using LoopPost.cons hpc (LoopPost.none cs)

/-- trace decomposition of the Selector loop -/
theorem selLoop_tr (t : Tick) (ht : TickOK t) (hc : TickC t) :
    ∀ (cs : List Node) (w : Store) (done : List Node) (r : Option (Node × List Node)) (w' : Store) (tr : List Ev),
      WOK w → GoodL cs → seqSelOnlyL cs = true → curKeptL cs = true → selLoop t w cs = .ok (done, r, w', tr) →
      LoopPost cs (ticked done r) (after r) tr := by
  intro cs
  induction cs with
  | nil =>
    intro w done r w' tr hw _ _ _ h
    simp [selLoop, pure, Except.pure] at h; obtain ⟨rfl, rfl, rfl, rfl⟩ := h
    exact LoopPost.none []
  | cons c cs ih =>
    intro w done r w' tr hw hg hs hk h
    rw [GoodL_cons] at hg
    simp only [seqSelOnlyL, Bool.and_eq_true] at hs
    simp only [curKeptL, Bool.and_eq_true] at hk
    simp only [selLoop, bind, Except.bind] at h
    cases htc : t w c with
    | error e => simp [htc] at h
    | ok v =>
      obtain ⟨c', w1, trc⟩ := v
      obtain ⟨_, _, _, hw1⟩ := ht w c c' w1 trc hw hg.1 htc
      have hpc := hc w c c' w1 trc hw hg.1 hs.1 hk.1 htc
      simp only [htc] at h
      by_cases hst : c'.status = .running ∨ c'.status = .success
      · simp only [hst, ↓reduceIte, pure, Except.pure, Except.ok.injEq, Prod.mk.injEq] at h
        obtain ⟨rfl, rfl, rfl, rfl⟩ := h
        simpa [ticked, after] using LoopPost.cons hpc (LoopPost.none cs)
      · simp only [hst, ↓reduceIte] at h
        cases hl : selLoop t w1 cs with
        | error e => simp [hl] at h
        | ok v2 =>
          obtain ⟨done2, r2, w2, tr2⟩ := v2
          simp only [hl, pure, Except.pure, Except.ok.injEq, Prod.mk.injEq] at h
          obtain ⟨rfl, rfl, rfl, rfl⟩ := h
          rw [ticked_cons]
          exact LoopPost.cons hpc (ih w1 done2 r2 w2 tr2 hw1 hg.2 hs.2 hk.2 hl)

end C19b
