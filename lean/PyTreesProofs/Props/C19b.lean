/-
  C19, last clause — "In trees made of sequences and selectors over leaves, tip() is the last childless
  behaviour that was ticked in the most recent tick."
-/
import PyTreesProofs.Props.C19
import PyTreesProofs.Lemmas.NoInternal
set_option linter.unusedVariables false
set_option linter.unusedSimpArgs false
open Node

mutual
/-- only sequences / selectors (any memory flag) over leaves; an EMPTY composite is childless and allowed -/
def seqSelOnly : Node → Bool
| leaf _ _ _ _ => true
| seq _ _ _ _ cs => seqSelOnlyL cs
| sel _ _ _ _ cs => seqSelOnlyL cs
| par _ _ _ _ _ => false
| dec _ _ _ _ => false
def seqSelOnlyL : List Node → Bool
| [] => true
| c :: cs => seqSelOnly c && seqSelOnlyL cs
end

def childless : Node → Bool
| leaf .. => true
| seq _ _ _ _ cs => cs.isEmpty
| sel _ _ _ _ cs => cs.isEmpty
| par _ _ _ _ cs => cs.isEmpty
| dec .. => false

/-- the id of the last childless behaviour of the tree `n` that yielded in the trace `tr` -/
def lastChildlessYield (n : Node) (tr : List Ev) : Option Nat :=
  (tr.filterMap (fun ev => match ev with
    | .yld i _ => if (nodes n).any (fun m => m.id == i && childless m) then some i else none
    | _ => none)).getLast?

namespace C19b

/-! ### the extra hypothesis: a RUNNING memory sequence still remembers its current child -/

mutual
/-- every RUNNING sequence with memory remembers a current child (true of every state reached by ticks and
    interrupts; only removing the current child of a running memory sequence by an edit breaks it) -/
def curKept : Node → Bool
| leaf _ _ _ _ => true
| seq _ m s cur cs => (!m || s != .running || cur.isSome) && curKeptL cs
| sel _ _ _ _ cs => curKeptL cs
| par _ _ _ _ cs => curKeptL cs
| dec _ _ _ c => curKept c
def curKeptL : List Node → Bool
| [] => true
| c :: cs => curKept c && curKeptL cs
end

/-! ### ids of a subtree -/

def ids (n : Node) : List Nat := (nodes n).map Node.id
def idsL (cs : List Node) : List Nat := (nodesL cs).map Node.id

@[simp] theorem ids_leaf (i s k l) : ids (leaf i s k l) = [i] := by simp [ids, nodes, Node.id]
@[simp] theorem ids_seq (i m s c cs) : ids (seq i m s c cs) = i :: idsL cs := by simp [ids, idsL, nodes, Node.id]
@[simp] theorem ids_sel (i m s c cs) : ids (sel i m s c cs) = i :: idsL cs := by simp [ids, idsL, nodes, Node.id]
@[simp] theorem ids_par (i p s c cs) : ids (par i p s c cs) = i :: idsL cs := by simp [ids, idsL, nodes, Node.id]
@[simp] theorem ids_dec (i k s c) : ids (dec i k s c) = i :: ids c := by simp [ids, nodes, Node.id]
@[simp] theorem idsL_nil : idsL [] = [] := by simp [idsL, nodesL]
@[simp] theorem idsL_cons (c cs) : idsL (c :: cs) = ids c ++ idsL cs := by simp [ids, idsL, nodesL]
@[simp] theorem idsL_append : ∀ (a b : List Node), idsL (a ++ b) = idsL a ++ idsL b
| [], b => by simp
| c :: a, b => by simp [idsL_append a b]

theorem id_mem_ids (n : Node) : n.id ∈ ids n := by
  simp only [ids, List.mem_map]; exact ⟨n, self_mem_nodes n, rfl⟩

theorem mem_idsL_of_mem : ∀ (cs : List Node) (x : Node) (j : Nat), x ∈ cs → j ∈ ids x → j ∈ idsL cs
| [], x, j, hx, _ => by simp at hx
| c :: cs, x, j, hx, hj => by
    simp only [List.mem_cons] at hx
    simp only [idsL_cons, List.mem_append]
    rcases hx with rfl | hx
    · exact Or.inl hj
    · exact Or.inr (mem_idsL_of_mem cs x j hx hj)

mutual
theorem stopInv_ids : ∀ n : Node, ids (stopInv n).1 = ids n
| leaf _ _ _ _ => by simp [stopInv]
| seq _ _ _ _ cs => by simp [stopInv, stopInvNonInvalid_idsL cs]
| sel _ _ _ _ cs => by simp [stopInv, stopInvNonInvalid_idsL cs]
| par _ _ _ _ cs => by simp [stopInv, stopInvPar_idsL cs]
| dec _ _ _ c => by simp [stopInv, stopInv_ids c]
theorem stopInvNonInvalid_idsL : ∀ cs : List Node, idsL (stopInvNonInvalid cs).1 = idsL cs
| [] => by simp [stopInvNonInvalid]
| c :: cs => by
    simp only [stopInvNonInvalid, idsL_cons, stopInvNonInvalid_idsL cs]
    split <;> simp [stopInv_ids c]
theorem stopInvPar_idsL : ∀ cs : List Node, idsL (stopInvPar cs).1 = idsL cs
| [] => by simp [stopInvPar]
| c :: cs => by
    have ih := stopInvPar_idsL cs
    simp only [stopInvPar]
    split
    · simp [stopInv_ids c, ih]
    · split <;> simp [stopInv_ids c, ih]
end

theorem stopInvAll_idsL : ∀ cs : List Node, idsL (stopInvAll cs).1 = idsL cs
| [] => by simp [stopInvAll]
| c :: cs => by simp [stopInvAll, stopInv_ids c, stopInvAll_idsL cs]

/-! ### `seqSelOnly` / `curKept`: list forms and preservation by stop -/

theorem ssoL_append : ∀ (a b : List Node), seqSelOnlyL (a ++ b) = (seqSelOnlyL a && seqSelOnlyL b)
| [], b => by simp [seqSelOnlyL]
| c :: a, b => by simp [seqSelOnlyL, ssoL_append a b, Bool.and_assoc]

theorem curKeptL_append : ∀ (a b : List Node), curKeptL (a ++ b) = (curKeptL a && curKeptL b)
| [], b => by simp [curKeptL]
| c :: a, b => by simp [curKeptL, curKeptL_append a b, Bool.and_assoc]

mutual
theorem stopInv_sso : ∀ n : Node, seqSelOnly (stopInv n).1 = seqSelOnly n
| leaf _ _ _ _ => by simp [stopInv, seqSelOnly]
| seq _ _ _ _ cs => by simp [stopInv, seqSelOnly, stopInvNonInvalid_ssoL cs]
| sel _ _ _ _ cs => by simp [stopInv, seqSelOnly, stopInvNonInvalid_ssoL cs]
| par _ _ _ _ cs => by simp [stopInv, seqSelOnly]
| dec _ _ _ c => by simp [stopInv, seqSelOnly]
theorem stopInvNonInvalid_ssoL : ∀ cs : List Node, seqSelOnlyL (stopInvNonInvalid cs).1 = seqSelOnlyL cs
| [] => by simp [stopInvNonInvalid]
| c :: cs => by
    simp only [stopInvNonInvalid, seqSelOnlyL, stopInvNonInvalid_ssoL cs]
    split <;> simp [stopInv_sso c]
end

theorem stopInvAll_ssoL : ∀ cs : List Node, seqSelOnlyL (stopInvAll cs).1 = seqSelOnlyL cs
| [] => by simp [stopInvAll]
| c :: cs => by simp [stopInvAll, seqSelOnlyL, stopInv_sso c, stopInvAll_ssoL cs]

mutual
theorem stopInv_curKept : ∀ n : Node, curKept n = true → curKept (stopInv n).1 = true
| leaf _ _ _ _, _ => by simp [stopInv, curKept]
| seq _ _ _ _ cs, h => by
    simp only [curKept, Bool.and_eq_true] at h
    simp [stopInv, curKept, stopInvNonInvalid_curKeptL cs h.2]
| sel _ _ _ _ cs, h => by
    simp only [curKept] at h
    simp [stopInv, curKept, stopInvNonInvalid_curKeptL cs h]
| par _ _ _ _ cs, h => by
    simp only [curKept] at h
    simp [stopInv, curKept, stopInvPar_curKeptL cs h]
| dec _ _ _ c, h => by
    simp only [curKept] at h
    simp [stopInv, curKept, stopInv_curKept c h]
theorem stopInvNonInvalid_curKeptL : ∀ cs : List Node, curKeptL cs = true → curKeptL (stopInvNonInvalid cs).1 = true
| [], _ => by simp [stopInvNonInvalid, curKeptL]
| c :: cs, h => by
    simp only [curKeptL, Bool.and_eq_true] at h
    simp only [stopInvNonInvalid, curKeptL, Bool.and_eq_true]
    refine ⟨?_, stopInvNonInvalid_curKeptL cs h.2⟩
    split
    · exact stopInv_curKept c h.1
    · exact h.1
theorem stopInvPar_curKeptL : ∀ cs : List Node, curKeptL cs = true → curKeptL (stopInvPar cs).1 = true
| [], _ => by simp [stopInvPar, curKeptL]
| c :: cs, h => by
    simp only [curKeptL, Bool.and_eq_true] at h
    have ih := stopInvPar_curKeptL cs h.2
    simp only [stopInvPar]
    split
    · simp [curKeptL, stopInv_curKept c h.1, ih]
    · split
      · simp [curKeptL, stopInv_curKept c h.1, ih]
      · simp [curKeptL, ih, h.1]
end

theorem stopInvAll_curKeptL : ∀ cs : List Node, curKeptL cs = true → curKeptL (stopInvAll cs).1 = true
| [], _ => by simp [stopInvAll, curKeptL]
| c :: cs, h => by
    simp only [curKeptL, Bool.and_eq_true] at h
    simp [stopInvAll, curKeptL, stopInv_curKept c h.1, stopInvAll_curKeptL cs h.2]

/-! ### traces: stop traces contain no yield -/

def NoYld (tr : List Ev) : Prop := ∀ i s, Ev.yld i s ∉ tr

theorem NoYld.nil : NoYld [] := by intro i s h; simp at h
theorem NoYld.append {a b : List Ev} (ha : NoYld a) (hb : NoYld b) : NoYld (a ++ b) := by
  intro i s h; simp only [List.mem_append] at h
  rcases h with h | h
  · exact ha i s h
  · exact hb i s h

mutual
theorem stopInv_noYld : ∀ n : Node, NoYld (stopInv n).2
| leaf _ _ _ _ => by intro i s h; simp [stopInv] at h
| seq _ _ _ _ cs => by simpa [stopInv] using stopInvNonInvalid_noYld cs
| sel _ _ _ _ cs => by simpa [stopInv] using stopInvNonInvalid_noYld cs
| par _ _ _ _ cs => by
    have := stopInvPar_noYld cs
    simp only [stopInv]; exact NoYld.append this.1 this.2
| dec _ _ _ c => by simpa [stopInv] using stopInv_noYld c
theorem stopInvNonInvalid_noYld : ∀ cs : List Node, NoYld (stopInvNonInvalid cs).2
| [] => by simp [stopInvNonInvalid, NoYld.nil]
| c :: cs => by
    simp only [stopInvNonInvalid]
    apply NoYld.append
    · split
      · exact stopInv_noYld c
      · exact NoYld.nil
    · exact stopInvNonInvalid_noYld cs
theorem stopInvPar_noYld : ∀ cs : List Node, NoYld (stopInvPar cs).2.1 ∧ NoYld (stopInvPar cs).2.2
| [] => by simp [stopInvPar, NoYld.nil]
| c :: cs => by
    have ih := stopInvPar_noYld cs
    simp only [stopInvPar]
    split
    · exact ⟨NoYld.append (stopInv_noYld c) ih.1, ih.2⟩
    · split
      · exact ⟨ih.1, NoYld.append (stopInv_noYld c) ih.2⟩
      · exact ih
end

theorem stopInvAll_noYld : ∀ cs : List Node, NoYld (stopInvAll cs).2
| [] => by simp [stopInvAll, NoYld.nil]
| c :: cs => by
    simp only [stopInvAll]
    exact NoYld.append (stopInv_noYld c) (stopInvAll_noYld cs)

/-! ### the childless-yield filter -/

/-- ids `i` with `p i` yielded in the trace, in order -/
def yl (p : Nat → Bool) (tr : List Ev) : List Nat :=
  tr.filterMap (fun ev => match ev with
    | .yld i _ => if p i then some i else none
    | _ => none)

/-- childless lookup in the tree `n` -/
def cl (n : Node) (i : Nat) : Bool := (nodes n).any (fun m => m.id == i && childless m)

theorem lastChildlessYield_eq (n : Node) (tr : List Ev) : lastChildlessYield n tr = (yl (cl n) tr).getLast? := rfl

@[simp] theorem yl_nil (p) : yl p [] = [] := rfl
@[simp] theorem yl_append (p) (a b : List Ev) : yl p (a ++ b) = yl p a ++ yl p b := by simp [yl]
@[simp] theorem yl_enter (p i tr) : yl p (.enter i :: tr) = yl p tr := by simp [yl]
@[simp] theorem yl_init (p i tr) : yl p (.init i :: tr) = yl p tr := by simp [yl]
@[simp] theorem yl_upd (p i s tr) : yl p (.upd i s :: tr) = yl p tr := by simp [yl]
@[simp] theorem yl_term (p i s tr) : yl p (.term i s :: tr) = yl p tr := by simp [yl]
theorem yl_yld (p i s tr) : yl p (.yld i s :: tr) = if p i then i :: yl p tr else yl p tr := by
  by_cases h : p i = true <;> simp [yl, List.filterMap_cons, h]

theorem yl_of_noYld (p) : ∀ (tr : List Ev), NoYld tr → yl p tr = []
| [], _ => rfl
| ev :: tr, h => by
    have ht : NoYld tr := fun i s hm => h i s (List.mem_cons_of_mem _ hm)
    cases ev with
    | yld i s => exact absurd List.mem_cons_self (h i s)
    | enter i => simp [yl_of_noYld p tr ht]
    | init i => simp [yl_of_noYld p tr ht]
    | upd i s => simp [yl_of_noYld p tr ht]
    | term i s => simp [yl_of_noYld p tr ht]

theorem yl_congr (p q : Nat → Bool) : ∀ (tr : List Ev), (∀ i s, Ev.yld i s ∈ tr → p i = q i) → yl p tr = yl q tr
| [], _ => rfl
| ev :: tr, h => by
    have ih := yl_congr p q tr (fun i s hm => h i s (List.mem_cons_of_mem _ hm))
    cases ev with
    | yld i s => simp only [yl_yld, h i s List.mem_cons_self, ih]
    | enter i => simpa using ih
    | init i => simpa using ih
    | upd i s => simpa using ih
    | term i s => simpa using ih

theorem cl_iff (n : Node) (i : Nat) : cl n i = true ↔ ∃ m ∈ nodes n, m.id = i ∧ childless m = true := by
  simp [cl, List.any_eq_true]

theorem nodup_map_inj {α β} (f : α → β) : ∀ (l : List α) (a b : α), (l.map f).Nodup → a ∈ l → b ∈ l → f a = f b → a = b
| [], a, b, _, ha, _, _ => by simp at ha
| c :: l, a, b, hnd, ha, hb, hab => by
    simp only [List.map_cons, List.nodup_cons, List.mem_map, not_exists, not_and] at hnd
    simp only [List.mem_cons] at ha hb
    rcases ha with rfl | ha <;> rcases hb with rfl | hb
    · rfl
    · exact absurd hab.symm (hnd.1 b hb)
    · exact absurd hab (hnd.1 a ha)
    · exact nodup_map_inj f l a b hnd.2 ha hb hab

/-- with distinct ids the childless lookup of an id of a subtree can be done in that subtree -/
theorem cl_sub (n x : Node) (hsub : ∀ m ∈ nodes x, m ∈ nodes n) (hnd : (ids n).Nodup) (j : Nat) (hj : j ∈ ids x) :
    cl n j = cl x j := by
  rw [Bool.eq_iff_iff, cl_iff, cl_iff]
  simp only [ids, List.mem_map] at hj
  obtain ⟨m', hm', hid'⟩ := hj
  constructor
  · rintro ⟨m, hm, hid, hc⟩
    have : m = m' := nodup_map_inj Node.id (nodes n) m m' hnd hm (hsub m' hm') (hid.trans hid'.symm)
    subst this
    exact ⟨m, hm', hid, hc⟩
  · rintro ⟨m, hm, hid, hc⟩
    exact ⟨m, hsub m hm, hid, hc⟩

theorem cl_root (n : Node) (hnd : (ids n).Nodup) : cl n n.id = childless n := by
  rw [Bool.eq_iff_iff, cl_iff]
  constructor
  · rintro ⟨m, hm, hid, hc⟩
    have : m = n := nodup_map_inj Node.id (nodes n) m n hnd hm (self_mem_nodes n) hid
    subst this; exact hc
  · intro hc; exact ⟨n, self_mem_nodes n, rfl, hc⟩

/-! ### the child loops: trace decomposition -/

/-- per-child facts (the induction hypothesis, packaged) -/
structure PC (c c' : Node) (trc : List Ev) : Prop where
  hids : ids c' = ids c
  hsso : seqSelOnly c' = true
  hkept : curKept c' = true
  hgood : Good c'
  hlive : c'.status ≠ .invalid
  hyld : ∀ i s, Ev.yld i s ∈ trc → i ∈ ids c'
  hlast : (ids c).Nodup → (yl (cl c') trc).getLast? = tip c'

def TickC (t : Tick) : Prop :=
  ∀ w c c' w' tr, WOK w → Good c → seqSelOnly c = true → curKept c = true → t w c = .ok (c', w', tr) → PC c c' tr

/-- what a child loop over `cs` guarantees: `tk` = the children ticked (in order), `aft` = the untouched rest,
    `tr` = the concatenation of the traces of the ticked children -/
structure LoopPost (cs tk aft : List Node) (tr : List Ev) : Prop where
  hids : idsL tk ++ idsL aft = idsL cs
  hsso : seqSelOnlyL tk = true
  hkept : curKeptL tk = true
  hgood : ∀ x ∈ tk, Good x ∧ x.status ≠ .invalid
  hyld : ∀ i s, Ev.yld i s ∈ tr → ∃ x ∈ tk, i ∈ ids x
  hlast : (idsL cs).Nodup → ∀ p : Nat → Bool, (∀ x ∈ tk, ∀ j ∈ ids x, p j = cl x j) →
      (yl p tr).getLast? = tk.getLast?.bind tip

theorem LoopPost.none (cs : List Node) : LoopPost cs [] cs [] where
  hids := by simp
  hsso := by simp [seqSelOnlyL]
  hkept := by simp [curKeptL]
  hgood := by intro x hx; simp at hx
  hyld := by intro i s h; simp at h
  hlast := by intro _ p _; simp

theorem tip_some_of_live {x : Node} (hg : Good x) (hl : x.status ≠ .invalid) : ∃ t, tip x = some t := by
  cases ht : tip x with
  | none => exact absurd ((tip_spec x hg.1).1.mp ht) hl
  | some t => exact ⟨t, rfl⟩

theorem LoopPost.cons {c c' : Node} {trc : List Ev} {cs tk aft : List Node} {tr : List Ev}
    (hpc : PC c c' trc) (hp : LoopPost cs tk aft tr) : LoopPost (c :: cs) (c' :: tk) aft (trc ++ tr) where
  hids := by simp [hpc.hids, ← hp.hids, List.append_assoc]
  hsso := by simp [seqSelOnlyL, hpc.hsso, hp.hsso]
  hkept := by simp [curKeptL, hpc.hkept, hp.hkept]
  hgood := by
    intro x hx; simp only [List.mem_cons] at hx
    rcases hx with rfl | hx
    · exact ⟨hpc.hgood, hpc.hlive⟩
    · exact hp.hgood x hx
  hyld := by
    intro i s h; simp only [List.mem_append] at h
    rcases h with h | h
    · exact ⟨c', by simp, hpc.hyld i s h⟩
    · obtain ⟨x, hx, hi⟩ := hp.hyld i s h
      exact ⟨x, by simp [hx], hi⟩
  hlast := by
    intro hnd p hpp
    simp only [idsL_cons] at hnd
    have hnd1 := (List.nodup_append.mp hnd).1
    have hnd2 := (List.nodup_append.mp hnd).2.1
    have hA : (yl p trc).getLast? = tip c' := by
      rw [yl_congr p (cl c') trc (fun i s hi => hpp c' (by simp) i (hpc.hyld i s hi))]
      exact hpc.hlast hnd1
    have hB := hp.hlast hnd2 p (fun x hx j hj => hpp x (by simp [hx]) j hj)
    rw [yl_append, List.getLast?_append, hA, hB]
    cases tk with
    | nil => simp
    | cons d ds =>
      rw [List.getLast?_cons_cons]
      cases hl : (d :: ds).getLast? with
      | none => simp at hl
      | some l =>
        obtain ⟨hg, hlv⟩ := hp.hgood l (List.mem_of_getLast? hl)
        obtain ⟨t, ht⟩ := tip_some_of_live hg hlv
        simp [ht]

/-- the children ticked by a loop that returned `(done, r)` -/
def ticked (done : List Node) (r : Option (Node × List Node)) : List Node :=
  match r with
  | some (c', _) => done ++ [c']
  | none => done

/-- the children a loop left untouched -/
def after (r : Option (Node × List Node)) : List Node :=
  match r with
  | some (_, rest) => rest
  | none => []

theorem ticked_cons (c : Node) (done : List Node) (r) : ticked (c :: done) r = c :: ticked done r := by
  cases r with
  | none => rfl
  | some p => rfl

/-- trace decomposition of the Sequence loop -/
theorem seqLoop_tr (t : Tick) (ht : TickOK t) (hc : TickC t) :
    ∀ (cs : List Node) (w : Store) (done : List Node) (r : Option (Node × List Node)) (w' : Store) (tr : List Ev),
      WOK w → GoodL cs → seqSelOnlyL cs = true → curKeptL cs = true → seqLoop t w cs = .ok (done, r, w', tr) →
      LoopPost cs (ticked done r) (after r) tr := by
  intro cs
  induction cs with
  | nil =>
    intro w done r w' tr hw _ _ _ h
    simp [seqLoop, pure, Except.pure] at h; obtain ⟨rfl, rfl, rfl, rfl⟩ := h
    exact LoopPost.none []
  | cons c cs ih =>
    intro w done r w' tr hw hg hs hk h
    rw [GoodL_cons] at hg
    simp only [seqSelOnlyL, Bool.and_eq_true] at hs
    simp only [curKeptL, Bool.and_eq_true] at hk
    simp only [seqLoop, bind, Except.bind] at h
    cases htc : t w c with
    | error e => simp [htc] at h
    | ok v =>
      obtain ⟨c', w1, trc⟩ := v
      obtain ⟨_, _, _, hw1⟩ := ht w c c' w1 trc hw hg.1 htc
      have hpc := hc w c c' w1 trc hw hg.1 hs.1 hk.1 htc
      simp only [htc] at h
      by_cases hst : c'.status = .success
      · simp only [hst, ne_eq, not_true_eq_false, ↓reduceIte] at h
        cases hl : seqLoop t w1 cs with
        | error e => simp [hl] at h
        | ok v2 =>
          obtain ⟨done2, r2, w2, tr2⟩ := v2
          simp only [hl, pure, Except.pure, Except.ok.injEq, Prod.mk.injEq] at h
          obtain ⟨rfl, rfl, rfl, rfl⟩ := h
          rw [ticked_cons]
          exact LoopPost.cons hpc (ih w1 done2 r2 w2 tr2 hw1 hg.2 hs.2 hk.2 hl)
      · simp only [ne_eq, hst, not_false_eq_true, ↓reduceIte, pure, Except.pure, Except.ok.injEq, Prod.mk.injEq] at h
        obtain ⟨rfl, rfl, rfl, rfl⟩ := h
        simpa [ticked, after] using LoopPost.cons hpc (LoopPost.none cs)

/-- trace decomposition of the Selector loop -/
theorem selLoop_tr (t : Tick) (ht : TickOK t) (hc : TickC t) :
    ∀ (cs : List Node) (w : Store) (done : List Node) (r : Option (Node × List Node)) (w' : Store) (tr : List Ev),
      WOK w → GoodL cs → seqSelOnlyL cs = true → curKeptL cs = true → selLoop t w cs = .ok (done, r, w', tr) →
      LoopPost cs (ticked done r) (after r) tr := by
  intro cs
  induction cs with
  | nil =>
    intro w done r w' tr hw _ _ _ h
    simp [selLoop, pure, Except.pure] at h; obtain ⟨rfl, rfl, rfl, rfl⟩ := h
    exact LoopPost.none []
  | cons c cs ih =>
    intro w done r w' tr hw hg hs hk h
    rw [GoodL_cons] at hg
    simp only [seqSelOnlyL, Bool.and_eq_true] at hs
    simp only [curKeptL, Bool.and_eq_true] at hk
    simp only [selLoop, bind, Except.bind] at h
    cases htc : t w c with
    | error e => simp [htc] at h
    | ok v =>
      obtain ⟨c', w1, trc⟩ := v
      obtain ⟨_, _, _, hw1⟩ := ht w c c' w1 trc hw hg.1 htc
      have hpc := hc w c c' w1 trc hw hg.1 hs.1 hk.1 htc
      simp only [htc] at h
      by_cases hst : c'.status = .running ∨ c'.status = .success
      · simp only [hst, ↓reduceIte, pure, Except.pure, Except.ok.injEq, Prod.mk.injEq] at h
        obtain ⟨rfl, rfl, rfl, rfl⟩ := h
        simpa [ticked, after] using LoopPost.cons hpc (LoopPost.none cs)
      · simp only [hst, ↓reduceIte] at h
        cases hl : selLoop t w1 cs with
        | error e => simp [hl] at h
        | ok v2 =>
          obtain ⟨done2, r2, w2, tr2⟩ := v2
          simp only [hl, pure, Except.pure, Except.ok.injEq, Prod.mk.injEq] at h
          obtain ⟨rfl, rfl, rfl, rfl⟩ := h
          rw [ticked_cons]
          exact LoopPost.cons hpc (ih w1 done2 r2 w2 tr2 hw1 hg.2 hs.2 hk.2 hl)

/-! ### entries -/

theorem seqEntry_facts (st : Status) (m : Bool) (cur : Option Nat) (cs before rest : List Node) (trR : List Ev)
    (hk : m = true → st = .running → cur.isSome = true)
    (h : seqEntry st m cur cs = .ok (before, rest, trR)) :
    idsL before ++ idsL rest = idsL cs ∧ NoYld trR ∧ (cs ≠ [] → rest ≠ []) ∧
    (seqSelOnlyL cs = true → seqSelOnlyL before = true ∧ seqSelOnlyL rest = true) ∧
    (curKeptL cs = true → curKeptL before = true ∧ curKeptL rest = true) := by
  unfold seqEntry at h
  split at h
  · simp only [pure, Except.pure, Except.ok.injEq, Prod.mk.injEq] at h
    obtain ⟨rfl, rfl, rfl⟩ := h
    refine ⟨by simp [stopInvNonInvalid_idsL], stopInvNonInvalid_noYld cs, ?_,
      fun hs => ⟨by simp [seqSelOnlyL], by rw [stopInvNonInvalid_ssoL]; exact hs⟩,
      fun hc => ⟨by simp [curKeptL], stopInvNonInvalid_curKeptL cs hc⟩⟩
    intro hne he
    have := stopInvNonInvalid_ids cs; rw [he] at this
    cases cs with
    | nil => exact hne rfl
    | cons c cs => simp at this
  · rename_i hst
    split at h
    · rename_i hm
      cases cur with
      | none =>
        have := hk hm (by simpa using hst)
        simp at this
      | some cid =>
        simp only at h
        split at h
        · rename_i a b hsp
          simp only [pure, Except.pure, Except.ok.injEq, Prod.mk.injEq] at h
          obtain ⟨rfl, rfl, rfl⟩ := h
          obtain ⟨e1, e2, c, rest', e3, e4⟩ := splitAtId_spec cid cs _ _ hsp
          subst e3; subst e1
          refine ⟨by simp, NoYld.nil, fun _ => by simp, ?_, ?_⟩
          · intro hs; rw [ssoL_append, Bool.and_eq_true] at hs; exact hs
          · intro hc; rw [curKeptL_append, Bool.and_eq_true] at hc; exact hc
        · simp [throw, throwThe, MonadExceptOf.throw] at h
    · simp only [pure, Except.pure, Except.ok.injEq, Prod.mk.injEq] at h
      obtain ⟨rfl, rfl, rfl⟩ := h
      exact ⟨by simp, NoYld.nil, fun hne => hne, fun hs => ⟨by simp [seqSelOnlyL], hs⟩,
        fun hc => ⟨by simp [curKeptL], hc⟩⟩

theorem selEntry_facts (st : Status) (m : Bool) (cur cur0 : Option Nat) (cs before rest : List Node) (trP : List Ev)
    (h : selEntry st m cur cs = .ok (cur0, before, rest, trP)) :
    idsL before ++ idsL rest = idsL cs ∧ NoYld trP ∧
    (seqSelOnlyL cs = true → seqSelOnlyL before = true ∧ seqSelOnlyL rest = true) ∧
    (curKeptL cs = true → curKeptL before = true ∧ curKeptL rest = true) := by
  unfold selEntry at h
  generalize (if st ≠ .running then cs.head?.map Node.id else cur) = c0 at h
  simp only at h
  split at h
  · cases c0 with
    | none =>
      simp only [pure, Except.pure, Except.ok.injEq, Prod.mk.injEq] at h
      obtain ⟨rfl, rfl, rfl, rfl⟩ := h
      exact ⟨by simp, NoYld.nil, fun hs => ⟨by simp [seqSelOnlyL], hs⟩, fun hc => ⟨by simp [curKeptL], hc⟩⟩
    | some cid =>
      simp only at h
      split at h
      · rename_i a b hsp
        simp only [pure, Except.pure, Except.ok.injEq, Prod.mk.injEq] at h
        obtain ⟨rfl, rfl, rfl, rfl⟩ := h
        obtain ⟨e1, e2, c, rest', e3, e4⟩ := splitAtId_spec cid cs _ _ hsp
        subst e1
        refine ⟨by simp [stopInvAll_idsL], stopInvAll_noYld a, ?_, ?_⟩
        · intro hs; rw [ssoL_append, Bool.and_eq_true] at hs
          exact ⟨by rw [stopInvAll_ssoL]; exact hs.1, hs.2⟩
        · intro hc; rw [curKeptL_append, Bool.and_eq_true] at hc
          exact ⟨stopInvAll_curKeptL a hc.1, hc.2⟩
      · simp [throw, throwThe, MonadExceptOf.throw] at h
  · simp only [pure, Except.pure, Except.ok.injEq, Prod.mk.injEq] at h
    obtain ⟨rfl, rfl, rfl, rfl⟩ := h
    exact ⟨by simp, NoYld.nil, fun hs => ⟨by simp [seqSelOnlyL], hs⟩, fun hc => ⟨by simp [curKeptL], hc⟩⟩

/-! ### composing a composite's trace -/

/-- the common argument for Sequence and Selector: the composite `n'` (id `i`, children `kids = before ++ tk ++ tail`)
    was produced by a loop that ticked `tk`; its trace is `enter, reset events, child traces, kill events, yield`. -/
theorem compose_core (i : Nat) (st : Status) (n' : Node) (kids before tk aft tail rest : List Node)
    (trR trl trK : List Ev)
    (hidn : ids n' = i :: idsL kids) (hid : n'.id = i) (hcl : childless n' = kids.isEmpty)
    (hnodes : ∀ x ∈ kids, ∀ m ∈ nodes x, m ∈ nodes n') (hsib : (kids.map Node.id).Nodup)
    (hkids : kids = before ++ tk ++ tail) (hpost : LoopPost rest tk aft trl) (htail : idsL tail = idsL aft)
    (hR : NoYld trR) (hK : NoYld trK)
    (hlast : ∃ l, tk.getLast? = some l ∧ tip n' = tipOf l.id kids) :
    ids n' = i :: (idsL before ++ idsL rest) ∧
    (∀ j s, Ev.yld j s ∈ [Ev.enter i] ++ trR ++ trl ++ trK ++ [Ev.yld i st] → j ∈ ids n') ∧
    ((ids n').Nodup →
      (yl (cl n') ([Ev.enter i] ++ trR ++ trl ++ trK ++ [Ev.yld i st])).getLast? = tip n') := by
  have e1 : ids n' = i :: (idsL before ++ idsL rest) := by
    rw [hidn, hkids]; simp [htail, ← hpost.hids, List.append_assoc]
  obtain ⟨l, hl, htip⟩ := hlast
  have hlk : l ∈ kids := by
    rw [hkids]; simp [List.mem_of_getLast? hl]
  refine ⟨e1, ?_, ?_⟩
  · intro j s hj
    simp only [List.mem_append, List.mem_singleton] at hj
    rcases hj with (((hj | hj) | hj) | hj) | hj
    · cases hj
    · exact absurd hj (hR j s)
    · obtain ⟨x, hx, hjx⟩ := hpost.hyld j s hj
      rw [hidn]
      exact List.mem_cons_of_mem _ (mem_idsL_of_mem kids x j (by rw [hkids]; simp [hx]) hjx)
    · exact absurd hj (hK j s)
    · cases hj; rw [hidn]; simp
  · intro hnd
    have hne : kids ≠ [] := fun e => by rw [e] at hlk; simp at hlk
    have hroot : cl n' i = false := by
      rw [← hid, cl_root n' hnd, hcl]; simpa using hne
    have hndr : (idsL rest).Nodup := by
      rw [e1] at hnd
      exact (List.nodup_append.mp (List.nodup_cons.mp hnd).2).2.1
    have hp : ∀ x ∈ tk, ∀ j ∈ ids x, cl n' j = cl x j := fun x hx j hj =>
      cl_sub n' x (hnodes x (by rw [hkids]; simp [hx])) hnd j hj
    have := hpost.hlast hndr (cl n') hp
    simp only [yl_append, yl_of_noYld _ _ hR, yl_of_noYld _ _ hK, yl_enter, yl_nil, yl_yld, hroot,
      List.nil_append, List.append_nil, Bool.false_eq_true, ↓reduceIte]
    rw [this, hl, htip, tipOf_eq kids l hlk hsib]
    rfl

/-! ### Sequence / Selector "actual work" -/

theorem seqRun_tr (t : Tick) (ht : TickOK t) (hc : TickC t) (w : Store) (i : Nat) (m : Bool) (before rest : List Node)
    (trR : List Ev) (n' : Node) (w' : Store) (tr : List Ev) (hw : WOK w) (hr : GoodL rest)
    (hsr : seqSelOnlyL rest = true) (hkr : curKeptL rest = true)
    (hsb : seqSelOnlyL before = true) (hkb : curKeptL before = true) (hne : rest ≠ []) (hR : NoYld trR)
    (hgood : Good n') (h : seqRun t w i m before rest trR = .ok (n', w', tr)) :
    ids n' = i :: (idsL before ++ idsL rest) ∧ seqSelOnly n' = true ∧ curKept n' = true ∧
    (∀ j s, Ev.yld j s ∈ tr → j ∈ ids n') ∧ ((ids n').Nodup → (yl (cl n') tr).getLast? = tip n') := by
  simp only [seqRun, bind, Except.bind] at h
  cases hl : seqLoop t w rest with
  | error e => simp [hl] at h
  | ok v =>
    obtain ⟨done, r, w1, trl⟩ := v
    simp only [hl] at h
    have hpost := seqLoop_tr t ht hc rest w done r w1 trl hw hr hsr hkr hl
    obtain ⟨hd, hdn, hds, hw1, hr'⟩ := seqLoop_spec t ht rest w done r w1 trl hw hr hl
    cases r with
    | none =>
      simp only [pure, Except.pure, Except.ok.injEq, Prod.mk.injEq] at h
      obtain ⟨rfl, rfl, rfl⟩ := h
      simp only [ticked, after] at hpost
      simp only at hr'
      have hdne : done ≠ [] := by
        intro e; subst e
        cases rest with
        | nil => exact hne rfl
        | cons a b => simp at hr'
      obtain ⟨hwf, _⟩ := hgood
      simp only [wf, Bool.and_eq_true, decide_eq_true_eq] at hwf
      have hsib := hwf.1.1.2
      cases hgl : done.getLast? with
      | none => simp at hgl; exact absurd hgl hdne
      | some l =>
        have hbl : (before ++ done).getLast? = some l := by rw [List.getLast?_append, hgl]; simp
        have hcore := compose_core i .success (seq i m .success (lastId? (before ++ done)) (before ++ done))
          (before ++ done) before done [] [] rest trR trl [] (by simp) rfl (by simp [childless])
          (fun x hx m hm => by simp only [nodes, List.mem_cons]; exact Or.inr (mem_nodesL_of_mem _ x m hx hm)) hsib (by simp) hpost rfl hR NoYld.nil
          ⟨l, hgl, by simp [tip, lastId?, hbl]⟩
        simp only [List.append_nil] at hcore
        exact ⟨hcore.1, by simp [seqSelOnly, ssoL_append, hsb, hpost.hsso],
          by simp [curKept, curKeptL_append, hkb, hpost.hkept], hcore.2.1, hcore.2.2⟩
    | some p =>
      obtain ⟨c', untouched⟩ := p
      obtain ⟨hc1, hc2, hc3, hidsm, pre, hpre, hlen⟩ := hr'
      simp only [ticked, after] at hpost
      have hsu : seqSelOnlyL untouched = true := by
        rw [hpre, ssoL_append, Bool.and_eq_true] at hsr; exact hsr.2
      have hku : curKeptL untouched = true := by
        rw [hpre, curKeptL_append, Bool.and_eq_true] at hkr; exact hkr.2
      have hT : idsL (if m = true then (untouched, []) else stopInvNonInvalid untouched).1 = idsL untouched ∧
          seqSelOnlyL (if m = true then (untouched, []) else stopInvNonInvalid untouched).1 = true ∧
          curKeptL (if m = true then (untouched, []) else stopInvNonInvalid untouched).1 = true ∧
          NoYld (if m = true then (untouched, []) else stopInvNonInvalid untouched).2 := by
        by_cases hmm : m = true
        · simp only [hmm, ↓reduceIte]; exact ⟨trivial, hsu, hku, NoYld.nil⟩
        · simp only [hmm, Bool.false_eq_true, ↓reduceIte]
          exact ⟨stopInvNonInvalid_idsL untouched, by rw [stopInvNonInvalid_ssoL]; exact hsu,
            stopInvNonInvalid_curKeptL untouched hku, stopInvNonInvalid_noYld untouched⟩
      simp only at h
      generalize (if m = true then (untouched, []) else stopInvNonInvalid untouched) = T at h hT
      obtain ⟨T1, T2⟩ := T
      obtain ⟨hT1, hT2, hT3, hT4⟩ := hT
      simp only [pure, Except.pure, Except.ok.injEq, Prod.mk.injEq] at h
      obtain ⟨rfl, rfl, rfl⟩ := h
      obtain ⟨hwf, _⟩ := hgood
      simp only [wf, Bool.and_eq_true, decide_eq_true_eq] at hwf
      have hsib := hwf.1.1.2
      have hcore := compose_core i c'.status (seq i m c'.status (some c'.id) (before ++ done ++ c' :: T1))
        (before ++ done ++ c' :: T1) before (done ++ [c']) untouched T1 rest trR trl T2 (by simp) rfl
        (by simp [childless]) (fun x hx m hm => by simp only [nodes, List.mem_cons]; exact Or.inr (mem_nodesL_of_mem _ x m hx hm)) hsib (by simp)
        hpost hT1 hR hT4 ⟨c', by simp, by simp [tip]⟩
      have hs' := hpost.hsso; rw [ssoL_append, Bool.and_eq_true] at hs'
      have hk' := hpost.hkept; rw [curKeptL_append, Bool.and_eq_true] at hk'
      simp only [seqSelOnlyL, curKeptL, Bool.and_true] at hs' hk'
      exact ⟨hcore.1, by simp [seqSelOnly, ssoL_append, seqSelOnlyL, hsb, hs'.1, hs'.2, hT2],
        by simp [curKept, curKeptL_append, curKeptL, hkb, hk'.1, hk'.2, hT3], hcore.2.1, hcore.2.2⟩

theorem selRun_tr (t : Tick) (ht : TickOK t) (hc : TickC t) (w : Store) (i : Nat) (m : Bool) (cur0 : Option Nat)
    (before rest : List Node)
    (trR : List Ev) (n' : Node) (w' : Store) (tr : List Ev) (hw : WOK w) (hr : GoodL rest)
    (hsr : seqSelOnlyL rest = true) (hkr : curKeptL rest = true)
    (hsb : seqSelOnlyL before = true) (hkb : curKeptL before = true) (hne : rest ≠ []) (hR : NoYld trR)
    (hgood : Good n') (h : selRun t w i m cur0 before rest trR = .ok (n', w', tr)) :
    ids n' = i :: (idsL before ++ idsL rest) ∧ seqSelOnly n' = true ∧ curKept n' = true ∧
    (∀ j s, Ev.yld j s ∈ tr → j ∈ ids n') ∧ ((ids n').Nodup → (yl (cl n') tr).getLast? = tip n') := by
  simp only [selRun, bind, Except.bind] at h
  cases hl : selLoop t w rest with
  | error e => simp [hl] at h
  | ok v =>
    obtain ⟨done, r, w1, trl⟩ := v
    simp only [hl] at h
    have hpost := selLoop_tr t ht hc rest w done r w1 trl hw hr hsr hkr hl
    obtain ⟨hd, hdn, hds, hw1, hr'⟩ := selLoop_spec t ht rest w done r w1 trl hw hr hl
    cases r with
    | none =>
      simp only [pure, Except.pure, Except.ok.injEq, Prod.mk.injEq] at h
      obtain ⟨rfl, rfl, rfl⟩ := h
      simp only [ticked, after] at hpost
      simp only at hr'
      have hdne : done ≠ [] := by
        intro e; subst e
        cases rest with
        | nil => exact hne rfl
        | cons a b => simp at hr'
      obtain ⟨hwf, _⟩ := hgood
      simp only [wf, Bool.and_eq_true, decide_eq_true_eq] at hwf
      have hsib := hwf.1.1.2
      cases hgl : done.getLast? with
      | none => simp at hgl; exact absurd hgl hdne
      | some l =>
        have hbl : (before ++ done).getLast? = some l := by rw [List.getLast?_append, hgl]; simp
        have hcore := compose_core i .failure (sel i m .failure (lastId? (before ++ done)) (before ++ done))
          (before ++ done) before done [] [] rest trR trl [] (by simp) rfl (by simp [childless])
          (fun x hx m hm => by simp only [nodes, List.mem_cons]; exact Or.inr (mem_nodesL_of_mem _ x m hx hm)) hsib (by simp) hpost rfl hR NoYld.nil
          ⟨l, hgl, by simp [tip, lastId?, hbl]⟩
        simp only [List.append_nil] at hcore
        exact ⟨hcore.1, by simp [seqSelOnly, ssoL_append, hsb, hpost.hsso],
          by simp [curKept, curKeptL_append, hkb, hpost.hkept], hcore.2.1, hcore.2.2⟩
    | some p =>
      obtain ⟨c', untouched⟩ := p
      obtain ⟨hc1, hc2, hidsm, pre, hpre, hlen⟩ := hr'
      simp only [ticked, after] at hpost
      have hsu : seqSelOnlyL untouched = true := by
        rw [hpre, ssoL_append, Bool.and_eq_true] at hsr; exact hsr.2
      have hku : curKeptL untouched = true := by
        rw [hpre, curKeptL_append, Bool.and_eq_true] at hkr; exact hkr.2
      have hT : idsL (if cur0 = some c'.id then (untouched, []) else stopInvNonInvalid untouched).1 = idsL untouched ∧
          seqSelOnlyL (if cur0 = some c'.id then (untouched, []) else stopInvNonInvalid untouched).1 = true ∧
          curKeptL (if cur0 = some c'.id then (untouched, []) else stopInvNonInvalid untouched).1 = true ∧
          NoYld (if cur0 = some c'.id then (untouched, []) else stopInvNonInvalid untouched).2 := by
        by_cases hmm : cur0 = some c'.id
        · simp only [hmm, ↓reduceIte]; exact ⟨trivial, hsu, hku, NoYld.nil⟩
        · simp only [hmm, ↓reduceIte]
          exact ⟨stopInvNonInvalid_idsL untouched, by rw [stopInvNonInvalid_ssoL]; exact hsu,
            stopInvNonInvalid_curKeptL untouched hku, stopInvNonInvalid_noYld untouched⟩
      simp only at h
      generalize (if cur0 = some c'.id then (untouched, []) else stopInvNonInvalid untouched) = T at h hT
      obtain ⟨T1, T2⟩ := T
      obtain ⟨hT1, hT2, hT3, hT4⟩ := hT
      simp only [pure, Except.pure, Except.ok.injEq, Prod.mk.injEq] at h
      obtain ⟨rfl, rfl, rfl⟩ := h
      obtain ⟨hwf, _⟩ := hgood
      simp only [wf, Bool.and_eq_true, decide_eq_true_eq] at hwf
      have hsib := hwf.1.1.2
      have hcore := compose_core i c'.status (sel i m c'.status (some c'.id) (before ++ done ++ c' :: T1))
        (before ++ done ++ c' :: T1) before (done ++ [c']) untouched T1 rest trR trl T2 (by simp) rfl
        (by simp [childless]) (fun x hx m hm => by simp only [nodes, List.mem_cons]; exact Or.inr (mem_nodesL_of_mem _ x m hx hm)) hsib (by simp)
        hpost hT1 hR hT4 ⟨c', by simp, by simp [tip]⟩
      have hs' := hpost.hsso; rw [ssoL_append, Bool.and_eq_true] at hs'
      have hk' := hpost.hkept; rw [curKeptL_append, Bool.and_eq_true] at hk'
      simp only [seqSelOnlyL, curKeptL, Bool.and_true] at hs' hk'
      exact ⟨hcore.1, by simp [seqSelOnly, ssoL_append, seqSelOnlyL, hsb, hs'.1, hs'.2, hT2],
        by simp [curKept, curKeptL_append, curKeptL, hkb, hk'.1, hk'.2, hT3], hcore.2.1, hcore.2.2⟩

/-! ### the tick -/

theorem tickF_C (e : Env) (he : ValidEnv e) : ∀ f : Nat, TickC (tickF f e) := by
  intro f
  induction f with
  | zero => intro w c c' w' tr _ _ _ _ h; simp [tickF] at h
  | succ f ih =>
    have ht : TickOK (tickF f e) := fun w c c' w' tr hw hg h => tickF_good e he f w c c' w' tr hw hg h
    intro w n n' w' tr hw hg hs hk h
    obtain ⟨hgood', hlive', _, _⟩ := tickF_good e he (f+1) w n n' w' tr hw hg h
    cases n with
    | leaf i st k log =>
      simp only [tickF, leafTick, bind, Except.bind] at h
      generalize (if st ≠ .running then leafInit e k else k) = k0 at h
      cases hu : leafUpdate i e w k0 with
      | error err => simp [hu] at h
      | ok v =>
        obtain ⟨k1, o, w1⟩ := v
        simp only [hu, pure, Except.pure, Except.ok.injEq, Prod.mk.injEq] at h
        obtain ⟨rfl, rfl, rfl⟩ := h
        have ho : o ≠ .invalid := by simpa [status] using hlive'
        have hcl : ∀ o' k' l, cl (leaf i o' k' l) i = true := by intro o' k' l; simp [cl, nodes, childless, Node.id]
        refine { hids := by simp, hsso := by simp [seqSelOnly], hkept := by simp [curKept], hgood := hgood',
                 hlive := hlive', hyld := ?_, hlast := ?_ }
        · intro j s hj
          by_cases h1 : st = .running <;> by_cases h2 : o = .running <;> simp [h1, h2] at hj <;> simp [hj]
        · intro _
          by_cases h1 : st = .running <;> by_cases h2 : o = .running <;> simp [h1, h2, yl_yld, hcl, tip, ho]
    | seq i m st cur cs =>
      obtain ⟨hwf, hlo⟩ := hg
      simp only [wf, Bool.and_eq_true, decide_eq_true_eq, Bool.or_eq_true, beq_iff_eq] at hwf
      obtain ⟨⟨⟨⟨⟨hwl, hrun⟩, hoc⟩, hnd⟩, _⟩, _⟩ := hwf
      simp only [leavesOK] at hlo
      simp only [seqSelOnly] at hs
      simp only [curKept, Bool.and_eq_true] at hk
      have hk1 : m = true → st = .running → cur.isSome = true := by
        intro hm hst; subst hm; subst hst; simpa using hk.1
      simp only [tickF, bind, Except.bind] at h
      cases hen : seqEntry st m cur cs with
      | error err => simp [hen] at h
      | ok v =>
        obtain ⟨before, rest, trR⟩ := v
        simp only [hen] at h
        obtain ⟨f1, f2, f3, f4, f5⟩ := seqEntry_facts st m cur cs before rest trR hk1 hen
        by_cases hemp : cs = []
        · subst hemp
          simp only [List.isEmpty_nil, ↓reduceIte, pure, Except.pure, Except.ok.injEq, Prod.mk.injEq] at h
          obtain ⟨rfl, rfl, rfl⟩ := h
          have hcl : cl (seq i m .success none []) i = true := by simp [cl, nodes, nodesL, childless, Node.id]
          refine { hids := by simp, hsso := by simp [seqSelOnly, seqSelOnlyL], hkept := by simp [curKept, curKeptL],
                   hgood := hgood', hlive := hlive', hyld := ?_, hlast := ?_ }
          · intro j s hj
            simp only [List.mem_append, List.mem_singleton] at hj
            rcases hj with (hj | hj) | hj
            · cases hj
            · exact absurd hj (f2 j s)
            · cases hj; simp
          · intro _
            simp [yl_of_noYld _ _ f2, yl_yld, hcl, tip]
        · have hie : cs.isEmpty = false := by simpa using hemp
          simp only [hie, Bool.false_eq_true, ↓reduceIte] at h
          obtain ⟨s1, s2, s3, s4, s5, s6⟩ :=
            seqEntry_spec st m cur cs before rest trR ⟨hwl, hlo⟩ hrun hoc hnd hemp hen
          obtain ⟨r1, r2, r3, r4, r5⟩ := seqRun_tr (tickF f e) ht ih w i m before rest trR n' w' tr hw s3
            (f4 hs).2 (f5 hk.2).2 (f4 hs).1 (f5 hk.2).1 (f3 hemp) f2 hgood' h
          have hids : ids n' = ids (seq i m st cur cs) := by rw [r1, f1]; simp
          exact { hids := hids, hsso := r2, hkept := r3, hgood := hgood', hlive := hlive', hyld := r4,
                  hlast := fun hnd' => r5 (by rw [hids]; exact hnd') }
    | sel i m st cur cs =>
      obtain ⟨hwf, hlo⟩ := hg
      simp only [wf, Bool.and_eq_true, decide_eq_true_eq, Bool.or_eq_true, beq_iff_eq] at hwf
      obtain ⟨⟨⟨⟨⟨hwl, hrun⟩, hoc⟩, hnd⟩, _⟩, _⟩ := hwf
      simp only [leavesOK] at hlo
      simp only [seqSelOnly] at hs
      simp only [curKept] at hk
      simp only [tickF, bind, Except.bind] at h
      by_cases hemp : cs = []
      · subst hemp
        simp only [List.isEmpty_nil, ↓reduceIte, pure, Except.pure, Except.ok.injEq, Prod.mk.injEq] at h
        obtain ⟨rfl, rfl, rfl⟩ := h
        have hcl : cl (sel i m .failure none []) i = true := by simp [cl, nodes, nodesL, childless, Node.id]
        refine { hids := by simp, hsso := by simp [seqSelOnly, seqSelOnlyL], hkept := by simp [curKept, curKeptL],
                 hgood := hgood', hlive := hlive', hyld := ?_, hlast := ?_ }
        · intro j s hj
          simp only [List.mem_cons, List.mem_singleton] at hj
          rcases hj with hj | hj | hj
          · cases hj
          · cases hj; simp
          · simp at hj
        · intro _
          simp [yl_yld, hcl, tip]
      · have hie : cs.isEmpty = false := by simpa using hemp
        simp only [hie, Bool.false_eq_true, ↓reduceIte] at h
        cases hen : selEntry st m cur cs with
        | error err => simp [hen] at h
        | ok v =>
          obtain ⟨cur0, before, rest, trP⟩ := v
          simp only [hen] at h
          obtain ⟨f1, f2, f4, f5⟩ := selEntry_facts st m cur cur0 cs before rest trP hen
          obtain ⟨s1, s2, s3, s4, s5, s6⟩ := selEntry_spec st m cur cur0 cs before rest trP ⟨hwl, hlo⟩ hrun hoc hemp hen
          obtain ⟨r1, r2, r3, r4, r5⟩ := selRun_tr (tickF f e) ht ih w i m cur0 before rest trP n' w' tr hw s3
            (f4 hs).2 (f5 hk).2 (f4 hs).1 (f5 hk).1 s6 f2 hgood' h
          have hids : ids n' = ids (sel i m st cur cs) := by rw [r1, f1]; simp
          exact { hids := hids, hsso := r2, hkept := r3, hgood := hgood', hlive := hlive', hyld := r4,
                  hlast := fun hnd' => r5 (by rw [hids]; exact hnd') }
    | par i p st cur cs => simp [seqSelOnly] at hs
    | dec i k st c => simp [seqSelOnly] at hs

/-! ### histories: every state reached by ticks / interrupts / blackboard writes keeps the hypotheses -/

mutual
theorem fresh_curKept : ∀ n : Node, isFresh n = true → curKept n = true
| leaf _ _ _ _, _ => by simp [curKept]
| seq _ _ s cur cs, h => by
    simp only [isFresh, Bool.and_eq_true, beq_iff_eq] at h
    obtain ⟨⟨⟨rfl, _⟩, hf⟩, _⟩ := h
    simp [curKept, freshL_curKeptL cs hf]
| sel _ _ s cur cs, h => by
    simp only [isFresh, Bool.and_eq_true] at h
    simp [curKept, freshL_curKeptL cs h.1.2]
| par _ _ s cur cs, h => by
    simp only [isFresh, Bool.and_eq_true] at h
    simp [curKept, freshL_curKeptL cs h.1.2]
| dec _ k s c, h => by
    simp only [isFresh, Bool.and_eq_true] at h
    simp [curKept, fresh_curKept c h.2]
theorem freshL_curKeptL : ∀ cs : List Node, isFreshL cs = true → curKeptL cs = true
| [], _ => by simp [curKeptL]
| c :: cs, h => by
    simp only [isFreshL, Bool.and_eq_true] at h
    simp [curKeptL, fresh_curKept c h.1, freshL_curKeptL cs h.2]
end

theorem run_inv : ∀ (ops : List Op) (n : Node) (w : Store) (n' : Node) (w' : Store),
    (∀ op ∈ ops, ValidOp op) → Good n → WOK w → seqSelOnly n = true → curKept n = true →
    run ops n w = .ok (n', w') →
    Good n' ∧ WOK w' ∧ seqSelOnly n' = true ∧ curKept n' = true ∧ ids n' = ids n
| [], n, w, n', w', _, hg, hw, hs, hk, h => by
    simp only [run, Except.ok.injEq, Prod.mk.injEq] at h; obtain ⟨rfl, rfl⟩ := h
    exact ⟨hg, hw, hs, hk, rfl⟩
| op :: ops, n, w, n', w', hops, hg, hw, hs, hk, h => by
    simp only [run] at h
    cases hst : step n w op with
    | error e => simp [hst] at h
    | ok v =>
      obtain ⟨n1, w1, tr⟩ := v
      simp only [hst] at h
      obtain ⟨g1, w1ok, _⟩ := step_good n w op n1 w1 tr (hops op (by simp)) hg hw hst
      have h1 : seqSelOnly n1 = true ∧ curKept n1 = true ∧ ids n1 = ids n := by
        cases op with
        | tick e =>
          simp only [step, tick] at hst
          have hv : ValidEnv e := hops (.tick e) (by simp)
          have hpc := tickF_C e hv _ w n n1 w1 tr hw hg hs hk hst
          exact ⟨hpc.hsso, hpc.hkept, hpc.hids⟩
        | stop =>
          simp only [step, Except.ok.injEq, Prod.mk.injEq] at hst
          obtain ⟨rfl, rfl, _⟩ := hst
          exact ⟨by rw [stopInv_sso]; exact hs, stopInv_curKept n hk, stopInv_ids n⟩
        | poke k v =>
          cases v with
          | some v =>
            simp only [step, Except.ok.injEq, Prod.mk.injEq] at hst
            obtain ⟨rfl, rfl, _⟩ := hst
            exact ⟨hs, hk, rfl⟩
          | none =>
            simp only [step, Except.ok.injEq, Prod.mk.injEq] at hst
            obtain ⟨rfl, rfl, _⟩ := hst
            exact ⟨hs, hk, rfl⟩
      obtain ⟨a, b, c, d, e⟩ := run_inv ops n1 w1 n' w' (fun o ho => hops o (by simp [ho])) g1 w1ok h1.1 h1.2.1 h
      exact ⟨a, b, c, d, by rw [e, h1.2.2]⟩

end C19b

/-! ## the property -/

/-
  FULL STATEMENT AS REQUESTED — it is FALSE (see `C19_last_leaf_counterexample` below):

  theorem C19_last_leaf (e : Env) (he : ValidEnv e) (f : Nat) (w : Store) (n n' : Node) (w' : Store) (tr : List Ev)
      (hs : seqSelOnly n = true) (hg : Good n) (hw : WOK w) (hd : ((nodes n).map Node.id).Nodup)
      (h : tickF f e w n = .ok (n', w', tr)) : tip n' = lastChildlessYield n' tr

  `Good` allows the state "RUNNING memory Sequence whose current child has been removed" (`cur = none`, produced
  only by the edit operations of C13).  If every remaining child of such a sequence is SUCCESS, the tick ticks NO
  child, completes with SUCCESS and points `current_child` at the last (stale) child; tip() is then a leaf that was
  not ticked in this tick, and the trace contains no childless yield at all.
  The theorem below adds the hypothesis `C19b.curKept n` (every RUNNING memory sequence still remembers a current
  child); `C19_last_leaf_reachable` shows that every state reached from a fresh tree by ticks, interrupts and
  blackboard writes satisfies it.
-/

/-- **C19 (last clause)**, with the extra hypothesis `curKept`: in a tree of sequences / selectors over leaves with
    pairwise distinct ids, after a tick tip() is the last childless behaviour that yielded during that tick. -/
theorem C19_last_leaf_partial (e : Env) (he : ValidEnv e) (f : Nat) (w : Store) (n n' : Node) (w' : Store)
    (tr : List Ev) (hs : seqSelOnly n = true) (hg : Good n) (hw : WOK w) (hd : ((nodes n).map Node.id).Nodup)
    (hk : C19b.curKept n = true)
    (h : tickF f e w n = .ok (n', w', tr)) : tip n' = lastChildlessYield n' tr := by
  have hpc := C19b.tickF_C e he f w n n' w' tr hw hg hs hk h
  rw [C19b.lastChildlessYield_eq]
  exact (hpc.hlast hd).symm

/-- the requested statement fails on a `Good` state (a RUNNING memory sequence that lost its current child) -/
theorem C19_last_leaf_counterexample :
    ∃ (e : Env) (f : Nat) (w : Store) (n n' : Node) (w' : Store) (tr : List Ev),
      ValidEnv e ∧ seqSelOnly n = true ∧ Good n ∧ WOK w ∧ ((nodes n).map Node.id).Nodup ∧
      tickF f e w n = .ok (n', w', tr) ∧ tip n' ≠ lastChildlessYield n' tr :=
  ⟨{ outcome := fun _ => .success, guard := fun _ => true, now := 0 }, 2, Store.empty,
   .seq 1 true .running none [.leaf 2 .success (.const .success) [.init, .upd .success, .term .success]],
   .seq 1 true .success (some 2) [.leaf 2 .success (.const .success) [.init, .upd .success, .term .success]],
   Store.empty, [.enter 1, .yld 1 .success],
   fun _ => by simp, by decide, ⟨by decide, by decide⟩, WOK_empty, by decide, rfl, by decide⟩

/-- the tick keeps the shape class, the ids (in pre-order) and the extra hypothesis -/
theorem C19_tick_seqSelOnly (e : Env) (he : ValidEnv e) (f : Nat) (w : Store) (n n' : Node) (w' : Store)
    (tr : List Ev) (hs : seqSelOnly n = true) (hg : Good n) (hw : WOK w) (hk : C19b.curKept n = true)
    (h : tickF f e w n = .ok (n', w', tr)) :
    seqSelOnly n' = true ∧ C19b.curKept n' = true ∧ (nodes n').map Node.id = (nodes n).map Node.id := by
  have hpc := C19b.tickF_C e he f w n n' w' tr hw hg hs hk h
  exact ⟨hpc.hsso, hpc.hkept, hpc.hids⟩

/-- every tick of such a tree yields at least one childless behaviour, and every yield is a node of the tree -/
theorem C19_some_childless_yield (e : Env) (he : ValidEnv e) (f : Nat) (w : Store) (n n' : Node) (w' : Store)
    (tr : List Ev) (hs : seqSelOnly n = true) (hg : Good n) (hw : WOK w) (hd : ((nodes n).map Node.id).Nodup)
    (hk : C19b.curKept n = true) (h : tickF f e w n = .ok (n', w', tr)) :
    (lastChildlessYield n' tr).isSome = true ∧ ∀ i s, Ev.yld i s ∈ tr → ∃ m ∈ nodes n', m.id = i := by
  have hpc := C19b.tickF_C e he f w n n' w' tr hw hg hs hk h
  refine ⟨?_, ?_⟩
  · rw [← C19_last_leaf_partial e he f w n n' w' tr hs hg hw hd hk h]
    obtain ⟨t, ht⟩ := C19b.tip_some_of_live hpc.hgood hpc.hlive
    simp [ht]
  · intro i s hi
    have := hpc.hyld i s hi
    simpa [C19b.ids, List.mem_map] using this

/-- **C19 (last clause) for reachable states**: start from a freshly constructed tree of sequences / selectors over
    leaves with pairwise distinct ids, apply any history of ticks, root interrupts and blackboard writes, then tick:
    tip() is the last childless behaviour that yielded during that tick. -/
theorem C19_last_leaf_reachable (ops : List Op) (n0 n : Node) (w : Store) (hf : isFresh n0 = true)
    (hs : seqSelOnly n0 = true) (hd : ((nodes n0).map Node.id).Nodup)
    (hops : ∀ op ∈ ops, ValidOp op) (hrun : run ops n0 Store.empty = .ok (n, w))
    (e : Env) (he : ValidEnv e) (n' : Node) (w' : Store) (tr : List Ev)
    (h : tick e w n = .ok (n', w', tr)) : tip n' = lastChildlessYield n' tr := by
  obtain ⟨hg, hw, hs', hk, hids⟩ := C19b.run_inv ops n0 Store.empty n w hops (fresh_good n0 hf) WOK_empty hs
    (C19b.fresh_curKept n0 hf) hrun
  have hd' : ((nodes n).map Node.id).Nodup := by
    have : (nodes n).map Node.id = (nodes n0).map Node.id := hids
    rw [this]; exact hd
  exact C19_last_leaf_partial e he _ w n n' w' tr hs' hg hw hd' hk h

/-! non-vacuity: a selector over a memory sequence and a leaf -/
def C19b_example : Node :=
  .sel 1 false .invalid none
    [.seq 2 true .invalid none [.leaf 3 .invalid .probe [], .leaf 4 .invalid .probe []],
     .leaf 5 .invalid .probe []]
def C19b_env (o3 o4 o5 : Status) : Env :=
  { outcome := fun i => if i = 3 then o3 else if i = 4 then o4 else o5, guard := fun _ => true, now := 0 }
example : isFresh C19b_example = true := by decide
example : seqSelOnly C19b_example = true := by decide
example : C19b.curKept C19b_example = true := by decide
example : ((nodes C19b_example).map Node.id).Nodup := by decide
/-- leaf 3 succeeds, leaf 4 keeps running: the tip is leaf 4, the last leaf ticked -/
example : (tick (C19b_env .success .running .failure) Store.empty C19b_example).toOption.map
    (fun r => (tip r.1, lastChildlessYield r.1 r.2.2)) = some (some 4, some 4) := by decide
/-- leaf 3 fails: the sequence fails, the selector falls through to leaf 5 -/
example : (tick (C19b_env .failure .running .success) Store.empty C19b_example).toOption.map
    (fun r => (tip r.1, lastChildlessYield r.1 r.2.2)) = some (some 5, some 5) := by decide
/-- second tick: the memory sequence resumes at leaf 4 (leaf 3 is not ticked again), which now fails -/
example : ((tick (C19b_env .success .running .failure) Store.empty C19b_example).toOption.bind
    (fun r => (tick (C19b_env .success .failure .running) r.2.1 r.1).toOption)).map
    (fun r => (tip r.1, lastChildlessYield r.1 r.2.2, r.2.2.any (fun ev => ev == .enter 3))) = some (some 5, some 5, false) := by decide
/-- an empty composite is childless: it is its own tip -/
example : (tick (C19b_env .success .success .success) Store.empty (.seq 7 false .invalid none [])).toOption.map
    (fun r => (tip r.1, lastChildlessYield r.1 r.2.2)) = some (some 7, some 7) := by decide
