/-
  C04b — Selector, over whole histories.

  `Lemmas/Prefix.lean` proves that `prefixOK` is an invariant of every history (fresh tree; ticks with arbitrary
  well-behaved environments, root interrupts, blackboard pokes).  Here its Selector clause is read off in plain terms
  and combined with the per-tick theorems of `Props/C04.lean`:

   * `C04_reachable_prefix`: in every reachable state, every RUNNING selector (anywhere in the tree) that selected
     child c has that child; without memory every child before it is FAILURE; with memory every child before it is
     FAILURE or INVALID; no child after it contains a RUNNING node.
   * `C04_memory_skipped_not_reticked`: in every reachable state of a tree whose behaviours have pairwise distinct
     ids, one more tick (any fuel, environment, blackboard) of a RUNNING memory selector that selected c enters neither
     the children before c nor any behaviour below them; those children are stop(INVALID)-ed and show INVALID
     afterwards (everything below them too).

  TWO REQUESTED CLAUSES ARE FALSE IN THE MODEL and are refuted here by machine-checked histories:
   * "memory selector: every child before the selected one is FAILURE" and "skipped children stay FAILURE":
     `C04_memory_before_counterexample` — a re-entered memory selector stop(INVALID)s the higher priorities it skips,
     so they show INVALID (as the C04 statement itself says: "with memory, higher-priority children that are skipped
     are not ticked and show INVALID").
   * "memory selector: every child after the selected one is INVALID": `C04_memory_after_counterexample` — finding K1
     (`C04_stale_counterexample`) applies with memory too: on fresh entry the remembered selection is reset to the
     first child, so when the first child is selected the lower priorities keep their stale FAILURE / SUCCESS.
-/
import PyTreesProofs.Lemmas.Prefix
import PyTreesProofs.Props.C04
set_option linter.unusedVariables false
set_option linter.unusedSimpArgs false
open Node

/-- **in every reachable state, the siblings of the selected child of a RUNNING selector**: the selected child
    exists; on every decomposition of the children at it, without memory the children before it are FAILURE, with
    memory they are FAILURE or INVALID, and the children after it contain no RUNNING node (they may hold a stale
    SUCCESS / FAILURE: finding K1). -/
theorem C04_reachable_prefix (ops : List Op) (n n' : Node) (w' : Store) (hf : isFresh n = true)
    (hops : ∀ op ∈ ops, ValidOp op) (h : run ops n Store.empty = .ok (n', w')) :
    ∀ i m c cs, sel i m .running (some c) cs ∈ nodes n' →
      (∃ pre x post, cs = pre ++ x :: post ∧ x.id = c) ∧
      ∀ pre x post, cs = pre ++ x :: post → x.id = c →
        (m = false → ∀ y ∈ pre, y.status = .failure) ∧
        (m = true → ∀ y ∈ pre, y.status = .failure ∨ y.status = .invalid) ∧
        (∀ y ∈ post, noRun y = true) := by
  intro i m c cs hm
  have hg := (reachable_good ops n n' w' hf hops h).1
  have hp := prefixOK_of_mem_nodes n' _ (reachable_prefixOK ops n n' w' hf hops h) hm
  have hwm := wf_of_mem_nodes n' _ hg.1 hm
  simp only [wf, Bool.and_eq_true, decide_eq_true_eq] at hwm
  obtain ⟨⟨⟨⟨⟨hwl, _⟩, hoc⟩, hnd⟩, _⟩, hcur⟩ := hwm
  constructor
  · rw [curOK_iff] at hcur
    obtain ⟨x, hx, hxc, _⟩ := hcur c rfl
    obtain ⟨pre, post, e⟩ := List.append_of_mem hx
    exact ⟨pre, x, post, e, hxc⟩
  · intro pre x post e hxc
    subst e
    have hne : ∀ y ∈ pre, y.id ≠ c := ids_ne_of_nodup hxc hnd
    simp only [prefixOK, selOK, Bool.and_eq_true, bne_self_eq_false, Bool.false_or] at hp
    have hpre := (selPre_append m c x post hxc pre hne).mp hp.1
    refine ⟨?_, ?_, ?_⟩
    · intro hm' y hy
      rcases hpre y hy with h1 | h1
      · exact h1
      · rw [hm'] at h1; exact absurd h1.1 (by simp)
    · intro _ y hy
      rcases hpre y hy with h1 | h1
      · exact Or.inl h1
      · exact Or.inr h1.2
    · intro y hy
      rw [onlyCur_iff] at hoc
      rcases hoc y (by simp [hy]) with h1 | h1
      · exact h1
      · exfalso
        rw [List.map_append, List.map_cons, List.nodup_append] at hnd
        have := (List.nodup_cons.mp hnd.2.1).1
        apply this
        rw [hxc, Option.some.inj h1]
        exact List.mem_map.mpr ⟨y, hy, rfl⟩

/-- **higher priorities skipped thanks to memory are not re-ticked** (and show INVALID, not FAILURE), in every
    reachable state of a tree whose behaviours have pairwise distinct ids: take one more tick — any fuel, environment
    and blackboard — of a RUNNING memory selector that selected child c.  The selected child exists, and on every
    decomposition `cs = pre ++ x :: post` of the children at it:
     * the children `pre` before c are FAILURE or INVALID before the tick;
     * after the tick the children start with `(stopInvAll pre).1`: the same children (same ids), stop(INVALID)-ed,
       every node of them INVALID;
     * the trace contains no `enter` event for a child in `pre` nor for any behaviour below such a child. -/
theorem C04_memory_skipped_not_reticked (ops : List Op) (n n' : Node) (w' : Store) (hf : isFresh n = true)
    (hu : ((nodes n).map Node.id).Nodup) (hops : ∀ op ∈ ops, ValidOp op)
    (h : run ops n Store.empty = .ok (n', w'))
    (i c : Nat) (cs : List Node) (hm : sel i true .running (some c) cs ∈ nodes n')
    (f : Nat) (e : Env) (w : Store) (n2 : Node) (w2 : Store) (tr : List Ev)
    (ht : tickF f e w (sel i true .running (some c) cs) = .ok (n2, w2, tr)) :
    (∃ pre x post, cs = pre ++ x :: post ∧ x.id = c) ∧
    ∀ pre x post, cs = pre ++ x :: post → x.id = c →
      (∀ y ∈ pre, y.status = .failure ∨ y.status = .invalid) ∧
      (∃ l, n2.children = (stopInvAll pre).1 ++ l) ∧
      (stopInvAll pre).1.map Node.id = pre.map Node.id ∧
      allInvL (stopInvAll pre).1 = true ∧ (∀ y ∈ (stopInvAll pre).1, y.status = .invalid) ∧
      (∀ y ∈ pre, ∀ z ∈ nodes y, Ev.enter z.id ∉ tr) := by
  obtain ⟨hex, hall⟩ := C04_reachable_prefix ops n n' w' hf hops h i true c cs hm
  refine ⟨hex, ?_⟩
  intro pre x post e1 hxc
  have hstat := (hall pre x post e1 hxc).2.1 rfl
  cases f with
  | zero => simp [tickF] at ht
  | succ f =>
    have hg := (reachable_good ops n n' w' hf hops h).1
    have hwm := wf_of_mem_nodes n' _ hg.1 hm
    simp only [wf, Bool.and_eq_true, decide_eq_true_eq] at hwm
    have hnds : (cs.map Node.id).Nodup := hwm.1.1.2
    have hwl : wfL cs = true := hwm.1.1.1.1.1
    rw [e1] at hnds hwl
    have hne := ids_ne_of_nodup hxc hnds
    have hsp : splitAtId c cs = some (pre, x :: post) := by
      rw [e1]; exact splitAtId_append_cons c x post hxc pre hne
    have hcs : cs ≠ [] := by rw [e1]; simp
    obtain ⟨cur0, before, rest, trP, failed, r, trL, hen, _, hshape⟩ :=
      C04_tick_shape f e w i true .running (some c) cs n2 w2 tr hcs ht
    rw [C04_entry_memory .running (some c) cs pre (x :: post) c (by simp [C04_cur0]) hsp] at hen
    simp only [Except.ok.injEq, Prod.mk.injEq] at hen
    obtain ⟨rfl, rfl, rfl, rfl⟩ := hen
    have hch : ∃ l, n2.children = (stopInvAll pre).1 ++ l := by
      cases r with
      | none => exact ⟨failed, hshape.2⟩
      | some p => exact ⟨_, by rw [hshape.2, List.append_assoc]⟩
    obtain ⟨_, q2, q3⟩ := stopInvAll_spec pre (wfL_append.mp hwl).1
    -- distinct ids below this selector
    have hnd : ((nodes (sel i true .running (some c) cs)).map Node.id).Nodup :=
      Prefix.ids_nodup_of_mem_nodes (by rw [run_nodes_ids ops n Store.empty n' w' h]; exact hu) hm
    simp only [nodes, List.map_cons, Node.id] at hnd
    rw [e1] at hnd
    have hE := Prefix.selResume_enters f e w i c cs pre (x :: post) n2 w2 tr hsp ht
    exact ⟨hstat, hch, q3, q2, allInvL_status q2, Prefix.not_enter_before i pre (x :: post) tr hE hnd⟩

/-! ### the requested clauses that do not hold -/

/-- **"memory selector: FAILURE before the selected child" / "skipped children stay FAILURE" is false**: tick 1
    (F, R, _) selects child 3 with child 2 FAILURE; on tick 2 the selector resumes at child 3 and stop(INVALID)s the
    skipped child 2, which shows INVALID from then on (`selPreStrict`, the requested clause, is false in that reachable
    state; the corrected invariant `prefixOK` holds). -/
theorem C04_memory_before_counterexample :
    isFresh Prefix.selMem = true ∧
    (Prefix.reach [.tick (Prefix.env3 .failure .running .failure)] Prefix.selMem).map Prefix.view =
      some [(1, .running), (2, .failure), (3, .running), (4, .invalid)] ∧
    (Prefix.reach [.tick (Prefix.env3 .failure .running .failure), .tick (Prefix.env3 .success .running .failure)]
        Prefix.selMem).map (fun n => (Prefix.view n, selPreStrict 3 n.children, prefixOK n)) =
      some ([(1, .running), (2, .invalid), (3, .running), (4, .invalid)], false, true) :=
  ⟨by decide, by decide, by decide⟩

/-- **"memory selector: INVALID after the selected child" is false** (K1 with memory): all three probes fail, then
    on the fresh re-entry the first child is RUNNING: children 3 and 4 keep the stale FAILURE of the previous tick. -/
theorem C04_memory_after_counterexample :
    isFresh Prefix.selMem = true ∧
    (Prefix.reach [.tick (Prefix.env3 .failure .failure .failure), .tick (Prefix.env3 .running .running .failure)]
        Prefix.selMem).map (fun n => (Prefix.view n, selPreStrict 2 n.children, prefixOK n)) =
      some ([(1, .running), (2, .running), (3, .failure), (4, .failure)], false, true) :=
  ⟨by decide, by decide⟩

/-! ### non-vacuity: a memory selector of three probes RUNNING at the second -/

/-- one tick: probe 2 fails, probe 3 is RUNNING -/
def C04b_ops : List Op := [.tick (Prefix.env3 .failure .running .failure)]

/-- the state reached by `C04b_ops` from the fresh `Prefix.selMem` -/
def C04b_reached : Node :=
  .sel 1 true .running (some 3)
    [.leaf 2 .failure .probe [.init, .upd .failure, .term .failure], .leaf 3 .running .probe [.init, .upd .running],
     .leaf 4 .invalid .probe []]

theorem C04b_ops_valid : ∀ op ∈ C04b_ops, ValidOp op := by
  intro op hop; simp only [C04b_ops, List.mem_singleton] at hop; subst hop
  exact Prefix.env3_valid _ _ _ (by decide) (by decide) (by decide)

example : isFresh Prefix.selMem = true := by decide
example : ((nodes Prefix.selMem).map Node.id).Nodup := by decide
theorem C04b_run : run C04b_ops Prefix.selMem Store.empty = .ok (C04b_reached, Store.empty) := by rfl
example : C04b_reached ∈ nodes C04b_reached := self_mem_nodes _
-- one more tick exists; probe 2 would now SUCCEED, but it is not entered; it is stop(INVALID)-ed
example : (tick (Prefix.env3 .success .running .failure) Store.empty C04b_reached).toOption.map
    (fun r => (Prefix.view r.1, r.2.2)) =
    some ([(1, .running), (2, .invalid), (3, .running), (4, .invalid)],
      [.enter 1, .term 2 .invalid, .enter 3, .upd 3 .running, .yld 3 .running, .yld 1 .running]) := by decide
-- the theorems applied to this history
example : ∀ y ∈ [Node.leaf 2 .failure .probe [.init, .upd .failure, .term .failure]],
    y.status = .failure ∨ y.status = .invalid :=
  ((C04_reachable_prefix C04b_ops Prefix.selMem C04b_reached Store.empty (by decide) C04b_ops_valid C04b_run
    1 true 3 _ (self_mem_nodes _)).2 _ (.leaf 3 .running .probe [.init, .upd .running]) [.leaf 4 .invalid .probe []]
    rfl rfl).2.1 rfl
example (f : Nat) (e : Env) (w : Store) (n2 : Node) (w2 : Store) (tr : List Ev)
    (ht : tickF f e w C04b_reached = .ok (n2, w2, tr)) : Ev.enter 2 ∉ tr :=
  ((C04_memory_skipped_not_reticked C04b_ops Prefix.selMem C04b_reached Store.empty (by decide) (by decide)
    C04b_ops_valid C04b_run 1 3 _ (self_mem_nodes _) f e w n2 w2 tr ht).2
    [.leaf 2 .failure .probe [.init, .upd .failure, .term .failure]] (.leaf 3 .running .probe [.init, .upd .running])
    [.leaf 4 .invalid .probe []] rfl rfl).2.2.2.2.2 (.leaf 2 .failure .probe [.init, .upd .failure, .term .failure])
    (by simp) _ (self_mem_nodes _)
-- a selector WITHOUT memory: FAILURE before the selected child
example : (Prefix.reach [.tick (Prefix.env3 .failure .failure .running),
    .tick (Prefix.env3 .failure .running .failure)] Prefix.selNoMem).map Prefix.view =
    some [(1, .running), (2, .failure), (3, .running), (4, .invalid)] := by decide
